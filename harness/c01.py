"""C01 — QCOW2 reads. Writer: gen_qcow2.py."""
from __future__ import annotations

import random

import core
import gen_qcow2
from core import Built

PROPERTY = "C01"
RULE = ("seeded generator (gen_qcow2): cluster_bits 9..21, version 2/3, standard and extended L2, per-cluster / per-sub-cluster "
        "states (unallocated, normal, zero-plain, zero-alloc, compressed raw-deflate incl. unaligned offsets), table and cluster "
        "placement (sequential/reversed/shuffled, gaps, host offsets ≥ 4 GiB), external data file, backing none/raw (shorter, "
        "longer, with holes)/qcow2 chains, several L2 tables, L1 larger than needed; requests at cluster / sub-cluster / L2-table "
        "edges ±1, tail, full, random as one history. Non-trivial = ≥ 2 different cluster states and a request crossing a cluster "
        "boundary; distinct recipe hash.")
ASSUMPTIONS = ["zlib raw inflate is a parameter of the theorems; the driver instantiates it with Hv/Prim/Inflate.lean (checked against zlib by this correspondence)",
               "dissect.util AlignedStream as transcribed", "lru_cache / cached_property transparency (file immutable)", "cstruct parsing (layouts re-probed)",
               "zstd compression is not available in the environment (gate, C12)"]
TIMEOUT_CASE = 40.0


def tokens(t, P=""):
    toks = []
    if t.backing_truth is not None:
        toks += tokens(t.backing_truth, P + "backing.")
    elif t.backing_img is not None:
        toks.append(f"R:{P}backing")
    img = "img" if P == "" else P[:-1]
    data = (P + "data") if "data" in t.files else "-"
    toks.append(f"L:{img}:{data}:-")
    return toks


def generate(seed, tier):
    rng = random.Random(f"C01/{seed}/{tier}")
    n = 150 if tier == "quick" else 2500
    cases = []
    for i in range(n):
        r = gen_qcow2.gen_recipe(rng, tier, nsnaps=0)
        t = gen_qcow2.Truth(r)
        qs = gen_qcow2.gen_queries(rng, t, 8 if tier == "quick" else 14)
        align = rng.choice([8192] * 6 + [512, 1536, 4096, 65536, 1 << 20])
        cases.append({"id": f"g{i}", "recipe": r, "align": align, "queries": qs})
    return cases


def group_by_env(cases):
    by = {}
    for c in cases:
        by.setdefault(c.get("align", 8192), []).append(c)
    return [({"DISSECT_STREAM_BUFFER_SIZE": a}, cs) for a, cs in sorted(by.items())]


_cache = {}


def truth_of(case):
    k = case["id"] + core.case_hash(case)
    if k not in _cache:
        _cache.clear()
        _cache[k] = gen_qcow2.Truth(case["recipe"])
    return _cache[k]


def build(case):
    t = truth_of(case)
    truth = core.truth_ops(t.size, t.read, case["queries"])
    r = case["recipe"]
    states = {v[0] for v in r["clusters"].values()}
    cs = 1 << r["cluster_bits"]
    crosses = any(q[2] > 0 and q[1] < t.size and q[1] // cs != (min(q[1] + q[2], t.size) - 1) // cs for q in case["queries"])
    branches = sorted(f"st_{s}" for s in states) + [f"v{r['version']}", "ext" if r["ext"] else "std"] + \
        ([f"data_{r['datafile']}"] if r.get("datafile") else []) + ([f"backing_{r['backing']['kind']}"] if r.get("backing") else [])
    return Built(dict(t.files), truth, {"branches": branches, "crosses": crosses, "in_scope": True, "states": len(states), "tokens": tokens(t)})


def impl_run(case, built):
    t = truth_of(case)
    q = gen_qcow2.open_impl(t)
    if q.align != case["align"]:
        raise RuntimeError(f"stream align {q.align} != case align {case['align']}")
    return core.impl_ops(q, case["queries"])


def spec_line_wanted(toks):
    """the pointwise specification `QCow2.guest` is evaluated by the driver for images without a qcow2 backing layer
    (a lower qcow2 layer would be re-walked for every unallocated byte of the top layer)"""
    return sum(1 for t in toks if t.startswith("L:")) == 1


def model_lines(case, built):
    toks = built.info["tokens"]
    a = case["align"]
    ops = " ".join(core.op_tokens(case["queries"]))
    lines = core.file_lines(built.files) + [f"qcow2.open {a} " + " ".join(toks),
                                            f"qcow2.stream {a} {len(toks)} " + " ".join(toks) + " " + ops]
    if spec_line_wanted(toks):
        lines.append(f"qcow2.spec {a} {len(toks)} " + " ".join(toks) + " " + ops)
    return lines


def model_parse(case, built, out):
    """wf = the driver's `conformantb` on every contributing layer (the hypothesis of `qcow2_read_correct`);
    spec_eq_model = the model's answers equal the answers computed from the pointwise specification `guest`
    (an instance of the theorem; only meaningful inside wf)."""
    ok = bool(out) and out[0].startswith("ok")
    wf = ok and ("wf=1" in out[0])
    answers = core.parse_stream_answer(out[1]) if len(out) > 1 else None
    spec = core.parse_stream_answer(out[2]) if len(out) > 2 else None
    rec = {"answers": answers, "wf": wf, "open": out[0] if out else None}
    if spec is not None and wf:
        rec["spec_eq_model"] = (spec == answers)
        if spec != answers:
            rec["spec"] = spec
    return rec


def nontrivial(case, built, model):
    return bool(model.get("wf")) and built.info["crosses"] and built.info["states"] >= 2


def search(seed, broken, budget):
    rng = random.Random(f"C01/search/{seed}")
    cases = []
    for i in range(min(budget, 400)):
        r = gen_qcow2.gen_recipe(rng, "quick", nsnaps=0)
        t = gen_qcow2.Truth(r)
        cases.append({"id": f"s{i}", "recipe": r, "align": rng.choice([8192, 512, 65536]), "queries": gen_qcow2.gen_queries(rng, t, 10)})
    return cases


# ---- adapters used by C08 / C13
def open_impl(case, built):
    return gen_qcow2.open_impl(truth_of(case))


def stream_prefix(case, built):
    toks = built.info["tokens"]
    return f"qcow2.stream {case['align']} {len(toks)} " + " ".join(toks)


def open_line(case, built):
    return f"qcow2.open {case['align']} " + " ".join(built.info["tokens"])


def truth_reader(case):
    t = truth_of(case)
    return t.size, t.read, 512
