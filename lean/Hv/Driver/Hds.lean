import Hv.Driver.Core
import Hv.Hds
namespace Hv.Driver
open Hv

/-- open a chain of HDS files `ids` (first = base ... last = top); each layer's parent is the
    buffered *stream* of the layer below (`parent.seek(off); parent.read(n)`) -/
def hdsChain (st : St) (align : Nat) : List String → Except Err (Option (Hds.Hds))
  | [] => .ok none
  | ids =>
    ids.foldlM (fun (acc : Option Hds.Hds) id => do
      let some fh := st.file? id | throw .other
      let parent : Option Hds.Reader := acc.map (fun pv =>
        fun off n => (do
          let (_, s) ← (AS.init pv.size align).seek off .set
          let (b, _) ← s.read pv.read n
          pure b))
      let v ← Hds.open fh parent
      pure (some v)) none

/-- guest content of a chain, layer by layer -/
def hdsChainGuest (st : St) : List String → (Nat → UInt8)
  | ids => ids.foldl (fun (pc : Nat → UInt8) id =>
      match st.file? id with
      | none => pc
      | some fh => match Hds.open fh (some (fun _ _ => .ok [])) with
        | .ok v => v.guest pc
        | .error _ => pc) (fun _ => 0)

def hdsCmd (st : St) : List String → String
  | "hds.open" :: align :: ids =>
    match hdsChain st (align.toNat?.getD 8192) ids with
    | .ok (some v) => s!"ok size={v.size} cs={v.clusterSize} mult={v.mult} n={v.bat.size} wf={if v.wfb then 1 else 0}"
    | .ok none => "bad-args"
    | .error e => s!"err {e}"
  | "hds.stream" :: align :: nids :: rest =>
    match align.toNat?, nids.toNat? with
    | some a, some k =>
      let ids := rest.take k
      let ops := rest.drop k
      match hdsChain st a ids with
      | .ok (some v) => runStream v.read v.size a ops
      | .ok none => "bad-args"
      | .error e => s!"err {e}"
    | _, _ => "bad-args"
  | "hds.spec" :: off :: len :: ids =>
    match off.toNat?, len.toNat?, hdsChain st 8192 ids with
    | some o, some l, .ok (some v) => fmtBytes (slice (hdsChainGuest st ids) o (min l (v.size - o)))
    | _, _, .error e => s!"err {e}"
    | _, _, _ => "bad-args"
  | _ => "bad-cmd"

end Hv.Driver
