/-
  C05 — VDI: every byte range reads as the guest-visible content.
-/
import HvProofs.Vdi
import HvProofs.Stream
namespace Hv.C05
open Hv Hv.Vdi

/-! extracted values = format specification (VirtualBox VDICore.h header v1.1) -/
theorem UNALLOCATED_spec : Extracted.vdi.UNALLOCATED = -1 := by decide
theorem SPARSE_spec : Extracted.vdi.SPARSE = -2 := by decide
theorem VDI_SIGNATURE_spec : Extracted.vdi.VDI_SIGNATURE = 0xBEDA107F := by decide
theorem header_layout_spec :
    Extracted.vdi.HeaderDescriptor.Signature = ⟨0x40, 4, false, 0, 32⟩ ∧
    Extracted.vdi.HeaderDescriptor.BlocksOffset = ⟨0x154, 4, false, 0, 32⟩ ∧
    Extracted.vdi.HeaderDescriptor.DataOffset = ⟨0x158, 4, false, 0, 32⟩ ∧
    Extracted.vdi.HeaderDescriptor.SectorSize = ⟨0x168, 4, false, 0, 32⟩ ∧
    Extracted.vdi.HeaderDescriptor.DiskSize = ⟨0x170, 8, false, 0, 64⟩ ∧
    Extracted.vdi.HeaderDescriptor.BlockSize = ⟨0x178, 4, false, 0, 32⟩ ∧
    Extracted.vdi.HeaderDescriptor.BlocksInHDD = ⟨0x180, 4, false, 0, 32⟩ := by decide

/-- **vdi_read_correct**: for every well-formed image (any block size, any block map, any
    physical placement) and every request — also one running past the end of the disk —
    `_read` returns exactly the guest bytes, clamped to the disk size. -/
theorem vdi_read_correct (v : Vdi) (pc : Nat → UInt8) (hwf : WF v) (hp : ParentOK v pc)
    (off len : Nat) :
    read v off len = .ok (slice (guest v pc) off (min len (v.size - off))) :=
  read_correct v pc hwf hp off len

/-- in the vocabulary of the property: the reader reads as the guest disk -/
theorem vdi_reads_as (v : Vdi) (pc : Nat → UInt8) (hwf : WF v) (hp : ParentOK v pc) :
    ReadsAs (read v) ⟨v.size, guest v pc⟩ := by
  intro off len h
  rw [vdi_read_correct v pc hwf hp]
  congr 2
  simp only at h
  omega

/-- the backend contract of the buffered stream layer (C08), for every buffer size -/
theorem vdi_backendOK (v : Vdi) (pc : Nat → UInt8) (hwf : WF v) (hp : ParentOK v pc) (align : Nat) :
    BackendOK v.size align (read v) (guest v pc) :=
  backendOK_of_clamped v.size align (read v) (guest v pc) (vdi_read_correct v pc hwf hp)

/-- **vdi_stream_correct**: the opened VDI *stream* (buffered layer over `_read`) returns,
    for any history of operations and any buffer size, what the guest-content array returns. -/
theorem vdi_stream_correct (v : Vdi) (pc : Nat → UInt8) (hwf : WF v) (hp : ParentOK v pc)
    (align : Nat) (ha : 0 < align) (ops : List Op) :
    AS.run (read v) (AS.init v.size align) ops = Spec.run (guest v pc) ⟨v.size, 0⟩ ops :=
  AS.run_refines ops _ (AS.init_inv _ _ ha) (vdi_backendOK v pc hwf hp align)

/-- **vdi_read_terminates** (also a C11 obligation): for *arbitrary* header and map
    contents the read loop makes progress. -/
theorem vdi_read_terminates (v : Vdi)
    (hpar : ∀ p, v.parent = some p → ∀ o l, p o l ≠ .error .nonTermination) (off len : Nat) :
    read v off len ≠ .error .nonTermination :=
  read_terminates v hpar off len

/-! non-vacuity: a concrete 3-block image (blocks stored in reverse order, one zero block)
    satisfies `WF`, and a cross-block read evaluates to the expected bytes. -/
def exFile : File := ⟨16, fun i => UInt8.ofNat (100 + i)⟩
def exVdi : Vdi := { fh := exFile, dataOffset := 4, blockSize := 4, sectorSize := 512, size := 11,
                     map := #[1, -2, 0], parent := none }

example : WF exVdi := by
  refine ⟨by decide, by decide, ?_⟩
  intro i h
  have : i = 0 ∨ i = 1 ∨ i = 2 := by simp [exVdi] at h; omega
  rcases this with rfl | rfl | rfl <;> simp [exVdi, exFile]

example : read exVdi 2 8 = .ok [110, 111, 0, 0, 0, 0, 104, 105] := by decide

end Hv.C05
