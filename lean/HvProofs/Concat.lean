/-
  HvProofs.Concat — multi-extent assembly: the VMDK extent walk (`VMDK.read_sectors`) and the
  Parallels `StorageStream._read` return the concatenation of the extents.
-/
import Hv.Concat
import HvProofs.Basic
namespace Hv.Concat
open Hv Hv.Vmdk

/-! ### the pointwise spec -/

theorem concat_head (p : Part) (ps : List Part) (o : Nat) (h : o < p.sectors * 512) :
    concat (p :: ps) o = p.content o := by
  simp [concat, h]

theorem concat_tail (p : Part) (ps : List Part) (o : Nat) (h : p.sectors * 512 ≤ o) :
    concat (p :: ps) o = concat ps (o - p.sectors * 512) := by
  have : ¬ o < p.sectors * 512 := by omega
  simp [concat, this]

/-- sectors of the disks -/
def sectorsOf (ds : List Vmdk.Disk) : Nat := (ds.map (·.sectorCount)).sum

@[simp] theorem sectorsOf_nil : sectorsOf [] = 0 := rfl
@[simp] theorem sectorsOf_cons (d : Vmdk.Disk) (ds : List Vmdk.Disk) :
    sectorsOf (d :: ds) = d.sectorCount + sectorsOf ds := by
  simp [sectorsOf]

theorem readAs_sectors : ∀ (ds : List Vmdk.Disk) (ps : List Part), ReadAs ds ps → sectorsOf ds = total ps
  | [], [], _ => rfl
  | [], _ :: _, h => by cases h
  | _ :: _, [], h => by cases h
  | d :: ds, p :: ps, h => by
    have := readAs_sectors ds ps h.2
    simp only [sectorsOf_cons, total, this, h.1.1]

/-! ### `_disk_offsets` of a contiguous layout -/

/-- the fold of `VMDK.__init__`'s offset bookkeeping -/
def offStep (acc : List Nat × Nat × Nat) (d : Vmdk.Disk) : List Nat × Nat × Nat :=
  ((if acc.2.2 ≠ 0 then acc.1 ++ [acc.2.1] else acc.1), acc.2.1 + d.sectorCount, acc.2.2 + d.size)

theorem diskOffsets_eq (v : Vmdk) : v.diskOffsets = (v.disks.toList.foldl offStep ([], 0, 0)).1 := rfl

/-- once the accumulated size is non-zero every further disk contributes its start sector -/
theorem offStep_foldl : ∀ (ds : List Vmdk.Disk) (acc : List Nat) (sc sz : Nat), sz ≠ 0 → Contiguous sc ds →
    (ds.foldl offStep (acc, sc, sz)).1 = acc ++ ds.map (·.sectorOffset)
  | [], acc, sc, sz, _, _ => by simp
  | d :: ds, acc, sc, sz, hsz, hc => by
    obtain ⟨h1, _, _, h4⟩ := hc
    simp only [List.foldl_cons, offStep, ne_eq, hsz, not_false_eq_true, if_true]
    rw [offStep_foldl ds _ _ _ (by omega) h4]
    simp [h1]

/-- closed form: the start sectors of the disks after the first -/
theorem diskOffsets_contiguous (v : Vmdk) (h : Contiguous 0 v.disks.toList) :
    v.diskOffsets = v.disks.toList.tail.map (·.sectorOffset) := by
  rw [diskOffsets_eq]
  cases hl : v.disks.toList with
  | nil => rfl
  | cons d ds =>
    rw [hl] at h
    obtain ⟨h1, h2, h3, h4⟩ := h
    simp only [List.foldl_cons, offStep, ne_eq, not_true_eq_false, if_false, List.tail_cons]
    rw [offStep_foldl ds _ _ _ (by omega) h4]
    simp

/-- bisecting the start sectors of the later disks finds the disk that contains `sector` -/
theorem bisect_contig (sector : Nat) : ∀ (ds : List Vmdk.Disk) (d : Vmdk.Disk) (start : Nat),
    Contiguous start (d :: ds) → start ≤ sector → sector < start + sectorsOf (d :: ds) →
    ∃ e, (d :: ds)[Vmdk.bisectRight (ds.map (·.sectorOffset)) sector]? = some e ∧
      e.sectorOffset ≤ sector ∧ sector < e.sectorOffset + e.sectorCount
  | [], d, start, hc, hlo, hhi => by
    refine ⟨d, by simp [Vmdk.bisectRight], ?_, ?_⟩
    · rw [hc.1]; exact hlo
    · rw [hc.1]; simpa using hhi
  | e :: es, d, start, hc, hlo, hhi => by
    obtain ⟨h1, h2, h3, h4⟩ := hc
    have he : e.sectorOffset = start + d.sectorCount := h4.1
    by_cases hle : e.sectorOffset ≤ sector
    · obtain ⟨x, hx, hx1, hx2⟩ := bisect_contig sector es e (start + d.sectorCount) h4 (by omega)
        (by simp only [sectorsOf_cons] at hhi ⊢; omega)
      refine ⟨x, ?_, hx1, hx2⟩
      simp only [Vmdk.bisectRight, List.map_cons, List.takeWhile_cons, hle, decide_true, if_true,
        List.length_cons, List.getElem?_cons_succ]
      exact hx
    · refine ⟨d, ?_, by omega, by omega⟩
      simp [Vmdk.bisectRight, hle]

/-! ### the extent walk -/

theorem loop_zero (v : Vmdk) (fuel sector idx : Nat) : v.readSectorsLoop fuel sector 0 idx = .ok [] := by
  cases fuel <;> simp [Vmdk.readSectorsLoop]

/-- one iteration inside disk `d`: Python's integer arithmetic, in `Nat` -/
theorem loop_step (v : Vmdk) (fuel sector count idx : Nat) (d : Vmdk.Disk) (hd : v.disks[idx]? = some d)
    (hc : 0 < count) (_hlo : d.sectorOffset ≤ sector) (hhi : sector < d.sectorOffset + d.sectorCount) :
    v.readSectorsLoop (fuel + 1) sector count idx =
      (d.readSectors sector (min (d.sectorOffset + d.sectorCount - sector) count)).bind (fun x =>
        (v.readSectorsLoop fuel (sector + min (d.sectorOffset + d.sectorCount - sector) count)
          (count - min (d.sectorOffset + d.sectorCount - sector) count) (idx + 1)).bind (fun rest =>
            .ok (x ++ rest))) := by
  rw [Vmdk.readSectorsLoop]
  have hcz : ¬ count = 0 := by omega
  simp only [hcz, if_false, hd]
  have hmin : min ((d.sectorCount : Int) - ((sector : Int) - (d.sectorOffset : Int))) (count : Int)
      = ((min (d.sectorOffset + d.sectorCount - sector) count : Nat) : Int) := by omega
  rw [hmin]
  have hpos : ¬ (((min (d.sectorOffset + d.sectorCount - sector) count : Nat) : Int) < 0) := by omega
  have hnz : ¬ (((min (d.sectorOffset + d.sectorCount - sector) count : Nat) : Int) = 0) := by omega
  simp only [hpos, hnz, if_false, Int.toNat_natCast]
  rfl

/-- every disk reads as the same global content `g` at its own place -/
def GlobalReads (g : Nat → UInt8) (ds : List Vmdk.Disk) : Prop :=
  ∀ d ∈ ds, ∀ s c, d.sectorOffset ≤ s → s + c ≤ d.sectorOffset + d.sectorCount →
    d.readSectors s c = .ok (slice g (s * 512) (c * 512))

theorem drop_cons_getElem? {α} (l : List α) (k : Nat) (a : α) (r : List α) (h : l.drop k = a :: r) :
    l[k]? = some a ∧ l.drop (k + 1) = r := by
  constructor
  · have := List.getElem?_drop (xs := l) (i := k) (j := 0)
    rw [h] at this
    simpa using this.symm
  · have : l.drop (k + 1) = (l.drop k).drop 1 := by rw [List.drop_drop]
    rw [this, h]; rfl

theorem mem_of_drop {α} (l : List α) (k : Nat) (a : α) (r : List α) (h : l.drop k = a :: r) : a ∈ l :=
  List.mem_of_mem_drop (i := k) (by rw [h]; simp)

/-- the walk from a position inside disk `idx` over the remaining disks -/
theorem loop_correct (v : Vmdk) (g : Nat → UInt8) (hg : GlobalReads g v.disks.toList) :
    ∀ (suf : List Vmdk.Disk) (d : Vmdk.Disk) (idx fuel sector count : Nat),
      v.disks.toList.drop idx = d :: suf → Contiguous d.sectorOffset (d :: suf) →
      d.sectorOffset ≤ sector → sector < d.sectorOffset + d.sectorCount →
      sector + count ≤ d.sectorOffset + sectorsOf (d :: suf) → (d :: suf).length ≤ fuel →
      v.readSectorsLoop fuel sector count idx = .ok (slice g (sector * 512) (count * 512)) := by
  intro suf
  induction suf with
  | nil =>
    intro d idx fuel sector count hdrop hc hlo hhi hend hfuel
    by_cases hcz : count = 0
    · subst hcz; rw [loop_zero]; simp
    obtain ⟨hget, hrest⟩ := drop_cons_getElem? _ _ _ _ hdrop
    have hget' : v.disks[idx]? = some d := by simpa using hget
    obtain ⟨fuel, rfl⟩ : ∃ f, fuel = f + 1 := ⟨fuel - 1, by simp at hfuel; omega⟩
    rw [loop_step v fuel sector count idx d hget' (by omega) hlo hhi]
    simp only [sectorsOf_cons, sectorsOf_nil, Nat.add_zero] at hend
    have hm : min (d.sectorOffset + d.sectorCount - sector) count = count := by omega
    rw [hm, hg d (mem_of_drop _ _ _ _ hdrop) sector count hlo hend, Nat.sub_self, loop_zero]
    simp [Except.bind]
  | cons e es ih =>
    intro d idx fuel sector count hdrop hc hlo hhi hend hfuel
    by_cases hcz : count = 0
    · subst hcz; rw [loop_zero]; simp
    obtain ⟨hget, hrest⟩ := drop_cons_getElem? _ _ _ _ hdrop
    have hget' : v.disks[idx]? = some d := by simpa using hget
    obtain ⟨fuel, rfl⟩ : ∃ f, fuel = f + 1 := ⟨fuel - 1, by simp at hfuel; omega⟩
    rw [loop_step v fuel sector count idx d hget' (by omega) hlo hhi]
    obtain ⟨_, _, _, hc'⟩ := hc
    have he : e.sectorOffset = d.sectorOffset + d.sectorCount := hc'.1
    by_cases hin : count ≤ d.sectorOffset + d.sectorCount - sector
    · -- the request ends inside this disk
      have hm : min (d.sectorOffset + d.sectorCount - sector) count = count := by omega
      rw [hm, hg d (mem_of_drop _ _ _ _ hdrop) sector count hlo (by omega), Nat.sub_self, loop_zero]
      simp [Except.bind]
    · -- it continues at the first sector of the next disk
      have hm : min (d.sectorOffset + d.sectorCount - sector) count = d.sectorOffset + d.sectorCount - sector := by
        omega
      rw [hm, hg d (mem_of_drop _ _ _ _ hdrop) sector _ hlo (by omega)]
      have hs : sector + (d.sectorOffset + d.sectorCount - sector) = e.sectorOffset := by omega
      rw [hs]
      have hc'' : Contiguous e.sectorOffset (e :: es) := by rw [he]; exact hc'
      rw [ih e (idx + 1) fuel e.sectorOffset _ hrest hc'' (Nat.le_refl _) (by have := hc''.2.1; omega)
        (by simp only [sectorsOf_cons] at hend ⊢; omega) (by simp at hfuel ⊢; omega)]
      simp only [Except.bind]
      congr 1
      have hcnt : count * 512 = (d.sectorOffset + d.sectorCount - sector) * 512
          + (count - (d.sectorOffset + d.sectorCount - sector)) * 512 := by
        rw [← Nat.add_mul]; congr 1; omega
      have hoff : sector * 512 + (d.sectorOffset + d.sectorCount - sector) * 512 = e.sectorOffset * 512 := by
        rw [← Nat.add_mul, hs]
      conv => rhs; rw [hcnt, slice_append, hoff]

/-- a suffix of a contiguous layout is contiguous from its first disk, and ends where the whole layout ends -/
theorem contiguous_drop : ∀ (ds : List Vmdk.Disk) (start : Nat), Contiguous start ds →
    ∀ (k : Nat) (e : Vmdk.Disk) (suf : List Vmdk.Disk), ds.drop k = e :: suf →
      Contiguous e.sectorOffset (e :: suf) ∧ e.sectorOffset + sectorsOf (e :: suf) = start + sectorsOf ds
  | [], _, _, k, e, suf, h => by simp at h
  | d :: ds, start, hc, 0, e, suf, h => by
    simp only [List.drop_zero, List.cons.injEq] at h
    obtain ⟨rfl, rfl⟩ := h
    have := hc.1
    exact ⟨by rw [this]; exact hc, by rw [this]⟩
  | d :: ds, start, hc, k + 1, e, suf, h => by
    simp only [List.drop_succ_cons] at h
    have := contiguous_drop ds _ hc.2.2.2 k e suf h
    refine ⟨this.1, ?_⟩
    rw [this.2, sectorsOf_cons]; omega

/-! ### from per-part contracts to the global content -/

theorem contiguous_le : ∀ (ds : List Vmdk.Disk) (start : Nat), Contiguous start ds → ∀ d ∈ ds, start ≤ d.sectorOffset
  | [], _, _, d, hd => by cases hd
  | e :: es, start, hc, d, hd => by
    rcases List.mem_cons.mp hd with rfl | hd
    · rw [hc.1]; exact Nat.le_refl _
    · have := contiguous_le es _ hc.2.2.2 d hd; omega

/-- each disk returns the bytes of the concatenation at its own place (offsets relative to `start`) -/
theorem globalReads_of_readAs : ∀ (ds : List Vmdk.Disk) (ps : List Part) (start : Nat),
    Contiguous start ds → ReadAs ds ps →
    ∀ d ∈ ds, ∀ s c, d.sectorOffset ≤ s → s + c ≤ d.sectorOffset + d.sectorCount →
      d.readSectors s c = .ok (slice (concat ps) ((s - start) * 512) (c * 512))
  | [], _, _, _, _, d, hd => by cases hd
  | _ :: _, [], _, _, hr, _, _ => by cases hr
  | e :: es, p :: ps, start, hc, hr, d, hd => by
    intro s c hlo hhi
    obtain ⟨h1, h2, h3, h4⟩ := hc
    obtain ⟨⟨hcnt, hread⟩, hr'⟩ := hr
    rcases List.mem_cons.mp hd with rfl | hd
    · rw [hread s c hlo (by omega), h1]
      congr 1
      apply slice_congr
      intro i hi
      rw [concat_head]
      omega
    · have hle := contiguous_le es _ h4 d hd
      rw [globalReads_of_readAs es ps _ h4 hr' d hd s c hlo hhi]
      congr 1
      apply slice_shift
      intro i hi
      rw [concat_tail _ _ _ (by omega)]
      congr 1
      omega

/-- **the extent walk returns the concatenation** -/
theorem readSectors_concat (v : Vmdk) (ps : List Part) (hc : Contiguous 0 v.disks.toList)
    (hr : ReadAs v.disks.toList ps) (sector count : Nat) (h : sector + count ≤ total ps) :
    v.readSectors sector count = .ok (slice (concat ps) (sector * 512) (count * 512)) := by
  unfold Vmdk.readSectors
  by_cases hcz : count = 0
  · subst hcz; rw [loop_zero]; simp
  have htot := readAs_sectors _ _ hr
  have hg : GlobalReads (concat ps) v.disks.toList := by
    intro d hd s c hlo hhi
    have := globalReads_of_readAs _ _ 0 hc hr d hd s c hlo hhi
    simpa using this
  rw [diskOffsets_contiguous v hc]
  cases hl : v.disks.toList with
  | nil => rw [hl] at htot; simp at htot; omega
  | cons d ds =>
    rw [hl] at hc htot
    obtain ⟨e, he, hlo, hhi⟩ := bisect_contig sector ds d 0 hc (Nat.zero_le _) (by omega)
    simp only [List.tail_cons]
    generalize Vmdk.bisectRight (ds.map (·.sectorOffset)) sector = idx at he
    -- the suffix of the disk list starting at `idx`
    have hlt : idx < (d :: ds).length := by
      rcases Nat.lt_or_ge idx (d :: ds).length with h | h
      · exact h
      · rw [List.getElem?_eq_none h] at he; cases he
    have hdrop : v.disks.toList.drop idx = e :: (d :: ds).drop (idx + 1) := by
      rw [hl, List.drop_eq_getElem_cons hlt]
      congr 1
      rw [List.getElem?_eq_getElem hlt] at he
      exact Option.some.inj he
    have hsuf := contiguous_drop (d :: ds) 0 hc idx e _ (by rw [← hl]; exact hdrop)
    refine loop_correct v _ hg _ e idx _ sector count hdrop hsuf.1 hlo hhi ?_ ?_
    · have := hsuf.2; rw [← hl] at this; omega
    · have : (e :: (d :: ds).drop (idx + 1)).length ≤ v.disks.size := by
        have h1 := congrArg List.length hdrop
        simp only [List.length_drop, Array.length_toList] at h1
        omega
      omega

/-! ### `VMDK.__init__`: offsets and size -/

/-- the fold of `assemble` -/
def asmStep (acc : Array Vmdk.Disk × Nat × Nat) (f : Nat → Vmdk.Disk) : Array Vmdk.Disk × Nat × Nat :=
  (acc.1.push (f acc.2.1), acc.2.1 + (f acc.2.1).sectorCount, acc.2.2 + (f acc.2.1).size)

theorem assemble_eq (mk : List (Nat → Vmdk.Disk)) :
    assemble mk = ⟨(mk.foldl asmStep (#[], 0, 0)).1, (mk.foldl asmStep (#[], 0, 0)).2.2⟩ := rfl

theorem asmStep_foldl : ∀ (mk : List (Nat → Vmdk.Disk)) (arr : Array Vmdk.Disk) (sc sz : Nat),
    (mk.foldl asmStep (arr, sc, sz)).1.toList = arr.toList ++ place sc mk ∧
    (mk.foldl asmStep (arr, sc, sz)).2.2 = sz + ((place sc mk).map (·.size)).sum
  | [], arr, sc, sz => by simp [place]
  | f :: fs, arr, sc, sz => by
    have := asmStep_foldl fs (arr.push (f sc)) (sc + (f sc).sectorCount) (sz + (f sc).size)
    simp only [List.foldl_cons, asmStep, place, List.map_cons, List.sum_cons]
    rw [this.1, this.2]
    simp [Nat.add_assoc]

theorem assemble_disks (mk : List (Nat → Vmdk.Disk)) : (assemble mk).disks.toList = place 0 mk := by
  rw [assemble_eq]; simpa using (asmStep_foldl mk #[] 0 0).1

theorem assemble_size (mk : List (Nat → Vmdk.Disk)) :
    (assemble mk).size = ((assemble mk).disks.toList.map (·.size)).sum := by
  rw [assemble_disks, assemble_eq]; simpa using (asmStep_foldl mk #[] 0 0).2

theorem place_contiguous : ∀ (mk : List (Nat → Vmdk.Disk)) (start : Nat), (∀ f ∈ mk, GoodCtor f) →
    Contiguous start (place start mk)
  | [], _, _ => trivial
  | f :: fs, start, h => by
    have hf := h f (by simp) start
    exact ⟨hf.1, hf.2.1, hf.2.2, place_contiguous fs _ (fun g hg => h g (by simp [hg]))⟩

theorem contiguous_size : ∀ (ds : List Vmdk.Disk) (start : Nat), Contiguous start ds →
    (ds.map (·.size)).sum = sectorsOf ds * 512
  | [], _, _ => rfl
  | d :: ds, start, hc => by
    have := contiguous_size ds _ hc.2.2.2
    simp only [List.map_cons, List.sum_cons, this, hc.2.2.1, sectorsOf_cons, Nat.add_mul]

/-- flat extents: `RawDisk(fh, sectors * 512)` over a file that holds the extent -/
theorem rawDisk_good (fh : File) (n : Nat) (hn : 0 < n) : GoodCtor (rawDisk fh (some (n * 512))) := by
  intro off
  have hz : ¬ n * 512 = 0 := by omega
  have hS : Vmdk.S = 512 := rfl
  simp only [rawDisk, hz, if_false, hS]
  refine ⟨trivial, ?_, ?_⟩
  · show 0 < n * 512 / 512
    rw [Nat.mul_div_cancel _ (by decide)]; exact hn
  · show n * 512 = n * 512 / 512 * 512
    rw [Nat.mul_div_cancel _ (by decide)]

theorem rawDisk_reads (fh : File) (n off : Nat) (hn : 0 < n) (hsz : n * 512 ≤ fh.size) :
    DiskReads (rawDisk fh (some (n * 512)) off) ⟨n, fh.byte⟩ := by
  have hz : ¬ n * 512 = 0 := by omega
  have hS : Vmdk.S = 512 := rfl
  have hcnt : (rawDisk fh (some (n * 512)) off).sectorCount = n := by
    simp only [rawDisk, hz, if_false, hS]
    exact Nat.mul_div_cancel _ (by decide)
  have hoff : (rawDisk fh (some (n * 512)) off).sectorOffset = off := rfl
  refine ⟨hcnt, ?_⟩
  intro s c hlo hhi
  rw [hcnt, hoff] at hhi
  rw [hoff] at hlo
  have hnl : ¬ s < off := by omega
  have hfit : (s - off) * 512 + c * 512 ≤ fh.size := by
    rw [← Nat.add_mul]
    exact Nat.le_trans (Nat.mul_le_mul_right 512 hhi) hsz
  simp only [rawDisk, hnl, if_false, hS]
  rw [File.read_eq_slice _ _ _ hfit]

/-- the part list of a list of flat extents `(file, sectors)` -/
def flatParts (exts : List (File × Nat)) : List Part := exts.map (fun e => ⟨e.2, e.1.byte⟩)

/-- the constructors `VMDK.__init__` uses for FLAT / VMFS extents -/
def flatCtors (exts : List (File × Nat)) : List (Nat → Vmdk.Disk) :=
  exts.map (fun e => rawDisk e.1 (some (e.2 * 512)))

theorem flat_readAs : ∀ (exts : List (File × Nat)) (start : Nat),
    (∀ e ∈ exts, 0 < e.2 ∧ e.2 * 512 ≤ e.1.size) → ReadAs (place start (flatCtors exts)) (flatParts exts)
  | [], _, _ => trivial
  | e :: es, start, h => by
    have he := h e (by simp)
    exact ⟨rawDisk_reads e.1 e.2 start he.1 he.2, flat_readAs es _ (fun x hx => h x (by simp [hx]))⟩

theorem flat_good (exts : List (File × Nat)) (h : ∀ e ∈ exts, 0 < e.2 ∧ e.2 * 512 ≤ e.1.size) :
    ∀ f ∈ flatCtors exts, GoodCtor f := by
  intro f hf
  obtain ⟨e, he, rfl⟩ := List.mem_map.mp hf
  exact rawDisk_good e.1 e.2 (h e he).1

/-! ## Parallels `StorageStream` -/
open Hv.Hdd

theorem span_loop_all {α} (p : α → Bool) : ∀ (l acc : List α), (∀ a ∈ l, p a = true) →
    List.span.loop p l acc = (acc.reverse ++ l, [])
  | [], acc, _ => by simp [List.span.loop]
  | a :: l, acc, h => by
    have ha := h a (by simp)
    rw [List.span.loop]
    simp only [ha]
    rw [span_loop_all p l (a :: acc) (fun b hb => h b (by simp [hb]))]
    simp

theorem span_all {α} (p : α → Bool) (l : List α) (h : ∀ a ∈ l, p a = true) : l.span p = (l, []) := by
  unfold List.span; rw [span_loop_all p l [] h]; simp

/-- the stable insertion sort leaves a tiling list as it is -/
theorem sort_foldl (f : List Storage → Storage → List Storage)
    (hf : ∀ acc s, f acc s = (acc.span (fun y => decide (y.start ≤ s.start))).1 ++ [s]
                              ++ (acc.span (fun y => decide (y.start ≤ s.start))).2) :
    ∀ (l : List Storage) (ps : List Part) (acc : List Storage) (start : Nat), Tiles start l ps →
      (∀ y ∈ acc, y.start ≤ start) → l.foldl f acc = acc ++ l
  | [], _, acc, _, _, _ => by simp
  | _ :: _, [], _, _, h, _ => by cases h
  | st :: sts, p :: ps, acc, start, h, hacc => by
    obtain ⟨h1, h2, h3, _, h5⟩ := h
    have hall : ∀ y ∈ acc, decide (y.start ≤ st.start) = true := by
      intro y hy; have := hacc y hy; simp only [decide_eq_true_eq]; omega
    have hstep : f acc st = acc ++ [st] := by rw [hf, span_all _ _ hall]; simp
    rw [List.foldl_cons, hstep, sort_foldl f hf sts ps (acc ++ [st]) st.end_ h5]
    · simp
    · intro y hy
      rcases List.mem_append.mp hy with hy | hy
      · have := hacc y hy; omega
      · simp only [List.mem_singleton] at hy; subst hy; omega

theorem sortByStart_tiles (l : List Storage) (ps : List Part) (start : Nat) (h : Tiles start l ps) :
    sortByStart l = l := by
  unfold sortByStart
  have := sort_foldl _ (fun acc s => rfl) l ps [] start h (by simp)
  simpa using this

/-- end sector of the last storage (`start` for an empty list) -/
def lastEnd : Nat → List Storage → Nat
  | s, [] => s
  | _, st :: r => lastEnd st.end_ r

theorem getLast_lastEnd : ∀ (l : List Storage) (start : Nat),
    (match l.getLast? with | some s => s.end_ | none => start) = lastEnd start l
  | [], _ => rfl
  | st :: sts, start => by
    have ih := getLast_lastEnd sts st.end_
    rw [List.getLast?_cons]
    cases hl : sts.getLast? with
    | none => rw [hl] at ih; simpa [lastEnd] using ih
    | some x => rw [hl] at ih; simpa [lastEnd] using ih

theorem tiles_lastEnd : ∀ (l : List Storage) (ps : List Part) (start : Nat), Tiles start l ps →
    lastEnd start l = start + total ps
  | [], [], _, _ => rfl
  | [], _ :: _, _, h => by cases h
  | _ :: _, [], _, h => by cases h
  | st :: sts, p :: ps, start, h => by
    obtain ⟨_, _, h3, _, h5⟩ := h
    have ih := tiles_lastEnd sts ps _ h5
    rw [h3] at ih
    simp only [lastEnd, total, h3, ih]; omega

theorem mk_tiles (l : List Storage) (ps : List Part) (h : Tiles 0 l ps) :
    mk l = ⟨l.toArray, total ps * 512⟩ := by
  unfold mk
  simp only [sortByStart_tiles l ps 0 h]
  congr 1
  have h1 := getLast_lastEnd l 0
  have h2 := tiles_lastEnd l ps 0 h
  cases hl : l.getLast? with
  | none => rw [hl] at h1; simp only at h1 ⊢; omega
  | some x => rw [hl] at h1; simp only at h1 ⊢; omega

/-- parts-free shadow of `Tiles` -/
def Chain : Nat → List Storage → Prop
  | _, [] => True
  | start, st :: r => st.start = start ∧ start < st.end_ ∧ Chain st.end_ r

theorem tiles_chain : ∀ (l : List Storage) (ps : List Part) (start : Nat), Tiles start l ps → Chain start l
  | [], _, _, _ => trivial
  | _ :: _, [], _, h => by cases h
  | st :: sts, p :: ps, start, h => by
    obtain ⟨h1, h2, h3, _, h5⟩ := h
    exact ⟨h1, by omega, tiles_chain sts ps _ h5⟩

theorem chain_le : ∀ (l : List Storage) (start : Nat), Chain start l → ∀ st ∈ l, start ≤ st.start
  | [], _, _, st, h => by cases h
  | e :: es, start, hc, st, h => by
    rcases List.mem_cons.mp h with rfl | h
    · rw [hc.1]; exact Nat.le_refl _
    · have := chain_le es _ hc.2.2 st h
      have := hc.2.1
      omega

theorem chain_drop : ∀ (l : List Storage) (start : Nat), Chain start l →
    ∀ (k : Nat) (e : Storage) (suf : List Storage), l.drop k = e :: suf →
      Chain e.start (e :: suf) ∧ lastEnd e.start (e :: suf) = lastEnd start l
  | [], _, _, k, e, suf, h => by simp at h
  | st :: sts, start, hc, 0, e, suf, h => by
    simp only [List.drop_zero, List.cons.injEq] at h
    obtain ⟨rfl, rfl⟩ := h
    have := hc.1
    exact ⟨by rw [this]; exact hc, rfl⟩
  | st :: sts, start, hc, k + 1, e, suf, h => by
    simp only [List.drop_succ_cons] at h
    have := chain_drop sts _ hc.2.2 k e suf h
    exact ⟨this.1, by rw [this.2]; rfl⟩

/-- bisecting the start sectors of the later storages finds the storage that contains `sector` -/
theorem bisect_chain (sector : Nat) : ∀ (sts : List Storage) (st : Storage) (start : Nat),
    Chain start (st :: sts) → start ≤ sector → sector < lastEnd start (st :: sts) →
    ∃ e, (st :: sts)[Hdd.bisectRight (sts.map (·.start)) sector]? = some e ∧ e.start ≤ sector ∧ sector < e.end_
  | [], st, start, hc, hlo, hhi => by
    refine ⟨st, by simp [Hdd.bisectRight], ?_, ?_⟩
    · rw [hc.1]; exact hlo
    · simpa [lastEnd] using hhi
  | e :: es, st, start, hc, hlo, hhi => by
    obtain ⟨h1, h2, h3⟩ := hc
    have he : e.start = st.end_ := h3.1
    by_cases hle : e.start ≤ sector
    · obtain ⟨x, hx, hx1, hx2⟩ := bisect_chain sector es e st.end_ h3 (by omega) hhi
      refine ⟨x, ?_, hx1, hx2⟩
      simp only [Hdd.bisectRight, List.map_cons, List.takeWhile_cons, hle, decide_true, if_true,
        List.length_cons, List.getElem?_cons_succ]
      exact hx
    · refine ⟨st, ?_, by omega, by omega⟩
      simp [Hdd.bisectRight, hle]

theorem hloop_zero (v : StorageStream) (fuel sector idx : Nat) : v.loop fuel sector 0 idx = .ok [] := by
  cases fuel <;> simp [StorageStream.loop]

/-- every storage's stream reads as the same global content `g` at its own place -/
def GlobalReadsH (g : Nat → UInt8) (l : List Storage) : Prop :=
  ∀ st ∈ l, ∀ off len, off + len ≤ (st.end_ - st.start) * 512 →
    st.stream off len = .ok (slice g (st.start * 512 + off) len)

theorem globalReadsH_of_tiles : ∀ (l : List Storage) (ps : List Part) (start : Nat), Tiles start l ps →
    ∀ st ∈ l, ∀ off len, off + len ≤ (st.end_ - st.start) * 512 →
      st.stream off len = .ok (slice (concat ps) ((st.start - start) * 512 + off) len)
  | [], _, _, _, st, h => by cases h
  | _ :: _, [], _, h, _, _ => by cases h
  | e :: es, p :: ps, start, h, st, hst => by
    intro off len hfit
    obtain ⟨h1, h2, h3, h4, h5⟩ := h
    rcases List.mem_cons.mp hst with rfl | hst
    · have hw : st.end_ - st.start = p.sectors := by omega
      rw [hw] at hfit
      rw [h4 off len hfit, h1, Nat.sub_self, Nat.zero_mul, Nat.zero_add]
      congr 1
      apply slice_congr
      intro i hi
      rw [concat_head]
      omega
    · have hle := chain_le es _ (tiles_chain es ps _ h5) st hst
      rw [globalReadsH_of_tiles es ps _ h5 st hst off len hfit]
      congr 1
      apply slice_shift
      intro i hi
      rw [concat_tail _ _ _ (by omega)]
      congr 1
      omega

/-- the walk from a position inside storage `idx` over the remaining storages -/
theorem hloop_correct (v : StorageStream) (g : Nat → UInt8) (hg : GlobalReadsH g v.streams.toList) :
    ∀ (suf : List Storage) (st : Storage) (idx fuel sector count : Nat),
      v.streams.toList.drop idx = st :: suf → Chain st.start (st :: suf) →
      st.start ≤ sector → sector < st.end_ →
      sector + count ≤ lastEnd st.start (st :: suf) → count < fuel →
      v.loop fuel sector count idx = .ok (slice g (sector * 512) (count * 512)) := by
  intro suf
  induction suf with
  | nil =>
    intro st idx fuel sector count hdrop hc hlo hhi hend hfuel
    by_cases hcz : count = 0
    · subst hcz; rw [hloop_zero]; simp
    obtain ⟨hget, hrest⟩ := drop_cons_getElem? _ _ _ _ hdrop
    have hget' : v.streams[idx]? = some st := by simpa using hget
    obtain ⟨fuel, rfl⟩ : ∃ f, fuel = f + 1 := ⟨fuel - 1, by omega⟩
    simp only [lastEnd] at hend
    rw [StorageStream.loop]
    have h1 : ¬ st.end_ ≤ sector := by omega
    have h2 : ¬ sector < st.start := by omega
    have hm : min (st.end_ - sector) count = count := by omega
    simp only [hcz, if_false, hget', h1, h2, hm, Nat.sub_self]
    have hfit : (sector - st.start) * 512 + count * 512 ≤ (st.end_ - st.start) * 512 := by
      rw [← Nat.add_mul]; exact Nat.mul_le_mul_right 512 (by omega)
    have hoff : st.start * 512 + (sector - st.start) * 512 = sector * 512 := by
      rw [← Nat.add_mul]; congr 1; omega
    rw [hg st (mem_of_drop _ _ _ _ hdrop) _ _ hfit, hoff, hloop_zero]
    simp [bind, Except.bind]
  | cons e es ih =>
    intro st idx fuel sector count hdrop hc hlo hhi hend hfuel
    by_cases hcz : count = 0
    · subst hcz; rw [hloop_zero]; simp
    obtain ⟨hget, hrest⟩ := drop_cons_getElem? _ _ _ _ hdrop
    have hget' : v.streams[idx]? = some st := by simpa using hget
    obtain ⟨fuel, rfl⟩ : ∃ f, fuel = f + 1 := ⟨fuel - 1, by omega⟩
    obtain ⟨_, _, hc'⟩ := hc
    have he : e.start = st.end_ := hc'.1
    rw [StorageStream.loop]
    have h1 : ¬ st.end_ ≤ sector := by omega
    have h2 : ¬ sector < st.start := by omega
    have hoff : st.start * 512 + (sector - st.start) * 512 = sector * 512 := by
      rw [← Nat.add_mul]; congr 1; omega
    by_cases hin : count ≤ st.end_ - sector
    · have hm : min (st.end_ - sector) count = count := by omega
      simp only [hcz, if_false, hget', h1, h2, hm, Nat.sub_self]
      have hfit : (sector - st.start) * 512 + count * 512 ≤ (st.end_ - st.start) * 512 := by
        rw [← Nat.add_mul]; exact Nat.mul_le_mul_right 512 (by omega)
      rw [hg st (mem_of_drop _ _ _ _ hdrop) _ _ hfit, hoff, hloop_zero]
      simp [bind, Except.bind]
    · have hm : min (st.end_ - sector) count = st.end_ - sector := by omega
      simp only [hcz, if_false, hget', h1, h2, hm]
      have hfit : (sector - st.start) * 512 + (st.end_ - sector) * 512 ≤ (st.end_ - st.start) * 512 := by
        rw [← Nat.add_mul]; exact Nat.mul_le_mul_right 512 (by omega)
      have hs : sector + (st.end_ - sector) = e.start := by omega
      have hc'' : Chain e.start (e :: es) := by rw [he]; exact hc'
      rw [hg st (mem_of_drop _ _ _ _ hdrop) _ _ hfit, hoff, hs,
        ih e (idx + 1) fuel e.start _ hrest hc'' (Nat.le_refl _) (by have := hc''.2.1; omega)
          (by simp only [lastEnd] at hend ⊢; omega) (by omega)]
      simp only [bind, Except.bind]
      congr 1
      have hcnt : count * 512 = (st.end_ - sector) * 512 + (count - (st.end_ - sector)) * 512 := by
        rw [← Nat.add_mul]; congr 1; omega
      have hoff2 : sector * 512 + (st.end_ - sector) * 512 = e.start * 512 := by
        rw [← Nat.add_mul, hs]
      conv => rhs; rw [hcnt, slice_append, hoff2]

/-- **`StorageStream._read` returns the concatenation** (whole sectors) -/
theorem storage_read_concat (l : List Storage) (ps : List Part) (hne : l ≠ []) (ht : Tiles 0 l ps)
    (offset length : Nat) (ha : offset % 512 = 0) (hin : offset + length ≤ total ps * 512) :
    (mk l).read offset length = .ok (slice (concat ps) offset ((length + 511) / 512 * 512)) := by
  rw [mk_tiles l ps ht]
  unfold StorageStream.read
  simp only []
  have hch := tiles_chain l ps 0 ht
  have hle := tiles_lastEnd l ps 0 ht
  have hoffs : offset / 512 * 512 = offset := by omega
  have hcount : (length + 512 - 1) / 512 = (length + 511) / 512 := rfl
  cases hl : l with
  | nil => exact absurd hl hne
  | cons st sts =>
    rw [hl] at hch hle
    have h0 : st.start = 0 := hch.1
    have hk : Hdd.bisectRight ((st :: sts).map (·.start)) (offset / 512)
        = Hdd.bisectRight (sts.map (·.start)) (offset / 512) + 1 := by
      simp [Hdd.bisectRight, h0]
    rw [hk]
    simp only [Nat.add_sub_cancel, Nat.succ_ne_zero, if_false, hcount]
    by_cases hcz : (length + 511) / 512 = 0
    · rw [hcz, hloop_zero]; simp
    have hg : GlobalReadsH (concat ps) (st :: sts) := by
      intro s hs off len hfit
      have := globalReadsH_of_tiles l ps 0 ht s (by rw [hl]; exact hs) off len hfit
      simpa using this
    obtain ⟨e, he, hlo, hhi⟩ := bisect_chain (offset / 512) sts st 0 hch (Nat.zero_le _) (by omega)
    generalize Hdd.bisectRight (sts.map (·.start)) (offset / 512) = idx at he
    have hlt : idx < (st :: sts).length := by
      rcases Nat.lt_or_ge idx (st :: sts).length with h | h
      · exact h
      · rw [List.getElem?_eq_none h] at he; cases he
    have hdrop : (st :: sts).drop idx = e :: (st :: sts).drop (idx + 1) := by
      rw [List.drop_eq_getElem_cons hlt]
      congr 1
      rw [List.getElem?_eq_getElem hlt] at he
      exact Option.some.inj he
    have hsuf := chain_drop (st :: sts) 0 hch idx e _ hdrop
    have := hloop_correct ⟨(st :: sts).toArray, total ps * 512⟩ (concat ps) hg _ e idx
      ((length + 511) / 512 + 1) (offset / 512) ((length + 511) / 512) hdrop hsuf.1 hlo hhi
      (by rw [hsuf.2]; omega) (by omega)
    rw [this, hoffs]

theorem contiguousb_sound : ∀ (ds : List Vmdk.Disk) (start : Nat), contiguousb start ds = true → Contiguous start ds
  | [], _, _ => trivial
  | d :: ds, start, h => by
    simp only [contiguousb, Bool.and_eq_true, decide_eq_true_eq] at h
    obtain ⟨⟨⟨h1, h2⟩, h3⟩, h4⟩ := h
    exact ⟨h1, h2, h3, contiguousb_sound ds _ h4⟩

theorem tilesb_sound : ∀ (l : List Hdd.Storage) (ps : List Part) (start : Nat),
    tilesb start l ps = true → StreamsRead l ps → Tiles start l ps
  | [], [], _, _, _ => trivial
  | [], _ :: _, _, h, _ => by simp [tilesb] at h
  | _ :: _, [], _, h, _ => by simp [tilesb] at h
  | st :: sts, p :: ps, start, h, hr => by
    simp only [tilesb, Bool.and_eq_true, decide_eq_true_eq] at h
    obtain ⟨⟨⟨h1, h2⟩, h3⟩, h4⟩ := h
    exact ⟨h1, h2, h3, hr.1, tilesb_sound sts ps _ h4 hr.2⟩

end Hv.Concat
