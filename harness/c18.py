"""C18 — VM configuration files: the reported disk list is exactly the VM's hard disks.

Abstract VMs (gen_configs.gen_vm) are rendered by independent writers to VMware VMX, OVF, VirtualBox and Parallels PVS
text; the real parsers, the Lean models (Hv/Configs.lean) and the writers' truth are compared.
  * VMX: the text goes to the model as code points; compared: `VMX.parse(text).disks()`, the whole dictionary (as a set of
    items) and single look-ups.  On top of gen_configs' rendering, a block of re-assignments is appended for some keys:
    the same key spelled A / b / A (and other patterns) with stale values first and the true value last.
  * OVF / VBox / PVS: the element tree the *real* XML parser (defusedxml, as the code uses it) built is serialised to the
    model (XML text -> tree is C19's trusted part); compared: `list(X(fh).disks())`.
    VirtualBox additionally gets registries in which typed hard disks are nested inside other hard disks at any depth.
"""
from __future__ import annotations

import hashlib
import io
import random

import core
import gen_configs as G
from core import Built

PROPERTY = "C18"
RULE = ("seeded abstract VMs (0..8 devices on scsi/sata/ide/nvme with any bus:unit, disks / cdrom images / raw cdroms / floppies, "
        "controllers, 2..15 unrelated settings incl. sched.scsi0:0.*, ethernet1.fileName, floppy0.*) rendered by independent "
        "writers: VMX with random key casing, line order, comments, blank lines, quoting, CRLF, stale earlier assignments and an "
        "appended block re-assigning keys three or more times with spellings A/b/A; OVF with random prefixes, default namespace, "
        "disk-vs-file host resources, crossed ids (and, on every run, envelopes whose disk ids are a rotation of the file ids with both "
        "HostResource forms), decoy ResourceType texts; on every run VMs whose file names / settings contain '#' and VMs whose hard disks carry a deviceType key with an empty value (\"\", bare, blanks; also emptied by the last of two assignments); VirtualBox registries (machine / global styles, "
        "differencing children, mixed formats and types, typed disks nested in disks of any format/type to depth 4, look-alike "
        "elements); Parallels hardware lists (Hdd/CdRom/Fdd, nested Partition/SystemName, shuffled children). Compared: the "
        "disk list (VMX sorted, XML in document order), for VMX also the dictionary and look-ups: real code vs Lean model vs "
        "writer truth. Every descriptor object (VMX, OVF, VBox, PVS) is then queried again 2..4 times on the same object (complete list, "
        "next() then a second call listed, two iterations advanced alternately, a fresh query in the middle of a partial one): always the same list. "
        "Non-trivial = at least one hard disk reported and at least one non-disk medium or decoy present.")
ASSUMPTIONS = ["XML text -> element tree is not modelled: the model receives the tree built by defusedxml.ElementTree.fromstring (C19)",
               "xml.etree.ElementPath selector semantics (child, descendant, attribute and child-text predicates) are transcribed into "
               "Hv/Prim/XPath.lean; paths are compiled per run with the live xpath_tokenizer",
               "str.lower() is modelled per code point (table extracted from the interpreter); the final-sigma context rule is outside the model",
               "legacy RDM device types and OVF empty disks / VirtualSystemCollection (gen_configs 'exotic') are outside the default stream"]
TIMEOUT_CASE = 20.0
FMTS = ("vmx", "ovf", "vbox", "pvs")


def _h(s):
    return "~" if s is None else "s" + s.encode("utf-8", "surrogatepass").hex()


def canon_list(l):
    return "L" + ",".join(_h(x) for x in l)


def dict_digest(items):
    return "D%d:" % len(items) + hashlib.sha256(repr(sorted(items)).encode("utf-8", "surrogatepass")).hexdigest()[:16]


# --------------------------------------------------------------------------- histories on one descriptor object

HIST_OPS = ("list", "peek-list", "interleave", "partial-fresh-rest", "two-lists")


def gen_history(rng):
    """2..4 further queries on the *same* object after the first complete `disks()`: complete again, peeked (`next(d1)`) then
    listed through a second call, two iterations alive and advanced alternately, a fresh complete query in the middle of a
    partial one. The disk list is a function of the document: every query must give the same list whatever happened before."""
    return [rng.choice(HIST_OPS) for _ in range(rng.choice([2, 2, 3, 4]))]


def history_answers(query, ops):
    """`query()` = one call of disks() (a list or an iterator). One canonical answer per op."""
    out = []
    for op in ops:
        try:
            if op == "list":
                out.append("H" + canon_list(list(query())))
            elif op == "two-lists":
                a = list(query())
                b = list(query())
                out.append("H" + canon_list(a) + "|" + canon_list(b))
            elif op == "peek-list":
                d1 = iter(query())
                first = next(d1, None)
                d2 = query()
                out.append("H" + _h(first) + "|" + canon_list(list(d2)))
            elif op == "interleave":
                d1, d2 = iter(query()), iter(query())
                a, b, live = [], [], [True, True]
                while any(live):
                    for k, (it, acc) in enumerate(((d1, a), (d2, b))):
                        if live[k]:
                            try:
                                acc.append(next(it))
                            except StopIteration:
                                live[k] = False
                out.append("H" + canon_list(a) + "|" + canon_list(b))
            elif op == "partial-fresh-rest":
                d1 = iter(query())
                first = next(d1, None)
                fresh = list(query())
                out.append("H" + _h(first) + "|" + canon_list(fresh) + "|" + canon_list(list(d1)))
            else:
                raise ValueError(op)
        except Exception:  # noqa
            out.append("HE")
    return out


def _unlist(tok):
    """inverse of canon_list"""
    body = tok[1:]
    return [_unhex(t) for t in body.split(",")] if body else []


# --------------------------------------------------------------------------- VMX: appended re-assignments

PATTERNS = ["AbA", "AbA", "AbA", "AbAb", "Ab", "AA", "bAA", "ABa", "AbBA"]


def _spell(rng, lk, other=None):
    for _ in range(20):
        s = "".join(rng.choice((c.lower(), c.upper())) for c in lk)
        if s != other and s != lk:
            return s
    return lk.upper()


def reassign_block(rng, tdict):
    """-> (lines, [re-assigned lower-cased keys]); the last assignment of every key carries the value the writer stored."""
    dev = [k for k in tdict if k.endswith((".filename", ".devicetype")) and k.split(".")[0].rstrip("0123456789:") in ("scsi", "sata", "ide", "nvme")]
    oth = [k for k in tdict if k not in dev]
    n = rng.choice([0, 1, 1, 2, 3])
    keys = []
    for _ in range(n):
        pool = dev if dev and rng.random() < 0.75 else oth
        if pool:
            k = rng.choice(pool)
            if k not in keys:
                keys.append(k)
    seqs = []
    for k in keys:
        v = tdict[k]
        pat = rng.choice(PATTERNS)
        A = _spell(rng, k) if rng.random() < 0.7 else k
        b = _spell(rng, k, A)
        B = _spell(rng, k, A)
        sp = {"A": A, "b": b, "B": B, "a": _spell(rng, k, A)}
        rows = []
        for i, ch in enumerate(pat):
            last = i == len(pat) - 1
            if last:
                val = v
            elif k.endswith(".filename"):
                val = rng.choice(["stale-%d.vmdk" % i, "stale-%d.iso" % i, ""])
            elif k.endswith(".devicetype"):
                val = "cdrom-image" if "disk" in v.lower() else rng.choice(["scsi-hardDisk", "disk"])
            else:
                val = v + "-old%d" % i
            rows.append((sp[ch], val))
        seqs.append(rows)
    lines = []
    if seqs and rng.random() < 0.5:
        lines.append("# re-pointed after snapshot consolidation")
    while any(seqs):                                    # interleave the per-key sequences, keeping each one's order
        s = rng.choice([q for q in seqs if q])
        key, val = s.pop(0)
        if rng.random() < 0.1:
            lines.append(rng.choice(["", "  ", "# " + key + ' = "commented.vmdk"']))
        lines.append(rng.choice(["", "", " ", "\t"]) + key + rng.choice([" ", "", "  "]) + "=" + rng.choice([" ", "", "  "]) + f'"{val}"' + rng.choice(["", "", " "]))
    return lines, keys


def build_vmx(recipe):
    vm = recipe["vm"]
    text, truth, tdict = G.render_vmx(vm, random.Random(recipe["rseed"]))
    rng = random.Random(recipe["rseed"] ^ 0x5EED18)
    lines, rekeys = reassign_block(rng, tdict) if recipe.get("variant") == "reassign" else ([], [])
    if lines:
        eol = "\r\n" if "\r\n" in text else "\n"
        if text and not text.endswith("\n"):
            text += eol
        text += eol.join(lines) + (eol if rng.random() < 0.8 else "")
    qs = list(rekeys)
    keys = sorted(tdict)
    for _ in range(3):
        if keys:
            qs.append(rng.choice(keys))
    if keys:
        qs.append(rng.choice(keys).upper() + "X")      # absent
        up = [k for k in keys if k.upper() != k]
        if up:
            qs.append(rng.choice(up).upper())           # keys are stored lower-cased: the upper-case spelling is absent
    return text, truth, tdict, qs


# --------------------------------------------------------------------------- VirtualBox: nested registries

def render_vbox_nested(vm, rng):
    """A media registry whose <HardDisk> elements nest to depth 4 with explicit types and formats at every level
    (-> xml, locations of the Normal/VDI ones in document order)."""
    N = G.VBOX_NS
    truth = []
    stems = [d["file"] for d in G.hard_disks(vm)] or ["disk"]
    cnt = [0]

    def hd(depth):
        cnt[0] += 1
        fmt = rng.choice(["VDI"] * 5 + ["vdi", "Vdi", "vDI", "VMDK", "VHD", "vdi2", "", None])
        typ = rng.choice(["Normal"] * 6 + ["Immutable", "Writethrough", "normal", "NORMAL", "Normal ", "", None, None])
        loc = rng.choice(stems) + "-%d" % cnt[0] + {"vdi": ".vdi", "vmdk": ".vmdk", "vhd": ".vhd"}.get((fmt or "").lower(), ".img")
        has_loc = rng.random() < 0.93
        attrs = [(None, "uuid", "{" + G._uuid(rng) + "}")]
        if has_loc:
            attrs.append((None, "location", loc))
        if fmt is not None:
            attrs.append((None, "format", fmt))
        if typ is not None:
            attrs.append((None, "type", typ))
        if rng.random() < 0.1:
            attrs.append((None, "Location" if rng.random() < 0.5 else "Type", "Normal"))
        e = G.el("HardDisk", attrs, ns=N)
        if has_loc and typ == "Normal" and fmt is not None and fmt.lower() == "vdi":
            truth.append(loc)
        if rng.random() < 0.15:
            e["k"].append(G.el("Property", [(None, "name", "CRYPT/KeyId"), (None, "value", "Normal")], ns=N))
        if depth < 4:
            for _ in range(rng.choice([0, 0, 1, 1, 2, 3] if depth < 2 else [0, 0, 0, 1, 2])):
                e["k"].append(hd(depth + 1))
        return e
    regs = [hd(0) for _ in range(rng.choice([1, 2, 3, 4]))]
    dvds = [G.el("Image", [(None, "uuid", "{" + G._uuid(rng) + "}"), (None, "location", d["file"]), (None, "type", "Normal"), (None, "format", "VDI")], ns=N)
            for d in vm["devices"] if d["kind"] == "cdrom-image" and d["file"]]
    look = [G.el("HardDiskAttachment", [(None, "location", "no.vdi"), (None, "type", "Normal"), (None, "format", "VDI")], ns=N)] if rng.random() < 0.3 else []
    reg = G.el("MediaRegistry", kids=[G.el("HardDisks", kids=regs, ns=N), G.el("DVDImages", kids=dvds, ns=N)] + look, ns=N)
    extra = []
    if rng.random() < 0.3:                                   # a hard disk registered outside <HardDisks> (older layouts): still a descendant
        extra.append(hd(3))
    machine = G.el("Machine", [(None, "uuid", "{" + G._uuid(rng) + "}"), (None, "name", vm["name"])], [reg] + extra + [G.el("Hardware", ns=N)], ns=N)
    p = rng.choice(["", "", "vb"])
    root = G.el("VirtualBox", [(None, "version", "1.16-linux")], [machine], ns=N, decl=[(p, N)])
    return G._doc(root, rng), truth


# --------------------------------------------------------------------------- VMX: '#' inside values

HASH_NAMES = ["Data #%d", "/vmfs/volumes/ds#1/vm/scratch%d", "#lead%d", "tail%d#", "a # b #%d", "C:\\VMs\\#x\\disk%d", "x## %d", "# %d"]


def hashify(vm, rng):
    """-> a copy of the VM whose media names (and two unrelated settings) contain '#': in a VMX file '#' starts a comment only
    as the first non-blank character of a line, never inside a value"""
    vm = dict(vm, devices=[dict(d) for d in vm["devices"]], unrelated=[list(kv) for kv in vm["unrelated"]])
    n = 0
    for d in vm["devices"]:
        n += 1
        if d["kind"] in G.DISK_KINDS and d["file"]:
            d["file"] = rng.choice(HASH_NAMES) % n
        elif d["kind"] == "cdrom-image" and d["file"]:
            d["file"] = rng.choice(["tools #%d.iso", "#%d.iso", "/iso/os#%d.iso"]) % n
    if not any(d["kind"] in G.DISK_KINDS and d["file"] for d in vm["devices"]):
        vm["devices"].append({"cls": "scsi", "bus": 3, "unit": 30, "kind": "disk", "file": "Data #2"})
        if not any(c["cls"] == "scsi" and c["bus"] == 3 for c in vm["controllers"]):
            vm["controllers"] = vm["controllers"] + [{"cls": "scsi", "bus": 3, "props": [["present", "TRUE"]]}]
    have = {k.lower() for k, _ in vm["unrelated"]}
    for k, v in (("annotation", "see ticket #42 # urgent"), ("displayName", "vm #7"), ("guestinfo.note", "#starts with hash")):
        if k.lower() not in have:
            vm["unrelated"].append([k, v])
    return vm


# --------------------------------------------------------------------------- VMX: characters only str.splitlines() treats as line ends

LINESEP_ONLY = ["\x0b", "\x0c", "\x1c", "\x1d", "\x1e", "\x85", "\u2028", "\u2029"]


def linesep(vm, rng, k):
    """-> a copy of the VM whose hard-disk file names carry, in the middle, a character that `str.splitlines()` treats as a line
    end but `split("\\n")` does not (VT, FF, FS, GS, RS, NEL, LS, PS: ordinary data inside a VMX value); in every second name the
    character is followed by text that looks like another assignment. Rendered as VMX only (most of them are not XML characters)."""
    vm = dict(vm, devices=[dict(d) for d in vm["devices"]], controllers=list(vm["controllers"]))
    if not [d for d in vm["devices"] if d["kind"] == "disk" and d["file"]]:
        vm["devices"].append({"cls": "scsi", "bus": 3, "unit": 30, "kind": "disk", "file": "data"})
        if not any(c["cls"] == "scsi" and c["bus"] == 3 for c in vm["controllers"]):
            vm["controllers"].append({"cls": "scsi", "bus": 3, "props": [["present", "TRUE"]]})
    n = 0
    for d in vm["devices"]:
        if d["kind"] == "disk" and d["file"]:
            ch = LINESEP_ONLY[(k + n) % len(LINESEP_ONLY)]
            tail = "scsi0:%d.fileName = ghost%d.vmdk" % (9 + n, n) if n % 2 else "Disk%d.vmdk" % n
            d["file"] = d["file"] + ch + tail
            n += 1
    return vm


# --------------------------------------------------------------------------- VMX: keys that are present but empty

def emptytype(vm, rng, k):
    """-> a copy of the VM in which hard disks carry a deviceType key with an EMPTY value (every spelling of G.EMPTY_RAW in turn,
    k rotates them; every other one emptied by the last of two assignments, the earlier one naming a disk or a CD-ROM type), one
    device has an empty fileName spelled with blanks, and CD-ROMs keep their explicit types. A device whose type is not given
    is an ordinary hard disk: the expected list is unchanged."""
    vm = dict(vm, devices=[dict(d) for d in vm["devices"]], controllers=list(vm["controllers"]))
    disks = [d for d in vm["devices"] if d["kind"] == "disk" and d["file"]]
    used = {(d["cls"], d["bus"], d["unit"]) for d in vm["devices"]}
    want = 2 + k % 3
    for cls, bus, unit in (("scsi", 0, 0), ("sata", 1, 3), ("nvme", 0, 1), ("ide", 1, 0), ("scsi", 3, 15), ("sata", 0, 29)):
        if len(disks) >= want:
            break
        if (cls, bus, unit) in used:
            continue
        d = {"cls": cls, "bus": bus, "unit": unit, "kind": "disk", "file": rng.choice(G.DIRS) + rng.choice(G.STEMS) + "-e%d" % len(disks)}
        vm["devices"].append(d)
        disks.append(d)
        if cls != "ide" and not any(c["cls"] == cls and c["bus"] == bus for c in vm["controllers"]):
            vm["controllers"].append({"cls": cls, "bus": bus, "props": [["present", "TRUE"]]})
    for i, d in enumerate(disks):
        if i and i % 4 == 3:
            continue                                            # one in four keeps whatever the writer picks (absent / a disk type)
        d["dt_raw"] = G.EMPTY_RAW[(k + i) % len(G.EMPTY_RAW)]
        d["dt_old"] = [None, "scsi-hardDisk", None, "cdrom-image", "disk", "atapi-cdrom"][(k // 2 + i) % 6]
    for d in vm["devices"]:
        if d["cls"] != "floppy" and not d["file"]:
            d["file_raw"] = G.EMPTY_RAW[(k + 1) % len(G.EMPTY_RAW)]
    return vm


# --------------------------------------------------------------------------- OVF: file ids and disk ids are independent id spaces

def render_ovf_crossed(vm, rng):
    """An envelope in which every Disk's ovf:diskId equals the ovf:id of a File that backs a *different* disk (the disk ids are a
    rotation of the file ids), with hard-disk Items in both the /disk/ and the /file/ HostResource form, CD-ROM / floppy items
    on files whose ids are used as well, controllers and decoys (-> xml, hrefs of the hard-disk items in document order)."""
    O, R = G.OVF_NS, G.RASD_NS
    po, pr = rng.choice(["ovf", "ovf", "o", "ns0"]), rng.choice(["rasd", "rasd", "r"])
    decl = [(po, O), (pr, R)] + ([("", O)] if rng.random() < 0.6 else [])
    rng.shuffle(decl)
    disks = [{"href": d["file"] + ".vmdk", "kind": "disk"} for d in G.hard_disks(vm)]
    while len(disks) < 2 or (len(disks) < 6 and rng.random() < 0.3):
        disks.append({"href": "extra-%d.vmdk" % len(disks), "kind": "disk"})
    others = [{"href": d["file"], "kind": d["kind"]} for d in vm["devices"] if d["kind"] in ("cdrom-image", "floppy") and d["file"]]
    media = disks + others
    rng.shuffle(media)
    style = rng.choice(["file%d", "x%d", "vmdisk%d", "%d"])
    for i, m in enumerate(media):
        m["fid"] = style % (i + 1)
    dm = [m for m in media if m["kind"] == "disk"]
    k = rng.randrange(1, len(dm))
    for i, m in enumerate(dm):                                # disk i carries the file id of disk i+k
        m["did"] = dm[(i + k) % len(dm)]["fid"]
    forms = ["disk", "file"] + [rng.choice(["disk", "disk", "file"]) for _ in dm[2:]]
    rng.shuffle(forms)
    for m, f in zip(dm, forms):
        m["via"] = f
    files = [G.el("File", [(O, "href", m["href"]), (O, "id", m["fid"])] + ([(O, "size", str(rng.randrange(1 << 30)))] if rng.random() < 0.7 else []), ns=O) for m in media]
    dels = [G.el("Disk", [(O, "capacity", str(rng.choice([1, 40, 17]))), (O, "diskId", m["did"]), (O, "fileRef", m["fid"])], ns=O) for m in dm]
    rng.shuffle(dels)
    iid = [0]

    def item(rt, name, **kw):
        iid[0] += 1
        ch = [("ResourceType", str(rt)), ("ElementName", name), ("InstanceID", str(iid[0]))] + [(a, b) for a, b in kw.items() if b is not None]
        ch = sorted(ch) if rng.random() < 0.6 else rng.sample(ch, len(ch))
        return G.el("Item", kids=[G._t(a, b, R) for a, b in ch], ns=O)
    pairs = [(item(3, "17 virtual CPU(s)", VirtualQuantity="17"), None), (item(6, "SCSI Controller 0", Address="0", ResourceSubType="lsilogic"), None),
             (item(5, "IDE 17", Address="17"), None), (item(10, "Ethernet adapter on 17", Connection="VM Network", AddressOnParent="17"), None)]
    for m in media:
        pre = rng.choice(["ovf:", "ovf:", ""])
        if m["kind"] == "disk":
            hr = pre + (f"/disk/{m['did']}" if m["via"] == "disk" else f"/file/{m['fid']}")
            pairs.append((item(17, rng.choice(["Hard Disk 1", "disk", "17"]), HostResource=hr, AddressOnParent=str(rng.randrange(16))), m["href"]))
        else:
            rt = 14 if m["kind"] == "floppy" else rng.choice([15, 16])
            pairs.append((item(rt, rng.choice(["CD/DVD drive 1", "Floppy", "17"]), HostResource=pre + f"/file/{m['fid']}", AddressOnParent="17"), None))
    if rng.random() < 0.6:
        rng.shuffle(pairs)
    truth = [h for _, h in pairs if h is not None]
    info = lambda t: G.el("Info", kids=[t], ns=O)
    vhs = G.el("VirtualHardwareSection", kids=[info("Virtual hardware requirements")] + [p[0] for p in pairs], ns=O)
    vs = G.el("VirtualSystem", [(O, "id", vm["name"])], [info("A virtual machine"), vhs], ns=O)
    top = [G.el("References", kids=files, ns=O), G.el("DiskSection", kids=[info("Virtual disk information")] + dels, ns=O), vs]
    return G._doc(G.el("Envelope", kids=top, ns=O, decl=decl), rng), truth


def ovf_shape(text):
    """(has a Disk whose diskId is the id of a File backing a different disk, has /disk/ hard-disk item, has /file/ hard-disk item)"""
    from defusedxml import ElementTree
    O, R = "{%s}" % G.OVF_NS, "{%s}" % G.RASD_NS
    try:
        root = ElementTree.fromstring(text)
    except Exception:  # noqa
        return False, False, False
    fids = {f.get(O + "id") for f in root.iter(O + "File")}
    crossed = any(d.get(O + "diskId") in fids and d.get(O + "diskId") != d.get(O + "fileRef") for d in root.iter(O + "Disk"))
    hrs = [(it.findtext(R + "HostResource") or "") for it in root.iter(O + "Item") if it.findtext(R + "ResourceType") == "17"]
    return crossed, any("/disk/" in h for h in hrs), any("/file/" in h for h in hrs)


# --------------------------------------------------------------------------- VMX: disks() -> the dictionary changes -> disks()
#
# A history on ONE VMX object (fmt "vmxhist"): disks() is asked, then the dictionary the object holds changes -- an in-place
# change of `vmx.attr` (a disk added by item assignment or by update(), `deviceType` re-assigned disk <-> CD-ROM, `fileName`
# changed or emptied, a device's keys deleted, `vmx.attr` replaced by another dict) or `unlock_with_phrase()` on an encrypted
# VMX whose device keys are inside encryption.data (sealed by the independent writer gen_vmx) -- and disks() is asked again.
# The expected list comes from the abstract device table the recipe carries at every step (kind "disk" and a non-empty file),
# never from the code. The model answers disks() for a text spelling of the dictionary of every step.

HIST_DISK_DT = [None, None, "scsi-hardDisk", "disk", "ata-hardDisk", "SCSI-HARDDISK", "rawDisk"]
HIST_CD_DT = ["cdrom-image", "cdrom-raw", "atapi-cdrom", "CDROM-Image"]
HIST_TEMPLATES = [["add"], ["retype-cd", "retype-disk"], ["rename"], ["remove"], ["noop", "add-update", "clear"], ["replace-add"],
                  ["replace-retype-cd", "noop", "add"], ["retype-cd", "add", "rename", "remove"], ["clear", "rename"],
                  ["add", "add-update", "retype-cd", "noop", "retype-disk", "replace-rename"], ["cd-to-disk"], ["replace-empty", "add"]]
UNLOCK_TEMPLATES = [["good"], ["wrong", "good", "noop"], ["good", "add"], ["wrong", "wrong", "good", "retype-cd"], ["good", "good", "rename"],
                    ["good", "remove", "noop"]]


def _hbase(key):
    return "%s%d:%d" % tuple(key)


def _hist_state(vm):
    """abstract device table of a VM: {(cls, bus, unit): [kind, file name as stored]}"""
    st = {}
    for d in vm["devices"]:
        if d["cls"] == "floppy":
            continue
        disk = d["kind"] in G.DISK_KINDS
        st[(d["cls"], d["bus"], d["unit"])] = ["disk" if disk else "cd", d["file"] + (".vmdk" if disk and d["file"] else "")]
    return st


def _hist_truth(st):
    return sorted(f for k, f in st.values() if k == "disk" and f)


def _hist_vm(rng):
    """a VM with at least two hard disks and one CD-ROM image (so that every template has something to act on)"""
    vm = G.gen_vm(rng, "quick")
    vm = dict(vm, devices=[dict(d) for d in vm["devices"]])
    used = {(d["cls"], d["bus"], d["unit"]) for d in vm["devices"]}
    free = [k for k in (("scsi", 0, 0), ("sata", 0, 1), ("nvme", 0, 2), ("ide", 1, 0), ("scsi", 2, 7), ("sata", 3, 29)) if k not in used]
    while len([d for d in vm["devices"] if d["kind"] == "disk" and d["file"]]) < 2:
        c, b, u = free.pop(0)
        vm["devices"].append({"cls": c, "bus": b, "unit": u, "kind": "disk", "file": rng.choice(G.DIRS) + rng.choice(G.STEMS) + "-h%d" % len(free)})
    if not any(d["kind"] == "cdrom-image" and d["file"] for d in vm["devices"]):
        c, b, u = free.pop(0)
        vm["devices"].append({"cls": c, "bus": b, "unit": u, "kind": "cdrom-image", "file": "install-h.iso"})
    return vm


def _hist_plan(rng, st, template):
    """abstract ops (explicit device keys, names and types) for a template, simulated on a copy of the device table `st`"""
    st = {k: list(v) for k, v in st.items()}
    ops, n = [], 0
    for t in template:
        n += 1
        repl = t.startswith("replace-")
        what = t[8:] if repl else t
        disks = sorted(k for k, (kd, f) in st.items() if kd == "disk" and f)
        cds = sorted(k for k, (kd, f) in st.items() if kd == "cd" and f)
        op = ["noop"]
        if what in ("add", "add-update"):
            while True:
                cls = rng.choice(["scsi", "scsi", "sata", "ide", "nvme"])
                key = (cls, rng.randrange(4), rng.randrange(31))
                if key not in st:
                    break
            f = rng.choice(G.DIRS) + rng.choice(G.STEMS) + "-new%d.vmdk" % n
            op = ["add", list(key), f, rng.choice(HIST_DISK_DT), "update" if what == "add-update" else "set"]
            st[key] = ["disk", f]
        elif what == "retype-cd" and disks:
            key = rng.choice(disks)
            op = ["retype", list(key), "cd", rng.choice(HIST_CD_DT)]
            st[key][0] = "cd"
        elif what in ("retype-disk", "cd-to-disk") and cds:
            key = rng.choice(cds)
            op = ["retype", list(key), "disk", rng.choice([d for d in HIST_DISK_DT if d])]
            st[key][0] = "disk"
        elif what == "rename" and disks:
            key = rng.choice(disks)
            f = rng.choice(G.DIRS) + "renamed %d.vmdk" % n
            op = ["rename", list(key), f]
            st[key][1] = f
        elif what == "clear" and disks:
            key = rng.choice(disks)
            op = ["rename", list(key), ""]
            st[key][1] = ""
        elif what == "remove" and disks:
            key = rng.choice(disks)
            op = ["remove", list(key)]
            del st[key]
        elif what == "empty":
            op = ["empty"]
            st.clear()
        elif what in ("good", "wrong"):
            op = ["unlock", what]
        if repl:
            op = ["replace", op]
        ops.append(op)
    return ops


def _hist_apply(op, st, cur):
    """one abstract op on the device table `st` and the expected dictionary `cur` (both changed in place) -> concrete step"""
    o = op[0]
    if o == "noop":
        return ["noop"]
    if o == "add":
        key, f, dt, how = tuple(op[1]), op[2], op[3], op[4]
        new = {_hbase(key) + ".present": "TRUE", _hbase(key) + ".filename": f}
        if dt is not None:
            new[_hbase(key) + ".devicetype"] = dt
        st[key] = ["disk", f]
        cur.update(new)
        return [how, new]
    if o == "retype":
        key = tuple(op[1])
        st[key][0] = op[2]
        cur[_hbase(key) + ".devicetype"] = op[3]
        return ["set", {_hbase(key) + ".devicetype": op[3]}]
    if o == "rename":
        key = tuple(op[1])
        st[key][1] = op[2]
        cur[_hbase(key) + ".filename"] = op[2]
        return ["set", {_hbase(key) + ".filename": op[2]}]
    if o == "remove":
        key = tuple(op[1])
        del st[key]
        gone = [k for k in cur if k.startswith(_hbase(key) + ".")]
        for k in gone:
            del cur[k]
        return ["del", gone]
    if o == "empty":
        st.clear()
        keep = {k: v for k, v in cur.items() if not k.startswith(("scsi", "sata", "ide", "nvme"))}
        cur.clear()
        cur.update(keep)
        return ["replace", dict(cur)]
    if o == "replace":                                         # the change is made on a copy, the copy becomes vmx.attr
        _hist_apply(op[1], st, cur)
        return ["replace", dict(cur)]
    raise ValueError(op)


def _hist_sealed(r):
    """encrypted variant: the VM's settings rendered as VMX text are the hidden configuration of a gen_vmx recipe; the envelope
    has no device keys but the ones `r["envelope_dev"]` puts there -> gen_vmx built dict, envelope device table"""
    import gen_vmx
    text, truth, tdict = G.render_vmx(r["vm"], random.Random(r["rseed"]))
    fr = dict(r["seal"])
    fr["hidden"] = [{"c": ln} for ln in text.split("\n")]
    vis = [{"k": ".encoding", "v": "UTF-8"}, {"k": "displayName", "v": r["vm"]["name"]}, {"k": "guestOS", "v": "other"}][:r["nvis"]]
    est = {}
    for key, f, dt in r.get("envelope_dev", []):
        vis.append({"k": _hbase(key) + ".fileName", "v": f})
        est[tuple(key)] = ["disk", f]
    fr["visible"] = vis
    fr["enc_at"] = sorted(min(a, len(vis)) for a in fr["enc_at"])
    b = gen_vmx.build(fr)
    assert b["hidden"] == tdict, "vmxhist: the sealed configuration does not read back as the rendered dictionary"
    return b, est, _hist_state(r["vm"])


def build_vmxhist(r):
    """-> (text, [concrete steps], [expected disk list after each step], [expected dictionary after each step], branches)"""
    br = set()
    if r["mode"] == "unlock":
        b, st, st_after = _hist_sealed(r)
        text, cur = b["text"], dict(b["visible"])
    else:
        text, truth, tdict = G.render_vmx(r["vm"], random.Random(r["rseed"]))
        st, cur = _hist_state(r["vm"]), dict(tdict)
        assert _hist_truth(st) == truth
    steps, lists, dicts = [["noop"]], [_hist_truth(st)], [dict(cur)]
    unlocked = mutated = False
    for op in r["ops"]:
        if op[0] == "unlock":
            if op[1] == "good":
                steps.append(["unlock", b["passphrase"]])
                assert not mutated, "vmxhist: templates unlock before they mutate"
                if not unlocked:                                # the VM's devices join the ones the envelope describes
                    assert not set(st) & set(st_after)
                    st.update(st_after)
                    unlocked = True
                cur.update(b["hidden"])
                br.add("hist-mutate:unlock" + ("-again" if "hist-mutate:unlock" in br else ""))
            else:
                steps.append(["unlock", b["passphrase"] + "?"])
                br.add("hist-mutate:unlock-wrong")
        else:
            steps.append(_hist_apply(op, st, cur))
            mutated = mutated or op[0] != "noop"
            br.add("hist-mutate:" + (op[0] if op[0] != "replace" else "replace-" + op[1][0]) + (":" + op[4] if op[0] == "add" else ":" + op[2] if op[0] == "retype" else ""))
        lists.append(_hist_truth(st))
        dicts.append(dict(cur))
    if any(a != b_ for a, b_ in zip(lists, lists[1:])):
        br.add("hist-mutate:list-changes")
    if lists[0] == [] and lists[-1]:
        br.add("hist-mutate:empty-then-disks")
    return text, steps, lists, dicts, br


def _hist_cases(seed, tier, tag=""):
    """directed, the same number on every run: 2 x every mutate template, 2 x every unlock template (+ envelope devices)"""
    import gen_vmx
    rng = random.Random(f"C18/vmxhist/{tag}/{seed}/{tier}")
    cases = []
    reps = 2 if tier == "quick" else 12
    for i in range(reps * len(HIST_TEMPLATES)):
        vm = _hist_vm(rng)
        r = {"fmt": "vmxhist", "mode": "mutate", "vm": vm, "rseed": rng.getrandbits(32), "variant": None}
        r["ops"] = _hist_plan(rng, _hist_state(vm), HIST_TEMPLATES[i % len(HIST_TEMPLATES)])
        cases.append({"id": f"{tag}vmxhist-m{i}", "recipe": r, "queries": ["disks"], "hist": []})
    for i in range(reps * len(UNLOCK_TEMPLATES)):
        vm = _hist_vm(rng)
        combo = gen_vmx.COMBOS[(i * 7 + seed) % len(gen_vmx.COMBOS)]
        seal = gen_vmx.gen_recipe(rng, "quick", combo=combo, npairs=1 + i % 2)
        for p in seal["pairs"]:
            p["rounds"] = min(p["rounds"], 60)
        r = {"fmt": "vmxhist", "mode": "unlock", "vm": vm, "rseed": rng.getrandbits(32), "variant": None, "seal": seal, "nvis": i % 4}
        st = _hist_state(vm)
        if i % 3 == 2:                                         # one device of the VM is described by the envelope itself
            key = next(k for k in (("scsi", 1, 5), ("sata", 2, 9), ("ide", 0, 1), ("scsi", 3, 3)) if k not in st)
            r["envelope_dev"] = [[list(key), "envelope-%d.vmdk" % i, None]]
            st[key] = ["disk", "envelope-%d.vmdk" % i]
        r["ops"] = _hist_plan(rng, st, UNLOCK_TEMPLATES[i % len(UNLOCK_TEMPLATES)])
        cases.append({"id": f"{tag}vmxhist-u{i}", "recipe": r, "queries": ["disks"], "hist": []})
    return cases


def _dict_text(d):
    """a text spelling of a dictionary (for the model); None when a value cannot be spelled that simply"""
    import gen_vmx
    text = "".join(f'{k} = "{v}"\n' for k, v in d.items())
    return text if gen_vmx.parse_dictionary(text) == d else None


# --------------------------------------------------------------------------- cases

def _render(recipe):
    fmt, vm, rs = recipe["fmt"], recipe["vm"], recipe["rseed"]
    if fmt == "vmx":
        text, truth, tdict, qs = build_vmx(recipe)
        return text, truth, tdict, qs
    if fmt == "vbox" and recipe.get("variant") == "nested":
        text, truth = render_vbox_nested(vm, random.Random(rs))
        return text, truth, None, []
    if fmt == "ovf" and recipe.get("variant") == "crossed":
        text, truth = render_ovf_crossed(vm, random.Random(rs))
        return text, truth, None, []
    text, truth = G.build(recipe)
    return text, truth, None, []


def generate(seed, tier):
    rng = random.Random(f"C18/{seed}/{tier}")
    n = 150 if tier == "quick" else 2000
    cases = []
    for i in range(n):
        vm = G.gen_vm(rng, tier)
        if i % 5 == 1:                                        # every run: '#' inside values (all four renderings of this VM)
            vm = hashify(vm, rng)
        if i % 10 == 3:                                       # every run: hard disks whose deviceType key is present but empty
            vm = emptytype(vm, random.Random(f"C18/emptytype/{seed}/{i}"), i // 10)
        for fmt in FMTS:
            variant = None
            if fmt == "vmx":
                variant = "reassign" if rng.random() < 0.6 else None
            if fmt == "vbox":
                variant = "nested" if rng.random() < 0.4 else None
            if fmt == "ovf":                                  # every run: disk ids that are other files' ids, both HostResource forms
                variant = "crossed" if i % 4 == 2 or rng.random() < 0.15 else None
            vmf = linesep(vm, random.Random(f"C18/linesep/{seed}/{i}"), i // 10) if fmt == "vmx" and i % 10 == 7 else vm
            recipe = {"vm": vmf, "fmt": fmt, "rseed": rng.getrandbits(32), "variant": variant}
            qs = _render(recipe)[3]
            cases.append({"id": f"{fmt}{i}", "recipe": recipe, "queries": ["disks"] + (["dict"] + qs if fmt == "vmx" else []), "hist": gen_history(rng)})
    return cases + _hist_cases(seed, tier)


def _lower_ok(s):
    return s.lower() == "".join(c.lower() for c in s)


def build(case):
    r = case["recipe"]
    fmt, vm = r["fmt"], r["vm"]
    if fmt == "vmxhist":
        text, steps, lists, dicts, br = build_vmxhist(r)
        in_scope = all(_lower_ok(l.partition("=")[0]) for l in text.split("\n")) and all(_lower_ok(v) for d in dicts for k, v in d.items() if k.endswith(".devicetype"))
        br |= {"vmxhist", "vmxhist-" + r["mode"], "disks=%s" % (len(lists[-1]) if len(lists[-1]) < 4 else "4+")}
        b = Built({}, [canon_list(l) for l in lists], {"branches": sorted(br), "in_scope": in_scope, "compare_model_out_of_scope": False,
                                                      "nontrivial": any(a != b_ for a, b_ in zip(lists, lists[1:])), "fmt": fmt})
        b.text, b.queries, b.steps, b.dicts = text, [], steps, dicts
        return b
    text, truth, tdict, qs = _render(r)
    kinds = {d["kind"] for d in vm["devices"]}
    branches = {fmt, fmt + ("-" + r["variant"] if r.get("variant") else "")}
    in_scope = True
    if fmt == "vmx":
        answers = [canon_list(truth), dict_digest(list(tdict.items()))] + [_h(tdict.get(q)) for q in qs]
        branches |= {"vmx-crlf"} if "\r\n" in text else set()
        branches |= {"vmx-comment"} if "\n#" in text or "\n #" in text or "\n\t#" in text else set()
        branches |= {"vmx-hash-in-disk-file"} if any("#" in t for t in truth) else set()
        branches |= {"vmx-hash-in-value"} if any("#" in v for v in tdict.values()) else set()
        et = [k for k, v in tdict.items() if k.endswith(".devicetype") and v == "" and tdict.get(k[:-11] + ".filename")]
        branches |= {"vmx-empty-devicetype-on-hard-disk"} if et else set()
        if r.get("variant") == "reassign" and len(qs) > 5:
            branches.add("vmx-reassigned-key")
        in_scope = all(_lower_ok(l.partition("=")[0]) for l in text.split("\n")) and all(_lower_ok(v) for k, v in tdict.items() if k.endswith(".devicetype"))
    else:
        answers = [canon_list(truth)]
        if fmt == "vbox":
            branches |= {"vbox-nested-reported"} if r.get("variant") == "nested" and len(truth) > 1 else set()
        if fmt == "ovf":
            answers.append("spec=ok")                         # model = specification of ovf_disks_exact wherever its hypothesis holds
            cr, vd, vf = ovf_shape(text)
            branches |= {"ovf-via-file"} if vf else set()
            branches |= {"ovf-via-disk"} if vd else set()
            branches |= {"ovf-diskid-is-other-file-id"} if cr else set()
            branches |= {"ovf-diskid-is-other-file-id+both-forms"} if cr and vd and vf else set()
    hist = case.get("hist", [])
    answers += history_answers(lambda: list(truth), hist)      # the same list, whatever was asked before
    branches |= {"hist-" + op for op in hist}
    branches |= {"has-" + k for k in kinds}
    branches.add("disks=%s" % (len(truth) if len(truth) < 4 else "4+"))
    nt = bool(truth) and (bool(kinds - set(G.DISK_KINDS)) or r.get("variant") is not None or len(vm["unrelated"]) > 0 and fmt == "vmx")
    b = Built({}, answers, {"branches": sorted(branches), "in_scope": in_scope, "compare_model_out_of_scope": False, "nontrivial": nt, "fmt": fmt})
    b.text = text
    b.queries = qs
    return b


# --------------------------------------------------------------------------- the real code

def impl_run(case, built):
    fmt, text = built.info["fmt"], built.text
    answers, errors = [], {}
    if fmt == "vmxhist":
        from dissect.hypervisor.descriptor.vmx import VMX
        try:
            vmx = VMX.parse(text)
        except Exception as e:  # noqa
            return {"answers": ["E"], "errors": {"0": f"{type(e).__name__}: {e}"[:300]}}
        for i, st in enumerate(built.steps):
            try:
                if st[0] == "set":
                    for k, v in st[1].items():
                        vmx.attr[k] = v
                elif st[0] == "update":
                    vmx.attr.update(st[1])
                elif st[0] == "del":
                    for k in st[1]:
                        del vmx.attr[k]
                elif st[0] == "replace":
                    vmx.attr = dict(st[1])
                elif st[0] == "unlock":
                    try:
                        vmx.unlock_with_phrase(st[1])
                    except ValueError as e:                    # a wrong passphrase is refused; the dictionary stays (C15)
                        errors["u%d" % i] = f"{type(e).__name__}: {e}"[:200]
                answers.append(canon_list(vmx.disks()))
            except Exception as e:  # noqa
                answers.append("E")
                errors[str(i)] = f"{type(e).__name__}: {e}"[:300]
        return {"answers": answers, "errors": errors}
    if fmt == "vmx":
        from dissect.hypervisor.descriptor.vmx import VMX
        try:
            vmx = VMX.parse(text)
        except Exception as e:  # noqa
            return {"answers": ["E"], "errors": {"0": f"{type(e).__name__}: {e}"[:300]}}
        try:
            answers.append(canon_list(vmx.disks()))
        except Exception as e:  # noqa
            answers.append("E")
            errors["0"] = f"{type(e).__name__}: {e}"[:300]
        answers.append(dict_digest(list(vmx.attr.items())))
        answers += [_h(vmx.attr.get(q)) for q in built.queries]
        answers += history_answers(vmx.disks, case.get("hist", []))
        return {"answers": answers, "errors": errors}
    obj = None
    try:
        if fmt == "ovf":
            from dissect.hypervisor.descriptor.ovf import OVF
            obj = OVF(io.StringIO(text))
        elif fmt == "vbox":
            from dissect.hypervisor.descriptor.vbox import VBox
            obj = VBox(io.StringIO(text))
        else:
            from dissect.hypervisor.descriptor.pvs import PVS
            obj = PVS(io.StringIO(text))
        answers.append(canon_list(list(obj.disks())))
    except Exception as e:  # noqa
        answers.append("E")
        errors["0"] = f"{type(e).__name__}: {e}"[:300]
    if fmt == "ovf":
        answers.append("spec=ok")
    # the same object is queried again (see gen_history)
    answers += history_answers(obj.disks, case.get("hist", [])) if obj is not None else ["HE"] * len(case.get("hist", []))
    return {"answers": answers, "errors": errors}


# --------------------------------------------------------------------------- the model

def tree_tokens(e, out):
    out += ["N", _h(e.tag), str(len(e.attrib))]
    for k, v in e.attrib.items():
        out += [_h(k), _h(v)]
    out += [_h(e.text), _h(e.tail), str(len(e))]
    for c in e:
        tree_tokens(c, out)
    return out


def model_lines(case, built):
    fmt, text = built.info["fmt"], built.text
    if fmt == "vmxhist":                                       # the model's disks() of the dictionary of every step
        texts = [_dict_text(d) for d in built.dicts]
        return ["cfg.noxml"] if any(t is None for t in texts) else [" ".join(["cfg.vmx", _h(t)]) for t in texts]
    if fmt == "vmx":
        return [" ".join(["cfg.vmx", _h(text)] + [_h(q) for q in built.queries])]
    try:
        from defusedxml import ElementTree
        root = ElementTree.fromstring(text)
    except Exception:  # noqa
        return ["cfg.noxml"]
    if any(not isinstance(x.tag, str) for x in root.iter()):
        return ["cfg.noxml"]
    toks = tree_tokens(root, [])
    return [" ".join(["cfg." + fmt] + toks)] + ([" ".join(["cfg.ovfspec"] + toks)] if fmt == "ovf" else [])


def _unhex(t):
    return None if t == "~" else bytes.fromhex(t[1:]).decode("utf-8", "surrogatepass")


def model_parse(case, built, out):
    """the model's disk list is a pure function of the document: its answers to the history are derived from that one list"""
    if built.info["fmt"] == "vmxhist":
        if not out or len(out) != len(built.dicts) or not all(l.startswith("ok ") for l in out):
            return {"answers": None, "wf": None, "raw": [l[:120] for l in (out or [])][:3]}
        return {"answers": [l.split(" ")[1] for l in out], "wf": built.info["in_scope"]}
    r = _model_parse(case, built, out)
    a = r.get("answers")
    if a and case.get("hist"):
        if a[0].startswith("L"):
            lst = _unlist(a[0])
            r["answers"] = a + history_answers(lambda: list(lst), case["hist"])
        else:
            r["answers"] = a + ["HE"] * len(case["hist"])
    return r


def _model_parse(case, built, out):
    if not out:
        return {"answers": None, "wf": None}
    line = out[0]
    if not line.startswith("ok "):
        return {"answers": None, "wf": None, "raw": line[:200]}
    parts = line.split(" ")
    if built.info["fmt"] == "ovf":
        # second line: `ok <ovfWfb 0|1> <ovfSpec>`; inside the hypothesis of ovf_disks_exact the model must equal the specification
        sp = out[1].split(" ") if len(out) > 1 and out[1].startswith("ok ") else None
        if sp is None:
            return {"answers": [parts[1], "spec=?"], "wf": None, "raw": (out[1] if len(out) > 1 else "")[:200]}
        wfb = sp[1] == "1"
        ok = (not wfb) or sp[2] == parts[1]
        return {"answers": [parts[1], "spec=ok" if ok else "spec=" + sp[2][:200]], "wf": wfb and built.info["in_scope"], "spec": sp[2]}
    if built.info["fmt"] != "vmx":
        return {"answers": [parts[1]], "wf": parts[1] != "E" and built.info["in_scope"]}
    items = []
    body = parts[2][1:]
    for it in body.split(",") if body else []:
        k, v = it.split(":")
        items.append((_unhex(k), _unhex(v)))
    qa = parts[3][1:].split(",") if len(parts) > 3 and parts[3][1:] else []
    return {"answers": [parts[1], dict_digest(items)] + qa, "wf": parts[1] != "E" and built.info["in_scope"]}


def nontrivial(case, built, model):
    return built.info["nontrivial"]


def search(seed, broken, budget):
    rng = random.Random(f"C18/search/{seed}")
    cases = []
    for i in range(min(budget, 2000) // 4):
        vm = G.gen_vm(rng, "thorough")
        for fmt in FMTS:
            variant = {"vmx": "reassign", "vbox": "nested" if i % 2 else None, "ovf": "crossed" if i % 2 else None}.get(fmt)
            vmf = linesep(vm, random.Random(f"C18/linesep/{seed}/{i}"), i // 10) if fmt == "vmx" and i % 10 == 7 else vm
            recipe = {"vm": vmf, "fmt": fmt, "rseed": rng.getrandbits(32), "variant": variant}
            qs = _render(recipe)[3]
            cases.append({"id": f"s{fmt}{i}", "recipe": recipe, "queries": ["disks"] + (["dict"] + qs if fmt == "vmx" else []), "hist": gen_history(rng)})
    return cases


def shrink(case):
    """drop devices / unrelated settings while the implementation still disagrees with the writer's truth"""
    def failing(c):
        try:
            b = build(c)
            res = core.run_impl(__name__, [c], timeout_case=TIMEOUT_CASE, nproc=1).get(c["id"], {})
            return bool(res.get("fatal")) or res.get("answers") != b.truth
        except Exception:  # noqa
            return False
    r = case["recipe"]
    if r["fmt"] == "vmxhist":                                 # the shortest failing prefix of the history
        for k in range(1, len(r["ops"])):
            c2 = dict(case, recipe=dict(r, ops=r["ops"][:k]), id=case["id"] + f".p{k}")
            if failing(c2):
                return c2
        return case
    for field in ("devices", "unrelated", "controllers"):
        changed, rounds = True, 0
        while changed and rounds < 30:
            changed = False
            rounds += 1
            items = r["vm"][field]
            for i in reversed(range(len(items))):
                vm2 = dict(r["vm"], **{field: items[:i] + items[i + 1:]})
                if field == "devices":                        # keep controllers consistent with the remaining devices
                    have = {(d["cls"], d["bus"]) for d in vm2["devices"]}
                    vm2["controllers"] = [c for c in vm2["controllers"] if (c["cls"], c["bus"]) in have]
                c2 = dict(case, recipe=dict(r, vm=vm2))
                c2["queries"] = ["disks"] + (["dict"] + _render(c2["recipe"])[3] if r["fmt"] == "vmx" else [])
                if failing(c2):
                    r, case, changed = c2["recipe"], c2, True
                    break
    return case
