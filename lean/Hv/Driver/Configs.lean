import Hv.Driver.Core
import Hv.Configs
import Hv.ConfigsSpec
namespace Hv.Driver
open Hv Hv.XPath Hv.Configs

/-- `s<hex of UTF-8>` → code points; `~` is Python's `None` -/
def decStr (t : String) : Option Str :=
  if t.front = 's' then
    match parseHex (t.drop 1).toString with
    | some b => (String.fromUTF8? b).map String.toList
    | none => none
  else none

def decOpt (t : String) : Option (Option Str) :=
  if t = "~" then some none else (decStr t).map some

def encStr (s : Str) : String := "s" ++ hexOf (String.ofList s).toUTF8.toList

def encOpt : Option Str → String
  | none => "~"
  | some s => encStr s

def encList (l : List (Option Str)) : String := "L" ++ ",".intercalate (l.map encOpt)

/-- pre-order token stream: `N <tag> <#attrs> (<key> <value>)* <text> <tail> <#children> children…` -/
partial def decXml : List String → Option (Xml × List String)
  | "N" :: tag :: na :: rest => do
    let tag ← decStr tag
    let na ← na.toNat?
    let rec attrs (n : Nat) (ts : List String) (acc : List (Str × Str)) : Option (List (Str × Str) × List String) :=
      match n, ts with
      | 0, ts => some (acc.reverse, ts)
      | n + 1, k :: v :: ts => do attrs n ts ((← decStr k, ← decStr v) :: acc)
      | _, _ => none
    let (as, rest) ← attrs na rest []
    match rest with
    | text :: tail :: nc :: rest =>
      let text ← decOpt text
      let tail ← decOpt tail
      let nc ← nc.toNat?
      let rec kids (n : Nat) (ts : List String) (acc : List Xml) : Option (List Xml × List String) :=
        match n with
        | 0 => some (acc.reverse, ts)
        | n + 1 => do
          let (c, ts) ← decXml ts
          kids n ts (c :: acc)
      let (cs, rest) ← kids nc rest []
      some (.node tag as cs text tail, rest)
    | _ => none
  | _ => none

def xmlCmd (f : Xml → Option (List (Option Str))) (toks : List String) : String :=
  match decXml toks with
  | some (root, []) =>
    match f root with
    | some l => "ok " ++ encList l
    | none => "ok E"
  | _ => "bad-tree"

def configsCmd (_st : St) : List String → String
  | "cfg.vmx" :: text :: qs =>
    match decStr text, qs.mapM decStr with
    | some t, some qs =>
      let d := parseDictionary cfg t
      let dk := match disks cfg d with
        | some l => encList (l.map some)
        | none => "E"
      let items := ",".intercalate (d.map (fun kv => encStr kv.1 ++ ":" ++ encStr kv.2))
      let ans := ",".intercalate (qs.map (fun q => encOpt (aget q d)))
      s!"ok {dk} I{items} Q{ans}"
    | _, _ => "bad-arg"
  | "cfg.ovf" :: toks => xmlCmd (ovfDisks ovfCfg) toks
  | "cfg.ovfspec" :: toks =>
    -- the pointwise specification of theorem `ovf_disks_exact` and its hypothesis, evaluated on the same tree
    match decXml toks with
    | some (root, []) =>
      s!"ok {if ConfigsSpec.ovfWfb root then 1 else 0} {encList ((ConfigsSpec.ovfSpec root).map some)}"
    | _ => "bad-tree"
  | "cfg.vbox" :: toks => xmlCmd (fun r => (vboxDisks cfg vboxCfg r).map (fun l => l.map some)) toks
  | "cfg.pvs" :: toks => xmlCmd (pvsDisks pvsCfg) toks
  | _ => "bad-cmd"

end Hv.Driver
