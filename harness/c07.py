"""C07 — layer precedence in differencing / backing / snapshot chains, and parent resolution."""
from __future__ import annotations

import hashlib
import json
import os
import random
import shutil

import c05 as vdi
import c07_resolve as rsv
import core
import gen_hdd
import gen_qcow2
import gen_vhdx
import gen_vmdk
from core import Built

PROPERTY = "C07"
RULE = ("five families, real temp directories on the implementation side. vhdx: differencing chains depth 2..4, per-block states "
        "incl. partially-present blocks with per-sector bitmaps (runs of 1..64 sectors, arbitrary alignment), parent locator relative / "
        "absolute / both / missing; fixed grid of 18 chains (depth 2..4) with explicit sector bitmaps in the top layer and the layer below, stream "
        "buffers that are no multiple of eight sectors (512, 1536, 2560, 3584, 7680, 66048; 4 KiB sectors: 4096, 12288, 20480) and "
        "read_sectors(sector, count) at start sectors that are no multiple of eight. hdd: Parallels snapshot trees (chains depth 1..4 + side branches, explicit and default TopGUID, "
        "plain roots, XML order shuffled, moved directories; an unresolvable ancestor at every depth — unknown ParentGUID of the opened snapshot, "
        "of its parent ... of the root, or the ancestor's Shot deleted — with all image files present: opening must fail). qcow2: backing chains (raw / qcow2, shorter / longer), internal "
        "snapshots read after the active image has been read (history), missing backing. vdi: parent chains. vmdk: delta descriptors "
        "naming 1..4 sparse extents (cuts unrelated to grain sizes and to the parent's extents) over a parent descriptor (hint: same directory, sibling directory, Windows-style path, missing); fixed grid of 32 delta links (text descriptor / hosted sparse extent with embedded descriptor): parentFileNameHint line absent / empty / blank with the parent present (must fail), parentCID in upper case / without leading zeros with a valid hint (overlay). Non-trivial = depth ≥ 2 and "
        "(for content families) a request that crosses an allocation-unit boundary; distinct recipe hash. Resolution layouts (c07_resolve.py): "
        "rx = VHDX parent locators (first / second key, table order, stale or unusable first key, missing keys, drive letters, case, `..` through a "
        "missing directory, cycles, three directories deep), rh = Parallels .hdd directories (relative / absolute image names, the three fall-back "
        "places and their precedence, opening through a file of the directory, explicit snapshot GUID, missing (parent, grand-parent, root reference, deleted Shot, below an explicit GUID) / cyclic / duplicated shots, absent "
        "image or descriptor), rq = QCOW2 backing names (relative / absolute, no handle / opt-out / another handle); the paths the real code opens "
        "(audit hook) are compared with the paths the model opens and with the placement the generator intended.")
ASSUMPTIONS = ["content families: pathlib / os existence tests on the implementation side, the model receives the resolved chain; resolution families (rx / rh / rq): "
               "the directory tree is modelled (Hv/Resolve.lean: PurePosixPath, kernel path walk without symbolic links, `//x` = `/x`), Python's recursion limit is a fuel of 64", "dissect.util AlignedStream as transcribed", "copy.copy semantics for QCow2Snapshot.open (buffer reset modelled by a fresh stream)"]
TIMEOUT_CASE = 60.0


def tmpdir_for(case):
    # per work copy and checked tree: two checks running at the same time (another clone, a scratch worktree) generate the same cases
    h = hashlib.sha256((str(core.ROOT) + "|" + str(core.REPO) + "|" + case["id"] + json.dumps(case["recipe"], sort_keys=True)).encode()).hexdigest()[:16]
    return f"/tmp/hvc07-{h}"


def hexs(s):
    return s.encode().hex()


# ------------------------------------------------------------------------------------------ vmdk delta

def gen_vmdk_delta(rng, tier):
    """delta descriptor (1..4 sparse extents, see gen_vmdk.gen_delta) over a parent descriptor; the hint names the same directory,
    a sibling directory, a Windows-style path, or nothing that exists"""
    return gen_vmdk.gen_delta(rng, tier)


VmdkDeltaTruth = gen_vmdk.DeltaTruth
# (embedded descriptor?, parentFileNameHint form, parentCID form): gen_vmdk.LINK_HINTS / LINK_CIDS
VMDK_LINK_GRID = [(emb, hint, cid) for emb in (False, True) for hint, cid in
                  [(h, "exact") for h in ("absent", "empty", "empty_bare", "blank", "blank_bare", "tab", "quote_only")] +
                  [(h, c) for h in ("absent", "empty") for c in ("upper", "short")] +
                  [("ok", c) for c in ("exact", "upper", "short", "short_upper", "mixed")]]


# ------------------------------------------------------------------------------------------ generation

def generate(seed, tier):
    rng = random.Random(f"C07/{seed}/{tier}")
    cases = []
    n = {"quick": 40, "thorough": 500}[tier]
    for i in range(n):
        depth = rng.choice([2, 2, 3, 4] + ([6, 8] if tier == "thorough" else []))
        r = gen_vhdx.gen_recipe(rng, tier, depth=depth if i % 6 != 5 else 2, big=(i % 6 == 5))
        r["missing"] = rng.random() < 0.12
        cases.append({"id": f"x{i}", "fam": "vhdx", "recipe": r, "align": rng.choice([8192] * 4 + [4096, 65536, 1 << 20]),
                      "queries": gen_vhdx.gen_queries(rng, r, 8 if tier == "quick" else 14)})
    # vhdx, directed (own generator, fixed grid): chains of depth 2..4 in which the top layer and the layer below it hold partially-present
    # blocks at the same guest offset (explicit bitmaps: runs changing inside bitmap bytes, whole-byte runs, single sectors at odd
    # positions); stream buffers that are sector multiples but no multiple of eight sectors, so that back-end requests begin inside a
    # byte of the sector bitmap; read_sectors(sector, count) at start sectors that are no multiple of eight
    xrng = random.Random(f"C07vhdx-sector/{seed}/{tier}")
    for i in range(18 if tier == "quick" else 180):
        ss = 4096 if i % 4 == 3 else 512
        r = gen_vhdx.gen_diff_recipe(xrng, tier, depth=2 + i % 3, ss=ss, shape=i)
        r["missing"] = False
        al = {512: [1536, 512, 2560, 8192, 7680, 3584, 66048, 4096], 4096: [4096, 12288, 20480, 8192]}[ss]
        sq = gen_vhdx.gen_sector_queries(xrng, r, 8)
        oq = gen_vhdx.gen_queries(xrng, r, 6)
        qs = [q for pair in zip(sq, oq + oq) for q in pair][: 8 + len(oq)] if sq else oq
        cases.append({"id": f"xs{i}", "fam": "vhdx", "recipe": r, "align": al[(i // 4 if ss == 4096 else i - i // 4) % len(al)], "queries": qs})
    for i in range(n):
        r = gen_hdd.gen_recipe(rng, tier, max_depth=4)
        r["variant"] = rng.choice(["ok", "ok", "ok", "missing_image", "moved"])
        t = gen_hdd.Truth(r)
        cases.append({"id": f"h{i}", "fam": "hdd", "recipe": r, "align": rng.choice([8192] * 4 + [512, 65536]), "queries": gen_hdd.gen_queries(rng, t, 8 if tier == "quick" else 14)})
    # hdd: a required ancestor of the opened snapshot cannot be resolved, at every depth of the chain (the opened snapshot's parent,
    # its grand-parent, ... the root's parent reference), every image file present: opening must fail, not present the upper layers alone
    hrng = random.Random(f"C07hdd-ancestor/{seed}/{tier}")
    for i in range(n // 4 + 2):
        r = gen_hdd.gen_recipe(hrng, tier, max_depth=4, min_depth=1 + i % 4)
        depth = len(r["chain"])
        how = "deleted_shot" if (i % 3 == 2 and depth >= 2) else "unknown_parent"
        j = (i // 4) % depth if how == "unknown_parent" else 1 + (i // 4) % (depth - 1)
        gen_hdd.break_ancestor(r, hrng, j, how)
        r["variant"] = "missing_ancestor"
        t = gen_hdd.Truth(r)
        cases.append({"id": f"ha{i}", "fam": "hdd", "recipe": r, "align": hrng.choice([8192] * 4 + [512, 65536]), "queries": gen_hdd.gen_queries(hrng, t, 4)})
    for i in range(n):
        r = gen_qcow2.gen_recipe(rng, tier, backing=rng.choice(["raw", "qcow2", "qcow2"]), nsnaps=rng.choice([0, 1, 2, 3]), snap_small_l1=0.1)
        t = gen_qcow2.Truth(r)
        nsn = len(r.get("snaps", []))
        view = rng.randrange(nsn + 1) if nsn else 0          # 0 = active, j+1 = snapshot j
        r2 = dict(r)
        cases.append({"id": f"q{i}", "fam": "qcow2", "recipe": r2, "view": view, "missing": rng.random() < 0.1, "align": rng.choice([8192] * 4 + [512, 65536, 1 << 20]),
                      "pre": gen_qcow2.gen_queries(rng, t, 2, 0), "queries": gen_qcow2.gen_queries(rng, t, 8 if tier == "quick" else 14, view)})
    for i in range(n // 2):
        r = vdi.gen_recipe(rng, tier)
        if not r.get("parent"):
            r["parent"] = vdi.gen_recipe(rng, tier, allow_parent=False, size=r["size"])
        cases.append({"id": f"d{i}", "fam": "vdi", "recipe": r, "align": rng.choice([8192] * 4 + [512, 65536]), "queries": vdi.gen_queries(rng, r, 8)})
    for i in range(n):
        r = gen_vmdk_delta(rng, tier)
        t = VmdkDeltaTruth(r)
        qs = [["o", o, l] for o, l in gen_vmdk.gen_queries(rng, t.size, t.points(), 8 if tier == "quick" else 14) + t.hot_queries(4)]
        cases.append({"id": f"m{i}", "fam": "vmdk", "recipe": r, "align": rng.choice([8192] * 4 + [512, 65536]), "queries": qs})
    # vmdk, directed (own generator, fixed grid): the LINK of a delta disk to its parent as the subject — text descriptors and hosted
    # sparse extents with an embedded descriptor; parentFileNameHint line absent / empty / blank (quoted and bare) with the parent
    # lying next to the child: the names designate nothing, opening must fail (never the child alone); parentCID written in upper
    # case / without its leading zeros / mixed case with a hint that names the parent (same or sibling directory): overlay
    lrng = random.Random(f"C07vmdk-link/{seed}/{tier}")
    for rep in range(1 if tier == "quick" else 6):
        for k, (emb, hint, cid) in enumerate(VMDK_LINK_GRID):
            r = gen_vmdk.gen_delta_link(lrng, tier, emb, hint, cid, where=["same", "sibling"][(k + rep) % 2] if hint == "ok" else "same")
            t = VmdkDeltaTruth(r)
            qs = [["o", o, l] for o, l in gen_vmdk.gen_queries(lrng, t.size, t.points(), 6)]
            cases.append({"id": f"ml{rep}_{k}", "fam": "vmdk", "recipe": r, "align": lrng.choice([8192] * 4 + [512, 65536]), "queries": qs})
    # parent / chain resolution on directory layouts (model: lean/Hv/Resolve.lean through the `resolve.*` driver commands)
    cases += rsv.generate(random.Random(f"C07res/{seed}/{tier}"), tier)
    return cases


def group_by_env(cases):
    by = {}
    for c in cases:
        by.setdefault(c.get("align", 8192), []).append(c)
    return [({"DISSECT_STREAM_BUFFER_SIZE": a}, cs) for a, cs in sorted(by.items())]


def build(case):
    fam, r = case["fam"], case["recipe"]
    if fam in rsv.BUILD:
        return rsv.BUILD[fam](case, tmpdir_for(case))
    if fam == "vhdx":
        t = gen_vhdx.Truth(r, absdir=tmpdir_for(case))
        names = t.names()
        files = {f"l{k}": im for k, (_, im, _) in enumerate(t.layers)}
        missing = r.get("missing")
        top = r["layers"][-1]
        truth = ["E"] if missing else core.truth_ops(t.size, t.read, case["queries"], sector_size=top["ss"])
        bs = top["bs"]
        crosses = any(q[0] == "o" and q[2] > 0 and q[1] < t.size and q[1] // bs != (min(q[1] + q[2], t.size) - 1) // bs for q in case["queries"])
        partial = any(7 in l["blocks"] for l in r["layers"])
        sect = ["read_sectors-unaligned"] if any(q[0] == "S" and q[1] % 8 for q in case["queries"]) else []
        b = Built(files, truth, {"branches": ["vhdx", f"depth{len(names)}", f"loc_{top['locator']}"] + (["partial"] if partial else []) + (["missing"] if missing else []) + sect +
                                 ([f"align{case['align']}"] if case["align"] % (8 * top["ss"]) else []),
                                 "crosses": crosses or partial, "depth": len(names), "in_scope": True, "missing": missing})
        b.t = t
        return b
    if fam == "hdd":
        t = gen_hdd.Truth(r)
        var = r["variant"]
        ids = {name: f"f{k}" for k, name in enumerate(t.files)}
        toks = []
        for tok in t.storage_tokens():
            a, e, kind, names = tok.split(":", 3)
            names = "+".join(("raw=" + ids[n[4:]]) if n.startswith("raw=") else ids[n] for n in names.split("+"))
            toks.append(f"{a}:{e}:{kind}:{names}")
        truth = ["E"] if var in ("missing_image", "missing_ancestor") else core.truth_ops(t.size, t.read, case["queries"])
        depth = len(r["chain"])
        broken = [f"broken_at{r['broken']['at']}", r["broken"]["how"]] if var == "missing_ancestor" else []
        b = Built({ids[n]: im for n, im in t.files.items()}, truth,
                  {"branches": ["hdd", f"depth{depth}", var] + broken + (["explicit_top"] if r["top_explicit"] else []), "crosses": True,
                   "depth": max(depth, 2) if broken else depth, "in_scope": True, "tokens": toks, "missing": var == "missing_image"})
        b.t = t
        return b
    if fam == "qcow2":
        t = gen_qcow2.Truth(r)
        view = case["view"]
        reader = t.read if view == 0 else (lambda o, n: t.snapshot_read(view - 1, o, n))
        missing = case.get("missing")
        truth = ["E"] if missing else (core.truth_ops(t.size, t.read, case["pre"]) + core.truth_ops(t.size, reader, case["queries"]))
        import c01
        depth = 1 + (1 if r.get("backing") else 0)
        b = Built(dict(t.files), truth, {"branches": ["qcow2", f"view{min(view, 1)}", f"backing_{(r.get('backing') or {}).get('kind')}"] + (["missing"] if missing else []),
                                         "crosses": True, "depth": 2, "in_scope": True, "tokens": c01.tokens(t), "missing": missing})
        b.t = t
        return b
    if fam == "vdi":
        b = vdi.build(case)
        b.info["depth"] = 2
        b.info["branches"] = ["vdi"] + b.info["branches"]
        return b
    t = VmdkDeltaTruth(r)
    link = r.get("link")
    # a link that names nothing (no / empty / blank hint) is a parent that cannot be resolved, like a hint naming an absent file
    missing = r["where"] == "missing" or bool(link and link["expect"] == "E")
    truth = ["E"] if missing else core.truth_ops(t.size, t.read, case["queries"])
    ids = {name: f"b{k}" for k, name in enumerate(t.base.files)}
    cids = {name: f"c{k}" for k, name in enumerate(t.child.files)}
    files = {ids[n]: im for n, im in t.base.files.items()}
    files.update({cids[n]: im for n, im in t.child.files.items()})
    nx = len(r["child"]["extents"])
    lbr = ["link", "embedded-desc" if link["embedded"] else "text-desc", f"hint_{link['hint']}", f"pcid_{link['cid']}"] if link else []
    # no_model: the Lean driver opens delta disks through text descriptors only (vmdk.desc.delta); a child that is one hosted sparse
    # extent with an embedded descriptor is compared with the construction truth alone
    b = Built(files, truth, {"branches": ["vmdk", r["where"], f"extents{min(nx, 3)}"] + sorted({e["rec"]["kind"] for e in r["child"]["extents"]}) + lbr, "crosses": True, "depth": 2,
                             "in_scope": True, "ids": ids, "cids": cids, "missing": missing, "no_model": bool(link and link["embedded"])})
    b.t = t
    return b


def impl_run(case, built):
    fam, r = case["fam"], case["recipe"]
    if fam in rsv.IMPL:
        d = tmpdir_for(case)
        shutil.rmtree(d, ignore_errors=True)
        os.makedirs(d)
        try:
            return rsv.IMPL[fam](case, built, d)
        finally:
            shutil.rmtree(d, ignore_errors=True)
    if fam == "vdi":
        return vdi.impl_run(case, built)
    if fam == "qcow2":
        from dissect.hypervisor.disk.qcow2 import QCow2
        t = built.t
        if case.get("missing"):
            try:
                QCow2(t.files["img"].open(), data_file=t.files["data"].open() if "data" in t.files else None, backing_file=None)
                return {"answers": ["opened"]}
            except Exception as e:  # noqa
                return {"answers": ["E"], "errors": {"0": f"{type(e).__name__}: {e}"}}
        q = gen_qcow2.open_impl(t)
        res = core.impl_ops(q, case["pre"])
        if res["errors"]:
            return res
        s = q if case["view"] == 0 else q.snapshots[case["view"] - 1].open()
        res2 = core.impl_ops(s, case["queries"])
        return {"answers": res["answers"] + res2["answers"], "errors": res2["errors"]}
    d = tmpdir_for(case)
    shutil.rmtree(d, ignore_errors=True)
    os.makedirs(d)
    try:
        from pathlib import Path
        if fam == "vhdx":
            from dissect.hypervisor.disk.vhdx import VHDX
            t = built.t
            names = t.names()
            for k, (l, im, _) in enumerate(t.layers):
                if r.get("missing") and k == len(names) - 2:
                    continue                                  # the direct parent of the top layer is absent
                im.write_to(os.path.join(d, names[k]))
            try:
                v = VHDX(Path(d) / names[-1])
            except Exception as e:  # noqa
                return {"answers": ["E"], "errors": {"0": f"{type(e).__name__}: {e}"}}
            return core.impl_ops_sec(v, case["queries"])
        if fam == "hdd":
            from dissect.hypervisor.disk.hdd import HDD
            t = built.t
            var = r["variant"]
            hd = os.path.join(d, "x.pvm", "x.hdd")
            t.write_dir(hd)
            if var == "missing_image":
                s, layers = t.st[0]
                os.unlink(os.path.join(hd, layers[0][1]["file"]))
            try:
                s = HDD(Path(hd)).open()
            except Exception as e:  # noqa
                return {"answers": ["E"], "errors": {"0": f"{type(e).__name__}: {e}"}}
            return core.impl_ops(s, case["queries"])
        from dissect.hypervisor.disk.vmdk import VMDK
        t = built.t
        p = t.write(d)
        try:
            v = VMDK(Path(p))
        except Exception as e:  # noqa
            return {"answers": ["E"], "errors": {"0": f"{type(e).__name__}: {e}"}}
        return core.impl_ops_sec(v, case["queries"])
    finally:
        shutil.rmtree(d, ignore_errors=True)


def model_lines(case, built):
    fam, r, a = case["fam"], case["recipe"], case["align"]
    if fam in rsv.LINES:
        return rsv.LINES[fam](case, built, tmpdir_for(case))
    toks = " ".join(core.op_tokens(case["queries"]))
    if fam == "vdi":
        return vdi.model_lines(case, built)
    if fam == "vhdx":
        ids = sorted(built.files, key=lambda s: int(s[1:]))
        if r.get("missing"):
            ids = ids[-1:]
            return core.file_lines(built.files) + [f"vhdx.stream {a} {len(ids)} " + " ".join(ids) + " " + toks]
        # second line: the executable hypotheses of vhdx_chain_reads_as_overlay (chainWfb) and the model's answers
        # compared with the pointwise specification overlay(chainLayers) — an instance of the theorem on this chain
        return core.file_lines(built.files) + [f"vhdx.stream {a} {len(ids)} " + " ".join(ids) + " " + toks,
                                               f"vhdx.chaincheck {a} {len(ids)} " + " ".join(ids) + " " + toks]
    if fam == "hdd":
        st = built.info["tokens"]
        if r["variant"] == "missing_ancestor":
            # Descriptor.get_snapshot_chain in the model (Hdd.snapshotChain): shots as written, NULL GUID, the GUID HDD.open() starts from
            import uuid
            gi = lambda g: uuid.UUID(g).int          # noqa: E731
            return core.file_lines(built.files) + [" ".join(["hdd.chain", str(gi(gen_hdd.NULL)), str(gi(r["top"]))] + [f"{gi(g)}>{gi(p)}" for g, p in r["shots"]])]
        if built.info["missing"]:
            # the first storage's root image is absent
            st = [st[0].rsplit(":", 1)[0] + ":absent"] + st[1:]
        return core.file_lines(built.files) + [f"hdd.stream {a} {len(st)} " + " ".join(st) + " " + toks]
    if fam == "qcow2":
        tk = list(built.info["tokens"])
        if case.get("missing"):
            tk = [tk[-1].rsplit(":", 1)[0] + ":x"]
            return core.file_lines(built.files) + [f"qcow2.stream {a} 1 {tk[0]} t"]
        pre = " ".join(core.op_tokens(case["pre"]))
        lines = core.file_lines(built.files) + [f"qcow2.stream {a} {len(tk)} " + " ".join(tk) + " " + pre]
        if case["view"] == 0:
            lines.append(f"qcow2.stream {a} {len(tk)} " + " ".join(tk) + " " + toks)
        else:
            lines.append(f"qcow2.snap {a} {case['view'] - 1} {len(tk)} " + " ".join(tk) + " " + toks)
        # inside the hypotheses of `qcow2_stream_correct` (active view) / `snapshot_view_independent` (snapshot view)?
        if case["view"] == 0:
            lines.append(f"qcow2.open {a} " + " ".join(tk))
        else:
            lines.append(f"qcow2.snapwf {a} {case['view'] - 1} " + " ".join(tk))
        return lines
    t = built.t
    if built.info.get("no_model"):
        return ["desc.line " + hexs('RW 1 SPARSE "x"')]          # one cheap answer line (ignored): the driver is never left without output
    ids = built.info["ids"]
    base_names = "+".join(f"{hexs(n)}={ids[n]}" for n in t.base.files if n != t.base.descriptor_name)
    layers = [f"D:{ids[t.base.descriptor_name]}:{base_names}"] if not built.info["missing"] else []
    cids = built.info["cids"]
    layers.append(f"D:{cids[t.child.descriptor_name]}:" + "+".join(f"{hexs(n)}={cids[n]}" for n in t.child.files if n != t.child.descriptor_name))
    return core.file_lines(built.files) + [f"vmdk.desc.delta {a} {len(layers)} " + " ".join(layers) + " " + toks]


def model_parse(case, built, out):
    fam = case["fam"]
    if fam in rsv.PARSE:
        return rsv.PARSE[fam](case, built, out)
    if fam == "vdi":
        return vdi.model_parse(case, built, out)
    if fam == "qcow2" and not case.get("missing"):
        a = core.parse_stream_answer(out[0]) if out else None
        b = core.parse_stream_answer(out[1]) if len(out) > 1 else None
        ans = (a + b) if a is not None and b is not None and a[-1:] != ["E"] else a
        # wf: every contributing layer — for a snapshot view: the image with the snapshot's L1 table — is conformant up
        # to the end of the last stream buffer (`ConformantTo … (roundUp size align)`, evaluated by the driver)
        wf = len(out) > 2 and out[2].startswith("ok") and "wf=1" in out[2]
        return {"answers": ans, "wf": bool(ans is not None and wf)}
    if built.info.get("no_model"):
        return {"answers": None, "wf": None}
    ans = core.parse_stream_answer(out[0]) if out else None
    if fam == "vhdx" and not case["recipe"].get("missing"):
        chk = out[1].split() if len(out) > 1 else []
        if len(chk) >= 3 and chk[0] == "ok":
            wf = chk[1] == "wf=1"
            marks = chk[3:]
            if wf and (any(m != "=" for m in marks) or len(marks) != len(ans or [])):
                # inside the theorem's hypotheses the model must equal the specification: report as a model difference
                return {"answers": ["SPEC-MISMATCH"] + marks, "wf": wf, "spec_checked": len(marks)}
            return {"answers": ans, "wf": wf, "spec_checked": len(marks) if wf else 0}
        return {"answers": ans, "wf": False if chk and chk[0] == "err" else None}
    return {"answers": ans, "wf": ans is not None and ans != ["E"]}


def nontrivial(case, built, model):
    return built.info.get("depth", 1) >= 2 and built.info.get("crosses", False)


def search(seed, broken, budget):
    return generate(seed + 4242, "quick")
