/-
  Hv.Vmdk — model of dissect/hypervisor/disk/vmdk.py: SparseExtentHeader, SparseDisk
  (hosted KDMV incl. footer, COWD, SE-sparse; grain lookup; get_runs; read_sectors incl.
  compressed grains), RawDisk, VMDK (extent walk, _read); pointwise specification.
-/
import Hv.Prim.Layout
import Hv.Extracted
namespace Hv.Vmdk
open Hv Hv.Extracted.vmdk

abbrev SectorReader := Nat → Nat → Except Err Bytes
abbrev S : Nat := SECTOR_SIZE

inductive Kind where | hosted | cowd | sesparse
  deriving Repr, DecidableEq

/-- literals of `_lookup_grain_table` / `_lookup_grain` (extracted from the function bodies) -/
def GT_TYPE_MASK : Nat := lookup_grain_table_literals.getD 0 0      -- 0xFFFFFFFF00000000
def GT_ALLOCATED : Nat := lookup_grain_table_literals.getD 1 0      -- 0x1000000000000000
def GT_INDEX_MASK : Nat := lookup_grain_table_literals.getD 2 0     -- 0x00000000FFFFFFFF
def SE_ENTRY_BYTES : Nat := lookup_grain_table_literals.getD 3 0    -- 8
def G_HI_MASK : Nat := lookup_grain_literals.getD 2 0               -- 0x0FFF000000000000
def G_HI_SHIFT : Nat := lookup_grain_literals.getD 3 0              -- 48
def G_LO_MASK : Nat := lookup_grain_literals.getD 4 0               -- 0x0000FFFFFFFFFFFF
def G_LO_SHIFT : Nat := lookup_grain_literals.getD 5 0              -- 12
def FOOTER_BACK : Nat := init_literals.getD 5 0                     -- 1024
def COWD_GT_SIZE : Nat := init_literals.getD 10 0                   -- 4096
def LBA_HDR_LEN : Nat := compressed_grain_literals.getD 0 0         -- 12
def PLAIN_HDR_LEN : Nat := compressed_grain_literals.getD 1 0       -- 4

structure Hdr where
  kind : Kind
  flags : Nat
  capacity : Nat
  grainSize : Nat
  gdOffset : Nat          -- primary_grain_directory_offset / grain_directory_offset
  numGte : Nat            -- hosted: num_grain_table_entries; cowd: num_grain_directory_entries; se: grain_table_size
  gdSizeField : Nat       -- se: grain_directory_size
  grainTablesOffset : Nat
  grainsOffset : Nat
  seMagic : Nat
  descOffset : Nat
  descSize : Nat

/-- `SparseExtentHeader(fh)` at position `pos` -/
def readHeader (fh : File) (pos : Nat) : Except Err Hdr := do
  let magic := fh.read pos 4
  if magic = VMDK_MAGIC then
    let z := VMDKSparseExtentHeader.size
    pure { kind := .hosted
           flags := ← fh.field pos z VMDKSparseExtentHeader.flags
           capacity := ← fh.field pos z VMDKSparseExtentHeader.capacity
           grainSize := ← fh.field pos z VMDKSparseExtentHeader.grain_size
           gdOffset := ← fh.field pos z VMDKSparseExtentHeader.primary_grain_directory_offset
           numGte := ← fh.field pos z VMDKSparseExtentHeader.num_grain_table_entries
           gdSizeField := 0, grainTablesOffset := 0, grainsOffset := 0, seMagic := 0
           descOffset := ← fh.field pos z VMDKSparseExtentHeader.descriptor_offset
           descSize := ← fh.field pos z VMDKSparseExtentHeader.descriptor_size }
  else if magic = SESPARSE_MAGIC then
    let z := VMDKSESparseConstHeader.size
    pure { kind := .sesparse
           flags := ← fh.field pos z VMDKSESparseConstHeader.flags
           capacity := ← fh.field pos z VMDKSESparseConstHeader.capacity
           grainSize := ← fh.field pos z VMDKSESparseConstHeader.grain_size
           gdOffset := ← fh.field pos z VMDKSESparseConstHeader.grain_directory_offset
           numGte := ← fh.field pos z VMDKSESparseConstHeader.grain_table_size
           gdSizeField := ← fh.field pos z VMDKSESparseConstHeader.grain_directory_size
           grainTablesOffset := ← fh.field pos z VMDKSESparseConstHeader.grain_tables_offset
           grainsOffset := ← fh.field pos z VMDKSESparseConstHeader.grains_offset
           seMagic := ← fh.field pos z VMDKSESparseConstHeader.magic
           descOffset := 0, descSize := 0 }
  else if magic = COWD_MAGIC then
    let z := COWDSparseExtentHeader.size
    pure { kind := .cowd
           flags := ← fh.field pos z COWDSparseExtentHeader.flags
           capacity := ← fh.field pos z COWDSparseExtentHeader.capacity
           grainSize := ← fh.field pos z COWDSparseExtentHeader.grain_size
           gdOffset := ← fh.field pos z COWDSparseExtentHeader.primary_grain_directory_offset
           numGte := ← fh.field pos z COWDSparseExtentHeader.num_grain_directory_entries
           gdSizeField := 0, grainTablesOffset := 0, grainsOffset := 0, seMagic := 0, descOffset := 0, descSize := 0 }
  else .error .format       -- NotImplementedError("Unsupported sparse extent")

structure Sparse where
  fh : File
  kind : Kind
  flags : Nat
  capacity : Nat
  grainSize : Nat
  gtSize : Nat              -- _grain_table_size
  gd : Array Nat            -- _grain_directory
  grainTablesOffset : Nat
  grainsOffset : Nat
  sectorOffset : Nat
  parent : Option SectorReader
  inflate : Bytes → Nat → Except Err Bytes     -- zlib.decompressobj().decompress(data, max)

def decodeLE (w : Nat) : Nat → Bytes → List Nat
  | 0, _ => []
  | n+1, bs => leNat (bs.take w) :: decodeLE w n (bs.drop w)

/-- `SparseDisk.__init__` -/
def openSparse (fh : File) (parent : Option SectorReader) (sectorOffset : Nat)
    (inflate : Bytes → Nat → Except Err Bytes) : Except Err Sparse := do
  let h0 ← readHeader fh 0
  let (h, gdSize, gtSize, w) ← (match h0.kind with
    | .sesparse =>
      if h0.seMagic ≠ SESPARSE_CONST_HEADER_MAGIC then .error .other      -- no branch taken: UnboundLocalError
      else .ok (h0, h0.gdSizeField * S / SE_ENTRY_BYTES, h0.numGte * S / SE_ENTRY_BYTES, 8)
    | _ => do
      -- ctypes.c_int64(primary_grain_directory_offset).value == -1
      let h ← (if h0.gdOffset = 2 ^ 64 - 1 then
          (if fh.size < FOOTER_BACK then .error .value else readHeader fh (fh.size - FOOTER_BACK))
        else .ok h0)
      match h.kind with
      | .hosted =>
        let cov := h.numGte * h.grainSize
        if cov = 0 then .error .other         -- ZeroDivisionError
        else .ok (h, (h.capacity + cov - 1) / cov, h.numGte, 4)
      | .cowd => .ok (h, h.numGte, COWD_GT_SIZE, 4)
      | .sesparse => .error .other)           -- AttributeError: sizes never set
  let raw ← fh.readExact (h.gdOffset * S) (gdSize * w)
  .ok { fh, kind := h.kind, flags := h.flags, capacity := h.capacity, grainSize := h.grainSize, gtSize,
        gd := (decodeLE w gdSize raw).toArray, grainTablesOffset := h.grainTablesOffset, grainsOffset := h.grainsOffset,
        sectorOffset, parent, inflate }

def Sparse.entryWidth (v : Sparse) : Nat := if v.kind = .sesparse then 8 else 4

/-- file byte offset of the grain table for directory entry `e` (`none` = not allocated) -/
def Sparse.tableOffset (v : Sparse) (e : Nat) : Option Nat :=
  if v.kind = .sesparse then
    if e = 0 ∨ e &&& GT_TYPE_MASK ≠ GT_ALLOCATED then none
    else some ((v.grainTablesOffset + (e &&& GT_INDEX_MASK) * (v.gtSize * SE_ENTRY_BYTES) / S) * S)
  else if e ≠ 0 then some (e * S) else none

/-- SE-sparse grain entry → 0 (unallocated) / 1 (zero) / sector of the grain -/
def Sparse.decodeSe (v : Sparse) (entry : Nat) : Except Err Nat :=
  let ty := entry &&& SESPARSE_GRAIN_TYPE_MASK
  if ty = SESPARSE_GRAIN_TYPE_UNALLOCATED ∨ ty = SESPARSE_GRAIN_TYPE_FALLTHROUGH then .ok 0
  else if ty = SESPARSE_GRAIN_TYPE_ZERO then .ok 1
  else if ty = SESPARSE_GRAIN_TYPE_ALLOCATED then
    let hi := (entry &&& G_HI_MASK) >>> G_HI_SHIFT
    let lo := (entry &&& G_LO_MASK) <<< G_LO_SHIFT
    .ok (v.grainsOffset + (hi ||| lo) * v.grainSize)
  else .error .value

/-- `_lookup_grain` (with `_lookup_grain_table` inlined; the LRU cache is transparent) -/
def Sparse.lookupGrain (v : Sparse) (grain : Nat) : Except Err Nat :=
  if v.gtSize = 0 then .error .other else
  match v.gd[grain / v.gtSize]? with
  | none => .error .index
  | some e =>
    match v.tableOffset e with
    | none => .ok 0
    | some off => do
      let w := v.entryWidth
      -- the whole table is read: EOFError when it does not fit
      if off + v.gtSize * w > v.fh.size then throw .eof
      let entry := leNat (slice v.fh.byte (off + (grain % v.gtSize) * w) w)
      if v.kind = .sesparse then v.decodeSe entry else pure entry

structure Run where
  type : Nat          -- 0 = not present, 1 = zero grain, otherwise the first grain's sector
  offset : Nat
  count : Nat
  parentSector : Nat
  deriving Repr, DecidableEq

/-- the run being accumulated (`run_type`, `run_offset`, `run_count`, `run_parent`, `next_grain_sector`) -/
structure Cur where
  type : Nat
  offset : Nat
  count : Nat
  parent : Nat
  next : Nat

def Cur.toRun (c : Cur) : Run := ⟨c.type, c.offset, c.count, c.parent⟩

def flush : Option Cur → List Run
  | none => []
  | some c => [c.toRun]

/-- a fresh run for a grain whose lookup gave `gs` (offset/parent/next of the other kinds are
    never read by `read_sectors`, so they are normalised to 0) -/
def Sparse.newCur (v : Sparse) (gs readSector grainOffset n : Nat) : Cur :=
  if gs = 0 then ⟨0, 0, n, v.sectorOffset + readSector, 0⟩
  else if gs = 1 then ⟨1, 0, n, 0, 0⟩
  else ⟨gs, grainOffset, n, 0, gs + v.grainSize⟩

/-- the `while read_count > 0` loop of `get_runs`; finished runs are returned in order -/
def Sparse.getRunsLoop (v : Sparse) : Nat → Nat → Nat → Option Cur → Except Err (List Run)
  | 0, _, readCount, cur => if readCount = 0 then .ok (flush cur) else .error .nonTermination
  | fuel+1, readSector, readCount, cur =>
    if readCount = 0 then .ok (flush cur) else
    if v.grainSize = 0 then .error .other else do
    let grainOffset := readSector % v.grainSize
    let gs ← v.lookupGrain (readSector / v.grainSize)
    let n := min readCount (v.grainSize - grainOffset)
    match cur with
    | none => v.getRunsLoop fuel (readSector + n) (readCount - n) (some (v.newCur gs readSector grainOffset n))
    | some c =>
      if (c.type = 0 ∧ gs = 0) ∨ (c.type = 1 ∧ gs = 1) then
        v.getRunsLoop fuel (readSector + n) (readCount - n) (some { c with count := c.count + n })
      else if c.type > 1 ∧ gs = c.next then
        v.getRunsLoop fuel (readSector + n) (readCount - n) (some { c with next := c.next + v.grainSize, count := c.count + n })
      else do
        let rest ← v.getRunsLoop fuel (readSector + n) (readCount - n) (some (v.newCur gs readSector grainOffset n))
        .ok (c.toRun :: rest)

/-- `get_runs(sector, count)` -/
def Sparse.getRuns (v : Sparse) (sector count : Nat) : Except Err (List Run) :=
  if count = 0 then .ok [] else v.getRunsLoop count (sector - v.sectorOffset) count none

/-- `_read_compressed_grain(sector)` -/
def Sparse.readCompressedGrain (v : Sparse) (sector : Nat) : Except Err Bytes := do
  let buf := v.fh.read (sector * S) S
  let (hdrLen, clen) ← (if v.flags &&& SPARSEFLAG_EMBEDDED_LBA ≠ 0 then
      (if buf.length < SparseGrainLBAHeaderOnDisk.size then .error .eof
       else .ok (LBA_HDR_LEN, SparseGrainLBAHeaderOnDisk.cmp_size.decode ((buf.drop SparseGrainLBAHeaderOnDisk.cmp_size.off).take SparseGrainLBAHeaderOnDisk.cmp_size.width)))
    else (if buf.length < 4 then .error .eof else .ok (PLAIN_HDR_LEN, leNat (buf.take 4))))
  let buf := if clen + hdrLen > S then buf ++ v.fh.read ((sector + 1) * S) (hdrLen + clen - S) else buf
  v.inflate ((buf.drop hdrLen).take clen) (v.grainSize * S)

/-- the `while run_count > 0` loop for a run of compressed grains -/
def Sparse.readCompressedRun (v : Sparse) : Nat → Nat → Nat → Nat → Except Err Bytes
  | 0, _, _, runCount => if runCount = 0 then .ok [] else .error .nonTermination
  | fuel+1, runType, runOffset, runCount =>
    if runCount = 0 then .ok [] else do
    let readCount := min runCount (v.grainSize - runOffset)
    let buf ← v.readCompressedGrain runType
    let piece := (buf.drop (runOffset * S)).take (readCount * S)
    let rest ← v.readCompressedRun fuel (runType + v.grainSize) 0 (runCount - readCount)
    .ok (piece ++ rest)

def Sparse.runData (v : Sparse) (r : Run) : Except Err Bytes :=
  if r.type = 0 then
    match v.parent with
    | some p => p r.parentSector r.count
    | none => .ok (zeros (r.count * S))
  else if r.type = 1 then .ok (zeros (r.count * S))
  else if v.flags &&& SPARSEFLAG_COMPRESSED = 0 then .ok (v.fh.read ((r.type + r.offset) * S) (r.count * S))
  else v.readCompressedRun r.count r.type r.offset r.count

def Sparse.execRuns (v : Sparse) : List Run → Except Err Bytes
  | [] => .ok []
  | r :: rest => do
    let d ← v.runData r
    let t ← v.execRuns rest
    .ok (d ++ t)

/-- `SparseDisk.read_sectors` -/
def Sparse.readSectors (v : Sparse) (sector count : Nat) : Except Err Bytes := do
  let runs ← v.getRuns sector count
  v.execRuns runs

/-! RawDisk and the VMDK extent walk -/

structure Disk where
  sectorCount : Nat
  sectorOffset : Nat
  size : Nat                       -- bytes
  readSectors : SectorReader       -- absolute sector numbers

/-- `RawDisk(fh, size)` placed at `sectorOffset` -/
def rawDisk (fh : File) (size : Option Nat) (sectorOffset : Nat) : Disk :=
  let sz := match size with | some s => if s = 0 then fh.size else s | none => fh.size
  { sectorCount := sz / S, sectorOffset, size := sz,
    readSectors := fun sector count =>
      -- fh.seek((sector - sector_offset) * 512): negative -> ValueError
      if sector < sectorOffset then .error .value else .ok (fh.read ((sector - sectorOffset) * S) (count * S)) }

def sparseDisk (v : Sparse) : Disk :=
  { sectorCount := v.capacity, sectorOffset := v.sectorOffset, size := v.capacity * S, readSectors := v.readSectors }

structure Vmdk where
  disks : Array Disk
  size : Nat

/-- offsets are assigned in order: `disk.sector_offset = Σ earlier sector_count` -/
def assemble (mk : List (Nat → Disk)) : Vmdk :=
  let (ds, _, size) := mk.foldl (fun (acc : Array Disk × Nat × Nat) f =>
    let d := f acc.2.1
    (acc.1.push d, acc.2.1 + d.sectorCount, acc.2.2 + d.size)) (#[], 0, 0)
  ⟨ds, size⟩

/-- `bisect_right(self._disk_offsets, sector)` where `_disk_offsets` lists the sector
    offsets of every disk after the first *non-empty prefix* (`if size != 0`) -/
def Vmdk.diskOffsets (v : Vmdk) : List Nat :=
  (v.disks.toList.foldl (fun (acc : List Nat × Nat × Nat) d =>
    ((if acc.2.2 ≠ 0 then acc.1 ++ [acc.2.1] else acc.1), acc.2.1 + d.sectorCount, acc.2.2 + d.size)) ([], 0, 0)).1

def bisectRight (l : List Nat) (x : Nat) : Nat := (l.takeWhile (· ≤ x)).length

/-- `VMDK.read_sectors` -/
def Vmdk.readSectorsLoop (v : Vmdk) : Nat → Nat → Nat → Nat → Except Err Bytes
  | 0, _, count, idx => if count = 0 ∨ idx ≥ v.disks.size then .ok [] else .error .nonTermination
  | fuel+1, sector, count, idx =>
    if count = 0 then .ok [] else
    match v.disks[idx]? with
    | none => .ok []
    | some d => do
      -- disk.sector_count - (sector - disk.sector_offset) in Python integers
      let remaining : Int := (d.sectorCount : Int) - ((sector : Int) - (d.sectorOffset : Int))
      let n : Int := min remaining (count : Int)
      -- a negative amount only arises for sector numbers beyond the end of the disk (outside the
      -- stream's domain: `read_sectors(sector, negative)`); the model refuses it
      if n < 0 then .error .other
      else if n = 0 then do
        let x ← d.readSectors sector 0
        let rest ← v.readSectorsLoop fuel sector count (idx + 1)
        .ok (x ++ rest)
      else do
        let x ← d.readSectors sector n.toNat
        let rest ← v.readSectorsLoop fuel (sector + n.toNat) (count - n.toNat) (idx + 1)
        .ok (x ++ rest)

def Vmdk.readSectors (v : Vmdk) (sector count : Nat) : Except Err Bytes :=
  v.readSectorsLoop (count + v.disks.size + 1) sector count (bisectRight v.diskOffsets sector)

/-- `VMDK._read` -/
def Vmdk.read (v : Vmdk) (offset length : Nat) : Except Err Bytes :=
  v.readSectors (offset / S) ((length + S - 1) / S)

end Hv.Vmdk

namespace Hv.Vmdk
/-- executable well-formedness of a sparse extent (uncompressed or compressed):
    positive geometry, directory covers the capacity, every allocated table and grain inside the file -/
def Sparse.wfb (v : Sparse) : Bool :=
  decide (0 < v.grainSize) && decide (0 < v.gtSize) &&
  decide (v.capacity ≤ v.gd.size * v.gtSize * v.grainSize) &&
  (List.range ((v.capacity + v.grainSize - 1) / v.grainSize)).all (fun g =>
    match v.lookupGrain g with
    | .ok gs => gs == 0 || gs == 1 || (decide (v.flags &&& Extracted.vmdk.SPARSEFLAG_COMPRESSED ≠ 0)) ||
                decide ((gs + v.grainSize) * S ≤ v.fh.size)
    | .error _ => false)
end Hv.Vmdk

namespace Hv.Vmdk
/-! ### Specification (VMware Virtual Disk Format 1.1; SE-sparse per QEMU block/vmdk.c) -/

/-- grain-table entry for grain `g` as the format defines it: 0 = not present, 1 = zero
    grain, otherwise the sector at which the grain's data starts -/
def Sparse.specGrain (v : Sparse) (g : Nat) : Nat :=
  let e := v.gd.getD (g / v.gtSize) 0
  match v.kind with
  | .sesparse =>
    -- directory entry: top nibble 1 = allocated table, low 32 bits = table index
    if e = 0 ∨ e &&& 0xFFFFFFFF00000000 ≠ 0x1000000000000000 then 0 else
    let t := leNat (slice v.fh.byte
      ((v.grainTablesOffset + (e &&& 0xFFFFFFFF) * (v.gtSize * 8) / 512) * 512 + (g % v.gtSize) * 8) 8)
    let ty := t &&& 0xF000000000000000
    if ty = 0 ∨ ty = 0x1000000000000000 then 0
    else if ty = 0x2000000000000000 then 1
    else v.grainsOffset + (((t &&& 0x0FFF000000000000) >>> 48) ||| ((t &&& 0x0000FFFFFFFFFFFF) <<< 12)) * v.grainSize
  | _ => if e = 0 then 0 else leNat (slice v.fh.byte (e * 512 + (g % v.gtSize) * 4) 4)

/-- guest byte at disk-relative offset `o` of an uncompressed sparse extent; `pc` = parent
    content by absolute byte offset -/
def Sparse.guest (v : Sparse) (pc : Nat → UInt8) (o : Nat) : UInt8 :=
  let gs := v.specGrain (o / 512 / v.grainSize)
  if gs = 0 then (if v.parent.isSome then pc (v.sectorOffset * 512 + o) else 0)
  else if gs = 1 then 0
  else v.fh.byte ((gs + o / 512 % v.grainSize) * 512 + o % 512)

/-- number of grains needed for the capacity -/
def Sparse.nGrains (v : Sparse) : Nat := (v.capacity + v.grainSize - 1) / v.grainSize

structure WF (v : Sparse) : Prop where
  uncompressed : v.flags &&& Extracted.vmdk.SPARSEFLAG_COMPRESSED = 0
  gs_pos : 0 < v.grainSize
  gt_pos : 0 < v.gtSize
  covers : v.nGrains ≤ v.gd.size * v.gtSize
  /-- every lookup needed succeeds with the format's value -/
  lookup : ∀ g, g < v.nGrains → v.lookupGrain g = .ok (v.specGrain g)
  /-- allocated grains lie inside the file -/
  grains_in : ∀ g, g < v.nGrains → 1 < v.specGrain g → (v.specGrain g + v.grainSize) * 512 ≤ v.fh.size

end Hv.Vmdk

namespace Hv.Vmdk
/-- executable form of `WF` -/
def Sparse.wfbU (v : Sparse) : Bool :=
  decide (v.flags &&& Extracted.vmdk.SPARSEFLAG_COMPRESSED = 0) && decide (0 < v.grainSize) && decide (0 < v.gtSize) &&
  decide (v.nGrains ≤ v.gd.size * v.gtSize) &&
  (List.range v.nGrains).all (fun g =>
    decide (v.lookupGrain g = .ok (v.specGrain g)) &&
    (decide (v.specGrain g ≤ 1) || decide ((v.specGrain g + v.grainSize) * 512 ≤ v.fh.size)))
end Hv.Vmdk
