/-
  HvProofs.Hdd — the Parallels snapshot-chain walk terminates (pigeonhole over the shot list).
-/
import Hv.Hdd
namespace Hv.Hdd
open Hv

/-- pigeonhole: a duplicate-free list whose elements all occur in `l₂` is no longer than `l₂` -/
theorem nodup_subset_length : ∀ (l₁ l₂ : List Nat), l₁.Nodup → (∀ x ∈ l₁, x ∈ l₂) → l₁.length ≤ l₂.length := by
  intro l₁
  induction l₁ with
  | nil => intro l₂ _ _; simp
  | cons a t ih =>
    intro l₂ hnd hsub
    have ha : a ∈ l₂ := hsub a (by simp)
    have hnd' := List.nodup_cons.mp hnd
    have hsub' : ∀ x ∈ t, x ∈ l₂.erase a := by
      intro x hx
      have hne : x ≠ a := by intro e; subst e; exact hnd'.1 hx
      exact (List.mem_erase_of_ne hne).mpr (hsub x (by simp [hx]))
    have := ih (l₂.erase a) hnd'.2 hsub'
    rw [List.length_erase_of_mem ha] at this
    have hpos : 0 < l₂.length := List.length_pos_of_mem ha
    simp only [List.length_cons]
    omega

theorem findShot_mem {shots : List (Nat × Nat)} {g : Nat} {s : Nat × Nat} (h : findShot shots g = some s) :
    s.1 = g ∧ s.1 ∈ shots.map (·.1) := by
  unfold findShot at h
  have h1 := List.find?_some h
  have h2 := List.mem_of_find?_eq_some h
  simp only [decide_eq_true_eq] at h1
  exact ⟨h1, List.mem_map.mpr ⟨s, h2, rfl⟩⟩

/-- the walk keeps a duplicate-free chain of GUIDs that all name shots; with `fuel + |chain| > |shots|` it cannot run dry -/
theorem chainLoop_terminates (shots : List (Nat × Nat)) (null : Nat) :
    ∀ (fuel : Nat) (shot : Nat × Nat) (chain : List Nat),
      chain.Nodup → (∀ x ∈ chain, x ∈ shots.map (·.1)) → shots.length + 1 ≤ fuel + chain.length →
      chainLoop shots null fuel shot chain ≠ .error .nonTermination := by
  intro fuel
  induction fuel with
  | zero =>
    intro shot chain hnd hsub hlen
    have := nodup_subset_length chain (shots.map (·.1)) hnd hsub
    simp only [List.length_map] at this
    omega
  | succ fuel ih =>
    intro shot chain hnd hsub hlen
    unfold chainLoop
    split
    · intro h; cases h
    · split
      · intro h; cases h
      · rename_i p hp
        split
        · intro h; cases h
        · rename_i hnc
          have hp' := findShot_mem hp
          apply ih
          · exact List.nodup_cons.mpr ⟨by simpa using hnc, hnd⟩
          · intro x hx
            rcases List.mem_cons.mp hx with rfl | hx
            · exact hp'.2
            · exact hsub x hx
          · simp only [List.length_cons]; omega

theorem snapshotChain_terminates (shots : List (Nat × Nat)) (null guid : Nat) :
    snapshotChain shots null guid ≠ .error .nonTermination := by
  unfold snapshotChain
  split
  · intro h; cases h
  · rename_i s hs
    have hs' := findShot_mem hs
    apply chainLoop_terminates
    · simp
    · intro x hx; simp only [List.mem_singleton] at hx; subst hx; exact hs'.2
    · simp

end Hv.Hdd
