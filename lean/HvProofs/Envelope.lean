/-
  HvProofs.Envelope — lemmas about the envelope / keystore model.
-/
import Hv.Envelope
import HvProofs.Basic
namespace Hv.Envelope
open Hv

/-! ### constants -/

theorem consts_spec :
    BLOCK = 4096 ∧ HDR = 512 ∧ magicPos = (0, 21) ∧ sizeF = ⟨504, 4, false, 0, 32⟩ ∧ verF = ⟨508, 4, false, 0, 32⟩ ∧
    AEAD_SIZE = 4096 ∧ aeadData = (32, 4056) ∧ aeadSizeF = ⟨4088, 4, false, 0, 32⟩ ∧ aeadVerF = ⟨4092, 4, false, 0, 32⟩ ∧
    CF_SIZE = 512 ∧ padF = ⟨504, 4, false, 0, 32⟩ ∧ tInvalid = 0 ∧ tString = 11 ∧ tBytes = 12 ∧
    ENV_VERSION = 2 ∧ AEAD_VERSION = 1 ∧ N_FRAME_BLOCKS = 2 ∧ DEC_TAIL = 512 ∧ DEC_STRIP = 4096 ∧ RESERVED = 2 ∧
    PACK_ZEROS = 512 ∧ TERM = 4 ∧ ROUNDS = 100000 ∧ PACK_MAGIC = FILE_MAGIC ∧ PACK_MAGIC.length = 21 ∧
    DEC_CIPHER_GCM = CIPHER_GCM := by decide

/-! ### lists -/

theorem take_append_eq {α} (a b : List α) (n : Nat) (h : n = a.length) : (a ++ b).take n = a := by
  subst h; simp

theorem drop_append_eq {α} (a b : List α) (n : Nat) (h : n = a.length) : (a ++ b).drop n = b := by
  subst h; simp

theorem leBytes_length (n v : Nat) : (leBytes n v).length = n := by
  induction n generalizing v with
  | zero => rfl
  | succ n ih => simp [leBytes, ih]

theorem leNat_leBytes (n v : Nat) : leNat (leBytes n v) = v % 256 ^ n := by
  induction n generalizing v with
  | zero => simp [leBytes, leNat, Nat.mod_one]
  | succ n ih =>
    simp only [leBytes, leNat, ih]
    have h : (UInt8.ofNat (v % 256)).toNat = v % 256 := by
      simp [UInt8.toNat_ofNat']
    rw [h, Nat.pow_succ, Nat.mul_comm (256 ^ n) 256, Nat.mod_mul]

theorem leNat_leBytes_lt (n v : Nat) (h : v < 256 ^ n) : leNat (leBytes n v) = v := by
  rw [leNat_leBytes, Nat.mod_eq_of_lt h]

/-- a little-endian 32-bit field decodes what was written -/
theorem decode_le32 (off : Nat) (v : Nat) (h : v < 2 ^ 32) :
    (Field.mk off 4 false 0 32).decode (leBytes 4 v) = v := by
  simp only [Field.decode, Bool.false_eq_true, if_false, Nat.pow_zero, Nat.div_one]
  rw [leNat_leBytes_lt 4 v (by simpa using h)]
  exact Nat.mod_eq_of_lt h

/-! ### padding / footer stripping -/

theorem cryptoFooter_length (m : Bytes) (k : Nat) (hm : m.length = 504) : (cryptoFooter m k).length = 512 := by
  obtain ⟨-, -, -, -, -, -, -, -, -, h10, h11, -⟩ := consts_spec
  simp only [cryptoFooter, h10, h11, List.length_append, leBytes_length, zeros_length, hm]

theorem cryptoFooter_padding (m : Bytes) (k : Nat) (hm : m.length = 504) (hk : k < 2 ^ 32) :
    padF.decode (sub (cryptoFooter m k) padF.off padF.width) = k := by
  obtain ⟨-, -, -, -, -, -, -, -, -, h10, h11, -⟩ := consts_spec
  simp only [cryptoFooter, h10, h11, sub]
  rw [List.append_assoc, drop_append_eq m _ 504 hm.symm, take_append_eq _ _ 4 (leBytes_length 4 k).symm]
  exact decode_le32 504 k hk

/-- the model's stripping returns exactly the payload from `payload ‖ padding bytes ‖ filler ‖ crypto footer` -/
theorem stripPlain_written (p pad filler m : Bytes) (k : Nat) (hk : k < 2 ^ 32) (hpad : pad.length = k)
    (hfill : filler.length = 4096 - 512) (hm : m.length = 504) :
    stripPlain (p ++ pad ++ filler ++ cryptoFooter m k) = .ok p := by
  have hc := consts_spec
  have hfl := cryptoFooter_length m k hm
  have hpd := cryptoFooter_padding m k hm hk
  have hlen : (p ++ pad ++ filler ++ cryptoFooter m k).length = p.length + k + 3584 + 512 := by
    simp only [List.length_append, hfl, hpad, hfill]
  unfold stripPlain
  obtain ⟨-, -, -, -, -, -, -, -, -, h10, -, -, -, -, -, -, -, h18, h19, -⟩ := hc
  rw [h18, h19, h10, hlen]
  have htail : (p ++ pad ++ filler ++ cryptoFooter m k).drop (p.length + k + 3584 + 512 - 512) = cryptoFooter m k :=
    drop_append_eq _ _ _ (by simp only [List.length_append, hpad, hfill]; omega)
  simp only [htail, hfl, Nat.lt_irrefl, if_false, hpd]
  rw [List.append_assoc, List.append_assoc, take_append_eq p _ _ (by omega)]

/-! ### control flow of `decrypt` -/

/-- everything a successful `decrypt` has checked, and what it returns -/
theorem decrypt_ok {c : Crypto} {e : Env} {verify : Bool} {key aad out : Bytes}
    (h : decrypt c e verify key aad = .ok out) :
    Val.bytes (c.sha256 (e.cipherName ++ key)) = e.keyHash ∧
    ∃ iv, ivOf e = some iv ∧ aesKeyOk key = true ∧ 0 ≤ e.size ∧
      stripPlain (c.gcm key iv (aadOf e aad) e.data).1 = .ok out ∧
      (verify = true → (c.gcm key iv (aadOf e aad) e.data).2 = e.digest) := by
  unfold decrypt at h
  split at h
  · cases h
  rename_i hk
  split at h
  · cases h
  split at h
  · cases h
  rename_i iv hiv
  split at h
  · cases h
  rename_i hkey
  split at h
  · cases h
  rename_i hsz
  split at h
  · cases h
  rename_i o ho
  split at h
  · cases h
  rename_i hv
  cases h
  refine ⟨Decidable.not_not.mp hk, iv, hiv, ?_, Int.not_lt.mp hsz, ho, ?_⟩
  · cases hb : aesKeyOk key
    · exact absurd hb hkey
    · rfl
  · intro hvt
    exact Decidable.not_not.mp (fun hne => hv ⟨hvt, hne⟩)

theorem decrypt_error_of_not_ok {c : Crypto} {e : Env} {verify : Bool} {key aad : Bytes}
    (h : ∀ out, decrypt c e verify key aad ≠ .ok out) : ∃ err, decrypt c e verify key aad = .error err := by
  cases hd : decrypt c e verify key aad with
  | error err => exact ⟨err, rfl⟩
  | ok out => exact absurd hd (h out)

/-! ### keystore -/

theorem keystore_ok {c : Crypto} {text : Str} {kid key : Bytes} (h : keystore c text = .ok (kid, key)) :
    ∃ store s, parseStore text = .ok store ∧ storedOf store = .ok s ∧ kid = s.keyId ∧
      key = c.pbkdf2 (s.data1 ++ SALT) s.data2 ROUNDS := by
  unfold keystore at h
  split at h
  · cases h
  rename_i store hs
  split at h
  · cases h
  rename_i s hst
  cases h
  exact ⟨store, s, hs, hst, rfl, rfl⟩

/-! ### attributes: what a well-formed attribute is, and `read ∘ pack = id` -/

/-- value range of the integer attribute types (tied to the extracted type map by `intRange_spec`) -/
def intRange : Nat → Option (Int × Int)
  | 1 => some (0, 2 ^ 8) | 2 => some (0, 2 ^ 16) | 3 => some (0, 2 ^ 32) | 4 => some (0, 2 ^ 64)
  | 5 => some (-(2 ^ 7), 2 ^ 7) | 6 => some (-(2 ^ 15), 2 ^ 15) | 7 => some (-(2 ^ 31), 2 ^ 31) | 8 => some (-(2 ^ 63), 2 ^ 63)
  | _ => none

/-- `intRange` is the range of the width/signedness the live ENVELOPE_ATTRIBUTE_TYPE_MAP gives -/
theorem intRange_spec :
    Extracted.envelope.ATTR_TYPE_MAP.all (fun r =>
      if r.2.1 = 1 then
        intRange r.1 == some (if r.2.2.2 = 1 then (-(2 ^ (8 * r.2.2.1 - 1) : Int), (2 ^ (8 * r.2.2.1 - 1) : Int)) else (0, (2 ^ (8 * r.2.2.1) : Int)))
      else intRange r.1 == none) = true := by decide

/-- `v` is a legal value of attribute type `t` -/
def ValOk (t : Nat) : Val → Prop
  | .str s => t = 11 ∧ (∀ b ∈ s, b ≠ 0) ∧ utf8Valid s = true
  | .bytes b => t = 12 ∧ b.length < 2 ^ 63
  | .int x => ∃ lo hi, intRange t = some (lo, hi) ∧ lo ≤ x ∧ x < hi
  | .f32 bits => t = 9 ∧ bits < 2 ^ 32 ∧ f32Repack bits = bits          -- not a signalling NaN
  | .f64 bits => t = 10 ∧ bits < 2 ^ 64

/-- a well-formed attribute: NUL-free valid-UTF-8 name, value in the range of its type -/
structure WFAttr (a : Attr) : Prop where
  name_nonul : ∀ b ∈ a.name, b ≠ 0
  name_utf8 : utf8Valid a.name = true
  val_ok : ValOk a.typ a.val

theorem cstr_append (s rest : Bytes) (h : ∀ b ∈ s, b ≠ 0) : cstr (s ++ 0 :: rest) = some (s, rest) := by
  induction s with
  | nil => simp [cstr]
  | cons b s ih =>
    have hb : b ≠ 0 := h b (by simp)
    have ih' := ih (fun x hx => h x (by simp [hx]))
    simp only [List.cons_append, cstr, hb, if_false, ih']

theorem readVal_num_aux (t kind w sg : Nat) (hrow : typeRow t = some (t, kind, w, sg)) (hs : t ≠ tString) (hb : t ≠ tBytes)
    (n : Nat) (rest : Bytes) :
    readVal t (leBytes w n ++ rest) =
      if kind = 1 then some (.ok (.int (if sg = 1 then toSigned (8 * w) (n % 256 ^ w) else ((n % 256 ^ w : Nat) : Int)), rest))
      else if kind = 2 then some (.ok (if w = 4 then .f32 (n % 256 ^ w) else .f64 (n % 256 ^ w), rest))
      else some (.error .other) := by
  unfold readVal
  rw [hrow]
  have hl : ¬ ((leBytes w n ++ rest).length < w) := by simp [leBytes_length]
  simp only [if_neg hs, if_neg hb, if_neg hl, take_append_eq _ rest w (leBytes_length w n).symm,
    drop_append_eq _ rest w (leBytes_length w n).symm, leNat_leBytes]

theorem typeRow_rows :
    typeRow 1 = some (1, 1, 1, 0) ∧ typeRow 2 = some (2, 1, 2, 0) ∧ typeRow 3 = some (3, 1, 4, 0) ∧ typeRow 4 = some (4, 1, 8, 0) ∧
    typeRow 5 = some (5, 1, 1, 1) ∧ typeRow 6 = some (6, 1, 2, 1) ∧ typeRow 7 = some (7, 1, 4, 1) ∧ typeRow 8 = some (8, 1, 8, 1) ∧
    typeRow 9 = some (9, 2, 4, 0) ∧ typeRow 10 = some (10, 2, 8, 0) ∧ typeRow 11 = some (11, 0, 0, 0) ∧ typeRow 12 = some (12, 0, 0, 0) :=
  ⟨rfl, rfl, rfl, rfl, rfl, rfl, rfl, rfl, rfl, rfl, rfl, rfl⟩

theorem tcodes : tInvalid = 0 ∧ tString = 11 ∧ tBytes = 12 ∧ RESERVED = 2 := by decide

/-- reading back a packed value -/
theorem readVal_pack (t : Nat) (v : Val) (hv : ValOk t v) (rest : Bytes) :
    readVal t (packVal t v ++ rest) = some (.ok (v, rest)) := by
  obtain ⟨r1, r2, r3, r4, r5, r6, r7, r8, r9, r10, r11, r12⟩ := typeRow_rows
  obtain ⟨-, hS, hB, -⟩ := tcodes
  cases v with
  | str s =>
    obtain ⟨ht, hn, hu⟩ := hv
    subst ht
    simp only [readVal, r11, hS, if_true, packVal, List.append_assoc, List.singleton_append, cstr_append s rest hn, hu]
  | bytes b =>
    obtain ⟨ht, hl⟩ := hv
    subst ht
    have h8 : ¬ ((leBytes 8 b.length ++ (b ++ rest)).length < 8) := by simp [leBytes_length]
    have hlen : b.length % 256 ^ 8 = b.length := Nat.mod_eq_of_lt (by omega)
    have hnot : ¬ (b.length ≥ 2 ^ 63) := by omega
    simp only [readVal, r12, hS, hB, packVal, List.append_assoc, if_true, if_neg h8,
      take_append_eq _ (b ++ rest) 8 (leBytes_length 8 _).symm, drop_append_eq _ (b ++ rest) 8 (leBytes_length 8 _).symm,
      leNat_leBytes, hlen, if_neg hnot, take_append_eq b rest _ rfl, drop_append_eq b rest _ rfl]
    simp
  | f32 bits =>
    obtain ⟨ht, hl, hq⟩ := hv
    subst ht
    simp only [packVal, hq]
    rw [readVal_num_aux 9 2 4 0 r9 (by rw [hS]; decide) (by rw [hB]; decide)]
    have : bits % 256 ^ 4 = bits := Nat.mod_eq_of_lt (by omega)
    simp [this]
  | f64 bits =>
    obtain ⟨ht, hl⟩ := hv
    subst ht
    simp only [packVal]
    rw [readVal_num_aux 10 2 8 0 r10 (by rw [hS]; decide) (by rw [hB]; decide)]
    have : bits % 256 ^ 8 = bits := Nat.mod_eq_of_lt (by omega)
    simp [this]
  | int x =>
    obtain ⟨lo, hi, hr, hlo, hhi⟩ := hv
    unfold intRange at hr
    split at hr <;> cases hr
    · simp only [packVal, intWidth, r1]
      rw [readVal_num_aux 1 1 1 0 r1 (by rw [hS]; decide) (by rw [hB]; decide)]
      simp only [if_true]; congr 4; simp; omega
    · simp only [packVal, intWidth, r2]
      rw [readVal_num_aux 2 1 2 0 r2 (by rw [hS]; decide) (by rw [hB]; decide)]
      simp only [if_true]; congr 4; simp; omega
    · simp only [packVal, intWidth, r3]
      rw [readVal_num_aux 3 1 4 0 r3 (by rw [hS]; decide) (by rw [hB]; decide)]
      simp only [if_true]; congr 4; simp; omega
    · simp only [packVal, intWidth, r4]
      rw [readVal_num_aux 4 1 8 0 r4 (by rw [hS]; decide) (by rw [hB]; decide)]
      simp only [if_true]; congr 4; simp; omega
    · simp only [packVal, intWidth, r5]
      rw [readVal_num_aux 5 1 1 1 r5 (by rw [hS]; decide) (by rw [hB]; decide)]
      simp only [if_true, toSigned]; congr 4; simp; omega
    · simp only [packVal, intWidth, r6]
      rw [readVal_num_aux 6 1 2 1 r6 (by rw [hS]; decide) (by rw [hB]; decide)]
      simp only [if_true, toSigned]; congr 4; simp; omega
    · simp only [packVal, intWidth, r7]
      rw [readVal_num_aux 7 1 4 1 r7 (by rw [hS]; decide) (by rw [hB]; decide)]
      simp only [if_true, toSigned]; congr 4; simp; omega
    · simp only [packVal, intWidth, r8]
      rw [readVal_num_aux 8 1 8 1 r8 (by rw [hS]; decide) (by rw [hB]; decide)]
      simp only [if_true, toSigned]; congr 4; simp; omega

/-- the type codes of well-formed attributes are the twelve defined ones -/
theorem ValOk_typ {t : Nat} {v : Val} (h : ValOk t v) : 1 ≤ t ∧ t ≤ 12 := by
  cases v with
  | str s => obtain ⟨ht, -⟩ := h; omega
  | bytes b => obtain ⟨ht, -⟩ := h; omega
  | f32 b => obtain ⟨ht, -⟩ := h; omega
  | f64 b => obtain ⟨ht, -⟩ := h; omega
  | int x =>
    obtain ⟨lo, hi, hr, -⟩ := h
    unfold intRange at hr
    split at hr <;> first | omega | cases hr

/-- one loop iteration reads back one packed attribute -/
theorem readOne_pack (a : Attr) (h : WFAttr a) (rest : Bytes) : readOne (packAttr a ++ rest) = .attr a rest := by
  obtain ⟨hI, -, -, hR⟩ := tcodes
  obtain ⟨h1, h12⟩ := ValOk_typ h.val_ok
  have hto : (UInt8.ofNat a.typ).toNat = a.typ := by
    simp only [UInt8.toNat_ofNat']; omega
  have hne : ¬ (a.typ = tInvalid) := by rw [hI]; omega
  simp only [packAttr, zeros, List.replicate, List.cons_append, List.nil_append, List.append_assoc, readOne, hR,
    List.drop_succ_cons, List.drop_zero, cstr_append a.name _ h.name_nonul, h.name_utf8, hto, if_neg hne,
    readVal_pack a.typ a.val h.val_ok rest]
  simp

theorem readOne_term (rest : Bytes) : readOne (0 :: rest) = .stop := by
  obtain ⟨hI, -⟩ := tcodes
  simp [readOne, hI]

theorem readList_pack (as : List Attr) (h : ∀ a ∈ as, WFAttr a) (rest : Bytes) (fuel : Nat) (hf : as.length < fuel) :
    readList fuel (packBody as ++ 0 :: rest) = .ok as := by
  induction as generalizing fuel with
  | nil =>
    cases fuel with
    | zero => omega
    | succ f => simp [readList, packBody, readOne_term]
  | cons a as ih =>
    cases fuel with
    | zero => omega
    | succ f =>
      have ha := h a (by simp)
      have ih' := ih (fun x hx => h x (by simp [hx])) f (by simp at hf; omega)
      simp only [packBody, List.append_assoc, readList, readOne_pack a ha, ih']

theorem packAttr_length_pos (a : Attr) : 0 < (packAttr a).length := by simp [packAttr]

theorem packBody_length_ge (as : List Attr) : as.length ≤ (packBody as).length := by
  induction as with
  | nil => simp [packBody]
  | cons a as ih =>
    have := packAttr_length_pos a
    simp only [packBody, List.length_cons, List.length_append]; omega

theorem foldl_dictSet_fresh (acc as : List Attr) (h : ((acc ++ as).map (·.name)).Nodup) :
    as.foldl dictSet acc = acc ++ as := by
  induction as generalizing acc with
  | nil => simp
  | cons a as ih =>
    have hset : dictSet acc a = acc ++ [a] := by
      have hfresh : ∀ x ∈ acc, x.name ≠ a.name := by
        intro x hx he
        simp only [List.map_append, List.map_cons, List.nodup_append] at h
        exact h.2.2 x.name (List.mem_map_of_mem hx) a.name (by simp) he
      clear h ih
      induction acc with
      | nil => rfl
      | cons x xs ihx =>
        have hx : x.name ≠ a.name := hfresh x (by simp)
        simp only [dictSet, if_neg hx, List.cons_append]
        rw [ihx (fun y hy => hfresh y (by simp [hy]))]
    simp only [List.foldl_cons, hset]
    rw [ih (acc ++ [a]) (by simpa using h)]
    simp

/-- **read ∘ pack = id** on attribute lists: any number of well-formed attributes with distinct names, in any
    order, followed by the terminator (a zero type byte) and anything after it -/
theorem readAttrs_pack (as : List Attr) (h : ∀ a ∈ as, WFAttr a) (hnd : (as.map (·.name)).Nodup) (rest : Bytes) :
    readAttrs (packBody as ++ 0 :: rest) = .ok as := by
  unfold readAttrs
  rw [readList_pack as h rest _ (by have := packBody_length_ge as; simp only [List.length_append, List.length_cons]; omega)]
  simp only
  rw [foldl_dictSet_fresh [] as (by simpa using hnd)]
  simp

/-! ### the canonical header and the written file -/

theorem sub_mid (a b c : Bytes) (off len : Nat) (ha : a.length = off) (hb : b.length = len) :
    sub (a ++ b ++ c) off len = b := by
  simp only [sub, List.append_assoc]
  rw [drop_append_eq a _ off ha.symm, take_append_eq b c len hb.symm]

theorem zeros_append (a b : Nat) : zeros a ++ zeros b = zeros (a + b) := by
  simp [zeros, List.replicate_append_replicate]

theorem fileHeader_length (sz v : Nat) : (fileHeader sz v).length = 512 := by
  obtain ⟨-, h2, -, h4, h5, -, -, -, -, -, -, -, -, -, -, -, -, -, -, -, -, -, -, -, h25, -⟩ := consts_spec
  simp only [fileHeader, h2, h4, h5, h25, List.length_append, leBytes_length, zeros_length]

/-- the re-serialised header of attributes that fit the block: file header ‖ attributes ‖ zero fill -/
theorem packHeader_canonical (as : List Attr) (v : Nat) (hfit : 512 + (packBody as).length + 4 ≤ 4096) :
    packHeader as v = fileHeader 3584 v ++ packBody as ++ zeros (3584 - (packBody as).length) := by
  obtain ⟨h1, h2, -, -, -, -, -, -, -, -, -, -, -, -, -, -, -, -, -, -, h21, h22, -⟩ := consts_spec
  have hs : padTo (zeros PACK_ZEROS ++ packAttrs as) BLOCK = zeros 512 ++ (packBody as ++ zeros (3584 - (packBody as).length)) := by
    have hlen : (zeros PACK_ZEROS ++ packAttrs as).length = 512 + (packBody as).length + 4 := by
      simp only [packAttrs, h21, h22, List.length_append, zeros_length]; omega
    unfold padTo
    rw [hlen, h1]
    split
    · rename_i hz
      have h0 : 3584 - (packBody as).length = 4 := by omega
      rw [h0, h21, packAttrs, h22]
    · rename_i hz
      have hm : (512 + (packBody as).length + 4) % 4096 = 512 + (packBody as).length + 4 := Nat.mod_eq_of_lt (by omega)
      have h0 : 3584 - (packBody as).length = 4 + (4096 - (512 + (packBody as).length + 4)) := by omega
      rw [hm, h0, ← zeros_append, h21, packAttrs, h22]
      simp only [List.append_assoc]
  have hl : (padTo (zeros PACK_ZEROS ++ packAttrs as) BLOCK).length = 4096 := by
    rw [hs]; simp only [List.length_append, zeros_length]; omega
  simp only [packHeader, patch, hl, h2, List.take_zero, List.nil_append, fileHeader_length, Nat.zero_add]
  rw [hs, drop_append_eq (zeros 512) _ 512 (zeros_length 512).symm, List.append_assoc]

theorem packHeader_length (as : List Attr) (v : Nat) (hfit : 512 + (packBody as).length + 4 ≤ 4096) :
    (packHeader as v).length = 4096 := by
  rw [packHeader_canonical as v hfit]
  simp only [List.length_append, fileHeader_length, zeros_length]; omega

/-- the attribute area of the canonical header parses back to the attributes: `pack (read h) = h` -/
theorem packHeader_reads_back (as : List Attr) (v : Nat) (h : ∀ a ∈ as, WFAttr a) (hnd : (as.map (·.name)).Nodup)
    (hfit : 512 + (packBody as).length + 4 ≤ 4096) :
    readAttrs (((packHeader as v).take BLOCK).drop HDR) = .ok as := by
  obtain ⟨h1, h2, -⟩ := consts_spec
  rw [h1, h2, List.take_of_length_le (by rw [packHeader_length as v hfit]; omega), packHeader_canonical as v hfit,
    List.append_assoc, drop_append_eq _ _ 512 (fileHeader_length 3584 v).symm]
  have hz : zeros (3584 - (packBody as).length) = 0 :: zeros (3584 - (packBody as).length - 1) := by
    have : 3584 - (packBody as).length = (3584 - (packBody as).length - 1) + 1 := by omega
    rw [this]; simp [zeros, List.replicate_succ]
  rw [hz]
  exact readAttrs_pack as h hnd _

theorem aeadFooter_length (am tag : Bytes) (ham : am.length = 32) (htag : tag.length ≤ 4056) :
    (aeadFooter am tag).length = 4096 := by
  obtain ⟨-, -, -, -, -, -, h7, h8, h9, -⟩ := consts_spec
  simp only [aeadFooter, h7, h8, h9, List.length_append, leBytes_length, zeros_length, ham]; omega

theorem aeadFooter_fields (am tag : Bytes) (ham : am.length = 32) (htag : tag.length ≤ 4056) :
    aeadVerF.decode (sub (aeadFooter am tag) aeadVerF.off aeadVerF.width) = AEAD_VERSION ∧
    (sub (aeadFooter am tag) aeadData.1 aeadData.2).take
      (aeadSizeF.decode (sub (aeadFooter am tag) aeadSizeF.off aeadSizeF.width)) = tag := by
  obtain ⟨-, -, -, -, -, -, h7, h8, h9, -, -, -, -, -, -, h16, -⟩ := consts_spec
  simp only [aeadFooter, h7, h8, h9, h16]
  refine ⟨?_, ?_⟩
  · have := sub_mid (am ++ tag ++ zeros (4056 - tag.length) ++ leBytes 4 tag.length) (leBytes 4 1) [] 4092 4
      (by simp only [List.length_append, leBytes_length, zeros_length, ham]; omega) (leBytes_length 4 1)
    rw [List.append_nil] at this
    rw [this]
    exact decode_le32 4092 1 (by decide)
  · have h1 := sub_mid (am ++ tag ++ zeros (4056 - tag.length)) (leBytes 4 tag.length) (leBytes 4 1) 4088 4
      (by simp only [List.length_append, zeros_length, ham]; omega) (leBytes_length 4 _)
    rw [h1, decode_le32 4088 tag.length (by omega)]
    have h2 := sub_mid am (tag ++ zeros (4056 - tag.length)) (leBytes 4 tag.length ++ leBytes 4 1) 32 4056 ham
      (by simp only [List.length_append, zeros_length]; omega)
    simp only [List.append_assoc] at h2 ⊢
    rw [h2, take_append_eq tag _ _ rfl]

theorem fileHeader_fields (sz v : Nat) (hv : v < 2 ^ 32) (rest : Bytes) :
    sub (fileHeader sz v ++ rest) magicPos.1 magicPos.2 = FILE_MAGIC ∧
    verF.decode (sub (fileHeader sz v ++ rest) verF.off verF.width) = v := by
  obtain ⟨-, h2, h3, h4, h5, -, -, -, -, -, -, -, -, -, -, -, -, -, -, -, -, -, -, h24, h25, -⟩ := consts_spec
  simp only [fileHeader, h2, h3, h4, h5, h25, ← h24]
  refine ⟨?_, ?_⟩
  · have := sub_mid [] PACK_MAGIC (zeros (504 - 21) ++ leBytes 4 sz ++ zeros (508 - (504 + 4)) ++ leBytes 4 v ++ zeros (512 - (508 + 4)) ++ rest)
      0 21 rfl h25
    simp only [List.nil_append, List.append_assoc] at this ⊢
    exact this
  · have := sub_mid (PACK_MAGIC ++ zeros (504 - 21) ++ leBytes 4 sz ++ zeros (508 - (504 + 4))) (leBytes 4 v) (zeros (512 - (508 + 4)) ++ rest)
      508 4 (by simp only [List.length_append, zeros_length, leBytes_length, h25]) (leBytes_length 4 v)
    simp only [List.append_assoc] at this ⊢
    rw [this]
    exact decode_le32 508 v hv

/-- `Envelope.__init__` on a canonically written file: header block ‖ ciphertext ‖ AEAD footer block -/
theorem openEnv_written (as : List Attr) (ct am tag : Bytes) (ci kh : Attr)
    (h : ∀ a ∈ as, WFAttr a) (hnd : (as.map (·.name)).Nodup) (hfit : 512 + (packBody as).length + 4 ≤ 4096)
    (hreq : REQUIRED.any (fun n => (getAttr as n).isNone) = false)
    (hci : getAttr as nmCipher = some ci) (hciv : ci.val = .str CIPHER_GCM) (hkh : getAttr as nmKeyHash = some kh)
    (ham : am.length = 32) (htag : tag.length ≤ 4056) :
    openEnv (packHeader as 2 ++ ct ++ aeadFooter am tag) =
      .ok { version := 2, attrs := as, cipherName := CIPHER_GCM, keyHash := kh.val, iv := (getAttr as nmIv).map (·.val),
            digest := tag, size := (ct.length : Int), data := ct } := by
  have hc := consts_spec
  have hpl := packHeader_length as 2 hfit
  have hfl := aeadFooter_length am tag ham htag
  have hblk : (packHeader as 2 ++ ct ++ aeadFooter am tag).take BLOCK = packHeader as 2 := by
    rw [List.append_assoc, take_append_eq _ _ _ (by rw [hpl]; exact hc.1)]
  have hrd := packHeader_reads_back as 2 h hnd hfit
  have hcan := packHeader_canonical as 2 hfit
  have hff := fileHeader_fields 3584 2 (by decide) (packBody as ++ zeros (3584 - (packBody as).length))
  rw [← List.append_assoc, ← hcan] at hff
  obtain ⟨hf1, hf2⟩ := aeadFooter_fields am tag ham htag
  have hlen : (packHeader as 2 ++ ct ++ aeadFooter am tag).length = 4096 + ct.length + 4096 := by
    simp only [List.length_append, hpl, hfl]
  have hfoot : (packHeader as 2 ++ ct ++ aeadFooter am tag).drop (4096 + ct.length + 4096 - 4096) = aeadFooter am tag :=
    drop_append_eq _ _ _ (by simp only [List.length_append, hpl]; omega)
  have hdata : ((packHeader as 2 ++ ct ++ aeadFooter am tag).drop 4096).take (4096 + ct.length + 4096 - 2 * 4096) = ct := by
    rw [List.append_assoc, drop_append_eq _ _ 4096 hpl.symm, take_append_eq ct _ _ (by omega)]
  have htk : (packHeader as 2).take BLOCK = packHeader as 2 := List.take_of_length_le (by rw [hpl, hc.1]; omega)
  rw [htk] at hrd
  unfold openEnv
  simp only [hblk, hrd, hreq, hci, hkh, hciv, hff.1, hff.2]
  obtain ⟨h1, h2, -, -, -, h6, -, -, -, -, -, -, -, -, h15, h16, h17, -⟩ := hc
  simp only [hpl, h1, h2, h6, h15, h16, h17, hlen, hfoot, hf1, hf2, hdata]
  simp
  have hnl : ¬ (4096 + ct.length + 4096 < 4096) := by omega
  have hsz : (4096 + (ct.length : Int) + 4096 - 8192) = (ct.length : Int) := by omega
  rw [if_neg hnl, hsz]

/-! ### the model looks at its crypto parameter only at the calls it lists -/

/-- two crypto instances give the same answer to a call -/
def agreesOn (c1 c2 : Crypto) : Call → Prop
  | .sha256 m => c1.sha256 m = c2.sha256 m
  | .pbkdf2 pw salt r => c1.pbkdf2 pw salt r = c2.pbkdf2 pw salt r
  | .gcm k iv a ct => c1.gcm k iv a ct = c2.gcm k iv a ct

theorem decrypt_depends_on_calls (c1 c2 : Crypto) (e : Env) (verify : Bool) (key aad : Bytes)
    (h : ∀ call ∈ decryptCalls c1 e key aad, agreesOn c1 c2 call) :
    decrypt c1 e verify key aad = decrypt c2 e verify key aad := by
  have hsha : c1.sha256 (e.cipherName ++ key) = c2.sha256 (e.cipherName ++ key) :=
    h (.sha256 (e.cipherName ++ key)) (by simp [decryptCalls])
  unfold decrypt
  rw [← hsha]
  by_cases hk : Val.bytes (c1.sha256 (e.cipherName ++ key)) ≠ e.keyHash
  · simp only [if_pos hk]
  by_cases hc : e.cipherName ≠ DEC_CIPHER_GCM
  · simp only [if_neg hk, if_pos hc]
  cases hiv : ivOf e with
  | none => simp only [if_neg hk, if_neg hc]
  | some iv =>
    by_cases hkey : aesKeyOk key = false
    · simp only [if_neg hk, if_neg hc, if_pos hkey]
    by_cases hsz : e.size < 0
    · simp only [if_neg hk, if_neg hc, if_neg hkey, if_pos hsz]
    have hg : c1.gcm key iv (aadOf e aad) e.data = c2.gcm key iv (aadOf e aad) e.data :=
      h (.gcm key iv (aadOf e aad) e.data) (by simp [decryptCalls, hk, hc, hiv, hkey, hsz])
    simp only [if_neg hk, if_neg hc, if_neg hkey, if_neg hsz, hg]

theorem keystore_depends_on_calls (c1 c2 : Crypto) (text : Str)
    (h : ∀ call ∈ keystoreCalls text, agreesOn c1 c2 call) : keystore c1 text = keystore c2 text := by
  unfold keystore
  unfold keystoreCalls at h
  split
  · rfl
  rename_i store hs
  rw [hs] at h
  split
  · rfl
  rename_i s hst
  simp only [hst] at h
  have := h (.pbkdf2 (s.data1 ++ SALT) s.data2 ROUNDS) (by simp)
  simp only [deriveKey]
  rw [show c1.pbkdf2 (s.data1 ++ SALT) s.data2 ROUNDS = c2.pbkdf2 (s.data1 ++ SALT) s.data2 ROUNDS from this]

/-! ### termination of the attribute reader (C11) -/

theorem cstr_length {b s r : Bytes} (h : cstr b = some (s, r)) : r.length < b.length := by
  induction b generalizing s r with
  | nil => simp [cstr] at h
  | cons x t ih =>
    simp only [cstr] at h
    split at h
    · simp only [Option.some.injEq, Prod.mk.injEq] at h
      obtain ⟨_, rfl⟩ := h; simp
    · split at h
      · cases h
      · rename_i s' r' hc
        simp only [Option.some.injEq, Prod.mk.injEq] at h
        obtain ⟨_, rfl⟩ := h
        have := ih hc
        simp only [List.length_cons]; omega

/-- a decoded value never leaves more input than it was given -/
theorem readVal_length {t : Nat} {b : Bytes} {v : Val} {rest : Bytes} (h : readVal t b = some (.ok (v, rest))) :
    rest.length ≤ b.length := by
  unfold readVal at h
  split at h
  · cases h
  · rename_i x kind w signed hrow
    split at h
    · split at h
      · cases h
      · rename_i s r hc
        split at h
        · simp only [Option.some.injEq, Except.ok.injEq, Prod.mk.injEq] at h
          obtain ⟨_, rfl⟩ := h
          exact Nat.le_of_lt (cstr_length hc)
        · cases h
    · split at h
      · split at h
        · cases h
        · simp only at h
          split at h
          · cases h
          · simp only [Option.some.injEq, Except.ok.injEq, Prod.mk.injEq] at h
            obtain ⟨_, rfl⟩ := h
            simp only [List.length_drop]; omega
      · split at h
        · split at h
          · cases h
          · simp only [Option.some.injEq, Except.ok.injEq, Prod.mk.injEq] at h
            obtain ⟨_, rfl⟩ := h
            simp only [List.length_drop]; omega
        · split at h
          · split at h
            · cases h
            · simp only [Option.some.injEq, Except.ok.injEq, Prod.mk.injEq] at h
              obtain ⟨_, rfl⟩ := h
              simp only [List.length_drop]; omega
          · cases h

/-- **progress**: an iteration that yields an attribute consumes at least the type byte, the flag byte and the name's NUL -/
theorem readOne_progress {b : Bytes} {a : Attr} {rest : Bytes} (h : readOne b = .attr a rest) : rest.length + 3 ≤ b.length := by
  unfold readOne at h
  split at h
  · cases h
  · rename_i t b1
    split at h
    · cases h
    · split at h
      · cases h
      · rename_i flag b2
        split at h
        · cases h
        · rename_i name b4 hc
          split at h
          · cases h
          · split at h
            · cases h
            · cases h
            · rename_i v rest' hv
              simp only [Step.attr.injEq] at h
              obtain ⟨_, rfl⟩ := h
              have h1 := cstr_length hc
              have h2 := readVal_length hv
              simp only [List.length_drop] at h1
              simp only [List.length_cons]
              omega

/-- the loop of `_read_envelope_attributes` never runs out of fuel when given more fuel than bytes -/
theorem readList_terminates : ∀ (fuel : Nat) (b : Bytes), b.length < fuel → readList fuel b ≠ .error .nonTermination := by
  intro fuel
  induction fuel with
  | zero => intro b h; omega
  | succ fuel ih =>
    intro b hb
    simp only [readList]
    split
    · intro h; cases h
    · rename_i e he
      intro h
      simp only [Except.error.injEq] at h
      subst h
      -- a single iteration never reports `nonTermination`
      unfold readOne at he
      repeat' split at he
      all_goals (first | (cases he; done) | skip)
      all_goals
        rename_i hv
        simp only [Step.err.injEq] at he
        subst he
        unfold readVal at hv
        repeat' split at hv
        all_goals (first | (cases hv; done) | skip)
        all_goals (simp only at hv; split at hv <;> cases hv)
    · rename_i a rest hstep
      have hp := readOne_progress hstep
      have := ih rest (by omega)
      split
      · intro h; cases h
      · rename_i e he
        intro h
        simp only [Except.error.injEq] at h
        subst h
        exact this he

theorem readAttrs_terminates (b : Bytes) : readAttrs b ≠ .error .nonTermination := by
  unfold readAttrs
  have := readList_terminates (b.length + 1) b (by omega)
  split
  · intro h; cases h
  · rename_i e he
    intro h
    simp only [Except.error.injEq] at h
    subst h
    exact this he

/-- the fuel of the UTF-8 validator is never the reason for a `false` -/
theorem utf8ValidF_fuel : ∀ (f1 f2 : Nat) (b : Bytes), b.length < f1 → b.length < f2 → utf8ValidF f1 b = utf8ValidF f2 b := by
  intro f1
  induction f1 with
  | zero => intro f2 b h; omega
  | succ f1 ih =>
    intro f2 b h1 h2
    obtain ⟨f2, rfl⟩ : ∃ k, f2 = k + 1 := ⟨f2 - 1, by omega⟩
    cases b with
    | nil => simp [utf8ValidF]
    | cons b0 r =>
      simp only [List.length_cons] at h1 h2
      simp only [utf8ValidF]
      split
      · exact ih f2 r (by omega) (by omega)
      split
      · cases r with
        | nil => rfl
        | cons b1 r => simp only [List.length_cons] at h1 h2; simp only []; rw [ih f2 r (by omega) (by omega)]
      split
      · match r with
        | [] => rfl
        | [_] => rfl
        | b1 :: b2 :: r => simp only [List.length_cons] at h1 h2; simp only []; rw [ih f2 r (by omega) (by omega)]
      split
      · match r with
        | [] => rfl
        | [_] => rfl
        | [_, _] => rfl
        | b1 :: b2 :: b3 :: r => simp only [List.length_cons] at h1 h2; simp only []; rw [ih f2 r (by omega) (by omega)]
      · rfl

/-- `Envelope.__init__` on any file contents returns or raises -/
theorem openEnv_terminates (file : Bytes) : openEnv file ≠ .error .nonTermination := by
  unfold openEnv
  simp only []
  split; · intro h; cases h
  split; · intro h; cases h
  split; · intro h; cases h
  split
  · rename_i e he
    intro h
    simp only [Except.error.injEq] at h
    subst h
    exact readAttrs_terminates _ he
  · split; · intro h; cases h
    split
    · split; · intro h; cases h
      split; · intro h; cases h
      split <;> (intro h; cases h)
    · intro h; cases h

end Hv.Envelope
