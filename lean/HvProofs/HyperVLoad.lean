/- C17, third part: from the *bytes* of a written file to the registry `load` builds (the object-table walk at byte level),
   and the composition with the tree assembly (`tree_decode_encodes`). Core Lean only. -/
import HvProofs.HyperVTree
namespace Hv.HyperV
open Hv Hv.Extracted.hyperv

/-! ### segments -/

theorem segByte_of_mem : ∀ (segs : List (Nat × Bytes)), segsDisjoint segs → ∀ (o : Nat) (b : Bytes), (o, b) ∈ segs →
    ∀ i, i < b.length → segByte segs (o + i) = b.getD i 0 := by
  intro segs
  induction segs with
  | nil => intro _ o b hm; cases hm
  | cons s r ih =>
    obtain ⟨o', b'⟩ := s
    intro hd o b hm i hi
    simp only [segsDisjoint, List.pairwise_cons] at hd
    simp only [List.mem_cons] at hm
    rcases hm with hm | hm
    · cases hm
      simp only [segByte]
      rw [if_pos ⟨by omega, by omega⟩, Nat.add_sub_cancel_left]
    · have := hd.1 (o, b) hm
      simp only at this
      simp only [segByte]
      rw [if_neg (by omega)]
      exact ih hd.2 o b hm i hi

/-- `g` holds the bytes `b` at position `k` -/
def At (g : Nat → UInt8) (k : Nat) (b : Bytes) : Prop := slice g k b.length = b

theorem at_seg (segs : List (Nat × Bytes)) (hd : segsDisjoint segs) (o : Nat) (b : Bytes) (hm : (o, b) ∈ segs) :
    At (segByte segs) o b := by
  unfold At
  apply List.ext_getElem (by simp)
  intro i h1 h2
  simp only [slice, List.getElem_map, List.getElem_range]
  rw [segByte_of_mem segs hd o b hm i h2]
  simp [List.getD_eq_getElem?_getD, h2]

theorem At.split {g : Nat → UInt8} {k : Nat} {a b : Bytes} (h : At g k (a ++ b)) : At g k a ∧ At g (k + a.length) b := by
  unfold At at h ⊢
  rw [List.length_append, slice_append] at h
  exact List.append_inj h (by simp)

theorem At.left {g : Nat → UInt8} {k : Nat} {a b : Bytes} (h : At g k (a ++ b)) : At g k a := h.split.1
theorem At.right {g : Nat → UInt8} {k : Nat} {a b : Bytes} (h : At g k (a ++ b)) : At g (k + a.length) b := h.split.2

/-- a window of a stored byte string -/
theorem At.sub {g : Nat → UInt8} {k : Nat} {b : Bytes} (h : At g k b) (i n : Nat) (hin : i + n ≤ b.length) :
    slice g (k + i) n = (b.drop i).take n := by
  have e : b = b.take i ++ ((b.drop i).take n ++ (b.drop i).drop n) := by
    rw [List.take_append_drop, List.take_append_drop]
  rw [e] at h
  have h2 := h.right.left
  unfold At at h2
  have l1 : (b.take i).length = i := by rw [List.length_take]; omega
  have l2 : ((b.drop i).take n).length = n := by rw [List.length_take, List.length_drop]; omega
  rw [l1, l2] at h2
  exact h2

theorem At.whole {g : Nat → UInt8} {k : Nat} {b : Bytes} (h : At g k b) : slice g k b.length = b := h

/-- a cstruct field of a structure stored at `base` -/
theorem field_at (f : File) (base ssize : Nat) (fld : Field) (b : Bytes) (h : At f.byte base b) (hs : base + ssize ≤ f.size)
    (hw : fld.off + fld.width ≤ b.length) : f.field base ssize fld = .ok (bfield b fld) := by
  unfold File.field bfield
  rw [if_pos hs, h.sub fld.off fld.width hw]

/-! ### the stored structures read back -/

theorem HDR_eq : HDR = 46 := by decide
theorem LOG_eq : LOG = 34 := by decide
theorem LOGE_eq : LOGE = 28 := by decide
theorem OTH_eq : OTH = 8 := by decide
theorem OTE_eq : OTE = 18 := by decide

theorem HdrSpec.encode_length (h : HdrSpec) : h.encode.length = HDR := by simp [HdrSpec.encode, HDR_eq]

theorem HdrSpec.fields (h : HdrSpec) (hk : h.ok) :
    bfield h.encode HyperVStorageHeader.signature = h.sig ∧ bfield h.encode HyperVStorageHeader.sequence_number = h.seq ∧
    bfield h.encode HyperVStorageHeader.version = h.version ∧ bfield h.encode HyperVStorageHeader.replay_log_offset = h.logOff := by
  obtain ⟨k1, k2, k3, k4⟩ := hk
  refine ⟨?_, ?_, ?_, ?_⟩
  · have := bfield_mid [] (leBytes 4 h.ck ++ (leBytes 2 h.seq ++ (leBytes 4 h.version ++ (leBytes 8 h.unk2 ++ (leBytes 4 h.align ++
      (leBytes 8 h.logOff ++ (leBytes 8 h.logSize ++ leBytes 4 h.hsize))))))) 4 h.sig 0 32 rfl (by simpa using k1) (by decide)
    simpa [HdrSpec.encode, HyperVStorageHeader.signature] using this
  · have := bfield_mid (leBytes 4 h.sig ++ leBytes 4 h.ck) (leBytes 4 h.version ++ (leBytes 8 h.unk2 ++ (leBytes 4 h.align ++
      (leBytes 8 h.logOff ++ (leBytes 8 h.logSize ++ leBytes 4 h.hsize))))) 2 h.seq 8 16 (by simp) (by simpa using k2) (by decide)
    simpa [HdrSpec.encode, List.append_assoc, HyperVStorageHeader.sequence_number] using this
  · have := bfield_mid (leBytes 4 h.sig ++ leBytes 4 h.ck ++ leBytes 2 h.seq) (leBytes 8 h.unk2 ++ (leBytes 4 h.align ++
      (leBytes 8 h.logOff ++ (leBytes 8 h.logSize ++ leBytes 4 h.hsize)))) 4 h.version 10 32 (by simp) (by simpa using k3) (by decide)
    simpa [HdrSpec.encode, List.append_assoc, HyperVStorageHeader.version] using this
  · have := bfield_mid (leBytes 4 h.sig ++ leBytes 4 h.ck ++ leBytes 2 h.seq ++ leBytes 4 h.version ++ leBytes 8 h.unk2 ++ leBytes 4 h.align)
      (leBytes 8 h.logSize ++ leBytes 4 h.hsize) 8 h.logOff 26 64 (by simp) (by simpa using k4) (by decide)
    simpa [HdrSpec.encode, List.append_assoc, HyperVStorageHeader.replay_log_offset] using this

/-- a stored file header parses to its four interpreted fields -/
theorem parseHeader_encode (f : File) (off : Nat) (h : HdrSpec) (hk : h.ok) (ha : At f.byte off h.encode) (hs : off + HDR ≤ f.size) :
    parseHeader f off = .ok { signature := h.sig, seq := h.seq, version := h.version, replayLogOffset := h.logOff } := by
  obtain ⟨f1, f2, f3, f4⟩ := h.fields hk
  have hl := h.encode_length
  rw [HDR_eq] at hl
  unfold parseHeader
  rw [field_at f off HDR _ _ ha hs (by rw [hl]; decide), field_at f off HDR _ _ ha hs (by rw [hl]; decide),
    field_at f off HDR _ _ ha hs (by rw [hl]; decide), field_at f off HDR _ _ ha hs (by rw [hl]; decide), f1, f2, f3, f4]
  rfl

theorem LogSpec.encode_length (l : LogSpec) : l.encode.length = 12 + l.rest.length := by
  simp [LogSpec.encode]; omega

theorem logField_sig (l : LogSpec) (sg : Nat) (hsig : sg < 256 ^ 4) :
    bfield (leBytes 4 sg ++ (leBytes 4 l.ck ++ (leBytes 4 l.n ++ l.rest))) HyperVStorageReplayLog.signature = sg := by
  have := bfield_mid [] (leBytes 4 l.ck ++ (leBytes 4 l.n ++ l.rest)) 4 sg 0 32 rfl hsig (by decide)
  simpa [HyperVStorageReplayLog.signature] using this

theorem logField_n (l : LogSpec) (sg : Nat) (hk : l.ok) :
    bfield (leBytes 4 sg ++ (leBytes 4 l.ck ++ (leBytes 4 l.n ++ l.rest))) HyperVStorageReplayLog.num_entries = l.n := by
  have := bfield_mid (leBytes 4 sg ++ leBytes 4 l.ck) l.rest 4 l.n 8 32 (by simp) (by simpa using hk.1) (by decide)
  simpa [List.append_assoc, HyperVStorageReplayLog.num_entries] using this

theorem LogSpec.fields (l : LogSpec) (hk : l.ok) :
    bfield l.encode HyperVStorageReplayLog.signature = SIGNATURE_REPLAY_LOG_HEADER ∧
    bfield l.encode HyperVStorageReplayLog.num_entries = l.n :=
  ⟨logField_sig l _ (by simp [SIGNATURE_REPLAY_LOG_HEADER]), logField_n l _ hk⟩

/-- a stored replay log passes `HyperVStorageReplayLog.__init__` -/
theorem checkReplayLog_encode (f : File) (l : LogSpec) (hk : l.ok) (ha : At f.byte l.off l.encode) (hs : l.off + l.encode.length ≤ f.size) :
    checkReplayLog f l.off = .ok () := by
  obtain ⟨f1, f2⟩ := l.fields hk
  have hl := l.encode_length
  have h2 := hk.2
  rw [LOG_eq, LOGE_eq] at h2
  have hs' : l.off + LOG ≤ f.size := by rw [LOG_eq]; omega
  unfold checkReplayLog
  rw [field_at f l.off LOG _ _ ha hs' (by rw [hl]; simp only [HyperVStorageReplayLog.signature]; omega),
    field_at f l.off LOG _ _ ha hs' (by rw [hl]; simp only [HyperVStorageReplayLog.num_entries]; omega), f1, f2]
  simp only [bind, Except.bind, ne_eq, not_true_eq_false, if_false]
  rw [if_pos (by rw [LOG_eq, LOGE_eq]; omega)]

theorem ObjSpec.encode_length (o : ObjSpec) : o.encode.length = OTE := by simp [ObjSpec.encode, OTE_eq]

theorem ObjSpec.fields (o : ObjSpec) (hk : o.ok) :
    bfield o.encode HyperVStorageObjectTableEntry.type = o.typ ∧ bfield o.encode HyperVStorageObjectTableEntry.offset = o.offset ∧
    bfield o.encode HyperVStorageObjectTableEntry.size_field = o.size ∧ bfield o.encode HyperVStorageObjectTableEntry.allocated = o.allocated := by
  obtain ⟨k1, k2, k3, k4⟩ := hk
  refine ⟨?_, ?_, ?_, ?_⟩
  · have := bfield_mid [] (leBytes 4 o.ck ++ (leBytes 8 o.offset ++ (leBytes 4 o.size ++ leBytes 1 o.allocated))) 1 o.typ 0 8 rfl
      (by simpa using k1) (by decide)
    simpa [ObjSpec.encode, HyperVStorageObjectTableEntry.type] using this
  · have := bfield_mid (leBytes 1 o.typ ++ leBytes 4 o.ck) (leBytes 4 o.size ++ leBytes 1 o.allocated) 8 o.offset 5 64 (by simp)
      (by simpa using k2) (by decide)
    simpa [ObjSpec.encode, List.append_assoc, HyperVStorageObjectTableEntry.offset] using this
  · have := bfield_mid (leBytes 1 o.typ ++ leBytes 4 o.ck ++ leBytes 8 o.offset) (leBytes 1 o.allocated) 4 o.size 13 32 (by simp)
      (by simpa using k3) (by decide)
    simpa [ObjSpec.encode, List.append_assoc, HyperVStorageObjectTableEntry.size_field] using this
  · have := bfield_mid (leBytes 1 o.typ ++ leBytes 4 o.ck ++ leBytes 8 o.offset ++ leBytes 4 o.size) [] 1 o.allocated 17 8 (by simp)
      (by simpa using k4) (by decide)
    simpa [ObjSpec.encode, List.append_assoc, HyperVStorageObjectTableEntry.allocated] using this

theorem objEntryAt_encode (f : File) (base : Nat) (o : ObjSpec) (hk : o.ok) (ha : At f.byte base o.encode) :
    objEntryAt f base = o.parsed := by
  obtain ⟨f1, f2, f3, f4⟩ := o.fields hk
  have hw := ha.whole
  rw [o.encode_length] at hw
  simp only [objEntryAt, hw, f1, f2, f3, f4, ObjSpec.parsed]

theorem encodeObjs_length (es : List ObjSpec) : (encodeObjs es).length = es.length * OTE := by
  induction es with
  | nil => simp [encodeObjs]
  | cons o r ih => simp only [encodeObjs, List.length_append, o.encode_length, ih, List.length_cons, Nat.succ_mul]; omega

theorem objEntries_encode (f : File) : ∀ (es : List ObjSpec) (base : Nat), (∀ o ∈ es, o.ok) → At f.byte base (encodeObjs es) →
    (List.range es.length).map (fun i => objEntryAt f (base + i * OTE)) = es.map ObjSpec.parsed := by
  intro es
  induction es with
  | nil => intro _ _ _; rfl
  | cons o r ih =>
    intro base hk ha
    simp only [encodeObjs] at ha
    have h1 := objEntryAt_encode f base o (hk o (by simp)) ha.left
    have h2 := ih (base + OTE) (fun x hx => hk x (by simp [hx])) (by have := ha.right; rwa [o.encode_length] at this)
    rw [List.length_cons, List.range_succ_eq_map, List.map_cons, List.map_map, List.map_cons, ← h2]
    simp only [Nat.zero_mul, Nat.add_zero, h1, List.cons.injEq, true_and]
    apply List.map_congr_left
    intro i _
    simp only [Function.comp, Nat.succ_eq_add_one, Nat.add_mul, Nat.one_mul]
    congr 1
    omega

theorem OTSpec.encode_length (t : OTSpec) : t.encode.length = OTH + t.entries.length * OTE := by
  simp [OTSpec.encode, encodeObjs_length, OTH_eq]; omega

theorem otField_sig (t : OTSpec) (sg : Nat) (hsig : sg < 256 ^ 4) :
    bfield (leBytes 4 sg ++ (leBytes 4 t.entries.length ++ encodeObjs t.entries)) HyperVStorageObjectTable.signature = sg := by
  have := bfield_mid [] (leBytes 4 t.entries.length ++ encodeObjs t.entries) 4 sg 0 32 rfl hsig (by decide)
  simpa [HyperVStorageObjectTable.signature] using this

theorem otField_n (t : OTSpec) (sg : Nat) (hk : t.ok) :
    bfield (leBytes 4 sg ++ (leBytes 4 t.entries.length ++ encodeObjs t.entries)) HyperVStorageObjectTable.num_entries = t.entries.length := by
  have := bfield_mid (leBytes 4 sg) (encodeObjs t.entries) 4 t.entries.length 4 32 (by simp) (by simpa using hk.1) (by decide)
  simpa [HyperVStorageObjectTable.num_entries] using this

theorem OTSpec.fields (t : OTSpec) (hk : t.ok) :
    bfield t.encode HyperVStorageObjectTable.signature = SIGNATURE_OBJECT_TABLE_HEADER ∧
    bfield t.encode HyperVStorageObjectTable.num_entries = t.entries.length :=
  ⟨otField_sig t _ (by simp [SIGNATURE_OBJECT_TABLE_HEADER]), otField_n t _ hk⟩

/-- a stored object table loads to its entries -/
theorem loadObjectTable_encode (f : File) (t : OTSpec) (hk : t.ok) (ha : At f.byte t.off t.encode) (hs : t.off + t.encode.length ≤ f.size) :
    loadObjectTable f t.off = .ok (t.entries.map ObjSpec.parsed) := by
  have hl := t.encode_length
  obtain ⟨f1, f2⟩ := t.fields hk
  have hs' : t.off + OTH ≤ f.size := by omega
  have hobjs : At f.byte (t.off + OTH) (encodeObjs t.entries) := by
    have := ha.right.right
    simpa [OTH_eq, Nat.add_assoc] using this
  unfold loadObjectTable
  rw [field_at f t.off OTH _ _ ha hs' (by rw [hl, OTH_eq]; simp only [HyperVStorageObjectTable.signature]; omega),
    field_at f t.off OTH _ _ ha hs' (by rw [hl, OTH_eq]; simp only [HyperVStorageObjectTable.num_entries]; omega), f1, f2]
  simp only [bind, Except.bind, ne_eq, not_true_eq_false, if_false]
  rw [if_pos (by omega), objEntries_encode f t.entries (t.off + OTH) hk.2 hobjs]

theorem encodeEntries_length (ss : List SEntry) : (encodeEntries ss).length = totalSize ss := by
  induction ss with
  | nil => simp [encodeEntries, totalSize]
  | cons s r ih => rw [encodeEntries_cons, totalSize_cons, List.length_append, s.encode_length, ih]

theorem encodeTable_length (i q c : Nat) (ss : List SEntry) : (encodeTable i q c ss).length = KTH + totalSize ss := by
  simp [encodeTable, encodeEntries_length, KTH_eq]; omega

/-- a stored key table region parses to its table -/
theorem parseKeyTable_region (k : KTSpec) (hk : k.ok) : parseKeyTable k.encode k.encode.length = .ok k.table := by
  obtain ⟨h1, h2, h3⟩ := hk
  unfold KTSpec.encode KTSpec.table
  cases k.tail with
  | none =>
    simp only []
    rw [encodeTable_length]
    exact parseKeyTable_encode k.index k.seq k.ck k.entries h1 h2 h3
  | some t =>
    simp only []
    exact parseKeyTable_encode_zero k.index k.seq k.ck _ k.entries t h1 h2 h3 (by
      rw [List.length_append, encodeTable_length, List.length_append, zeros_length, EH_eq]; omega)

theorem read_region (f : File) (off : Nat) (b : Bytes) (ha : At f.byte off b) (hs : off + b.length ≤ f.size) :
    f.read off b.length = b := by
  rw [File.read_eq_slice f off b.length hs]; exact ha

/-! ### the written file holds every structure of the description -/

theorem Phys.seg_facts (d : Phys) (h : d.WF) (o : Nat) (b : Bytes) (hm : (o, b) ∈ d.segs) :
    At d.file.byte o b ∧ o + b.length ≤ d.file.size := by
  obtain ⟨_, _, _, _, _, _, _, _, _, hd, hi⟩ := h
  exact ⟨at_seg d.segs hd o b hm, hi (o, b) hm⟩

theorem Phys.h1_mem (d : Phys) : (FIRST_HEADER_OFFSET, d.h1.encode) ∈ d.segs := by simp [Phys.segs]
theorem Phys.h2_mem (d : Phys) : (SECOND_HEADER_OFFSET, d.h2.encode) ∈ d.segs := by simp [Phys.segs]
theorem Phys.log_mem (d : Phys) (l : LogSpec) (hl : l ∈ d.logs) : (l.off, l.encode) ∈ d.segs := by
  simp only [Phys.segs, List.mem_cons, List.mem_append, List.mem_map]
  exact .inr (.inr (.inl ⟨l, hl, rfl⟩))
theorem Phys.ot_mem (d : Phys) (t : OTSpec) (ht : t ∈ d.ots) : (t.off, t.encode) ∈ d.segs := by
  simp only [Phys.segs, List.mem_cons, List.mem_append, List.mem_map]
  exact .inr (.inr (.inr (.inl ⟨t, ht, rfl⟩)))
theorem Phys.kt_mem (d : Phys) (k : KTSpec) (hk : k ∈ d.kts) : (k.off, k.encode) ∈ d.segs := by
  simp only [Phys.segs, List.mem_cons, List.mem_append, List.mem_map]
  exact .inr (.inr (.inr (.inr (.inl ⟨k, hk, rfl⟩))))
theorem Phys.blob_mem (d : Phys) (b : Nat × Bytes) (hb : b ∈ d.blobs) : b ∈ d.segs := by
  simp only [Phys.segs, List.mem_cons, List.mem_append, List.mem_map]
  exact .inr (.inr (.inr (.inr (.inr hb))))

theorem Phys.findLog_some (d : Phys) (off : Nat) (l : LogSpec) (h : d.findLog off = some l) : l ∈ d.logs ∧ l.off = off := by
  unfold Phys.findLog at h
  exact ⟨List.mem_of_find?_eq_some h, by simpa using List.find?_some h⟩
theorem Phys.findOT_some (d : Phys) (off : Nat) (t : OTSpec) (h : d.findOT off = some t) : t ∈ d.ots ∧ t.off = off := by
  unfold Phys.findOT at h
  exact ⟨List.mem_of_find?_eq_some h, by simpa using List.find?_some h⟩
theorem Phys.findKT_some (d : Phys) (off : Nat) (k : KTSpec) (h : d.findKT off = some k) : k ∈ d.kts ∧ k.off = off := by
  unfold Phys.findKT at h
  exact ⟨List.mem_of_find?_eq_some h, by simpa using List.find?_some h⟩

theorem Phys.load_ot (d : Phys) (h : d.WF) (off : Nat) (t : OTSpec) (hf : d.findOT off = some t) :
    loadObjectTable d.file off = .ok (t.entries.map ObjSpec.parsed) := by
  obtain ⟨hm, rfl⟩ := d.findOT_some off t hf
  obtain ⟨ha, hs⟩ := d.seg_facts h _ _ (d.ot_mem t hm)
  exact loadObjectTable_encode d.file t (h.2.2.2.2.2.2.2.1 t hm).1 ha hs

theorem Phys.check_log (d : Phys) (h : d.WF) (off : Nat) (hf : (d.findLog off).isSome) : checkReplayLog d.file off = .ok () := by
  cases hl : d.findLog off with
  | none => rw [hl] at hf; cases hf
  | some l =>
    obtain ⟨hm, rfl⟩ := d.findLog_some off l hl
    obtain ⟨ha, hs⟩ := d.seg_facts h _ _ (d.log_mem l hm)
    exact checkReplayLog_encode d.file l (h.2.2.2.2.2.1 l hm) ha hs

theorem Phys.parse_kt (d : Phys) (h : d.WF) (off size : Nat) (k : KTSpec) (hf : d.findKT off = some k) (hsz : k.encode.length = size) :
    parseKeyTable (d.file.read off size) size = .ok k.table := by
  obtain ⟨hm, rfl⟩ := d.findKT_some off k hf
  obtain ⟨ha, hs⟩ := d.seg_facts h _ _ (d.kt_mem k hm)
  subst hsz
  rw [read_region d.file k.off k.encode ha hs]
  exact parseKeyTable_region k (h.2.2.2.2.2.2.2.2.1 k hm)

/-! ### the walk over the bytes is the abstract walk -/

theorem registerAll_snoc (ts : List KeyTable) (t : KeyTable) : registerAll (ts ++ [t]) = register t (registerAll ts) := by
  simp [registerAll, List.foldl_append]

theorem ot_ne : otObjectTable ≠ otKeyTable ∧ otObjectTable ≠ otFile ∧ otObjectTable ≠ otReplayLog ∧ otKeyTable ≠ otFile ∧
    otKeyTable ≠ otReplayLog ∧ otFile ≠ otReplayLog := by decide

theorem stepReg_sim (d : Phys) (h : d.WF) (o : ObjSpec) (e : ObjEntry) (ht : o.typ = e.typ) (hoff : o.offset = e.offset) (hsz : o.size = e.size)
    (hk : o.typ = otKeyTable → match d.findKT o.offset with | some k => k.encode.length = o.size | none => False)
    (hl : o.typ = otReplayLog → (d.findLog o.offset).isSome) (r : Reg) (tabs : List KeyTable) (hr : r.keyTables = registerAll tabs) :
    ∃ r', stepReg d.file e r = .ok r' ∧ r'.keyTables = registerAll (sTabs d o tabs) ∧ r'.fileObjects = sFos o r.fileObjects := by
  obtain ⟨n1, n2, n3, n4, n5, n6⟩ := ot_ne
  unfold stepReg sTabs sFos
  rw [ht, hoff, hsz] at *
  simp only [bind, Except.bind]
  by_cases c1 : e.typ = otKeyTable
  · have hk' := hk c1
    cases hf : d.findKT e.offset with
    | none => rw [hf] at hk'; exact hk'.elim
    | some k =>
      rw [hf] at hk'; simp only [] at hk'
      have p := d.parse_kt h e.offset e.size k hf hk'
      simp only [c1, if_true, p, n4, n5, if_false]
      exact ⟨_, rfl, by rw [registerAll_snoc, hr], rfl⟩
  · rw [if_neg c1, if_neg c1]
    simp only []
    by_cases c2 : e.typ = otFile
    · rw [if_pos c2, if_pos c2]
      simp only []
      rw [if_neg (by rw [c2]; exact n6)]
      exact ⟨_, rfl, hr, rfl⟩
    · rw [if_neg c2, if_neg c2]
      simp only []
      by_cases c3 : e.typ = otReplayLog
      · rw [if_pos c3, d.check_log h e.offset (hl c3)]
        exact ⟨_, rfl, hr, rfl⟩
      · rw [if_neg c3]
        exact ⟨_, rfl, hr, rfl⟩

/-- model walk state vs. abstract walk state -/
def SimW (d : Phys) (w : Walk) (s : SWalk) : Prop :=
  w.visited = s.visited ∧ w.pending = s.pending.map (List.map ObjSpec.parsed) ∧
  w.reg.keyTables = registerAll s.tabs ∧ w.reg.fileObjects = s.fos ∧
  ∀ es ∈ s.pending, ∀ o ∈ es, o.ok ∧ d.refOK o

theorem stepObj_sim (d : Phys) (h : d.WF) (o : ObjSpec) (e : ObjEntry) (ht : o.typ = e.typ) (hoff : o.offset = e.offset)
    (r1 : o.typ = otObjectTable → (d.findOT o.offset).isSome) (w : Walk) (s : SWalk) (hs : SimW d w s) :
    ∃ w1, stepObj d.file e w = .ok w1 ∧
      SimW d w1 (sObj d o s) := by
  obtain ⟨s1, s2, s3, s4, s5⟩ := hs
  unfold stepObj sObj
  rw [ht, hoff] at *
  rw [s1]
  by_cases c : e.typ = otObjectTable ∧ ¬ s.visited.contains e.offset
  · rw [if_pos c, if_pos c]
    cases hf : d.findOT e.offset with
    | none => have := r1 c.1; rw [hf] at this; cases this
    | some t =>
      rw [d.load_ot h e.offset t hf]
      refine ⟨_, rfl, ?_, ?_, s3, s4, ?_⟩
      · rfl
      · simp only [s2, List.map_append, List.map_cons, List.map_nil]
      · intro es hes
        simp only [List.mem_append, List.mem_singleton] at hes
        rcases hes with hes | hes
        · exact s5 es hes
        · subst hes
          have hm := (d.findOT_some e.offset t hf).1
          have := h.2.2.2.2.2.2.2.1 t hm
          exact fun x hx => ⟨this.1.2 x hx, this.2 x hx⟩
  · rw [if_neg c, if_neg c]
    exact ⟨w, rfl, s1, s2, s3, s4, s5⟩

theorem stepEntry_sim (d : Phys) (h : d.WF) (o : ObjSpec) (hr : d.refOK o) (w : Walk) (s : SWalk) (hs : SimW d w s) :
    ∃ w', stepEntry d.file o.parsed w = .ok w' ∧ SimW d w' (sStepEntry d o s) := by
  generalize he : o.parsed = e
  have ht : o.typ = e.typ := by rw [← he]; rfl
  have hoff : o.offset = e.offset := by rw [← he]; rfl
  have hsz : o.size = e.size := by rw [← he]; rfl
  have hal : o.allocated = e.allocated := by rw [← he]; rfl
  unfold stepEntry sStepEntry
  by_cases c0 : e.allocated = 0
  · rw [if_pos c0, if_pos (by rw [hal]; exact c0)]
    exact ⟨w, rfl, hs⟩
  · rw [if_neg c0, if_neg (by rw [hal]; exact c0)]
    rcases hr with hr | ⟨r1, r2, r3⟩
    · exact absurd (hal ▸ hr) c0
    · obtain ⟨w1, e1, q1, q2, q3, q4, q5⟩ := stepObj_sim d h o e ht hoff r1 w s hs
      rw [e1]
      simp only []
      obtain ⟨r', e3, e4, e5⟩ := stepReg_sim d h o e ht hoff hsz r2 r3 w1.reg _ q3
      rw [e3]
      simp only []
      exact ⟨_, rfl, q1, q2, e4, by rw [e5, q4], q5⟩

theorem stepEntries_sim (d : Phys) (h : d.WF) : ∀ (es : List ObjSpec), (∀ o ∈ es, d.refOK o) → ∀ (w : Walk) (s : SWalk), SimW d w s →
    ∃ w', stepEntries d.file (es.map ObjSpec.parsed) w = .ok w' ∧ SimW d w' (sStepEntries d es s) := by
  intro es
  induction es with
  | nil => intro _ w s hs; exact ⟨w, rfl, hs⟩
  | cons o r ih =>
    intro hr w s hs
    obtain ⟨w1, e1, q⟩ := stepEntry_sim d h o (hr o (by simp)) w s hs
    simp only [List.map_cons, stepEntries, e1, sStepEntries]
    exact ih (fun x hx => hr x (by simp [hx])) w1 _ q

/-- the object-table walk over the written file, as far as the fuel goes, is the abstract walk -/
theorem walkTables_sim (d : Phys) (h : d.WF) : ∀ (fuel : Nat) (w : Walk) (s : SWalk), SimW d w s →
    walkTables d.file fuel w = .error .nonTermination ∨
    ∃ reg, walkTables d.file fuel w = .ok reg ∧ reg.keyTables = registerAll (sWalk d fuel s).tabs ∧ reg.fileObjects = (sWalk d fuel s).fos := by
  intro fuel
  induction fuel with
  | zero =>
    intro w s hs
    obtain ⟨s1, s2, s3, s4, s5⟩ := hs
    unfold walkTables sWalk
    cases hp : w.pending with
    | nil => exact .inr ⟨w.reg, rfl, s3, s4⟩
    | cons a r => exact .inl rfl
  | succ fuel ih =>
    intro w s hs
    obtain ⟨s1, s2, s3, s4, s5⟩ := hs
    unfold walkTables sWalk
    cases hsp : s.pending with
    | nil =>
      rw [hsp] at s2
      simp only [List.map_nil] at s2
      rw [s2]
      exact .inr ⟨w.reg, rfl, s3, s4⟩
    | cons ses srest =>
      rw [hsp] at s2 s5
      simp only [List.map_cons] at s2
      rw [s2]
      simp only []
      have hs0 : SimW d { w with pending := srest.map (List.map ObjSpec.parsed) } { s with pending := srest } :=
        ⟨s1, rfl, s3, s4, fun es hes => s5 es (by simp [hes])⟩
      obtain ⟨w', e1, q⟩ := stepEntries_sim d h ses (fun o ho => (s5 ses (by simp) o ho).2) _ _ hs0
      rw [e1]
      exact ih w' _ q

/-- **load of a written file**: for every well-formed physical description, `HyperVFile.__init__` up to the linking
    phase succeeds on the written bytes and registers exactly the key tables the abstract walk meets (in that order,
    i.e. `registerAll`) and exactly its File objects -/
theorem load_encode (d : Phys) (h : d.WF) :
    ∃ reg, load d.file = .ok reg ∧ reg.keyTables = registerAll d.regTables ∧ reg.fileObjects = d.regFos := by
  have hw := h
  obtain ⟨k1, k2, a1, a2, a3, _, a5, a6, _, _, _⟩ := hw
  obtain ⟨ha1, hs1⟩ := d.seg_facts h _ _ d.h1_mem
  obtain ⟨ha2, hs2⟩ := d.seg_facts h _ _ d.h2_mem
  rw [HdrSpec.encode_length] at hs1 hs2
  have p1 := parseHeader_encode d.file FIRST_HEADER_OFFSET d.h1 k1 ha1 hs1
  have p2 := parseHeader_encode d.file SECOND_HEADER_OFFSET d.h2 k2 ha2 hs2
  have hch : chooseHeader { signature := d.h1.sig, seq := d.h1.seq, version := d.h1.version, replayLogOffset := d.h1.logOff }
      { signature := d.h2.sig, seq := d.h2.seq, version := d.h2.version, replayLogOffset := d.h2.logOff } =
      { signature := d.active.sig, seq := d.active.seq, version := d.active.version, replayLogOffset := d.active.logOff } := by
    unfold chooseHeader Phys.active
    simp only []
    split <;> rfl
  cases hot : d.findOT OBJECT_TABLE_OFFSET with
  | none => rw [hot] at a5; cases a5
  | some t0 =>
    have hterm := load_terminates d.file
    unfold load at hterm ⊢
    rw [p1, p2] at hterm ⊢
    simp only [bind, Except.bind, hch, a1, a2, ne_eq, not_true_eq_false, if_false, d.check_log h _ a3, d.load_ot h _ t0 hot] at hterm ⊢
    have hs0 : SimW d { visited := [OBJECT_TABLE_OFFSET], pending := [t0.entries.map ObjSpec.parsed], reg := {} }
        { visited := [OBJECT_TABLE_OFFSET], pending := [t0.entries], tabs := [], fos := [] } := by
      refine ⟨rfl, rfl, rfl, rfl, ?_⟩
      intro es hes o ho
      simp only [List.mem_singleton] at hes
      subst hes
      have := a6 t0 (d.findOT_some _ t0 hot).1
      exact ⟨this.1.2 o ho, this.2 o ho⟩
    rcases walkTables_sim d h (walkFuel d.file) _ _ hs0 with hn | ⟨reg, e, q1, q2⟩
    · exact absurd hn hterm
    · refine ⟨reg, e, ?_, ?_⟩
      · rw [q1]; unfold Phys.regTables Phys.walk; rw [hot]; rfl
      · rw [q2]; unfold Phys.regFos Phys.walk; rw [hot]; rfl

/-! ### from the declarative description to `Encodes` -/

theorem Phys.read_blob (d : Phys) (h : d.WF) (b : Nat × Bytes) (hb : b ∈ d.blobs) (m : Nat) (hm : m ≤ b.2.length) :
    d.file.read b.1 m = b.2.take m := by
  obtain ⟨ha, hs⟩ := d.seg_facts h b.1 b.2 (d.blob_mem b hb)
  rw [File.read_eq_slice d.file b.1 m (by omega)]
  have := ha.sub 0 m (by omega)
  simpa using this

theorem keyOf_of_stored (e : Entry) (k : Bytes) (h1 : storedKey e = k) (h2 : validUtf8 k = true) : keyOf e = .ok k := by
  unfold storedKey at h1
  simp only [keyOf, h1, h2, if_true]

theorem leNat_lt (l : Bytes) : leNat l < 256 ^ l.length := by
  induction l with
  | nil => simp [leNat]
  | cons b r ih =>
    have hb : b.toNat < 256 := UInt8.toNat_lt b
    simp only [leNat, List.length_cons, Nat.pow_succ]
    omega

theorem leBytes_leNat (l : Bytes) : leBytes l.length (leNat l) = l := by
  induction l with
  | nil => rfl
  | cons b r ih =>
    have hb : b.toNat < 256 := UInt8.toNat_lt b
    simp only [leNat, List.length_cons, leBytes]
    have h1 : (b.toNat + 256 * leNat r) % 256 = b.toNat := by omega
    have h2 : (b.toNat + 256 * leNat r) / 256 = leNat r := by omega
    rw [h1, h2, ih]
    simp

/-- a declaratively stored value is what `.value` returns on the written file -/
theorem storesb_sound (d : Phys) (h : d.WF) (fos : List (Nat × Nat)) (e : Entry) (v : Value)
    (hs : storesb d.blobs fos e v = true) : valueOf d.file fos e = .ok v := by
  unfold storesb at hs
  simp only [Bool.and_eq_true, decide_eq_true_eq] at hs
  obtain ⟨⟨hkind, hr⟩, hrest⟩ := hs
  unfold valueOf entryData
  cases hfo : e.isFo with
  | false =>
    rw [hfo] at hrest
    simp only [Bool.false_eq_true, if_false] at hrest ⊢
    rw [hkind]
    have generic : ∀ w : Value, (e.body.drop e.dataOffset).take (encodeValue w).length = encodeValue w → w.inRange →
        decodeValue w.typ false (e.body.drop e.dataOffset) = .ok w := by
      intro w hw hrw
      have hp : e.body.drop e.dataOffset = encodeValue w ++ (e.body.drop e.dataOffset).drop (encodeValue w).length := by
        conv => lhs; rw [← List.take_append_drop (encodeValue w).length (e.body.drop e.dataOffset), hw]
      rw [hp]
      exact decodeValue_encodeValue w hrw _
    cases v with
    | bool b =>
      simp only [Bool.and_eq_true, decide_eq_true_eq, beq_iff_eq] at hrest
      obtain ⟨h4, hb⟩ := hrest
      have hp : e.body.drop e.dataOffset = leBytes 4 (leNat ((e.body.drop e.dataOffset).take 4)) ++ (e.body.drop e.dataOffset).drop 4 := by
        have e4 := leBytes_leNat ((e.body.drop e.dataOffset).take 4)
        rw [h4] at e4
        rw [e4, List.take_append_drop]
      have hlt := leNat_lt ((e.body.drop e.dataOffset).take 4)
      rw [h4] at hlt
      rw [hp]
      have := decodeValue_bool_raw (leNat ((e.body.drop e.dataOffset).take 4)) (by simpa using hlt) ((e.body.drop e.dataOffset).drop 4)
      rw [hb] at this
      exact this
    | int x => exact generic _ (by simpa using hrest) hr
    | uint x => exact generic _ (by simpa using hrest) hr
    | double x => exact generic _ (by simpa using hrest) hr
    | str x => exact generic _ (by simpa using hrest) hr
    | bytes x => exact generic _ (by simpa using hrest) hr
  | true =>
    rw [hfo] at hrest
    simp only [if_true, Bool.and_eq_true, decide_eq_true_eq] at hrest
    obtain ⟨⟨hsv, hlen⟩, ho, hlk⟩ := hrest
    cases hl : fos.lookup (leNat (((e.body.drop e.dataOffset).drop 4).take 8)) with
    | none => rw [hl] at hlk; cases hlk
    | some osz =>
      rw [hl] at hlk
      simp only [List.any_eq_true, Bool.and_eq_true, beq_iff_eq, decide_eq_true_eq] at hlk
      obtain ⟨b, hb, ⟨hb1, hb2⟩, hb3⟩ := hlk
      simp only [if_true, hlen, ne_eq, not_true_eq_false, if_false, hl]
      rw [if_neg (by omega), ← hb1, d.read_blob h b hb _ hb2, hb3, hkind]
      cases v with
      | str us => exact decodeValue_fo_str us hr.1 hr.2.1
      | bytes bs => exact decodeValue_fo_bytes bs
      | int _ => cases hsv
      | uint _ => cases hsv
      | double _ => cases hsv
      | bool _ => cases hsv

mutual
theorem encTb_sound (d : Phys) (h : d.WF) (fos : List (Nat × Nat)) (all : List (Nat × Entry)) :
    ∀ (t : Tree) (ie : Nat × Entry), encTb d.blobs fos all t ie = true → EncT d.file fos all t ie
  | .leaf v, ie, hb => by
    simp only [encTb, Bool.and_eq_true, decide_eq_true_eq] at hb
    simp only [EncT]
    exact ⟨hb.1, storesb_sound d h fos ie.2 v hb.2⟩
  | .node cs, ie, hb => by
    simp only [encTb, Bool.and_eq_true, decide_eq_true_eq] at hb
    simp only [EncT]
    exact ⟨hb.1.1, hb.1.2, encLb_sound d h fos all cs _ hb.2⟩
theorem encLb_sound (d : Phys) (h : d.WF) (fos : List (Nat × Nat)) (all : List (Nat × Entry)) :
    ∀ (cs : List (Bytes × Tree)) (ies : List (Nat × Entry)), encTb.encLb d.blobs fos all cs ies = true → EncT.EncL d.file fos all cs ies
  | [], ies, hb => by
    simp only [encTb.encLb, List.isEmpty_iff] at hb
    simp only [EncT.EncL]
    exact hb
  | (k, t) :: cs, [], hb => by simp [encTb.encLb] at hb
  | (k, t) :: cs, ie :: rest, hb => by
    simp only [encTb.encLb, Bool.and_eq_true, decide_eq_true_eq] at hb
    simp only [EncT.EncL]
    exact ⟨ie, rest, rfl, keyOf_of_stored ie.2 k hb.1.1.1 hb.1.1.2, encTb_sound d h fos all t ie hb.1.2, encLb_sound d h fos all cs rest hb.2⟩
end

/-- **a well-formed description is encoded by the written file** -/
theorem desc_encodes (d : Desc) (h : d.WF) :
    Encodes { tables := d.phys.regTables, act := d.act, fos := d.phys.regFos } d.cs d.file := by
  obtain ⟨hp, hact, hlink, hnd, henc⟩ := h
  obtain ⟨reg, e1, e2, e3⟩ := load_encode d.phys hp
  refine ⟨⟨reg, e1, e2, e3⟩, hact, ?_, hnd, encLb_sound d.phys hp _ _ _ _ henc⟩
  intro ie hie
  obtain ⟨a, b⟩ := hlink ie hie
  exact ⟨a, storedKey ie.2, keyOf_of_stored ie.2 _ rfl b⟩

theorem rootsAreNodes_spec (d : Desc) (h : d.rootsAreNodes = true) : ∀ kt ∈ d.cs, ∃ cs', kt.2 = .node cs' := by
  intro kt hkt
  unfold Desc.rootsAreNodes at h
  have := List.all_eq_true.1 h kt hkt
  cases hk : kt.2 with
  | node cs' => exact ⟨cs', rfl⟩
  | leaf v => rw [hk] at this; simp [isNode] at this

/-! ### a concrete description for the non-vacuity examples (the tables of `exFile`, laid out by the writer) -/

/-- second header active; object table 0 lists the active table of index 1, the table of index 2, a second object table
    and itself; object table 1 lists the File object, the stale copy of index 1 (registered *after* the active one), the
    same copy unallocated, a replay log and a Free entry pointing nowhere -/
def exDesc : Desc :=
  { phys :=
      { h1 := ⟨SIGNATURE_STORAGE_HEADER, 0, 1, VERSION, 0, 0x1000, 0x3000, 0x1000, 0x1000⟩
        h2 := ⟨SIGNATURE_STORAGE_HEADER, 7, 2, VERSION, 0, 0x1000, 0x3000, 0x1000, 0x1000⟩
        logs := [⟨0x3000, 0, 1, zeros 22 ++ List.replicate 28 0xAB ++ [1, 2, 3]⟩]
        ots := [⟨0x2000, [⟨otKeyTable, 0, 0x4000, KTH + totalSize exT1, 1⟩, ⟨otKeyTable, 5, 0x6000, KTH + totalSize exT2 + EH + 3, 1⟩,
                          ⟨otObjectTable, 0, 0x2400, 98, 1⟩, ⟨otObjectTable, 0, 0x2000, 80, 1⟩]⟩,
                ⟨0x2400, [⟨otFile, 0, 0x7000, 0x1000, 1⟩, ⟨otKeyTable, 0, 0x5000, KTH + totalSize exT1old, 2⟩,
                          ⟨otKeyTable, 0, 0x5000, KTH + totalSize exT1old, 0⟩, ⟨otReplayLog, 0, 0x3000, 34, 1⟩, ⟨4, 9, 2 ^ 40, 7, 1⟩]⟩]
        kts := [⟨0x4000, 1, 5, 0, exT1, none⟩, ⟨0x5000, 1, 1, 0, exT1old, none⟩, ⟨0x6000, 2, 9, 0xFFFF, exT2, some [9, 9, 9]⟩]
        blobs := [(0x7000, unitsBytes [104, 105] ++ [0xEE, 0xEE])]
        size := 0x8000 }
    cs := [([99, 102, 103], .node [([110], .leaf (.int (-5))), ([117], .leaf (.uint (2 ^ 64 - 1))), ([115], .leaf (.str [104, 105])),
             ([98], .leaf (.bool true)), ([100], .leaf (.double 0x7FF8000000000001))])] }

end Hv.HyperV
