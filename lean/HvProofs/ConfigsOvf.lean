/-
  HvProofs.ConfigsOvf — `OVF.__init__` / `OVF.disks` (model `Hv.Configs.ovfDisks`) against the pointwise
  specification `Hv.ConfigsSpec.ovfSpec` (property C18, theorem `ovf_disks_exact`).
-/
import HvProofs.Configs
import Hv.ConfigsSpec
namespace Hv.Configs
open Hv.XPath Hv.ConfigsSpec

/-! ## dictionaries filled by a loop of assignments -/

section fold
variable {α κ β : Type} [DecidableEq κ]

/-- the last element satisfying `p` -/
def lastBy (p : α → Bool) : List α → Option α
  | [] => none
  | a :: t => match lastBy p t with
    | some x => some x
    | none => if p a then some a else none

theorem aget_foldl_aset (key : α → κ) (val : α → β) (l : List α) (d : List (κ × β)) (k : κ) :
    aget k (l.foldl (fun d a => aset (key a) (val a) d) d) =
      (match lastBy (fun a => decide (key a = k)) l with
       | some a => some (val a)
       | none => aget k d) := by
  induction l generalizing d with
  | nil => rfl
  | cons a t ih =>
    simp only [List.foldl_cons, ih, lastBy]
    cases h : lastBy (fun a => decide (key a = k)) t with
    | some x => rfl
    | none =>
      simp only [aget_aset]
      by_cases hk : key a = k <;> simp [hk]

theorem lastBy_eq_none (p : α → Bool) (l : List α) (h : ∀ a ∈ l, p a = false) : lastBy p l = none := by
  induction l with
  | nil => rfl
  | cons a t ih =>
    simp only [lastBy, ih (fun b hb => h b (List.mem_cons_of_mem _ hb)), h a (List.mem_cons_self ..)]
    rfl

/-- with pairwise distinct keys the last assignment of a key is the only one -/
theorem lastBy_eq_find? (key : α → κ) (l : List α) (hn : (l.map key).Nodup) (k : κ) :
    lastBy (fun a => decide (key a = k)) l = l.find? (fun a => decide (key a = k)) := by
  induction l with
  | nil => rfl
  | cons a t ih =>
    simp only [List.map_cons, List.nodup_cons] at hn
    rw [lastBy, ih hn.2, List.find?_cons]
    by_cases hk : key a = k
    · have hnone : t.find? (fun a => decide (key a = k)) = none := by
        rw [List.find?_eq_none]
        intro b hb
        simp only [decide_eq_true_eq]
        intro e
        exact hn.1 (List.mem_map.2 ⟨b, hb, by rw [e, hk]⟩)
      simp [hnone, hk]
    · simp only [hk, decide_false]
      cases t.find? (fun a => decide (key a = k)) <;> rfl

end fold

/-! ## prefixes and path segments -/

theorem dropPrefix?_append (p r : Str) : dropPrefix? p (p ++ r) = some r := by
  induction p with
  | nil => cases r <;> rfl
  | cons a p ih => simp [dropPrefix?, ih]

theorem dropPrefix?_eq_some {p s r : Str} (h : dropPrefix? p s = some r) : s = p ++ r := by
  induction p generalizing s with
  | nil => cases s <;> simp [dropPrefix?] at h <;> simp [h]
  | cons a p ih =>
    cases s with
    | nil => simp [dropPrefix?] at h
    | cons b s =>
      simp only [dropPrefix?] at h
      split at h
      · rename_i e; subst e; rw [ih h]; rfl
      · cases h

theorem isPrefixOf_eq_dropPrefix (p s : Str) : p.isPrefixOf s = (dropPrefix? p s).isSome := by
  induction p generalizing s with
  | nil => cases s <;> rfl
  | cons a p ih =>
    cases s with
    | nil => rfl
    | cons b s =>
      simp only [List.isPrefixOf, dropPrefix?]
      by_cases e : a = b
      · simp [e, ih]
      · simp [e]

theorem removePrefix_eq (p s : Str) : removePrefix p s = (dropPrefix? p s).getD s := by
  unfold removePrefix
  rw [isPrefixOf_eq_dropPrefix]
  cases h : dropPrefix? p s with
  | none => rfl
  | some r =>
    have := dropPrefix?_eq_some h
    subst this
    simp

theorem splitOn_no_sep (sep : Char) (b : Str) (h : sep ∉ b) : splitOn sep b = [b] := by
  induction b with
  | nil => rfl
  | cons c cs ih =>
    have hc : c ≠ sep := fun e => h (e ▸ List.mem_cons_self ..)
    have hcs : sep ∉ cs := fun e => h (List.mem_cons_of_mem _ e)
    simp [splitOn, ih hcs, hc]

theorem splitOn_append_sep (sep : Char) (a b : Str) (h : sep ∉ b) :
    ∃ p0 pre, splitOn sep (a ++ sep :: b) = (p0 :: pre) ++ [b] := by
  induction a with
  | nil => exact ⟨[], [], by simp [splitOn, splitOn_no_sep sep b h]⟩
  | cons c a ih =>
    obtain ⟨p0, pre, e⟩ := ih
    by_cases hc : c = sep
    · exact ⟨[], p0 :: pre, by simp [splitOn, e, hc]⟩
    · exact ⟨c :: p0, pre, by simp [splitOn, e, hc]⟩

/-- `(a + sep + b).split(sep)[-1] == b` when `b` has no separator -/
theorem lastSeg_append_sep (sep : Char) (a b : Str) (h : sep ∉ b) : lastSeg sep (a ++ sep :: b) = b := by
  obtain ⟨p0, pre, e⟩ := splitOn_append_sep sep a b h
  unfold lastSeg
  rw [e, List.getLastD_eq_getLast?, List.getLast?_append]
  simp

/-! ## the extracted OVF configuration = the strings of the specification -/

theorem ovfCfg_steps :
    ovfCfg.fileSteps = [.child tReferences, .child tFile]
    ∧ ovfCfg.diskSteps = [.child tDiskSection, .child tDisk]
    ∧ ovfCfg.driveSteps = [.child tVirtualSystem, .child tVirtualHardwareSection, .child tItem,
        .childText tResourceType "17".toList]
    ∧ ovfCfg.hostResSteps = [.child tHostResource] := ⟨rfl, rfl, rfl, rfl⟩

theorem ovfCfg_attrs :
    ovfCfg.aId = idAttr ∧ ovfCfg.aHref = hrefAttr ∧ ovfCfg.aDiskId = diskIdAttr ∧ ovfCfg.aFileRef = fileRefAttr := ⟨rfl, rfl, rfl, rfl⟩

theorem ovfCfg_lits :
    ovfCfg.pfx = "ovf:".toList ∧ ovfCfg.pDisk = "/disk".toList ++ ['/'] ∧ ovfCfg.pFile = "/file".toList ++ ['/']
    ∧ ovfCfg.slash1 = '/' ∧ ovfCfg.slash2 = '/' := by decide

theorem findall_child1 (a : Str) (e : Xml) : findall [.child a] e = some (kids a e) := by
  simp only [findall, run, select, List.flatMap_cons, List.flatMap_nil, List.append_nil]; rfl

theorem findall_child2 (a b : Str) (e : Xml) : findall [.child a, .child b] e = some ((kids a e).flatMap (kids b)) := by
  simp only [findall, run, select, List.flatMap_cons, List.flatMap_nil, List.append_nil]; rfl

theorem findall_drive (a b c t v : Str) (e : Xml) :
    findall [.child a, .child b, .child c, .childText t v] e =
      some ((((kids a e).flatMap (kids b)).flatMap (kids c)).filter (fun x => (kids t x).any (fun y => y.itertext = v))) := by
  simp only [findall, run, select, List.flatMap_cons, List.flatMap_nil, List.append_nil]; rfl

theorem nodup_of_nodupb {α : Type} [DecidableEq α] (l : List α) (h : nodupb l = true) : l.Nodup := by
  induction l with
  | nil => exact List.nodup_nil
  | cons a t ih =>
    simp only [nodupb, Bool.and_eq_true, Bool.not_eq_true', List.contains_eq_mem, decide_eq_false_iff_not] at h
    exact List.nodup_cons.2 ⟨h.1, ih h.2⟩

/-! ## `self.references` and `self._disks` -/

/-- `self.references.get(id)`: the href attribute of the `File` carrying the id -/
theorem refs_lookup (fs : List Xml) (hn : (fs.map (fun f => f.get idAttr)).Nodup) (k : Option Str) :
    aget k (ovfRefs ovfCfg fs) =
      (match fs.find? (fun f => decide (f.get idAttr = k)) with
       | some f => some (f.get hrefAttr)
       | none => none) := by
  unfold ovfRefs
  rw [ovfCfg_attrs.1, ovfCfg_attrs.2.1, aget_foldl_aset (fun f : Xml => f.get idAttr) (fun f : Xml => f.get hrefAttr),
    lastBy_eq_find? (fun f : Xml => f.get idAttr) fs hn k]
  cases fs.find? (fun f => decide (f.get idAttr = k)) <;> rfl

/-- the loop filling `self._disks` does not raise when every `fileRef` is a key of `self.references` -/
theorem diskMap_eq (refs : ODict) (ds : List Xml) (d : ODict)
    (h : ∀ e ∈ ds, (aget (e.get fileRefAttr) refs).isSome = true) :
    ovfDiskMap ovfCfg refs ds d =
      some (ds.foldl (fun d e => aset (e.get diskIdAttr) ((aget (e.get fileRefAttr) refs).getD none) d) d) := by
  induction ds generalizing d with
  | nil => rfl
  | cons e es ih =>
    have he := h e (List.mem_cons_self ..)
    obtain ⟨v, hv⟩ := Option.isSome_iff_exists.1 he
    rw [ovfDiskMap, ovfCfg_attrs.2.2.2, ovfCfg_attrs.2.2.1, hv]
    simp only
    rw [← ovfCfg_attrs.2.2.2, ← ovfCfg_attrs.2.2.1, ih _ (fun x hx => h x (List.mem_cons_of_mem _ hx))]
    simp only [List.foldl_cons, ovfCfg_attrs.2.2.2, ovfCfg_attrs.2.2.1, hv, Option.getD_some]

theorem dmap_lookup (refs : ODict) (ds : List Xml) (hn : (ds.map (fun d => d.get diskIdAttr)).Nodup) (k : Option Str) :
    aget k (ds.foldl (fun d e => aset (e.get diskIdAttr) ((aget (e.get fileRefAttr) refs).getD none) d) []) =
      (match ds.find? (fun d => decide (d.get diskIdAttr = k)) with
       | some d => some ((aget (d.get fileRefAttr) refs).getD none)
       | none => none) := by
  rw [aget_foldl_aset (fun d : Xml => d.get diskIdAttr) (fun d : Xml => (aget (d.get fileRefAttr) refs).getD none),
    lastBy_eq_find? (fun d : Xml => d.get diskIdAttr) ds hn k]
  cases ds.find? (fun d => decide (d.get diskIdAttr = k)) <;> rfl

theorem find?_of_hasId (attr : Str) (l : List Xml) (id : Str) (h : hasId attr l id = true) :
    ∃ e, l.find? (fun e => decide (e.get attr = some id)) = some e ∧ e ∈ l ∧ e.get attr = some id := by
  unfold hasId at h
  obtain ⟨e, he, hp⟩ := List.any_eq_true.1 h
  cases hf : l.find? (fun e => decide (e.get attr = some id)) with
  | none =>
    rw [List.find?_eq_none] at hf
    exact absurd hp (hf e he)
  | some x =>
    exact ⟨x, rfl, List.mem_of_find?_eq_some hf, by simpa using List.find?_some hf⟩

/-! ## one hard-disk item -/

theorem notContains_iff (id : Str) (c : Char) (h : (!id.contains c) = true) : c ∉ id := by
  simpa using h

/-- the code's string handling of a `HostResource` text agrees with `hostTarget` on identifiers without `/` -/
theorem resolve_text (refs dmap : ODict) (it r : Xml) (rest : List Xml) (x : Str)
    (hk : kids tHostResource it = r :: rest) (hx : r.text = some x) :
    ovfResolve ovfCfg refs dmap it =
      (match hostTarget x with
       | some (true, id) => if '/' ∈ id then ovfResolve ovfCfg refs dmap it else aget (some id) dmap
       | some (false, id) => if '/' ∈ id then ovfResolve ovfCfg refs dmap it else aget (some id) refs
       | none => none) := by
  have hd : "/disk/".toList = "/disk".toList ++ ['/'] := by decide
  have hf : "/file/".toList = "/file".toList ++ ['/'] := by decide
  unfold ovfResolve
  rw [ovfCfg_steps.2.2.2, findall_child1, hk]
  simp only [hx, ovfCfg_lits.1, ovfCfg_lits.2.1, ovfCfg_lits.2.2.1, ovfCfg_lits.2.2.2.1, ovfCfg_lits.2.2.2.2,
    removePrefix_eq, isPrefixOf_eq_dropPrefix]
  unfold hostTarget
  simp only [hd, hf]
  cases h1 : dropPrefix? ("/disk".toList ++ ['/']) ((dropPrefix? "ovf:".toList x).getD x) with
  | some id =>
    simp only [Option.isSome_some, if_true]
    split
    · rfl
    · rename_i hs
      have := dropPrefix?_eq_some h1
      rw [this, List.append_assoc]
      rw [show (['/'] ++ id : Str) = '/' :: id from rfl, lastSeg_append_sep '/' _ id hs]
  | none =>
    simp only [Option.isSome_none, Bool.false_eq_true, if_false]
    cases h2 : dropPrefix? ("/file".toList ++ ['/']) ((dropPrefix? "ovf:".toList x).getD x) with
    | some id =>
      simp only [Option.isSome_some, if_true]
      split
      · rfl
      · rename_i hs
        have := dropPrefix?_eq_some h2
        rw [this, List.append_assoc]
        rw [show (['/'] ++ id : Str) = '/' :: id from rfl, lastSeg_append_sep '/' _ id hs]
    | none => simp

/-- the facts `ovfWfb` packs -/
structure OvfWF (root : Xml) : Prop where
  fileAttrs : ∀ f ∈ fileEls root, (f.get idAttr).isSome = true ∧ (f.get hrefAttr).isSome = true
  fileIds : ((fileEls root).map (fun f => f.get idAttr)).Nodup
  diskAttrs : ∀ d ∈ diskEls root, (d.get diskIdAttr).isSome = true ∧
    ∃ r, d.get fileRefAttr = some r ∧ hasId idAttr (fileEls root) r = true
  diskIds : ((diskEls root).map (fun d => d.get diskIdAttr)).Nodup
  items : ∀ it ∈ driveItems root, ∃ x, hostText it = some x ∧
    ((∃ id, hostTarget x = some (true, id) ∧ '/' ∉ id ∧ hasId diskIdAttr (diskEls root) id = true) ∨
     (∃ id, hostTarget x = some (false, id) ∧ '/' ∉ id ∧ hasId idAttr (fileEls root) id = true))

theorem ovfWF_of_wfb (root : Xml) (h : ovfWfb root = true) : OvfWF root := by
  simp only [ovfWfb, Bool.and_eq_true, List.all_eq_true] at h
  obtain ⟨⟨⟨⟨h1, h2⟩, h3⟩, h4⟩, h5⟩ := h
  refine ⟨h1, nodup_of_nodupb _ h2, fun d hd => ?_, nodup_of_nodupb _ h4, fun it hit => ?_⟩
  · have := h3 d hd
    refine ⟨this.1, ?_⟩
    cases hr : d.get fileRefAttr with
    | none => rw [hr] at this; simp at this
    | some r => rw [hr] at this; exact ⟨r, rfl, this.2⟩
  · have := h5 it hit
    cases hx : hostText it with
    | none => rw [hx] at this; cases this
    | some x =>
      rw [hx] at this
      dsimp only at this
      refine ⟨x, rfl, ?_⟩
      cases ht : hostTarget x with
      | none => rw [ht] at this; cases this
      | some bi =>
        obtain ⟨b, id⟩ := bi
        rw [ht] at this
        cases b with
        | true =>
          simp only [Bool.and_eq_true] at this
          exact .inl ⟨id, rfl, notContains_iff id '/' this.1, this.2⟩
        | false =>
          simp only [Bool.and_eq_true] at this
          exact .inr ⟨id, rfl, notContains_iff id '/' this.1, this.2⟩

/-- look-up of a `File` id that exists: code and specification agree, and the result is an href -/
theorem file_lookup (root : Xml) (w : OvfWF root) (id : Str) (h : hasId idAttr (fileEls root) id = true) :
    ∃ href, aget (some id) (ovfRefs ovfCfg (fileEls root)) = some (some href) ∧ fileHref (fileEls root) id = some href := by
  obtain ⟨f, hf, hmem, _⟩ := find?_of_hasId idAttr (fileEls root) id h
  obtain ⟨href, hh⟩ := Option.isSome_iff_exists.1 (w.fileAttrs f hmem).2
  refine ⟨href, ?_, ?_⟩
  · rw [refs_lookup _ w.fileIds, hf]; dsimp only; rw [hh]
  · unfold fileHref; rw [hf]; dsimp only; rw [hh]

theorem resolve_item (root : Xml) (w : OvfWF root) (it : Xml) (hit : it ∈ driveItems root) :
    ∃ href, ovfResolve ovfCfg (ovfRefs ovfCfg (fileEls root))
        ((diskEls root).foldl (fun d e => aset (e.get diskIdAttr)
          ((aget (e.get fileRefAttr) (ovfRefs ovfCfg (fileEls root))).getD none) d) []) it = some (some href)
      ∧ itemHref (fileEls root) (diskEls root) it = some href := by
  obtain ⟨x, hx, hcase⟩ := w.items it hit
  have hk : ∃ r rest, kids tHostResource it = r :: rest ∧ r.text = some x := by
    unfold hostText at hx
    cases hk : kids tHostResource it with
    | nil => rw [hk] at hx; cases hx
    | cons r rest => rw [hk] at hx; exact ⟨r, rest, rfl, hx⟩
  obtain ⟨r, rest, hk, hr⟩ := hk
  rw [resolve_text _ _ it r rest x hk hr]
  unfold itemHref
  rw [hx]
  rcases hcase with ⟨id, ht, hs, hid⟩ | ⟨id, ht, hs, hid⟩
  · simp only [ht, hs, if_false]
    obtain ⟨d, hd, hdm, _⟩ := find?_of_hasId diskIdAttr (diskEls root) id hid
    obtain ⟨_, ref, href, hrid⟩ := w.diskAttrs d hdm
    obtain ⟨h, h1, h2⟩ := file_lookup root w ref hrid
    refine ⟨h, ?_, ?_⟩
    · rw [dmap_lookup _ _ w.diskIds, hd]; dsimp only; rw [href, h1]; rfl
    · unfold diskFileRef; rw [hd]; dsimp only; rw [href]; exact h2
  · simp only [ht, hs, if_false]
    exact file_lookup root w id hid

theorem filterMap_eq_map_of_some {α β : Type} (f : α → Option β) (g : α → β) (l : List α)
    (h : ∀ a ∈ l, f a = some (g a)) : l.filterMap f = l.map g := by
  induction l with
  | nil => rfl
  | cons a t ih =>
    rw [List.filterMap_cons, h a (List.mem_cons_self ..), ih (fun b hb => h b (List.mem_cons_of_mem _ hb))]; rfl

/-- **OVF.disks on a well-formed envelope** -/
theorem ovfDisks_eq_spec (root : Xml) (h : ovfWfb root = true) :
    ovfDisks ovfCfg root = some ((ovfSpec root).map some) := by
  have w := ovfWF_of_wfb root h
  unfold ovfDisks
  rw [ovfCfg_steps.1, findall_child2, ovfCfg_steps.2.1, findall_child2, ovfCfg_steps.2.2.1, findall_drive]
  show (match ovfDiskMap ovfCfg (ovfRefs ovfCfg (fileEls root)) (diskEls root) [] with
    | none => none
    | some dmap => mapMOpt (ovfResolve ovfCfg (ovfRefs ovfCfg (fileEls root)) dmap) (driveItems root)) = _
  rw [diskMap_eq]
  · simp only
    -- choose the href of every hard-disk item
    have hall := resolve_item root w
    let g : Xml → Str := fun it => (itemHref (fileEls root) (diskEls root) it).getD []
    have hg : ∀ it ∈ driveItems root, itemHref (fileEls root) (diskEls root) it = some (g it) := by
      intro it hit
      obtain ⟨href, _, h2⟩ := hall it hit
      simp only [g, h2, Option.getD_some]
    rw [mapMOpt_eq_some_map _ (fun it => some (g it))]
    · unfold ovfSpec
      rw [filterMap_eq_map_of_some _ g _ hg, List.map_map]; rfl
    · intro it hit
      obtain ⟨href, h1, h2⟩ := hall it hit
      rw [h1]
      have := hg it hit
      rw [h2] at this
      cases this; rfl
  · intro d hd
    obtain ⟨_, ref, href, hrid⟩ := w.diskAttrs d hd
    obtain ⟨hh, h1, _⟩ := file_lookup root w ref hrid
    rw [href, h1]; rfl

end Hv.Configs
