import Hv.Prim.Bytes
import Hv.Prim.Layout
import Hv.Extracted
import Hv.Stream
import Hv.Driver.Files
import Hv.Vdi
import Hv.Driver.Core
import Hv.Driver.Vdi
