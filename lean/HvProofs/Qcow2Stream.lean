/-
  HvProofs.Qcow2Stream — C08 / C07 for QCOW2: the read theorem up to a limit, `BackendOKAt`, the stream
  corollary, snapshot views, a QCOW2 image as backing of another. Core Lean only.
-/
import Hv.Qcow2Stream
import HvProofs.Qcow2
namespace Hv.Qcow2
open Hv Hv.Extracted.qcow2

/-! ### the reader consults only some fields of the object -/

/-- the fields `_read` consults: file handles, backing handle, `cluster_bits`, the extended-L2 flag, the
    compression type, the cached L1 table and the inflater; everything else blanked -/
def QCow2.core (q : QCow2) : QCow2 :=
  { q with version := 0, size := 0, l1Size := 0, l1Offset := 0, backingName := none, exts := [],
           nbSnapshots := 0, snapshotsOffset := 0 }

theorem core_countLoop (q : QCow2) (l2o l2i sc : Nat) :
    ∀ k i st, q.core.countLoop l2o l2i sc k i st = q.countLoop l2o l2i sc k i st := by
  intro k
  induction k with
  | zero => intro i st; rfl
  | succ k ih =>
    intro i st
    unfold QCow2.countLoop
    simp only [ih]
    rfl

theorem core_step (q : QCow2) (off len : Nat) : q.core.step off len = q.step off len := by
  unfold QCow2.step
  simp only [core_countLoop]
  rfl

theorem core_yieldRuns (q : QCow2) : ∀ fuel off len, q.core.yieldRuns fuel off len = q.yieldRuns fuel off len := by
  intro fuel
  induction fuel with
  | zero => intro off len; rfl
  | succ fuel ih =>
    intro off len
    rw [yieldRuns_succ, yieldRuns_succ, core_step]
    simp only [ih]

theorem core_runData (q : QCow2) (r : Run) : q.core.runData r = q.runData r := rfl

theorem core_execRuns (q : QCow2) : ∀ runs, q.core.execRuns runs = q.execRuns runs := by
  intro runs
  induction runs with
  | nil => rfl
  | cons r rest ih => simp only [QCow2.execRuns, ih, core_runData]

theorem core_read (q : QCow2) (off len : Nat) : q.core.read off len = q.read off len := by
  unfold QCow2.read
  simp only [core_yieldRuns, core_execRuns]

/-- **read_frame**: two image objects that agree on the fields `_read` consults read the same — in
    particular `_read` does not depend on `size`, `version`, `header.l1_size`, `header.l1_table_offset`. -/
theorem read_frame (q q' : QCow2) (h : q'.core = q.core) (off len : Nat) : q'.read off len = q.read off len := by
  rw [← core_read q', ← core_read q, h]

theorem withSize_read (q : QCow2) (n off len : Nat) : (q.withSize n).read off len = q.read off len :=
  read_frame q (q.withSize n) rfl off len

theorem withSize_guest (q : QCow2) (n : Nat) (b : File) (o : Nat) : (q.withSize n).guest b o = q.guest b o := rfl

theorem withSize_self (q : QCow2) : q.withSize q.size = q := by cases q; rfl

/-! ### `Conformant` up to a limit -/

theorem conformantTo_self (q : QCow2) : ConformantTo q q.size ↔ Conformant q := by
  unfold ConformantTo; rw [withSize_self]

theorem conformantToB_sound (q : QCow2) (lim : Nat) (h : q.conformantToB lim = true) : ConformantTo q lim :=
  conformantb_sound _ h

theorem bytesIn_mono (q : QCow2) (c lim lim' : Nat) (h : lim ≤ lim') :
    (q.withSize lim).bytesIn c ≤ (q.withSize lim').bytesIn c := by
  show min ((c + 1) * q.clusterSize) lim - c * q.clusterSize ≤ min ((c + 1) * q.clusterSize) lim' - c * q.clusterSize
  omega

theorem nClusters_mono (q : QCow2) (lim lim' : Nat) (h : lim ≤ lim') :
    (q.withSize lim).nClusters ≤ (q.withSize lim').nClusters := by
  show (lim + q.clusterSize - 1) / q.clusterSize ≤ (lim' + q.clusterSize - 1) / q.clusterSize
  exact Nat.div_le_div_right (by omega)

theorem entryOK_mono (q : QCow2) (c lim lim' : Nat) (h : lim ≤ lim') (hok : EntryOK (q.withSize lim') c) :
    EntryOK (q.withSize lim) c :=
  ⟨hok.l2_in, hok.comp, hok.off0,
   fun a b c' d => Nat.le_trans (Nat.add_le_add_left (bytesIn_mono q c lim lim' h) _) (hok.std_in a b c' d),
   hok.ext_disj, hok.ext_unalloc,
   fun a b c' => Nat.le_trans (Nat.add_le_add_left (bytesIn_mono q c lim lim' h) _) (hok.ext_in a b c')⟩

/-- conformance up to a larger limit implies conformance up to a smaller one -/
theorem ConformantTo.mono {q : QCow2} {lim lim' : Nat} (hc : ConformantTo q lim') (h : lim ≤ lim') :
    ConformantTo q lim :=
  ⟨⟨hc.hdr.cb_lo, hc.hdr.cb_hi, hc.hdr.sub_lo⟩, hc.l1ok, fun c hlt h1 h2 =>
    entryOK_mono q c lim lim' h (hc.entries c (Nat.lt_of_lt_of_le hlt (nClusters_mono q lim lim' h)) h1 h2)⟩

/-- `ConformantTo` spelled out: the clusters to check are those that start below `lim` -/
theorem conformantTo_iff (q : QCow2) (lim : Nat) :
    ConformantTo q lim ↔
      HdrOK q ∧ q.l1 = .ok q.l1Table ∧
      ∀ c, c * q.clusterSize < lim → c / q.l2n < q.l1Size → q.l2Off c ≠ 0 → EntryOK (q.withSize lim) c := by
  have hpos : 0 < q.clusterSize := Nat.two_pow_pos _
  have hn : ∀ c, c < (q.withSize lim).nClusters ↔ c * q.clusterSize < lim := by
    intro c
    show c < (lim + q.clusterSize - 1) / q.clusterSize ↔ _
    rw [show c < (lim + q.clusterSize - 1) / q.clusterSize ↔ c + 1 ≤ (lim + q.clusterSize - 1) / q.clusterSize from Iff.rfl,
      Nat.le_div_iff_mul_le hpos, Nat.add_mul, Nat.one_mul]
    omega
  constructor
  · intro hc
    exact ⟨⟨hc.hdr.cb_lo, hc.hdr.cb_hi, hc.hdr.sub_lo⟩, hc.l1ok, fun c h0 h1 h2 => hc.entries c ((hn c).mpr h0) h1 h2⟩
  · intro ⟨h1, h2, h3⟩
    exact ⟨⟨h1.cb_lo, h1.cb_hi, h1.sub_lo⟩, h2, fun c h0 h4 h5 => h3 c ((hn c).mp h0) h4 h5⟩

theorem le_roundUp (n a : Nat) (ha : 0 < a) : n ≤ roundUp n a := by
  unfold roundUp
  have h1 := Nat.div_add_mod (n + a - 1) a
  have h2 := Nat.mod_lt (n + a - 1) ha
  rw [Nat.mul_comm]; omega

theorem roundUp_mod (n a : Nat) : roundUp n a % a = 0 := Nat.mul_mod_left _ _

/-- an aligned block that starts below `n` ends at or before `roundUp n a` -/
theorem block_le_roundUp (n a off : Nat) (ha : 0 < a) (hal : off % a = 0) (hlt : off < n) : off + a ≤ roundUp n a := by
  unfold roundUp
  have h1 := Nat.div_add_mod off a
  rw [hal, Nat.add_zero] at h1
  have hq : off / a + 1 ≤ (n + a - 1) / a := by
    apply (Nat.le_div_iff_mul_le ha).mpr
    rw [Nat.add_mul, Nat.one_mul, Nat.mul_comm]; omega
  have := Nat.mul_le_mul_right a hq
  rw [Nat.add_mul, Nat.one_mul, Nat.mul_comm (off / a) a] at this
  omega

theorem ConformantTo.conformant {q : QCow2} {align : Nat} (ha : 0 < align)
    (hc : ConformantTo q (roundUp q.size align)) : Conformant q :=
  (conformantTo_self q).mp (hc.mono (le_roundUp _ _ ha))

/-! ### the read theorem up to a limit -/

/-- **read_correct_to**: every request inside `[0, lim)` — `lim` may exceed the disk size — returns the bytes
    of the pointwise specification, when the image is conformant up to `lim` -/
theorem read_correct_to (q : QCow2) (lim : Nat) (hc : ConformantTo q lim) (b : File) (hb : BackingIs q.backing b)
    (off len : Nat) (h : off + len ≤ lim) : q.read off len = .ok (slice (q.guest b) off len) := by
  have := read_correct (q.withSize lim) hc b hb off len h
  rw [withSize_read] at this
  exact this

/-- the weak backend contract of the buffered layer, for buffer size `align` -/
theorem backendOKAt (q : QCow2) (align : Nat) (ha : 0 < align) (hc : ConformantTo q (roundUp q.size align)) (b : File)
    (hb : BackingIs q.backing b) : BackendOKAt q.size align q.read (q.guest b) := by
  constructor
  · intro off hal hlt _
    refine ⟨_, read_correct_to q _ hc b hb off align (block_le_roundUp _ _ _ ha hal hlt), ?_⟩
    exact slice_take _ _ _ _ (Nat.min_le_left _ _)
  · intro off len _ _ hle
    exact read_correct_to q _ hc b hb off len (Nat.le_trans hle (le_roundUp _ _ ha))

/-- … and the full contract `BackendOK` (requests of every length) when the tables are well-formed as far as
    the L1 table reaches (beyond it every cluster is unallocated) -/
theorem backendOK_all (q : QCow2) (align : Nat) (hc : ∀ lim, ConformantTo q lim) (b : File)
    (hb : BackingIs q.backing b) : BackendOK q.size align q.read (q.guest b) := by
  constructor
  · intro off len _ _ _
    refine ⟨_, read_correct_to q _ (hc (off + len)) b hb off len (Nat.le_refl _), ?_⟩
    exact slice_take _ _ _ _ (Nat.min_le_left _ _)
  · intro off len _ _ hle
    exact read_correct_to q _ (hc q.size) b hb off len hle

/-- **stream corollary** -/
theorem stream_correct (q : QCow2) (align : Nat) (ha : 0 < align) (hc : ConformantTo q (roundUp q.size align))
    (b : File) (hb : BackingIs q.backing b) (ops : List Op) :
    AS.run q.read (AS.init q.size align) ops = Spec.run (q.guest b) ⟨q.size, 0⟩ ops :=
  AS.run_refines_at ops _ (AS.init_inv _ _ ha) (backendOKAt q align ha hc b hb)

/-! ### snapshot views -/

theorem snapOpen_read (q : QCow2) (s : Snap) : (q.snapOpen s).read = (q.snapImage s).read := by
  funext off len
  exact read_frame (q.snapImage s) (q.snapOpen s) rfl off len

end Hv.Qcow2

namespace Hv
/-- `copy.copy; _buf = None; seek(0)` leaves exactly the state of a freshly constructed stream, whatever the
    state of the active image's stream was -/
theorem AS.reopen_eq (s : AS) : s.reopen = AS.init s.size s.align := by
  unfold AS.reopen AS.setPos AS.init
  simp only [Nat.zero_mod, Nat.sub_zero]
  by_cases h : s.posAlign = 0
  · simp [h]
  · simp [h]
end Hv

namespace Hv
/-! every stream operation keeps `size` and `align`, whatever the backend answers -/
variable {rd : Nat → Nat → Except Err Bytes}

theorem AS.fillBuf_frame (s s' : AS) (h : s.fillBuf rd = .ok s') : s'.size = s.size ∧ s'.align = s.align := by
  unfold AS.fillBuf at h
  split at h
  · cases h; exact ⟨rfl, rfl⟩
  · cases hr : rd s.posAlign s.align with
    | error e => rw [hr] at h; cases h
    | ok b => rw [hr] at h; cases h; exact ⟨rfl, rfl⟩

theorem AS.head_frame (s s' : AS) (n n' : Nat) (r : Bytes) (h : s.head rd n = .ok (r, s', n')) :
    s'.size = s.size ∧ s'.align = s.align := by
  unfold AS.head at h
  split at h
  · cases hf : s.fillBuf rd with
    | error e => rw [hf] at h; cases h
    | ok s1 =>
      obtain ⟨h1, h2⟩ := AS.fillBuf_frame s s1 hf
      rw [hf] at h
      simp only [bind, Except.bind] at h
      cases hb : s1.bufBytes with
      | error e => rw [hb] at h; cases h
      | ok b => rw [hb] at h; cases h; exact ⟨by simp [h1], by simp [h2]⟩
  · cases h; exact ⟨rfl, rfl⟩

theorem AS.whole_frame (s s' : AS) (n n' : Nat) (r : Bytes) (h : s.whole rd n = .ok (r, s', n')) :
    s'.size = s.size ∧ s'.align = s.align := by
  unfold AS.whole at h
  simp only [] at h
  split at h
  · cases hr : rd s.pos (n / s.align * s.align) with
    | error e => rw [hr] at h; cases h
    | ok b => rw [hr] at h; cases h; exact ⟨by simp, by simp⟩
  · cases h; exact ⟨rfl, rfl⟩

theorem AS.tail_frame (s s' : AS) (n : Nat) (r : Bytes) (h : s.tail rd n = .ok (r, s')) :
    s'.size = s.size ∧ s'.align = s.align := by
  unfold AS.tail at h
  split at h
  · cases hf : s.fillBuf rd with
    | error e => rw [hf] at h; cases h
    | ok s1 =>
      obtain ⟨h1, h2⟩ := AS.fillBuf_frame s s1 hf
      rw [hf] at h
      simp only [bind, Except.bind] at h
      cases hb : s1.bufBytes with
      | error e => rw [hb] at h; cases h
      | ok b => rw [hb] at h; cases h; exact ⟨by simp [h1], by simp [h2]⟩
  · cases h; exact ⟨rfl, rfl⟩

theorem AS.readNat_frame (s s' : AS) (n : Nat) (r : Bytes) (h : s.readNat rd n = .ok (r, s')) :
    s'.size = s.size ∧ s'.align = s.align := by
  unfold AS.readNat at h
  simp only at h
  split at h
  · cases h; exact ⟨rfl, rfl⟩
  · cases h1 : s.head rd (min n (s.size - s.pos)) with
    | error e => rw [h1] at h; cases h
    | ok x1 =>
      obtain ⟨r1, s1, n1⟩ := x1
      rw [h1] at h; simp only [bind, Except.bind] at h
      cases h2 : s1.whole rd n1 with
      | error e => rw [h2] at h; cases h
      | ok x2 =>
        obtain ⟨r2, s2, n2⟩ := x2
        rw [h2] at h; simp only at h
        cases h3 : s2.tail rd n2 with
        | error e => rw [h3] at h; cases h
        | ok x3 =>
          obtain ⟨r3, s3⟩ := x3
          rw [h3] at h; cases h
          have a := AS.head_frame _ _ _ _ _ h1
          have b := AS.whole_frame _ _ _ _ _ h2
          have c := AS.tail_frame _ _ _ _ h3
          exact ⟨by rw [c.1, b.1, a.1], by rw [c.2, b.2, a.2]⟩

theorem AS.read_frame (s s' : AS) (n : Int) (r : Bytes) (h : s.read rd n = .ok (r, s')) :
    s'.size = s.size ∧ s'.align = s.align := by
  unfold AS.read at h
  split at h
  · cases h
  · split at h <;> exact AS.readNat_frame _ _ _ _ h

theorem AS.step_frame (s : AS) (op : Op) : (s.step rd op).1.size = s.size ∧ (s.step rd op).1.align = s.align := by
  cases op with
  | tell => exact ⟨rfl, rfl⟩
  | seek n w =>
    cases hp : s.seekPos n w with
    | error e => simp [AS.step, AS.seek, hp, bind, Except.bind]
    | ok p => simp [AS.step, AS.seek, hp, bind, Except.bind]
  | read n =>
    cases hr : s.read rd n with
    | error e => simp [AS.step, hr]
    | ok x =>
      obtain ⟨r, s'⟩ := x
      have := AS.read_frame _ _ _ _ hr
      simp [AS.step, hr, this]
  | peek n =>
    cases hr : s.read rd n with
    | error e => simp [AS.step, AS.peek, hr, bind, Except.bind]
    | ok x =>
      obtain ⟨r, s'⟩ := x
      have := AS.read_frame _ _ _ _ hr
      simp [AS.step, AS.peek, hr, bind, Except.bind, this]
  | readoffset o n =>
    cases hp : s.seekPos o .set with
    | error e => simp [AS.step, AS.readoffset, AS.seek, hp, bind, Except.bind]
    | ok p =>
      cases hr : (s.setPos p).read rd n with
      | error e => simp [AS.step, AS.readoffset, AS.seek, hp, hr, bind, Except.bind]
      | ok x =>
        obtain ⟨r, s'⟩ := x
        have := AS.read_frame _ _ _ _ hr
        simp only [AS.setPos_size, AS.setPos_align] at this
        simp [AS.step, AS.readoffset, AS.seek, hp, hr, bind, Except.bind, this]

theorem AS.after_frame (ops : List Op) : ∀ s : AS, (AS.after rd s ops).size = s.size ∧ (AS.after rd s ops).align = s.align := by
  induction ops with
  | nil => intro s; exact ⟨rfl, rfl⟩
  | cons op ops ih =>
    intro s
    have h1 := ih (s.step rd op).1
    have h2 := AS.step_frame (rd := rd) s op
    exact ⟨by rw [AS.after, h1.1, h2.1], by rw [AS.after, h1.2, h2.2]⟩
end Hv

namespace Hv.Qcow2
open Hv Hv.Layers

/-- the stream of `snapshot.open()` after the active image's stream reached *any* state `st`: every history
    yields the outputs of the array specification over the snapshot's own guest content, from position 0 -/
theorem snapshot_stream (q : QCow2) (s : Snap) (align : Nat) (ha : 0 < align)
    (hc : ConformantTo (q.snapImage s) (roundUp q.size align)) (b : File) (hb : BackingIs q.backing b)
    (st : AS) (hsz : st.size = q.size) (hal : st.align = align) (ops : List Op) :
    AS.run (q.snapOpen s).read st.reopen ops = Spec.run ((q.snapImage s).guest b) ⟨q.size, 0⟩ ops := by
  rw [AS.reopen_eq, hsz, hal, snapOpen_read]
  exact stream_correct (q.snapImage s) align ha hc b hb ops

/-- … in particular after any earlier history on the active image (no hypothesis on the active image's own
    L1 table is needed: nothing of its stream state survives `open()`) -/
theorem snapshot_after_history (q : QCow2) (s : Snap) (align : Nat) (ha : 0 < align)
    (hc : ConformantTo (q.snapImage s) (roundUp q.size align)) (b : File) (hb : BackingIs q.backing b)
    (earlier ops : List Op) :
    AS.run (q.snapOpen s).read (AS.after q.read (AS.init q.size align) earlier).reopen ops
      = Spec.run ((q.snapImage s).guest b) ⟨q.size, 0⟩ ops := by
  obtain ⟨h1, h2⟩ := AS.after_frame (rd := q.read) earlier (AS.init q.size align)
  exact snapshot_stream q s align ha hc b hb _ h1 h2 ops

/-! ### a QCOW2 stream as the backing handle of another image -/

theorem readLen_nat (size pos n : Nat) : Spec.readLen ⟨size, pos⟩ (n : Int) = some (min n (size - pos)) := by
  unfold Spec.readLen
  have h1 : ¬ ((n : Int) < -1) := by omega
  have h2 : ¬ ((n : Int) = -1) := by omega
  rw [if_neg h1, if_neg h2, Int.toNat_natCast]

/-- a stream over a conformant image answers `seek(off); read(n)` like a file with the image's guest content -/
theorem asReader_backingIs (lo : QCow2) (align : Nat) (ha : 0 < align) (hc : ConformantTo lo (roundUp lo.size align))
    (bl : File) (hbl : BackingIs lo.backing bl) : BackingIs (some (lo.asReader align)) (lo.asFile bl) := by
  intro off len
  show lo.asReader align off len = _
  unfold QCow2.asReader
  have h0 : ¬ ((off : Int) < 0) := by omega
  simp only [AS.seek, AS.seekPos, h0, if_false, bind, Except.bind, Int.toNat_natCast]
  have hi : ((AS.init lo.size align).setPos off).Inv lo.read := AS.setPos_inv _ _ (AS.init_inv _ _ ha)
  have hb : BackendOKAt ((AS.init lo.size align).setPos off).size ((AS.init lo.size align).setPos off).align lo.read (lo.guest bl) := by
    simpa [AS.init] using backendOKAt lo align ha hc bl hbl
  have := AS.read_spec (c := lo.guest bl) ((AS.init lo.size align).setPos off) (len : Int) hi hb
  simp only [AS.setPos_size, AS.setPos_pos] at this
  have hsz : (AS.init lo.size align).size = lo.size := rfl
  rw [hsz, readLen_nat] at this
  obtain ⟨s', hr, _⟩ := this
  rw [hr]
  rfl

/-- **chain**: an image whose backing handle is a stream over a lower QCOW2 image reads as the specification
    over the lower image's guest-visible disk -/
theorem chain_read_correct (hi lo : QCow2) (align : Nat) (ha : 0 < align) (hbk : hi.backing = some (lo.asReader align))
    (lim : Nat) (hchi : ConformantTo hi lim) (hclo : ConformantTo lo (roundUp lo.size align))
    (bl : File) (hbl : BackingIs lo.backing bl) (off len : Nat) (h : off + len ≤ lim) :
    hi.read off len = .ok (slice (hi.guest (lo.asFile bl)) off len) :=
  read_correct_to hi lim hchi (lo.asFile bl) (by rw [hbk]; exact asReader_backingIs lo align ha hclo bl hbl) off len h

/-! ### the specification as a layer over the backing content -/

theorem guest_eq_over (q : QCow2) (b : File) : q.guest b = q.layer.over (padTo b.byte b.size) := by
  funext o
  unfold QCow2.guest QCow2.layer QCow2.decides Layer.over padTo QCow2.guest
  simp only [Nat.not_lt_zero, if_false]
  by_cases h1 : q.l1Size ≤ o / q.clusterSize / q.l2n
  · simp only [h1, if_true, Bool.false_eq_true, if_false]
  · simp only [h1, if_false]
    by_cases h2 : q.l2Off (o / q.clusterSize) = 0
    · simp only [h2, if_true, Bool.false_eq_true, if_false]
    · simp only [h2, if_false]
      by_cases h62 : (q.entryAt (o / q.clusterSize)).testBit 62 = true
      · simp only [h62, if_true]
      · simp only [h62, if_false, Bool.false_eq_true]
        cases hs : q.sub with
        | true =>
          simp only [if_true]
          cases hz : (q.bitmapAt (o / q.clusterSize)).testBit (32 + o % q.clusterSize / (q.clusterSize / 32)) <;>
            cases hal : (q.bitmapAt (o / q.clusterSize)).testBit (o % q.clusterSize / (q.clusterSize / 32)) <;> simp
        | false =>
          simp only [Bool.false_eq_true, if_false]
          cases hz : (q.entryAt (o / q.clusterSize)).testBit 0 <;>
            cases h63 : (q.entryAt (o / q.clusterSize)).testBit 63 <;>
            by_cases ho : hostOff (q.entryAt (o / q.clusterSize)) = 0 <;> simp [ho]

/-! ### concrete objects for the non-vacuity examples of C07 / C08

    512-byte clusters; active L1 at 512 (→ L2 at 1024: cluster 0 normal at 1536, cluster 1 zero, 2 and 3 unallocated);
    a snapshot whose L1 table is the 8 zero bytes at offset 0 (everything unallocated); disk size 1500. -/

def exFile : File := ⟨2048, fun o =>
  if o = 518 then 4 else if o = 1030 then 6 else if o = 1039 then 1
  else if 1536 ≤ o then UInt8.ofNat (o % 251) else 0⟩

def exImg : QCow2 :=
  { fh := exFile, dataFile := exFile, hasDataFile := false, backing := none, version := 3, clusterBits := 9,
    size := 1500, l1Size := 1, l1Offset := 512, sub := false, compressionType := 0, l1 := .ok #[1024],
    inflate := fun _ _ => .error .other, backingName := none, exts := [], nbSnapshots := 1, snapshotsOffset := 0 }

def exSnap : Snap := ⟨0, 1, [], [], 0, 40⟩

/-- an overlay with nothing allocated (its L1 table is the zero word at offset 0) over a stream on `exImg` -/
def exTop : QCow2 :=
  { exImg with l1Offset := 0, l1 := .ok #[0], size := 1400, backing := some (exImg.asReader 1024) }

end Hv.Qcow2

