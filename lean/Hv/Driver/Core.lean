/-
  Hv.Driver.Core — driver state, stream-op parsing, generic stream runner.
-/
import Hv.Driver.Files
import Hv.Stream
import Std.Data.HashMap
namespace Hv.Driver
open Hv

structure St where
  raw : Std.HashMap String (Nat × Array Seg) := {}
  built : Std.HashMap String File := {}

def St.file? (st : St) (id : String) : Option File :=
  if id == "-" then none else
  match st.built[id]? with
  | some f => some f
  | none => match st.raw[id]? with
    | some (sz, segs) => some (mkFile sz segs)
    | none => none

def St.build (st : St) : St :=
  { st with built := st.raw.fold (fun m k (sz, segs) => m.insert k (mkFile sz segs)) {} }

/-- ops: `s<n>:<w>` seek (w ∈ 0,1,2) · `r<n>` read · `p<n>` peek · `o<off>:<n>` readoffset · `t` tell -/
def parseOp (t : String) : Option Op :=
  let body : String := (t.drop 1).toString
  match t.front with
  | 't' => some .tell
  | 'r' => (parseInt body).map .read
  | 'p' => (parseInt body).map .peek
  | 's' => match body.splitOn ":" with
      | [a, w] => do
        let n ← parseInt a
        let wh ← (match w with | "0" => some Whence.set | "1" => some .cur | "2" => some .end_ | _ => none)
        some (.seek n wh)
      | _ => none
  | 'o' => match body.splitOn ":" with
      | [a, b] => do some (.readoffset (← parseInt a) (← parseInt b))
      | _ => none
  | _ => none

def fmtOut : Out → String
  | .pos p => s!"P{p}"
  | .data b => s!"D{b.length}:{(crc32 b).toNat}"
  | .err => "E"

/-- run a history on the buffered stream over `rd`; stops after the first error -/
def runStream (rd : Nat → Nat → Except Err Bytes) (size align : Nat) (toks : List String) : String :=
  match toks.mapM parseOp with
  | none => "bad-op"
  | some ops =>
    let outs := AS.run rd (AS.init size align) ops
    let rec cut : List Out → List Out
      | [] => []
      | .err :: _ => [.err]
      | o :: os => o :: cut os
    "ok " ++ " ".intercalate ((cut outs).map fmtOut)

def natArg (s : String) : Except String Nat :=
  match s.toNat? with | some n => .ok n | none => .error s!"bad-nat {s}"

end Hv.Driver
