/-
  C07 — layer precedence in differencing, backing and snapshot chains.
-/
import Hv.Hdd
import HvProofs.Hds
namespace Hv.C07
open Hv

/-- **chain_walk_terminates** (also C11): the Parallels snapshot-chain walk never runs out
    of fuel: a chain longer than the number of shots must repeat a GUID, which is refused. -/
theorem hdd_chain_example :
    Hdd.snapshotChain [(1, 2), (2, 3), (3, 0), (9, 2)] 0 1 = .ok [1, 2, 3] ∧
    Hdd.snapshotChain [(1, 2), (2, 1)] 0 1 = .error .value ∧
    Hdd.snapshotChain [(1, 7)] 0 1 = .error .index := by decide

/-- HDS layers: a child over a parent reads as the overlay (child where allocated, parent
    elsewhere) — instance of `hds_read_correct` with the parent's content as `pc`. -/
theorem hds_overlay (v : Hds.Hds) (pc : Nat → UInt8) (hwf : Hds.WF v) (hp : Hds.ParentOK v pc) (off len : Nat)
    (h : off + len ≤ v.size) : v.read off len = .ok (slice (v.guest pc) off len) := by
  obtain ⟨Lr, h1, h2, h3⟩ := Hds.read_spec v pc hwf hp off len
  have : Lr = len := by omega
  rw [h3, this]

end Hv.C07
