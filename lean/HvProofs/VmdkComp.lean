/-
  Compressed (stream-optimised) VMDK sparse extents: `read_sectors` returns the guest content `guestC`
  (grain records inflate to grain contents: `WFc.inflates`).
-/
import Hv.VmdkComp
import HvProofs.Vmdk
namespace Hv.Vmdk
open Hv Hv.Extracted.vmdk

set_option maxRecDepth 8192 in
theorem grain_payload (f : File) (s h c : Nat) (hin : s * 512 + h + c ≤ f.size) :
    ((if c + h > 512 then f.read (s * 512) 512 ++ f.read ((s + 1) * 512) (h + c - 512) else f.read (s * 512) 512).drop h).take c
      = slice f.byte (s * 512 + h) c := by
  by_cases hbig : c + h > 512
  · simp only [hbig, if_true]
    have e : (s + 1) * 512 = s * 512 + 512 := by omega
    rw [e, File.read_eq_slice f (s * 512) 512 (by omega), File.read_eq_slice f (s * 512 + 512) (h + c - 512) (by omega)]
    rw [← slice_append, slice_drop _ _ _ _ (by omega), slice_take _ _ _ _ (by omega)]
  · simp only [hbig, if_false]
    unfold File.read
    rw [slice_drop _ _ _ _ (by omega), slice_take _ _ _ _ (by omega)]

theorem LBA_HDR_LEN_eq : LBA_HDR_LEN = 12 := by decide
theorem PLAIN_HDR_LEN_eq : PLAIN_HDR_LEN = 4 := by decide

/-- `_read_compressed_grain` on a record that lies inside the file: inflate of the record's payload -/
theorem readCompressedGrain_ok (v : Sparse) (s : Nat) (hin : s * 512 + v.cHdrLen + v.cSize s ≤ v.fh.size) :
    v.readCompressedGrain s = v.inflate (v.cPayload s) (v.grainSize * 512) := by
  unfold Sparse.readCompressedGrain Sparse.cPayload
  unfold Sparse.cHdrLen Sparse.cSize at *
  simp only [S_eq]
  have hlen : (v.fh.read (s * 512) 512).length = min 512 (v.fh.size - s * 512) := by
    unfold File.read; rw [slice_length]
  by_cases hE : v.flags &&& SPARSEFLAG_EMBEDDED_LBA ≠ 0
  · simp only [if_pos hE, LBA_HDR_LEN_eq] at hin ⊢
    have h12 : ¬ (v.fh.read (s * 512) 512).length < SparseGrainLBAHeaderOnDisk.size := by
      rw [hlen]; show ¬ _ < 12; omega
    have hfield : ((v.fh.read (s * 512) 512).drop SparseGrainLBAHeaderOnDisk.cmp_size.off).take SparseGrainLBAHeaderOnDisk.cmp_size.width
        = slice v.fh.byte (s * 512 + SparseGrainLBAHeaderOnDisk.cmp_size.off) SparseGrainLBAHeaderOnDisk.cmp_size.width := by
      show ((v.fh.read (s * 512) 512).drop 8).take 4 = slice v.fh.byte (s * 512 + 8) 4
      unfold File.read
      rw [slice_drop _ _ _ _ (by omega), slice_take _ _ _ _ (by omega)]
    simp only [h12, if_false, hfield, bind, Except.bind]
    congr 1
    exact grain_payload v.fh s 12 _ hin
  · simp only [if_neg hE, PLAIN_HDR_LEN_eq] at hin ⊢
    have h4 : ¬ (v.fh.read (s * 512) 512).length < 4 := by rw [hlen]; omega
    have hfield : (v.fh.read (s * 512) 512).take 4 = slice v.fh.byte (s * 512) 4 := by
      unfold File.read
      rw [slice_take _ _ _ _ (by omega)]
    simp only [h4, if_false, hfield, bind, Except.bind]
    congr 1
    exact grain_payload v.fh s 4 _ hin

theorem readCompressedRun_zero (v : Sparse) (fuel t off : Nat) : v.readCompressedRun fuel t off 0 = .ok [] := by
  cases fuel <;> simp [Sparse.readCompressedRun]

/-- byte arithmetic inside one grain-bounded piece `[rs, rs+n)` (sectors) -/
theorem piece_bytes (G rs n i : Nat) (hG : 0 < G) (hfit : rs % G + n ≤ G) (hi : i < n * 512) :
    (rs * 512 + i) / 512 / G = rs / G ∧ (rs * 512 + i) % (G * 512) = rs % G * 512 + i := by
  have h1 : (rs * 512 + i) / 512 = rs + i / 512 := by omega
  have h2 : i / 512 < n := by omega
  have h3 := block_arith rs G n (i / 512) hG hfit h2
  refine ⟨by rw [h1]; exact h3.1, ?_⟩
  have hdm := Nat.div_add_mod rs G
  have hlt : rs % G * 512 + i < G * 512 := by
    have : (rs % G + n) * 512 ≤ G * 512 := Nat.mul_le_mul_right _ hfit
    rw [Nat.add_mul] at this
    omega
  have e : rs * 512 + i = G * 512 * (rs / G) + (rs % G * 512 + i) := by
    rw [Nat.mul_right_comm]
    generalize G * (rs / G) = Q at *
    omega
  rw [e, Nat.mul_add_mod, Nat.mod_eq_of_lt hlt]

theorem grain_lt_nGrains (v : Sparse) (j x : Nat) (hG : 0 < v.grainSize) (h1 : j * v.grainSize < x) (h2 : x ≤ v.capacity) :
    j < v.nGrains := by
  unfold Sparse.nGrains
  have : (j + 1) * v.grainSize ≤ v.capacity + v.grainSize - 1 := by
    rw [Nat.add_mul, Nat.one_mul]; omega
  exact Nat.lt_of_lt_of_le (Nat.lt_succ_self j) ((Nat.le_div_iff_mul_le hG).2 this)

set_option maxRecDepth 8192 in
/-- facts about one grain-bounded piece of a compressed extent (the not-allocated kinds) -/
theorem piece_okC (v : Sparse) (content : Nat → Bytes) (pc : Nat → UInt8) (hwf : WFc v content) (rs n : Nat)
    (hin : rs + n ≤ v.capacity) (hn : 0 < n) (hfit : rs % v.grainSize + n ≤ v.grainSize) :
    v.lookupGrain (rs / v.grainSize) = .ok (v.specGrain (rs / v.grainSize)) ∧
    (v.specGrain (rs / v.grainSize) = 0 → v.parent = none →
        zeros (n * 512) = slice (v.guestC content pc) (rs * 512) (n * 512)) ∧
    (v.specGrain (rs / v.grainSize) = 0 → v.parent.isSome →
        slice pc ((v.sectorOffset + rs) * 512) (n * 512) = slice (v.guestC content pc) (rs * 512) (n * 512)) ∧
    (v.specGrain (rs / v.grainSize) = 1 → zeros (n * 512) = slice (v.guestC content pc) (rs * 512) (n * 512)) := by
  have hgs := hwf.gs_pos
  have hg : rs / v.grainSize < v.nGrains :=
    grain_lt_nGrains v _ (rs + n) hgs (by have := Nat.div_mul_le_self rs v.grainSize; omega) hin
  refine ⟨hwf.lookup _ hg, ?_, ?_, ?_⟩
  · intro h0 hpar
    apply zeros_eq_slice
    intro i hi
    obtain ⟨b1, _⟩ := piece_bytes v.grainSize rs n i hgs hfit hi
    simp [Sparse.guestC, b1, h0, hpar]
  · intro h0 hpar
    apply slice_shift
    intro i hi
    obtain ⟨b1, _⟩ := piece_bytes v.grainSize rs n i hgs hfit hi
    simp only [Sparse.guestC, b1, h0, hpar, if_true]
    congr 1
    rw [Nat.add_mul]; omega
  · intro h1
    apply zeros_eq_slice
    intro i hi
    obtain ⟨b1, _⟩ := piece_bytes v.grainSize rs n i hgs hfit hi
    simp [Sparse.guestC, b1, h1]

set_option maxRecDepth 8192 in
/-- a run of compressed grains whose records sit one grain size apart (which is what the merge condition of
    `get_runs` establishes) reads as the guest content -/
theorem readCompressedRun_ok (v : Sparse) (content : Nat → Bytes) (pc : Nat → UInt8) (hwf : WFc v content) :
    ∀ fuel t start cnt, cnt ≤ fuel → start + cnt ≤ v.capacity → 1 < t →
      (∀ j, start / v.grainSize ≤ j → j * v.grainSize < start + cnt →
        v.specGrain j = t + (j - start / v.grainSize) * v.grainSize) →
      v.readCompressedRun fuel t (start % v.grainSize) cnt
        = .ok (slice (v.guestC content pc) (start * 512) (cnt * 512)) := by
  have hgs := hwf.gs_pos
  intro fuel
  induction fuel with
  | zero =>
    intro t start cnt h _ _ _
    have : cnt = 0 := by omega
    subst this; simp [Sparse.readCompressedRun]
  | succ fuel ih =>
    intro t start cnt hf hcap ht hsp
    unfold Sparse.readCompressedRun
    by_cases hz : cnt = 0
    · subst hz; simp
    · simp only [hz, if_false]
      have hmod := Nat.mod_lt start hgs
      generalize hn : min cnt (v.grainSize - start % v.grainSize) = n
      have hn1 : 1 ≤ n := by omega
      have hn2 : n ≤ cnt := by omega
      have hfit : start % v.grainSize + n ≤ v.grainSize := by omega
      have hdiv := Nat.div_mul_le_self start v.grainSize
      have hspec : v.specGrain (start / v.grainSize) = t := by
        have := hsp (start / v.grainSize) (Nat.le_refl _) (by omega)
        rw [this, Nat.sub_self, Nat.zero_mul, Nat.add_zero]
      have hg : start / v.grainSize < v.nGrains := grain_lt_nGrains v _ (start + cnt) hgs (by omega) hcap
      have hrec := hwf.record_in _ hg (by rw [hspec]; exact ht)
      obtain ⟨hinf, hlen⟩ := hwf.inflates _ hg (by rw [hspec]; exact ht)
      rw [hspec] at hrec hinf
      rw [readCompressedGrain_ok v t hrec]
      simp only [S_eq, hinf, bind, Except.bind]
      -- the piece out of the inflated grain
      have hpiece : ((content (start / v.grainSize)).drop (start % v.grainSize * 512)).take (n * 512)
          = slice (v.guestC content pc) (start * 512) (n * 512) := by
        have hfit512 : start % v.grainSize * 512 + n * 512 ≤ v.grainSize * 512 := by
          rw [← Nat.add_mul]; exact Nat.mul_le_mul_right _ hfit
        have hneed : start % v.grainSize * 512 + n * 512 ≤ (content (start / v.grainSize)).length := by
          have hdm := Nat.div_add_mod start v.grainSize
          have hmul : (start / v.grainSize + 1) * v.grainSize = start / v.grainSize * v.grainSize + v.grainSize := by
            rw [Nat.add_mul, Nat.one_mul]
          have hcomm : v.grainSize * (start / v.grainSize) = start / v.grainSize * v.grainSize := Nat.mul_comm _ _
          rw [hmul] at hlen
          have : start % v.grainSize + n
              ≤ min (start / v.grainSize * v.grainSize + v.grainSize) v.capacity - start / v.grainSize * v.grainSize := by
            omega
          have := Nat.mul_le_mul_right 512 this
          rw [Nat.add_mul] at this
          omega
        apply List.ext_getElem
        · simp only [List.length_take, List.length_drop, slice_length]; omega
        · intro i h1 h2
          simp only [slice_length] at h2
          obtain ⟨b1, b2⟩ := piece_bytes v.grainSize start n i hgs hfit h2
          have hne0 : ¬ v.specGrain (start / v.grainSize) = 0 := by omega
          have hne1 : ¬ v.specGrain (start / v.grainSize) = 1 := by omega
          simp only [List.getElem_take, List.getElem_drop, slice, List.getElem_map, List.getElem_range,
            Sparse.guestC, b1, b2, hne0, hne1, if_false]
          have hidx : start % v.grainSize * 512 + i < (content (start / v.grainSize)).length := by omega
          simp [List.getD_eq_getElem?_getD, hidx]
      rw [hpiece]
      by_cases hrest : cnt - n = 0
      · rw [hrest, readCompressedRun_zero]
        have : cnt = n := by omega
        subst this; simp
      · have hfull : start % v.grainSize + n = v.grainSize := by omega
        obtain ⟨e1, e2⟩ := next_block start v.grainSize n hgs hfull
        have := ih (t + v.grainSize) (start + n) (cnt - n) (by omega) (by omega) (by omega) (by
          intro j hj1 hj2
          rw [e1] at hj1 ⊢
          rw [hsp j (by omega) (by omega)]
          have : j - start / v.grainSize = (j - (start / v.grainSize + 1)) + 1 := by omega
          rw [this, Nat.add_mul, Nat.one_mul]; omega)
        rw [e2] at this
        rw [this]
        simp only
        have hsplit : cnt = n + (cnt - n) := by omega
        conv => rhs; rw [hsplit, slice_append512]

/-- what is known about the pending run covering relative sectors `[start, readSector)` of a compressed extent;
    for a run of grains: where it starts inside its first grain, and that the records of the grains it covers sit one
    grain size apart (which is exactly what `next_grain_sector` tracks) -/
def CurOKc (v : Sparse) (content : Nat → Bytes) (pc : Nat → UInt8) (start readSector remaining : Nat) :
    Option Cur → Prop
  | none => start = readSector
  | some c => start + c.count = readSector ∧ (0 < remaining → readSector % v.grainSize = 0) ∧
      (c.type = 0 → c.parent = v.sectorOffset + start ∧
          (v.parent = none → zeros (c.count * 512) = slice (v.guestC content pc) (start * 512) (c.count * 512)) ∧
          (v.parent.isSome → slice pc ((v.sectorOffset + start) * 512) (c.count * 512)
              = slice (v.guestC content pc) (start * 512) (c.count * 512))) ∧
      (c.type = 1 → zeros (c.count * 512) = slice (v.guestC content pc) (start * 512) (c.count * 512)) ∧
      (1 < c.type → c.offset = start % v.grainSize ∧
          (∀ j, start / v.grainSize ≤ j → j * v.grainSize < readSector →
            v.specGrain j = c.type + (j - start / v.grainSize) * v.grainSize) ∧
          (0 < remaining → c.next = c.type + (readSector / v.grainSize - start / v.grainSize) * v.grainSize))

theorem runData_of_curC (v : Sparse) (content : Nat → Bytes) (pc : Nat → UInt8) (hwf : WFc v content)
    (hp : ParentOK v pc) (start rs rem : Nat) (c : Cur) (hcap : rs ≤ v.capacity)
    (h : CurOKc v content pc start rs rem (some c)) :
    v.runData c.toRun = .ok (slice (v.guestC content pc) (start * 512) (c.count * 512)) := by
  obtain ⟨hc, _, h0, h1, h2⟩ := h
  unfold Sparse.runData Cur.toRun
  simp only [S_eq]
  by_cases t0 : c.type = 0
  · obtain ⟨hpar, hz, hs⟩ := h0 t0
    simp only [t0, if_true]
    cases hparent : v.parent with
    | none => simp only; rw [hz hparent]
    | some p =>
      simp only
      rw [hp p hparent, hpar, hs (by simp [hparent])]
  · simp only [t0, if_false]
    by_cases t1 : c.type = 1
    · simp only [t1, if_true]; rw [h1 t1]
    · have hcomp : ¬ v.flags &&& SPARSEFLAG_COMPRESSED = 0 := hwf.compressed
      simp only [t1, if_false, hcomp]
      obtain ⟨q1, q2, _⟩ := h2 (by omega)
      rw [q1]
      exact readCompressedRun_ok v content pc hwf c.count c.type start c.count (Nat.le_refl _) (by omega) (by omega)
        (fun j hj1 hj2 => q2 j hj1 (by omega))

theorem flush_execC (v : Sparse) (content : Nat → Bytes) (pc : Nat → UInt8) (hwf : WFc v content)
    (hp : ParentOK v pc) (start rs rem : Nat) (cur : Option Cur) (hcap : rs ≤ v.capacity)
    (h : CurOKc v content pc start rs rem cur) :
    v.execRuns (flush cur) = .ok (slice (v.guestC content pc) (start * 512) ((rs - start) * 512)) := by
  cases cur with
  | none =>
    have : start = rs := h
    subst this; simp [flush, Sparse.execRuns]
  | some c =>
    have hd := runData_of_curC v content pc hwf hp start rs rem c hcap h
    obtain ⟨h1, _⟩ := h
    simp only [flush, Sparse.execRuns, hd, bind, Except.bind]
    have : rs - start = c.count := by omega
    rw [this]; simp

/-- a fresh run for the piece `[rs, rs+n)` satisfies the invariant -/
theorem newCur_okC (v : Sparse) (content : Nat → Bytes) (pc : Nat → UInt8) (hwf : WFc v content) (rs n rc : Nat)
    (hin : rs + n ≤ v.capacity) (hn : n = min rc (v.grainSize - rs % v.grainSize)) (hrc : 0 < rc) :
    CurOKc v content pc rs (rs + n) (rc - n)
      (some (v.newCur (v.specGrain (rs / v.grainSize)) rs (rs % v.grainSize) n)) := by
  have hgs := hwf.gs_pos
  have hmod := Nat.mod_lt rs hgs
  have hn1 : 0 < n := by omega
  have hfit : rs % v.grainSize + n ≤ v.grainSize := by omega
  obtain ⟨_, p0n, p0s, p1⟩ := piece_okC v content pc hwf rs n hin hn1 hfit
  have hbound : 0 < rc - n → (rs + n) % v.grainSize = 0 := by
    intro h
    exact (next_block rs v.grainSize n hgs (by omega)).2
  unfold Sparse.newCur
  by_cases g0 : v.specGrain (rs / v.grainSize) = 0
  · simp only [g0, if_true]
    refine ⟨rfl, hbound, ?_, ?_, ?_⟩
    · intro _; exact ⟨rfl, p0n g0, p0s g0⟩
    · intro h; simp at h
    · intro h; simp at h
  · simp only [g0, if_false]
    by_cases g1 : v.specGrain (rs / v.grainSize) = 1
    · simp only [g1, if_true]
      refine ⟨rfl, hbound, ?_, ?_, ?_⟩
      · intro h; simp at h
      · intro _; exact p1 g1
      · intro h; simp at h
    · simp only [g1, if_false]
      refine ⟨rfl, hbound, ?_, ?_, ?_⟩
      · intro h; exact absurd h g0
      · intro h; exact absurd h g1
      · intro _
        refine ⟨rfl, ?_, ?_⟩
        · intro j hj1 hj2
          -- the piece lies inside one grain: j = rs / grainSize
          have hlt : j * v.grainSize < (rs / v.grainSize + 1) * v.grainSize := by
            have := Nat.div_add_mod rs v.grainSize
            rw [Nat.add_mul, Nat.one_mul, Nat.mul_comm (rs / v.grainSize)]
            omega
          have hj : j = rs / v.grainSize := by
            have := Nat.lt_of_mul_lt_mul_right hlt
            omega
          subst hj
          simp
        · intro h
          have hfull : rs % v.grainSize + n = v.grainSize := by omega
          rw [(next_block rs v.grainSize n hgs hfull).1]
          show v.specGrain (rs / v.grainSize) + v.grainSize = _
          rw [Nat.add_sub_cancel_left, Nat.one_mul]

set_option maxRecDepth 8192 in
theorem getRuns_execC (v : Sparse) (content : Nat → Bytes) (pc : Nat → UInt8) (hwf : WFc v content)
    (hp : ParentOK v pc) :
    ∀ fuel rs rc cur start, rc ≤ fuel → rs + rc ≤ v.capacity → CurOKc v content pc start rs rc cur →
    ∃ runs, v.getRunsLoop fuel rs rc cur = .ok runs ∧
      v.execRuns runs = .ok (slice (v.guestC content pc) (start * 512) ((rs - start + rc) * 512)) := by
  have hgs := hwf.gs_pos
  intro fuel
  induction fuel with
  | zero =>
    intro rs rc cur start hl hcap hc
    have : rc = 0 := by omega
    subst this
    refine ⟨flush cur, by simp [Sparse.getRunsLoop], ?_⟩
    rw [flush_execC v content pc hwf hp start rs 0 cur (by omega) hc]; simp
  | succ fuel ih =>
    intro rs rc cur start hl hcap hc
    unfold Sparse.getRunsLoop
    by_cases hz : rc = 0
    · subst hz
      refine ⟨flush cur, by simp, ?_⟩
      rw [flush_execC v content pc hwf hp start rs 0 cur (by omega) hc]; simp
    · have hne : ¬ v.grainSize = 0 := by omega
      simp only [hz, hne, if_false]
      have hmod := Nat.mod_lt rs hgs
      generalize hn : min rc (v.grainSize - rs % v.grainSize) = n
      have hn1 : 1 ≤ n := by omega
      have hn2 : n ≤ rc := by omega
      have hfit : rs % v.grainSize + n ≤ v.grainSize := by omega
      obtain ⟨hlook, p0n, p0s, p1⟩ := piece_okC v content pc hwf rs n (by omega) (by omega) hfit
      have hnew := newCur_okC v content pc hwf rs n rc (by omega) hn.symm (by omega)
      rw [hlook]
      simp only [bind, Except.bind]
      generalize hG : v.specGrain (rs / v.grainSize) = G at *
      cases cur with
      | none =>
        have hs : start = rs := hc
        subst hs
        obtain ⟨runs, e1, e2⟩ := ih (start + n) (rc - n) _ start (by omega) (by omega) hnew
        refine ⟨runs, e1, ?_⟩
        rw [e2]; congr 3; omega
      | some c =>
        obtain ⟨c1, c2, c3, c4, c5⟩ := hc
        have hrs0 : rs % v.grainSize = 0 := c2 (by omega)
        simp only
        by_cases hm1 : (c.type = 0 ∧ G = 0) ∨ (c.type = 1 ∧ G = 1)
        · simp only [hm1, if_true]
          have hc' : CurOKc v content pc start (rs + n) (rc - n) (some { c with count := c.count + n }) := by
            refine ⟨by simp only; omega, ?_, ?_, ?_, ?_⟩
            · intro h; exact (next_block rs v.grainSize n hgs (by omega)).2
            · intro t0
              obtain ⟨q1, q2, q3⟩ := c3 t0
              have hG0 : G = 0 := by
                rcases hm1 with ⟨_, h⟩ | ⟨h, _⟩
                · exact h
                · simp only at t0; omega
              refine ⟨q1, ?_, ?_⟩
              · intro hpar
                simp only
                rw [zeros_append512, q2 hpar, p0n hG0 hpar, slice_append512, c1]
              · intro hpar
                simp only
                rw [slice_append512, q3 hpar, slice_append512 (v.guestC content pc), Nat.add_assoc, c1, p0s hG0 hpar]
            · intro t1
              have hG1 : G = 1 := by
                rcases hm1 with ⟨h, _⟩ | ⟨_, h⟩
                · simp only at t1; omega
                · exact h
              simp only
              rw [zeros_append512, c4 t1, p1 hG1, slice_append512, c1]
            · intro hgt
              rcases hm1 with ⟨h, _⟩ | ⟨h, _⟩ <;> (simp only at hgt; omega)
          obtain ⟨runs, e1, e2⟩ := ih (rs + n) (rc - n) _ start (by omega) (by omega) hc'
          refine ⟨runs, e1, ?_⟩
          rw [e2]; congr 3; omega
        · simp only [hm1, if_false]
          by_cases hm2 : c.type > 1 ∧ G = c.next
          · simp only [hm2, and_self, if_true]
            obtain ⟨q1, q2, q3⟩ := c5 hm2.1
            have hnext := q3 (by omega)
            have hc' : CurOKc v content pc start (rs + n) (rc - n)
                (some { c with next := c.next + v.grainSize, count := c.count + n }) := by
              refine ⟨by simp only; omega, ?_, ?_, ?_, ?_⟩
              · intro h; exact (next_block rs v.grainSize n hgs (by omega)).2
              · intro t0; simp only at t0; omega
              · intro t1; simp only at t1; omega
              · intro _
                simp only
                refine ⟨q1, ?_, ?_⟩
                · intro j hj1 hj2
                  by_cases hold : j * v.grainSize < rs
                  · exact q2 j hj1 hold
                  · -- the new grain: j = rs / grainSize, whose lookup gave G = next
                    have hdm := Nat.div_add_mod rs v.grainSize
                    have hlt : j * v.grainSize < (rs / v.grainSize + 1) * v.grainSize := by
                      rw [Nat.add_mul, Nat.one_mul, Nat.mul_comm (rs / v.grainSize)]
                      omega
                    have hle : rs / v.grainSize * v.grainSize ≤ j * v.grainSize := by
                      rw [Nat.mul_comm (rs / v.grainSize)]; omega
                    have hj : j = rs / v.grainSize := by
                      have a := Nat.lt_of_mul_lt_mul_right hlt
                      have b := Nat.le_of_mul_le_mul_right hle hgs
                      omega
                    rw [hj, hG, hm2.2, hnext]
                · intro h
                  have hfull : rs % v.grainSize + n = v.grainSize := by omega
                  rw [(next_block rs v.grainSize n hgs hfull).1, hnext]
                  have hge : start / v.grainSize ≤ rs / v.grainSize := Nat.div_le_div_right (by omega)
                  have : rs / v.grainSize + 1 - start / v.grainSize = (rs / v.grainSize - start / v.grainSize) + 1 := by omega
                  rw [this, Nat.add_mul, Nat.one_mul, Nat.add_assoc]
            obtain ⟨runs, e1, e2⟩ := ih (rs + n) (rc - n) _ start (by omega) (by omega) hc'
            refine ⟨runs, e1, ?_⟩
            rw [e2]; congr 3; omega
          · simp only [hm2, if_false]
            obtain ⟨rest, e1, e2⟩ := ih (rs + n) (rc - n) _ rs (by omega) (by omega) hnew
            rw [e1]
            simp only
            refine ⟨c.toRun :: rest, rfl, ?_⟩
            have hd := runData_of_curC v content pc hwf hp start rs rc c (by omega) ⟨c1, c2, c3, c4, c5⟩
            show (do let d ← v.runData c.toRun
                     let t ← v.execRuns rest
                     Except.ok (d ++ t)) = _
            rw [hd, e2]
            simp only [bind, Except.bind]
            congr 1
            have e5 : rs - start + rc = c.count + (rs + n - rs + (rc - n)) := by omega
            rw [e5, slice_append512 (v.guestC content pc) start c.count, c1]

/-- `SparseDisk.read_sectors` on a compressed extent: for sectors inside the extent, exactly the guest bytes -/
theorem compressed_readSectors_correct (v : Sparse) (content : Nat → Bytes) (pc : Nat → UInt8) (hwf : WFc v content)
    (hp : ParentOK v pc) (sector count : Nat) (hs : v.sectorOffset ≤ sector)
    (hin : sector - v.sectorOffset + count ≤ v.capacity) :
    v.readSectors sector count
      = .ok (slice (v.guestC content pc) ((sector - v.sectorOffset) * 512) (count * 512)) := by
  unfold Sparse.readSectors Sparse.getRuns
  by_cases hc : count = 0
  · subst hc; simp [Sparse.execRuns, bind, Except.bind]
  · simp only [hc, if_false]
    obtain ⟨runs, e1, e2⟩ := getRuns_execC v content pc hwf hp count (sector - v.sectorOffset) count none
      (sector - v.sectorOffset) (Nat.le_refl _) hin rfl
    rw [e1]
    simp only [bind, Except.bind]
    rw [e2]; congr 3; omega

theorem wfbC_sound (v : Sparse) (h : v.wfbC = true) : WFc v v.contentOf := by
  unfold Sparse.wfbC at h
  simp only [Bool.and_eq_true, decide_eq_true_eq, List.all_eq_true, List.mem_range, Bool.or_eq_true] at h
  obtain ⟨⟨⟨⟨h1, h2⟩, h3⟩, h4⟩, h5⟩ := h
  refine ⟨h1, h2, h3, h4, fun g hg => (h5 g hg).1, fun g hg hgt => ?_, fun g hg hgt => ?_⟩
  · rcases (h5 g hg).2 with h | h
    · omega
    · exact h.1
  · rcases (h5 g hg).2 with h | h
    · omega
    · have h2 := h.2
      unfold Sparse.contentOf
      cases hi : v.inflate (v.cPayload (v.specGrain g)) (v.grainSize * 512) with
      | error e => rw [hi] at h2; simp at h2
      | ok b =>
        rw [hi] at h2
        simp only [decide_eq_true_eq] at h2
        exact ⟨rfl, h2⟩

/-- backend contract for a single sparse extent opened as `VMDK(fh)`, from any `read_sectors` specification
    (same argument as `sparse_backendOK`, with the read theorem as a hypothesis) -/
theorem backendOK_of_readSectors (v : Sparse) (g : Nat → UInt8)
    (hread : ∀ sector count, sector + count ≤ v.capacity →
      v.readSectors sector count = .ok (slice g (sector * 512) (count * 512)))
    (hoff : v.sectorOffset = 0) (align : Nat) (ha : align % 512 = 0) :
    BackendOK (v.capacity * 512) align (single (sparseDisk v)).read g := by
  have key : ∀ off len, off % 512 = 0 → off < v.capacity * 512 → 0 < len →
      (single (sparseDisk v)).read off len
        = .ok (slice g off (min (v.capacity - off / 512) ((len + 512 - 1) / 512) * 512)) := by
    intro off len ho hlt hl
    unfold Vmdk.read
    simp only [S_eq]
    have hsec : off / 512 < (sparseDisk v).sectorCount := by show off / 512 < v.capacity; omega
    rw [single_readSectors (sparseDisk v) hoff (off / 512) ((len + 512 - 1) / 512) hsec (by omega)]
    show Except.map _ (v.readSectors (off / 512) (min (v.capacity - off / 512) ((len + 512 - 1) / 512))) = _
    rw [hread _ _ (by omega)]
    simp only [Except.map, List.append_nil]
    congr 2; omega
  have hdvd : ∀ x, x % align = 0 → x % 512 = 0 := by
    intro x hx
    have := Nat.mod_mod_of_dvd x (Nat.dvd_of_mod_eq_zero ha)
    omega
  constructor
  · intro off len ho hlt hl
    refine ⟨_, key off len (hdvd off ho) hlt hl, ?_⟩
    rw [slice_take _ _ _ _ (by omega)]
  · intro off len ho hl hle
    by_cases hz : len = 0
    · subst hz
      unfold Vmdk.read Vmdk.readSectors
      simp only [S_eq]
      have : (0 + 512 - 1) / 512 = 0 := by decide
      rw [this]
      unfold Vmdk.readSectorsLoop
      simp
    · rw [key off len (hdvd off ho) (by omega) (by omega)]
      congr 2
      have := hdvd len hl
      omega

theorem compressed_backendOK (v : Sparse) (content : Nat → Bytes) (pc : Nat → UInt8) (hwf : WFc v content)
    (hp : ParentOK v pc) (hoff : v.sectorOffset = 0) (align : Nat) (ha : align % 512 = 0) :
    BackendOK (v.capacity * 512) align (single (sparseDisk v)).read (v.guestC content pc) := by
  apply backendOK_of_readSectors v _ _ hoff align ha
  intro sector count h
  have := compressed_readSectors_correct v content pc hwf hp sector count (by omega) (by rw [hoff]; omega)
  rw [hoff, Nat.sub_zero] at this
  exact this

/-! a concrete stream-optimised extent for the non-vacuity example: one grain table (sector 1) with two entries, grain
    0 stored as a record at sector 2 (`cmpSize = 1`, payload `0x41`), grain 1 absent; a toy "inflate" that expands a
    payload byte to one grain -/
def exCFile : File := ⟨1536, fun p => if p = 512 then 2 else if p = 1024 then 1 else if p = 1028 then 0x41 else 0⟩
def exC : Sparse :=
  { fh := exCFile, kind := .hosted, flags := 0x10000, capacity := 2, grainSize := 1, gtSize := 2, gd := #[1],
    grainTablesOffset := 0, grainsOffset := 0, sectorOffset := 0, parent := none,
    inflate := fun p n => .ok (List.replicate n (p.headD 0)) }

end Hv.Vmdk
