import Hv.Driver.Core
import Hv.HyperV
namespace Hv.Driver
open Hv Hv.HyperV

def hvBlob (tag : String) (b : Bytes) : String :=
  s!"{tag}{b.length}.{(crc32 b).toNat}.{hexOf (b.take 16)}"

def hvValue : Value → String
  | .int v => s!"I{v}"
  | .uint v => s!"U{v}"
  | .double b => "F" ++ hexOf (beBytes 8 b)
  | .str us => s!"S{us.length}." ++ hvBlob "" (us.flatMap fun u => [UInt8.ofNat (u % 256), UInt8.ofNat (u / 256)])
  | .bytes b => hvBlob "Y" b
  | .bool b => if b then "B1" else "B0"

/-- one `path:value` item per entry; path = hex keys joined by `/` -/
partial def hvFlatten (pfx : String) : Tree → List String
  | .leaf v => [pfx ++ ":" ++ hvValue v]
  | .node cs => (if pfx = "" then [] else [pfx ++ ":N"]) ++
      cs.flatMap fun (k, t) => hvFlatten (pfx ++ "/" ++ hexOf k) t

def hvRes (r : Except Err Tree) : String :=
  match r with
  | .error e => s!"E:{e}"
  | .ok t => "ok:" ++ ",".intercalate (hvFlatten "" t)

def hypervCmd (st : St) : List String → String
  | ["hyperv.tree", id] =>
    match st.file? id with
    | none => "bad-file"
    | some f => hvRes (asDict f) ++ " " ++ hvRes (typedTree f)
  | _ => "bad-cmd"

end Hv.Driver
