/-
  Hv.Qcow2Stream — what the stream theorems about QCOW2 (C08, C07) are stated with:

  * `ConformantTo q lim` / `conformantToB`: `Conformant` up to a limit `lim` instead of up to `size`.
    `QCow2._read` is not clamped to the disk size: the buffer fill of the last block of a stream with
    buffer size `align` asks for `[off, off + align)`, which runs up to `roundUp size align`; there the
    reader keeps walking the L1 / L2 tables (clusters beyond the L1 table are unallocated), so the table
    entries of the clusters in `[size, roundUp size align)` must be well-formed as well.
  * `snapOpen` / `snapImage` / `AS.reopen`: `QCow2Snapshot.open()`.
  * `asReader`: a QCOW2 stream used as the backing handle of another image.
-/
import Hv.Qcow2Spec
import Hv.Stream
import Hv.Layers
namespace Hv.Qcow2
open Hv

/-- `n` rounded up to a multiple of `a` -/
def roundUp (n a : Nat) : Nat := (n + a - 1) / a * a

/-- the same image with the virtual size `n`. `QCow2.read` and `QCow2.guest` never look at `size`
    (`withSize_read`, `withSize_guest` in HvProofs/Qcow2Stream.lean); `Conformant` mentions it only through
    the number of guest clusters to check (`nClusters`) and the part of the last cluster that must lie inside
    the data file (`bytesIn`). -/
def QCow2.withSize (q : QCow2) (n : Nat) : QCow2 := { q with size := n }

/-- **ConformantTo q lim**: the hypotheses of the read theorem for requests inside `[0, lim)`:
    header geometry; the cached L1 table is the stored one; every guest cluster that starts below `lim`, is
    covered by the L1 table and has an L2 table has a well-formed entry (`EntryOK`, with "the host cluster
    lies inside the data file" required for the part of the cluster below `lim`).
    `Conformant q ↔ ConformantTo q q.size`; anti-monotone in `lim`. -/
def ConformantTo (q : QCow2) (lim : Nat) : Prop := Conformant (q.withSize lim)

def QCow2.conformantToB (q : QCow2) (lim : Nat) : Bool := (q.withSize lim).conformantb

/-! ### `QCow2Snapshot.open()` -/

/-- `QCow2Snapshot.l1_table`: `l1_size` big-endian words at the snapshot's `l1_table_offset` (EOFError when short) -/
def snapL1 (fh : File) (s : Snap) : Except Err (Array Nat) :=
  (fh.readExact s.l1Offset (8 * s.l1Size)).map (fun raw => (decodeBE64 s.l1Size raw).toArray)

/-- the object `QCow2Snapshot.open()` returns: `copy.copy` of the image object (same file handles, same
    header — also `header.l1_size` / `header.l1_table_offset` of the *active* image) whose cached
    `l1_table` is the snapshot's -/
def QCow2.snapOpen (q : QCow2) (s : Snap) : QCow2 := { q with l1 := snapL1 q.fh s }

/-- the image the snapshot describes: the snapshot's L1 table also in the header fields the specification
    `guest` reads (`l1At` is the word at `l1Offset + 8·i`, `l1Size` bounds the L1 index). The reader does not
    consult these two fields (it uses the length of the cached table): `snapOpen_read`. -/
def QCow2.snapImage (q : QCow2) (s : Snap) : QCow2 :=
  { q with l1 := snapL1 q.fh s, l1Offset := s.l1Offset, l1Size := s.l1Size }

end Hv.Qcow2

namespace Hv
/-- the stream state of the object `QCow2Snapshot.open()` returns, made from the state `s` of the active
    image's stream at that moment: `copy.copy` (position, aligned position and buffer are copied),
    `disk._buf = None`, `disk.seek(0)` -/
def AS.reopen (s : AS) : AS := ({ s with buf := none } : AS).setPos 0

/-- the state of a stream after a history of operations (`AS.run` keeps only the outputs) -/
def AS.after (rd : Nat → Nat → Except Err Bytes) : AS → List Op → AS
  | s, [] => s
  | s, op :: ops => AS.after rd (s.step rd op).1 ops
end Hv

namespace Hv.Qcow2
open Hv

/-- a stream over a QCOW2 image with buffer size `align`, used as `seek(off); read(n)` backing handle -/
def QCow2.asReader (q : QCow2) (align : Nat) : Reader := fun off n => do
  let (_, s) ← (AS.init q.size align).seek off .set
  let (b, _) ← s.read q.read n
  pure b

/-! ### a QCOW2 image as a layer over its backing content -/

/-- does the image decide guest byte `o` itself (stored data, an explicit zero, a compressed cluster) — or does
    it leave the byte to the backing file? Written from the format document like `guest`: no L2 table /
    unallocated (sub-)cluster = transparent. -/
def QCow2.decides (q : QCow2) (o : Nat) : Bool :=
  let cs := q.clusterSize
  let c := o / cs
  if q.l1Size ≤ c / q.l2n then false
  else if q.l2Off c = 0 then false
  else
    let e := q.entryAt c
    if e.testBit 62 then true
    else if q.sub then
      let bm := q.bitmapAt c
      let i := o % cs / (cs / 32)
      bm.testBit (32 + i) || bm.testBit i
    else e.testBit 0 || !(decide (hostOff e = 0) && !e.testBit 63)

/-- the image as a `Layer`: where it decides, the byte it shows without any backing file -/
def QCow2.layer (q : QCow2) : Layers.Layer := ⟨q.decides, q.guest ⟨0, fun _ => 0⟩⟩

end Hv.Qcow2
