import Hv.Vhd
import HvProofs.Basic
import HvProofs.Stream
namespace Hv.Vhd
open Hv Hv.Extracted.vhd

theorem S_eq : S = 512 := rfl
theorem ENTRY_eq : BAT_ENTRY_SIZE = 4 := rfl

theorem readSectorsDyn_zero (v : Vhd) (fuel s : Nat) : v.readSectorsDyn fuel s 0 = .ok [] := by
  cases fuel <;> simp [Vhd.readSectorsDyn]

/-- for block sizes that are a multiple of 8 sectors the code's bitmap size is the
    specification's (one bit per sector, padded to a whole sector) -/
theorem bitmapSectors_eq_spec (v : Vhd) (h : v.blockSize % (8 * 512) = 0) :
    v.bitmapSectors = v.bitmapSectorsSpec := by
  unfold Vhd.bitmapSectors Vhd.bitmapSectorsSpec Vhd.spb
  simp only [S_eq]
  omega

theorem bat_ok (v : Vhd) (hwf : WF v) (hd : v.kind = .dynamic) (i : Nat) (hi : i < v.maxEntries) :
    v.bat i = .ok (if v.batRaw i = 0xFFFFFFFF then none else some (v.batRaw i)) := by
  unfold Vhd.bat
  have ht := hwf.table_in hd
  have : ¬ (i + 1 > v.maxEntries) := by omega
  simp only [this, if_false, ENTRY_eq]
  have hr : v.fh.read (v.tableOffset + i * 4) 4 = slice v.fh.byte (v.tableOffset + 4 * i) 4 := by
    rw [File.read_eq_slice _ _ _ (by omega), Nat.mul_comm i 4]
  simp only [hr, slice_length, ne_eq, not_true_eq_false, if_false]
  rfl

set_option maxRecDepth 8192 in
theorem readSectorsDyn_correct (v : Vhd) (hwf : WF v) (hd : v.kind = .dynamic) :
    ∀ fuel sector count, count ≤ fuel → (sector + count) * 512 ≤ v.maxEntries * v.blockSize →
      v.readSectorsDyn fuel sector count = .ok (slice v.guest (sector * 512) (count * 512)) := by
  obtain ⟨hbs, hbm⟩ := hwf.bs_sector hd
  have hspb : v.spb * 512 = v.blockSize := by unfold Vhd.spb; simp only [S_eq]; omega
  have hspb0 : 0 < v.spb := by unfold Vhd.spb; simp only [S_eq]; omega
  have hbit := bitmapSectors_eq_spec v hbm
  intro fuel
  induction fuel with
  | zero =>
    intro s c h _
    have : c = 0 := by omega
    subst this; simp [Vhd.readSectorsDyn]
  | succ fuel ih =>
    intro sector count hf hb
    unfold Vhd.readSectorsDyn
    by_cases hc : count = 0
    · subst hc; simp
    · have hne : ¬ v.spb = 0 := by omega
      simp only [hc, hne, if_false]
      have hmod : sector % v.spb < v.spb := Nat.mod_lt _ hspb0
      generalize hn : min count (v.spb - sector % v.spb) = n
      have hn1 : 1 ≤ n := by omega
      have hn2 : n ≤ count := by omega
      have hn3 : sector % v.spb + n ≤ v.spb := by omega
      -- the block is inside the table
      have hblk : sector / v.spb < v.maxEntries := by
        apply Nat.div_lt_of_lt_mul
        have : sector * 512 < v.maxEntries * (v.spb * 512) := by rw [hspb]; omega
        rw [← Nat.mul_assoc] at this
        have := Nat.lt_of_mul_lt_mul_right this
        rw [Nat.mul_comm]; exact this
      rw [bat_ok v hwf hd _ hblk]
      simp only [bind, Except.bind]
      -- byte-level arithmetic inside the block
      have hb1 : (sector * 512) % v.blockSize = (sector % v.spb) * 512 := by
        rw [← hspb, Nat.mul_mod_mul_right]
      have hb2 : (sector * 512) / v.blockSize = sector / v.spb := by
        rw [← hspb, Nat.mul_div_mul_right _ _ (by decide)]
      have hfit : (sector * 512) % v.blockSize + n * 512 ≤ v.blockSize := by
        rw [hb1, ← hspb, ← Nat.add_mul]; exact Nat.mul_le_mul_right _ hn3
      have harith := fun i (hi : i < n * 512) =>
        block_arith (sector * 512) v.blockSize (n * 512) i hbs hfit hi
      have hchunk : v.chunk (if v.batRaw (sector / v.spb) = 0xFFFFFFFF then none
            else some (v.batRaw (sector / v.spb))) (sector % v.spb) n
          = slice v.guest (sector * 512) (n * 512) := by
        unfold Vhd.chunk
        simp only [S_eq]
        rcases hwf.entries hd _ hblk with he | he | he
        · simp only [he, if_true]
          rw [Nat.mul_comm]
          apply zeros_eq_slice
          intro i hi
          simp [Vhd.guest, hd, (harith i hi).1, hb2, he]
        · have : ¬ (v.batRaw (sector / v.spb) = 0xFFFFFFFF) := by rw [he]; omega
          simp only [this, if_false, he, if_true]
          rw [Nat.mul_comm]
          apply zeros_eq_slice
          intro i hi
          simp [Vhd.guest, hd, (harith i hi).1, hb2, he]
        · by_cases h1 : v.batRaw (sector / v.spb) = 0xFFFFFFFF
          · simp only [h1, if_true]
            rw [Nat.mul_comm]
            apply zeros_eq_slice
            intro i hi
            simp [Vhd.guest, hd, (harith i hi).1, hb2, h1]
          · simp only [h1, if_false]
            by_cases h0 : v.batRaw (sector / v.spb) = 0
            · simp only [h0, if_true]
              rw [Nat.mul_comm]
              apply zeros_eq_slice
              intro i hi
              simp [Vhd.guest, hd, (harith i hi).1, hb2, h0]
            · simp only [h0, if_false]
              rw [File.read_eq_slice]
              · apply slice_shift
                intro i hi
                have := harith i hi
                simp only [Vhd.guest, hd, this.1, this.2, hb2, h1, h0, or_self, if_false, hb1, hbit]
                congr 1
                rw [Nat.add_mul, Nat.add_mul]; omega
              · rw [hbit]
                have : (sector % v.spb) * 512 + n * 512 ≤ v.blockSize := by rw [← hb1]; exact hfit
                rw [Nat.add_mul]; omega
      rw [hchunk]
      by_cases hrest : count - n = 0
      · rw [hrest, readSectorsDyn_zero]
        have : count = n := by omega
        subst this; simp
      · have := ih (sector + n) (count - n) (by omega) (by
          have : sector + n + (count - n) = sector + count := by omega
          rw [this]; exact hb)
        rw [this]
        simp only
        congr 1
        have hsplit : count * 512 = n * 512 + (count - n) * 512 := by
          rw [← Nat.add_mul]; congr 1; omega
        rw [hsplit, slice_append, Nat.add_mul]

end Hv.Vhd

namespace Hv.Vhd
open Hv Hv.Extracted.vhd

theorem File.read_take (f : File) (off n m : Nat) (hm : m ≤ n) (hin : off + m ≤ f.size) :
    (f.read off n).take m = slice f.byte off m := by
  unfold File.read
  rw [slice_take _ _ _ _ (by omega)]

set_option maxRecDepth 8192 in
/-- `_read` at a sector-aligned offset: succeeds, and the first `min len (size-off)` bytes
    are the guest content; for sector-multiple in-range lengths it is exactly the slice. -/
theorem read_prefix (v : Vhd) (hwf : WF v) (off len : Nat) (ho : off % 512 = 0) :
    ∃ b, v.read off len = .ok b ∧
      b.take (min len (v.size - off)) = slice v.guest off (min len (v.size - off)) ∧
      (len % 512 = 0 → off + len ≤ v.size → b = slice v.guest off len) := by
  unfold Vhd.read Vhd.readSectors
  simp only [S_eq]
  generalize hL : min len (v.size - off) = L
  have hoff : off / 512 * 512 = off := by omega
  by_cases hLz : L = 0
  · -- nothing (left) to read
    subst hLz
    have hc : (0 + 512 - 1) / 512 = 0 := by decide
    rw [hc]
    cases hk : v.kind with
    | fixed =>
      refine ⟨_, rfl, by simp, ?_⟩
      intro _ hle
      have : len = 0 := by omega
      subst this; simp [File.read, slice]
    | dynamic =>
      simp only [readSectorsDyn_zero]
      refine ⟨_, rfl, by simp, ?_⟩
      intro _ hle
      have : len = 0 := by omega
      subst this; simp
  · have hLle : off + L ≤ v.size := by omega
    cases hk : v.kind with
    | fixed =>
      simp only
      have hin := hwf.fixed_in hk
      refine ⟨_, rfl, ?_, ?_⟩
      · rw [hoff]
        rw [File.read_take v.fh off ((L + 512 - 1) / 512 * 512) L (by omega) (by omega)]
        apply slice_congr
        intro i _
        simp [Vhd.guest, hk]
      · intro hl hle
        have : L = len := by omega
        subst this
        have h2 : (L + 512 - 1) / 512 * 512 = L := by omega
        rw [hoff, h2, File.read_eq_slice _ _ _ (by omega)]
        apply slice_congr
        intro i _
        simp [Vhd.guest, hk]
    | dynamic =>
      simp only
      obtain ⟨hbs, hbm⟩ := hwf.bs_sector hk
      have hcov := hwf.covers hk
      have hspb : v.spb * 512 = v.blockSize := by unfold Vhd.spb; simp only [S_eq]; omega
      have hcov' : v.size ≤ (v.maxEntries * v.spb) * 512 := by rw [Nat.mul_assoc, hspb]; exact hcov
      have hfit : (off / 512 + (L + 512 - 1) / 512) * 512 ≤ v.maxEntries * v.blockSize := by
        rw [← hspb, ← Nat.mul_assoc]
        generalize v.maxEntries * v.spb = K at *
        omega
      rw [readSectorsDyn_correct v hwf hk _ _ _ (Nat.le_refl _) hfit, hoff]
      refine ⟨_, rfl, ?_, ?_⟩
      · rw [slice_take _ _ _ _ (by omega)]
      · intro hl hle
        have : L = len := by omega
        subst this
        have h2 : (L + 512 - 1) / 512 * 512 = L := by omega
        rw [h2]

end Hv.Vhd

namespace Hv.Vhd
open Hv Hv.Extracted.vhd

theorem wfb_sound (v : Vhd) (h : v.wfb = true) : WF v := by
  unfold Vhd.wfb at h
  cases hk : v.kind with
  | fixed =>
    rw [hk] at h
    simp only [decide_eq_true_eq] at h
    exact { fixed_in := fun _ => h
            bs_sector := fun h' => by rw [hk] at h'; cases h'
            covers := fun h' => by rw [hk] at h'; cases h'
            table_in := fun h' => by rw [hk] at h'; cases h'
            entries := fun h' => by rw [hk] at h'; cases h' }
  | dynamic =>
    rw [hk] at h
    simp only [Bool.and_eq_true, decide_eq_true_eq, List.all_eq_true, List.mem_range,
      Bool.or_eq_true, beq_iff_eq] at h
    obtain ⟨⟨⟨⟨h1, h2⟩, h3⟩, h4⟩, h5⟩ := h
    exact { fixed_in := fun h' => by rw [hk] at h'; cases h'
            bs_sector := fun _ => ⟨h1, h2⟩
            covers := fun _ => h3
            table_in := fun _ => h4
            entries := fun _ i hi => by
              rcases h5 i hi with (h | h) | h
              · exact Or.inl h
              · exact Or.inr (Or.inl h)
              · exact Or.inr (Or.inr h) }

/-- the buffered-stream backend contract, for every buffer size that is a sector multiple -/
theorem backendOK (v : Vhd) (hwf : WF v) (align : Nat) (ha : align % 512 = 0) :
    BackendOK v.size align v.read v.guest := by
  constructor
  · intro off len ho _ _
    have : off % 512 = 0 := by
      have := Nat.mod_mod_of_dvd off (Nat.dvd_of_mod_eq_zero ha)
      omega
    obtain ⟨b, hb, hp, _⟩ := read_prefix v hwf off len this
    exact ⟨b, hb, hp⟩
  · intro off len ho hl hle
    have h1 : off % 512 = 0 := by
      have := Nat.mod_mod_of_dvd off (Nat.dvd_of_mod_eq_zero ha)
      omega
    have h2 : len % 512 = 0 := by
      have := Nat.mod_mod_of_dvd len (Nat.dvd_of_mod_eq_zero ha)
      omega
    obtain ⟨b, hb, _, he⟩ := read_prefix v hwf off len h1
    rw [hb, he h2 hle]

/-- progress for arbitrary header/BAT contents -/
theorem readSectorsDyn_progress (v : Vhd) : ∀ fuel sector count, count ≤ fuel →
    v.readSectorsDyn fuel sector count ≠ .error .nonTermination := by
  intro fuel
  induction fuel with
  | zero =>
    intro s c h
    have : c = 0 := by omega
    subst this; simp [Vhd.readSectorsDyn]
  | succ fuel ih =>
    intro sector count hf
    unfold Vhd.readSectorsDyn
    by_cases hc : count = 0
    · simp [hc]
    · simp only [hc, if_false]
      by_cases hs : v.spb = 0
      · simp [hs]
      · simp only [hs, if_false]
        have hmod : sector % v.spb < v.spb := Nat.mod_lt _ (by omega)
        cases hb : v.bat (sector / v.spb) with
        | error e =>
          simp only [bind, Except.bind]
          unfold Vhd.bat at hb
          split at hb
          · cases hb; simp
          · simp only at hb
            split at hb <;> cases hb; simp
        | ok so =>
          simp only [bind, Except.bind]
          have := ih (sector + min count (v.spb - sector % v.spb))
            (count - min count (v.spb - sector % v.spb)) (by omega)
          cases hr : v.readSectorsDyn fuel (sector + min count (v.spb - sector % v.spb))
            (count - min count (v.spb - sector % v.spb)) with
          | error e => simp only; intro h; cases h; exact this hr
          | ok _ => simp

theorem read_terminates (v : Vhd) (off len : Nat) : v.read off len ≠ .error .nonTermination := by
  unfold Vhd.read Vhd.readSectors
  cases v.kind with
  | fixed => simp
  | dynamic => exact readSectorsDyn_progress v _ _ _ (Nat.le_refl _)

end Hv.Vhd
