"""gen_vmdk — independent writer for VMDK extents and descriptors (properties C02, C10).

Written from the VMware "Virtual Disk Format 1.1" note, the libvmdk format document and qemu block/vmdk.c
(SE-sparse); all offsets / encodings are hard-coded here.  Nothing of dissect.hypervisor is imported at generation
time; only open_impl / open_extent_impl / selftest run the real code.

An extent recipe is CONCRETE: it names the sector of the grain directory, of every allocated grain table and of every
stored grain, so building is a pure function of the recipe and truth is a dictionary lookup.
  hosted/COWD : "gd" sector, "gts" {table: sector}, "grains" {grain: sector | "z"}            (u32 entries)
  SE-sparse   : "gd","gt_off","gr_off" sectors, "gts" {table: index}, "grains" {grain: cluster | "z" | "f"}  (u64)
  stream      : additionally "plain" {grain: [seed, k, fill]} (what is deflated) and "clen" {grain: deflated length}
  flat        : "lead" sectors before the data (only for the known FLAT-start-offset shape), "extra" sectors after it
"""
from __future__ import annotations

import bisect
import json
import os
import random
import struct
import sys
import zlib
from pathlib import Path

from sparse import Image, pat_bytes

SEC = 512
KINDS = ["kdmv", "kdmv_footer", "kdmv_stream", "cowd", "sesparse", "flat"]
DESC_TYPE = {"kdmv": "SPARSE", "kdmv_footer": "SPARSE", "kdmv_stream": "SPARSE", "cowd": "VMFSSPARSE", "sesparse": "SESPARSE"}
GD_AT_END = 0xFFFFFFFFFFFFFFFF
SES_ALLOC, SES_ZERO, SES_FALL, SES_GD = 0x3 << 60, 0x2 << 60, 0x1 << 60, 0x1 << 60
MAXQ = 4 << 20


def _ceil(a, b):
    return -(-a // b)


def gseed(r, g):
    return (r["seed"] + 37 * g + 1) & 0xFF


def plain(spec, n):
    """plaintext of a compressed grain: k incompressible bytes, then a fill byte (fill>=0) or the pattern"""
    seed, k, fill = spec
    k = min(k, n)
    return random.Random(seed).randbytes(k) + (bytes([fill]) * (n - k) if fill >= 0 else pat_bytes(seed, k, n - k))


def _mk_plain(rng, n, hl, cls=None, gs=None):
    """choose a plaintext so that header+deflated size is <512 / 501..512 / just over 512 / several sectors;
    cls "full" (needs gs): the record fills exactly gs sectors, i.e. (gs-1)*512 < header+deflated <= gs*512 — what a packing
    stream writer produces for hardly compressible data: the next record then starts exactly one grain size further"""
    cls = cls or rng.choice(["tiny", "pat", "edge", "edge", "over", "multi"])
    seed, fill, k = rng.randrange(1 << 16), (-1 if cls == "pat" else rng.randrange(256)), 0
    if cls == "multi":
        k = min(n, rng.randrange(1100, 3000))
    elif cls in ("edge", "over", "full"):
        lo, hi = (501, 512) if cls == "edge" else (513, 540) if cls == "over" else ((gs - 1) * SEC + 1 + rng.choice([0, 0, 200, 480]), gs * SEC)
        k = max(0, min(n, lo - hl - 16))
        for _ in range(60):
            c = hl + len(zlib.compress(plain([seed, k, fill], n)))
            if c < lo and k < n:
                k = min(n, k + lo - c)
            elif c > hi and k > 0:
                k = max(0, k - (c - hi))
            else:
                break
    return [seed, k, fill], len(zlib.compress(plain([seed, k, fill], n)))


def _place(rng, items, start, gap_p, gaps, far=None):
    """sequential placement with optional gaps; from a random cut on, continue at a far base ("top": end at 2^32)"""
    pos, out = start, {}
    cut = rng.randrange(len(items)) if (far and items) else None
    for i, (k, n) in enumerate(items):
        if i == cut:
            pos = max(pos, (1 << 32) - sum(x[1] for x in items[i:]) if far == "top" else far)
            gap_p = 0 if far == "top" else gap_p
        if rng.random() < gap_p:
            pos += rng.choice(gaps)
        out[k] = pos
        pos += n
    return out, pos


def _perm(rng, n, big=0):
    style = rng.choice(["seq", "seq", "rev", "shuf", "holes"])
    p = list(range(n))
    if style == "rev":
        p.reverse()
    elif style == "shuf":
        rng.shuffle(p)
    elif style == "holes":
        p = rng.sample(range(2 * n + 3), n)
    return [x + big for x in p], style


def embedded_descriptor(cap, cid):
    return ("# Disk DescriptorFile\nversion=1\nCID=%08x\nparentCID=ffffffff\ncreateType=\"monolithicSparse\"\n\n# Extent description\n"
            "RW %d SPARSE \"self.vmdk\"\n\n# The Disk Data Base\n#DDB\n\nddb.virtualHWVersion = \"4\"\nddb.adapterType = \"ide\"\n" % (cid, cap))


def gen_extent(rng, tier, kind=None, capacity=None, huge=None, gs=None, order=None):
    """huge: None = occasionally, False = never, "cap" = only a huge capacity (file stays small), True = huge capacity and/or far placement
    gs: force the grain size (sectors).  order: force the physical order of the stored grains of a hosted / COWD extent
    ("seq", "rev", "shuf", "ident"; stream-optimised: "stride" = records on a grain-size raster, "packed" = sequential records some of
    which fill exactly one grain size); a forced order is laid out tight (no gaps, tables not mixed between the grains), so that
    logically consecutive grains end up exactly one grain size apart and get_runs merges them into one run."""
    kind = kind or rng.choice(KINDS)
    if huge is None:
        huge = rng.random() < (0.15 if tier == "thorough" else 0.1)
    seed = rng.randrange(256)
    if kind == "flat":
        cap = capacity or (rng.choice([1 << 32, (1 << 32) + 9, (1 << 33) + 1]) if huge is True else
                           rng.choice([1, 2, 15, 16, 17, 31, 100, 128, 1000, 4096, 5000]))
        return {"kind": "flat", "cap": cap, "seed": seed, "lead": 0, "extra": rng.choice([0, 0, 1, 9]), "info": {"huge": cap >= 1 << 32}}
    ses, cowd, comp = kind == "sesparse", kind == "cowd", kind == "kdmv_stream"
    hcap = bool(huge) and (huge == "cap" or rng.random() < 0.7)
    hfar = huge is True and (not hcap or rng.random() < 0.6)
    gs0, gs = gs, rng.choice([1, 8, 8, 16, 16, 128, 128] + ([2048] if tier == "thorough" and not comp else []))
    gs = gs0 or gs
    gt_secs = rng.choice([1, 2, 64])
    gte = 4096 if cowd else 64 * gt_secs if ses else rng.choice([512, 512, 512, 1, 7, 96, 4096])
    if hcap or (capacity is not None and capacity // (gs * gte) > 1 << 16):      # keep the grain directory below ~1 MiB
        gs, gt_secs = max(gs, 128), 64
        gte = 4096 if (cowd or ses) else max(gte, 512)
    if capacity is not None:
        cap = min(capacity, (1 << 32) - 1) if cowd else capacity
    elif hcap:
        cap = (1 << 32) - 1 - rng.choice([0, 5, gs]) if cowd else rng.choice([1 << 32, (1 << 32) + 1, (1 << 32) + 3 * gs + 5, (1 << 33) + 17])
    else:
        ngr = rng.choice([1, 2, 3, 5, 8, 13, 30, 70])
        if (gte <= 7 or (ses and gte == 64)) and rng.random() < 0.5:
            ngr = gte * rng.choice([129, 140, 170]) + rng.randrange(gte)          # more than 128 grain tables
        elif rng.random() < 0.12:
            ngr = max(1, gte * rng.choice([1, 2, 3]) + rng.choice([-1, 0, 1]))    # ends at / next to a grain-table boundary
        cap = max(1, ngr * gs - (rng.randrange(gs) if rng.random() < 0.4 else 0))
    G = _ceil(cap, gs)
    ngt = _ceil(G, gte)
    dense = G <= (300 if comp else 1300)
    if dense:
        cand = list(range(G))
    else:
        sp = {0, 1, G - 1, G - 2} | {rng.randrange(G) for _ in range(30)}
        sp |= {t * gte + d for t in {0, 1, ngt - 1, rng.randrange(ngt), rng.randrange(ngt)} for d in (-1, 0, 1)}
        sp |= {(1 << 32) // gs + d for d in (-2, -1, 0, 1)} | {x + 1 for x in list(sp)[:12]}
        cand = sorted(x for x in sp if 0 <= x < G)
    pa = rng.choice([0.3, 0.6, 0.9, 1.0]) if dense else rng.choice([0.6, 0.9])
    pz = 0 if cowd else rng.choice([0, 0, 0.2])
    grains = {}
    for g in cand:
        x = rng.random()
        if x < pa:
            grains[g] = "a"
        elif x < pa + pz:
            grains[g] = rng.choice("zf") if ses else "z"
    alloc = [g for g in cand if grains.get(g) == "a"]
    need = {g // gte for g in grains}
    others = [t for t in (range(ngt) if ngt <= 600 else {rng.randrange(ngt) for _ in range(5)}) if t not in need]
    gts = sorted(need | {t for t in others if rng.random() < 0.5})
    gsz = gs * SEC
    r = {"kind": kind, "cap": cap, "gs": gs, "gte": gte, "seed": seed}
    info = {"huge_cap": cap >= 1 << 32, "ngt": len(gts), "nalloc": len(alloc), "tail_partial": cap % gs != 0, "cap_mod16": cap % 16}
    far = None
    if hfar:
        far = rng.choice([(1 << 31) - rng.choice([1, 3, gs]), "top"]) if not ses else rng.choice([(1 << 32) + 5, (1 << 33) + 1, (1 << 33) + (1 << 20)])
    elif rng.random() < 0.08:
        far = rng.choice([(1 << 22) + 3, (1 << 23) + 1])                          # byte offsets beyond 2^31 / 2^32
    gap_p, gaps = rng.choice([0, 0, 0.3]), [1, 3, gs, 2 * gs]
    if ses:
        gd_secs = _ceil(ngt, 64) + rng.choice([0, 0, 1])
        tix, info["gt_order"] = _perm(rng, len(gts), rng.choice([0, 0, 0, 0, 0xFFFF, 0x10000]))   # table index beyond 16 bits
        cl, info["order"] = _perm(rng, len(alloc), rng.choice([0, 0, 0, 4095, 4090, 0x12345] + ([(1 << 24) + 0xABC, (1 << 36) + 0xFFE] if hfar else [])))
        if order == "seq":                       # forced: clusters in grain order, so that neighbours are merged into one run
            cl = [min(cl, default=0) + i for i in range(len(alloc))]
        cof = dict(zip(alloc, cl))
        info["far"] = far
        regs = [("gd", gd_secs), ("gt", (max(tix, default=0) + 1) * gt_secs), ("gr", (max(cl, default=0) + 1) * gs)]
        rng.shuffle(regs)
        pos, end = _place(rng, regs, rng.choice([2, 16, 4096]), gap_p, gaps + [100], far)
        r.update({"gd": pos["gd"], "gd_secs": gd_secs, "gt_secs": gt_secs, "gt_off": pos["gt"], "gr_off": pos["gr"],
                  "gts": {str(t): i for t, i in zip(gts, tix)},
                  "grains": {str(g): (v if v != "a" else cof[g]) for g, v in grains.items()}, "end": end * SEC})
        r["info"] = info
        return r
    # ---- hosted sparse / COWD: u32 sector pointers
    ngd = ngt + (rng.choice([0, 0, 1, 7]) if cowd else 0)
    lba = rng.random() < 0.7
    hl = 12 if lba else 4
    rec, plains, clens = {}, {}, {}
    tight = order is not None
    order = order or rng.choice(["seq", "seq", "rev", "shuf", "stride" if comp else "ident"])
    if comp and not tight and rng.random() < 0.3:
        order = rng.choice(["stride", "packed"])
    full = set()
    if order == "packed":
        # a few chains of logically consecutive grains whose records fill exactly gs sectors (bounded: such a grain is gs*512
        # bytes of hardly compressible data in the image); the grain after a chain starts one grain size further as well
        pairs = [i for i in range(len(alloc) - 1) if alloc[i + 1] == alloc[i] + 1]
        for _ in range(3 if pairs else 0):
            i = rng.choice(pairs)
            for j in range(i, i + rng.choice([1, 1, 2, 3])):
                if j + 1 < len(alloc) and alloc[j + 1] == alloc[j] + 1 and len(full) < (8 if gs >= 128 else 24):
                    full.add(alloc[j])
                else:
                    break
    short_last = comp and cap % gs and rng.random() < 0.5
    for g in alloc:
        if comp:
            n = (cap - g * gs) * SEC if (short_last and g == G - 1) else gsz
            plains[g], clens[g] = _mk_plain(rng, n, hl, "full" if (g in full and n == gsz) else None, gs)
            rec[g] = _ceil(hl + clens[g], SEC)
        else:
            rec[g] = gs
    data = [(f"g{g}", rec[g]) for g in alloc]
    meta = [(f"t{t}", _ceil(gte * 4, SEC)) for t in gts]
    if order == "rev":
        data.reverse()
    elif order == "shuf":
        rng.shuffle(data)
        rng.shuffle(meta)
    elif order == "stride":                     # logically consecutive compressed grains exactly grain_size sectors apart
        data = [(k, max(n, gs)) for k, n in data]
    elif order == "ident" and alloc and (alloc[-1] - alloc[0] + 1) * gs <= 1 << 14:
        data = [("ident", (alloc[-1] - alloc[0] + 1) * gs)]     # sector = base + grain*grain_size: unallocated holes between runs
    arr = rng.choice(["meta_first", "meta_last", "inter", "mixed"])
    if order == "packed" or tight:
        gap_p, arr = 0, ("inter" if arr == "mixed" else arr)
    if arr == "inter" and "ident" not in dict(data):         # each table next to its grains (stream-optimised style)
        items = []
        for k, n in meta:
            mine = [d for d in data if int(d[0][1:]) // gte == int(k[1:])]
            items += (mine + [(k, n)]) if comp or rng.random() < 0.5 else ([(k, n)] + mine)
    elif arr == "mixed":
        items = meta + data
        rng.shuffle(items)
    else:
        items = (data + meta) if arr == "meta_last" else (meta + data)
    footer = kind == "kdmv_footer" or (comp and rng.random() < 0.8)
    gd_item = ("gd", _ceil(ngd * 4, SEC))
    items.insert(len(items) if (footer and rng.random() < 0.7) else rng.randrange(len(items) + 1), gd_item)
    if not cowd and rng.random() < 0.25:
        items.insert(rng.randrange(len(items) + 1), ("rgd", gd_item[1]))        # area named as redundant GD; holds nothing
    desc = None
    start = 4 if cowd else 2
    if not cowd and rng.random() < 0.5:
        text = embedded_descriptor(cap, rng.randrange(1 << 32))
        dsecs = _ceil(len(text.encode()), SEC) + rng.choice([0, 0, 19])
        if rng.random() < 0.8:
            desc, start = [1, dsecs, text], 1 + dsecs
        else:
            items.insert(rng.randrange(len(items) + 1), ("desc", dsecs))
            desc = [None, dsecs, text]
    gd_far = None
    if hfar and not cowd and rng.random() < 0.5:
        items.remove(gd_item)
        far = far if rng.random() < 0.5 else None
    pos, end = _place(rng, items, start + rng.choice([0, 0, 0, 5, 126]), gap_p, gaps, far)
    if "gd" not in pos:
        gd_far = pos["gd"] = max(end, rng.choice([1 << 32, (1 << 32) + 7, (1 << 33) + 1]))
        end = pos["gd"] + gd_item[1]
    if desc and desc[0] is None:
        desc[0] = pos["desc"]
    gsec = {g: (pos["ident"] + (g - alloc[0]) * gs if "ident" in pos else pos[f"g{g}"]) for g in alloc}
    flags = 1 | (2 if "rgd" in pos else 0) | (4 if "z" in grains.values() else 0) | ((0x10000 | (0x20000 if lba else 0)) if comp else 0)
    ragged = not footer and rng.random() < 0.2           # file ends with the last structure, not padded to a sector
    last = max([(pos[k] * SEC + (ngd * 4 if k == "gd" else gte * 4 if k[0] == "t" else n * SEC)) for k, n in items + ([gd_item] if gd_far else [])] + [start * SEC])
    r.update({"gd": pos["gd"], "ngd": ngd, "gts": {str(t): pos[f"t{t}"] for t in gts},
              "grains": {str(g): (gsec[g] if v == "a" else "z") for g, v in grains.items()},
              "flags": 3 if cowd else flags, "ver": 3 if comp else 1, "footer": footer, "rgd": pos.get("rgd", 0), "desc": desc,
              "ovh": min(gsec.values(), default=end), "short_last": bool(short_last), "end": last if ragged else end * SEC + (3 * SEC if footer else 0)})
    if comp:
        r.update({"lba": lba, "plain": {str(g): s for g, s in plains.items()}, "clen": {str(g): c for g, c in clens.items()}})
        info["cmp_sizes"] = sorted({("<501" if hl + c < 501 else "501-512" if hl + c <= 512 else "513-1024" if hl + c <= 1024 else ">1024") for c in clens.values()})
    info.update({"order": order, "arr": arr, "far": far, "gd_far": gd_far, "ragged": ragged})
    r["info"] = info
    return r


# ------------------------------------------------------------------------------------------ building

def _put_table(im, off, ent, w):
    """little-endian table of w-byte entries; only runs of non-zero entries are written"""
    ks = sorted(k for k, v in ent.items() if v)
    i = 0
    while i < len(ks):
        j = i
        while j + 1 < len(ks) and ks[j + 1] == ks[j] + 1:
            j += 1
        im.put_hex(off + ks[i] * w, b"".join(ent[k].to_bytes(w, "little") for k in ks[i:j + 1]))
        i = j + 1


def _kdmv_header(r, gd):
    d = r["desc"] or [0, 0, ""]
    return struct.pack("<4sIIQQQQIQQQB4sH", b"KDMV", r["ver"], r["flags"], r["cap"], r["gs"], d[0], d[1], r["gte"], r["rgd"], gd,
                       r["ovh"], 0, b"\n \r\n", 1 if r["flags"] & 0x10000 else 0) + bytes(433)


def ses_entry(c):
    return SES_ALLOC | ((c & 0xFFF) << 48) | (c >> 12)


def build_extent(r) -> Image:
    im = Image()
    kind, cap = r["kind"], r["cap"]
    if kind == "flat":
        im.put_pat(0, r["lead"] * SEC, r["seed"] + 101)
        im.put_pat(r["lead"] * SEC, cap * SEC, r["seed"])
        im.put_pat((r["lead"] + cap) * SEC, r["extra"] * SEC, r["seed"] + 53)
        im = im.finish((r["lead"] + cap + r["extra"]) * SEC)
        if r.get("magic"):                      # raw guest data may begin with anything — e.g. with a sparse-extent magic
            im = im.patch(r["lead"] * SEC, bytes.fromhex(r["magic"]))
        return im
    gs, gte = r["gs"], r["gte"]
    gts = {int(t): v for t, v in r["gts"].items()}
    grains = {int(g): v for g, v in r["grains"].items()}
    if kind == "sesparse":
        h = [0xCAFEBABE, 0x0000000200000001, cap, gs, r["gt_secs"], 0, 0, 0, 0, 0, 1, 1, 0, 0, 0, 0,
             r["gd"], r["gd_secs"], r["gt_off"], (max(gts.values(), default=0) + 1) * r["gt_secs"], 0, 0, 0, 0,
             r["gr_off"], (max([c for c in grains.values() if not isinstance(c, str)], default=0) + 1) * gs]
        im.put_hex(0, struct.pack("<26Q", *h) + bytes(304))
        im.put_hex(SEC, struct.pack("<4Q", 0xCAFEBABE, 0, 1, 0))                       # volatile header
        _put_table(im, r["gd"] * SEC, {t: SES_GD | i for t, i in gts.items()}, 8)
        for t, i in gts.items():
            ent = {g % gte: (SES_ZERO if c == "z" else SES_FALL if c == "f" else ses_entry(c)) for g, c in grains.items() if g // gte == t}
            _put_table(im, (r["gt_off"] + i * r["gt_secs"]) * SEC, ent, 8)
        for g, c in grains.items():
            if not isinstance(c, str):
                im.put_pat((r["gr_off"] + c * gs) * SEC, gs * SEC, gseed(r, g))
        return im.finish(r["end"])
    if kind == "cowd":
        im.put_hex(0, struct.pack("<4s10I", b"COWD", 1, r["flags"], cap, gs, r["gd"], r["ngd"], (r["end"] // SEC) & 0xFFFFFFFF, _ceil(cap, 63 * 16), 16, 63))
    else:
        im.put_hex(0, _kdmv_header(r, GD_AT_END if r["footer"] else r["gd"]))
        if r["footer"]:
            im.put_hex(r["end"] - 3 * SEC, struct.pack("<QII", 1, 0, 3))                 # footer marker, footer, end-of-stream
            im.put_hex(r["end"] - 2 * SEC, _kdmv_header(r, r["gd"]))
        if r["desc"]:
            im.put_hex(r["desc"][0] * SEC, r["desc"][2].encode())
    _put_table(im, r["gd"] * SEC, gts, 4)
    bygt = {}
    for g, v in grains.items():
        bygt.setdefault(g // gte, {})[g % gte] = 1 if v == "z" else v
    for t, ent in bygt.items():
        _put_table(im, gts[t] * SEC, ent, 4)
    for g, v in grains.items():
        if v == "z":
            continue
        if kind == "kdmv_stream":
            spec, n = r["plain"][str(g)], min(gs, cap - g * gs if r["short_last"] else gs) * SEC
            z = zlib.compress(plain(spec, n))
            if len(z) != r["clen"][str(g)]:
                raise RuntimeError(f"zlib produced {len(z)} bytes, recipe planned {r['clen'][str(g)]} (different zlib?)")
            im.put_hex(v * SEC, (struct.pack("<QI", g * gs, len(z)) if r["lba"] else struct.pack("<I", len(z))) + z)
        else:
            im.put_pat(v * SEC, gs * SEC, gseed(r, g))
    return im.finish(r["end"])


class ExtentTruth:
    """.image, .sectors, .size, .read(off, n): guest bytes of ONE extent, from the recipe only"""

    def __init__(self, r):
        self.r, self.sectors, self.size = r, r["cap"], r["cap"] * SEC
        self.image = build_extent(r)
        if r["kind"] != "flat":
            self.gsz = r["gs"] * SEC
            self.loc = {int(g): v for g, v in r["grains"].items() if not isinstance(v, str)}
            self.keys = sorted(self.loc)
            self.base, self.mul = (r["gr_off"], r["gs"]) if r["kind"] == "sesparse" else (0, 1)

    def grain(self, g):
        r = self.r
        if r["kind"] == "kdmv_stream":
            n = min(r["gs"], r["cap"] - g * r["gs"] if r["short_last"] else r["gs"]) * SEC
            return plain(r["plain"][str(g)], n)
        return pat_bytes(gseed(r, g), (self.base + self.loc[g] * self.mul) * SEC, self.gsz)

    def read(self, off, n):
        r = self.r
        if r["kind"] == "flat":
            d = pat_bytes(r["seed"], r["lead"] * SEC + off, n)
            if r.get("magic") and off < 4 and n > 0:
                m = bytes.fromhex(r["magic"])[off:off + n]
                d = m + d[len(m):]
            return d
        out, end = [], off + n
        while off < end:
            g, ino = divmod(off, self.gsz)
            if g in self.loc:
                k = min(self.gsz - ino, end - off)
                if r["kind"] == "kdmv_stream":
                    out.append(self.grain(g)[ino:ino + k])
                else:
                    out.append(pat_bytes(gseed(r, g), (self.base + self.loc[g] * self.mul) * SEC + ino, k))
            else:
                i = bisect.bisect_right(self.keys, g)
                k = (min(end, self.keys[i] * self.gsz) if i < len(self.keys) else end) - off
                out.append(bytes(k))
            off += k
        return b"".join(out)


def extent_points(r):
    """byte offsets worth probing: grain edges, grain-table coverage edges, 0, end"""
    cap = r["cap"] * SEC
    pts = {0, cap}
    if r["kind"] != "flat":
        gsz = r["gs"] * SEC
        for g in r["grains"]:
            pts |= {int(g) * gsz, (int(g) + 1) * gsz}
        for t in r["gts"]:
            pts |= {int(t) * gsz * r["gte"], (int(t) + 1) * gsz * r["gte"]}
    return sorted(p for p in pts if p <= cap)


def hot_queries(r, limit=4):
    """requests that start in the middle of a grain of an ABSENT grain table and run into the next table, whose first grain is
    allocated (an absent table is skipped as a whole by get_runs: the skip must account for the offset inside the grain), and
    requests that start mid-grain in an unallocated grain and run into an allocated one"""
    if r["kind"] == "flat":
        return []
    gsz, gte, cap = r["gs"] * SEC, r["gte"], r["cap"] * SEC
    gts = {int(t) for t in r["gts"]}
    grains = {int(g): v for g, v in r["grains"].items()}
    out = []
    for t in sorted(gts):
        if t >= 1 and (t - 1) not in gts and not isinstance(grains.get(t * gte, "u"), str):
            p = t * gte * gsz
            for d in {max(SEC, gsz // 2 // SEC * SEC), 8192 if gsz > 8192 else SEC, gsz + max(SEC, gsz // 4 // SEC * SEC)}:
                if p - d >= 0 and p + 16384 <= cap:
                    out.append([p - d, d + 16384])
    for g in sorted(grains):
        if not isinstance(grains[g], str) and (g - 1) not in grains and g >= 1 and gsz > SEC:
            p = g * gsz
            d = max(SEC, gsz // 2 // SEC * SEC)
            if p + gsz <= cap:
                out.append([p - d, d + min(gsz, 16384)])
    return out[:limit] + run_queries(r)


def merged_chains(r):
    """[first, last] grain of every maximal chain of logically consecutive allocated grains that are stored exactly one grain size
    apart (get_runs merges such grains into ONE run; a stream-optimised extent then has to inflate them one by one)"""
    if r["kind"] == "flat":
        return []
    step = 1 if r["kind"] == "sesparse" else r["gs"]             # SE-sparse entries are cluster numbers
    loc = {int(g): v for g, v in r["grains"].items() if not isinstance(v, str)}
    chains = []
    for g in sorted(loc):
        if g - 1 in loc and loc[g] - loc[g - 1] == step:
            if chains and chains[-1][1] == g - 1:
                chains[-1][1] = g
            else:
                chains.append([g - 1, g])
    return chains


def run_queries(r, limit=6):
    """requests over a merged run that begin inside its first grain and end inside a later one (neither on a grain boundary, also
    after the stream has aligned them to any buffer size up to half a grain): next grain / last grain of the chain, from the
    middle of a grain and from one sector into it to one sector before the end"""
    gs = r.get("gs", 1)
    if gs < 2:
        return []
    gsz, cap, per = gs * SEC, r["cap"] * SEC, []
    h, q = gs // 2 * SEC, max(1, gs // 4) * SEC
    for a, b in merged_chains(r):
        qs = [[a * gsz + h, gsz], [a * gsz + SEC, (b - a) * gsz + gsz - 2 * SEC], [a * gsz + h + q + 1, (b - a) * gsz - h + SEC]]
        if b > a + 1:
            qs.insert(1, [a * gsz + h, (b - a) * gsz])
        per.append([[o, min(n, cap - o)] for o, n in qs if o < cap])
    out = []
    for i in range(4):                                           # round robin over the chains
        out += [c[i] for c in per if i < len(c)]
    return out[:limit]


# ------------------------------------------------------------------------------------------ multi-extent disks

def gen_disk(rng, tier, allow_known=False, kinds=None):
    """kinds: restrict the extent kinds (default: all of KINDS)"""
    mode = "handles" if rng.random() < 0.3 else "descriptor"
    n = rng.choice([1, 1, 2, 2, 3, 3, 4, 5, 8])
    stem = rng.choice(["disk", "disk", "my disk", "dïsk üñí", "ディスク", "a.b  c'#=x", "RW 5 FLAT", " lead",
                       "li\u2028ne", "ff\x0cff", "ne\u0085l", "vt\x0bvt", "fs\x1cfs", "ps\u2029ps"])
    exts = []
    info = {"has_unmapped_extent_kind": False, "has_flat_start_sector": False}
    for i in range(n):
        kind = rng.choice(kinds or KINDS)
        hg = (rng.random() < 0.06) if mode == "handles" else ("cap" if rng.random() < 0.05 else False)
        rec = gen_extent(rng, tier, kind, huge=hg)
        typ = DESC_TYPE.get(kind) or rng.choice(["FLAT", "VMFS"])
        e = {"rec": rec, "sectors": rec["cap"], "name": f"{stem}-{'f' if kind == 'flat' else 's'}{i + 1:03d}.vmdk",
             "access": rng.choice(["RW", "RW", "RW", "RDONLY", "NOACCESS"]), "type": typ, "start": None, "opt": []}
        if kind == "flat":
            if mode == "handles":
                rec["extra"] = 0                        # a bare handle has no declared length: the file is the extent
            if typ == "FLAT" or rng.random() < 0.2:
                e["start"] = 0
                e["opt"] = rng.choice([[], [], ["6c9a2e0f-41b7-4a55-9d0c-0123456789ab"], ["partitionUUID", "vml.0200000000600508b1001c7e"]])
            if mode == "descriptor" and rec["cap"] >= 64 and rng.random() < 0.2:
                rec["magic"] = rng.choice([b"KDMV", b"COWD", bytes.fromhex("bebafeca")]).hex()     # FLAT data that looks like a sparse header
            if allow_known and mode == "descriptor" and rng.random() < 0.3:
                rec["lead"] = e["start"] = rng.choice([1, 8, 63, 2048])
                info["has_flat_start_sector"] = True
        exts.append(e)
    if mode == "descriptor" and len(exts) >= 2 and rng.random() < 0.2:
        # two extent files whose names differ only in letter case (a case-sensitive file system keeps them apart)
        i, j = rng.sample(range(len(exts)), 2)
        alt = exts[i]["name"].swapcase()
        if alt != exts[i]["name"] and alt.casefold() == exts[i]["name"].casefold() and all(e["name"] != alt for e in exts):
            exts[j]["name"] = alt
    if allow_known and mode == "descriptor" and rng.random() < 0.5:
        for _ in range(rng.choice([1, 1, 2])):
            typ = rng.choice(["ZERO", "ZERO", "VMFSRDM", "VMFSRAW"])
            if typ == "ZERO":
                e = {"rec": None, "sectors": rng.choice([1, 16, 100, 2048]), "name": None, "access": "RW", "type": typ, "start": None, "opt": []}
            else:
                rec = gen_extent(rng, tier, "flat", huge=False)
                e = {"rec": rec, "sectors": rec["cap"], "name": f"{stem}-rdm{len(exts)}.vmdk", "access": "RW", "type": typ, "start": None, "opt": []}
            exts.insert(rng.randrange(len(exts) + 1), e)
            info["has_unmapped_extent_kind"] = True
    kinds = {e["rec"]["kind"] for e in exts if e["rec"]}
    ct = ("custom" if len(kinds) > 1 else "streamOptimized" if kinds == {"kdmv_stream"} else "vmfsSparse" if kinds == {"cowd"} else
          "seSparse" if kinds == {"sesparse"} else rng.choice(["monolithicFlat", "twoGbMaxExtentFlat", "vmfs"]) if kinds == {"flat"} else
          rng.choice(["monolithicSparse", "twoGbMaxExtentSparse"]))
    ddb = [["ddb.virtualHWVersion", str(rng.choice([4, 7, 13, 21]))], ["ddb.adapterType", rng.choice(["ide", "lsilogic", "buslogic"])],
           ["ddb.geometry.cylinders", str(rng.randrange(1, 65536))], ["ddb.geometry.heads", "16"], ["ddb.geometry.sectors", "63"],
           ["ddb.uuid", "60 00 C2 9%x a8 f1 0c 5d-9b 2f 11 6e 7e 5b d0 %02x" % (rng.randrange(16), rng.randrange(256))],
           ["ddb.longContentID", "%032x" % rng.getrandbits(128)], ["ddb.comment", "café = \"x\" #y"]]
    rng.shuffle(ddb)
    desc = {"name": stem + ".vmdk", "cid": "%08x" % rng.getrandbits(32), "createType": ct, "ddb": ddb[:rng.randrange(len(ddb) + 1)],
            "eol": rng.choice(["\n", "\n", "\r\n"]), "eq": rng.choice(["=", "=", " = "]), "indent": rng.choice(["", "", "  ", "\t"]),
            "extra_attr": rng.choice([[], [["encoding", "UTF-8"]], [["encoding", "windows-1252"], ["isNativeSnapshot", "no"]]]),
            "final_eol": rng.random() < 0.8}
    return {"mode": mode, "extents": exts, "desc": desc, "named": rng.random() < 0.7,
            "open_as": rng.choice(["path", "str", "fh"]) if mode == "descriptor" else rng.choice(["list", "single"]), "info": info}


def extent_line(e):
    s = f'{e["access"]} {e["sectors"]} {e["type"]}'
    if e["name"] is not None:
        s += f' "{e["name"]}"'
    if e["start"] is not None:
        s += f' {e["start"]}'
    return s + "".join(" " + o for o in e["opt"])


def render_descriptor(r):
    d = r["desc"]
    q = lambda k, v: f'{k}{d["eq"]}"{v}"'   # noqa: E731
    hint = [q("parentFileNameHint", d["parent_hint"])] if d.get("parent_hint") is not None else []
    if d.get("hint_line") is not None:          # the line as written (unquoted / empty / blank values), see gen_delta_link
        hint = [d["hint_line"]]
    lines = ["# Disk DescriptorFile", "version=1"] + [q(k, v) for k, v in d["extra_attr"]] + [f'CID{d["eq"]}{d["cid"]}', f'parentCID{d["eq"]}{d.get("parent_cid", "ffffffff")}',
             q("createType", d["createType"])] + hint + ["", "# Extent description"] + [d["indent"] + extent_line(e) for e in r["extents"]] + \
            ["", "# The Disk Data Base", "#DDB", ""] + [d["indent"] + f'{k} = "{v}"' for k, v in d["ddb"]]
    return d["eol"].join(lines) + (d["eol"] if d["final_eol"] else "")


class DiskTruth:
    """.files {name: Image}, .order (extent file names in declared order), .size, .read, .descriptor_name, .extent_lines, .attr, .ddb"""

    def __init__(self, r):
        self.r, self.files, self.order, self.ext = r, {}, [], []
        base = 0
        for e in r["extents"]:
            t = ExtentTruth(e["rec"]) if e["rec"] else None
            if t is not None and t.sectors != e["sectors"]:
                raise ValueError("descriptor sectors != extent capacity")
            if t is not None:
                self.files[e["name"]] = t.image
                self.order.append(e["name"])
            self.ext.append((base, e["sectors"] * SEC, t))
            base += e["sectors"] * SEC
        self.size = base
        self.descriptor_name = None
        self.extent_lines, self.attr, self.ddb = [], {}, {}
        if r["mode"] == "descriptor":
            d = r["desc"]
            self.descriptor_name = d["name"]
            self.files[d["name"]] = Image()
            self.files[d["name"]].put_hex(0, render_descriptor(r).encode("utf-8"))
            self.files[d["name"]].finish()
            self.extent_lines = [{"access_mode": e["access"], "sectors": e["sectors"], "type": e["type"], "filename": e["name"],
                                  "start_sector": e["start"], "partition_uuid": (e["opt"] + [None, None])[0],
                                  "device_identifier": (e["opt"] + [None, None])[1]} for e in r["extents"]]
            self.attr = dict([["version", "1"]] + d["extra_attr"] + [["CID", d["cid"]], ["parentCID", d.get("parent_cid", "ffffffff")], ["createType", d["createType"]]] +
                             ([["parentFileNameHint", d["parent_hint"]]] if d.get("parent_hint") is not None else []))
            self.ddb = dict(d["ddb"])

    def read(self, off, n):
        out, end = [], off + n
        for base, size, t in self.ext:
            a, b = max(off, base), min(end, base + size)
            if a < b:
                out.append(t.read(a - base, b - a) if t else bytes(b - a))
        return b"".join(out)

    def points(self):
        pts = {0, self.size}
        for base, size, t in self.ext:
            pts |= {base, base + size} | ({base + p for p in extent_points(t.r)} if t else set())
        return sorted(pts)


# ------------------------------------------------------------------------------------------ delta disks (descriptor + parent)

DELTA_KINDS = ["kdmv", "kdmv", "kdmv_footer", "cowd", "sesparse", "kdmv_stream"]
HINTS = {"same": "{}", "sibling": "../basedir/{}", "winpath": "C:\\vms\\basedir\\{}", "missing": "nowhere/absent-{}"}


def gen_delta(rng, tier, n=None, where=None, base_kinds=None):
    """a delta disk over a parent disk: the parent is a descriptor disk of gen_disk (any extent kinds, so its content depends on
    the position), the child a descriptor with a parent CID / parentFileNameHint naming n >= 1 sparse extents (each with its own
    kind, grain size, tables, allocation map) whose capacities add up to the parent's capacity; the cuts between the child's
    extents are unrelated to the grain sizes and to the parent's extent boundaries (or, sometimes, exactly on one of those).
    where: the parent lies in the child's directory / a sibling directory named by the hint / behind a Windows path / nowhere."""
    while True:
        base = gen_disk(rng, tier, kinds=base_kinds)
        # the hint is a descriptor *value*: values lose leading / trailing blanks and quotes
        nm = base["desc"]["name"] if base["mode"] == "descriptor" else ""
        if base["mode"] == "descriptor" and 0 < sum(e["sectors"] for e in base["extents"]) < (1 << 22) and nm == nm.strip(' "'):
            break
    cap = sum(e["sectors"] for e in base["extents"])
    n = min(n or rng.choice([1, 1, 2, 2, 3, 4]), cap)
    cuts = set()
    bounds = [b for b in _prefix([e["sectors"] for e in base["extents"]]) if 0 < b < cap]
    while len(cuts) < n - 1:
        c = rng.choice(bounds) if bounds and rng.random() < 0.2 else rng.randrange(1, cap)
        cuts.add(c if rng.random() < 0.6 else min(cap - 1, max(1, c // 128 * 128)))
    edges = [0] + sorted(cuts) + [cap]
    exts = []
    for i in range(n):
        kind = rng.choice(DELTA_KINDS)
        rec = gen_extent(rng, tier, kind=kind, capacity=edges[i + 1] - edges[i], huge=False)
        exts.append({"rec": rec, "sectors": rec["cap"], "name": f"child-s{i + 1:03d}.vmdk", "access": "RW", "type": DESC_TYPE[kind], "start": None, "opt": []})
    where = where or rng.choice(["same", "same", "sibling", "winpath", "missing"])
    desc = {"name": "child.vmdk", "cid": "%08x" % rng.getrandbits(32), "parent_cid": base["desc"]["cid"], "parent_hint": HINTS[where].format(nm),
            "createType": rng.choice(["twoGbMaxExtentSparse", "vmfsSparse", "seSparse", "custom"]), "ddb": [], "eol": "\n", "eq": "=", "indent": "",
            "extra_attr": [], "final_eol": True}
    return {"base": base, "where": where, "child": {"mode": "descriptor", "extents": exts, "desc": desc, "named": True, "open_as": "path", "info": {}}}


# how the child's link to its parent is written (gen_delta_link).  hint: the parentFileNameHint line; None = no such line, otherwise
# the text after `parentFileNameHint=` ({} = the parent's name).  A link whose hint names nothing designates no parent: E.
LINK_HINTS = {"ok": '"{}"', "absent": None, "empty": '""', "empty_bare": "", "blank": '"   "', "blank_bare": "   ", "tab": '"\t"', "quote_only": '"'}
# parentCID as written, from the parent's CID (8 lower-case hex digits, leading zeros, at least one letter)
LINK_CIDS = {"exact": lambda c: c, "upper": lambda c: c.upper(), "short": lambda c: c.lstrip("0"), "short_upper": lambda c: c.lstrip("0").upper(),
             "mixed": lambda c: "".join(ch.upper() if i % 2 else ch for i, ch in enumerate(c))}


def gen_delta_link(rng, tier, embedded, hint, cid, where="same"):
    """a delta disk whose LINK to the parent is the subject: the parent (present, in the child's or a sibling directory) is a
    descriptor disk, the child either a text descriptor over 1..2 sparse extents or one hosted sparse extent with an embedded
    descriptor (monolithicSparse, opened by its path).  hint / cid: keys of LINK_HINTS / LINK_CIDS.  r["link"]["expect"] is
    "overlay" when the hint names the parent, "E" when it names nothing (no line, empty / blank value)."""
    r = gen_delta(rng, tier, n=1 if embedded else rng.choice([1, 2]), where=where)
    base, child = r["base"], r["child"]
    low = "%05x" % rng.getrandbits(20)
    k = rng.randrange(5)
    bcid = "000" + low[:k] + rng.choice("abcdef") + low[k + 1:]
    base["desc"]["cid"] = bcid
    pcid = LINK_CIDS[cid](bcid)
    nm = base["desc"]["name"]
    val = LINK_HINTS[hint]
    hint_line = None if val is None else "parentFileNameHint=" + val.format(HINTS[where].format(nm))
    if not embedded:
        d = child["desc"]
        d["parent_cid"], d["parent_hint"], d["hint_line"] = pcid, None, hint_line
    else:
        cap = child["extents"][0]["sectors"]
        lines = ["# Disk DescriptorFile", "version=1", "CID=%08x" % rng.getrandbits(32), "parentCID=" + pcid, 'createType="monolithicSparse"'] + \
                ([hint_line] if hint_line is not None else []) + ["", "# Extent description", 'RW %d SPARSE "child.vmdk"' % cap, "",
                                                                 "# The Disk Data Base", "#DDB", "", 'ddb.virtualHWVersion = "13"', ""]
        text = "\n".join(lines)
        while True:
            rec = gen_extent(rng, tier, kind=rng.choice(["kdmv", "kdmv", "kdmv_footer", "kdmv_stream"]), capacity=cap, huge=False)
            if rec["desc"] and len(text.encode()) <= rec["desc"][1] * SEC and rec["cap"] == cap:
                break
        rec["desc"][2] = text
        e = {"rec": rec, "sectors": cap, "name": "child.vmdk", "access": "RW", "type": "SPARSE", "start": None, "opt": []}
        r["child"] = {"mode": "handles", "extents": [e], "desc": None, "named": True, "open_as": "single", "info": {}}
    r["link"] = {"embedded": embedded, "hint": hint, "cid": cid, "expect": "overlay" if hint == "ok" else "E"}
    return r


def _prefix(xs):
    out, a = [], 0
    for x in xs:
        a += x
        out.append(a)
    return out


class DeltaTruth:
    """.base (DiskTruth of the parent), .child (DiskTruth of the child read on its own), .size, .read: a grain the child's extent
    does not hold (unallocated / SE-sparse fall-through) shows the parent's bytes at the same ABSOLUTE disk position"""

    def __init__(self, r):
        self.r, self.base, self.child = r, DiskTruth(r["base"]), DiskTruth(r["child"])
        self.size = self.child.size

    def read(self, off, n):
        out, end = [], off + n
        for ebase, esize, t in self.child.ext:
            a, b = max(off, ebase), min(end, ebase + esize)
            gsz, grains = t.r["gs"] * SEC, t.r["grains"]
            while a < b:
                g, ino = divmod(a - ebase, gsz)
                k = min(gsz - ino, b - a)
                v = grains.get(str(g))
                if v is None or v == "f":
                    out.append((self.base.read(a, k) + bytes(k))[:k])      # below a shorter parent: zeros
                elif v == "z":
                    out.append(bytes(k))
                else:
                    out.append(t.read(a - ebase, k))
                a += k
        return b"".join(out)

    def points(self):
        return sorted(set(self.child.points()) | {p for p in self.base.points() if p <= self.size})

    def hot_queries(self, limit=6):
        """requests at grains that an extent OTHER than the first one does not hold (the parent is asked at extent start + offset),
        alone and together with the end of the previous extent"""
        out = []
        for ebase, esize, t in self.child.ext[1:]:
            gsz, grains = t.r["gs"] * SEC, t.r["grains"]
            ng = _ceil(esize, gsz)
            free = [g for g in (range(ng) if ng <= 4096 else [0, 1, 2, ng - 2, ng - 1]) if grains.get(str(g)) in (None, "f")]
            for g in free[:1] + free[-1:]:
                a = ebase + g * gsz
                out.append([a, min(gsz, ebase + esize - a)])
                out.append([max(0, a - 3 * SEC), min(3 * SEC + gsz // 2 + 1, self.size - max(0, a - 3 * SEC))])
        return out[:limit]

    def write(self, d):
        """child in <d>/childdir, parent next to it or in <d>/basedir (or nowhere); returns the child descriptor's path"""
        cdir = os.path.join(d, "childdir")
        os.makedirs(cdir)
        bdir = cdir if self.r["where"] in ("same", "missing") else os.path.join(d, "basedir")
        os.makedirs(bdir, exist_ok=True)
        if self.r["where"] != "missing":
            for name, im in self.base.files.items():
                im.write_to(os.path.join(bdir, name))
        for name, im in self.child.files.items():
            im.write_to(os.path.join(cdir, name))
        return os.path.join(cdir, self.child.descriptor_name or self.child.order[0])      # embedded descriptor: the extent itself


# ------------------------------------------------------------------------------------------ real code

def _VMDK():
    try:
        from dissect.hypervisor.disk.vmdk import VMDK
    except ImportError:
        sys.path.insert(0, "/repo")
        from dissect.hypervisor.disk.vmdk import VMDK
    return VMDK


def open_extent_impl(et, name="extent.vmdk"):
    """one extent through the real code: VMDK([handle]) (sparse kinds -> SparseDisk, flat -> RawDisk)"""
    return _VMDK()([et.image.open(name)])


def open_impl(truth, tmpdir):
    VMDK = _VMDK()
    r = truth.r
    if r["mode"] == "descriptor":
        for name, im in truth.files.items():
            im.write_to(os.path.join(tmpdir, name))
        p = os.path.join(tmpdir, truth.descriptor_name)
        return VMDK(Path(p) if r["open_as"] == "path" else p if r["open_as"] == "str" else open(p, "rb"))
    fhs = [truth.files[n].open(n if r["named"] else None) for n in truth.order]
    return VMDK(fhs[0] if (len(fhs) == 1 and r["open_as"] == "single") else fhs)


def impl_metadata(stream):
    d = stream.descriptor
    if d is None:
        return None
    keys = ["access_mode", "sectors", "type", "filename", "start_sector", "partition_uuid", "device_identifier"]
    return {"extent_lines": [{k: getattr(e, k) for k in keys} for e in d.extents], "attr": dict(d.attr), "ddb": dict(d.ddb), "sectors": d.sectors}


def gen_queries(rng, size, pts, n, unit=8192):
    """[off, len] requests: full, edges of grains / tables / extents (+-1, +-sector), spans over several edges, tail, random"""
    qs = [[0, min(size, MAXQ)]]
    for _ in range(n - 1):
        k = rng.choice(["edge", "edge", "edge", "span", "tail", "rand", "small"])
        if k == "edge":
            p = rng.choice(pts)
            off = max(0, p + rng.choice([-1, 0, 1, -SEC, SEC, -rng.randrange(1, 2 * unit), -unit]))
            ln = rng.choice([1, 2, SEC, SEC + 1, unit, unit + 1, 2 * unit, rng.randrange(1, 5 * unit), 70000])
        elif k == "span":
            i = rng.randrange(len(pts))
            j = min(len(pts) - 1, i + rng.randrange(1, 6))
            off = max(0, pts[i] - rng.choice([0, 1, SEC, rng.randrange(unit)]))
            ln = pts[j] - off + rng.choice([0, 1, SEC, rng.randrange(unit)])
        elif k == "tail":
            off = max(0, size - rng.choice([1, SEC, SEC + 1, unit, unit + 1, rng.randrange(1, 4 * unit)]))
            ln = size - off + rng.choice([0, 1, 100000])
        elif k == "small":
            off, ln = rng.randrange(size), rng.randrange(0, 16)
        else:
            off, ln = rng.randrange(size + 3), rng.randrange(0, min(size, 200000) + 1)
        qs.append([off, max(0, min(ln, MAXQ))])
    qs.append([0, min(size, 3 * unit)])                  # come back to the start (after the table cache has been cycled)
    return qs


def compare_reads(stream, truth, queries):
    bad = []
    if stream.size != truth.size:
        bad.append({"what": "size", "impl": stream.size, "truth": truth.size})
    for off, ln in queries:
        want = truth.read(off, max(0, min(ln, truth.size - off))) if off < truth.size else b""
        try:
            stream.seek(off)
            got = stream.read(ln)
        except Exception as e:  # noqa
            bad.append({"what": "read raised", "off": off, "len": ln, "error": f"{type(e).__name__}: {e}"[:200]})
            break
        if got != want:
            k = next((i for i, (x, y) in enumerate(zip(got, want)) if x != y), min(len(got), len(want)))
            bad.append({"what": "data", "off": off, "len": ln, "got_len": len(got), "want_len": len(want), "first_diff_at": off + k,
                        "got": got[k:k + 8].hex(), "want": want[k:k + 8].hex()})
    return bad


def selftest(n=300, seed=0, tier="quick", allow_known=False, verbose=False):
    import signal
    import tempfile
    import time

    def alarm(*_):
        raise TimeoutError("real code did not return within 60 s")
    signal.signal(signal.SIGALRM, alarm)
    rng = random.Random(f"gen_vmdk/{seed}")
    stats, fails, t0 = {}, [], time.time()
    for i in range(n):
        disk = i % 3 == 2
        delta = i % 12 == 11
        if delta:
            r = gen_delta(rng, tier, where=rng.choice(["same", "sibling", "winpath"]))
            tag = "delta/%d" % min(len(r["child"]["extents"]), 3)
        elif disk:
            r = gen_disk(rng, tier, allow_known)
            tag = "disk/" + r["mode"]
        else:
            r = gen_extent(rng, tier, KINDS[(i // 3 * 2 + i % 3) % 6])
            if r["kind"] == "flat":
                r["extra"] = 0                                   # a bare flat handle has no declared length
            tag = r["kind"]
        qrng = random.Random(f"q/{seed}/{i}")
        bad = []
        signal.alarm(60)
        try:
            if delta:
                t = DeltaTruth(r)
                with tempfile.TemporaryDirectory(prefix="gen_vmdk.") as tmp:
                    s = _VMDK()(Path(t.write(tmp)))
                    bad = compare_reads(s, t, gen_queries(qrng, t.size, t.points(), 14) + t.hot_queries())
                    del s
            elif disk:
                t = DiskTruth(r)
                with tempfile.TemporaryDirectory(prefix="gen_vmdk.") as tmp:
                    s = open_impl(t, tmp)
                    bad = compare_reads(s, t, gen_queries(qrng, t.size, t.points(), 14))
                    md = impl_metadata(s)
                    if r["mode"] == "descriptor":
                        for k, want in (("extent_lines", t.extent_lines), ("attr", t.attr), ("ddb", t.ddb), ("sectors", t.size // SEC)):
                            if md is None or md[k] != want:
                                bad.append({"what": "metadata " + k, "impl": md and md[k], "truth": want})
                    del s
            else:
                t = ExtentTruth(r)
                bad = compare_reads(open_extent_impl(t), t, gen_queries(qrng, t.size, extent_points(r), 14))
        except Exception as e:  # noqa
            import traceback
            bad.append({"what": "case raised", "error": f"{type(e).__name__}: {e}"[:300], "trace": traceback.format_exc()[-600:]})
        finally:
            signal.alarm(0)
        st = stats.setdefault(tag, [0, 0])
        st[0] += 1
        known = disk and not delta and any(r["info"].values())
        if bad:
            st[1] += 1
            fails.append((i, tag, known))
            print(f"MISMATCH case {i} [{tag}]{' (known shape: ' + json.dumps(r['info']) + ')' if known else ''}")
            for b in bad[:4]:
                print("   ", json.dumps(b, default=str, ensure_ascii=False)[:700])
            js = json.dumps(r, ensure_ascii=False)
            print("    recipe:", js if len(js) < 3000 or verbose else js[:3000] + f"... ({len(js)} chars)")
    print(f"selftest seed={seed} tier={tier}: {n} cases in {time.time() - t0:.1f}s; mismatching: {len(fails)} "
          f"({sum(1 for f in fails if f[2])} of them with a known-problem shape)")
    for tag in sorted(stats):
        print(f"  {tag:18s} cases={stats[tag][0]:4d} mismatching={stats[tag][1]}")
    return fails


if __name__ == "__main__":
    a = [x for x in sys.argv[1:] if not x.startswith("--")]
    if a[:1] == ["selftest"]:
        f = selftest(int(a[1]) if len(a) > 1 else 300, int(a[2]) if len(a) > 2 else 0, "thorough" if "--thorough" in sys.argv else "quick",
                     "--known" in sys.argv, "--verbose" in sys.argv)
        sys.exit(1 if any(not k for _, _, k in f) else 0)
    print("usage: gen_vmdk.py selftest [n] [seed] [--known] [--thorough] [--verbose]")
