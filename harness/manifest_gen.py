#!/usr/bin/env python3
"""Regenerates MANIFEST.json from the table below (kept here so the file stays valid and uniform)."""
import json
from pathlib import Path

ROOT = Path(__file__).resolve().parent.parent
BASE = "cd /repo && /venv/bin/python -m pytest -ra -q -p no:cacheprovider --timeout=900 --continue-on-collection-errors tests"

# per property: [level text, design ref, technique, level note] — kept in a JSON file so that work copies merge easily
CHECKS = {k: tuple(v) for k, v in json.loads((ROOT / "harness" / "manifest_checks.json").read_text()).items()}

NOT_YET = {
}


def main():
    checks = []
    for pid, (text, ref, tech, note) in sorted(CHECKS.items()):
        checks.append({
            "property_id": pid,
            "quick_cmd": f"./check {pid} --tier quick",
            "thorough_cmd": f"./check {pid} --tier thorough",
            "evidence_file": f"evidence/{pid}.json",
            "replay_cmd_template": f"./check {pid} --replay {{path}}",
            "engine": "lean4+correspondence",
            "level_claimed": {"category": "proof", "text": text, "design_ref": ref},
            "level_note": note,
            "technique": tech,
        })
    props = [json.loads(l)["id"] for l in (ROOT / "properties.jsonl").read_text().splitlines() if l.strip()]
    na = [{"property_id": p, "reason": NOT_YET.get(p, "check not built yet in this round (model and theorems planned in DESIGN.md §6; not a limitation of the technique)")}
          for p in props if p not in CHECKS]
    m = {
        "version": 1,
        "setup_cmd": "./setup.sh",
        "hooks": {"guard": "DISSECT_HYPERVISOR_VERIF", "enable": "no source hooks are needed; the guard name is reserved",
                  "baseline_off_cmd": BASE, "source_commits": [], "add_only": True},
        "engines": [{"name": "lean4+correspondence", "path": "lean/ + harness/", "serves_properties": sorted(CHECKS),
                     "kind_free_text": "Lean 4 models + theorems (lake), constants/layouts regenerated from /repo on every run, compiled Lean driver compared with the real code and with construction truth"}],
        "checks": checks,
        "notes": "See DESIGN.md. Exit 0 = held; 1 = VIOLATION line; 2 = infrastructure failure (never a verdict).",
        "not_applicable": na,
    }
    (ROOT / "MANIFEST.json").write_text(json.dumps(m, indent=1) + "\n")


if __name__ == "__main__":
    main()
