import Hv.Driver.Core
import Hv.Vdi
import Hv.Footprint
namespace Hv.Driver
open Hv

/-- open a VDI (optionally over a parent VDI file id) -/
def vdiOpen (st : St) (id pid : String) : Except Err Vdi.Vdi := do
  let some fh := st.file? id | throw .other
  let parent : Option Vdi.Reader ← (match st.file? pid with
    | none => pure none
    | some pf => do
      let pv ← Vdi.open pf none
      pure (some (Vdi.read pv)))
  Vdi.open fh parent

def vdiCmd (st : St) : List String → String
  | ["vdi.open", id, pid] =>
    match vdiOpen st id pid with
    | .ok v => s!"ok size={v.size} bs={v.blockSize} ss={v.sectorSize} n={v.map.size} wf={if Vdi.wfb v then 1 else 0}"
    | .error e => s!"err {e}"
  | ["vdi.read", id, pid, off, len] =>
    match vdiOpen st id pid, off.toNat?, len.toNat? with
    | .ok v, some o, some l => fmtRes (Vdi.read v o l)
    | .error e, _, _ => s!"err {e}"
    | _, _, _ => "bad-args"
  | ["vdi.spec", id, pid, off, len] =>
    match vdiOpen st id pid, off.toNat?, len.toNat? with
    | .ok v, some o, some l =>
      -- parent content for the spec: the parent's own guest function (depth-1 chains)
      let pc : Nat → UInt8 := match st.file? pid with
        | none => fun _ => 0
        | some pf => match Vdi.open pf none with
          | .ok pv => Vdi.guest pv (fun _ => 0)
          | .error _ => fun _ => 0
      fmtBytes (slice (Vdi.guest v pc) o (min l (v.size - o)))
    | .error e, _, _ => s!"err {e}"
    | _, _, _ => "bad-args"
  | ["vdi.footprint", id, pid, off, len] =>
    -- C13: the file ranges `_read(off, len)` may look at (HvProofs/Footprint.lean: vdi_read_footprint)
    match vdiOpen st id pid, off.toNat?, len.toNat? with
    | .ok v, some o, some l => Footprint.render (Footprint.vdi v o l)
    | .error e, _, _ => s!"err {e}"
    | _, _, _ => "bad-args"
  | ["vdi.openfp", id] =>
    match st.file? id with
    | some fh => Footprint.render (Footprint.vdiOpen fh)
    | none => "bad-args"
  | "vdi.stream" :: id :: pid :: align :: ops =>
    match vdiOpen st id pid, align.toNat? with
    | .ok v, some a => runStream (Vdi.read v) v.size a ops
    | .error e, _ => s!"err {e}"
    | _, _ => "bad-args"
  | _ => "bad-cmd"

end Hv.Driver
