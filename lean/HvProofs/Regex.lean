/-
  HvProofs.Regex — a fuel-free reading of the backtracking matcher `Hv.Regex.matchRe` for the
  regex constructs that occur in `RE_EXTENT_DESCRIPTOR`.

  `Sem t r d m`: on every input `s`, with any continuation, `matchRe t f r s …` with fuel
  `f ≥ d + |s|` is the fuel-free continuation-passing matcher `m`.  The combinators `mChar`, `mSeq`,
  `mOr`, `mGroup`, `mOpt` (`(…)?`), `mPlus` (greedy `x+` / `x*` of a one-character class), `mBos`,
  `mEos` mirror the constructors; the lemmas `sem_*` are compositional, so the denotation of a concrete
  regex AST is obtained by applying them along the AST.
-/
import Hv.Prim.Regex
namespace Hv.Regex

abbrev K := List Char → Nat → Caps → Option Caps
abbrev M := List Char → Nat → Caps → K → Option Caps

def mChar (P : Char → Bool) : M := fun s pos caps k =>
  match s with
  | x :: xs => if P x then k xs (pos + 1) caps else none
  | [] => none
def mNil : M := fun s pos caps k => k s pos caps
def mSeq (a b : M) : M := fun s pos caps k => a s pos caps (fun s' p' c' => b s' p' c' k)
def mFail : M := fun _ _ _ _ => none
def mOr (a b : M) : M := fun s pos caps k =>
  match a s pos caps k with
  | some c => some c
  | none => b s pos caps k
def mGroup (i : Nat) (b : M) : M := fun s pos caps k =>
  b s pos caps (fun s' p' c' => k s' p' (setCap c' i (pos, p')))
def mOpt (b : M) : M := fun s pos caps k =>
  match b s pos caps (fun s' p' c' => if p' = pos then none else k s' p' c') with
  | some c => some c
  | none => k s pos caps
/-- greedy `x{min,}` of a one-character class: longest run first, then shorter ones -/
def mPlus (P : Char → Bool) : Nat → List Char → Nat → Caps → K → Option Caps
  | min, [], pos, caps, k => if min = 0 then k [] pos caps else none
  | min, x :: xs, pos, caps, k =>
    match (if P x then mPlus P (min - 1) xs (pos + 1) caps k else none) with
    | some c => some c
    | none => if min = 0 then k (x :: xs) pos caps else none
def mBos : M := fun s pos caps k => if pos = 0 then k s pos caps else none
def mEos : M := fun s pos caps k => if s.isEmpty then k s pos caps else none

/-- the matcher consults its continuation only on strings that are not longer than its input -/
def Local (m : M) : Prop :=
  ∀ s pos caps k k', (∀ s' p' c', s'.length ≤ s.length → k s' p' c' = k' s' p' c') →
    m s pos caps k = m s pos caps k'

structure Sem (t : Tables) (r : Re) (d : Nat) (m : M) : Prop where
  den : ∀ f s pos caps k, d + s.length ≤ f → matchRe t f r s pos caps k = m s pos caps k
  loc : Local m

theorem local_char (P : Char → Bool) : Local (mChar P) := by
  intro s pos caps k k' h
  cases s with
  | nil => rfl
  | cons x xs =>
    simp only [mChar]
    rw [h xs (pos + 1) caps (by simp)]

theorem local_plus (P : Char → Bool) : ∀ min, Local (mPlus P min) := by
  intro min s
  induction s generalizing min with
  | nil => intro pos caps k k' h; simp only [mPlus]; rw [h [] pos caps (Nat.le_refl _)]
  | cons x xs ih =>
    intro pos caps k k' h
    simp only [mPlus]
    rw [ih (min - 1) (pos + 1) caps k k' (fun s' p' c' hl => h s' p' c' (by simp only [List.length_cons]; omega)),
      h (x :: xs) pos caps (Nat.le_refl _)]

/-- `c` is a one-character matcher with predicate `P` -/
def CharRe (t : Tables) (c : Re) (P : Char → Bool) : Prop :=
  ∀ f s pos caps k, matchRe t (f + 1) c s pos caps k = mChar P s pos caps k

theorem charRe_lit (t : Tables) (c : Nat) : CharRe t (.lit c) (fun x => decide (x.toNat = c)) := by
  intro f s pos caps k
  cases s <;> simp [matchRe, mChar]

theorem charRe_any (t : Tables) : CharRe t .any (fun x => decide (x.toNat ≠ 10)) := by
  intro f s pos caps k
  cases s <;> simp [matchRe, mChar]

theorem charRe_cls (t : Tables) (neg : Bool) (items : List CItem) :
    CharRe t (.cls neg items) (fun x => (items.any (itemMatch t x.toNat)) != neg) := by
  intro f s pos caps k
  cases s <;> simp [matchRe, mChar]

theorem sem_char {t : Tables} {c : Re} {P : Char → Bool} (h : CharRe t c P) (d : Nat) :
    Sem t c (d + 1) (mChar P) := by
  refine ⟨?_, local_char P⟩
  intro f s pos caps k hf
  obtain ⟨f', rfl⟩ : ∃ f', f = f' + 1 := ⟨f - 1, by omega⟩
  exact h f' s pos caps k

theorem sem_bos (t : Tables) (d : Nat) : Sem t .bos (d + 1) mBos := by
  refine ⟨?_, ?_⟩
  · intro f s pos caps k hf
    obtain ⟨f', rfl⟩ : ∃ f', f = f' + 1 := ⟨f - 1, by omega⟩
    simp only [matchRe, mBos]
  · intro s pos caps k k' h
    simp only [mBos]
    rw [h s pos caps (Nat.le_refl _)]

theorem sem_eos (t : Tables) (d : Nat) : Sem t .eos (d + 1) mEos := by
  refine ⟨?_, ?_⟩
  · intro f s pos caps k hf
    obtain ⟨f', rfl⟩ : ∃ f', f = f' + 1 := ⟨f - 1, by omega⟩
    simp only [matchRe, mEos]
  · intro s pos caps k k' h
    simp only [mEos]
    rw [h s pos caps (Nat.le_refl _)]

theorem sem_seq_nil (t : Tables) (d : Nat) : Sem t (.seq []) (d + 1) mNil := by
  refine ⟨?_, ?_⟩
  · intro f s pos caps k hf
    obtain ⟨f', rfl⟩ : ∃ f', f = f' + 1 := ⟨f - 1, by omega⟩
    simp only [matchRe, mNil]
  · intro s pos caps k k' h
    exact h s pos caps (Nat.le_refl _)

theorem sem_seq_cons {t : Tables} {a : Re} {rest : List Re} {d : Nat} {ma mr : M}
    (ha : Sem t a d ma) (hr : Sem t (.seq rest) d mr) : Sem t (.seq (a :: rest)) (d + 1) (mSeq ma mr) := by
  refine ⟨?_, ?_⟩
  · intro f s pos caps k hf
    obtain ⟨f', rfl⟩ : ∃ f', f = f' + 1 := ⟨f - 1, by omega⟩
    simp only [matchRe]
    rw [ha.den f' s pos caps _ (by omega)]
    exact ha.loc s pos caps _ _ (fun s' p' c' hl => hr.den f' s' p' c' k (by omega))
  · intro s pos caps k k' h
    exact ha.loc s pos caps _ _ (fun s' p' c' hl =>
      hr.loc s' p' c' k k' (fun s'' p'' c'' hl' => h s'' p'' c'' (by omega)))

theorem sem_alt_nil (t : Tables) (d : Nat) : Sem t (.alt []) (d + 1) mFail := by
  refine ⟨?_, fun _ _ _ _ _ _ => rfl⟩
  intro f s pos caps k hf
  obtain ⟨f', rfl⟩ : ∃ f', f = f' + 1 := ⟨f - 1, by omega⟩
  simp only [matchRe, mFail]

theorem sem_alt_cons {t : Tables} {a : Re} {rest : List Re} {d : Nat} {ma mr : M}
    (ha : Sem t a d ma) (hr : Sem t (.alt rest) d mr) : Sem t (.alt (a :: rest)) (d + 1) (mOr ma mr) := by
  refine ⟨?_, ?_⟩
  · intro f s pos caps k hf
    obtain ⟨f', rfl⟩ : ∃ f', f = f' + 1 := ⟨f - 1, by omega⟩
    simp only [matchRe]
    rw [ha.den f' s pos caps _ (by omega), hr.den f' s pos caps _ (by omega)]
    rfl
  · intro s pos caps k k' h
    simp only [mOr]
    rw [ha.loc s pos caps k k' h, hr.loc s pos caps k k' h]

theorem sem_group {t : Tables} {r : Re} {d : Nat} {m : M} (i : Nat)
    (hr : Sem t r d m) : Sem t (.group i r) (d + 1) (mGroup i m) := by
  refine ⟨?_, ?_⟩
  · intro f s pos caps k hf
    obtain ⟨f', rfl⟩ : ∃ f', f = f' + 1 := ⟨f - 1, by omega⟩
    simp only [matchRe]
    rw [hr.den f' s pos caps _ (by omega)]
    rfl
  · intro s pos caps k k' h
    exact hr.loc s pos caps _ _ (fun s' p' c' hl => h s' p' _ hl)

theorem rep_unfold (t : Tables) (f min : Nat) (max : Option Nat) (r : Re) (s : List Char) (pos : Nat) (caps : Caps) (k : K) :
    matchRe t (f + 1) (.rep min max true r) s pos caps k =
      match (if max = some 0 then none else matchRe t f r s pos caps (fun s' p' c' =>
          if p' = pos ∧ min = 0 then none else matchRe t f (.rep (min - 1) (max.map (· - 1)) true r) s' p' c' k)) with
      | some c => some c
      | none => if min = 0 then k s pos caps else none := by
  simp [matchRe]
  rfl

theorem sem_opt {t : Tables} {r : Re} {d : Nat} {m : M}
    (hr : Sem t r d m) : Sem t (.rep 0 (some 1) true r) (d + 2) (mOpt m) := by
  refine ⟨?_, ?_⟩
  · intro f s pos caps k hf
    obtain ⟨f', rfl⟩ : ∃ f', f = f' + 2 := ⟨f - 2, by omega⟩
    have h0 : ∀ s' p' c', matchRe t (f' + 1) (.rep 0 (some 0) true r) s' p' c' k = k s' p' c' := by
      intro s' p' c'
      rw [rep_unfold]
      simp
    rw [show f' + 2 = (f' + 1) + 1 from rfl, rep_unfold]
    have e : (fun s' p' c' => if p' = pos ∧ 0 = 0 then none
          else matchRe t (f' + 1) (Re.rep (0 - 1) (Option.map (fun x => x - 1) (some 1)) true r) s' p' c' k)
        = (fun s' p' c' => if p' = pos then none else k s' p' c') := by
      funext s' p' c'
      have : Re.rep (0 - 1) (Option.map (fun x => x - 1) (some 1)) true r = Re.rep 0 (some 0) true r := rfl
      rw [this, h0]
      simp
    rw [e, hr.den (f' + 1) s pos caps _ (by omega)]
    simp [mOpt]
  · intro s pos caps k k' h
    simp only [mOpt]
    rw [h s pos caps (Nat.le_refl _)]
    rw [hr.loc s pos caps _ (fun s' p' c' => if p' = pos then none else k' s' p' c')
      (fun s' p' c' hl => by rw [h s' p' c' hl])]

theorem rep_greedy_unfold (t : Tables) (f min : Nat) (r : Re) (s : List Char) (pos : Nat) (caps : Caps) (k : K) :
    matchRe t (f + 1) (.rep min none true r) s pos caps k =
      match matchRe t f r s pos caps (fun s' p' c' =>
          if p' = pos ∧ min = 0 then none else matchRe t f (.rep (min - 1) none true r) s' p' c' k) with
      | some c => some c
      | none => if min = 0 then k s pos caps else none := by
  rw [rep_unfold]
  simp

theorem seq_one_unfold (t : Tables) (f : Nat) (c : Re) (s : List Char) (pos : Nat) (caps : Caps) (k : K) :
    matchRe t (f + 2) (.seq [c]) s pos caps k = matchRe t (f + 1) c s pos caps k := by
  rw [matchRe]
  congr 1

theorem sem_plus {t : Tables} {c : Re} {P : Char → Bool} (hc : CharRe t c P) (min d : Nat) :
    Sem t (.rep min none true (.seq [c])) (d + 4) (mPlus P min) := by
  refine ⟨?_, local_plus P min⟩
  intro f s
  induction s generalizing min f with
  | nil =>
    intro pos caps k hf
    obtain ⟨f', rfl⟩ : ∃ f', f = f' + 3 := ⟨f - 3, by omega⟩
    rw [rep_greedy_unfold, seq_one_unfold, hc]
    simp [mChar, mPlus]
  | cons x xs ih =>
    intro pos caps k hf
    simp only [List.length_cons] at hf
    obtain ⟨f', rfl⟩ : ∃ f', f = f' + 3 := ⟨f - 3, by omega⟩
    rw [rep_greedy_unfold, seq_one_unfold, hc]
    simp only [mChar, mPlus]
    have hne : ¬ (pos + 1 = pos ∧ min = 0) := by omega
    simp only [hne, if_false]
    rw [ih (min - 1) (f' + 2) (pos + 1) caps k (by omega)]

end Hv.Regex
