/-
  Hv.Concat — pointwise specification of a disk assembled from consecutive extents
  (VMDK multi-extent descriptors, Parallels `StorageStream`), and the structural layout
  predicates the C10 theorems are stated over.  Mathlib-free.
-/
import Hv.Prim.Bytes
import Hv.Vmdk
import Hv.Hdd
namespace Hv.Concat
open Hv

/-- one extent: its length in sectors and its content by byte offset *relative to the extent* -/
structure Part where
  sectors : Nat
  content : Nat → UInt8

/-- byte `o` of the concatenation of the parts (0 beyond the end) -/
def concat : List Part → Nat → UInt8
  | [], _ => 0
  | p :: ps, o => if o < p.sectors * 512 then p.content o else concat ps (o - p.sectors * 512)

/-- total length in sectors -/
def total : List Part → Nat
  | [] => 0
  | p :: ps => p.sectors + total ps

/-! ### VMDK: layout of the extent list -/

/-- the disks are non-empty, sized `sector_count * 512`, and placed back to back from sector `start` -/
def Contiguous : Nat → List Vmdk.Disk → Prop
  | _, [] => True
  | start, d :: ds =>
    d.sectorOffset = start ∧ 0 < d.sectorCount ∧ d.size = d.sectorCount * 512 ∧
    Contiguous (start + d.sectorCount) ds

/-- disk `d` has the length of part `p` and every in-range `read_sectors` (absolute sector
    numbers) returns the part's bytes -/
def DiskReads (d : Vmdk.Disk) (p : Part) : Prop :=
  d.sectorCount = p.sectors ∧
  ∀ s c, d.sectorOffset ≤ s → s - d.sectorOffset + c ≤ d.sectorCount →
    d.readSectors s c = .ok (slice p.content ((s - d.sectorOffset) * 512) (c * 512))

/-- the disks read as the parts, one by one -/
def ReadAs : List Vmdk.Disk → List Part → Prop
  | [], [] => True
  | d :: ds, p :: ps => DiskReads d p ∧ ReadAs ds ps
  | _, _ => False

/-- what `VMDK.__init__` does with the extent constructors, as a list recursion: every
    constructor is given the running sector count as its `sector_offset` -/
def place : Nat → List (Nat → Vmdk.Disk) → List Vmdk.Disk
  | _, [] => []
  | start, f :: fs => f start :: place (start + (f start).sectorCount) fs

/-- a constructor that honours the offset it is given and builds a non-empty, sector-sized disk -/
def GoodCtor (f : Nat → Vmdk.Disk) : Prop :=
  ∀ off, (f off).sectorOffset = off ∧ 0 < (f off).sectorCount ∧ (f off).size = (f off).sectorCount * 512

/-! ### Parallels `StorageStream`: layout of the storage list -/

/-- the storages tile `[start, …)` without gaps in the given order (`start_0 = start`,
    `start_{i+1} = end_i`, every storage non-empty), and storage `i` reads as part `i` -/
def Tiles : Nat → List Hdd.Storage → List Part → Prop
  | _, [], [] => True
  | start, st :: sts, p :: ps =>
    st.start = start ∧ 0 < p.sectors ∧ st.end_ = start + p.sectors ∧
    (∀ off len, off + len ≤ p.sectors * 512 → st.stream off len = .ok (slice p.content off len)) ∧
    Tiles st.end_ sts ps
  | _, _, _ => False

/-! ### executable parts of the layout predicates (evaluated by the driver on every generated case) -/

def contiguousb : Nat → List Vmdk.Disk → Bool
  | _, [] => true
  | start, d :: ds =>
    decide (d.sectorOffset = start) && decide (0 < d.sectorCount) && decide (d.size = d.sectorCount * 512) &&
    contiguousb (start + d.sectorCount) ds

/-- stream `i` reads as part `i` (the part of `Tiles` that is a statement about the streams) -/
def StreamsRead : List Hdd.Storage → List Part → Prop
  | [], [] => True
  | st :: sts, p :: ps =>
    (∀ off len, off + len ≤ p.sectors * 512 → st.stream off len = .ok (slice p.content off len)) ∧ StreamsRead sts ps
  | _, _ => False

/-- the geometric part of `Tiles` -/
def tilesb : Nat → List Hdd.Storage → List Part → Bool
  | _, [], [] => true
  | start, st :: sts, p :: ps =>
    decide (st.start = start) && decide (0 < p.sectors) && decide (st.end_ = start + p.sectors) && tilesb st.end_ sts ps
  | _, _, _ => false

end Hv.Concat
