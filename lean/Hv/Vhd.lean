/-
  Hv.Vhd — model of dissect/hypervisor/disk/vhd.py (read_footer, VHD, FixedDisk,
  DynamicDisk, BlockAllocationTable) and the pointwise specification.
-/
import Hv.Prim.Layout
import Hv.Extracted
namespace Hv.Vhd
open Hv Hv.Extracted.vhd

/-- sector size used by the code -/
abbrev S : Nat := SECTOR_SIZE

inductive Kind where | fixed | dynamic
  deriving Repr, DecidableEq

structure Vhd where
  fh : File
  kind : Kind
  size : Nat                -- footer.current_size
  tableOffset : Nat         -- dynamic_header.table_offset
  maxEntries : Nat          -- dynamic_header.max_table_entries
  blockSize : Nat           -- dynamic_header.block_size (bytes)

def Vhd.spb (v : Vhd) : Nat := v.blockSize / S
/-- `_sector_bitmap_size` as the code computes it -/
def Vhd.bitmapSectors (v : Vhd) : Nat := ((v.spb / 8) + S - 1) / S

/-- `read_footer`: footer position (512 from the end, or 511 for the legacy footer) -/
def footerPos (fh : File) : Except Err Nat := do
  if fh.size < 512 then throw .value          -- seek(-512, SEEK_END) before the start
  let fsz := footer.size
  let features ← fh.field (fh.size - 512) fsz footer.features
  if features % 4 / 2 = 0 then                -- not (features & 0x00000002)
    .ok (fh.size - 511)
  else .ok (fh.size - 512)

/-- `VHD.__init__` -/
def «open» (fh : File) : Except Err Vhd := do
  let fp ← footerPos fh
  let fsz := footer.size
  let dataOffset ← fh.field fp fsz footer.data_offset
  let size ← fh.field fp fsz footer.current_size
  if dataOffset = 0xFFFFFFFFFFFFFFFF then
    .ok { fh, kind := .fixed, size, tableOffset := 0, maxEntries := 0, blockSize := 0 }
  else
    let hsz := dynamic_header.size
    let tableOffset ← fh.field dataOffset hsz dynamic_header.table_offset
    let maxEntries ← fh.field dataOffset hsz dynamic_header.max_table_entries
    let blockSize ← fh.field dataOffset hsz dynamic_header.block_size
    .ok { fh, kind := .dynamic, size, tableOffset, maxEntries, blockSize }

/-- `BlockAllocationTable.get`: `none` = the 0xFFFFFFFF marker -/
def Vhd.bat (v : Vhd) (block : Nat) : Except Err (Option Nat) :=
  if block + 1 > v.maxEntries then .error .value
  else
    let raw := v.fh.read (v.tableOffset + block * BAT_ENTRY_SIZE) BAT_ENTRY_SIZE
    if raw.length ≠ BAT_ENTRY_SIZE then .error .other     -- struct.error
    else
      let e := beNat raw
      .ok (if e = 0xFFFFFFFF then none else some e)

/-- one iteration's data -/
def Vhd.chunk (v : Vhd) (so : Option Nat) (offset readCount : Nat) : Bytes :=
  match so with
  | some s => if s = 0 then zeros (S * readCount)      -- `if sector_offset:` is false for 0 too
              else v.fh.read ((s + v.bitmapSectors + offset) * S) (readCount * S)
  | none => zeros (S * readCount)

/-- `DynamicDisk.read_sectors` loop -/
def Vhd.readSectorsDyn (v : Vhd) : Nat → Nat → Nat → Except Err Bytes
  | 0, _, count => if count = 0 then .ok [] else .error .nonTermination
  | fuel+1, sector, count =>
    if count = 0 then .ok [] else
    if v.spb = 0 then .error .other else do     -- divmod by zero
    let block := sector / v.spb
    let offset := sector % v.spb
    let readCount := min count (v.spb - offset)
    let so ← v.bat block
    let rest ← v.readSectorsDyn fuel (sector + readCount) (count - readCount)
    .ok (v.chunk so offset readCount ++ rest)

def Vhd.readSectors (v : Vhd) (sector count : Nat) : Except Err Bytes :=
  match v.kind with
  | .fixed => .ok (v.fh.read (sector * S) (count * S))
  | .dynamic => v.readSectorsDyn count sector count

/-- `VHD._read` -/
def Vhd.read (v : Vhd) (offset length : Nat) : Except Err Bytes :=
  let length := min length (v.size - offset)
  v.readSectors (offset / S) ((length + S - 1) / S)

/-! ### Specification (VHD format specification 1.0) -/

/-- BAT entry `i` as stored: big-endian 32-bit sector number at `table_offset + 4 i` -/
def Vhd.batRaw (v : Vhd) (i : Nat) : Nat := beNat (slice v.fh.byte (v.tableOffset + 4 * i) 4)

/-- sector bitmap size in sectors per the specification: one bit per sector, padded to a
    sector boundary -/
def Vhd.bitmapSectorsSpec (v : Vhd) : Nat := ((v.spb + 7) / 8 + S - 1) / S

def Vhd.guest (v : Vhd) (o : Nat) : UInt8 :=
  match v.kind with
  | .fixed => v.fh.byte o
  | .dynamic =>
    let e := v.batRaw (o / v.blockSize)
    if e = 0xFFFFFFFF ∨ e = 0 then 0
    else v.fh.byte ((e + v.bitmapSectorsSpec) * 512 + o % v.blockSize)

structure WF (v : Vhd) : Prop where
  fixed_in : v.kind = .fixed → v.size ≤ v.fh.size
  bs_sector : v.kind = .dynamic → 0 < v.blockSize ∧ v.blockSize % (8 * 512) = 0
  covers : v.kind = .dynamic → v.size ≤ v.maxEntries * v.blockSize
  table_in : v.kind = .dynamic → v.tableOffset + 4 * v.maxEntries ≤ v.fh.size
  entries : v.kind = .dynamic → ∀ i, i < v.maxEntries → v.batRaw i = 0xFFFFFFFF ∨ v.batRaw i = 0 ∨
      (v.batRaw i + v.bitmapSectorsSpec) * 512 + v.blockSize ≤ v.fh.size

def Vhd.wfb (v : Vhd) : Bool :=
  match v.kind with
  | .fixed => decide (v.size ≤ v.fh.size)
  | .dynamic =>
    decide (0 < v.blockSize) && decide (v.blockSize % (8 * 512) = 0) &&
    decide (v.size ≤ v.maxEntries * v.blockSize) &&
    decide (v.tableOffset + 4 * v.maxEntries ≤ v.fh.size) &&
    (List.range v.maxEntries).all (fun i => v.batRaw i == 0xFFFFFFFF || v.batRaw i == 0 ||
      decide ((v.batRaw i + v.bitmapSectorsSpec) * 512 + v.blockSize ≤ v.fh.size))

end Hv.Vhd
