import Hv.Driver.Core
import Hv.Hds
import Hv.Hdd
import Hv.Concat
import Hv.Footprint
namespace Hv.Driver
open Hv

/-- open a chain of layers `ids` (first = base ... last = top); an id `raw=<id>` is a plain
    image (raw file: `seek/read`), any other id an HDS file whose parent is the buffered *stream*
    of the layer below (`parent.seek(off); parent.read(n)`) -/
def hdsChain (st : St) (align : Nat) (ids : List String) : Except Err (Option (Hds.Hds)) := do
  let mut parent : Option Hds.Reader := none
  let mut top : Option Hds.Hds := none
  for id in ids do
    if id.startsWith "raw=" then
      let some f := st.file? (id.drop 4).toString | throw .other
      parent := some (fun off n => .ok (f.read off n))
      top := none
    else
      let some fh := st.file? id | throw .other
      let v ← Hds.open fh parent
      top := some v
      parent := some (fun off n => (do
        let (_, s) ← (AS.init v.size align).seek off .set
        let (b, _) ← s.read v.read n
        pure b))
  pure top

/-- guest content of a chain, layer by layer -/
def hdsChainGuest (st : St) : List String → (Nat → UInt8)
  | ids => ids.foldl (fun (pc : Nat → UInt8) id =>
      match st.file? id with
      | none => pc
      | some fh => match Hds.open fh (some (fun _ _ => .ok [])) with
        | .ok v => v.guest pc
        | .error _ => pc) (fun _ => 0)

def hdsCmd (st : St) : List String → String
  | "hds.open" :: align :: ids =>
    match hdsChain st (align.toNat?.getD 8192) ids with
    | .ok (some v) => s!"ok size={v.size} cs={v.clusterSize} mult={v.mult} n={v.bat.size} wf={if v.wfb then 1 else 0}"
    | .ok none => "bad-args"
    | .error e => s!"err {e}"
  | "hds.stream" :: align :: nids :: rest =>
    match align.toNat?, nids.toNat? with
    | some a, some k =>
      let ids := rest.take k
      let ops := rest.drop k
      match hdsChain st a ids with
      | .ok (some v) => runStream v.read v.size a ops
      | .ok none => "bad-args"
      | .error e => s!"err {e}"
    | _, _ => "bad-args"
  | "hds.footprint" :: off :: len :: ids =>
    -- C13: per layer (base first), the file ranges `_read(off, len)` of that layer may look at: `id=off:len,off:len;id=…`
    match off.toNat?, len.toNat? with
    | some o, some l =>
      let per := (List.range ids.length).map fun k =>
        match hdsChain st 8192 (ids.take (k + 1)) with
        | .ok (some v) => s!"{ids.getD k ""}=" ++ ",".intercalate ((Footprint.hds v o l).map fun r => s!"{r.1}:{r.2}")
        | _ => s!"{ids.getD k ""}=?"
      "ok " ++ ";".intercalate per
    | _, _ => "bad-args"
  | ["hds.openfp", id] =>
    match st.file? id with
    | some fh => Footprint.render (Footprint.hdsOpen fh)
    | none => "bad-args"
  | "hds.spec" :: off :: len :: ids =>
    match off.toNat?, len.toNat?, hdsChain st 8192 ids with
    | some o, some l, .ok (some v) => fmtBytes (slice (hdsChainGuest st ids) o (min l (v.size - o)))
    | _, _, .error e => s!"err {e}"
    | _, _, _ => "bad-args"
  | _ => "bad-cmd"

end Hv.Driver

namespace Hv.Driver
open Hv

/-- storage tokens `start:end:P:<id>` (plain image) or `start:end:H:<id1>+<id2>…` (HDS chain, base first) -/
def parseStorage (st : St) (align : Nat) (tok : String) : Except Err Hdd.Storage :=
  match tok.splitOn ":" with
  | [a, b, kind, ids] =>
    match a.toNat?, b.toNat? with
    | some s, some e =>
      if kind = "P" then
        match st.file? ids with
        | some f => .ok ⟨s, e, fun off n => .ok (f.read off n)⟩
        | none => .error .other
      else do
        let some v ← hdsChain st align (ids.splitOn "+") | throw .other
        .ok ⟨s, e, fun off n => do
          let (_, s0) ← (AS.init v.size align).seek off .set
          let (d, _) ← s0.read v.read n
          pure d⟩
    | _, _ => .error .other
  | _ => .error .other

/-- the part of one storage for the C10 specification and whether it is inside the hypotheses of
    `storage_concat_read_correct`: a plain image (its bytes) or a single well-formed expanding image (its `guest`) -/
def storagePart (st : St) (tok : String) : Except Err (Concat.Part × Bool) :=
  match tok.splitOn ":" with
  | [a, b, kind, ids] =>
    match a.toNat?, b.toNat? with
    | some s, some e =>
      if kind = "P" then
        match st.file? ids with
        | some f => .ok (⟨e - s, f.byte⟩, decide (s < e) && decide ((e - s) * 512 ≤ f.size))
        | none => .error .other
      else
        match ids.splitOn "+" with
        | [id] =>
          if id.startsWith "raw=" then .ok (⟨e - s, fun _ => 0⟩, false) else
          match st.file? id with
          | some fh => do
            let v ← Hds.open fh none
            .ok (⟨e - s, v.guest (fun _ => 0)⟩, v.wfb && decide (s < e) && decide ((e - s) * 512 ≤ v.size))
          | none => .error .other
        | _ => .ok (⟨e - s, fun _ => 0⟩, false)
    | _, _ => .error .other
  | _ => .error .other

def hddCmd (st : St) : List String → String
  | "hdd.concatcheck" :: align :: ns :: rest =>
    match align.toNat?, ns.toNat? with
    | some a, some k =>
      match (rest.take k).mapM (parseStorage st a), (rest.take k).mapM (storagePart st) with
      | .ok storages, .ok parts =>
        let v := Hdd.mk storages
        -- the parts in the order `sorted(key=start)` puts the storages (same stable insertion as `sortByStart`)
        let triples := (storages.zip parts).foldl (fun acc s =>
          let (x, y) := acc.span (fun t => t.1.start ≤ s.1.start)
          x ++ [s] ++ y) ([] : List (Hdd.Storage × Concat.Part × Bool))
        let sorted := Hdd.sortByStart storages
        let ps := triples.map (·.2.1)
        let same := decide (sorted.map (fun s => (s.start, s.end_)) = triples.map (fun t => (t.1.start, t.1.end_)))
        let inOrder := Concat.tilesb 0 storages (parts.map (·.1))
        -- hypotheses of storage_concat_read_any_order: the sorted list tiles, every stream inside its own read theorem
        let wf := !ps.isEmpty && same && Concat.tilesb 0 sorted ps && triples.all (·.2.2) && decide (v.size = Concat.total ps * 512)
        s!"ok wf={if wf then 1 else 0} n={ps.length} given_in_order={if inOrder then 1 else 0} " ++
          checkStreamSpec v.read none 512 (Concat.concat ps) v.size a (rest.drop k)
      | .error e, _ => s!"err {e}"
      | _, .error e => s!"err {e}"
    | _, _ => "bad-args"
  | "hdd.stream" :: align :: ns :: rest =>
    match align.toNat?, ns.toNat? with
    | some a, some k =>
      match (rest.take k).mapM (parseStorage st a) with
      | .ok storages =>
        let v := Hdd.mk storages
        runStream v.read v.size a (rest.drop k)
      | .error e => s!"err {e}"
    | _, _ => "bad-args"
  | "hdd.chain" :: null :: guid :: shots =>
    let ps := shots.filterMap (fun t => match t.splitOn ">" with
      | [g, p] => match g.toNat?, p.toNat? with | some a, some b => some (a, b) | _, _ => none
      | _ => none)
    match null.toNat?, guid.toNat? with
    | some n, some g => match Hdd.snapshotChain ps n g with
      | .ok c => "ok " ++ " ".intercalate (c.map toString)
      | .error e => s!"err {e}"
    | _, _ => "bad-args"
  | _ => "bad-cmd"

end Hv.Driver
