/-
  HvProofs.MetaEnc — the snapshot-table and parent-locator writers round-trip through the reader models.
-/
import Hv.MetaEnc
import HvProofs.Meta
namespace Hv.Meta
open Hv

/-! ### segments of a right-nested concatenation -/

def seg (b : Bytes) (k w : Nat) : Bytes := (b.drop k).take w

theorem seg_skip (a r : Bytes) (k w : Nat) (h : a.length ≤ k) : seg (a ++ r) k w = seg r (k - a.length) w := by
  unfold seg
  rw [List.drop_append, List.drop_eq_nil_of_le h, List.nil_append]

theorem seg_here (x r : Bytes) (w : Nat) (h : w = x.length) : seg (x ++ r) 0 w = x := by
  unfold seg; subst h; simp

theorem seg_all (x : Bytes) (w : Nat) (h : w = x.length) : seg x 0 w = x := by
  unfold seg; subst h; simp

theorem slice_seg {g : Nat → UInt8} {off : Nat} {E : Bytes} (h : slice g off E.length = E) (k w : Nat) (hk : k + w ≤ E.length) :
    slice g (off + k) w = seg E k w := by
  unfold seg
  conv => rhs; rw [← h]
  rw [slice_drop _ _ _ _ (by omega), slice_take _ _ _ _ (by omega)]

/-! ### one snapshot entry -/
section snap
open Hv.Extracted.qcow2

@[simp] theorem snapHeader_length (s : SnapSpec) : (snapHeader s).length = 40 := by simp [snapHeader]

theorem entry_le (s : SnapSpec) : s.entrySize ≤ align8 s.entrySize := align8_ge _

theorem encodeSnap_length (s : SnapSpec) : (encodeSnap s).length = align8 s.entrySize := by
  have := entry_le s
  simp only [encodeSnap, List.length_append, snapHeader_length, zeros_length]
  unfold SnapSpec.entrySize at this ⊢
  omega

theorem beBytes8_zero : beBytes 8 0 = zeros 8 := by decide

/-- the known extra fields, zero padded to the 24-byte struct, are the three 64-bit fields (0 when absent) -/
theorem extra_padded (x : SnapExtra) :
    x.bytes.take 24 ++ zeros (24 - min x.bytes.length 24) = beBytes 8 x.large ++ (beBytes 8 x.disk ++ beBytes 8 x.icount) := by
  cases x with
  | none => simp [SnapExtra.bytes, SnapExtra.large, SnapExtra.disk, SnapExtra.icount, beBytes8_zero, zeros]
  | v16 l d =>
    simp [SnapExtra.bytes, SnapExtra.large, SnapExtra.disk, SnapExtra.icount, beBytes8_zero, List.take_of_length_le]
  | v24 l d i =>
    simp [SnapExtra.bytes, SnapExtra.large, SnapExtra.disk, SnapExtra.icount, List.take_of_length_le, zeros]
  | more l d i t =>
    simp only [SnapExtra.bytes, SnapExtra.large, SnapExtra.disk, SnapExtra.icount]
    rw [List.take_left' (by simp)]
    simp [zeros]
    omega

theorem SnapExtra.ok_iff (x : SnapExtra) (h : x.ok = true) :
    x.large < 2 ^ 64 ∧ x.disk < 2 ^ 64 ∧ x.icount < 2 ^ 64 ∧ x.bytes.length < 2 ^ 32 := by
  cases x <;> simp_all [SnapExtra.ok, SnapExtra.large, SnapExtra.disk, SnapExtra.icount, SnapExtra.bytes] <;> omega

theorem SnapSpec.ok_iff (s : SnapSpec) (h : s.ok = true) :
    s.l1Offset < 2 ^ 64 ∧ s.l1Size < 2 ^ 32 ∧ s.dateSec < 2 ^ 32 ∧ s.dateNsec < 2 ^ 32 ∧ s.vmClock < 2 ^ 64 ∧
    s.vmStateSize < 2 ^ 32 ∧ s.extra.ok = true ∧ s.idStr.length < 2 ^ 16 ∧ s.name.length < 2 ^ 16 := by
  simpa [SnapSpec.ok, and_assoc] using h

theorem unknown_eq (x : SnapExtra) :
    (if x.bytes.length > 24 then some ((x.bytes.drop 24).take (x.bytes.length - 24)) else none) = x.unknown := by
  cases x with
  | none => simp [SnapExtra.bytes, SnapExtra.unknown]
  | v16 l d => simp [SnapExtra.bytes, SnapExtra.unknown]
  | v24 l d i => simp [SnapExtra.bytes, SnapExtra.unknown]
  | more l d i t =>
    simp only [SnapExtra.bytes, SnapExtra.unknown]
    rw [List.drop_left' (by simp)]
    by_cases ht : t = []
    · simp [ht]
    · have : 0 < t.length := List.length_pos_iff.mpr ht
      simp [ht]
      exact ⟨by omega, List.take_of_length_le (by omega)⟩

/-- where the pieces of an encoded entry sit -/
theorem snap_slices (fh : File) (off : Nat) (s : SnapSpec)
    (hb : slice fh.byte off (encodeSnap s).length = encodeSnap s) :
    slice fh.byte (off + 0) 8 = beBytes 8 s.l1Offset ∧ slice fh.byte (off + 8) 4 = beBytes 4 s.l1Size ∧
    slice fh.byte (off + 12) 2 = beBytes 2 s.idStr.length ∧ slice fh.byte (off + 14) 2 = beBytes 2 s.name.length ∧
    slice fh.byte (off + 16) 4 = beBytes 4 s.dateSec ∧ slice fh.byte (off + 20) 4 = beBytes 4 s.dateNsec ∧
    slice fh.byte (off + 24) 8 = beBytes 8 s.vmClock ∧ slice fh.byte (off + 32) 4 = beBytes 4 s.vmStateSize ∧
    slice fh.byte (off + 36) 4 = beBytes 4 s.extra.bytes.length ∧
    slice fh.byte (off + 40) s.extra.bytes.length = s.extra.bytes ∧
    slice fh.byte (off + 40 + s.extra.bytes.length) s.idStr.length = s.idStr ∧
    slice fh.byte (off + 40 + s.extra.bytes.length + s.idStr.length) s.name.length = s.name := by
  have hlen := encodeSnap_length s
  have hle := entry_le s
  have hes : s.entrySize = 40 + s.extra.bytes.length + s.idStr.length + s.name.length := rfl
  have d1 : slice fh.byte (off + 0) 8 = beBytes 8 s.l1Offset := by
    rw [slice_seg hb 0 8 (by omega)]; simp [encodeSnap, snapHeader, seg_here]
  have d2 : slice fh.byte (off + 8) 4 = beBytes 4 s.l1Size := by
    rw [slice_seg hb 8 4 (by omega)]; simp [encodeSnap, snapHeader, seg_skip, seg_here]
  have d3 : slice fh.byte (off + 12) 2 = beBytes 2 s.idStr.length := by
    rw [slice_seg hb 12 2 (by omega)]; simp [encodeSnap, snapHeader, seg_skip, seg_here]
  have d4 : slice fh.byte (off + 14) 2 = beBytes 2 s.name.length := by
    rw [slice_seg hb 14 2 (by omega)]; simp [encodeSnap, snapHeader, seg_skip, seg_here]
  have d5 : slice fh.byte (off + 16) 4 = beBytes 4 s.dateSec := by
    rw [slice_seg hb 16 4 (by omega)]; simp [encodeSnap, snapHeader, seg_skip, seg_here]
  have d6 : slice fh.byte (off + 20) 4 = beBytes 4 s.dateNsec := by
    rw [slice_seg hb 20 4 (by omega)]; simp [encodeSnap, snapHeader, seg_skip, seg_here]
  have d7 : slice fh.byte (off + 24) 8 = beBytes 8 s.vmClock := by
    rw [slice_seg hb 24 8 (by omega)]; simp [encodeSnap, snapHeader, seg_skip, seg_here]
  have d8 : slice fh.byte (off + 32) 4 = beBytes 4 s.vmStateSize := by
    rw [slice_seg hb 32 4 (by omega)]; simp [encodeSnap, snapHeader, seg_skip, seg_here]
  have d9 : slice fh.byte (off + 36) 4 = beBytes 4 s.extra.bytes.length := by
    rw [slice_seg hb 36 4 (by omega)]; simp [encodeSnap, snapHeader, seg_skip, seg_here]
  have tx : slice fh.byte (off + 40) s.extra.bytes.length = s.extra.bytes := by
    rw [slice_seg hb 40 _ (by omega)]; simp [encodeSnap, seg_skip, seg_here]
  have ti : slice fh.byte (off + 40 + s.extra.bytes.length) s.idStr.length = s.idStr := by
    rw [Nat.add_assoc, slice_seg hb _ _ (by omega)]; simp [encodeSnap, seg_skip, seg_here]
  have tn : slice fh.byte (off + 40 + s.extra.bytes.length + s.idStr.length) s.name.length = s.name := by
    rw [Nat.add_assoc, Nat.add_assoc, slice_seg hb _ _ (by omega)]
    simp [encodeSnap, seg_skip, seg_here, Nat.add_sub_cancel_left]
  exact ⟨d1, d2, d3, d4, d5, d6, d7, d8, d9, tx, ti, tn⟩

/-- **one entry**: the reader on an encoded entry exposes exactly the spec -/
theorem readSnapFull_encoded (fh : File) (off : Nat) (s : SnapSpec) (hok : s.ok = true)
    (hb : slice fh.byte off (encodeSnap s).length = encodeSnap s) (hsz : off + (encodeSnap s).length ≤ fh.size) :
    readSnapFull fh off = .ok s.expected := by
  obtain ⟨o1, o2, o3, o4, o5, o6, ox, o7, o8⟩ := s.ok_iff hok
  obtain ⟨x1, x2, x3, x4⟩ := s.extra.ok_iff ox
  have hlen := encodeSnap_length s
  have hle := entry_le s
  have hes : s.entrySize = 40 + s.extra.bytes.length + s.idStr.length + s.name.length := rfl
  have hz : QCowSnapshotHeader.size = 40 := rfl
  obtain ⟨d1, d2, d3, d4, d5, d6, d7, d8, d9, tx, ti, tn⟩ := snap_slices fh off s hb
  unfold readSnapFull
  simp only [hz, QCowSnapshotHeader.l1_table_offset, QCowSnapshotHeader.l1_size, QCowSnapshotHeader.id_str_size,
    QCowSnapshotHeader.name_size, QCowSnapshotHeader.date_sec, QCowSnapshotHeader.date_nsec, QCowSnapshotHeader.vm_clock_nsec,
    QCowSnapshotHeader.vm_state_size, QCowSnapshotHeader.extra_data_size, d1, d2, d3, d4, d5, d6, d7, d8, d9]
  rw [if_pos (by omega), decode_be 0 8 64 _ (by decide) (by simpa using o1), decode_be 8 4 32 _ (by decide) (by simpa using o2),
    decode_be 12 2 16 _ (by decide) (by simpa using o7), decode_be 14 2 16 _ (by decide) (by simpa using o8),
    decode_be 16 4 32 _ (by decide) (by simpa using o3), decode_be 20 4 32 _ (by decide) (by simpa using o4),
    decode_be 24 8 64 _ (by decide) (by simpa using o5), decode_be 32 4 32 _ (by decide) (by simpa using o6),
    decode_be 36 4 32 _ (by decide) (by simpa using x4)]
  rw [snapTail_layout fh (off + 40) _ _ _ (by omega)]
  simp only [ti, tn]
  have hk : slice fh.byte (off + 40) (min s.extra.bytes.length 24) = s.extra.bytes.take 24 := by
    by_cases h24 : s.extra.bytes.length ≤ 24
    · rw [Nat.min_eq_left h24, tx, List.take_of_length_le h24]
    · rw [Nat.min_eq_right (by omega), ← slice_take _ _ s.extra.bytes.length _ (by omega), tx]
  have hu : slice fh.byte (off + 40 + 24) (s.extra.bytes.length - 24) = (s.extra.bytes.drop 24).take (s.extra.bytes.length - 24) := by
    by_cases h24 : 24 ≤ s.extra.bytes.length
    · rw [← slice_drop _ _ s.extra.bytes.length _ h24, tx, List.take_of_length_le (by simp)]
    · have : s.extra.bytes.length - 24 = 0 := by omega
      simp [this]
  rw [hk, hu, extra_padded, unknown_eq]
  have e1 : QCowSnapshotExtraData.vm_state_size_large = ⟨0, 8, true, 0, 64⟩ := rfl
  have e2 : QCowSnapshotExtraData.disk_size = ⟨8, 8, true, 0, 64⟩ := rfl
  have e3 : QCowSnapshotExtraData.icount = ⟨16, 8, true, 0, 64⟩ := rfl
  have p1 : ((beBytes 8 s.extra.large ++ (beBytes 8 s.extra.disk ++ beBytes 8 s.extra.icount)).drop 0).take 8 = beBytes 8 s.extra.large := by
    simp
  have p2 : ((beBytes 8 s.extra.large ++ (beBytes 8 s.extra.disk ++ beBytes 8 s.extra.icount)).drop 8).take 8 = beBytes 8 s.extra.disk := by
    rw [List.drop_left' (beBytes_length 8 _), List.take_left' (beBytes_length 8 _)]
  have p3 : ((beBytes 8 s.extra.large ++ (beBytes 8 s.extra.disk ++ beBytes 8 s.extra.icount)).drop 16).take 8 = beBytes 8 s.extra.icount := by
    have h16 : (beBytes 8 s.extra.large ++ beBytes 8 s.extra.disk).length = 16 := by simp
    rw [← List.append_assoc, List.drop_left' h16, List.take_of_length_le (by simp)]
  simp only [e1, e2, e3, p1, p2, p3]
  rw [decode_be 0 8 64 _ (by decide) (by simpa using x1), decode_be 8 8 64 _ (by decide) (by simpa using x2),
    decode_be 16 8 64 _ (by decide) (by simpa using x3)]
  simp only [SnapSpec.expected, hes]
  congr 2
  omega

theorem readSnapsFull_encoded (fh : File) : ∀ (ss : List SnapSpec) (off : Nat), (∀ s ∈ ss, s.ok = true) →
    slice fh.byte off (encodeSnaps ss).length = encodeSnaps ss → off + (encodeSnaps ss).length ≤ fh.size →
    readSnapsFull fh ss.length off = .ok (ss.map SnapSpec.expected) := by
  intro ss
  induction ss with
  | nil => intro off _ _ _; rfl
  | cons s ss ih =>
    intro off hok hb hsz
    simp only [encodeSnaps, List.length_append] at hb hsz
    obtain ⟨h1, h2⟩ := slice_split hb
    simp only [List.length_cons, readSnapsFull]
    rw [readSnapFull_encoded fh off s (hok s (by simp)) h1 (by omega)]
    have e : (SnapSpec.expected s).entrySize = s.entrySize := rfl
    simp only [e, ← encodeSnap_length s]
    rw [ih _ (fun s' hs' => hok s' (by simp [hs'])) h2 (by omega)]
    simp

/-- the read path's own snapshot walk (`Qcow2.readSnapshot(s)`, the fields C01 needs) on the same bytes -/
theorem readSnapshot_encoded (fh : File) (off : Nat) (s : SnapSpec) (hok : s.ok = true)
    (hb : slice fh.byte off (encodeSnap s).length = encodeSnap s) (hsz : off + (encodeSnap s).length ≤ fh.size) :
    Qcow2.readSnapshot fh off = .ok s.expectedQ := by
  obtain ⟨o1, o2, o3, o4, o5, o6, ox, o7, o8⟩ := s.ok_iff hok
  obtain ⟨x1, x2, x3, x4⟩ := s.extra.ok_iff ox
  have hlen := encodeSnap_length s
  have hle := entry_le s
  have hes : s.entrySize = 40 + s.extra.bytes.length + s.idStr.length + s.name.length := rfl
  have hz : QCowSnapshotHeader.size = 40 := rfl
  obtain ⟨d1, d2, d3, d4, d5, d6, d7, d8, d9, tx, ti, tn⟩ := snap_slices fh off s hb
  unfold Qcow2.readSnapshot
  simp only [hz, File.field, QCowSnapshotHeader.l1_table_offset, QCowSnapshotHeader.l1_size, QCowSnapshotHeader.id_str_size,
    QCowSnapshotHeader.name_size, QCowSnapshotHeader.extra_data_size, d1, d2, d3, d4, d9]
  have h40 : off + 40 ≤ fh.size := by omega
  rw [decode_be 0 8 64 _ (by decide) (by simpa using o1), decode_be 8 4 32 _ (by decide) (by simpa using o2),
    decode_be 12 2 16 _ (by decide) (by simpa using o7), decode_be 14 2 16 _ (by decide) (by simpa using o8),
    decode_be 36 4 32 _ (by decide) (by simpa using x4)]
  simp only [h40, if_true, Bind.bind, Except.bind]
  rw [File.read_eq_slice fh (off + 40) _ (by omega), tx]
  rw [File.read_eq_slice fh (off + 40 + s.extra.bytes.length) _ (by omega), ti]
  rw [File.read_eq_slice fh (off + 40 + s.extra.bytes.length + s.idStr.length) _ (by omega), tn]
  simp only [SnapSpec.expectedQ, hes]
  congr 2
  omega

theorem readSnapshots_encoded (fh : File) : ∀ (ss : List SnapSpec) (off : Nat), (∀ s ∈ ss, s.ok = true) →
    slice fh.byte off (encodeSnaps ss).length = encodeSnaps ss → off + (encodeSnaps ss).length ≤ fh.size →
    Qcow2.readSnapshots fh ss.length off = .ok (ss.map SnapSpec.expectedQ) := by
  intro ss
  induction ss with
  | nil => intro off _ _ _; rfl
  | cons s ss ih =>
    intro off hok hb hsz
    simp only [encodeSnaps, List.length_append] at hb hsz
    obtain ⟨h1, h2⟩ := slice_split hb
    simp only [List.length_cons, Qcow2.readSnapshots]
    rw [readSnapshot_encoded fh off s (hok s (by simp)) h1 (by omega)]
    simp only [Bind.bind, Except.bind]
    have e : (SnapSpec.expectedQ s).entrySize = s.entrySize := rfl
    have e2 : (s.entrySize + 7) / 8 * 8 = (encodeSnap s).length := by rw [encodeSnap_length]; rfl
    rw [e, e2, ih _ (fun s' hs' => hok s' (by simp [hs'])) h2 (by omega)]
    simp

end snap

/-! ### the VHDX parent locator -/
section locator
open Hv.Extracted.vhdx Hv.Vhdx

theorem mapM_ok {α β : Type} (f : α → Except Err β) (g : α → β) : ∀ (l : List α), (∀ a ∈ l, f a = .ok (g a)) →
    l.mapM f = .ok (l.map g) := by
  intro l
  induction l with
  | nil => intro _; rfl
  | cons a t ih =>
    intro h
    rw [List.mapM_cons, h a (by simp), ih (fun b hb => h b (by simp [hb]))]
    rfl

@[simp] theorem encodeLocEntry_length (e : LocEntry) : (encodeLocEntry e).length = 12 := by
  simp [encodeLocEntry, leBytes_length]

theorem encodeLocTable_length (es : List LocEntry) : (encodeLocTable es).length = 12 * es.length := by
  induction es with
  | nil => rfl
  | cons e es ih => simp only [encodeLocTable, List.length_append, encodeLocEntry_length, ih, List.length_cons]; omega

/-- the `i`-th 12-byte record of the table is the `i`-th entry's -/
theorem seg_table : ∀ (es : List LocEntry) (i : Nat) (hi : i < es.length) (o w : Nat), o + w ≤ 12 →
    seg (encodeLocTable es) (i * 12 + o) w = seg (encodeLocEntry es[i]) o w := by
  intro es
  induction es with
  | nil => intro i hi; cases hi
  | cons e es ih =>
    intro i hi o w how
    cases i with
    | zero =>
      simp only [encodeLocTable, Nat.zero_mul, Nat.zero_add, List.getElem_cons_zero]
      unfold seg
      rw [List.drop_append_of_le_length (by simp; omega), List.take_append_of_le_length (by simp; omega)]
    | succ i =>
      simp only [encodeLocTable, List.getElem_cons_succ]
      rw [seg_skip _ _ _ _ (by simp; omega), encodeLocEntry_length]
      have : (i + 1) * 12 + o - 12 = i * 12 + o := by omega
      rw [this]
      exact ih i (by simpa using hi) o w how

/-- the file stores a parent locator at `off`: header and entry table as the format lays them out, and every string at the
    offset / with the length its entry records — strings may sit anywhere (gaps, any order, shared) -/
structure LocStored (fh : File) (off : Nat) (ty : Bytes) (es : List LocEntry) : Prop where
  ty_len : ty.length = 16
  count : es.length < 2 ^ 16
  ok : ∀ e ∈ es, e.ok = true
  hdr : slice fh.byte off (20 + 12 * es.length) = encodeLocHeader ty es.length ++ encodeLocTable es
  fit : off + (20 + 12 * es.length) ≤ fh.size
  strs : ∀ e ∈ es, off + e.ko + e.key.length ≤ fh.size ∧ slice fh.byte (off + e.ko) e.key.length = e.key ∧
           off + e.vo + e.value.length ≤ fh.size ∧ slice fh.byte (off + e.vo) e.value.length = e.value

theorem LocEntry.ok_iff (e : LocEntry) (h : e.ok = true) :
    e.ko < 2 ^ 32 ∧ e.vo < 2 ^ 32 ∧ e.key.length < 2 ^ 16 ∧ e.value.length < 2 ^ 16 := by
  simpa [LocEntry.ok, and_assoc] using h

theorem parseLocator_stored (fh : File) (off : Nat) (ty : Bytes) (es : List LocEntry) (h : LocStored fh off ty es) :
    parseLocator fh off = .ok (.parentLocator ty (es.map fun e => (e.key, e.value))) := by
  obtain ⟨hty, hcnt, hok, hhdr, hfit, hstrs⟩ := h
  have hEl : (encodeLocHeader ty es.length ++ encodeLocTable es).length = 20 + 12 * es.length := by
    simp [encodeLocHeader, hty, encodeLocTable_length, leBytes_length]; omega
  have hHl : (encodeLocHeader ty es.length).length = 20 := by simp [encodeLocHeader, hty, leBytes_length]
  rw [← hEl] at hhdr
  have c1 : slice fh.byte (off + 0) 16 = ty := by
    rw [slice_seg hhdr 0 16 (by omega)]; simp [encodeLocHeader, seg_here, hty]
  have c2 : slice fh.byte (off + 18) 2 = leBytes 2 es.length := by
    rw [slice_seg hhdr 18 2 (by omega)]; simp [encodeLocHeader, seg_skip, seg_here, hty, leBytes_length]
  have hs20 : parent_locator_header.size = 20 := rfl
  have hs12 : parent_locator_entry.size = 12 := rfl
  unfold parseLocator
  simp only [hs20, hs12, File.chars, File.field, parent_locator_header.locator_type, parent_locator_header.key_value_count,
    parent_locator_entry.key_offset, parent_locator_entry.value_offset, parent_locator_entry.key_length,
    parent_locator_entry.value_length, c1, c2]
  have h20 : off + 20 ≤ fh.size := by omega
  rw [decode_le 18 2 16 _ (by decide) (by simpa using hcnt)]
  simp only [h20, if_true, Bind.bind, Except.bind]
  rw [mapM_ok _ (fun i => match es[i]? with | some e => (e.key, e.value) | none => ([], []))]
  · simp only [pure, Except.pure]
    congr 2
    apply List.ext_getElem
    · simp
    · intro i h1 h2
      simp only [List.length_map, List.length_range] at h1 h2
      simp [h2]
  · intro i hi
    have hi' : i < es.length := by simpa using hi
    have hmem : es[i] ∈ es := List.getElem_mem hi'
    obtain ⟨k1, k2, k3, k4⟩ := (es[i]).ok_iff (hok _ hmem)
    obtain ⟨s1, s2, s3, s4⟩ := hstrs _ hmem
    have hb : off + 20 + i * 12 + 12 ≤ fh.size := by omega
    have fld : ∀ o w, o + w ≤ 12 → slice fh.byte (off + 20 + i * 12 + o) w = seg (encodeLocEntry es[i]) o w := by
      intro o w how
      have : off + 20 + i * 12 + o = off + (20 + (i * 12 + o)) := by omega
      rw [this, slice_seg hhdr _ w (by omega), seg_skip _ _ _ _ (by omega), hHl, Nat.add_sub_cancel_left]
      exact seg_table es i hi' o w how
    have f1 : slice fh.byte (off + 20 + i * 12 + 0) 4 = leBytes 4 es[i].ko := by
      rw [fld 0 4 (by omega)]; simp [encodeLocEntry, seg_here, leBytes_length]
    have f2 : slice fh.byte (off + 20 + i * 12 + 4) 4 = leBytes 4 es[i].vo := by
      rw [fld 4 4 (by omega)]; simp [encodeLocEntry, seg_skip, seg_here, leBytes_length]
    have f3 : slice fh.byte (off + 20 + i * 12 + 8) 2 = leBytes 2 es[i].key.length := by
      rw [fld 8 2 (by omega)]; simp [encodeLocEntry, seg_skip, seg_here, leBytes_length]
    have f4 : slice fh.byte (off + 20 + i * 12 + 10) 2 = leBytes 2 es[i].value.length := by
      rw [fld 10 2 (by omega)]; simp [encodeLocEntry, seg_skip, seg_all, leBytes_length]
    simp only [hb, if_true, f1, f2, f3, f4]
    rw [decode_le 0 4 32 _ (by decide) (by simpa using k1), decode_le 4 4 32 _ (by decide) (by simpa using k2),
      decode_le 8 2 16 _ (by decide) (by simpa using k3), decode_le 10 2 16 _ (by decide) (by simpa using k4)]
    simp only [pure, Except.pure]
    rw [File.read_eq_slice fh _ _ s1, File.read_eq_slice fh _ _ s3, s2, s4]
    simp [hi']

/-! the back-to-back writer `encodeLocator` produces such a locator -/

theorem packEntries_kv : ∀ (kvs : List (Bytes × Bytes)) (pos : Nat),
    (packEntries pos kvs).map (fun e => (e.key, e.value)) = kvs := by
  intro kvs; induction kvs with
  | nil => intro _; rfl
  | cons kv kvs ih => intro pos; obtain ⟨k, v⟩ := kv; simp [packEntries, ih]

theorem packEntries_length : ∀ (kvs : List (Bytes × Bytes)) (pos : Nat), (packEntries pos kvs).length = kvs.length := by
  intro kvs; induction kvs with
  | nil => intro _; rfl
  | cons kv kvs ih => intro pos; obtain ⟨k, v⟩ := kv; simp [packEntries, ih]

theorem packEntries_strs (g : Nat → UInt8) (off : Nat) : ∀ (kvs : List (Bytes × Bytes)) (pos : Nat),
    slice g (off + pos) (stringArea kvs).length = stringArea kvs →
    ∀ e ∈ packEntries pos kvs,
      pos ≤ e.ko ∧ e.ko + e.key.length ≤ pos + (stringArea kvs).length ∧ slice g (off + e.ko) e.key.length = e.key ∧
      pos ≤ e.vo ∧ e.vo + e.value.length ≤ pos + (stringArea kvs).length ∧ slice g (off + e.vo) e.value.length = e.value ∧
      (e.key, e.value) ∈ kvs := by
  intro kvs
  induction kvs with
  | nil => intro pos _ e he; cases he
  | cons kv kvs ih =>
    intro pos hb e he
    obtain ⟨k, v⟩ := kv
    simp only [stringArea] at hb
    rw [List.length_append] at hb
    obtain ⟨hk, hrest⟩ := slice_split hb
    rw [List.length_append] at hrest
    obtain ⟨hv, hrest⟩ := slice_split hrest
    simp only [packEntries, List.mem_cons] at he
    simp only [stringArea, List.length_append]
    rcases he with rfl | he
    · simp only
      refine ⟨Nat.le_refl _, by omega, hk, by omega, by omega, ?_, by simp⟩
      rw [← Nat.add_assoc]; exact hv
    · have := ih (pos + k.length + v.length) (by rw [← Nat.add_assoc, ← Nat.add_assoc]; exact hrest) e he
      obtain ⟨a1, a2, a3, a4, a5, a6, a7⟩ := this
      exact ⟨by omega, by omega, a3, by omega, by omega, a6, by simp [a7]⟩

theorem encodeLocator_stored (fh : File) (off : Nat) (ty : Bytes) (kvs : List (Bytes × Bytes))
    (hty : ty.length = 16) (hcnt : kvs.length < 2 ^ 16)
    (hkv : ∀ kv ∈ kvs, kv.1.length < 2 ^ 16 ∧ kv.2.length < 2 ^ 16)
    (hlen : (encodeLocator ty kvs).length < 2 ^ 32)
    (hb : slice fh.byte off (encodeLocator ty kvs).length = encodeLocator ty kvs)
    (hsz : off + (encodeLocator ty kvs).length ≤ fh.size) :
    LocStored fh off ty (packEntries (20 + 12 * kvs.length) kvs) := by
  have hn := packEntries_length kvs (20 + 12 * kvs.length)
  have hHl : (encodeLocHeader ty kvs.length).length = 20 := by simp [encodeLocHeader, hty, leBytes_length]
  have hTl := encodeLocTable_length (packEntries (20 + 12 * kvs.length) kvs)
  rw [hn] at hTl
  have hEl : (encodeLocator ty kvs).length = 20 + 12 * kvs.length + (stringArea kvs).length := by
    simp only [encodeLocator, List.length_append, hHl, hTl]; omega
  -- split the blob
  have hb' := hb
  unfold encodeLocator at hb'
  rw [← List.append_assoc] at hb'
  rw [List.length_append] at hb'
  obtain ⟨h1, h2⟩ := slice_split hb'
  have hpre : (encodeLocHeader ty kvs.length ++ encodeLocTable (packEntries (20 + 12 * kvs.length) kvs)).length
      = 20 + 12 * kvs.length := by simp only [List.length_append, hHl, hTl]
  rw [hpre] at h1 h2
  have hs := packEntries_strs fh.byte off kvs (20 + 12 * kvs.length) h2
  refine ⟨hty, by rw [hn]; exact hcnt, ?_, by rw [hn]; exact h1, by rw [hn]; omega, ?_⟩
  · intro e he
    obtain ⟨a1, a2, _, a4, a5, _, a7⟩ := hs e he
    have := hkv _ a7
    simp only [LocEntry.ok, Bool.and_eq_true, decide_eq_true_eq]
    exact ⟨⟨⟨by omega, by omega⟩, this.1⟩, this.2⟩
  · intro e he
    obtain ⟨a1, a2, a3, a4, a5, a6, _⟩ := hs e he
    exact ⟨by omega, a3, by omega, a6⟩

end locator
end Hv.Meta
