/-
  C13 — lazy access: correct at multi-terabyte scale. The wide-offset obligations: every mask, shift and bit-field
  through which a reader decodes a file offset keeps every offset the format can express (beyond 2^32 bytes and 2^32
  sectors), with the masks / layouts taken from the extraction.

  The I/O clause ("proportional to the request, never scanning") is stated on the pure models as *footprint* theorems:
  `Hv.Footprint.{vdi,vhd,hds,vhdx,vmdk,qcow2Meta/qcow2Data}` name, from the geometry alone, the file ranges a read of
  `[off, off+len)` may look at (the table entries of the units the request touches and the requested part of each
  allocated unit; VHDX: sector-bitmap entries and bitmap bytes of partially present blocks; VMDK: one grain-table entry
  per grain; QCOW2: the L2 entries of the guest clusters touched, which bounds the look-ahead of run coalescing);
  `*_read_footprint`: the reader's result is the same on any two files of equal size that agree on those ranges;
  `*_open_footprint`: the same for the constructors (header + the tables loaded eagerly);
  `io_bound`: the footprint's total length is bounded by the request and the geometry only — no term for the number
  of allocated units or the size of the file; `no_scan`: every data range lies inside a unit the request maps to.
  `io_bound_tables` / `no_scan_tables`: the same for VHDX, VMDK sparse extents and QCOW2.
-/
import HvProofs.Wide
import HvProofs.Basic
import HvProofs.Footprint
import HvProofs.FootprintVhdxOpen
import HvProofs.FootprintVmdk
import HvProofs.FootprintQcow2
namespace Hv.C13
open Hv Hv.Wide

/-! extracted masks = the formats' bit ranges -/
theorem qcow2_masks_spec :
    Extracted.qcow2.L2E_OFFSET_MASK = (2 ^ (56 - 9) - 1) <<< 9 ∧ Extracted.qcow2.L1E_OFFSET_MASK = (2 ^ (56 - 9) - 1) <<< 9 ∧
    Extracted.qcow2.QCOW_OFLAG_COPIED = 2 ^ 63 ∧ Extracted.qcow2.QCOW_OFLAG_COMPRESSED = 2 ^ 62 ∧
    Extracted.qcow2.QCOW_OFLAG_ZERO = 2 ^ 0 := by decide

/-- **qcow2_offset_mask_wide**: every host cluster offset below 2^56 (512-aligned, as every cluster is) survives the
    L2 offset mask, whichever of the COPIED (bit 63) and ZERO (bit 0) flags are set — in particular offsets ≥ 2^32. -/
theorem qcow2_offset_mask_wide (o : Nat) (ho : o < 2 ^ 56) (hal : o % 512 = 0) (copied zero : Bool) :
    (o ||| ((if copied then Extracted.qcow2.QCOW_OFLAG_COPIED else 0) ||| (if zero then Extracted.qcow2.QCOW_OFLAG_ZERO else 0)))
      &&& Extracted.qcow2.L2E_OFFSET_MASK = o := by
  obtain ⟨h1, _, h3, _, h5⟩ := qcow2_masks_spec
  rw [h1, h3, h5]
  apply mask_preserves 9 56 o _ (by omega) ho hal
  intro i hi1 hi2
  rw [Nat.testBit_or, if_two_pow_testBit copied 63 i (by omega), if_two_pow_testBit zero 0 i (by omega)]
  rfl

/-- **qcow2_l1_mask_wide**: L2 table offsets below 2^56 survive the L1 mask (COPIED flag or not) -/
theorem qcow2_l1_mask_wide (o : Nat) (ho : o < 2 ^ 56) (hal : o % 512 = 0) (copied : Bool) :
    (o ||| (if copied then Extracted.qcow2.QCOW_OFLAG_COPIED else 0)) &&& Extracted.qcow2.L1E_OFFSET_MASK = o := by
  obtain ⟨_, h2, h3, _, _⟩ := qcow2_masks_spec
  rw [h2, h3]
  apply mask_preserves 9 56 o _ (by omega) ho hal
  intro i hi1 hi2
  exact if_two_pow_testBit copied 63 i (by omega)

/-- **qcow2_compressed_descriptor_wide**: for every cluster size (cluster_bits 9..21) a compressed-cluster
    descriptor `COMPRESSED | (nb_csectors-1) << x | host_offset` (x = 62 − (cluster_bits − 8)) decodes to exactly
    that host offset (any offset below 2^x, i.e. up to 2^61) and that sector count. -/
theorem qcow2_compressed_descriptor_wide (q : Qcow2.QCow2) (hcb : 9 ≤ q.clusterBits ∧ q.clusterBits ≤ 21)
    (coff n : Nat) (hc : coff < 2 ^ q.csizeShift) (hn : n < 2 ^ (q.clusterBits - 8)) :
    let desc := 2 ^ 62 + n * 2 ^ q.csizeShift + coff
    desc &&& q.clusterOffsetMask = coff ∧ (desc >>> q.csizeShift) &&& q.csizeMask = n := by
  intro desc
  simp only [Qcow2.QCow2.clusterOffsetMask, Qcow2.QCow2.csizeMask, Nat.and_two_pow_sub_one_eq_mod, Nat.shiftRight_eq_div_pow]
  have hs : q.csizeShift + (q.clusterBits - 8) = 62 := by simp only [Qcow2.QCow2.csizeShift]; omega
  have h62 : (2 : Nat) ^ 62 = 2 ^ (q.clusterBits - 8) * 2 ^ q.csizeShift := by rw [← Nat.pow_add, Nat.add_comm, hs]
  have hpos : 0 < 2 ^ q.csizeShift := Nat.two_pow_pos _
  constructor
  · show (2 ^ 62 + n * 2 ^ q.csizeShift + coff) % 2 ^ q.csizeShift = coff
    rw [h62, ← Nat.add_mul, Nat.add_comm, Nat.add_mul_mod_self_right, Nat.mod_eq_of_lt hc]
  · show (2 ^ 62 + n * 2 ^ q.csizeShift + coff) / 2 ^ q.csizeShift % 2 ^ (q.clusterBits - 8) = n
    rw [h62, ← Nat.add_mul, Nat.add_comm, Nat.add_mul_div_right _ _ hpos, Nat.div_eq_of_lt hc, Nat.zero_add,
      Nat.add_mod_left, Nat.mod_eq_of_lt hn]

/-! VMDK SE-sparse grain entries: type nibble, low 12 bits of the sector in bits 48..59, the rest in bits 0..47 -/
theorem sesparse_masks_spec :
    Vmdk.G_HI_MASK = 0xFFF <<< 48 ∧ Vmdk.G_HI_SHIFT = 48 ∧ Vmdk.G_LO_MASK = 2 ^ 48 - 1 ∧ Vmdk.G_LO_SHIFT = 12 ∧
    Extracted.vmdk.SESPARSE_GRAIN_TYPE_MASK = 0xF <<< 60 ∧ Extracted.vmdk.SESPARSE_GRAIN_TYPE_ALLOCATED = 3 <<< 60 := by decide

/-- **sesparse_entry_wide**: an allocated SE-sparse grain entry for grain number `s` — any `s < 2^60`, far beyond
    2^32 — decodes to the sector `grains_offset + s · grain_size`; it never collides with the 0 / 1 sentinels of
    unallocated / zero grains when `grains_offset ≥ 2`. -/
theorem sesparse_entry_wide (v : Vmdk.Sparse) (s : Nat) (hs : s < 2 ^ 60) :
    v.decodeSe (3 * 2 ^ 60 + (s % 4096) * 2 ^ 48 + s / 4096) = .ok (v.grainsOffset + s * v.grainSize) := by
  obtain ⟨h1, h2, h3, h4, h5, h6⟩ := sesparse_masks_spec
  have hlo : s / 4096 < 2 ^ 48 := by omega
  have hhi : s % 4096 < 4096 := Nat.mod_lt _ (by omega)
  obtain ⟨e, he⟩ : ∃ e, e = 3 * 2 ^ 60 + (s % 4096) * 2 ^ 48 + s / 4096 := ⟨_, rfl⟩
  rw [← he]
  have he' : e = 3 * 1152921504606846976 + (s % 4096) * 281474976710656 + s / 4096 := by
    rw [he]
  obtain ⟨r, hr⟩ : ∃ r, r = s % 4096 := ⟨_, rfl⟩
  obtain ⟨b, hb⟩ : ∃ b, b = s / 4096 := ⟨_, rfl⟩
  rw [← hr, ← hb] at he'
  have hr' : r < 4096 := by omega
  have hb' : b < 281474976710656 := by omega
  have ht : r * 281474976710656 + b < 1152921504606846976 := by omega
  have hdiv60 : e / 1152921504606846976 = 3 := by omega
  have hdiv48 : e / 281474976710656 = 3 * 4096 + r := by omega
  have hmod48 : e % 281474976710656 = b := by omega
  have hty : e &&& Extracted.vmdk.SESPARSE_GRAIN_TYPE_MASK = Extracted.vmdk.SESPARSE_GRAIN_TYPE_ALLOCATED := by
    rw [h5, h6]
    have : e &&& 0xF <<< 60 = ((e >>> 60) &&& 0xF) <<< 60 := by
      apply Nat.eq_of_testBit_eq; intro i
      simp only [Nat.testBit_and, Nat.testBit_shiftLeft, Nat.testBit_shiftRight]
      by_cases h : 60 ≤ i
      · simp [h, Nat.add_sub_cancel' h]
      · simp [h]
    rw [this, Nat.shiftRight_eq_div_pow, show (0xF : Nat) = 2 ^ 4 - 1 by decide, Nat.and_two_pow_sub_one_eq_mod]
    have : e / 2 ^ 60 % 2 ^ 4 = 3 := by
      show e / 1152921504606846976 % 16 = 3
      rw [hdiv60]
    rw [this]
  have hHi : (e &&& Vmdk.G_HI_MASK) >>> Vmdk.G_HI_SHIFT = s % 4096 := by
    rw [h1, h2, Nat.shiftRight_and_distrib, show (0xFFF <<< 48) >>> 48 = 2 ^ 12 - 1 by decide,
      Nat.and_two_pow_sub_one_eq_mod, Nat.shiftRight_eq_div_pow]
    show e / 281474976710656 % 4096 = s % 4096
    rw [hdiv48, ← hr]; omega
  have hLo : (e &&& Vmdk.G_LO_MASK) <<< Vmdk.G_LO_SHIFT = (s / 4096) * 4096 := by
    rw [h3, h4, Nat.and_two_pow_sub_one_eq_mod, Nat.shiftLeft_eq]
    have : e % 2 ^ 48 = s / 4096 := by
      show e % 281474976710656 = s / 4096
      rw [hmod48, hb]
    rw [this]
  unfold Vmdk.Sparse.decodeSe
  simp only [hty, hHi, hLo]
  have d1 : Extracted.vmdk.SESPARSE_GRAIN_TYPE_ALLOCATED ≠ Extracted.vmdk.SESPARSE_GRAIN_TYPE_UNALLOCATED := by decide
  have d2 : Extracted.vmdk.SESPARSE_GRAIN_TYPE_ALLOCATED ≠ Extracted.vmdk.SESPARSE_GRAIN_TYPE_FALLTHROUGH := by decide
  have d3 : Extracted.vmdk.SESPARSE_GRAIN_TYPE_ALLOCATED ≠ Extracted.vmdk.SESPARSE_GRAIN_TYPE_ZERO := by decide
  simp only [d1, d2, d3, or_self, if_false, if_true]
  have hor : s % 4096 ||| s / 4096 * 4096 = s := by
    have := Nat.shiftLeft_add_eq_or_of_lt (a := s / 4096) (b := s % 4096) (i := 12) (by omega)
    rw [Nat.shiftLeft_eq] at this
    rw [Nat.or_comm, ← this]
    omega
  rw [hor]

/-- **vhdx_file_offset_wide**: a VHDX BAT entry `state | file_offset_mb << 20` decodes, through the extracted
    bit-field layout, to exactly that state and that MiB offset for every `file_offset_mb < 2^44` (16 EiB). -/
theorem vhdx_file_offset_wide (state mb : Nat) (hs : state < 8) (hm : mb < 2 ^ 44) :
    Extracted.vhdx.bat_entry.file_offset_mb.decode (leBytes 8 (state + mb * 2 ^ 20)) = mb ∧
    Extracted.vhdx.bat_entry.state.decode (leBytes 1 ((state + mb * 2 ^ 20) % 256)) = state := by
  have hl : ∀ n v, v < 256 ^ n → leNat (leBytes n v) = v := by
    intro n
    induction n with
    | zero => intro v h; simp at h; subst h; rfl
    | succ n ih =>
      intro v h
      simp only [leBytes, leNat]
      rw [ih (v / 256) (by rw [Nat.pow_succ] at h; omega)]
      have : (UInt8.ofNat (v % 256)).toNat = v % 256 := by
        simp
      rw [this]; omega
  have e1 : Extracted.vhdx.bat_entry.file_offset_mb = ⟨0, 8, false, 20, 44⟩ := by decide
  have e2 : Extracted.vhdx.bat_entry.state = ⟨0, 1, false, 0, 3⟩ := by decide
  rw [e1, e2]
  simp only [Field.decode, Bool.false_eq_true, if_false]
  rw [hl 8 _ (by omega), hl 1 _ (by omega)]
  constructor <;> omega

/-- **vhd_bat_entry_unsigned**: a VHD BAT entry is an unsigned big-endian 32-bit sector number: every value below
    2^32 − 1 (2 TiB of file) decodes to itself, never to a negative number, and the byte offset is `entry · 512`. -/
theorem vhd_bat_entry_unsigned (e : Nat) (he : e < 2 ^ 32) :
    Extracted.vhd.BAT_ENTRY_FORMAT = ">I" ∧ beNat (beBytes 4 e) = e := by
  refine ⟨by decide, ?_⟩
  have : ∀ n v, v < 256 ^ n → beNat (beBytes n v) = v := by
    intro n v h
    have hl : ∀ n v, v < 256 ^ n → leNat (leBytes n v) = v := by
      intro n
      induction n with
      | zero => intro v h; simp at h; subst h; rfl
      | succ n ih =>
        intro v h
        simp only [leBytes, leNat]
        rw [ih (v / 256) (by rw [Nat.pow_succ] at h; omega)]
        have : (UInt8.ofNat (v % 256)).toNat = v % 256 := by simp
        rw [this]; omega
    have hb : ∀ (l : Bytes), beNat l.reverse = leNat l := by
      intro l
      induction l with
      | nil => rfl
      | cons a t ih =>
        simp only [List.reverse_cons, beNat, List.foldl_append, List.foldl_cons, List.foldl_nil, leNat]
        have := ih; simp only [beNat] at this; rw [this]; omega
    rw [beBytes, hb, hl n v h]
  exact this 4 e (by omega)

/-! non-vacuity: concrete far offsets -/
example : (0xFF000000 * 512 : Nat) ≥ 2 ^ 40 ∧ beNat (beBytes 4 0xFF000000) = 0xFF000000 := by decide
example : ((2 ^ 55 + 2 ^ 33 : Nat) ||| 2 ^ 63) &&& Extracted.qcow2.L2E_OFFSET_MASK = 2 ^ 55 + 2 ^ 33 := by decide

/-! ## I/O footprint -/
section footprint
open Hv.Footprint

/-- **vdi_read_footprint**: `VDI._read(off, len)` looks only at the requested part of the data blocks that the (already
    loaded) block map assigns to the block indices `off / bs .. (off+len-1) / bs`: any other file of the same size that
    agrees on those ranges gives the same result (bytes or error). No hypothesis on the image. -/
theorem vdi_read_footprint (v : Vdi.Vdi) (f' : File) (off len : Nat) (hsz : v.fh.size = f'.size)
    (h : ∀ r ∈ Footprint.vdi v off len, ∀ p, r.1 ≤ p → p < r.1 + r.2 → v.fh.byte p = f'.byte p) :
    Vdi.read v off len = Vdi.read { v with fh := f' } off len :=
  Footprint.vdi_read_footprint v f' off len ⟨hsz, h⟩

/-- **vdi_open_footprint**: `VDI.__init__` looks only at the 456-byte header and the block map the header names -/
theorem vdi_open_footprint (f f' : File) (par : Option Vdi.Reader) (hsz : f.size = f'.size)
    (h : ∀ r ∈ Footprint.vdiOpen f, ∀ p, r.1 ≤ p → p < r.1 + r.2 → f.byte p = f'.byte p) :
    Vdi.open f' par = (Vdi.open f par).map (fun v => { v with fh := f' }) :=
  Footprint.vdi_open_footprint f f' par ⟨hsz, h⟩

/-- **vhd_read_footprint**: `VHD._read(off, len)` looks only at the 4-byte BAT entries of the blocks the request's
    sectors touch and at the requested sectors inside the blocks those entries name (fixed disks: the requested
    sectors). -/
theorem vhd_read_footprint (v : Vhd.Vhd) (f' : File) (off len : Nat) (hsz : v.fh.size = f'.size)
    (h : ∀ r ∈ Footprint.vhd v off len, ∀ p, r.1 ≤ p → p < r.1 + r.2 → v.fh.byte p = f'.byte p) :
    v.read off len = ({ v with fh := f' } : Vhd.Vhd).read off len :=
  Footprint.vhd_read_footprint v f' off len ⟨hsz, h⟩

/-- **vhd_open_footprint**: `VHD.__init__` looks only at the last 512 bytes and the dynamic header the footer names -/
theorem vhd_open_footprint (f f' : File) (hsz : f.size = f'.size)
    (h : ∀ r ∈ Footprint.vhdOpen f, ∀ p, r.1 ≤ p → p < r.1 + r.2 → f.byte p = f'.byte p) :
    Vhd.open f' = (Vhd.open f).map (fun v => { v with fh := f' }) :=
  Footprint.vhd_open_footprint f f' ⟨hsz, h⟩

/-- **hds_read_footprint**: `HDS._read(off, len)` — run coalescing included — looks only at the requested part of the
    clusters that the (already loaded) BAT assigns to the cluster indices the request touches. -/
theorem hds_read_footprint (v : Hds.Hds) (f' : File) (off len : Nat) (hsz : v.fh.size = f'.size)
    (h : ∀ r ∈ Footprint.hds v off len, ∀ p, r.1 ≤ p → p < r.1 + r.2 → v.fh.byte p = f'.byte p) :
    v.read off len = ({ v with fh := f' } : Hds.Hds).read off len :=
  Footprint.hds_read_footprint v f' off len ⟨hsz, h⟩

/-- **hds_open_footprint**: `HDS.__init__` + `bat` look only at the 64-byte header and the BAT behind it -/
theorem hds_open_footprint (f f' : File) (par : Option Hds.Reader) (hsz : f.size = f'.size)
    (h : ∀ r ∈ Footprint.hdsOpen f, ∀ p, r.1 ≤ p → p < r.1 + r.2 → f.byte p = f'.byte p) :
    Hds.open f' par = (Hds.open f par).map (fun v => { v with fh := f' }) :=
  Footprint.hds_open_footprint f f' par ⟨hsz, h⟩

/-- **vhdx_read_footprint**: `VHDX._read(off, len)` looks only at the 8-byte BAT entries of the payload blocks the
    request's sectors touch, at the requested sectors of the fully present ones, and — for a PARTIALLY_PRESENT block — at
    the sector-bitmap BAT entry, the bitmap bytes that hold the bits of the requested sectors, and the requested sectors
    (the run counts of `_iter_partial_runs(bitmap, start, n)` add up to at most `n`: `Footprint.vhdx_runs_total`, from
    `partialRuns_eq_rle`). No hypothesis on the image; a parent, if any, is the same on both sides. -/
theorem vhdx_read_footprint (v : Vhdx.Vhdx) (f' : File) (off len : Nat) (hsz : v.fh.size = f'.size)
    (h : ∀ r ∈ Footprint.vhdx v off len, ∀ p, r.1 ≤ p → p < r.1 + r.2 → v.fh.byte p = f'.byte p) :
    v.read off len = ({ v with fh := f' } : Vhdx.Vhdx).read off len :=
  Footprint.vhdx_read_footprint v f' off len ⟨hsz, h⟩

/-- **vhdx_open_footprint**: `VHDX.__init__` looks only at the file identifier, both headers, both region tables, the
    metadata table of the metadata region and the items it names (parent locator entries, keys and values included):
    on a file of equal size that agrees on `Footprint.vhdxOpen` it fails with the same error or builds the same object
    (up to the handle it keeps). The BAT is not read at open. No hypothesis on the image. -/
theorem vhdx_open_footprint (f f' : File) (par : Option Vhdx.SectorReader) (hsz : f.size = f'.size)
    (h : ∀ r ∈ Footprint.vhdxOpen f, ∀ p, r.1 ≤ p → p < r.1 + r.2 → f.byte p = f'.byte p) :
    Vhdx.open f' par = (Vhdx.open f par).map (fun v => { v with fh := f' }) :=
  Footprint.vhdx_open_footprint f f' par ⟨hsz, h⟩

/-- **vmdk_read_footprint**: `SparseDisk.read_sectors(sector, count)` of an uncompressed sparse extent (hosted KDMV,
    COWD, SE-sparse) — `_lookup_grain`, the run coalescer `get_runs`, the run reads — looks only at one grain-table
    entry (4 bytes; SE-sparse 8) per grain the request touches, inside the table that the (already loaded) grain
    directory names for it, and at the requested sectors of the grains those entries name. Arbitrary directory / table
    contents. (The real code transfers the whole grain table that holds an entry, once, through its LRU cache:
    `Footprint.vmdkIO`, `Footprint.vmdk_sub_vmdkIO`.) -/
theorem vmdk_read_footprint (v : Vmdk.Sparse) (f' : File) (sector count : Nat)
    (hunc : v.flags &&& Extracted.vmdk.SPARSEFLAG_COMPRESSED = 0) (hsz : v.fh.size = f'.size)
    (h : ∀ r ∈ Footprint.vmdk v sector count, ∀ p, r.1 ≤ p → p < r.1 + r.2 → v.fh.byte p = f'.byte p) :
    v.readSectors sector count = ({ v with fh := f' } : Vmdk.Sparse).readSectors sector count :=
  Footprint.vmdk_read_footprint v f' sector count hunc ⟨hsz, h⟩

/-- **qcow2_read_footprint**: `QCow2._read(offset, length)` — L1/L2 walk, `count_contiguous_subclusters`, run reads;
    standard and extended L2 entries, compressed clusters — looks in the image file only at the L2 entries (8 bytes;
    extended L2: 16) of the guest clusters the request touches and at the compressed data of the compressed ones, and in
    the data file only at the requested part of the host clusters of the normal ones. The look-ahead of run coalescing
    (DESIGN O3) is bounded by the request: `count_contiguous_subclusters` is called with
    `nb_clusters = ⌈bytes_needed / cluster_size⌉` where `bytes_needed ≤ length + offset_in_cluster` and stays inside the
    current L2 table, so every entry it consults belongs to a guest cluster of `[offset, offset + length)`
    (`Footprint.qcow2_ahead`). Arbitrary L1 / L2 contents; the header geometry is the one the gates of `open` accept. -/
theorem qcow2_read_footprint (q : Qcow2.QCow2) (hh : Qcow2.HdrOK q) (f' d' : File) (offset length : Nat)
    (hsz : q.fh.size = f'.size) (hdsz : q.dataFile.size = d'.size)
    (hm : ∀ r ∈ Footprint.qcow2Meta q offset length, ∀ p, r.1 ≤ p → p < r.1 + r.2 → q.fh.byte p = f'.byte p)
    (hd : ∀ r ∈ Footprint.qcow2Data q offset length, ∀ p, r.1 ≤ p → p < r.1 + r.2 → q.dataFile.byte p = d'.byte p) :
    q.read offset length = ({ q with fh := f', dataFile := d' } : Qcow2.QCow2).read offset length :=
  Footprint.qcow2_read_footprint q hh f' d' offset length ⟨hsz, hm⟩ ⟨hdsz, hd⟩

/-- **io_bound** (`footprint_size_bound`): the number of file bytes a request may look at is bounded by the request and
    the geometry alone: at most `len` data bytes (VHD: whole sectors) plus one table entry per unit touched, of which
    there are at most `len / unit + 2`. No term for the number of allocated units, the table size or the file size. -/
theorem io_bound :
    (∀ (v : Vdi.Vdi) (off len : Nat), total (Footprint.vdi v off len) ≤ len) ∧
    (∀ (v : Vhd.Vhd) (off len : Nat), total (Footprint.vhd v off len) ≤ len + 511 + ((len + 511) / 512 / v.spb + 2) * 4) ∧
    (∀ (v : Hds.Hds) (off len : Nat), total (Footprint.hds v off len) ≤ len) := by
  refine ⟨fun v off len => ?_, fun v off len => ?_, fun v off len => hds_footprint_size_bound v off len⟩
  · exact Nat.le_trans (vdi_footprint_size_bound v off len) (Nat.min_le_left _ _)
  · have h := vhd_footprint_size_bound v off len
    have hS : Vhd.S = 512 := rfl
    rw [hS] at h
    have h1 : (min len (v.size - off) + 512 - 1) / 512 ≤ (len + 511) / 512 :=
      Nat.div_le_div_right (by omega)
    have h2 : (min len (v.size - off) + 512 - 1) / 512 / v.spb ≤ (len + 511) / 512 / v.spb := Nat.div_le_div_right h1
    have h3 : (min len (v.size - off) + 512 - 1) / 512 * 512 ≤ min len (v.size - off) + 512 - 1 := Nat.div_mul_le_self _ _
    omega

/-- **no_scan** (`footprint_inside_request_units`): every range of a footprint is the table entry of a unit the request
    touches or lies inside the data area that this entry names — nothing else of the file is looked at. -/
theorem no_scan :
    (∀ (v : Vdi.Vdi) (off len : Nat), 0 < v.blockSize → ∀ r ∈ Footprint.vdi v off len,
      ∃ i b, off / v.blockSize ≤ i ∧ i ≤ (off + min len (v.size - off) - 1) / v.blockSize ∧ v.map[i]? = some b ∧
        b ≠ -1 ∧ b ≠ -2 ∧ (v.dataOffset : Int) + b * (v.blockSize : Int) ≤ (r.1 : Int) ∧
        (r.1 : Int) + (r.2 : Int) ≤ (v.dataOffset : Int) + (b + 1) * (v.blockSize : Int)) ∧
    (∀ (v : Vhd.Vhd) (off len : Nat), v.kind = .dynamic → 0 < v.spb → ∀ r ∈ Footprint.vhd v off len,
      ∃ i, off / 512 / v.spb ≤ i ∧ i ≤ (off / 512 + (min len (v.size - off) + 512 - 1) / 512 - 1) / v.spb ∧ i < v.maxEntries ∧
        (r = (v.tableOffset + i * 4, 4) ∨
          (v.batRaw i ≠ 0xFFFFFFFF ∧ v.batRaw i ≠ 0 ∧ (v.batRaw i + v.bitmapSectors) * 512 ≤ r.1 ∧
            r.1 + r.2 ≤ (v.batRaw i + v.bitmapSectors + v.spb) * 512))) ∧
    (∀ (v : Hds.Hds) (off len : Nat), 0 < v.clusterSize → ∀ r ∈ Footprint.hds v off len,
      ∃ i e, off / v.clusterSize ≤ i ∧ i ≤ (off + len - 1) / v.clusterSize ∧ i * v.clusterSize < v.size ∧
        v.bat[i]? = some e ∧ e ≠ 0 ∧ e * v.mult * 512 ≤ r.1 ∧ r.1 + r.2 ≤ e * v.mult * 512 + v.clusterSize) :=
  ⟨fun v off len h r hr => vdi_footprint_inside v off len h r hr,
   fun v off len hk h r hr => vhd_footprint_inside v off len hk h r hr,
   fun v off len h r hr => hds_footprint_inside v off len h r hr⟩

/-- **io_bound_tables**: the same for the formats whose tables are read per request. VHDX: whole sectors of the request,
    one bitmap bit per sector, two 8-byte BAT entries per block touched. VMDK: the requested sectors and one grain-table
    entry (≤ 8 bytes) per grain touched. QCOW2, image file: per guest cluster touched one L2 entry (≤ 16 bytes) and, if
    the cluster is compressed, its compressed data (≤ `2^(cluster_bits − 8)` sectors = two clusters); data file: at
    most `length` bytes. No term for the number of allocated units, the table sizes or the file size. -/
theorem io_bound_tables :
    (∀ (v : Vhdx.Vhdx) (off len : Nat), total (Footprint.vhdx v off len) ≤
      ((min len (v.size - off) + v.sectorSize - 1) / v.sectorSize) * (v.sectorSize + 1) +
        18 * (((min len (v.size - off) + v.sectorSize - 1) / v.sectorSize) / v.spb + 2)) ∧
    (∀ (v : Vmdk.Sparse) (sector count : Nat), total (Footprint.vmdk v sector count) ≤ count * 512 + 8 * (count / v.grainSize + 2)) ∧
    (∀ (q : Qcow2.QCow2) (offset length : Nat),
      total (Footprint.qcow2Meta q offset length) ≤ (16 + 2 ^ (q.clusterBits - 8) * 512) * (length / q.cs + 2) ∧
      total (Footprint.qcow2Data q offset length) ≤ length) :=
  ⟨vhdx_footprint_size_bound, vmdk_footprint_size_bound,
   fun q offset length => ⟨qcow2_meta_size_bound q offset length, qcow2_data_size_bound q offset length⟩⟩

/-- **no_scan_tables**: VMDK — every range is the table entry of a grain the request touches (in the table the grain
    directory names) or lies inside the grain that entry names; QCOW2 — every data-file range lies inside the host
    cluster named by the L2 entry of a guest cluster the request touches, every image-file range is a word of the L2
    table named by the L1 entry of such a cluster or the compressed data its entry names. -/
theorem no_scan_tables :
    (∀ (v : Vmdk.Sparse) (sector count : Nat), 0 < v.grainSize → ∀ r ∈ Footprint.vmdk v sector count,
      ∃ g off, (sector - v.sectorOffset) / v.grainSize ≤ g ∧ g ≤ (sector - v.sectorOffset + count - 1) / v.grainSize ∧
        Footprint.vmdkTable v g = some off ∧
        (r = (off + (g % v.gtSize) * v.entryWidth, v.entryWidth) ∨
          ∃ gsec, v.lookupGrain g = .ok gsec ∧ 1 < gsec ∧ gsec * 512 ≤ r.1 ∧ r.1 + r.2 ≤ (gsec + v.grainSize) * 512)) ∧
    (∀ (q : Qcow2.QCow2) (offset length : Nat), ∀ r ∈ Footprint.qcow2Data q offset length,
      ∃ c l2o e bm, offset / q.cs ≤ c ∧ c ≤ (offset + length - 1) / q.cs ∧ Footprint.qcow2L2 q c = some l2o ∧
        q.l2Entry l2o (c % q.l2Size) = .ok (e, bm) ∧ q.clusterType e = .normal ∧
        (e &&& Extracted.qcow2.L2E_OFFSET_MASK) ≤ r.1 ∧ r.1 + r.2 ≤ (e &&& Extracted.qcow2.L2E_OFFSET_MASK) + q.cs) ∧
    (∀ (q : Qcow2.QCow2) (offset length : Nat), ∀ r ∈ Footprint.qcow2Meta q offset length,
      ∃ c l2o, offset / q.cs ≤ c ∧ c ≤ (offset + length - 1) / q.cs ∧ Footprint.qcow2L2 q c = some l2o ∧
        ((l2o ≤ r.1 ∧ r.1 + r.2 ≤ l2o + 8 * (q.l2Size * (q.l2EntrySize / 8))) ∨
          ∃ e bm, q.l2Entry l2o (c % q.l2Size) = .ok (e, bm) ∧ q.clusterType e = .compressed ∧
            r = Footprint.qcow2Comp q (e &&& Extracted.qcow2.L2E_COMPRESSED_OFFSET_SIZE_MASK))) :=
  ⟨fun v sector count h r hr => vmdk_footprint_inside v sector count h r hr,
   fun q offset length r hr => qcow2_data_inside q offset length r hr,
   fun q offset length r hr => qcow2_meta_inside q offset length r hr⟩

/-! non-vacuity: a VDI whose blocks sit beyond 2^40; a 2-byte request inside block 0 looks at 2 bytes at 2^40+…, and a
    file that differs everywhere else reads the same -/
example : Footprint.vdi exVdi 1 2 = [(2 ^ 40 + 5 * 4096 + 1, 2)] := by decide
example : Footprint.vdi exVdi 4095 4098 = [(2 ^ 40 + 5 * 4096 + 4095, 1), (2 ^ 40, 1)] := by decide
example (g : Nat → UInt8) : Vdi.read exVdi 1 2 = Vdi.read { exVdi with fh := exFile g } 1 2 := by
  refine vdi_read_footprint exVdi (exFile g) 1 2 rfl ?_
  intro r hr p h1 h2
  have : r = (2 ^ 40 + 5 * 4096 + 1, 2) := by
    have e : Footprint.vdi exVdi 1 2 = [(2 ^ 40 + 5 * 4096 + 1, 2)] := by decide
    rw [e] at hr; simpa using hr
  subst this
  have : p = 2 ^ 40 + 5 * 4096 + 1 ∨ p = 2 ^ 40 + 5 * 4096 + 2 := by simp only at h1 h2; omega
  simp only [exVdi, exFile, this, if_true]

/-! non-vacuity (VHDX): payload block 0 PARTIALLY_PRESENT at 2^42, sector bitmap at 2^41; sectors 2..3 look at the payload
    BAT entry, the sector-bitmap BAT entry, one bitmap byte and the two sectors — a file that differs everywhere else
    (arbitrary `g`) reads the same -/
example : Footprint.vhdx exVhdx 1024 1024 = [(2 ^ 20, 8), (2 ^ 20 + 2 ^ 23, 8), (2 ^ 41, 1), (2 ^ 42 + 1024, 1024)] := by decide
example (g : Nat → UInt8) : exVhdx.read 1024 1024 = ({ exVhdx with fh := exVhdxFile g } : Vhdx.Vhdx).read 1024 1024 := by
  refine vhdx_read_footprint exVhdx (exVhdxFile g) 1024 1024 rfl ?_
  intro r _ p _ _
  simp only [exVhdx, exVhdxFile]
  repeat' split
  all_goals first | rfl | skip
  -- the only remaining position class is "outside every listed range": excluded by the footprint
  all_goals
    rename_i h1 h2 h3 h4 h5 h6 h7
    have e : Footprint.vhdx exVhdx 1024 1024 = [(2 ^ 20, 8), (2 ^ 20 + 2 ^ 23, 8), (2 ^ 41, 1), (2 ^ 42 + 1024, 1024)] := by decide
    rename_i hr hp1 hp2
    rw [e] at hr
    simp only [List.mem_cons, List.not_mem_nil, or_false] at hr
    exfalso
    rcases hr with rfl | rfl | rfl | rfl <;> simp only at hp1 hp2 <;> omega

/-! non-vacuity (VMDK): a hosted sparse extent whose grain table sits at byte 2^40 and whose grain 1 sits at sector
    0xC0000000 (byte 1649267441664); sectors 9..10 look at grain 1's table entry and at 2 sectors of the grain — a file
    that differs everywhere else (arbitrary `g`) reads the same -/
example : Footprint.vmdk exVmdk 9 2 = [(2 ^ 40 + 4, 4), ((0xC0000000 + 1) * 512, 2 * 512)] := by decide
example (g : Nat → UInt8) :
    exVmdk.readSectors 9 2 = ({ exVmdk with fh := exVmdkFile g } : Vmdk.Sparse).readSectors 9 2 := by
  refine vmdk_read_footprint exVmdk (exVmdkFile g) 9 2 (by decide) rfl ?_
  have e : Footprint.vmdk exVmdk 9 2 = [(2 ^ 40 + 4, 4), (1649267442176, 1024)] := by decide
  rw [e]
  intro r hr p h1 h2
  simp only [exVmdk, exVmdkFile]
  simp only [List.mem_cons, List.not_mem_nil, or_false] at hr
  have hp : (1099511627776 ≤ p ∧ p < 1099511627784) ∨ (1649267442176 ≤ p ∧ p < 1649267443200) := by
    rcases hr with rfl | rfl
    · left; simp only at h1 h2; omega
    · right; simp only at h1 h2; omega
  have e40 : (2 : Nat) ^ 40 = 1099511627776 := by decide
  rw [e40]
  split
  · rfl
  · split
    · rfl
    · split
      · rfl
      · exfalso; omega

/-! non-vacuity (QCOW2): 512-byte clusters, L2 table at 2^40, guest cluster 1 on the host cluster at 2^41; a 10-byte
    request inside cluster 1 looks at its 8-byte L2 entry and at 10 bytes of the host cluster -/
example : Qcow2.HdrOK exQ := ⟨by decide, by decide, by decide⟩
example : Footprint.qcow2Meta exQ 517 10 = [(2 ^ 40 + 8, 8)] ∧ Footprint.qcow2Data exQ 517 10 = [(2 ^ 41 + 5, 10)] := by decide
example (g g' : Nat → UInt8) :
    exQ.read 517 10 = ({ exQ with fh := exQFile g, dataFile := exQFile g' } : Qcow2.QCow2).read 517 10 := by
  have e : Footprint.qcow2Meta exQ 517 10 = [(2 ^ 40 + 8, 8)] ∧ Footprint.qcow2Data exQ 517 10 = [(2 ^ 41 + 5, 10)] := by decide
  have e40 : (2 : Nat) ^ 40 = 1099511627776 := by decide
  have e41 : (2 : Nat) ^ 41 = 2199023255552 := by decide
  refine qcow2_read_footprint exQ ⟨by decide, by decide, by decide⟩ (exQFile g) (exQFile g') 517 10 rfl rfl ?_ ?_
  · rw [e.1]
    intro r hr p h1 h2
    simp only [List.mem_cons, List.not_mem_nil, or_false] at hr
    subst hr
    simp only [e40] at h1 h2
    simp only [exQ, exQFile, e40, e41]
    split
    · rfl
    · split
      · rfl
      · exfalso; omega
  · rw [e.2]
    intro r hr p h1 h2
    simp only [List.mem_cons, List.not_mem_nil, or_false] at hr
    subst hr
    simp only [e41] at h1 h2
    simp only [exQ, exQFile, e40, e41]
    split
    · rfl
    · split
      · rfl
      · split
        · rfl
        · exfalso; omega

end footprint

end Hv.C13
