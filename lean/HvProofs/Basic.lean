/- Helper lemmas shared by all read-path proofs. Core Lean only. -/
import Hv.Prim.Bytes
namespace Hv

@[simp] theorem slice_length (g : Nat → UInt8) (off len : Nat) : (slice g off len).length = len := by
  simp [slice]

@[simp] theorem slice_zero (g : Nat → UInt8) (off : Nat) : slice g off 0 = [] := by simp [slice]

theorem slice_append (g : Nat → UInt8) (off a b : Nat) :
    slice g off (a + b) = slice g off a ++ slice g (off + a) b := by
  unfold slice
  rw [List.range_add, List.map_append, List.map_map]
  congr 1
  apply List.map_congr_left
  intro i _
  simp [Nat.add_assoc]

theorem slice_take (g : Nat → UInt8) (off len k : Nat) (h : k ≤ len) :
    (slice g off len).take k = slice g off k := by
  have : len = k + (len - k) := by omega
  rw [this, slice_append, List.take_left' (by simp)]

theorem slice_drop (g : Nat → UInt8) (off len k : Nat) (h : k ≤ len) :
    (slice g off len).drop k = slice g (off + k) (len - k) := by
  have : len = k + (len - k) := by omega
  conv => lhs; rw [this, slice_append]
  rw [List.drop_left' (by simp)]

theorem slice_congr (g h : Nat → UInt8) (off len : Nat) (e : ∀ i, i < len → g (off + i) = h (off + i)) :
    slice g off len = slice h off len := by
  unfold slice
  apply List.map_congr_left
  intro i hi
  exact e i (by simpa using hi)

/-- a slice through a shifted function -/
theorem slice_shift (g h : Nat → UInt8) (off off' len : Nat) (e : ∀ i, i < len → g (off + i) = h (off' + i)) :
    slice g off len = slice h off' len := by
  unfold slice
  apply List.map_congr_left
  intro i hi
  exact e i (by simpa using hi)

theorem zeros_eq_slice (g : Nat → UInt8) (off n : Nat) (h : ∀ i, i < n → g (off + i) = 0) :
    zeros n = slice g off n := by
  unfold slice zeros
  apply List.ext_getElem <;> simp
  intro i hi
  exact (h i hi).symm

@[simp] theorem zeros_length (n : Nat) : (zeros n).length = n := by simp [zeros]

theorem File.read_eq_slice (f : File) (off len : Nat) (h : off + len ≤ f.size) :
    f.read off len = slice f.byte off len := by
  unfold File.read
  have : min len (f.size - off) = len := by omega
  rw [this]

theorem File.read_length_le (f : File) (off len : Nat) : (f.read off len).length ≤ len := by
  unfold File.read; simp; omega

/-- inside one allocation unit: `(off+i)/unit` and `(off+i)%unit` for `i < n` when the
    chunk `[off, off+n)` does not cross a unit boundary. -/
theorem block_arith (off unit n i : Nat) (hu : 0 < unit) (hn : off % unit + n ≤ unit) (hi : i < n) :
    (off + i) / unit = off / unit ∧ (off + i) % unit = off % unit + i := by
  have h1 : off = unit * (off / unit) + off % unit := (Nat.div_add_mod off unit).symm
  have h2 : off + i = unit * (off / unit) + (off % unit + i) := by omega
  constructor
  · apply Nat.div_eq_of_lt_le
    · rw [Nat.mul_comm]; omega
    · rw [Nat.add_mul, Nat.mul_comm]; omega
  · rw [h2, Nat.mul_add_mod, Nat.mod_eq_of_lt (by omega)]

theorem sub_mod_self_mod (p a : Nat) : (p - p % a) % a = 0 := by
  have h := Nat.div_add_mod p a
  have : p - p % a = a * (p / a) := by omega
  rw [this, Nat.mul_mod_right]

/-- after a chunk that ends on a unit boundary or ends the request -/
theorem next_block (off unit n : Nat) (hu : 0 < unit) (hn : off % unit + n = unit) :
    (off + n) / unit = off / unit + 1 ∧ (off + n) % unit = 0 := by
  have h1 : off = unit * (off / unit) + off % unit := (Nat.div_add_mod off unit).symm
  have h2 : off + n = unit * (off / unit + 1) := by rw [Nat.mul_add]; omega
  constructor
  · rw [h2, Nat.mul_div_cancel_left _ hu]
  · rw [h2, Nat.mul_mod_right]

end Hv
