/-
  Hv.Prim.Regex — a small backtracking regular-expression matcher with the semantics of
  Python's `re` for the constructs used in the repository (the regex values themselves are
  regenerated from the live pattern objects by harness/extract.py).
-/
namespace Hv.Regex

inductive Cat where | space | notSpace | digit | notDigit
  deriving Repr, DecidableEq

inductive CItem where
  | ch (c : Nat)
  | range (a b : Nat)
  | cat (c : Cat)
  deriving Repr

inductive Re where
  | lit (c : Nat)
  | notLit (c : Nat)
  | any                                  -- `.` (no DOTALL): anything but "\n"
  | cls (neg : Bool) (items : List CItem)
  | seq (l : List Re)
  | alt (l : List Re)
  | rep (min : Nat) (max : Option Nat) (greedy : Bool) (r : Re)
  | group (i : Nat) (r : Re)
  | bos
  | eos
  deriving Repr

/-- the Unicode tables Python uses for `\s` / `str.isspace` and `\d` (extracted) -/
structure Tables where
  spaces : List Nat
  digitZeros : List Nat      -- code point of the digit zero of every Nd block

def isSpace (t : Tables) (c : Nat) : Bool := t.spaces.contains c
def isDigit (t : Tables) (c : Nat) : Bool := t.digitZeros.any (fun z => z ≤ c && c < z + 10)
def digitVal (t : Tables) (c : Nat) : Option Nat :=
  (t.digitZeros.find? (fun z => z ≤ c && c < z + 10)).map (fun z => c - z)

def catMatch (t : Tables) (k : Cat) (c : Nat) : Bool :=
  match k with
  | .space => isSpace t c | .notSpace => !isSpace t c
  | .digit => isDigit t c | .notDigit => !isDigit t c

def itemMatch (t : Tables) (c : Nat) : CItem → Bool
  | .ch x => x == c
  | .range a b => a ≤ c && c ≤ b
  | .cat k => catMatch t k c

abbrev Caps := List (Option (Nat × Nat))

def setCap : Caps → Nat → (Nat × Nat) → Caps
  | [], 0, v => [some v]
  | [], n+1, v => none :: setCap [] n v
  | _ :: cs, 0, v => some v :: cs
  | c :: cs, n+1, v => c :: setCap cs n v

/-- continuation-passing backtracking matcher; `fuel` bounds the recursion depth -/
def matchRe (t : Tables) : Nat → Re → List Char → Nat → Caps →
    (List Char → Nat → Caps → Option Caps) → Option Caps
  | 0, _, _, _, _, _ => none
  | f+1, r, s, pos, caps, k =>
    match r with
    | .lit c => match s with
      | x :: xs => if x.toNat = c then k xs (pos + 1) caps else none
      | [] => none
    | .notLit c => match s with
      | x :: xs => if x.toNat ≠ c then k xs (pos + 1) caps else none
      | [] => none
    | .any => match s with
      | x :: xs => if x.toNat ≠ 10 then k xs (pos + 1) caps else none
      | [] => none
    | .cls neg items => match s with
      | x :: xs => if (items.any (itemMatch t x.toNat)) != neg then k xs (pos + 1) caps else none
      | [] => none
    | .seq [] => k s pos caps
    | .seq (a :: rest) => matchRe t f a s pos caps (fun s' p' c' => matchRe t f (.seq rest) s' p' c' k)
    | .alt [] => none
    | .alt (a :: rest) =>
      match matchRe t f a s pos caps k with
      | some c => some c
      | none => matchRe t f (.alt rest) s pos caps k
    | .rep min max greedy r =>
      let more : Unit → Option Caps := fun _ =>
        if max = some 0 then none
        else matchRe t f r s pos caps (fun s' p' c' =>
          if p' = pos ∧ min = 0 then none      -- an empty iteration cannot help
          else matchRe t f (.rep (min - 1) (max.map (· - 1)) greedy r) s' p' c' k)
      let stop : Unit → Option Caps := fun _ => if min = 0 then k s pos caps else none
      if greedy then
        match more () with | some c => some c | none => stop ()
      else
        match stop () with | some c => some c | none => more ()
    | .group i r => matchRe t f r s pos caps (fun s' p' c' => k s' p' (setCap c' i (pos, p')))
    | .bos => if pos = 0 then k s pos caps else none
    | .eos => if s.isEmpty then k s pos caps else none

/-- `pattern.search(string)`: leftmost match, tried from every start position -/
def search (t : Tables) (r : Re) (s : List Char) : Option Caps :=
  let fuel := 40 * (s.length + 2) + 200
  let rec go : Nat → List Char → Nat → Option Caps
    | 0, _, _ => none
    | n+1, rest, pos =>
      match matchRe t fuel r rest pos [] (fun _ _ c => some c) with
      | some c => some c
      | none => match rest with
        | [] => none
        | _ :: xs => go n xs (pos + 1)
  go (s.length + 1) s 0

def capStr (s : List Char) (caps : Caps) (i : Nat) : Option (List Char) :=
  match caps[i]? with
  | some (some (a, b)) => some ((s.drop a).take (b - a))
  | _ => none

end Hv.Regex
