/- gate lemmas: "accepted ⇒ every validated field has an accepted value" -/
import Hv.Vdi
import Hv.Hds
import Hv.Qcow2
import Hv.Vhdx
import Hv.Vmdk
namespace Hv.Gates
open Hv

/-- helper: a do-block step -/
theorem bind_ok {ε α β : Type} {x : Except ε α} {f : α → Except ε β} {b : β}
    (h : (x >>= f) = .ok b) : ∃ a, x = .ok a ∧ f a = .ok b := by
  cases x with
  | error e => simp [bind, Except.bind] at h
  | ok a => exact ⟨a, rfl, by simpa [bind, Except.bind] using h⟩

theorem vdi_open_ok (fh : File) (p : Option Vdi.Reader) (v : Vdi.Vdi) (h : Vdi.open fh p = .ok v) :
    fh.field 0 Extracted.vdi.HeaderDescriptor.size Extracted.vdi.HeaderDescriptor.Signature
      = .ok Extracted.vdi.VDI_SIGNATURE := by
  unfold Vdi.open at h
  obtain ⟨sig, hs, h⟩ := bind_ok h
  by_cases hne : sig ≠ Extracted.vdi.VDI_SIGNATURE
  · simp [hne, bind, Except.bind, throw, throwThe, MonadExceptOf.throw] at h
  · have : sig = Extracted.vdi.VDI_SIGNATURE := by simpa using hne
    rw [hs, this]

theorem hds_open_ok (fh : File) (p : Option Hds.Reader) (v : Hds.Hds) (h : Hds.open fh p = .ok v) :
    ∃ sig, fh.chars 0 Extracted.hdd.pvd_header.size Extracted.hdd.pvd_header.m_Sig.1 Extracted.hdd.pvd_header.m_Sig.2 = .ok sig ∧
      (sig = Extracted.hdd.SIGNATURE_STRUCTURED_DISK_V1 ∨ sig = Extracted.hdd.SIGNATURE_STRUCTURED_DISK_V2) := by
  unfold Hds.open at h
  obtain ⟨sig, hs, h⟩ := bind_ok h
  refine ⟨sig, hs, ?_⟩
  by_cases h1 : sig = Extracted.hdd.SIGNATURE_STRUCTURED_DISK_V1
  · exact Or.inl h1
  · by_cases h2 : sig = Extracted.hdd.SIGNATURE_STRUCTURED_DISK_V2
    · exact Or.inr h2
    · simp [h1, h2, bind, Except.bind, throw, throwThe, MonadExceptOf.throw] at h

end Hv.Gates

namespace Hv.Gates
open Hv

open Extracted.qcow2 in
/-- what passing the header gates means -/
theorem qcow2_gate_none (h : Qcow2.Hdr) (hg : h.gate = none) :
    h.magic = QCOW2_MAGIC ∧ (2 ≤ h.version ∧ h.version ≤ 3) ∧
    (MIN_CLUSTER_BITS ≤ h.clusterBits ∧ h.clusterBits ≤ MAX_CLUSTER_BITS) ∧
    ¬ (h.compressionType = QCOW2_COMPRESSION_TYPE_ZSTD ∧ HAS_ZSTD = 0) ∧
    2 ^ MIN_CLUSTER_BITS ≤ 2 ^ h.clusterBits / h.scPer ∧ h.crypt = 0 ∧
    h.incompat / (QCOW2_INCOMPAT_MASK + 1) = 0 := by
  unfold Qcow2.Hdr.gate at hg
  split at hg
  · cases hg
  · split at hg
    · cases hg
    · split at hg
      · cases hg
      · split at hg
        · cases hg
        · split at hg
          · cases hg
          · split at hg
            · cases hg
            · split at hg
              · cases hg
              · rename_i h1 h2 h3 h4 h5 h6 h7
                refine ⟨by simpa using h1, by omega, by omega, h4, by omega, by simpa using h6, by simpa using h7⟩

/-- **QCOW2 gates**: an image that opens passed every header gate, was given the data file
    its header requires, and was given a backing file (or the explicit opt-out) when it names one -/
theorem qcow2_open_ok (fh : File) (df : Option File) (bk : Option Qcow2.Reader) (allow : Bool)
    (inf : Bytes → Nat → Except Err Bytes) (q : Qcow2.QCow2) (h : Qcow2.open fh df bk allow inf = .ok q) :
    ∃ hdr, Qcow2.readHdr fh = .ok hdr ∧ hdr.gate = none ∧
      ((hdr.incompat / Extracted.qcow2.QCOW2_INCOMPAT_DATA_FILE) % 2 = 1 → df.isSome) ∧
      (hdr.bfOff ≠ 0 → bk.isSome ∨ allow = true) := by
  unfold Qcow2.open at h
  obtain ⟨hdr, hh, h⟩ := bind_ok h
  refine ⟨hdr, hh, ?_⟩
  cases hg : hdr.gate with
  | some e => rw [hg] at h; cases h
  | none =>
    rw [hg] at h
    simp only at h
    obtain ⟨exts, _, h⟩ := bind_ok h
    obtain ⟨dfile, hdf, h⟩ := bind_ok h
    obtain ⟨bn, hbn, h⟩ := bind_ok h
    refine ⟨rfl, ?_, ?_⟩
    · intro hneed
      simp only [hneed, decide_true, if_true] at hdf
      cases df with
      | none => cases hdf
      | some d => rfl
    · intro hbf
      simp only [hbf, ne_eq, not_false_eq_true, if_true] at hbn
      by_cases hc : bk.isNone = true ∧ ¬ allow = true
      · simp [hc] at hbn
      · cases hb : bk with
        | some b => exact Or.inl rfl
        | none =>
          right
          simp only [hb, Option.isNone_none, true_and] at hc
          simpa using hc

end Hv.Gates

namespace Hv.Gates
open Hv Extracted.vhdx

/-- VHDX: an image that opens has the `vhdxfile` file-identifier signature -/
theorem vhdx_open_ok_identifier (fh : File) (p : Option Vhdx.SectorReader) (v : Vhdx.Vhdx)
    (h : Vhdx.open fh p = .ok v) :
    fh.chars 0 file_identifier.size file_identifier.signature.1 file_identifier.signature.2
      = .ok "vhdxfile".toUTF8.toList := by
  unfold Vhdx.open at h
  obtain ⟨sig, hs, h⟩ := bind_ok h
  by_cases hne : sig ≠ "vhdxfile".toUTF8.toList
  · rw [if_pos hne] at h
    simp [bind, Except.bind, throw, throwThe, MonadExceptOf.throw] at h
  · have : sig = "vhdxfile".toUTF8.toList := by simpa using hne
    rw [hs, this]

/-- VHDX: a region table that parses has the `regi` signature -/
theorem vhdx_region_table_ok (fh : File) (off : Nat) (t : List Vhdx.RegionEntry)
    (h : Vhdx.regionTable fh off = .ok t) :
    fh.chars off region_table_header.size region_table_header.signature.1 region_table_header.signature.2
      = .ok "regi".toUTF8.toList := by
  unfold Vhdx.regionTable at h
  obtain ⟨sig, hs, h⟩ := bind_ok h
  by_cases hne : sig ≠ "regi".toUTF8.toList
  · rw [if_pos hne] at h
    simp [bind, Except.bind, throw, throwThe, MonadExceptOf.throw] at h
  · have : sig = "regi".toUTF8.toList := by simpa using hne
    rw [hs, this]

/-- VHDX: a metadata table that parses has the `metadata` signature -/
theorem vhdx_metadata_table_ok (fh : File) (off : Nat) (t : List (Bytes × Vhdx.MetaItem))
    (h : Vhdx.metadataTable fh off = .ok t) :
    fh.chars off metadata_table_header.size metadata_table_header.signature.1 metadata_table_header.signature.2
      = .ok "metadata".toUTF8.toList := by
  unfold Vhdx.metadataTable at h
  obtain ⟨sig, hs, h⟩ := bind_ok h
  by_cases hne : sig ≠ "metadata".toUTF8.toList
  · rw [if_pos hne] at h
    simp [bind, Except.bind, throw, throwThe, MonadExceptOf.throw] at h
  · have : sig = "metadata".toUTF8.toList := by simpa using hne
    rw [hs, this]

/-- VHDX: a required region that is absent is an error -/
theorem vhdx_region_required (t : List Vhdx.RegionEntry) (g : Bytes) (h : ∀ e ∈ t, e.guid ≠ g) :
    Vhdx.regionGet t g = .error .format := by
  unfold Vhdx.regionGet
  have : t.reverse.find? (fun e => decide (e.guid = g)) = none := by
    rw [List.find?_eq_none]
    intro e he
    have := h e (by simpa using he)
    simpa using this
  rw [this]

/-- VMDK: a sparse extent header whose first four bytes are none of the three magics is refused -/
theorem vmdk_header_magic (fh : File) (pos : Nat) (hdr : Vmdk.Hdr) (h : Vmdk.readHeader fh pos = .ok hdr) :
    fh.read pos 4 = Extracted.vmdk.VMDK_MAGIC ∨ fh.read pos 4 = Extracted.vmdk.SESPARSE_MAGIC ∨
    fh.read pos 4 = Extracted.vmdk.COWD_MAGIC := by
  unfold Vmdk.readHeader at h
  simp only [bind, Except.bind, pure, Except.pure] at h
  by_cases h1 : fh.read pos 4 = Extracted.vmdk.VMDK_MAGIC
  · exact Or.inl h1
  · by_cases h2 : fh.read pos 4 = Extracted.vmdk.SESPARSE_MAGIC
    · exact Or.inr (Or.inl h2)
    · by_cases h3 : fh.read pos 4 = Extracted.vmdk.COWD_MAGIC
      · exact Or.inr (Or.inr h3)
      · simp [h1, h2, h3] at h

end Hv.Gates
