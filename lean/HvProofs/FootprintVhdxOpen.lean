/-
  Footprint of `VHDX.__init__` (C13, I/O clause): the constructor depends on the file only through its size and the
  bytes named by `Hv.Footprint.vhdxOpen` — file identifier, both headers, both region tables, the metadata table and
  the metadata items (parent locator entries, keys and values included). The BAT is not read at open.
-/
import Hv.Footprint
import HvProofs.Footprint
namespace Hv.Footprint
open Hv Hv.Vhdx Hv.Extracted.vhdx

section vhdxOpen

theorem mapM_congr {α β : Type} (l : List α) (g g' : α → Except Err β) (h : ∀ a ∈ l, g a = g' a) :
    l.mapM g = l.mapM g' := by
  induction l with
  | nil => rfl
  | cons a t ih =>
    rw [List.mapM_cons, List.mapM_cons, h a (List.mem_cons_self ..), ih (fun b hb => h b (List.mem_cons_of_mem _ hb))]

theorem le_congr (f f' : File) (pos w : Nat) (hs : f.size = f'.size)
    (h : ∀ p, pos ≤ p → p < pos + w → f.byte p = f'.byte p) : f'.le pos w = f.le pos w := by
  unfold File.le
  rw [readExact_congr f f' pos w hs h]

/-- pointwise agreement on all ranges of a list -/
def Agree (f f' : File) (rs : Ranges) : Prop := ∀ r ∈ rs, ∀ p, r.1 ≤ p → p < r.1 + r.2 → f.byte p = f'.byte p

theorem Agree.head {f f' : File} {r : Nat × Nat} {rs : Ranges} (h : Agree f f' (r :: rs)) :
    ∀ p, r.1 ≤ p → p < r.1 + r.2 → f.byte p = f'.byte p := h r (List.mem_cons_self ..)
theorem Agree.tail {f f' : File} {r : Nat × Nat} {rs : Ranges} (h : Agree f f' (r :: rs)) : Agree f f' rs :=
  fun r' hr' => h r' (List.mem_cons_of_mem _ hr')
theorem Agree.left {f f' : File} {a b : Ranges} (h : Agree f f' (a ++ b)) : Agree f f' a :=
  fun r hr => h r (List.mem_append_left _ hr)
theorem Agree.right {f f' : File} {a b : Ranges} (h : Agree f f' (a ++ b)) : Agree f f' b :=
  fun r hr => h r (List.mem_append_right _ hr)

/-- agreement on a range gives agreement on every sub-range -/
theorem sub_range {f f' : File} {a n : Nat} (h : ∀ p, a ≤ p → p < a + n → f.byte p = f'.byte p) (b m : Nat)
    (h1 : a ≤ b) (h2 : b + m ≤ a + n) : ∀ p, b ≤ p → p < b + m → f.byte p = f'.byte p :=
  fun p hp1 hp2 => h p (by omega) (by omega)

theorem regionTable_congr (f f' : File) (off : Nat) (hs : f.size = f'.size) (h : Agree f f' (vhdxRegion f off)) :
    regionTable f' off = regionTable f off := by
  unfold vhdxRegion at h
  have hh := h.head
  have ht := h.tail
  simp only at hh
  unfold regionTable
  simp only []
  rw [chars_congr f f' off _ _ _ hs hh (by decide), field_congr f f' off _ region_table_header.entry_count hs hh (by decide)]
  cases hsig : f.chars off region_table_header.size region_table_header.signature.1 region_table_header.signature.2 with
  | error e => rfl
  | ok sig =>
    simp only [bind, Except.bind]
    split
    · rfl
    · cases hn : f.field off region_table_header.size region_table_header.entry_count with
      | error e => rfl
      | ok n =>
        simp only
        rw [hn] at ht
        simp only at ht
        rw [← hs]
        by_cases hfit : off + region_table_header.size + n * region_table_entry.size > f.size
        · simp only [hfit, if_true, throw, throwThe, MonadExceptOf.throw]
        · simp only [hfit, if_false] at ht ⊢
          have hent := ht.head
          simp only at hent
          have hmap : ∀ i ∈ List.range n, (do
                let guid ← f'.chars (off + region_table_header.size + i * region_table_entry.size) region_table_entry.size
                  region_table_entry.guid.1 region_table_entry.guid.2
                let fo ← f'.field (off + region_table_header.size + i * region_table_entry.size) region_table_entry.size
                  region_table_entry.file_offset
                let len ← f'.field (off + region_table_header.size + i * region_table_entry.size) region_table_entry.size
                  region_table_entry.length
                let req ← f'.field (off + region_table_header.size + i * region_table_entry.size) region_table_entry.size
                  region_table_entry.required
                (pure ⟨guid, fo, len, req⟩ : Except Err RegionEntry))
              = (do
                let guid ← f.chars (off + region_table_header.size + i * region_table_entry.size) region_table_entry.size
                  region_table_entry.guid.1 region_table_entry.guid.2
                let fo ← f.field (off + region_table_header.size + i * region_table_entry.size) region_table_entry.size
                  region_table_entry.file_offset
                let len ← f.field (off + region_table_header.size + i * region_table_entry.size) region_table_entry.size
                  region_table_entry.length
                let req ← f.field (off + region_table_header.size + i * region_table_entry.size) region_table_entry.size
                  region_table_entry.required
                (pure ⟨guid, fo, len, req⟩ : Except Err RegionEntry)) := by
            intro i hi
            have hi' : i < n := List.mem_range.1 hi
            have hin : (i + 1) * region_table_entry.size ≤ n * region_table_entry.size := Nat.mul_le_mul_right _ hi'
            rw [Nat.add_mul, Nat.one_mul] at hin
            have hsub := sub_range hent (off + region_table_header.size + i * region_table_entry.size) region_table_entry.size
              (by omega) (by omega)
            rw [chars_congr f f' _ _ _ _ hs hsub (by decide),
              field_congr f f' _ _ region_table_entry.file_offset hs hsub (by decide),
              field_congr f f' _ _ region_table_entry.length hs hsub (by decide),
              field_congr f f' _ _ region_table_entry.required hs hsub (by decide)]
          exact mapM_congr _ _ _ hmap

theorem parseLocator_congr (f f' : File) (off : Nat) (hs : f.size = f'.size) (h : Agree f f' (vhdxLocator f off)) :
    parseLocator f' off = parseLocator f off := by
  unfold vhdxLocator at h
  have hh := h.head
  have ht := h.tail
  simp only at hh
  unfold parseLocator
  simp only []
  rw [chars_congr f f' off _ _ _ hs hh (by decide), field_congr f f' off _ parent_locator_header.key_value_count hs hh (by decide)]
  cases hty : f.chars off parent_locator_header.size parent_locator_header.locator_type.1 parent_locator_header.locator_type.2 with
  | error e => rfl
  | ok ty =>
    simp only [bind, Except.bind]
    cases hn : f.field off parent_locator_header.size parent_locator_header.key_value_count with
    | error e => rfl
    | ok n =>
      simp only
      rw [hn] at ht
      simp only at ht
      congr 1
      apply mapM_congr
      · intro i hi
        have hent : Agree f f' (vhdxLocatorEntry f off i) := fun r hr => ht r (List.mem_flatMap.2 ⟨i, hi, hr⟩)
        unfold vhdxLocatorEntry at hent
        have hb := hent.head
        have hrest := hent.tail
        simp only at hb
        rw [field_congr f f' _ _ parent_locator_entry.key_offset hs hb (by decide),
          field_congr f f' _ _ parent_locator_entry.value_offset hs hb (by decide),
          field_congr f f' _ _ parent_locator_entry.key_length hs hb (by decide),
          field_congr f f' _ _ parent_locator_entry.value_length hs hb (by decide)]
        cases hko : f.field (off + parent_locator_header.size + i * parent_locator_entry.size) parent_locator_entry.size
            parent_locator_entry.key_offset with
        | error e => rfl
        | ok ko =>
          cases hvo : f.field (off + parent_locator_header.size + i * parent_locator_entry.size) parent_locator_entry.size
              parent_locator_entry.value_offset with
          | error e => rfl
          | ok vo =>
            cases hkl : f.field (off + parent_locator_header.size + i * parent_locator_entry.size) parent_locator_entry.size
                parent_locator_entry.key_length with
            | error e => rfl
            | ok kl =>
              cases hvl : f.field (off + parent_locator_header.size + i * parent_locator_entry.size) parent_locator_entry.size
                  parent_locator_entry.value_length with
              | error e => rfl
              | ok vl =>
                simp only [hko, hvo, hkl, hvl] at hrest
                simp only [pure, Except.pure]
                have r1 := File.read_congr f f' (off + ko) kl hs (hrest (off + ko, kl) (by simp))
                have r2 := File.read_congr f f' (off + vo) vl hs (hrest (off + vo, vl) (by simp))
                rw [r1, r2]

theorem parseItem_congr (f f' : File) (g : Bytes) (off : Nat) (hs : f.size = f'.size) (h : Agree f f' (vhdxItem f g off)) :
    parseItem f' g off = parseItem f g off := by
  unfold vhdxItem at h
  unfold parseItem
  by_cases h1 : g = FILE_PARAMETERS_GUID
  · simp only [h1, if_true] at h ⊢
    have hh := h.head
    simp only at hh
    rw [field_congr f f' off _ file_parameters.block_size hs hh (by decide),
      field_congr f f' off _ file_parameters.has_parent hs hh (by decide)]
  · simp only [h1, if_false] at h ⊢
    by_cases h2 : g = VIRTUAL_DISK_SIZE_GUID
    · simp only [h2, if_true] at h ⊢
      rw [le_congr f f' off _ hs h.head]
    · simp only [h2, if_false] at h ⊢
      by_cases h3 : g = VIRTUAL_DISK_ID_GUID
      · simp only [h3, if_true] at h ⊢
        have hh := h.head
        simp only at hh
        rw [chars_congr f f' off _ _ _ hs hh (by decide)]
      · simp only [h3, if_false] at h ⊢
        by_cases h4 : g = LOGICAL_SECTOR_SIZE_GUID
        · simp only [h4, if_true] at h ⊢
          rw [le_congr f f' off _ hs h.head]
        · simp only [h4, if_false] at h ⊢
          by_cases h5 : g = PHYSICAL_SECTOR_SIZE_GUID
          · simp only [h5, if_true] at h ⊢
            rw [le_congr f f' off _ hs h.head]
          · simp only [h5, if_false] at h ⊢
            by_cases h6 : g = PARENT_LOCATOR_GUID
            · simp only [h6, if_true] at h ⊢
              exact parseLocator_congr f f' off hs h
            · simp only [h6, if_false]

/-- the item stage of `MetadataTable.__init__` -/
def metaItems (fh : File) (off : Nat) (raw : List (Bytes × Nat × Nat)) : Except Err (List (Option (Bytes × MetaItem))) :=
  raw.mapM fun (g, o, r) =>
    if ¬ (METADATA_MAP_KEYS.contains g) ∧ r = 0 then pure none
    else (parseItem fh g (off + o)).map (fun it => some (g, it))

theorem metadataTable_eq (fh : File) (off : Nat) :
    metadataTable fh off = (do
      let sig ← fh.chars off metadata_table_header.size metadata_table_header.signature.1 metadata_table_header.signature.2
      if sig ≠ "metadata".toUTF8.toList then throw .format
      let n ← fh.field off metadata_table_header.size metadata_table_header.entry_count
      let raw ← vhdxMetaRaw fh off n
      let items ← metaItems fh off raw
      pure (items.filterMap id)) := by
  unfold metadataTable vhdxMetaRaw metaItems
  rfl

theorem metaRaw_congr (f f' : File) (off n : Nat) (hs : f.size = f'.size)
    (h : ∀ p, off + metadata_table_header.size ≤ p → p < off + metadata_table_header.size + n * metadata_table_entry.size →
      f.byte p = f'.byte p) : vhdxMetaRaw f' off n = vhdxMetaRaw f off n := by
  unfold vhdxMetaRaw
  apply mapM_congr
  intro i hi
  have hi' : i < n := List.mem_range.1 hi
  have hin : (i + 1) * metadata_table_entry.size ≤ n * metadata_table_entry.size := Nat.mul_le_mul_right _ hi'
  rw [Nat.add_mul, Nat.one_mul] at hin
  have hsub := sub_range h (off + metadata_table_header.size + i * metadata_table_entry.size) metadata_table_entry.size
    (by omega) (by omega)
  simp only []
  rw [chars_congr f f' _ _ _ _ hs hsub (by decide),
    field_congr f f' _ _ metadata_table_entry.offset hs hsub (by decide),
    field_congr f f' _ _ metadata_table_entry.is_required hs hsub (by decide)]

theorem metadataTable_congr (f f' : File) (off : Nat) (hs : f.size = f'.size) (h : Agree f f' (vhdxMeta f off)) :
    metadataTable f' off = metadataTable f off := by
  unfold vhdxMeta at h
  have hh := h.head
  have ht := h.tail
  simp only at hh
  rw [metadataTable_eq, metadataTable_eq]
  rw [chars_congr f f' off _ _ _ hs hh (by decide), field_congr f f' off _ metadata_table_header.entry_count hs hh (by decide)]
  cases hsig : f.chars off metadata_table_header.size metadata_table_header.signature.1 metadata_table_header.signature.2 with
  | error e => simp only [bind, Except.bind]
  | ok sig =>
    simp only [bind, Except.bind]
    split
    · rfl
    · cases hn : f.field off metadata_table_header.size metadata_table_header.entry_count with
      | error e => rfl
      | ok n =>
        simp only
        rw [hn] at ht
        simp only at ht
        rw [metaRaw_congr f f' off n hs ht.head]
        have ht2 := ht.tail
        cases hraw : vhdxMetaRaw f off n with
        | error e => rfl
        | ok raw =>
          simp only
          rw [hraw] at ht2
          simp only at ht2
          have hit : metaItems f' off raw = metaItems f off raw := by
            unfold metaItems
            apply mapM_congr
            intro e he
            obtain ⟨g, o, r⟩ := e
            simp only
            by_cases hskip : ¬ (METADATA_MAP_KEYS.contains g) ∧ r = 0
            · rw [if_pos hskip, if_pos hskip]
            · simp only [hskip, if_false]
              rw [parseItem_congr f f' g (off + o) hs]
              intro x hx
              apply ht2 x
              rw [List.mem_flatMap]
              refine ⟨(g, o, r), he, ?_⟩
              simp only [hskip, if_false]
              exact hx
          rw [hit]

/-- every file access of `VHDX.__init__` — file identifier, the two headers, the two
    region tables, the metadata table of the metadata region with all its items — gives the same result on a file of
    the same size that agrees on the footprint. (`Vhdx.open` is a function of exactly these values and the handle.) -/
theorem vhdx_open_reads (f f' : File) (hag : AgreeOn (vhdxOpen f) f f') :
    f'.chars 0 file_identifier.size file_identifier.signature.1 file_identifier.signature.2
      = f.chars 0 file_identifier.size file_identifier.signature.1 file_identifier.signature.2 ∧
    (∀ k, k = 1 ∨ k = 2 →
      f'.field (k * ALIGNMENT) header.size header.sequence_number = f.field (k * ALIGNMENT) header.size header.sequence_number ∧
      f'.chars (k * ALIGNMENT) header.size header.signature.1 header.signature.2
        = f.chars (k * ALIGNMENT) header.size header.signature.1 header.signature.2) ∧
    regionTable f' (3 * ALIGNMENT) = regionTable f (3 * ALIGNMENT) ∧
    regionTable f' (4 * ALIGNMENT) = regionTable f (4 * ALIGNMENT) ∧
    (∀ rt1 me, regionTable f (3 * ALIGNMENT) = .ok rt1 → regionGet rt1 METADATA_REGION_GUID = .ok me →
      metadataTable f' me.fileOffset = metadataTable f me.fileOffset) := by
  have hs := hag.1
  have h : Agree f f' (vhdxOpen f) := hag.2
  unfold vhdxOpen at h
  have h0 := h.head
  have h1 := h.tail.head
  have h2 := h.tail.tail.head
  have h3 : Agree f f' (vhdxRegion f (3 * ALIGNMENT)) := h.tail.tail.tail.left.left
  have h4 : Agree f f' (vhdxRegion f (4 * ALIGNMENT)) := h.tail.tail.tail.left.right
  have h5 := h.tail.tail.tail.right
  simp only at h0 h1 h2
  refine ⟨chars_congr f f' 0 _ _ _ hs h0 (by decide), ?_, regionTable_congr f f' _ hs h3, regionTable_congr f f' _ hs h4, ?_⟩
  · intro k hk
    rcases hk with rfl | rfl
    · exact ⟨field_congr f f' _ _ header.sequence_number hs h1 (by decide), chars_congr f f' _ _ _ _ hs h1 (by decide)⟩
    · exact ⟨field_congr f f' _ _ header.sequence_number hs h2 (by decide), chars_congr f f' _ _ _ _ hs h2 (by decide)⟩
  · intro rt1 me hrt1 hme
    rw [hrt1] at h5
    simp only [hme] at h5
    exact metadataTable_congr f f' _ hs h5

end vhdxOpen

section vhdxOpenFull
/-! pushing the handle substitution `m` through the constructor's `do` block -/
section
variable (m : Vhdx → Vhdx)

theorem L_bind {α : Type} (x' x : Except Err α) (k' k : α → Except Err Vhdx) (hx : x' = x)
    (h : ∀ a, x = .ok a → k' a = (k a).map m) : (x' >>= k') = (x >>= k).map m := by
  subst hx
  cases x' with
  | error e => rfl
  | ok a => exact h a rfl

theorem L_ifthrow (c : Prop) [Decidable c] (e : Err) (jp' jp : Unit → Except Err Vhdx) (h : jp' () = (jp ()).map m) :
    (if c then ((throw e : Except Err Unit) >>= jp') else jp' ()) = (if c then ((throw e : Except Err Unit) >>= jp) else jp ()).map m := by
  by_cases hc : c
  · rw [if_pos hc, if_pos hc]; rfl
  · rw [if_neg hc, if_neg hc]; exact h

theorem L_err {α : Type} (e : Err) (jp' jp : α → Except Err Vhdx) :
    ((Except.error e : Except Err α) >>= jp') = ((Except.error e : Except Err α) >>= jp).map m := rfl

theorem L_ok {α : Type} (a : α) (jp' jp : α → Except Err Vhdx) (h : jp' a = (jp a).map m) :
    ((Except.ok a : Except Err α) >>= jp') = ((Except.ok a : Except Err α) >>= jp).map m := h

theorem L_if (c : Prop) [Decidable c] (A' B' A B : Except Err Vhdx) (hA : A' = A.map m) (hB : B' = B.map m) :
    (if c then A' else B') = (if c then A else B).map m := by
  by_cases hc : c
  · rw [if_pos hc, if_pos hc]; exact hA
  · rw [if_neg hc, if_neg hc]; exact hB
end

/-- **open_footprint (VHDX)**: `VHDX.__init__` depends on the file only through its size and the bytes of the
    footprint; the opened object is the same up to the handle it keeps. (The constructor's `do` block is walked with the
    lemmas above: every step is a bind whose first action agrees by `vhdx_open_reads`, a gate, or a metadata lookup.) -/
theorem vhdx_open_footprint (f f' : File) (parent : Option SectorReader) (hag : AgreeOn (vhdxOpen f) f f') :
    Vhdx.open f' parent = (Vhdx.open f parent).map (fun v => { v with fh := f' }) := by
  obtain ⟨h0, hk, h3, h4, h5⟩ := vhdx_open_reads f f' hag
  obtain ⟨h1a, h1b⟩ := hk 1 (Or.inl rfl)
  obtain ⟨h2a, h2b⟩ := hk 2 (Or.inr rfl)
  unfold Vhdx.open
  apply L_bind _ _ _ _ _ h0; intro sig _
  apply L_ifthrow
  apply L_bind _ _ _ _ _ h1a; intro seq1 _
  apply L_bind _ _ _ _ _ h1b; intro sig1 _
  apply L_bind _ _ _ _ _ h2a; intro seq2 _
  apply L_bind _ _ _ _ _ h2b; intro sig2 _
  apply L_ifthrow
  apply L_bind _ _ _ _ _ h3; intro rt1 hrt1
  apply L_bind _ _ _ _ _ h4; intro rt2 _
  apply L_bind _ _ _ _ _ rfl; intro me hme
  apply L_bind _ _ _ _ _ (h5 rt1 me hrt1 hme); intro md _
  -- virtual disk size
  generalize metaGet md VIRTUAL_DISK_SIZE_GUID = x1
  cases x1 with
  | none => exact L_err _ _ _ _
  | some it1 =>
    cases it1 <;> try exact L_err _ _ _ _
    rename_i size
    apply L_if
    · exact L_err _ _ _ _
    · apply L_ok
      -- file parameters
      generalize metaGet md FILE_PARAMETERS_GUID = x2
      cases x2 with
      | none => exact L_err _ _ _ _
      | some it2 =>
        cases it2 <;> try exact L_err _ _ _ _
        rename_i blockSize hasParent
        apply L_ok
        -- logical sector size
        generalize metaGet md LOGICAL_SECTOR_SIZE_GUID = x3
        cases x3 with
        | none => exact L_err _ _ _ _
        | some it3 =>
          cases it3 <;> try exact L_err _ _ _ _
          rename_i sectorSize
          apply L_if
          · exact L_err _ _ _ _
          · apply L_ok
            -- disk id
            generalize metaGet md VIRTUAL_DISK_ID_GUID = x4
            cases x4 with
            | none => exact L_err _ _ _ _
            | some it4 =>
              cases it4 <;> try exact L_err _ _ _ _
              rename_i diskId
              apply L_ok
              apply L_ifthrow
              apply L_bind _ _ _ _ _ rfl; intro locator _
              apply L_bind _ _ _ _ _ rfl; intro be _
              apply L_ifthrow
              rfl

end vhdxOpenFull

/-! size bound of the VHDX read footprint -/
section vhdxBound

theorem vhdxUnit_total (v : Vhdx) (sector count i : Nat) :
    total (vhdxUnit v sector count i) ≤ (partIn v.spb sector count i).2 * (v.sectorSize + 1) + 18 := by
  have hbe : bat_entry.size = 8 := rfl
  unfold vhdxUnit
  simp only []
  generalize partIn v.spb sector count i = pp
  have hmul : pp.2 * (v.sectorSize + 1) = pp.2 * v.sectorSize + pp.2 := by rw [Nat.mul_add, Nat.mul_one]
  split
  · simp [total]
  · rw [total_cons, hbe]
    split
    · rename_i st mb _
      split
      · rw [total_cons, total_nil]; simp only; omega
      · split
        · rw [total_append, total_cons, total_cons, total_nil]
          split
          · rw [total_cons, total_nil]; simp only; omega
          · rw [total_nil]; simp only; omega
        · simp [total]
    · simp [total]

/-- **footprint_size_bound (VHDX)**: whole sectors of the request (`count`), one bitmap bit per sector of a partially
    present block, and at most two 8-byte BAT entries per block touched -/
theorem vhdx_footprint_size_bound (v : Vhdx) (off len : Nat) :
    total (vhdx v off len) ≤
      ((min len (v.size - off) + v.sectorSize - 1) / v.sectorSize) * (v.sectorSize + 1) +
        18 * (((min len (v.size - off) + v.sectorSize - 1) / v.sectorSize) / v.spb + 2) := by
  unfold vhdx
  simp only []
  generalize (min len (v.size - off) + v.sectorSize - 1) / v.sectorSize = count
  generalize off / v.sectorSize = s
  have h1 := total_flatMap_le (unitsTouched v.spb s count) (vhdxUnit v s count)
    (fun i => (partIn v.spb s count i).2 * (v.sectorSize + 1)) 18 (vhdxUnit_total v s count)
  rw [sum_map_mul] at h1
  have h2 := sum_parts_le v.spb s count
  have h3 := unitsTouched_length v.spb s count
  have h4 : ((unitsTouched v.spb s count).map (fun i => (partIn v.spb s count i).2)).sum * (v.sectorSize + 1)
      ≤ count * (v.sectorSize + 1) := Nat.mul_le_mul_right _ h2
  have h5 : 18 * (unitsTouched v.spb s count).length ≤ 18 * (count / v.spb + 2) := Nat.mul_le_mul_left _ h3
  exact Nat.le_trans h1 (Nat.add_le_add h4 h5)

end vhdxBound

/-! object for the non-vacuity example of `HvProps/C13.lean`: 4 KiB blocks of 512-byte sectors, BAT at 1 MiB; payload
    block 0 PARTIALLY_PRESENT at 2^42, its sector bitmap block at 2^41 with the bits of sectors 2 and 3 set -/
def exVhdxFile (g : Nat → UInt8) : File :=
  ⟨2 ^ 43, fun p =>
    if p = 2 ^ 20 then 7 else if p = 2 ^ 20 + 5 then 4
    else if p = 2 ^ 20 + 2 ^ 23 then 6 else if p = 2 ^ 20 + 2 ^ 23 + 5 then 2
    else if p = 2 ^ 41 then 12
    else if (2 ^ 20 ≤ p ∧ p < 2 ^ 20 + 8) ∨ (2 ^ 20 + 2 ^ 23 ≤ p ∧ p < 2 ^ 20 + 2 ^ 23 + 8) then 0
    else if 2 ^ 42 + 1024 ≤ p ∧ p < 2 ^ 42 + 2048 then UInt8.ofNat p
    else g p⟩
def exVhdx : Vhdx :=
  { fh := exVhdxFile (fun _ => 0), size := 8 * 4096, blockSize := 4096, sectorSize := 512, hasParent := false, batOffset := 2 ^ 20,
    spb := 8, chunkRatio := 2 ^ 20, entryCount := 2 ^ 20 + 1, parent := none, diskId := [], locator := [] }

end Hv.Footprint
