/-
  Hv.MetaEnc — *writers* for two variable-length metadata structures (specification side of C14's round trips):
  the QCOW2 snapshot table (fixed 40-byte header, extra data, id, name, zero padding to the next multiple of 8)
  and the VHDX parent locator (20-byte header, 12-byte entries, UTF-16-LE strings addressed by offset / length).
  Mathlib-free.
-/
import Hv.Meta
namespace Hv.Meta
open Hv

/-! ## QCOW2 snapshot table -/

/-- the extra data of a snapshot entry: absent (size 0), the 16-byte form, the 24-byte form, or longer with a tail this
    reader does not know -/
inductive SnapExtra where
  | none
  | v16 (large disk : Nat)
  | v24 (large disk icount : Nat)
  | more (large disk icount : Nat) (tail : Bytes)
  deriving Repr, DecidableEq

def SnapExtra.bytes : SnapExtra → Bytes
  | .none => []
  | .v16 l d => beBytes 8 l ++ beBytes 8 d
  | .v24 l d i => beBytes 8 l ++ (beBytes 8 d ++ beBytes 8 i)
  | .more l d i t => (beBytes 8 l ++ (beBytes 8 d ++ beBytes 8 i)) ++ t

def SnapExtra.large : SnapExtra → Nat
  | .none => 0 | .v16 l _ => l | .v24 l _ _ => l | .more l _ _ _ => l
def SnapExtra.disk : SnapExtra → Nat
  | .none => 0 | .v16 _ d => d | .v24 _ d _ => d | .more _ d _ _ => d
def SnapExtra.icount : SnapExtra → Nat
  | .none => 0 | .v16 _ _ => 0 | .v24 _ _ i => i | .more _ _ i _ => i
/-- exposed as `unknown_extra` iff the extra data is longer than the 24 known bytes -/
def SnapExtra.unknown : SnapExtra → Option Bytes
  | .more _ _ _ t => if t = [] then Option.none else some t
  | _ => Option.none

structure SnapSpec where
  l1Offset : Nat
  l1Size : Nat
  dateSec : Nat
  dateNsec : Nat
  vmClock : Nat
  vmStateSize : Nat
  extra : SnapExtra
  idStr : Bytes
  name : Bytes
  deriving Repr, DecidableEq

def SnapSpec.entrySize (s : SnapSpec) : Nat := 40 + s.extra.bytes.length + s.idStr.length + s.name.length

def snapHeader (s : SnapSpec) : Bytes :=
  beBytes 8 s.l1Offset ++ (beBytes 4 s.l1Size ++ (beBytes 2 s.idStr.length ++ (beBytes 2 s.name.length ++
    (beBytes 4 s.dateSec ++ (beBytes 4 s.dateNsec ++ (beBytes 8 s.vmClock ++ (beBytes 4 s.vmStateSize ++
      beBytes 4 s.extra.bytes.length)))))))

/-- one table entry, zero padded so that the next entry starts 8-byte aligned -/
def encodeSnap (s : SnapSpec) : Bytes :=
  snapHeader s ++ (s.extra.bytes ++ (s.idStr ++ (s.name ++ zeros (align8 s.entrySize - s.entrySize))))

def encodeSnaps : List SnapSpec → Bytes
  | [] => []
  | s :: ss => encodeSnap s ++ encodeSnaps ss

/-- what `QCow2Snapshot` has to expose for the entry -/
def SnapSpec.expected (s : SnapSpec) : SnapFull :=
  { l1Offset := s.l1Offset, l1Size := s.l1Size, dateSec := s.dateSec, dateNsec := s.dateNsec, vmClock := s.vmClock,
    vmStateSize := s.vmStateSize, extraSize := s.extra.bytes.length, vmStateLarge := s.extra.large, diskSize := s.extra.disk,
    icount := s.extra.icount, unknownExtra := s.extra.unknown, idStr := s.idStr, name := s.name, entrySize := s.entrySize }

def SnapSpec.expectedQ (s : SnapSpec) : Qcow2.Snap :=
  ⟨s.l1Offset, s.l1Size, s.idStr, s.name, s.extra.bytes.length, s.entrySize⟩

def SnapExtra.ok : SnapExtra → Bool
  | .none => true
  | .v16 l d => decide (l < 2 ^ 64) && decide (d < 2 ^ 64)
  | .v24 l d i => decide (l < 2 ^ 64) && decide (d < 2 ^ 64) && decide (i < 2 ^ 64)
  | .more l d i t => decide (l < 2 ^ 64) && decide (d < 2 ^ 64) && decide (i < 2 ^ 64) && decide (24 + t.length < 2 ^ 32)

/-- every field fits its on-disk width -/
def SnapSpec.ok (s : SnapSpec) : Bool :=
  decide (s.l1Offset < 2 ^ 64) && decide (s.l1Size < 2 ^ 32) && decide (s.dateSec < 2 ^ 32) && decide (s.dateNsec < 2 ^ 32) &&
  decide (s.vmClock < 2 ^ 64) && decide (s.vmStateSize < 2 ^ 32) && s.extra.ok &&
  decide (s.idStr.length < 2 ^ 16) && decide (s.name.length < 2 ^ 16)

/-! ## VHDX parent locator -/

/-- one key/value entry with the offsets (relative to the start of the locator) its table entry records -/
structure LocEntry where
  ko : Nat
  vo : Nat
  key : Bytes
  value : Bytes
  deriving Repr, DecidableEq

def encodeLocEntry (e : LocEntry) : Bytes :=
  leBytes 4 e.ko ++ (leBytes 4 e.vo ++ (leBytes 2 e.key.length ++ leBytes 2 e.value.length))

def encodeLocTable : List LocEntry → Bytes
  | [] => []
  | e :: es => encodeLocEntry e ++ encodeLocTable es

/-- locator type GUID (16 bytes), reserved, key_value_count -/
def encodeLocHeader (ty : Bytes) (n : Nat) : Bytes := ty ++ (leBytes 2 0 ++ leBytes 2 n)

def LocEntry.ok (e : LocEntry) : Bool :=
  decide (e.ko < 2 ^ 32) && decide (e.vo < 2 ^ 32) && decide (e.key.length < 2 ^ 16) && decide (e.value.length < 2 ^ 16)

/-- the back-to-back layout: strings follow the entry table in table order, key then value -/
def packEntries : Nat → List (Bytes × Bytes) → List LocEntry
  | _, [] => []
  | pos, (k, v) :: kvs => ⟨pos, pos + k.length, k, v⟩ :: packEntries (pos + k.length + v.length) kvs

def stringArea : List (Bytes × Bytes) → Bytes
  | [] => []
  | (k, v) :: kvs => k ++ (v ++ stringArea kvs)

/-- **the writer**: header, entry table, string area -/
def encodeLocator (ty : Bytes) (kvs : List (Bytes × Bytes)) : Bytes :=
  encodeLocHeader ty kvs.length ++ (encodeLocTable (packEntries (20 + 12 * kvs.length) kvs) ++ stringArea kvs)

end Hv.Meta
