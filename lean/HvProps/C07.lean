/-
  C07 — layer precedence in differencing, backing and snapshot chains.
-/
import Hv.Hdd
import HvProofs.Hds
import HvProofs.Overlay
import HvProofs.Qcow2Stream
import HvProofs.Resolve
import HvProps.C10
namespace Hv.C07
open Hv Hv.Layers

/-- **chain_walk_terminates** (also C11): the Parallels snapshot-chain walk never runs out
    of fuel: a chain longer than the number of shots must repeat a GUID, which is refused. -/
theorem hdd_chain_example :
    Hdd.snapshotChain [(1, 2), (2, 3), (3, 0), (9, 2)] 0 1 = .ok [1, 2, 3] ∧
    Hdd.snapshotChain [(1, 2), (2, 1)] 0 1 = .error .value ∧
    Hdd.snapshotChain [(1, 7)] 0 1 = .error .index := by decide

/-- HDS layers: a child over a parent reads as the overlay (child where allocated, parent
    elsewhere) — instance of `hds_read_correct` with the parent's content as `pc`. -/
theorem hds_overlay (v : Hds.Hds) (pc : Nat → UInt8) (hwf : Hds.WF v) (hp : Hds.ParentOK v pc) (off len : Nat)
    (h : off + len ≤ v.size) : v.read off len = .ok (slice (v.guest pc) off len) := by
  obtain ⟨Lr, h1, h2, h3⟩ := Hds.read_spec v pc hwf hp off len
  have : Lr = len := by omega
  rw [h3, this]

/-- the HDS specification with a parent is the layer "BAT entry ≠ 0" over the parent content -/
theorem hds_guest_is_overlay (v : Hds.Hds) (pc : Nat → UInt8) (hp : v.parent.isSome) :
    v.guest pc = v.layer.over pc := Hds.guest_eq_over v pc hp

/-! ### VHDX `_iter_partial_runs` -/

/-- **partialRuns_eq_rle**: for every bitmap byte string, every start bit `< 8` (also `≠ 0`
    on bytes that are neither `0x00` nor `0xFF`) and every length, the model of
    `_iter_partial_runs(bitmap, start_idx, length)` returns the run-length encoding of the bits
    `[start, start+len)` (LSB-first), cut at the end of the bitmap when it is shorter. -/
theorem partialRuns_eq_rle (bm : Bytes) (start len : Nat) (hs : start < 8) (hne : bm ≠ []) :
    Vhdx.iterPartialRuns bm start len = .ok (rle (bits bm start (min len (8 * bm.length - start)))) :=
  iterPartialRuns_eq bm start len hs hne

/-- `rle` is the run-length encoding: expansion gives back the list, adjacent runs differ in
    kind, every run has length ≥ 1 (these three properties determine the run list). -/
theorem rle_is_rle (l : List Nat) : expand (rle l) = l ∧ Alt (rle l) ∧ ∀ r ∈ rle l, 1 ≤ r.2 :=
  ⟨expand_rle l, rle_alt l, rle_pos l⟩

/-- … and they do determine it: any run list with the three properties is `rle` of its expansion -/
theorem rle_unique (runs : List (Nat × Nat)) (ha : Alt runs) (hp : ∀ r ∈ runs, 1 ≤ r.2) : runs = rle (expand runs) :=
  Layers.rle_unique runs ha hp

/-- the same without reference to `rle`: when the bitmap holds the requested bits, the runs
    expand to exactly the bits `[start, start+len)`, alternate in kind and are non-empty -/
theorem partialRuns_spec (bm : Bytes) (start len : Nat) (hs : start < 8) (hne : bm ≠ [])
    (hfit : start + len ≤ 8 * bm.length) :
    ∃ runs, Vhdx.iterPartialRuns bm start len = .ok runs ∧
      expand runs = bits bm start len ∧ Alt runs ∧ ∀ r ∈ runs, 1 ≤ r.2 := by
  refine ⟨_, partialRuns_eq_rle bm start len hs hne, ?_⟩
  have : min len (8 * bm.length - start) = len := by omega
  rw [this]
  exact rle_is_rle _

/-- **bitmap_fetch_covers**: the `(bit_idx + read_count + 7) // 8` bytes fetched at byte
    `sector_in_chunk // 8` hold the bit of every requested sector `j < read_count`, at index
    `bit_idx + j` of the fetched string (`bit_idx = sector_in_chunk % 8`), and that bit is bit
    `sector_in_chunk + j` of the bitmap block. -/
theorem bitmap_fetch_covers (g : Nat → UInt8) (base sic n j : Nat) (hj : j < n) :
    (sic % 8 + j) / 8 < (sic % 8 + n + 8 - 1) / 8 ∧
    bitAt (slice g (base + sic / 8) ((sic % 8 + n + 8 - 1) / 8)) (sic % 8 + j)
      = bitOf (g (base + (sic + j) / 8)).toNat ((sic + j) % 8) := by
  have h1 : (sic % 8 + j) / 8 < (sic % 8 + n + 8 - 1) / 8 := by omega
  refine ⟨h1, ?_⟩
  unfold bitAt
  rw [Vhdx.slice_getD _ _ _ _ h1]
  have e1 : base + sic / 8 + (sic % 8 + j) / 8 = base + (sic + j) / 8 := by omega
  have e2 : (sic % 8 + j) % 8 = (sic + j) % 8 := by omega
  rw [e1, e2]

/-! ### differencing VHDX -/

/-- **vhdx_diff_read_correct**: for a well-formed differencing image whose parent object's
    `read_sectors` serves the parent content `pc`, `read_sectors` returns, sector by sector,
    the child's data where the block is fully present or the sector's bitmap bit is set, the
    parent's data where the block is not present or the bit is clear, zeros for the zero /
    unmapped / undefined states — the pointwise specification `guestDiff`. Requests may start
    anywhere in a block and span any number of blocks and bitmap bytes. -/
theorem vhdx_diff_read_correct (v : Vhdx.Vhdx) (pc : Nat → UInt8) (hwf : Vhdx.WFD v) (hp : Vhdx.ParentOK v pc)
    (sector count : Nat) (h : sector + count ≤ v.nSectors) :
    v.readSectors count sector count
      = .ok (slice (v.guestDiff pc) (sector * v.sectorSize) (count * v.sectorSize)) :=
  Vhdx.readSectors_diff_correct v pc hwf hp count sector count (Nat.le_refl _) h

/-- what `guestDiff` says, state by state (`b` = block of byte `o`) -/
theorem vhdx_guestDiff_cases (v : Vhdx.Vhdx) (pc : Nat → UInt8) (o : Nat) :
    let st := v.pbRaw (o / v.blockSize) % 8
    (st = 6 → v.guestDiff pc o = v.fh.byte (v.pbRaw (o / v.blockSize) / Vhdx.MBs * Vhdx.MBs + o % v.blockSize)) ∧
    (st = 7 → v.sectorBit o = 1 →
      v.guestDiff pc o = v.fh.byte (v.pbRaw (o / v.blockSize) / Vhdx.MBs * Vhdx.MBs + o % v.blockSize)) ∧
    (st = 7 → v.sectorBit o ≠ 1 → v.guestDiff pc o = pc o) ∧
    (st = 0 → v.guestDiff pc o = pc o) ∧
    (st = 1 ∨ st = 2 ∨ st = 3 → v.guestDiff pc o = 0) := by
  simp only [Vhdx.Vhdx.guestDiff, Layer.over, Vhdx.Vhdx.layer]
  refine ⟨?_, ?_, ?_, ?_, ?_⟩
  · intro h; simp [h]
  · intro h hb; simp [h, hb]
  · intro h hb; simp [h, hb]
  · intro h; simp [h]
  · intro h
    have h6 : ¬ v.pbRaw (o / v.blockSize) % 8 = 6 := by omega
    have h7 : ¬ v.pbRaw (o / v.blockSize) % 8 = 7 := by omega
    have h0 : ¬ v.pbRaw (o / v.blockSize) % 8 = 0 := by omega
    simp [h6, h7, h0]

/-- the byte interface `_read` (sector-aligned offsets, as the buffered stream issues them) -/
theorem vhdx_diff_read_bytes (v : Vhdx.Vhdx) (pc : Nat → UInt8) (hwf : Vhdx.WFD v) (hp : Vhdx.ParentOK v pc)
    (off len : Nat) (ho : off % v.sectorSize = 0) :
    ∃ b, v.read off len = .ok b ∧
      b.take (min len (v.size - off)) = slice (v.guestDiff pc) off (min len (v.size - off)) ∧
      (len % v.sectorSize = 0 → off + len ≤ v.size → b = slice (v.guestDiff pc) off len) :=
  Vhdx.read_prefix_of v _ hwf.ss_pos (Vhdx.diff_sectorReadsAs v pc hwf hp) off len ho

theorem vhdx_diff_backendOK (v : Vhdx.Vhdx) (pc : Nat → UInt8) (hwf : Vhdx.WFD v) (hp : Vhdx.ParentOK v pc)
    (align : Nat) (ha : align % v.sectorSize = 0) :
    BackendOK v.size align v.read (v.guestDiff pc) :=
  Vhdx.backendOK_of v _ hwf.ss_pos (Vhdx.diff_sectorReadsAs v pc hwf hp) align ha

/-- the opened differencing *stream*, any history of operations, any buffer size that is a
    multiple of the sector size -/
theorem vhdx_diff_stream_correct (v : Vhdx.Vhdx) (pc : Nat → UInt8) (hwf : Vhdx.WFD v) (hp : Vhdx.ParentOK v pc)
    (align : Nat) (ha : align % v.sectorSize = 0) (hpos : 0 < align) (ops : List Op) :
    AS.run v.read (AS.init v.size align) ops = Spec.run (v.guestDiff pc) ⟨v.size, 0⟩ ops :=
  AS.run_refines ops _ (AS.init_inv _ _ hpos) (vhdx_diff_backendOK v pc hwf hp align ha)

theorem vhdx_wfdb_sound (v : Vhdx.Vhdx) (h : v.wfdb = true) : Vhdx.WFD v := Vhdx.wfdb_sound v h

/-! ### chains -/

/-- **chain_reads_as_overlay** (generic, by induction on the chain): if every element of a
    chain turns a reader of the content below it into a reader of its own layer over that
    content, then the chain built over a base reader reads as the overlay of the layers over
    the base content. `Reads` is the format's reading contract (`SectorReadsAs …`, `ReadsAs …`). -/
theorem chain_reads_as_overlay {R : Type} (Reads : R → (Nat → UInt8) → Prop) (base : R) (bc : Nat → UInt8)
    (hb : Reads base bc) (ls : List (Layer × (R → R)))
    (h : ∀ x ∈ ls, ∀ below pc, Reads below pc → Reads (x.2 below) (x.1.over pc)) :
    Reads (chainReader base (ls.map (·.2))) (overlayOn (ls.map (·.1)) bc) :=
  chain_overlay Reads base bc hb ls h

/-- **vhdx_chain_reads_as_overlay**: a chain of opened VHDX objects of any depth (each
    differencing image's parent is the next object) reads as: topmost layer that decides
    the sector, down to the base image. -/
theorem vhdx_chain_reads_as_overlay (vs : List Vhdx.Vhdx) (h : Vhdx.IsChain vs) (v : Vhdx.Vhdx)
    (hv : vs.head? = some v) (sector count : Nat) (hin : sector + count ≤ v.nSectors) :
    v.readSectors count sector count
      = .ok (slice (overlay (Vhdx.chainLayers vs)) (sector * v.sectorSize) (count * v.sectorSize)) :=
  Vhdx.chain_reads vs h v hv sector count hin

/-- the executable chain check the driver evaluates on every generated chain is sound -/
theorem vhdx_chainWfb_sound (vs : List Vhdx.Vhdx) (h : Vhdx.chainWfb vs = true) (hl : Vhdx.Linked vs) :
    Vhdx.IsChain vs := Vhdx.chainWfb_sound vs h hl

/-! ### QCOW2 backing, VDI parent, VMDK delta -/

/-- **qcow2_backing_short**: an unallocated run (sub-cluster types `UNALLOCATED_PLAIN`,
    `UNALLOCATED_ALLOC`) over a backing handle of `bsz` bytes returns the backing bytes and,
    beyond the end of a backing file shorter than the overlay, zeros. -/
theorem qcow2_backing_short (q : Qcow2.QCow2) (r : Qcow2.Run) (bc : Nat → UInt8) (bsz : Nat)
    (hb : Qcow2.BackingOK q bc bsz) (ht : r.type = 0 ∨ r.type = 1) :
    q.runData r = .ok (slice (padTo bc bsz) r.readOffset r.count) :=
  Qcow2.runData_unallocated q r bc bsz hb ht

/-- no backing handle (no backing file, or the `ALLOW_NO_BACKING_FILE` opt-out): zeros -/
theorem qcow2_no_backing_zeros (q : Qcow2.QCow2) (r : Qcow2.Run) (hb : q.backing = none) (ht : r.type = 0 ∨ r.type = 1) :
    q.runData r = .ok (zeros r.count) :=
  Qcow2.runData_unallocated_nobacking q r hb ht

/-- **qcow2_guest_is_overlay**: the QCOW2 specification over backing content `b` is the layer "the image decides the
    byte itself" (`decides`: L2 table present and the (sub-)cluster is not unallocated) over the backing content,
    zero beyond the end of a shorter backing file -/
theorem qcow2_guest_is_overlay (q : Qcow2.QCow2) (b : File) :
    q.guest b = q.layer.over (padTo b.byte b.size) := Qcow2.guest_eq_over q b

/-- a stream (buffer size `align`) over a conformant QCOW2 image is a backing handle with the image's guest-visible
    disk as content: `seek(off); read(n)` returns `min n (size − off)` bytes of `guest` -/
theorem qcow2_stream_is_backing (lo : Qcow2.QCow2) (align : Nat) (ha : 0 < align)
    (hc : Qcow2.ConformantTo lo (Qcow2.roundUp lo.size align)) (bl : File) (hbl : Qcow2.BackingIs lo.backing bl) :
    Qcow2.BackingIs (some (lo.asReader align)) (lo.asFile bl) :=
  Qcow2.asReader_backingIs lo align ha hc bl hbl

/-- **qcow2_backing_chain_reads_as_overlay**: an image `hi` whose backing handle is a stream over a lower QCOW2 image
    `lo` (itself over backing content `bl`, itself conformant up to the end of its last stream buffer) reads as the
    overlay: `hi`'s own bytes where it decides, else `lo`'s where `lo` decides (zero beyond `lo`'s size), else `bl`
    (zero beyond its size). Any depth follows by iterating (`lo.asFile bl` is again a `File`). -/
theorem qcow2_backing_chain_reads_as_overlay (hi lo : Qcow2.QCow2) (align : Nat) (ha : 0 < align)
    (hbk : hi.backing = some (lo.asReader align))
    (hchi : Qcow2.Conformant hi) (hclo : Qcow2.ConformantTo lo (Qcow2.roundUp lo.size align))
    (bl : File) (hbl : Qcow2.BackingIs lo.backing bl) (off len : Nat) (h : off + len ≤ hi.size) :
    hi.read off len =
      .ok (slice (hi.layer.over (padTo (lo.layer.over (padTo bl.byte bl.size)) lo.size)) off len) := by
  have := Qcow2.chain_read_correct hi lo align ha hbk hi.size ((Qcow2.conformantTo_self hi).mpr hchi) hclo bl hbl off len h
  rw [this, Qcow2.guest_eq_over hi, ← Qcow2.guest_eq_over lo]
  rfl

/-- … and the stream over the upper image of such a chain refines the array of the overlay -/
theorem qcow2_backing_chain_stream (hi lo : Qcow2.QCow2) (align : Nat) (ha : 0 < align)
    (hbk : hi.backing = some (lo.asReader align))
    (hchi : Qcow2.ConformantTo hi (Qcow2.roundUp hi.size align))
    (hclo : Qcow2.ConformantTo lo (Qcow2.roundUp lo.size align))
    (bl : File) (hbl : Qcow2.BackingIs lo.backing bl) (ops : List Op) :
    AS.run hi.read (AS.init hi.size align) ops = Spec.run (hi.guest (lo.asFile bl)) ⟨hi.size, 0⟩ ops :=
  Qcow2.stream_correct hi align ha hchi (lo.asFile bl)
    (by rw [hbk]; exact Qcow2.asReader_backingIs lo align ha hclo bl hbl) ops

/-- **snapshot_view_independent** (stated in C08): reads of `snapshot.open()` do not depend on the history of the
    active stream -/
theorem qcow2_snapshot_view_independent (q : Qcow2.QCow2) (s : Qcow2.Snap) (align : Nat) (ha : 0 < align)
    (hc : Qcow2.ConformantTo (q.snapImage s) (Qcow2.roundUp q.size align)) (b : File) (hb : Qcow2.BackingIs q.backing b)
    (earlier ops : List Op) :
    AS.run (q.snapOpen s).read (AS.after q.read (AS.init q.size align) earlier).reopen ops
      = Spec.run ((q.snapImage s).guest b) ⟨q.size, 0⟩ ops :=
  Qcow2.snapshot_after_history q s align ha hc b hb earlier ops

/-! non-vacuity: `exTop` (nothing allocated) over a 1024-byte-buffered stream on `exImg` -/
example : Qcow2.Conformant Qcow2.exTop ∧ Qcow2.ConformantTo Qcow2.exImg (Qcow2.roundUp Qcow2.exImg.size 1024) ∧
    Qcow2.exTop.backing = some (Qcow2.exImg.asReader 1024) :=
  ⟨Qcow2.conformantb_sound _ (by decide), Qcow2.conformantToB_sound _ _ (by decide), rfl⟩

set_option maxRecDepth 100000 in
example : Qcow2.exTop.read 510 4 = .ok [UInt8.ofNat (2046 % 251), UInt8.ofNat (2047 % 251), 0, 0] := by decide

theorem qcow2_unallocated_types_spec :
    Extracted.qcow2.UNALLOCATED_SUBCLUSTER_TYPES = [0, 1] ∧ Extracted.qcow2.ZERO_SUBCLUSTER_TYPES = [2, 3] := by decide

/-- the VDI specification with a parent is the layer "map entry ≠ −1" over the parent content -/
theorem vdi_guest_is_overlay (v : Vdi.Vdi) (pc : Nat → UInt8) (hp : v.parent.isSome) :
    Vdi.guest v pc = (Vdi.layer v).over pc := Vdi.guest_eq_over v pc hp

/-- **vdi_parent_fallthrough**: a request over unallocated blocks of a child with a parent
    returns the parent's bytes at the same offsets -/
theorem vdi_parent_fallthrough (v : Vdi.Vdi) (pc : Nat → UInt8) (hwf : Vdi.WF v) (hp : Vdi.ParentOK v pc)
    (hpar : v.parent.isSome) (off len : Nat) (h : off + len ≤ v.size)
    (hun : ∀ o, off ≤ o → o < off + len → v.map[o / v.blockSize]? = some (-1)) :
    Vdi.read v off len = .ok (slice pc off len) := by
  rw [Vdi.read_correct v pc hwf hp]
  have : min len (v.size - off) = len := by omega
  rw [this]
  apply congrArg Except.ok
  apply slice_congr
  intro i hi
  simp [Vdi.guest, hun (off + i) (by omega) (by omega), hpar]

/-- the VMDK sparse-extent specification with a parent is the layer "grain entry ≠ 0" over
    the parent content at the extent's absolute position `sector_offset * 512` -/
theorem vmdk_guest_is_overlay (v : Vmdk.Sparse) (pc : Nat → UInt8) (hp : v.parent.isSome) :
    v.guest pc = v.layer.over (fun o => pc (v.sectorOffset * 512 + o)) := Vmdk.guest_eq_over v pc hp

/-- **vmdk_delta_parent_sector**: a request (absolute sectors, as `VMDK.read_sectors` passes
    them) whose grains are all unallocated in the delta extent reads the parent at the same
    absolute sector, `sector_offset + relative sector`. -/
theorem vmdk_delta_parent_sector (v : Vmdk.Sparse) (pc : Nat → UInt8) (hwf : Vmdk.WF v) (hp : Vmdk.ParentOK v pc)
    (hpar : v.parent.isSome) (sector count : Nat) (hs : v.sectorOffset ≤ sector)
    (hin : sector - v.sectorOffset + count ≤ v.capacity)
    (hun : ∀ s, sector - v.sectorOffset ≤ s → s < sector - v.sectorOffset + count →
      v.specGrain (s / v.grainSize) = 0) :
    v.readSectors sector count = .ok (slice pc (sector * 512) (count * 512)) :=
  Vmdk.delta_parent_sector v pc hwf hp hpar sector count hs hin hun

/-- a delta extent over any parent: `read_sectors` = the overlay (from the C02 proof) -/
theorem vmdk_delta_read_correct (v : Vmdk.Sparse) (pc : Nat → UInt8) (hwf : Vmdk.WF v) (hp : Vmdk.ParentOK v pc)
    (hpar : v.parent.isSome) (sector count : Nat) (hs : v.sectorOffset ≤ sector)
    (hin : sector - v.sectorOffset + count ≤ v.capacity) :
    v.readSectors sector count
      = .ok (slice (v.layer.over (fun o => pc (v.sectorOffset * 512 + o))) ((sector - v.sectorOffset) * 512) (count * 512)) := by
  rw [← vmdk_guest_is_overlay v pc hpar]
  exact Vmdk.sparse_readSectors_correct v pc hwf hp sector count hs hin

/-! ### non-vacuity: a concrete differencing image (2 blocks of 2 sectors of 4 bytes, chunk
    ratio 2: block 0 partially present with bitmap `0b10`, block 1 not present) over a parent
    satisfies `WFD`, and a read across both blocks evaluates to child / parent bytes as specified -/

def exBat : Bytes := [0x07, 0x00, 0x10, 0, 0, 0, 0, 0,   0, 0, 0, 0, 0, 0, 0, 0,   0x06, 0x00, 0x20, 0, 0, 0, 0, 0]
def exFile : File := ⟨3 * 2 ^ 20, fun i =>
  if i < 24 then exBat.getD i 0
  else if i = 2 * 2 ^ 20 then 0x02
  else if 2 ^ 20 ≤ i ∧ i < 2 ^ 20 + 8 then UInt8.ofNat (100 + (i - 2 ^ 20))
  else 0⟩
def exParentContent : Nat → UInt8 := fun i => UInt8.ofNat (200 + i)
def exDiff : Vhdx.Vhdx :=
  { fh := exFile, size := 16, blockSize := 8, sectorSize := 4, hasParent := true, batOffset := 0, spb := 2,
    chunkRatio := 2, entryCount := 3, diskId := [], locator := [],
    parent := some (fun sector count => .ok (slice exParentContent (sector * 4) (count * 4))) }

example : Vhdx.WFD exDiff := vhdx_wfdb_sound exDiff (by decide)
example : Vhdx.ParentOK exDiff exParentContent := ⟨_, rfl, fun _ _ _ => rfl⟩
example : exDiff.readSectors 4 0 4 = .ok [200, 201, 202, 203, 104, 105, 106, 107, 208, 209, 210, 211, 212, 213, 214, 215] := by
  decide
example : Vhdx.iterPartialRuns [0xF0, 0x0F, 0xFF] 3 18 = .ok [(0, 1), (1, 8), (0, 4), (1, 5)] := by decide


/-! ### from the stored names to the chain (`Hv/Resolve.lean`: directory tree, `PurePosixPath`, the per-format transcriptions) -/

section resolution
open Hv.Resolve

/-- **vhdx_parent_resolution**: what `open_parent(dir, locator)` opens.  The candidates are, in the code's order,
    `dir / relative_path` and `"/" + absolute_win32_path` (both with `\` → `/`; `volume_path` is not a candidate).
    (1) `relative_path` is mandatory: without it the open fails even when the absolute path exists;
    (2) with it, the path opened is the first candidate that exists;
    (3) when no candidate exists, whatever path is chosen cannot be opened — no parent, no image. -/
theorem vhdx_parent_resolution {α : Type} (fs : FS α) (dir : Path) (loc : List (Name × Name)) :
    (dictGet loc kRel = none → vhdxParentPath fs dir loc = .error .index) ∧
    (∀ pp, (dictGet loc kRel).isSome → (vhdxCandidates dir loc).find? fs.exists = some pp →
      vhdxParentPath fs dir loc = .ok pp) ∧
    (∀ pp, (vhdxCandidates dir loc).find? fs.exists = none → vhdxParentPath fs dir loc = .ok pp →
      fs.open pp = .error .other) := by
  refine ⟨?_, ?_, ?_⟩
  · intro h; unfold vhdxParentPath; rw [h]
  · intro pp hr hf; exact find_parentPath fs dir loc pp hr hf
  · intro pp hn h; exact not_exists_open fs pp (parentPath_none fs dir loc pp hn h)

/-- **vhdx_chain_resolution**: when `VHDX(path)` succeeds, the objects it built (the requested image first) are the chain
    the names designate: each is `VHDX.__init__` of the file at its path with the next object as parent, each differencing
    image is followed by the image at the first existing candidate of its own locator relative to its own directory,
    the last one is not differencing; the parent links are in place (`Linked`). -/
theorem vhdx_chain_resolution (fs : FS File) (fuel : Nat) (p : Path) (chain : List (Path × Vhdx.Vhdx))
    (h : vhdxOpen fs fuel p = .ok chain) :
    VhdxDesignates fs chain ∧ Vhdx.Linked (chain.map (·.2)) ∧ chain.head?.map (·.1) = some p :=
  vhdxOpen_spec fs fuel p chain h

/-- **missing_parent_errors** (VHDX): never a silent read without the parent — an opened image whose metadata says
    `has_parent` has a parent object, the next element of the resolved chain -/
theorem vhdx_missing_parent_errors (fs : FS File) (fuel : Nat) (p : Path) (q : Path × Vhdx.Vhdx)
    (rest : List (Path × Vhdx.Vhdx)) (h : vhdxOpen fs fuel p = .ok (q :: rest)) (hp : q.2.hasParent = true) :
    ∃ par rest', rest = par :: rest' ∧ q.2.parent = some par.2.reader :=
  vhdxOpen_parent fs fuel p q rest h hp

/-- … and when none of the candidates of a differencing image exists, `VHDX(path)` is an error -/
theorem vhdx_no_candidate_errors (fs : FS File) (fuel : Nat) (p : Path) (fh : File) (v0 : Vhdx.Vhdx)
    (loc : List (Name × Name)) (ho : fs.open p = .ok fh) (hv : Vhdx.open fh none = .ok v0) (hp : v0.hasParent = true)
    (hl : decodeLocator v0.locator = some loc) (hn : (vhdxCandidates p.parent loc).find? fs.exists = none) :
    ∃ e, vhdxOpen fs fuel p = .error e := by
  cases hr : vhdxOpen fs fuel p with
  | error e => exact ⟨e, rfl⟩
  | ok chain =>
    exfalso
    obtain ⟨hd, _, hh⟩ := vhdxOpen_spec fs fuel p chain hr
    match chain, hd, hh with
    | [b], hd, hh =>
      simp only [List.head?_cons, Option.map_some, Option.some.injEq] at hh
      have h1 := hd.1
      rw [hh, ho] at h1
      have e : b.2.fh = fh := (Except.ok.inj h1).symm
      have h2 := hd.2.1
      rw [e, hv] at h2
      have : b.2 = v0 := (Except.ok.inj h2).symm
      have h3 := hd.2.2
      rw [this, hp] at h3
      cases h3
    | v :: par :: rest, hd, hh =>
      simp only [List.head?_cons, Option.map_some, Option.some.injEq] at hh
      obtain ⟨h1, h2, _, ⟨loc', hl', _, hf⟩, _⟩ := hd
      rw [hh, ho] at h1
      have e : v.2.fh = fh := (Except.ok.inj h1).symm
      rw [e] at h2
      have hw := (open_withParent fh par.2.reader v0 hv).1
      rw [hw] at h2
      have ev : v.2 = withParent v0 par.2.reader := (Except.ok.inj h2).symm
      have : v.2.locator = v0.locator := by rw [ev]; rfl
      rw [this, hl] at hl'
      cases hl'
      rw [hh, hn] at hf
      cases hf

/-- **resolved_chain_reads_as_overlay** (VHDX): resolution followed by `vhdx_chain_reads_as_overlay`.  If `VHDX(path)`
    succeeds on the directory tree `fs` and the resolved images pass the executable well-formedness check, then the
    opened object reads, sector by sector, the overlay of the layers of exactly the files the names designate
    (`VhdxDesignates`: first existing locator candidate at every level, relative to each image's own directory). -/
theorem resolved_chain_reads_as_overlay (fs : FS File) (fuel : Nat) (p : Path) (chain : List (Path × Vhdx.Vhdx))
    (h : vhdxOpen fs fuel p = .ok chain) (hwf : Vhdx.chainWfb (chain.map (·.2)) = true)
    (v : Vhdx.Vhdx) (hv : (chain.map (·.2)).head? = some v) (sector count : Nat) (hin : sector + count ≤ v.nSectors) :
    VhdxDesignates fs chain ∧
    v.readSectors count sector count
      = .ok (slice (overlay (Vhdx.chainLayers (chain.map (·.2)))) (sector * v.sectorSize) (count * v.sectorSize)) := by
  obtain ⟨hd, hl, _⟩ := vhdxOpen_spec fs fuel p chain h
  exact ⟨hd, vhdx_chain_reads_as_overlay _ (Vhdx.chainWfb_sound _ hwf hl) v hv sector count hin⟩

/-- `VHDX.__init__` with a parent object differs from the parent-less parse only in the BAT layout -/
theorem vhdx_open_with_parent (fh : File) (r : Vhdx.SectorReader) (v0 : Vhdx.Vhdx) (h : Vhdx.open fh none = .ok v0) :
    Vhdx.open fh (some r) = .ok (withParent v0 r) := (open_withParent fh r v0 h).1

/-- **hdd_chain_resolution**: `get_snapshot_chain(guid)` returns `chain` exactly when `chain` is the duplicate-free
    ParentGUID path that starts at `guid` (requested GUID first, root shot last; `HDD.open` then opens the images in the
    reverse order); such a path is unique; if there is none — a GUID on the walk is not a shot, or the walk comes back to a
    GUID it has seen — the call is an error (KeyError / ValueError), never a shorter chain. -/
theorem hdd_chain_resolution (shots : List (Nat × Nat)) (null g : Nat) :
    (∀ chain, Hdd.snapshotChain shots null g = .ok chain ↔
      chain.head? = some g ∧ IsPath shots null chain ∧ chain.Nodup) ∧
    (∀ c₁ c₂, (c₁.head? = some g ∧ IsPath shots null c₁ ∧ c₁.Nodup) → (c₂.head? = some g ∧ IsPath shots null c₂ ∧ c₂.Nodup) →
      c₁ = c₂) ∧
    ((¬ ∃ chain, chain.head? = some g ∧ IsPath shots null chain ∧ chain.Nodup) →
      Hdd.snapshotChain shots null g = .error .index ∨ Hdd.snapshotChain shots null g = .error .value) := by
  refine ⟨snapshotChain_ok_iff shots null g, ?_, ?_⟩
  · intro c₁ c₂ h₁ h₂
    have e₁ := (snapshotChain_ok_iff shots null g c₁).mpr h₁
    have e₂ := (snapshotChain_ok_iff shots null g c₂).mpr h₂
    rw [e₁] at e₂
    exact Except.ok.inj e₂
  · intro hno
    cases hr : Hdd.snapshotChain shots null g with
    | ok chain => exact absurd ⟨chain, (snapshotChain_ok_iff shots null g chain).mp hr⟩ hno
    | error e =>
      rcases snapshotChain_err shots null g e hr with rfl | rfl
      · exact Or.inl rfl
      · exact Or.inr rfl

/-- **hdd_image_resolution**: the path `_open_image(Path(file))` opens: a relative name is taken below the `.hdd`
    directory; an absolute name that exists is itself; otherwise the first existing of
    `root/name`, `root.parent/<dir of file>/name`, `root.parent.parent/<dir of dir>/<dir of file>/name`, else the last
    of them (which then fails to open) -/
theorem hdd_image_resolution {α : Type} (fs : FS α) (root : Path) (file : Name) :
    hddImagePath fs root file =
      if (Path.ofStr file).abs then
        if fs.exists (Path.ofStr file) then Path.ofStr file
        else ((hddCandidates root (Path.ofStr file)).find? fs.exists).getD
          (((root.parent.parent.joinStr (Path.ofStr file).parent.parent.name).joinStr (Path.ofStr file).parent.name).joinStr
            (Path.ofStr file).name)
      else root.join (Path.ofStr file) :=
  hddImagePath_spec fs root file

/-- **missing_parent_errors** (Parallels): when `HDD(path).open(guid)` succeeds on the directory tree, the snapshot chain
    resolved, and for every storage every GUID of the chain has an image whose file is a regular file at the path
    `_open_image` designates — one absent layer anywhere refuses the whole open -/
theorem hdd_missing_image_errors (fs : FS File) (p : Path) (parse : File → Except Err Meta.Descriptor)
    (hs : Hds.Hds → HddOpen.Reader) (n t : Nat) (guid : Option Nat) (r : List (Meta.Storage × Option HddOpen.Reader))
    (h : HddOpen.open (hddDir fs p parse hs) n t guid = .ok r) :
    ∃ desc chain, (hddDir fs p parse hs).descriptor = some (.ok desc) ∧
      Hdd.snapshotChain (desc.shots.map fun s => (s.guid, s.parent)) n
        (match guid with | some g => g | none => match desc.topGuid with | some x => x | none => t) = .ok chain ∧
      ∀ s ∈ desc.storages, ∀ g ∈ chain, ∃ image name,
        HddOpen.findImage s g = .ok image ∧ image.file = some name ∧
        fs.isFile (hddImagePath fs (hddRoot fs p) name.toList) = true := by
  unfold HddOpen.open at h
  split at h
  · cases h
  · rename_i desc hd
    simp only at h
    split at h
    · cases h
    · rename_i chain hc
      refine ⟨desc, chain, ?_, hc, ?_⟩
      · unfold HddOpen.init at hd
        split at hd
        · cases hd
        · rename_i x hx; rw [hx, hd]
      · intro s hs' g hg
        obtain ⟨image, name, fh, h1, h2, h3⟩ := openStorages_files _ chain desc.storages r h s hs' g hg
        exact ⟨image, name, h1, h2, open_isFile fs _ fh h3⟩

/-- **qcow2_backing_resolution**: the library never turns the backing-file *name* of the header into a path.  The image
    opens only if the caller passed a handle or the explicit opt-out when the header names a backing file; the handle used
    for unallocated clusters is exactly the caller's (whatever file the name would designate), none after the opt-out, and
    none (the argument is ignored) when the header names no backing file. -/
theorem qcow2_backing_resolution (fh : File) (df : Option File) (bk : Option Qcow2.Reader) (allow : Bool)
    (infl : Bytes → Nat → Except Err Bytes) (q : Qcow2.QCow2) (h : Qcow2.open fh df bk allow infl = .ok q) :
    (q.backingName = none → q.backing = none) ∧
    (q.backingName.isSome → allow = true → q.backing = none) ∧
    (q.backingName.isSome → allow = false → bk.isSome ∧ q.backing = bk) :=
  qcow2_open_backing fh df bk allow infl q h

/-- VMDK: `open_parent(dir, hint)` opens the first of its two candidates (`dir/<name>`,
    `dir.parent/<last directory of the hint>/<name>`, `\` → `/`) that exists, else the second (which then fails to open) -/
theorem vmdk_parent_resolution {α : Type} (fs : FS α) (dir : Path) (hint : Name) :
    vmdkParentPath fs dir hint = ((vmdkCandidates dir hint).find? fs.exists).getD
      ((dir.parent.joinStr (rpartSlash (rpartSlash (winToPosix hint)).1).2).joinStr (rpartSlash (winToPosix hint)).2) := by
  unfold vmdkParentPath vmdkCandidates
  simp only
  by_cases h1 : fs.exists (dir.joinStr (rpartSlash (winToPosix hint)).2) = true
  · simp [h1]
  · by_cases h2 : fs.exists ((dir.parent.joinStr (rpartSlash (rpartSlash (winToPosix hint)).1).2).joinStr
        (rpartSlash (winToPosix hint)).2) = true
    · simp [h1, h2]
    · simp [h1, h2]


/-! non-vacuity: a small directory tree
      /vm/a/child.avhdx      (differencing)          /vm/a/base.vhdx   (a stale copy)
      /vm/b/base.vhdx        (the real parent)       /vm/a/dir         (a directory)
    and locators whose parent is reachable by the first key, only by the second key, by no key; names as `List Char` -/

def n (s : List Char) : Name := s
def exFS : FS Nat :=
  { cwd := []
    node := fun loc =>
      if loc = [n ['v','m']] ∨ loc = [n ['v','m'], n ['a']] ∨ loc = [n ['v','m'], n ['b']] ∨ loc = [n ['v','m'], n ['a'], n ['d']] then some .dir
      else if loc = [n ['v','m'], n ['a'], n ['c']] then some (.file 1)
      else if loc = [n ['v','m'], n ['a'], n ['p']] then some (.file 2)       -- stale
      else if loc = [n ['v','m'], n ['b'], n ['p']] then some (.file 3)       -- the real parent
      else none }
def exDir : Path := ⟨true, [['v','m'], ['a']]⟩

-- `Path("/vm/a") / "..\\b\\p".replace("\\", "/")` and the kernel's walk through `..`
example : vhdxRelPath exDir ['.','.','\\','b','\\','p'] = ⟨true, [['v','m'], ['a'], ['.','.'], ['b'], ['p']]⟩ := by decide
example : exFS.open (vhdxRelPath exDir ['.','.','\\','b','\\','p']) = .ok 3 := by decide
-- `..` through a directory that does not exist is refused although the path is lexically `/vm/b/p`
example : exFS.exists (vhdxRelPath exDir ['x','\\','.','.','\\','.','.','\\','b','\\','p']) = false := by decide
-- first key
example : vhdxParentPath exFS exDir [(kRel, ['.','.','\\','b','\\','p'])] = .ok ⟨true, [['v','m'], ['a'], ['.','.'], ['b'], ['p']]⟩ := by
  decide
-- only the second key exists (the table order of the keys does not matter)
example : vhdxParentPath exFS exDir [(kAbs, ['v','m','\\','b','\\','p']), (kRel, ['.','\\','g','o','n','e'])]
    = .ok ⟨true, [['v','m'], ['b'], ['p']]⟩ := by decide
-- a drive letter never resolves: `/C:/vm/b/p`
example : vhdxParentPath exFS exDir [(kRel, ['.','\\','g','o','n','e']), (kAbs, ['C',':','\\','v','m','\\','b','\\','p'])]
    = .ok ⟨true, [['C',':'], ['v','m'], ['b'], ['p']]⟩ ∧
    exFS.open ⟨true, [['C',':'], ['v','m'], ['b'], ['p']]⟩ = .error .other := by decide
-- a stale first key pointing at an existing file wins over the right absolute path: no linkage check (observation O-C07-1)
example : vhdxParentPath exFS exDir [(kRel, ['.','\\','p']), (kAbs, ['v','m','\\','b','\\','p'])]
    = .ok ⟨true, [['v','m'], ['a'], ['p']]⟩ := by decide
-- … and a first key naming a directory is chosen too (opening it then fails; the absolute path is not tried)
example : vhdxParentPath exFS exDir [(kRel, ['.','\\','d']), (kAbs, ['v','m','\\','b','\\','p'])] = .ok ⟨true, [['v','m'], ['a'], ['d']]⟩ ∧
    exFS.open ⟨true, [['v','m'], ['a'], ['d']]⟩ = .error .other := by decide
-- no `relative_path`: KeyError although the absolute path is right; `volume_path` is never a candidate
example : vhdxParentPath exFS exDir [(kAbs, ['v','m','\\','b','\\','p'])] = .error .index := by decide
example : vhdxCandidates exDir [(kVol, ['v','m','\\','b','\\','p']), (kRel, ['g'])] = [⟨true, [['v','m'], ['a'], ['g']]⟩] := by decide
-- nothing exists: the chosen path cannot be opened
example : (vhdxCandidates exDir [(kRel, ['g']), (kAbs, ['h'])]).find? exFS.exists = none ∧
    vhdxParentPath exFS exDir [(kRel, ['g']), (kAbs, ['h'])] = .ok ⟨true, [['h']]⟩ ∧ exFS.open ⟨true, [['h']]⟩ = .error .other := by decide
-- the whole walk on names (`vhdxWalk`: headers described instead of parsed): child → real parent through `..`; a cycle is an error
def exTree : FS (Option (Option (List (Name × Name)))) :=
  { cwd := []
    node := fun loc =>
      if loc = [n ['v','m']] ∨ loc = [n ['v','m'], n ['a']] ∨ loc = [n ['v','m'], n ['b']] then some .dir
      else if loc = [n ['v','m'], n ['a'], n ['c']] then some (.file (some (some [(kRel, ['.','.','\\','b','\\','p'])])))
      else if loc = [n ['v','m'], n ['a'], n ['s']] then some (.file (some (some [(kRel, ['.','\\','s'])])))
      else if loc = [n ['v','m'], n ['b'], n ['p']] then some (.file (some none))
      else none }
example : vhdxWalk exTree 8 ⟨true, [['v','m'], ['a'], ['c']]⟩
    = .ok [⟨true, [['v','m'], ['a'], ['c']]⟩, ⟨true, [['v','m'], ['a'], ['.','.'], ['b'], ['p']]⟩] := by decide
example : vhdxWalk exTree 8 ⟨true, [['v','m'], ['a'], ['s']]⟩ = .error .other := by decide
-- UTF-16-LE locator strings as they are in the file
example : decodeLocator [([0x72, 0, 0x65, 0], [0x2E, 0, 0x5C, 0, 0x70, 0])] = some [(['r','e'], ['.','\\','p'])] := by decide
example : decode16 [0x3D, 0xD8, 0x00, 0xDE] = some [Char.ofNat 0x1F600] ∧ decode16 [0x00, 0xDC] = none ∧ decode16 [0x41] = none := by decide

-- Parallels: the path of the shot forest, and what is not one
example : IsPath [(1, 2), (2, 3), (3, 0), (9, 2)] 0 [1, 2, 3] ∧ [1, 2, 3].Nodup ∧
    Hdd.snapshotChain [(1, 2), (2, 3), (3, 0), (9, 2)] 0 1 = .ok [1, 2, 3] :=
  ⟨⟨⟨(1, 2), by decide, by decide, rfl⟩, ⟨(2, 3), by decide, by decide, rfl⟩, (3, 0), by decide, rfl⟩, by decide, by decide⟩
-- `_open_image`: an absolute name that has moved is found in a sibling `.hdd` directory (second candidate)
def exHdd : FS Nat :=
  { cwd := []
    node := fun loc =>
      if loc = [n ['p']] ∨ loc = [n ['p'], n ['x']] ∨ loc = [n ['p'], n ['y']] then some .dir
      else if loc = [n ['p'], n ['y'], n ['i']] then some (.file 7)
      else none }
example : hddImagePath exHdd ⟨true, [['p'], ['x']]⟩ ['/','o','/','q','/','y','/','i'] = ⟨true, [['p'], ['y'], ['i']]⟩ := by decide
example : hddImagePath exHdd ⟨true, [['p'], ['x']]⟩ ['.','.','/','y','/','i'] = ⟨true, [['p'], ['x'], ['.','.'], ['y'], ['i']]⟩ ∧
    exHdd.open ⟨true, [['p'], ['x'], ['.','.'], ['y'], ['i']]⟩ = .ok 7 := by decide
example : exHdd.open (hddImagePath exHdd ⟨true, [['p'], ['x']]⟩ ['/','o','/','q','/','z','/','i']) = .error .other := by decide
-- VMDK: `C:\vms\y\i` from `/p/x`: `/p/x/i` is absent, `/p/y/i` is there
example : vmdkParentPath exHdd ⟨true, [['p'], ['x']]⟩ ['C',':','\\','v','\\','y','\\','i'] = ⟨true, [['p'], ['y'], ['i']]⟩ := by decide

end resolution

/-! ### VMDK: the parent link of a descriptor is never silently dropped

  `VMDK.__init__` decides from the parsed descriptor whether a parent must be opened (`VmdkDesc.parentLink`, used by the
  driver's `vmdkOpenDescriptorP`).  Composed with `DiskDescriptor.parse` on the whole text
  (`HvProofs/VmdkDescParse.lean`): what counts is the **last** `parentCID` / `parentFileNameHint` assignment. -/
section vmdk_link
open Hv.VmdkDesc

/-- **vmdk_delta_link_never_dropped**: for every descriptor text whose effective `parentCID` is not `ffffffff`, the
    image is never opened as a base disk: either the parent named by the effective `parentFileNameHint` has to be
    opened (and `open_parent` raises when it cannot be, `vmdk_parent_resolution`), or — the hint line being absent —
    the descriptor is refused.  Any number of lines, any order, repeated assignments, any other content. -/
theorem vmdk_delta_link_never_dropped (lines : List Str) (hne : lines ≠ []) (h : ∀ l ∈ lines, '\n' ∉ l) (cid : Str)
    (hc : (lines.filterMap (lineAssigns false "parentCID".toList)).getLast? = some cid)
    (hn : cid ≠ "ffffffff".toList) :
    parentLink (parse (joinLines lines)) =
      (match (lines.filterMap (lineAssigns false "parentFileNameHint".toList)).getLast? with
       | none => .error ()
       | some hint => .ok (some hint)) ∧
    parentLink (parse (joinLines lines)) ≠ .ok none := by
  have e1 := (Hv.C10.descriptor_settings_last_assignment_wins lines hne h "parentCID".toList).1
  have e2 := (Hv.C10.descriptor_settings_last_assignment_wins lines hne h "parentFileNameHint".toList).1
  have key : parentLink (parse (joinLines lines)) =
      (match (lines.filterMap (lineAssigns false "parentFileNameHint".toList)).getLast? with
       | none => .error ()
       | some hint => .ok (some hint)) := by
    unfold parentLink
    rw [e1, hc, e2]
    simp only [hn, if_false]
    cases (lines.filterMap (lineAssigns false "parentFileNameHint".toList)).getLast? <;> rfl
  refine ⟨key, ?_⟩
  rw [key]
  cases (lines.filterMap (lineAssigns false "parentFileNameHint".toList)).getLast? <;> simp

/-- **vmdk_base_iff**: a descriptor is opened as a base disk exactly when its effective `parentCID` is `ffffffff`;
    without any `parentCID` line it is refused -/
theorem vmdk_base_iff (lines : List Str) (hne : lines ≠ []) (h : ∀ l ∈ lines, '\n' ∉ l) :
    (parentLink (parse (joinLines lines)) = .ok none ↔
      (lines.filterMap (lineAssigns false "parentCID".toList)).getLast? = some "ffffffff".toList) ∧
    ((lines.filterMap (lineAssigns false "parentCID".toList)).getLast? = none →
      parentLink (parse (joinLines lines)) = .error ()) := by
  have e1 := (Hv.C10.descriptor_settings_last_assignment_wins lines hne h "parentCID".toList).1
  have e2 := (Hv.C10.descriptor_settings_last_assignment_wins lines hne h "parentFileNameHint".toList).1
  unfold parentLink
  rw [e1, e2]
  cases hc : (lines.filterMap (lineAssigns false "parentCID".toList)).getLast? with
  | none => simp
  | some cid =>
    by_cases hn : cid = "ffffffff".toList
    · simp [hn]
    · have hn' : ¬ cid = ['f', 'f', 'f', 'f', 'f', 'f', 'f', 'f'] := by simpa using hn
      simp only [hn, if_false]
      cases (lines.filterMap (lineAssigns false "parentFileNameHint".toList)).getLast? <;> simp [hn']

/-- non-vacuity: a delta descriptor without hint is refused, with an (overridden) hint the last one is used,
    and a base descriptor is a base -/
example : parentLink (parse (joinLines ["CID=1".toList, "parentCID=0123abcd".toList, "RW 8 SPARSE \"d.vmdk\"".toList]))
    = .error () := by decide
example : parentLink (parse (joinLines ["parentCID=0123abcd".toList, "parentFileNameHint=\"a.vmdk\"".toList,
    "RW 8 SPARSE \"d.vmdk\"".toList, "parentFileNameHint = \"b c.vmdk\"".toList])) = .ok (some "b c.vmdk".toList) := by
  decide
example : parentLink (parse (joinLines ["parentCID=ffffffff".toList])) = .ok none := by decide
example : (["CID=1".toList, "parentCID=0123abcd".toList].filterMap (lineAssigns false "parentCID".toList)).getLast?
    = some "0123abcd".toList := by decide

end vmdk_link

end Hv.C07
