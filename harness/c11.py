"""C11 — termination and bounded resources on arbitrary input.

Mutation streams over valid inputs of every format (field mutations 0 / 1 / max / sign bit / ±1 / self-reference in both
endiannesses, truncations, random corruption), deflate bombs (VMDK compressed grains with disagreeing header / footer,
QCOW2 compressed clusters), cyclic snapshot graphs (Parallels), negative / backward tar sizes, mutated Hyper-V files,
envelopes and key safes. The real code runs under a watchdog (wall clock), `tracemalloc` (peak allocation against a bound
that is a modest function of input and request size) and the worker's address-space limit; the Lean models run on the
same bytes and must report `ok` or `err`, never `nonterm`."""
from __future__ import annotations

import copy
import importlib
import io
import os
import random
import struct
import zlib

import core
import sparse
from core import Built
from sparse import Image

PROPERTY = "C11"
RULE = ("per format (qcow2, vmdk, vhdx, vhd, vdi, hds via their generators; vmtar; hyperv; envelope; vmx key safe; Parallels descriptor "
        "graphs): a valid generated input + one mutation drawn from {header/table field := 0, 1, all-ones, sign bit, old±1, own offset, "
        "file size (1/2/4/8 bytes, little and big endian) at an aligned offset biased to non-zero bytes; truncation at a random point; "
        "8..64 random bytes overwritten}; Hyper-V additionally directed structural mutations (gen_hyperv.struct_mutations: every key-table entry "
        "incl. inline / trailing Free entries and the zero terminator: size := 0, 1, < header, to-the-end, past-the-end, 2^31, 2^32-1, type := Free / "
        "Unknown, Free with size 0 / 1; every object-table entry: type / offset (self, table 0, EOF, 2^63..) / size / allocated; table counts / signatures); deflate bombs; rho- and loop-shaped ParentGUID graphs; tar headers with negative sizes. "
        "VHDX bases are redrawn until the file stays below 6 MiB (10 bases per run); fixed grid of 38 VHDX images whose virtual size ends inside "
        "a logical sector (512 / 4096; at a block boundary, inside the last / the only block, below one sector; remainder 1, 17, half, ss-1; last block present / absent / zero). "
        "VHD / VDI additionally a directed family on fixed bases (one dynamic + two fixed VHDs, two VDIs): EVERY size-like field of the footer, "
        "the dynamic header, the VDI header and the first / last BAT / block-map entry := each of {0, 1, 2, 511..513, old±1, 2·old, file size (+1, /512), "
        "2^16, 2^20, 2^24, 2^26, 2^28 (+512), 2^29, 2^30, 2^31−1, 2^31, 2^32−512, 2^32−1; 64-bit fields also 2^32 (+512), 2^40, 2^62, 2^63∓1, 2^64−512, 2^64−1}. "
        "QCOW2 additionally directed structural mutations (gen_qcow2.struct_mutations over gen_qcow2.struct_bases: standard v2 / v3, extended L2, data file, backing file, "
        "snapshot; every L1 entry, every kind of L2 entry and unused slot, header fields, snapshot-table entries: offset := 0 / EOF / past EOF / unaligned / self, flags "
        "COPIED / ZERO / COMPRESSED toggled, sub-cluster bitmap := 0 / all-ones / alloc-without-zero / alloc-and-zero overlapping, allocation bits without host cluster, "
        "compressed descriptors with sector count 0 / max) followed by reads that reach the mutated entry. "
        "Each case: open + reads at start / middle / end / whole (≤ 1 MiB) (+ listing / decoding for non-disk inputs). Expected: every call "
        "returns or raises within the watchdog, and tracemalloc's peak stays below 16 MiB + 64·(real input bytes: Python objects per table entry) + 4·(largest request). "
        "Non-trivial = a mutated (not pristine) input; distinct (family, mutation).")
ASSUMPTIONS = ["CPU time and memory of CPython, cstruct and zlib are measured (watchdog + tracemalloc), not proved",
               "on mutated inputs only termination / resource bounds are verdict-bearing; ok-vs-error is not compared (C12 covers refusal)"]
TIMEOUT_CASE = 45.0      # a linear pass over a few MiB under tracemalloc can take ~10 s; a stalled loop never comes back
MEM_BASE = 16 << 20

DISK = {"c02": "vmdk", "c03": "vhdx", "c04": "vhd", "c05": "vdi", "c06": "hds"}


def _mod(name):
    return importlib.import_module(name)


# --------------------------------------------------------------------------- generic mutations on Images

def gen_mutation(rng, files: dict):
    fid = rng.choice(sorted(files))
    im = files[fid]
    size = im.size
    k = rng.random()
    if size == 0:
        return ["none"]
    if k < 0.15:
        return ["trunc", fid, rng.choice([0, 1, rng.randrange(size), rng.randrange(min(size, 4096) + 1), max(0, size - 1), max(0, size - 512)])]
    if k < 0.25:
        off = rng.randrange(size)
        n = rng.choice([8, 16, 64])
        return ["patch", fid, off, rng.randbytes(n).hex()]
    # field mutation: find an interesting aligned offset (prefer non-zero content among the metadata at the front / at segment starts)
    cands = []
    for so, sn, kind, arg in im.segs[:64]:
        if kind == "hex":
            cands += [so + o for o in range(0, min(sn, 1024), 4)]
    if not cands:
        cands = [o for o in range(0, min(size, 1024), 4)]
    off = rng.choice(cands)
    w = rng.choice([1, 2, 4, 4, 8, 8])
    off -= off % min(w, 4)
    old = im.read_at(off, w).ljust(w, b"\0")
    big = rng.random() < 0.5
    oldv = int.from_bytes(old, "big" if big else "little")
    mx = (1 << (8 * w)) - 1
    v = rng.choice([0, 1, mx, mx >> 1, (mx >> 1) + 1, (oldv + 1) & mx, (oldv - 1) & mx, off & mx, size & mx, (size // 512) & mx, 2, 0x10000 & mx, rng.randrange(mx + 1)])
    return ["patch", fid, off, v.to_bytes(w, "big" if big else "little").hex()]


def apply_mutation(files: dict, mut):
    out = dict(files)
    if mut[0] == "patch":
        _, fid, off, hx = mut
        out[fid] = out[fid].copy().patch(off, bytes.fromhex(hx))
    elif mut[0] == "patches":          # directed structural mutation: [[offset, hex], ...] + a label saying which field of what
        im = out[mut[1]].copy()
        for off, hx in mut[2]:
            im = im.patch(off, bytes.fromhex(hx))
        out[mut[1]] = im
    elif mut[0] == "trunc":
        _, fid, n = mut
        im = out[fid].copy()
        im.truncate(n)
        out[fid] = im
    return out


def real_bytes(files) -> int:
    """bytes a parser can actually read from the input files (holes read as zeros: they are input too); huge sparse files are capped"""
    return sum(min(im.size, 64 << 20) for im in files.values())


# --------------------------------------------------------------------------- bombs

def vmdk_bomb(first_grain_size: int, bomb: int = 32 << 20, grain_sectors: int = 128, lba_hdr: bool = True):
    """stream-optimised extent whose only grain inflates to `bomb` bytes; sector-0 header says `first_grain_size`, the footer the truth"""
    flags = 1 | 0x10000 | (0x20000 if lba_hdr else 0)
    num_gte, cap = 512, 2 * grain_sectors

    def hdr(gs, gd):
        return struct.pack("<4sIIQQQQIQQQBcc2sH433s", b"KDMV", 3, flags, cap, gs, 0, 0, num_gte, 0, gd, 0, 0, b"\n", b" ", b"\r\n", 1, bytes(433))
    pad = lambda b: b + bytes(-len(b) % 512)
    payload = zlib.compress(b"A" * bomb, 9)
    grain = pad((struct.pack("<QI", 0, len(payload)) if lba_hdr else struct.pack("<I", len(payload))) + payload)
    gt_sector = 2 + len(grain) // 512
    gt = pad(struct.pack(f"<{num_gte}I", 2, *([0] * (num_gte - 1))))
    gd_sector = gt_sector + len(gt) // 512
    gd = pad(struct.pack("<I", gt_sector))
    data = b"".join([hdr(first_grain_size, 0xFFFFFFFFFFFFFFFF), bytes(512), grain, gt, gd, hdr(grain_sectors, gd_sector), bytes(512)])
    im = Image()
    im.put_hex(0, data)
    return im.finish(len(data)), grain_sectors * 512


def qcow2_bomb(bomb: int = 48 << 20, cluster_bits: int = 16):
    """v3 image, one compressed cluster whose deflate stream inflates to `bomb` bytes"""
    cs = 1 << cluster_bits
    payload = zlib.compress(b"\0" * bomb, 9)[2:-4]          # raw deflate
    nsect_max = 1 << (cluster_bits - 8)
    assert len(payload) <= nsect_max * 512 - 512
    l1_off, l2_off, data_off = cs, 2 * cs, 3 * cs
    h = bytearray(cs)
    struct.pack_into(">IIQIIQIIQQIIQ", h, 0, 0x514649FB, 3, 0, 0, cluster_bits, cs, 0, 1, l1_off, 0, 0, 0, 0)
    struct.pack_into(">QQQII", h, 72, 0, 0, 0, 4, 104)
    x = 62 - (cluster_bits - 8)
    nsec = (len(payload) + 511) // 512
    ent = (1 << 62) | ((nsec - 1) << x) | data_off
    im = Image()
    im.put_hex(0, bytes(h))
    im.put_hex(l1_off, struct.pack(">Q", l2_off | (1 << 63)))
    im.put_hex(l2_off, struct.pack(">Q", ent))
    im.put_hex(data_off, payload)
    return im.finish(data_off + nsec * 512 + 512), cs


# --------------------------------------------------------------------------- VHDX section (bases, directed families)
# The size filter below (6 MiB per file: cost of a mutation sweep under tracemalloc) throws most random VHDX recipes away since the
# writer got placement gaps, longer logs and a spare payload slot — a family that hangs on "whatever the random stream leaves over"
# disappears with the next writer knob. The VHDX bases are therefore drawn from their own generator until one fits (explicit small
# fallback), and the tail shapes are a fixed grid.
VHDX_FILE_CAP = 6 << 20


def vhdx_small_base(rng, m):
    """a random single-layer VHDX recipe whose file stays below the cap: redraw, then fall back to explicit small knobs"""
    for _ in range(60):
        r = m.gen_vhdx.gen_recipe(rng, "quick", depth=1)
        l = r["layers"][0]
        if l["bs"] > (2 << 20) or len(l["blocks"]) > 4:
            continue
        files = m.build({"id": "x", "recipe": r, "align": 8192, "queries": []}).files
        if all(im.size <= VHDX_FILE_CAP for im in files.values()):
            return r
    return {"layers": [vhdx_compact_layer(rng, m, (1 << 20) * rng.choice([1, 2]), 1 << 20, rng.choice([512, 4096]))]}


def vhdx_compact_layer(rng, m, size, bs, ss, last_state=None):
    """gen_vhdx.gen_layer with the file kept short: default region placement, payload blocks packed in BAT order (permuted), no
    stale allocations; `size` may be any byte count (also one that is not a multiple of the logical sector size)"""
    l = m.gen_vhdx.gen_layer(rng, size, bs, ss, False, "quick", rng.randrange(256))
    for k in ("placement", "fixedlike"):
        l.pop(k, None)
    if last_state is not None:
        l["blocks"][-1] = last_state
    present = [b for b, st in enumerate(l["blocks"]) if st == 6]
    slots = list(range(len(present)))
    rng.shuffle(slots)
    l["phys"] = {str(b): o for b, o in zip(present, slots)}
    l["bitmaps"], l["stale_adjacent"], l["extra_bat"] = {}, False, 0
    return l


def vhdx_tail_grid(rng, m, tier):
    """Virtual disk sizes that end in the middle of a logical sector: [MS-VHDX] stores the size in bytes, a reader rounds the
    last request up to whole sectors, and the trailing partial sector is sector number size // ss — one past the last whole
    sector — of a block that may itself be a partial one. Fixed grid (every run, every seed): logical sector size × where the
    sector-aligned size ends (exactly at a block boundary / inside the last block / inside the only block / below one sector) ×
    the odd remainder (-1, +1, half a sector, +17, one byte short of a sector) × state of the last block (present / absent / zero)."""
    MB = 1 << 20
    out = []
    k = 0
    for ss in (512, 4096):
        shapes = [("block-multiple", 2 * MB), ("inside-last-block", MB + MB // 2), ("inside-only-block", 37 * ss), ("first-sector", 0),
                  ("block-multiple-1", MB)] + ([("three-blocks", 3 * MB - 5 * ss)] if tier != "quick" else [])
        for shape, size0 in shapes:
            for delta in (-1, 1, ss // 2, 17, ss - 1):
                size = size0 + delta
                if size <= 0:
                    continue
                if tier == "quick" and (k := k + 1) % 2 == 0 and shape in ("block-multiple-1", "inside-only-block"):
                    continue
                st = [6, 0, 6, 2, 3, 1][len(out) % 6]
                l = vhdx_compact_layer(rng, m, size, MB, ss, last_state=st)
                out.append(({"layers": [l]}, ["size-not-sector-multiple", shape, f"ss{ss}", f"rem{size % ss}", f"last{st}"]))
    return out


# --------------------------------------------------------------------------- VHD / VDI header fields

def _edge_values(w, old, fsize):
    """edge values for a w-byte count / size / offset field: nothing, one, a sector more or less, what the file really holds, powers
    of two from 64 Ki to the sign bit and beyond (what a count must reach to cost hundreds of MiB when something is allocated per
    announced unit or per announced byte), all ones"""
    mx = (1 << (8 * w)) - 1
    vals = [0, 1, 2, 511, 512, 513, (old + 1) & mx, (old - 1) & mx, (old * 2) & mx, fsize & mx, (fsize + 1) & mx, (fsize // 512) & mx,
            1 << 16, 1 << 20, 1 << 24, 1 << 26, 1 << 28, 0x10000000 + 512, 1 << 29, 1 << 30, 0x7FFFFFFF, 0x80000000, 0xFFFFFE00, 0xFFFFFFFF]
    if w == 8:
        vals += [1 << 32, (1 << 32) + 512, 1 << 40, 1 << 62, (1 << 63) - 1, 1 << 63, mx - 511, mx]
    out = []
    for v in vals:
        v &= mx
        if v != old and v not in out:
            out.append(v)
    return out


def _vhd_field_bases(rng, tier):
    c04 = _mod("c04")
    bases = []
    for bs in ((1 << 16,) if tier == "quick" else (4096, 1 << 16, 1 << 19)):
        r = c04.dyn_recipe(rng, bs, c04.gen_states(rng, rng.choice([3, 5])), style=rng.choice(["identity", "shuffled"]), extra=rng.choice([0, 1]))
        bases.append(r)
    bases.append({"kind": "fixed", "size": rng.choice([12288, 100 * 512, 65536 + 512]), "legacy": False, "seed": rng.randrange(256), "content": {"kind": "plain"}})
    bases.append({"kind": "fixed", "size": rng.choice([4096, 307200]), "legacy": True, "seed": rng.randrange(256), "content": {"kind": "plain"}})
    return bases


def _vdi_field_bases(rng, tier):
    c05 = _mod("c05")
    bases = []
    for bs in ((4096, 1 << 16) if tier == "quick" else (512, 4096, 1 << 16, 1 << 20)):
        bmap, _ = c05.successor_map(rng, rng.choice([3, 5, 8]))
        bases.append(c05.map_recipe(rng, bs, bmap, version=rng.choice([0x00010001, 0x00010000])))
    return bases


# --------------------------------------------------------------------------- cases

def generate(seed, tier):
    rng = random.Random(f"C11/{seed}/{tier}")
    mult = 1 if tier == "quick" else 8
    cases = []

    def add(fam, **kw):
        c = {"id": f"{fam}-{len(cases)}", "fam": fam, "queries": [], "align": 8192}
        c.update(kw)
        c.setdefault("recipe", {k: kw.get(k) for k in ("base", "mut", "variant") if k in kw})
        cases.append(c)
    # ---- disk formats through the adapters of their property modules
    vrng = random.Random(f"C11/vhdx/{seed}/{tier}")          # VHDX bases and directed families: independent of the other formats' stream
    for cls in DISK:
        m = _mod(cls)
        nb = 10 * mult
        for b in range(nb):
            if cls == "c03":
                r = m.gen_vhdx.gen_recipe(rng, "quick", depth=1)
            elif cls == "c02":
                r = m.gen_vmdk.gen_extent(rng, "quick", huge=False)
                if r["kind"] == "flat":
                    r["extra"] = 0
            else:
                r = m.gen_recipe(rng, "quick")
            base = {"id": "x", "recipe": r, "align": 8192, "queries": []}
            try:
                files = m.build(base).files
            except Exception:  # noqa
                continue
            if any(im.size > (6 << 20) for im in files.values()):
                continue
            add(cls, base=r, mut=["none"])
            for _ in range(12):
                add(cls, base=r, mut=gen_mutation(rng, files))
            if cls == "c03" and b % 2 == 0:
                # a virtual size that ends in the middle of a logical sector (the last, partial sector must not stall the read loop)
                r2 = copy.deepcopy(r)
                r2["layers"][0]["size"] += rng.choice([-1, 1, -(r2["layers"][0]["ss"] // 2), 17])
                if r2["layers"][0]["size"] > 0:
                    add(cls, base=r2, mut=["none"], variant=["size-not-sector-multiple"])
        if cls == "c03":
            # (the loop above is left as it was, draws included: the families below share its random stream.) Most of its VHDX bases
            # are dropped by the size filter since the writer got placement gaps / longer logs / a spare slot; bases that always fit:
            for b in range(nb):
                r = vhdx_small_base(vrng, m)
                files = m.build({"id": "x", "recipe": r, "align": 8192, "queries": []}).files
                add(cls, base=r, mut=["none"])
                for _ in range(12):
                    add(cls, base=r, mut=gen_mutation(vrng, files))
                if b % 2 == 0:
                    r2 = copy.deepcopy(r)
                    r2["layers"][0]["size"] += vrng.choice([-1, 1, -(r2["layers"][0]["ss"] // 2), 17])
                    if r2["layers"][0]["size"] > 0:
                        add(cls, base=r2, mut=["none"], variant=["size-not-sector-multiple"])
            # the same as a fixed grid of explicit shapes (vhdx_tail_grid)
            for r2, variant in vhdx_tail_grid(vrng, m, tier):
                add(cls, base=r2, mut=["none"], variant=variant)
    # ---- VHD / VDI: directed edge values for EVERY size-like field of the structures the readers use (footer, dynamic header, BAT
    # entries; VDI header, block map entries): counts, sizes and offsets that announce far more than the file holds must not drive
    # memory or time (bound: MEM_BASE + 64 * file bytes + 4 * largest request). Fixed bases, own random stream.
    frng = random.Random(f"C11/vhd-vdi-fields/{seed}/{tier}")
    for cls, bases in (("c04", _vhd_field_bases(frng, tier)), ("c05", _vdi_field_bases(frng, tier))):
        m = _mod(cls)
        for r in bases:
            files = m.build({"id": "x", "recipe": r, "align": 8192, "queries": []}).files
            fields, endian = m.header_fields(r)
            add(cls, base=r, mut=["none"], variant=["field-base"])
            for name, off, w in fields:
                old = int.from_bytes(files["a"].read_at(off, w).ljust(w, b"\0"), endian)
                for v in _edge_values(w, old, files["a"].size):
                    add(cls, base=r, mut=["patches", "a", [[off, v.to_bytes(w, endian).hex()]], f"{name}:={v:#x}"], variant=["field", name, f"{v:#x}"])
    # ---- qcow2 (own opener: the mutated files are used, not the pristine truth)
    import gen_qcow2
    for b in range(16 * mult):
        r = gen_qcow2.gen_recipe(rng, "quick", nsnaps=rng.choice([0, 0, 2]))
        files = gen_qcow2.Truth(r).files
        if any(im.size > (6 << 20) for im in files.values()):
            continue
        add("qcow2", base=r, mut=["none"])
        for _ in range(14):
            add("qcow2", base=r, mut=gen_mutation(rng, {"img": files["img"]}))
    # directed structural mutations (gen_qcow2.struct_mutations) of explicit base images (gen_qcow2.struct_bases: every kind of standard /
    # extended L2 entry, both sides of an L2-table boundary, backing file, snapshot, data file): every L1 entry, every L2 entry and the
    # unused slots next to them, the header and every snapshot-table entry get their edge values (offset 0 / end of file / past it /
    # unaligned, flags toggled, bitmap words 0 / all-ones / alloc-without-zero / overlapping, allocation bits without host cluster,
    # compressed descriptors with sector count 0 / max ...), each followed by reads that reach the mutated entry. quick: one entry per
    # (base, table, kind of entry, mutation); thorough: every entry. Own random stream: the cases above stay what they were.
    srng = random.Random(f"C11/qcow2-struct/{seed}/{tier}")
    for name, r in gen_qcow2.struct_bases(srng, tier):
        ms = gen_qcow2.struct_mutations(r)
        for label, patches, reads in (gen_qcow2.struct_pick(srng, ms) if tier == "quick" else ms):
            add("qcow2", base=r, mut=["patches", "img", patches, label], variant=["struct", name, label.split("]")[-1].lstrip(":")], reads=reads)
    # ---- bombs
    for fg in (128, 0, 1, 0x003FFFFFFFFFFFFF, 1 << 32, 127):
        for lba in (True, False):
            add("vmdk-bomb", variant=[fg, lba])
    for cb in (16, 18):
        add("qcow2-bomb", variant=[cb])
    # ---- Parallels snapshot graphs
    for i in range(40 * mult):
        n = rng.choice([1, 2, 3, 4, 5, 8])
        par = [rng.choice(["null", "null", "self", "rand", "rand", "rand", "missing", "next", "prev"]) for _ in range(n)]
        add("hdd-graph", variant={"n": n, "par": par, "perm": rng.getrandbits(16), "top": rng.choice([None, 0, n - 1])})
    # ---- vmtar: archives with hostile size / offset fields
    import gen_vmtar
    for i in range(10 * mult):
        r = gen_vmtar.gen_recipe(rng, "quick")
        if r["huge"] or r["gz"] or len(r["members"]) > 40:
            continue
        add("vmtar", base=r, mut=["none"])
        for _ in range(6):
            add("vmtar", base=r, mut=["tarfield", rng.randrange(max(1, len(r["members"]))), rng.choice(["size", "size", "offset", "chksum_ok_size"]),
                                      rng.choice([-512, -1024, -1, -(1 << 40), (1 << 63) - 1, 1 << 40, 0])])
    # ---- Hyper-V, envelope, key safe: byte-level mutations of generated inputs
    import gen_envelope
    import gen_hyperv
    import gen_vmx
    for i in range(12 * mult):
        r = gen_hyperv.gen_recipe(rng, "quick")
        data = gen_hyperv.build(copy.deepcopy(r))[0]
        im = Image()
        im.put_hex(0, data)
        im.finish(len(data))
        add("hyperv", base=r, mut=["none"])
        for _ in range(12):
            add("hyperv", base=r, mut=gen_mutation(rng, {"a": im}))
    # directed structural mutations (gen_hyperv.struct_mutations): every entry of every key table -- value entries, inline Free
    # entries, the trailing Free entry, the zero terminator -- gets size := 0 / 1 / < header / to-the-end / past-the-end / huge and
    # type := Free / Unknown (also together with size 0 / 1); every object-table entry gets type / offset (self reference, table 0,
    # end of file, 2^63 ..) / size / allocated edge values, every table header its count / signature. Small files: all of them;
    # otherwise everything that touches a Free entry or a terminator plus a sample of the rest.
    nb, cap = (7, 170) if tier == "quick" else (24, 300)
    for i in range(nb):
        r = gen_hyperv.gen_recipe(rng, "quick")
        if i % 2 == 0:                    # make sure inline Free entries and a trailing Free entry are present
            r = copy.deepcopy(r)
            for t in r["tables"][:2]:
                t["end"] = "fill"
                t["items"].insert(rng.randrange(len(t["items"]) + 1), ["free", rng.choice([21, 22, 64, 300]), rng.randrange(256)])
        ms = gen_hyperv.struct_mutations(copy.deepcopy(r))
        groups = [[m for m in ms if "@" in m[0] and ":value:" not in m[0]],       # Free entries, trailing Free entry, zero terminator
                  [m for m in ms if ":value:" in m[0]],                           # value entries
                  [m for m in ms if "@" not in m[0]]]                             # table headers, object tables
        pick = []
        for grp, share in zip(groups, (0.4, 0.3, 0.3)):
            rng.shuffle(grp)
            pick += grp[: int(cap * share)]
        left = [m for grp in groups for m in grp[int(cap * 0.4):]]
        pick += left[: cap - len(pick)]
        for label, patches in pick:
            add("hyperv", base=r, mut=["patches", "a", patches, label], variant=["struct", label.split(":", 1)[1] if "@" in label else label])
    # object tables that list their successor several times (no cycle): each table must still be loaded once
    for depth in (16, 20, 24, 28):
        r = gen_hyperv.gen_recipe(rng, "quick")
        r = copy.deepcopy(r)
        r["objs"] = [o for o in r["objs"] if o[1] != "ot"] + [[k, "ot", k + 1] for k in range(depth) for _ in range(rng.choice([2, 2, 3]))]
        add("hyperv", base=r, mut=["none"], variant=["repeated-object-table-references", depth])
    for i in range(4 * mult):
        r = gen_envelope.gen_recipe(rng, "quick")
        data = gen_envelope.build(r)["envelope"]
        im = Image()
        im.put_hex(0, data)
        im.finish(len(data))
        for _ in range(10):
            add("envelope", base=r, mut=gen_mutation(rng, {"a": im}))
    for i in range(4 * mult):
        r = gen_vmx.gen_recipe(rng, "quick")
        text = gen_vmx.build(r)["text"].encode()
        im = Image()
        im.put_hex(0, text)
        im.finish(len(text))
        for _ in range(10):
            add("vmx", base=r, mut=gen_mutation(rng, {"a": im}))
    return cases


# --------------------------------------------------------------------------- build

def _hdd_xml(v):
    n, par = v["n"], v["par"]
    gid = lambda i: "{%08x-0000-4000-8000-%012x}" % (0xABC00000 + i, i + 1)
    null = "{00000000-0000-0000-0000-000000000000}"
    order = list(range(n))
    random.Random(v["perm"]).shuffle(order)
    shots = []
    for i in order:
        p = par[i]
        pg = {"null": null, "self": gid(i), "missing": gid(n + 7), "next": gid((i + 1) % n), "prev": gid((i - 1) % n)}.get(p) or gid(random.Random(v["perm"] + i).randrange(n))
        shots.append(f"<Shot><GUID>{gid(i)}</GUID><ParentGUID>{pg}</ParentGUID></Shot>")
    top = f"<TopGUID>{gid(v['top'])}</TopGUID>" if v["top"] is not None else ""
    imgs = "".join(f"<Image><GUID>{gid(i)}</GUID><Type>Compressed</Type><File>d.{i}.hds</File></Image>" for i in range(n))
    return ("<?xml version='1.0' encoding='UTF-8'?>\n<Parallels_disk_image Version=\"1.0\"><Disk_Parameters><Disk_size>2048</Disk_size></Disk_Parameters>"
            f"<StorageData><Storage><Start>0</Start><End>2048</End><Blocksize>2048</Blocksize>{imgs}</Storage></StorageData>"
            f"<Snapshots>{top}{''.join(shots)}</Snapshots></Parallels_disk_image>"), [gid(i) for i in range(n)]


def _hdd_graph(v):
    """-> (null id, [(guid id, parent id)]) with small integers, for the model"""
    n, par = v["n"], v["par"]
    order = list(range(n))
    random.Random(v["perm"]).shuffle(order)
    shots = []
    for i in order:
        p = par[i]
        pid = {"null": 0, "self": i + 1, "missing": n + 8, "next": (i + 1) % n + 1, "prev": (i - 1) % n + 1}.get(p)
        if pid is None:
            pid = random.Random(v["perm"] + i).randrange(n) + 1
        shots.append((i + 1, pid))
    return 0, shots


def build(case):
    fam = case["fam"]
    info = {"branches": [fam, (case.get("mut") or ["-"])[0]], "in_scope": True, "mutated": (case.get("mut") or ["x"])[0] != "none"}
    files = {}
    b = Built(files, ["T"], info)
    if fam in DISK:
        m = _mod(fam)
        base = {"id": "x", "recipe": case["base"], "align": 8192, "queries": []}
        ib = m.build(base)
        b.files = apply_mutation(ib.files, case["mut"])
        b.inner, b.base = ib, base
        ib.files = b.files
    elif fam == "qcow2":
        import gen_qcow2
        t = gen_qcow2.Truth(case["base"])
        fl = dict(t.files)
        mut = case["mut"]
        b.files = apply_mutation(fl, mut)
        b.t = t
    elif fam == "vmdk-bomb":
        im, unit = vmdk_bomb(case["variant"][0], lba_hdr=case["variant"][1])
        b.files = {"a": im}
        b.unit = unit
    elif fam == "qcow2-bomb":
        im, unit = qcow2_bomb(cluster_bits=case["variant"][0])
        b.files = {"img": im}
        b.unit = unit
    elif fam == "vmtar":
        import gen_vmtar
        bb = gen_vmtar.build(case["base"])
        im = bb["image"]
        mut = case["mut"]
        if mut[0] == "tarfield":
            _, k, field, val = mut
            hdrs = [t["hdr"] for t in bb["members"]]
            if hdrs:
                hoff = hdrs[k % len(hdrs)]
                if bb["members"][k % len(hdrs)].get("name") and case["base"]["members"][k % len(hdrs)]["long"]:
                    hoff = None            # keep it simple: only members whose own header starts the record
                if hoff is not None:
                    h = bytearray(im.read_at(hoff, 512))
                    if field in ("size", "chksum_ok_size"):
                        v = val if val >= 0 else (256 ** 11 + val)
                        h[124:136] = (b"\x80" if val >= 0 else b"\xff") + (v % 256 ** 11).to_bytes(11, "big")
                    else:
                        struct.pack_into("<I", h, 496, val & 0xFFFFFFFF)
                    h[148:156] = b" " * 8
                    s = sum(h)
                    h[148:156] = b"%06o\0 " % s
                    im = im.copy().patch(hoff, bytes(h))
        b.files = {"a": im}
    elif fam in ("hyperv", "envelope", "vmx"):
        if fam == "hyperv":
            import gen_hyperv
            data = gen_hyperv.build(copy.deepcopy(case["base"]))[0]
        elif fam == "envelope":
            import gen_envelope
            bb = gen_envelope.build(case["base"])
            data = bb["envelope"]
            b.key, b.aad = bb["key"], bb["aad"]
        else:
            import gen_vmx
            bb = gen_vmx.build(case["base"])
            data = bb["text"].encode()
            b.passphrase = bb["passphrase"]
        im = Image()
        im.put_hex(0, data)
        im.finish(len(data))
        b.files = apply_mutation({"a": im}, case["mut"])
    return b


# --------------------------------------------------------------------------- real code

def _reads(stream, size_hint=None):
    """a handful of reads; every call may raise (that is fine) — it must only come back"""
    out = []
    try:
        size = stream.size
    except Exception:  # noqa
        size = size_hint or 0
    size = size if isinstance(size, int) and 0 <= size < (1 << 62) else 0
    reqs = [(0, 512), (0, 65536), (max(0, size // 2 - 100), 70000), (max(0, size - 4096), 8192), (0, min(size, 1 << 20))]
    for off, n in reqs:
        try:
            stream.seek(off)
            out.append(len(stream.read(n)))
        except Exception as e:  # noqa
            out.append(type(e).__name__)
    return out, max(n for _, n in reqs)


def impl_run(case, built):
    import tracemalloc
    fam = case["fam"]
    files = built.files
    notes = {}
    maxreq = 1 << 20
    # make sure imports are not counted
    import dissect.hypervisor.descriptor.hyperv  # noqa
    import dissect.hypervisor.descriptor.vmx  # noqa
    import dissect.hypervisor.disk.hdd  # noqa
    import dissect.hypervisor.disk.qcow2  # noqa
    import dissect.hypervisor.disk.vdi  # noqa
    import dissect.hypervisor.disk.vhd  # noqa
    import dissect.hypervisor.disk.vhdx  # noqa
    import dissect.hypervisor.disk.vmdk  # noqa
    import dissect.hypervisor.util.envelope  # noqa
    import dissect.hypervisor.util.vmtar  # noqa
    tracemalloc.start()
    try:
        try:
            if fam in DISK:
                m = _mod(fam)
                s = m.open_impl(built.base, built.inner)
                notes["reads"], maxreq = _reads(s)
            elif fam in ("qcow2", "qcow2-bomb"):
                from dissect.hypervisor.disk.qcow2 import QCow2
                bk = None
                if fam == "qcow2":
                    import gen_qcow2
                    t = built.t
                    bk = gen_qcow2.open_impl(t.backing_truth) if t.backing_truth else (t.backing_img.open() if t.backing_img is not None else None)
                if case.get("reads"):
                    # directed structural mutations of small images: a stalled run iterator is recognised after 10 s already (the
                    # worker's alarm is re-armed to the shorter period; it raises the worker's own timeout)
                    import signal
                    if signal.getitimer(signal.ITIMER_REAL)[0] > 10.0:
                        signal.setitimer(signal.ITIMER_REAL, 10.0)
                q = QCow2(files["img"].open(), data_file=files["data"].open() if "data" in files else None, backing_file=bk)
                notes["reads"], maxreq = _reads(q)
                views = {0: q}
                dr = []
                for k, off, n in case.get("reads") or []:      # reads that reach the mutated table entry (active image / snapshot k-1)
                    try:
                        if k not in views:
                            views[k] = q.snapshots[k - 1].open()
                        views[k].seek(off)
                        dr.append(len(views[k].read(n)))
                    except Exception as e:  # noqa
                        views.setdefault(k, None)
                        dr.append(type(e).__name__)
                    maxreq = max(maxreq, n)
                if dr:
                    notes["directed"] = dr
                try:
                    for sn in q.snapshots[:4]:
                        r2, _ = _reads(sn.open())
                        notes.setdefault("snap", []).append(r2[:2])
                except Exception as e:  # noqa
                    notes["snap_err"] = type(e).__name__
            elif fam == "vmdk-bomb":
                from dissect.hypervisor.disk.vmdk import VMDK
                v = VMDK(files["a"].open("bomb.vmdk"))
                notes["reads"], maxreq = _reads(v)
            elif fam == "hdd-graph":
                import tempfile
                from pathlib import Path

                from dissect.hypervisor.disk.hdd import Descriptor
                xml, guids = _hdd_xml(case["variant"])
                with tempfile.TemporaryDirectory(prefix="hvc11.") as d:
                    p = Path(d) / "DiskDescriptor.xml"
                    p.write_text(xml)
                    desc = Descriptor(p)
                res = []
                from uuid import UUID
                for g in guids:
                    try:
                        res.append(len(desc.get_snapshot_chain(UUID(g))))
                    except Exception as e:  # noqa
                        res.append(type(e).__name__)
                notes["chains"] = res
            elif fam == "vmtar":
                import hashlib  # noqa
                from dissect.hypervisor.util import vmtar
                tf = vmtar.open(fileobj=files["a"].open(), mode="r")
                ms = tf.getmembers()
                n = 0
                for ti in ms[:50]:
                    if ti.isreg() and 0 <= ti.size <= (1 << 20):
                        try:
                            n += len(tf.extractfile(ti).read())
                        except Exception:  # noqa
                            pass
                notes["members"] = len(ms)
            elif fam == "hyperv":
                from dissect.hypervisor.descriptor.hyperv import HyperVFile
                HyperVFile(files["a"].open()).as_dict()
            elif fam == "envelope":
                from dissect.hypervisor.util.envelope import Envelope
                Envelope(files["a"].open()).decrypt(built.key, built.aad)
            elif fam == "vmx":
                from dissect.hypervisor.descriptor.vmx import VMX
                im = files["a"]
                v = VMX.parse(im.read_at(0, im.size).decode("utf-8", "replace"))
                v.unlock_with_phrase(built.passphrase)
        except MemoryError:
            notes["oom"] = True
        except RecursionError:
            notes["recursion"] = True
        except Exception as e:  # noqa
            notes["exc"] = f"{type(e).__name__}: {e}"[:160]
        _, peak = tracemalloc.get_traced_memory()
    finally:
        tracemalloc.stop()
    bound = MEM_BASE + 64 * real_bytes(files) + 4 * maxreq
    ans = "T"
    if notes.get("oom"):
        ans = "OOM"
    elif peak > bound:
        ans = f"MEM"
        notes["peak"] = peak
        notes["bound"] = bound
    return {"answers": [ans], "errors": {k: str(v)[:200] for k, v in notes.items()}, "peak": peak}


# --------------------------------------------------------------------------- model

def model_lines(case, built):
    fam = case["fam"]
    ops = "o0:512 o0:65536 o100000:70000"
    if fam in DISK:
        m = _mod(fam)
        return core.file_lines(built.files) + [m.open_line(built.base, built.inner), m.stream_prefix(built.base, built.inner) + " " + ops]
    if fam == "vmdk-bomb":
        return core.file_lines(built.files) + ["vmdk.open a", "vmdk.stream 8192 1 a " + ops]
    if fam == "hdd-graph":
        null, shots = _hdd_graph(case["variant"])
        return [f"hdd.chain {null} {g} " + " ".join(f"{a}>{p}" for a, p in shots) for g, _ in sorted(shots)]
    if fam == "vmtar":
        return core.file_lines(built.files) + ["vmtar.list a 1"]
    if fam == "hyperv":
        return core.file_lines(built.files) + ["hyperv.tree a"]
    return []


def model_parse(case, built, out):
    if out is None:
        return {"answers": None, "wf": None}
    bad = [l for l in out if "nonterm" in l]
    return {"answers": ["NONTERM"] if bad else ["T"], "wf": True, "raw": [l[:60] for l in out[:3]]}


def nontrivial(case, built, model):
    return built.info["mutated"] or case["fam"] in ("vmdk-bomb", "qcow2-bomb", "hdd-graph") or bool(case.get("variant"))


def search(seed, broken, budget):
    return generate(seed + 77, "thorough")[: min(budget, 3000)]
