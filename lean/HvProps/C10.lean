/-
  C10 — descriptor-driven multi-extent assembly and size accounting.
-/
import Hv.VmdkDesc
import Hv.Vmdk
import Hv.Hdd
import Hv.Concat
import HvProofs.Concat
import HvProofs.VmdkDescRT
import HvProofs.VmdkDescParse
import HvProofs.ConcatSparse
namespace Hv.C10
open Hv Hv.VmdkDesc Hv.Concat

/-- **wiring_total**: every data-bearing extent kind the property names is accepted by the
    extent grammar (the regex translated from the live pattern) *and* mapped to a disk by
    `VMDK.__init__`. -/
theorem wiring_total :
    ∀ ty ∈ ["FLAT", "VMFS", "SPARSE", "VMFSSPARSE", "SESPARSE"],
      (parseExtentLine ("RW 2048 " ++ ty ++ " \"disk-f001.vmdk\"").toList).map (fun e => (e.type, wire e.type))
        = some (ty.toList, if ty = "FLAT" ∨ ty = "VMFS" then Wire.flat else Wire.sparse) := by
  decide

/-! ### the extent-line grammar

  `parseExtentLine` is the model of `RE_EXTENT_DESCRIPTOR.search(line)` + `ExtentDescriptor.__post_init__`:
  a generic backtracking matcher (`Hv.Regex.matchRe`, fuel-bounded) run on the AST that `harness/extract.py`
  translates from the live pattern on every run.  `parseExtentLine_direct` (`Hv/VmdkDescEnc.lean`) is a direct
  recursive-descent parser without regex, fuel or capture positions; it cuts the line into its written pieces
  (`Raw`).  The two are **equal on every line** — the proof (`HvProofs/Regex.lean`, `HvProofs/VmdkDesc.lean`)
  reads the extracted AST fuel-free (`sem_RE`; it stops compiling when the pattern changes upstream) and
  determinises the backtracking stage by stage. -/

/-- **extent_line_direct_eq**: the regex model is the direct parser, for all lines (any characters, any length) -/
theorem extent_line_direct_eq (line : Str) : parseExtentLine line = parseExtentLine_direct line :=
  parseExtentLine_eq_direct line

/-- **extent_line_roundtrip**: for every abstract extent in the decidable class `wfExtent`
    (access ∈ {RW, RDONLY, NOACCESS}; any sector count; type ∈ the eight kinds of the pattern; optional file name:
    non-empty, no newline, no `"` as first or last character — spaces, `=`, `#`, inner `"`, any Unicode allowed;
    optional start sector; optional partition uuid / device identifier: non-empty, no space character, no `"`,
    a device identifier only after a uuid, and without a start sector the uuid is not all digits)
    parsing the printed line gives back exactly the extent. -/
theorem extent_line_roundtrip (e : ExtentSpec) (h : wfExtent e = true) :
    parseExtentLine (printExtentLine e) = some e.toExtent := by
  rw [parseExtentLine_eq_direct, parseExtentLine_direct, ← raw_line,
    parseRaw_complete e.raw (wf_valid e h).1 (wf_valid e h).2]
  show e.raw.toExtent e.raw.line = _
  rw [raw_toExtent e h]
  rfl

/-- the same for pieces written with any space characters (`\s`: tab, NBSP, …) and any Unicode digits: a valid,
    canonically written `Raw` parses to its own fields -/
theorem extent_line_roundtrip_raw (F : Raw) (hv : F.validb = true) (hc : F.canonb = true) :
    parseExtentLine F.line = F.toExtent F.line := by
  rw [parseExtentLine_eq_direct, parseExtentLine_direct, parseRaw_complete F hv hc]

/-- **extent_line_fields_exact** (the converse): a line the parser accepts *is* the concatenation of the pieces
    `access \s sectors \s type [\s "name"] [\s start] [\s uuid] [\s dev]` — the whole line, in this order, single
    space characters between them, every piece in its class (`validb`) — and the returned fields are exactly
    these pieces: the name is the full text between the first `"` and the last one (not cut at an inner space,
    `=`, `#` or `"`), the numbers are the base-10 values of the complete digit runs. -/
theorem extent_line_fields_exact (line : Str) (x : Extent) (h : parseExtentLine line = some x) :
    ∃ F : Raw, F.line = line ∧ F.validb = true ∧
      x.raw = line ∧ x.access = F.access ∧ parseInt F.sectors = some x.sectors ∧ x.type = F.type ∧
      x.filename = F.filename.map (fun p => stripChars ['"'] p.2) ∧
      (match F.start with
       | none => x.start = none
       | some p => ∃ n, parseInt p.2 = some n ∧ x.start = some n) ∧
      x.uuid = F.uuid.map (·.2) ∧ x.dev = F.dev.map (·.2) := by
  rw [parseExtentLine_eq_direct, parseExtentLine_direct] at h
  cases hp : parseRaw line with
  | none => rw [hp] at h; cases h
  | some F =>
    rw [hp] at h
    obtain ⟨hl, hv⟩ := parseRaw_sound line F hp
    refine ⟨F, hl, hv, ?_⟩
    have hst : pieceOk isDg F.start = true := by
      simp only [Raw.validb, Bool.and_eq_true] at hv
      exact hv.1.1.2
    have hfn : namePieceOk F.filename = true := by
      simp only [Raw.validb, Bool.and_eq_true] at hv
      exact hv.1.1.1.2
    simp only [Raw.toExtent] at h
    cases hs : parseInt F.sectors with
    | none => rw [hs] at h; cases h
    | some n =>
      rw [hs] at h
      have hfn' : F.filename.map (fun p => if p.2.isEmpty then p.2 else stripChars ['"'] p.2)
          = F.filename.map (fun p => stripChars ['"'] p.2) := by
        cases hf : F.filename with
        | none => rfl
        | some p =>
          obtain ⟨w, t⟩ := p
          rw [hf] at hfn
          cases t with
          | nil => simp [namePieceOk] at hfn
          | cons _ _ => rfl
      rw [hfn'] at h
      cases hF : F.start with
      | none =>
        rw [hF] at h
        simp only [Option.bind_eq_bind, Option.bind_some, Option.pure_def, Option.some.injEq] at h
        subst h
        exact ⟨rfl, rfl, rfl, rfl, rfl, rfl, rfl, rfl⟩
      | some p =>
        obtain ⟨w, t⟩ := p
        rw [hF] at h hst
        have hne : t.isEmpty = false := (pieceOk_some hst).2.1
        simp only [hne, Bool.false_eq_true, if_false, Option.bind_eq_bind, Option.bind_some] at h
        cases ht : parseInt t with
        | none => rw [ht] at h; cases h
        | some m =>
          rw [ht] at h
          simp only [Option.map_some, Option.bind_some, Option.pure_def, Option.some.injEq] at h
          subst h
          exact ⟨rfl, rfl, rfl, rfl, rfl, ⟨m, ht, rfl⟩, rfl, rfl⟩

/-- decimal digits are read back in full: `int(str(n)) = n` for the model's `parseInt` and the printer's `natDigits` -/
theorem parseInt_natDigits (n : Nat) : parseInt (natDigits n) = some n := (natDigits_spec n).2.2

/-! non-vacuity: a hosted-sparse extent whose name has spaces, `=`, `#`, an inner quote and non-ASCII characters,
    with start sector, uuid and device identifier; a FLAT extent with offset; a ZERO extent without name -/
def exLine1 : ExtentSpec :=
  { access := "RW".toList, sectors := 4192256, type := "SPARSE".toList,
    filename := some "my disk = #1 \"é\" x.vmdk".toList, start := some 0, uuid := some "part-uuid".toList,
    dev := some "dev=1".toList }
def exLine2 : ExtentSpec :=
  { access := "RDONLY".toList, sectors := 8, type := "FLAT".toList, filename := some "x.vmdk".toList, start := some 0 }
def exLine3 : ExtentSpec := { access := "NOACCESS".toList, sectors := 100, type := "ZERO".toList }

example : wfExtent exLine1 = true ∧ wfExtent exLine2 = true ∧ wfExtent exLine3 = true := by decide

example : printExtentLine exLine2 = "RDONLY 8 FLAT \"x.vmdk\" 0".toList := by decide
example : printExtentLine exLine3 = "NOACCESS 100 ZERO".toList := by decide

example : (parseExtentLine (printExtentLine exLine1)).map (fun x => (x.sectors, x.filename, x.start, x.uuid, x.dev))
    = some (4192256, some "my disk = #1 \"é\" x.vmdk".toList, some 0, some "part-uuid".toList, some "dev=1".toList) := by
  rw [extent_line_roundtrip exLine1 (by decide)]
  rfl

/-- outside the class the round trip really fails: an all-digit uuid without a start sector is read as the start sector -/
example : (parseExtentLine_direct "RW 8 FLAT \"a\" 123".toList).map (fun x => (x.start, x.uuid)) = some (some 123, none) := by
  decide

/-- … and a `"` in a later field extends the quoted name (greedy `.+`) -/
example : (parseExtentLine_direct "RW 8 FLAT \"a\" 5 u\"".toList).map (fun x => (x.filename, x.start))
    = some (some "a\" 5 u".toList, none) := by
  decide

/-! ### VMDK: the extent walk

  `Contiguous 0 ds`: disk `i` has `sector_offset = Σ_{j<i} sector_count_j`, `sector_count > 0`,
  `size = sector_count * 512` (`Hv.Concat`).  `ReadAs ds ps`: disk `i` has the length of part `i`
  and its `read_sectors` returns the part's bytes for every in-range request. -/

/-- closed form of `_disk_offsets` for such a layout: the start sectors of disks 1 … k-1 -/
theorem diskOffsets_closed_form (v : Vmdk.Vmdk) (hc : Contiguous 0 v.disks.toList) :
    v.diskOffsets = v.disks.toList.tail.map (·.sectorOffset) :=
  diskOffsets_contiguous v hc

/-- **bisect_finds_extent**: `bisect_right(self._disk_offsets, sector)` is the index of the
    extent that contains `sector`, for every sector of the disk. -/
theorem bisect_finds_extent (v : Vmdk.Vmdk) (hc : Contiguous 0 v.disks.toList) (sector : Nat)
    (hs : sector < (v.disks.toList.map (·.sectorCount)).sum) :
    ∃ hi : Vmdk.bisectRight v.diskOffsets sector < v.disks.size,
      v.disks[Vmdk.bisectRight v.diskOffsets sector].sectorOffset ≤ sector ∧
      sector < v.disks[Vmdk.bisectRight v.diskOffsets sector].sectorOffset
                + v.disks[Vmdk.bisectRight v.diskOffsets sector].sectorCount := by
  rw [diskOffsets_contiguous v hc]
  cases hl : v.disks.toList with
  | nil => rw [hl] at hs; simp at hs
  | cons d ds =>
    rw [hl] at hc hs
    obtain ⟨e, he, hlo, hhi⟩ := bisect_contig sector ds d 0 hc (Nat.zero_le _) (by simpa [sectorsOf] using hs)
    simp only [List.tail_cons]
    rw [← hl, Array.getElem?_toList] at he
    obtain ⟨hi, hget⟩ := Array.getElem?_eq_some_iff.mp he
    exact ⟨hi, by rw [hget]; exact ⟨hlo, hhi⟩⟩

/-- **vmdk_concat_read_correct**: `VMDK.read_sectors(sector, count)` returns exactly the bytes
    of the concatenation of the extents — for requests inside one extent, crossing any number
    of extent boundaries, and ending exactly at the end of the last extent. -/
theorem vmdk_concat_read_correct (v : Vmdk.Vmdk) (ps : List Part) (hc : Contiguous 0 v.disks.toList)
    (hr : ReadAs v.disks.toList ps) (sector count : Nat) (h : sector + count ≤ total ps) :
    v.readSectors sector count = .ok (slice (concat ps) (sector * 512) (count * 512)) :=
  readSectors_concat v ps hc hr sector count h

/-- `VMDK._read` (the stream backend) on a sector-aligned offset: whole sectors of the concatenation -/
theorem vmdk_concat_stream_read (v : Vmdk.Vmdk) (ps : List Part) (hc : Contiguous 0 v.disks.toList)
    (hr : ReadAs v.disks.toList ps) (offset length : Nat) (ha : offset % 512 = 0)
    (h : offset + length ≤ total ps * 512) :
    v.read offset length = .ok (slice (concat ps) offset ((length + 511) / 512 * 512)) := by
  unfold Vmdk.Vmdk.read
  have hS : Vmdk.S = 512 := rfl
  simp only [hS]
  have hc' : (length + 512 - 1) / 512 = (length + 511) / 512 := rfl
  rw [hc', readSectors_concat v ps hc hr _ _ (by omega)]
  congr 2
  omega

/-- **size accounting**: `VMDK.__init__` gives disk `i` the offset `Σ_{j<i} sector_count_j` and the
    stream the size `Σ size_i` — for *arbitrary* extent constructors -/
theorem vmdk_assemble_size (mk : List (Nat → Vmdk.Disk)) :
    (Vmdk.assemble mk).disks.toList = place 0 mk ∧
    (Vmdk.assemble mk).size = ((Vmdk.assemble mk).disks.toList.map (·.size)).sum :=
  ⟨assemble_disks mk, assemble_size mk⟩

/-- `assemble` of constructors that honour the offset they are given produces a `Contiguous`
    layout, and the stream size is `512 ×` the number of sectors -/
theorem vmdk_assemble_contiguous (mk : List (Nat → Vmdk.Disk)) (h : ∀ f ∈ mk, GoodCtor f) :
    Contiguous 0 (Vmdk.assemble mk).disks.toList ∧
    (Vmdk.assemble mk).size = ((Vmdk.assemble mk).disks.toList.map (·.sectorCount)).sum * 512 := by
  have hc : Contiguous 0 (Vmdk.assemble mk).disks.toList := by
    rw [assemble_disks]; exact place_contiguous mk 0 h
  exact ⟨hc, by rw [assemble_size, contiguous_size _ 0 hc]; rfl⟩

/-- **flat extents, end to end**: a descriptor's FLAT / VMFS extents `(file, sectors)`, each file
    holding its extent, opened as `RawDisk(fh, sectors * 512)` and assembled by `VMDK.__init__`,
    read as the concatenation of the files' first `sectors * 512` bytes; the size is the sum. -/
theorem vmdk_flat_extents_read_correct (exts : List (File × Nat))
    (h : ∀ e ∈ exts, 0 < e.2 ∧ e.2 * 512 ≤ e.1.size) (sector count : Nat)
    (hin : sector + count ≤ total (flatParts exts)) :
    (Vmdk.assemble (flatCtors exts)).readSectors sector count
        = .ok (slice (concat (flatParts exts)) (sector * 512) (count * 512)) ∧
    (Vmdk.assemble (flatCtors exts)).size = total (flatParts exts) * 512 := by
  have hg := flat_good exts h
  have hc := (vmdk_assemble_contiguous _ hg).1
  have hr : ReadAs (Vmdk.assemble (flatCtors exts)).disks.toList (flatParts exts) := by
    rw [assemble_disks]; exact flat_readAs exts 0 h
  refine ⟨readSectors_concat _ _ hc hr sector count hin, ?_⟩
  rw [(vmdk_assemble_contiguous _ hg).2, ← readAs_sectors _ _ hr]; rfl

/-! non-vacuity: three flat extents of 2, 1 and 3 sectors -/
def exA : File := ⟨1024, fun i => UInt8.ofNat (i % 251)⟩
def exB : File := ⟨600, fun i => UInt8.ofNat (7 * i % 256)⟩      -- 88 trailing bytes are not part of the extent
def exC : File := ⟨1536, fun i => UInt8.ofNat (255 - i % 256)⟩
def exExts : List (File × Nat) := [(exA, 2), (exB, 1), (exC, 3)]
def exVmdk : Vmdk.Vmdk := Vmdk.assemble (flatCtors exExts)

example : ∀ e ∈ exExts, 0 < e.2 ∧ e.2 * 512 ≤ e.1.size := by decide

example : Contiguous 0 exVmdk.disks.toList :=
  ⟨rfl, by decide, rfl, rfl, by decide, rfl, rfl, by decide, rfl, trivial⟩

example : exVmdk.diskOffsets = [2, 3] ∧ exVmdk.size = 3072 := by decide

/-- a request crossing both extent boundaries (sectors 1 … 3 of 6) evaluates to the pieces -/
example : exVmdk.readSectors 1 3 = .ok (slice exA.byte 512 512 ++ slice exB.byte 0 512 ++ slice exC.byte 0 512) := by
  decide +kernel

/-- … and the tail of the disk, ending exactly at the end of the last extent, by the theorem -/
example : exVmdk.readSectors 2 4 = .ok (slice (concat (flatParts exExts)) 1024 2048) :=
  (vmdk_flat_extents_read_correct exExts (by decide) 2 4 (by decide)).1

/-! ### `ReadAs` instantiated for sparse extents (C02) and for mixed descriptors -/

/-- **vmdk_mixed_extents_read_correct**: a descriptor's extents after the wiring — FLAT / VMFS files holding their
    extent, hosted-sparse / VMFS-sparse / SE-sparse extents inside the hypotheses of C02 `sparse_read_correct`
    (`WF`, uncompressed; any capacity, grain size, grain states; with or without parent), stream-optimised extents inside
    C02 `compressed_read_correct` (`WFc`), and extents of the kinds the
    grammar accepts but `VMDK.__init__` does not map (ZERO / VMFSRDM / VMFSRAW, finding D20) — assembled by
    `VMDK.__init__`: every in-range `read_sectors` (inside one extent, across any number of boundaries between extents
    of different kinds, up to the very end) returns the concatenation of the **mapped** extents' contents, the size is
    their sum, and that sum is short of the sectors the descriptor declares by exactly the unwired extents. -/
theorem vmdk_mixed_extents_read_correct (exts : List Ext) (pc : Nat → UInt8) (h : ∀ e ∈ exts, e.OK pc)
    (sector count : Nat) (hin : sector + count ≤ total (extParts pc 0 exts)) :
    (Vmdk.assemble (extCtors exts)).readSectors sector count
        = .ok (slice (concat (extParts pc 0 exts)) (sector * 512) (count * 512)) ∧
    (Vmdk.assemble (extCtors exts)).size = total (extParts pc 0 exts) * 512 ∧
    total (extParts pc 0 exts) + unwiredSectors exts = declared exts := by
  have hg := ext_good pc exts h
  have hc := (vmdk_assemble_contiguous _ hg).1
  have hr : ReadAs (Vmdk.assemble (extCtors exts)).disks.toList (extParts pc 0 exts) := by
    rw [assemble_disks]; exact ext_readAs pc exts 0 h
  refine ⟨readSectors_concat _ _ hc hr sector count hin, ?_, total_extParts pc exts 0⟩
  rw [(vmdk_assemble_contiguous _ hg).2, ← readAs_sectors _ _ hr]; rfl

/-- **vmdk_sparse_extents_read_correct**: `twoGbMaxExtentSparse`-style descriptors — every extent a well-formed
    sparse extent (C02 `WF`, e.g. by `vmdk_wfb_sound`), extent `i` opened as `SparseDisk(fh_i, parent, Σ_{j<i} capacity_j)`:
    reads are the concatenation of the extents' guest contents, the size is `Σ capacity_i * 512`. -/
theorem vmdk_sparse_extents_read_correct (sps : List Vmdk.Sparse) (pc : Nat → UInt8)
    (h : ∀ sp ∈ sps, Vmdk.WF sp ∧ Vmdk.ParentOK sp pc ∧ 0 < sp.capacity)
    (sector count : Nat) (hin : sector + count ≤ (sps.map (·.capacity)).sum) :
    (Vmdk.assemble (sps.map sparseCtor)).readSectors sector count
        = .ok (slice (concat (sparseParts pc 0 sps)) (sector * 512) (count * 512)) ∧
    (Vmdk.assemble (sps.map sparseCtor)).size = (sps.map (·.capacity)).sum * 512 := by
  have hm := vmdk_mixed_extents_read_correct (sps.map Ext.sparse) pc (by
    intro e he
    obtain ⟨sp, hsp, rfl⟩ := List.mem_map.mp he
    exact h sp hsp) sector count (by rw [extParts_sparse, total_sparseParts]; exact hin)
  rw [extCtors_sparse, extParts_sparse, total_sparseParts] at hm
  exact ⟨hm.1, hm.2.1⟩

/-- without parents the parts are the extents' own guest contents `sp.guest` (what `vmdk.concatcheck` evaluates) -/
theorem vmdk_sparse_extents_noparent (sps : List Vmdk.Sparse) (pc : Nat → UInt8) (h : ∀ sp ∈ sps, sp.parent = none) :
    sparseParts pc 0 sps = sps.map (fun sp => ⟨sp.capacity, sp.guest (fun _ => 0)⟩) :=
  sparseParts_noparent pc sps 0 h

/-! non-vacuity: a hosted-sparse extent (capacity 3 sectors, grain size 2: grain 0 stored at sector 2, grain 1 absent)
    and the stream-optimised extent `exC` of C02, after a flat extent and a ZERO extent, before another flat extent;
    a request across all the boundaries -/
def exSFile : File := ⟨2048, fun p => if p = 512 then 2 else if p < 1024 then 0 else UInt8.ofNat (p % 251)⟩
def exS : Vmdk.Sparse :=
  { fh := exSFile, kind := .hosted, flags := 0, capacity := 3, grainSize := 2, gtSize := 2, gd := #[1],
    grainTablesOffset := 0, grainsOffset := 0, sectorOffset := 0, parent := none, inflate := fun _ _ => .error .other }
def exMixed : List Ext := [.flat exA 2, .unwired 8, .sparse exS, .compressed Vmdk.exC Vmdk.exC.contentOf, .flat exC 3]

theorem exS_wf : Vmdk.WF exS := Vmdk.wfbU_sound exS (by decide)
set_option maxRecDepth 100000 in
theorem exC_wfc : Vmdk.WFc Vmdk.exC Vmdk.exC.contentOf := Vmdk.wfbC_sound _ (by decide)
theorem exC_parent : Vmdk.ParentOK Vmdk.exC (fun _ => 0) := by intro p hp; cases hp
theorem exS_parent : Vmdk.ParentOK exS (fun _ => 0) := by intro p hp; cases hp

theorem exMixed_ok : ∀ e ∈ exMixed, e.OK (fun _ => 0) := by
  intro e he
  simp only [exMixed, List.mem_cons, List.not_mem_nil, or_false] at he
  rcases he with rfl | rfl | rfl | rfl | rfl
  · exact ⟨by decide, by decide⟩
  · trivial
  · exact ⟨exS_wf, exS_parent, by decide⟩
  · exact ⟨exC_wfc, exC_parent, by decide⟩
  · exact ⟨by decide, by decide⟩

example : total (extParts (fun _ => 0) 0 exMixed) = 10 ∧ declared exMixed = 18 := by decide

/-- sectors 1 … 8: the tail of the flat extent, the whole sparse extent (stored grain, then the absent one), the whole
    stream-optimised extent, and the head of the last flat extent -/
example : (Vmdk.assemble (extCtors exMixed)).readSectors 1 8
    = .ok (slice (concat (extParts (fun _ => 0) 0 exMixed)) 512 4096) :=
  (vmdk_mixed_extents_read_correct exMixed _ exMixed_ok 1 8 (by decide)).1

/-- the sparse extent's bytes inside the concatenation: stored grain from file offset 1024, absent grain zeros -/
example : concat (extParts (fun _ => 0) 0 exMixed) 1024 = exSFile.byte 1024 ∧
    concat (extParts (fun _ => 0) 0 exMixed) (1024 + 1023) = exSFile.byte 2047 ∧
    concat (extParts (fun _ => 0) 0 exMixed) (1024 + 1024) = 0 := by decide

example : (Vmdk.assemble ([exS, exS].map sparseCtor)).size = 3072 :=
  (vmdk_sparse_extents_read_correct [exS, exS] (fun _ => 0)
    (by intro sp hsp
        simp only [List.mem_cons, List.not_mem_nil, or_false, or_self] at hsp
        subst hsp
        exact ⟨exS_wf, exS_parent, by decide⟩) 0 0 (by decide)).2

/-! ### Parallels `StorageStream`

  `Tiles 0 l ps` (`Hv.Concat`): the storages, *in the order given*, tile `[0, end)` without gaps
  (`start_0 = 0`, `start_{i+1} = end_i`, `start_i < end_i`) and stream `i` reads as part `i`.
  Such a list is already sorted by `start` with strictly increasing keys, so the stable sort of
  `StorageStream.__init__` is the identity on it (`sortByStart_tiles`, used inside). -/

theorem storage_sort_identity (l : List Hdd.Storage) (ps : List Part) (ht : Tiles 0 l ps) :
    Hdd.sortByStart l = l :=
  sortByStart_tiles l ps 0 ht

/-- size: `end` of the last storage `× 512` = total sectors `× 512` -/
theorem storage_concat_size (l : List Hdd.Storage) (ps : List Part) (ht : Tiles 0 l ps) :
    (Hdd.mk l).size = total ps * 512 ∧
    (Hdd.mk l).size = (match l.getLast? with | some s => s.end_ * 512 | none => 0) := by
  have h1 := mk_tiles l ps ht
  refine ⟨by rw [h1], ?_⟩
  show (match (Hdd.sortByStart l).getLast? with | some s => s.end_ * 512 | none => 0) = _
  rw [sortByStart_tiles l ps 0 ht]

/-- **storage_concat_read_correct**: `StorageStream._read(offset, length)` for a sector-aligned
    `offset` and `offset + length ≤ size` returns the bytes of the concatenation from `offset`,
    in whole sectors (`count = ceil(length / 512)`; the buffered stream layer above trims). -/
theorem storage_concat_read_correct (l : List Hdd.Storage) (ps : List Part) (hne : l ≠ []) (ht : Tiles 0 l ps)
    (offset length : Nat) (ha : offset % 512 = 0) (hin : offset + length ≤ total ps * 512) :
    (Hdd.mk l).read offset length = .ok (slice (concat ps) offset ((length + 511) / 512 * 512)) :=
  storage_read_concat l ps hne ht offset length ha hin

/-- for a whole number of sectors: exactly the requested bytes -/
theorem storage_concat_read_aligned (l : List Hdd.Storage) (ps : List Part) (hne : l ≠ []) (ht : Tiles 0 l ps)
    (offset length : Nat) (ha : offset % 512 = 0) (hl : length % 512 = 0) (hin : offset + length ≤ total ps * 512) :
    (Hdd.mk l).read offset length = .ok (slice (concat ps) offset length) := by
  rw [storage_read_concat l ps hne ht offset length ha hin]
  congr 2
  omega

/-- in general: the requested bytes are a prefix of what is returned -/
theorem storage_concat_read_prefix (l : List Hdd.Storage) (ps : List Part) (hne : l ≠ []) (ht : Tiles 0 l ps)
    (offset length : Nat) (ha : offset % 512 = 0) (hin : offset + length ≤ total ps * 512) :
    ∃ bs, (Hdd.mk l).read offset length = .ok bs ∧ bs.take length = slice (concat ps) offset length :=
  ⟨_, storage_read_concat l ps hne ht offset length ha hin, slice_take _ _ _ _ (by omega)⟩

/-- **any order in the descriptor**: `StorageStream.__init__` sorts the storages by `start`; when
    the *sorted* list (`sortByStart`, the transcription of `sorted(key=start)`) tiles `[0, end)`, the
    stream built from the list in any order reads as the concatenation, and its size is the sum -/
theorem storage_concat_read_any_order (l : List Hdd.Storage) (ps : List Part) (hne : ps ≠ [])
    (ht : Tiles 0 (Hdd.sortByStart l) ps)
    (offset length : Nat) (ha : offset % 512 = 0) (hin : offset + length ≤ total ps * 512) :
    (Hdd.mk l).read offset length = .ok (slice (concat ps) offset ((length + 511) / 512 * 512)) ∧
    (Hdd.mk l).size = total ps * 512 := by
  have e : Hdd.mk l = Hdd.mk (Hdd.sortByStart l) := by
    unfold Hdd.mk
    rw [storage_sort_identity (Hdd.sortByStart l) ps ht]
  have hne' : Hdd.sortByStart l ≠ [] := by
    intro h
    rw [h] at ht
    cases ps with
    | nil => exact hne rfl
    | cons p ps => exact ht
  rw [e]
  exact ⟨storage_concat_read_correct _ ps hne' ht offset length ha hin, (storage_concat_size _ ps ht).1⟩

/-- the executable layout checks the driver evaluates on every generated case are sound -/
theorem contiguousb_sound (ds : List Vmdk.Disk) (h : contiguousb 0 ds = true) : Contiguous 0 ds :=
  Concat.contiguousb_sound ds 0 h
theorem tilesb_sound (l : List Hdd.Storage) (ps : List Part) (h : tilesb 0 l ps = true) (hr : StreamsRead l ps) :
    Tiles 0 l ps := Concat.tilesb_sound l ps 0 h hr

/-! non-vacuity: three storages of 1, 2 and 1 sectors, given in tiling order -/
def exP : List Part := [⟨1, fun i => UInt8.ofNat (i % 251)⟩, ⟨2, fun i => UInt8.ofNat (3 * i % 256)⟩,
                        ⟨1, fun i => UInt8.ofNat (255 - i % 256)⟩]
def exStorages : List Hdd.Storage :=
  [⟨0, 1, fun off len => .ok (slice (fun i => UInt8.ofNat (i % 251)) off len)⟩,
   ⟨1, 3, fun off len => .ok (slice (fun i => UInt8.ofNat (3 * i % 256)) off len)⟩,
   ⟨3, 4, fun off len => .ok (slice (fun i => UInt8.ofNat (255 - i % 256)) off len)⟩]

theorem exTiles : Tiles 0 exStorages exP :=
  ⟨rfl, by decide, rfl, fun _ _ _ => rfl, rfl, by decide, rfl, fun _ _ _ => rfl,
   rfl, by decide, rfl, fun _ _ _ => rfl, trivial⟩

example : (Hdd.mk exStorages).size = 2048 := by decide

/-- a read across both storage boundaries evaluates to the pieces -/
example : (Hdd.mk exStorages).read 512 1536
    = .ok (slice (fun i => UInt8.ofNat (3 * i % 256)) 0 1024 ++ slice (fun i => UInt8.ofNat (255 - i % 256)) 0 512) := by
  decide +kernel

/-- … and an unaligned length over all three storages, by the theorem: whole sectors come back -/
example : (Hdd.mk exStorages).read 0 1900 = .ok (slice (concat exP) 0 2048) :=
  storage_concat_read_correct exStorages exP (by decide) exTiles 0 1900 (by decide) (by decide)


/-- the same storages listed in another order (as a shuffled DiskDescriptor.xml would) -/
example : (Hdd.mk [exStorages[2], exStorages[0], exStorages[1]]).read 0 1900 = .ok (slice (concat exP) 0 2048) :=
  (storage_concat_read_any_order [exStorages[2], exStorages[0], exStorages[1]] exP (by decide)
    (by show Tiles 0 exStorages exP; exact exTiles) 0 1900 (by decide) (by decide)).1

/-! ### `DiskDescriptor.parse` on a whole multi-line descriptor

  `parse` cuts the text at every `\n`, strips each line, drops empty lines and comments, hands lines that begin with
  `RW ` / `RDONLY ` / `NOACCESS ` to the extent grammar and treats the rest as `key = value` settings.  The two
  theorems below are about the *whole loop*, for any number of lines: the extent list is exactly the list of the
  extent lines **in the order in which they are listed** (nothing reordered, dropped, duplicated or merged by the
  settings / comment / blank lines in between), and `sectors` is the sum of their sector counts. -/

/-- **descriptor_extents_as_listed**: for every list of lines (any characters except the line feed that separates
    them), `parse` of the joined text returns the extents of the individual lines, in listed order, and the sum of
    their sector counts.  A line that the grammar rejects contributes nothing and disturbs nothing. -/
theorem descriptor_extents_as_listed (lines : List Str) (hne : lines ≠ []) (h : ∀ l ∈ lines, '\n' ∉ l) :
    (parse (joinLines lines)).extents = lines.filterMap lineExtent ∧
    (parse (joinLines lines)).sectors = ((lines.filterMap lineExtent).map (·.sectors)).sum := by
  rw [parse_eq_fold, splitOn_joinLines lines hne h]
  simpa using fold_extents lines ⟨[], [], [], 0⟩

/-- a descriptor as a writer lays it out: printed extents (`.inr`) between arbitrary other lines (`.inl`: settings,
    comments, blank lines, the disk data base — anything that is not itself an extent line) -/
def itemLine : Str ⊕ ExtentSpec → Str
  | .inl s => s
  | .inr e => printExtentLine e
def itemExtent : Str ⊕ ExtentSpec → Option ExtentSpec
  | .inl _ => none
  | .inr e => some e
def ItemOk : Str ⊕ ExtentSpec → Prop
  | .inl s => '\n' ∉ s ∧ lineExtent s = none
  | .inr e => wfExtent e = true

/-- **descriptor_roundtrip**: parsing the text of a descriptor whose extent lines were printed from the abstract
    extents `es` (class `wfExtent`), with any other lines before, between and after them, returns exactly `es` —
    same order, same fields (access, sectors, type, file name, start sector, uuid, device) — and
    `sectors = Σ es.sectors`.  Unbounded in the number of extents and of other lines. -/
theorem descriptor_roundtrip (items : List (Str ⊕ ExtentSpec)) (hne : items ≠ []) (h : ∀ it ∈ items, ItemOk it) :
    (parse (joinLines (items.map itemLine))).extents = (items.filterMap itemExtent).map ExtentSpec.toExtent ∧
    (parse (joinLines (items.map itemLine))).sectors = ((items.filterMap itemExtent).map (·.sectors)).sum := by
  have hl : ∀ l ∈ items.map itemLine, '\n' ∉ l := by
    intro l hl
    obtain ⟨it, hit, rfl⟩ := List.mem_map.mp hl
    cases it with
    | inl s => exact (h _ hit).1
    | inr e => exact print_no_nl e (h _ hit)
  have hf : (items.map itemLine).filterMap lineExtent = (items.filterMap itemExtent).map ExtentSpec.toExtent := by
    clear hne hl
    induction items with
    | nil => rfl
    | cons it its ih =>
      have hit := h it (by simp)
      have ih' := ih (fun x hx => h x (by simp [hx]))
      cases it with
      | inl s =>
        have e1 : lineExtent s = none := hit.2
        simp only [List.map_cons, List.filterMap_cons, itemLine, itemExtent, e1, ih']
      | inr e =>
        have e1 : lineExtent (printExtentLine e) = some e.toExtent := lineExtent_print e hit
        simp only [List.map_cons, List.filterMap_cons, itemLine, itemExtent, e1, ih']
  obtain ⟨h1, h2⟩ := descriptor_extents_as_listed (items.map itemLine) (by simpa using hne) hl
  rw [h1, h2, hf]
  refine ⟨rfl, ?_⟩
  simp [ExtentSpec.toExtent, Function.comp_def]

/-- non-vacuity: a three-extent descriptor with header settings, a comment, a blank line and a disk data base -/
def exItems : List (Str ⊕ ExtentSpec) :=
  [.inl "# Disk DescriptorFile".toList, .inl "version=1".toList, .inl "parentCID=ffffffff".toList, .inl [],
   .inr exLine1, .inl "# second".toList, .inr exLine2, .inr exLine3, .inl "ddb.adapterType = \"ide\"".toList]

example : ∀ it ∈ exItems, ItemOk it := by
  intro it hit
  simp only [exItems, List.mem_cons, List.mem_nil_iff, or_false] at hit
  rcases hit with h | h | h | h | h | h | h | h | h <;> subst h <;>
    first
    | exact ⟨by decide, by decide⟩
    | (show wfExtent _ = true; decide)

example : (parse (joinLines (exItems.map itemLine))).sectors = 4192256 + 8 + 100 :=
  (descriptor_roundtrip exItems (by decide) (by
    intro it hit
    simp only [exItems, List.mem_cons, List.mem_nil_iff, or_false] at hit
    rcases hit with h | h | h | h | h | h | h | h | h <;> subst h <;>
      first
      | exact ⟨by decide, by decide⟩
      | (show wfExtent _ = true; decide))).2

/-- **descriptor_settings_last_assignment_wins**: for every list of lines and every key, `descriptor.attr.get(k)`
    (and `descriptor.ddb.get(k)`) after `parse` is the value of the **last** line that assigns `k` in that dictionary —
    `None` when no line does.  Extent lines, comments and blank lines assign nothing; a `ddb.*` key never lands in
    `attr` and vice versa.  This is what `parentCID` / `parentFileNameHint` / `createType` lookups of `VMDK.__init__`
    rest on (C07 uses it for the parent link). -/
theorem descriptor_settings_last_assignment_wins (lines : List Str) (hne : lines ≠ []) (h : ∀ l ∈ lines, '\n' ∉ l)
    (k : Str) :
    dictGet (parse (joinLines lines)).attr k = (lines.filterMap (lineAssigns false k)).getLast? ∧
    dictGet (parse (joinLines lines)).ddb k = (lines.filterMap (lineAssigns true k)).getLast? := by
  rw [parse_eq_fold, splitOn_joinLines lines hne h]
  have := fold_dicts lines ⟨[], [], [], 0⟩ k
  simpa [dictGet] using this

example : dictGet (parse (joinLines ["parentCID=ffffffff".toList, "RW 8 FLAT \"a\" 0".toList,
    "parentCID = \"12ab\"".toList, "ddb.parentCID = \"x\"".toList])).attr "parentCID".toList = some "12ab".toList := by
  rw [(descriptor_settings_last_assignment_wins _ (by decide) (by decide) _).1]
  decide

end Hv.C10
