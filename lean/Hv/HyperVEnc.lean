/-
  Hv.HyperVEnc — a *writer* for VMCX/VMRS ("HyperVStorage" v0x400) files (specification side of C17's file-level round trip)
  and the decidable well-formedness of what it is given.  Mathlib-free (the driver imports it).

  Two levels:
  * `Phys` — the physical description: two file headers (any field values, so the inactive one may be garbage or zero),
    replay logs, object tables (entries of every type, allocated or not, pointing anywhere), key tables (header, stored
    entries, exact end or a zero terminator followed by anything), blobs (file-object contents, junk regions), each at an
    explicit offset; `Phys.file` lays the encodings out over a zero-filled file.  `Phys.WF` is decidable.
    `Phys.regTables` / `Phys.regFos` = what the object-table walk has to register (abstract breadth-first walk over the
    description; no bytes involved).
  * `Desc` — a `Phys` plus the tree it is meant to store; `Desc.WF` (decidable) adds the declarative relation between the
    registered tables and the tree (`Encodes` of DESIGN §6/C17: active tables, parent references, keys, stored values).
-/
import Hv.HyperV
namespace Hv.HyperV
open Hv Hv.Extracted.hyperv

/-! ### files made of byte segments over zeros -/

/-- the byte at `p`: the first segment covering `p` decides, zero elsewhere -/
def segByte : List (Nat × Bytes) → Nat → UInt8
  | [], _ => 0
  | (o, b) :: r, p => if o ≤ p ∧ p < o + b.length then b.getD (p - o) 0 else segByte r p

def fileOf (segs : List (Nat × Bytes)) (size : Nat) : File := ⟨size, segByte segs⟩

def segsDisjoint (segs : List (Nat × Bytes)) : Prop :=
  segs.Pairwise (fun a b => a.1 + a.2.length ≤ b.1 ∨ b.1 + b.2.length ≤ a.1)

def segsInside (segs : List (Nat × Bytes)) (size : Nat) : Prop := ∀ s ∈ segs, s.1 + s.2.length ≤ size

instance (segs : List (Nat × Bytes)) : Decidable (segsDisjoint segs) := by unfold segsDisjoint; infer_instance
instance (segs : List (Nat × Bytes)) (size : Nat) : Decidable (segsInside segs size) := by unfold segsInside; infer_instance

/-! ### the structures as stored -/

/-- `HyperVStorageHeader` (46 bytes); every field is free, so "garbage" and "all zero" headers are instances -/
structure HdrSpec where
  sig : Nat
  ck : Nat
  seq : Nat
  version : Nat
  unk2 : Nat
  align : Nat
  logOff : Nat
  logSize : Nat
  hsize : Nat
  deriving Repr, DecidableEq, Inhabited

def HdrSpec.encode (h : HdrSpec) : Bytes :=
  leBytes 4 h.sig ++ (leBytes 4 h.ck ++ (leBytes 2 h.seq ++ (leBytes 4 h.version ++ (leBytes 8 h.unk2 ++ (leBytes 4 h.align ++
    (leBytes 8 h.logOff ++ (leBytes 8 h.logSize ++ leBytes 4 h.hsize)))))))

/-- the fields the reader looks at fit their width -/
def HdrSpec.ok (h : HdrSpec) : Prop := h.sig < 2 ^ 32 ∧ h.seq < 2 ^ 16 ∧ h.version < 2 ^ 32 ∧ h.logOff < 2 ^ 64

/-- `HyperVStorageReplayLog`: signature, checksum, `num_entries`, then `rest` = the remaining 22 header bytes, the
    `num_entries` counted entries (28 bytes each) and whatever stale entries follow -/
structure LogSpec where
  off : Nat
  ck : Nat
  n : Nat
  rest : Bytes
  deriving Repr, DecidableEq, Inhabited

def LogSpec.encode (l : LogSpec) : Bytes :=
  leBytes 4 SIGNATURE_REPLAY_LOG_HEADER ++ (leBytes 4 l.ck ++ (leBytes 4 l.n ++ l.rest))

def LogSpec.ok (l : LogSpec) : Prop := l.n < 2 ^ 32 ∧ LOG + l.n * LOGE ≤ 12 + l.rest.length

/-- `HyperVStorageObjectTableEntry` (18 bytes) -/
structure ObjSpec where
  typ : Nat
  ck : Nat
  offset : Nat
  size : Nat
  allocated : Nat
  deriving Repr, DecidableEq, Inhabited

def ObjSpec.encode (o : ObjSpec) : Bytes :=
  leBytes 1 o.typ ++ (leBytes 4 o.ck ++ (leBytes 8 o.offset ++ (leBytes 4 o.size ++ leBytes 1 o.allocated)))

def ObjSpec.ok (o : ObjSpec) : Prop := o.typ < 2 ^ 8 ∧ o.offset < 2 ^ 64 ∧ o.size < 2 ^ 32 ∧ o.allocated < 2 ^ 8

/-- what the reader has to see for the entry -/
def ObjSpec.parsed (o : ObjSpec) : ObjEntry := { typ := o.typ, offset := o.offset, size := o.size, allocated := o.allocated }

def encodeObjs : List ObjSpec → Bytes
  | [] => []
  | o :: r => o.encode ++ encodeObjs r

/-- an object table at `off` -/
structure OTSpec where
  off : Nat
  entries : List ObjSpec
  deriving Repr, DecidableEq, Inhabited

def OTSpec.encode (t : OTSpec) : Bytes :=
  leBytes 4 SIGNATURE_OBJECT_TABLE_HEADER ++ (leBytes 4 t.entries.length ++ encodeObjs t.entries)

def OTSpec.ok (t : OTSpec) : Prop := t.entries.length < 2 ^ 32 ∧ ∀ o ∈ t.entries, o.ok

/-- a key table at `off`: header, stored entries (free entries are entries of type Free), and the end of the region:
    `none` = the region ends with the last entry, `some t` = an all-zero entry header (size 0 = terminator) followed by `t` -/
structure KTSpec where
  off : Nat
  index : Nat
  seq : Nat
  ck : Nat
  entries : List SEntry
  tail : Option Bytes
  deriving Repr, DecidableEq, Inhabited

def KTSpec.encode (k : KTSpec) : Bytes :=
  match k.tail with
  | none => encodeTable k.index k.seq k.ck k.entries
  | some t => encodeTable k.index k.seq k.ck k.entries ++ (zeros EH ++ t)

instance (s : SEntry) : Decidable s.ok := by unfold SEntry.ok; infer_instance

def KTSpec.ok (k : KTSpec) : Prop := k.index < 2 ^ 16 ∧ k.seq < 2 ^ 16 ∧ ∀ s ∈ k.entries, s.ok

/-- the table the reader has to build from the region -/
def KTSpec.table (k : KTSpec) : KeyTable := { index := k.index, seq := k.seq, entries := parsedFrom k.entries KTH }

/-! ### the physical description of a file -/

structure Phys where
  h1 : HdrSpec
  h2 : HdrSpec
  logs : List LogSpec
  ots : List OTSpec
  kts : List KTSpec
  blobs : List (Nat × Bytes)
  size : Nat
  deriving Repr, Inhabited

def Phys.segs (d : Phys) : List (Nat × Bytes) :=
  (FIRST_HEADER_OFFSET, d.h1.encode) :: (SECOND_HEADER_OFFSET, d.h2.encode) ::
    (d.logs.map (fun l => (l.off, l.encode)) ++ (d.ots.map (fun t => (t.off, t.encode)) ++
      (d.kts.map (fun k => (k.off, k.encode)) ++ d.blobs)))

/-- **the writer** -/
def Phys.file (d : Phys) : File := fileOf d.segs d.size

/-- the file as a byte string (for the comparison with the independent Python writer) -/
def Phys.bytes (d : Phys) : Bytes := (List.range d.size).map (segByte d.segs)

/-- the header in use: the first one only if its sequence number is strictly larger -/
def Phys.active (d : Phys) : HdrSpec := if d.h1.seq > d.h2.seq then d.h1 else d.h2

def Phys.findLog (d : Phys) (off : Nat) : Option LogSpec := d.logs.find? (fun l => l.off == off)
def Phys.findOT (d : Phys) (off : Nat) : Option OTSpec := d.ots.find? (fun t => t.off == off)
def Phys.findKT (d : Phys) (off : Nat) : Option KTSpec := d.kts.find? (fun k => k.off == off)

/-- an *allocated* object-table entry of a type the reader follows points at a structure of that type: an object table,
    a key table whose region is exactly the entry's size, a replay log.  File / Free / unknown types and unallocated
    entries may hold anything. -/
def Phys.refOK (d : Phys) (o : ObjSpec) : Prop :=
  o.allocated = 0 ∨
  ((o.typ = otObjectTable → (d.findOT o.offset).isSome) ∧
   (o.typ = otKeyTable → match d.findKT o.offset with | some k => k.encode.length = o.size | none => False) ∧
   (o.typ = otReplayLog → (d.findLog o.offset).isSome))

instance (d : Phys) (o : ObjSpec) : Decidable (d.refOK o) := by
  unfold Phys.refOK
  have : Decidable (match d.findKT o.offset with | some k => k.encode.length = o.size | none => False) := by
    cases d.findKT o.offset <;> simp only [] <;> infer_instance
  infer_instance

instance (h : HdrSpec) : Decidable h.ok := by unfold HdrSpec.ok; infer_instance
instance (l : LogSpec) : Decidable l.ok := by unfold LogSpec.ok; infer_instance
instance (o : ObjSpec) : Decidable o.ok := by unfold ObjSpec.ok; infer_instance
instance (t : OTSpec) : Decidable t.ok := by unfold OTSpec.ok; infer_instance
instance (k : KTSpec) : Decidable k.ok := by unfold KTSpec.ok; infer_instance

/-- **well-formed physical description** -/
def Phys.WF (d : Phys) : Prop :=
  d.h1.ok ∧ d.h2.ok ∧
  d.active.sig = SIGNATURE_STORAGE_HEADER ∧ d.active.version = VERSION ∧ (d.findLog d.active.logOff).isSome ∧
  (∀ l ∈ d.logs, l.ok) ∧
  (d.findOT OBJECT_TABLE_OFFSET).isSome ∧
  (∀ t ∈ d.ots, t.ok ∧ ∀ o ∈ t.entries, d.refOK o) ∧
  (∀ k ∈ d.kts, k.ok) ∧
  segsDisjoint d.segs ∧ segsInside d.segs d.size

instance (d : Phys) : Decidable d.WF := by unfold Phys.WF; infer_instance

/-! ### what the object-table walk has to register (abstract walk, no bytes) -/

structure SWalk where
  visited : List Nat
  pending : List (List ObjSpec)
  tabs : List KeyTable            -- key tables in registration order
  fos : List (Nat × Nat)          -- File objects, newest first
  deriving Repr, Inhabited

/-- an allocated ObjectTable entry queues the table it points at, once per offset -/
def sObj (d : Phys) (o : ObjSpec) (w : SWalk) : SWalk :=
  if o.typ = otObjectTable ∧ ¬ w.visited.contains o.offset then
    match d.findOT o.offset with
    | some t => { w with visited := w.visited ++ [o.offset], pending := w.pending ++ [t.entries] }
    | none => w
  else w

/-- an allocated KeyTable entry registers the table it points at -/
def sTabs (d : Phys) (o : ObjSpec) (tabs : List KeyTable) : List KeyTable :=
  if o.typ = otKeyTable then match d.findKT o.offset with | some k => tabs ++ [k.table] | none => tabs else tabs

/-- an allocated File entry registers (offset, size) -/
def sFos (o : ObjSpec) (fos : List (Nat × Nat)) : List (Nat × Nat) :=
  if o.typ = otFile then (o.offset, o.size) :: fos else fos

/-- one object-table entry: unallocated entries are skipped; entries of other types change nothing -/
def sStepEntry (d : Phys) (o : ObjSpec) (w : SWalk) : SWalk :=
  if o.allocated = 0 then w else
  let w1 := sObj d o w
  { w1 with tabs := sTabs d o w1.tabs, fos := sFos o w1.fos }

def sStepEntries (d : Phys) : List ObjSpec → SWalk → SWalk
  | [], w => w
  | o :: r, w => sStepEntries d r (sStepEntry d o w)

/-- first-in first-out over the queued tables -/
def sWalk (d : Phys) : Nat → SWalk → SWalk
  | 0, w => w
  | fuel + 1, w =>
    match w.pending with
    | [] => w
    | es :: rest => sWalk d fuel (sStepEntries d es { w with pending := rest })

def Phys.walk (d : Phys) : SWalk :=
  sWalk d (d.size + 1)
    { visited := [OBJECT_TABLE_OFFSET], pending := [((d.findOT OBJECT_TABLE_OFFSET).map OTSpec.entries).getD []], tabs := [], fos := [] }

/-- the key tables the reader registers, in this order (stale copies included) -/
def Phys.regTables (d : Phys) : List KeyTable := d.walk.tabs
/-- the File objects (offset, size) the reader registers, newest first -/
def Phys.regFos (d : Phys) : List (Nat × Nat) := d.walk.fos

/-! ### tables in use, linkable entries, parent references (shared with the proofs) -/

/-- the registry after the key tables `ts` were met in this order while walking the object tables -/
def registerAll (ts : List KeyTable) : List (Nat × List KeyTable) := ts.foldl (fun acc t => register t acc) []

/-- indices in order of first appearance -/
def firstIdx (is : List Nat) : List Nat := is.foldl (fun ks i => if i ∈ ks then ks else ks ++ [i]) []

/-- `act` = the tables in use: one per index, in order of the index's first registration, each with a strictly larger
    sequence number than every other registered table of its index -/
def ActiveOf (ts act : List KeyTable) : Prop :=
  act.map KeyTable.index = firstIdx (ts.map KeyTable.index) ∧
  ∀ t ∈ act, t ∈ ts ∧ ∀ u ∈ ts, u.index = t.index → u = t ∨ u.seq < t.seq

instance (ts act : List KeyTable) : Decidable (ActiveOf ts act) := by unfold ActiveOf; infer_instance

/-- the parent reference stored in an entry (`none` = root) -/
def pref (e : Entry) : Option Ref := if e.parentIdx = 0 then none else some (e.parentIdx, e.parentOff)

def nonFree (es : List Entry) : List Entry := es.filter (fun e => e.kind ≠ tFree)

/-- the linkable entries of the tables in use -/
def actEntries (act : List KeyTable) : List (Nat × Entry) := act.flatMap (fun t => (nonFree t.entries).map (fun e => (t.index, e)))

/-- the parent reference of an entry resolves inside the tables in use -/
def ParentOK (act : List KeyTable) (e : Entry) : Prop :=
  e.parentIdx = 0 ∨ ∃ t ∈ act, t.index = e.parentIdx ∧ ∃ p ∈ t.entries, p.offset = e.parentOff

instance (act : List KeyTable) (e : Entry) : Decidable (ParentOK act e) := by unfold ParentOK; infer_instance

/-- the table with the largest sequence number (the first such) -/
def bestOf : List KeyTable → Option KeyTable
  | [] => none
  | t :: r => match bestOf r with
    | none => some t
    | some b => if t.seq < b.seq then some b else some t

/-- the tables in use among the registered ones -/
def actOf (ts : List KeyTable) : List KeyTable :=
  (firstIdx (ts.map KeyTable.index)).filterMap (fun i => bestOf (ts.filter (fun t => t.index == i)))

/-! ### stored values, declaratively -/

instance : DecidablePred Value.inRange := fun v => by
  cases v <;> simp only [Value.inRange] <;> infer_instance

/-- the key stored in an entry: the `data_offset − 1` bytes before the NUL -/
def storedKey (e : Entry) : Bytes := sliceTo e.body e.dataOffset

/-- entry `e` stores value `v`: type byte = the value's type and
    * flag clear: the bytes at `data_offset` start with the value's encoding (anything may follow) — for a boolean: with any
      32-bit word, non-zero = true —, or
    * flag set (strings and arrays only): the bytes at `data_offset` are a 12-byte (size, offset) pointer, `fos` lists a
      File object at that offset, the offset is below 2^63, and a blob of the description at that offset starts with the
      value's bytes (no length prefix), `min size (object size)` of them -/
def storesb (blobs : List (Nat × Bytes)) (fos : List (Nat × Nat)) (e : Entry) (v : Value) : Bool :=
  let p := e.body.drop e.dataOffset
  decide (e.kind = v.typ) && decide v.inRange &&
  (if e.isFo then
    (match v with | .str _ => true | .bytes _ => true | _ => false) &&
    decide ((p.take PTR_LEN).length = PTR_LEN) &&
    (let n := leNat (p.take 4)
     let o := leNat ((p.drop 4).take 8)
     decide (o < 2 ^ 63) &&
     match fos.lookup o with
     | none => false
     | some osz => blobs.any (fun b => b.1 == o && decide (min n osz ≤ b.2.length) && b.2.take (min n osz) == encodeFoValue v))
   else match v with
     | .bool b => decide ((p.take 4).length = 4) && (decide (leNat (p.take 4) ≠ 0) == b)
     | _ => p.take (encodeValue v).length == encodeValue v)

/-- `encTb all t ie`: among the linkable entries `all` of the tables in use, entry `ie` (table index, entry) stores the
    tree `t`: a value entry storing `v`, or a Node entry whose children — exactly the entries whose parent reference is
    `ie`'s (table index, offset), wherever they are stored, in linking order — carry the keys of `t`'s children
    (distinct, valid UTF-8) and store them -/
def encTb (blobs : List (Nat × Bytes)) (fos : List (Nat × Nat)) (all : List (Nat × Entry)) : Tree → Nat × Entry → Bool
  | .leaf v, ie => decide (ie.2.kind ≠ tNode) && storesb blobs fos ie.2 v
  | .node cs, ie => decide (ie.2.kind = tNode) && decide ((cs.map Prod.fst).Nodup) &&
      encLb cs (all.filter (fun x => pref x.2 = some (ie.1, ie.2.offset)))
where encLb : List (Bytes × Tree) → List (Nat × Entry) → Bool
  | [], ies => ies.isEmpty
  | _ :: _, [] => false
  | (k, t) :: cs, ie :: rest => decide (storedKey ie.2 = k) && validUtf8 k && encTb blobs fos all t ie && encLb cs rest

/-! ### the logical description: a physical layout and the tree it stores -/

structure Desc where
  phys : Phys
  cs : List (Bytes × Tree)          -- the children of the (pseudo) root
  deriving Inhabited

/-- the tree `as_dict()` has to return -/
def Desc.tree (d : Desc) : Tree := .node d.cs

/-- **the writer** on logical descriptions -/
def Desc.file (d : Desc) : File := d.phys.file

def Desc.act (d : Desc) : List KeyTable := actOf d.phys.regTables

def isNode : Tree → Bool
  | .node _ => true
  | .leaf _ => false

/-- **well-formed description** (`Encodes layout tree`, decidable): the physical layout is well formed; among the key
    tables the walk registers, every index has one table with a strictly largest sequence number (`ActiveOf`); every
    non-free entry of those tables has a parent reference that is 0 or names an entry of a table in use, and a valid UTF-8
    key; the root-level entries (parent index 0) store the children `cs` (`encTb`, recursively); the keys of `cs` are
    distinct. -/
def Desc.WF (d : Desc) : Prop :=
  d.phys.WF ∧
  ActiveOf d.phys.regTables d.act ∧
  (∀ ie ∈ actEntries d.act, ParentOK d.act ie.2 ∧ validUtf8 (storedKey ie.2) = true) ∧
  (d.cs.map Prod.fst).Nodup ∧
  encTb.encLb d.phys.blobs d.phys.regFos (actEntries d.act) d.cs ((actEntries d.act).filter (fun x => pref x.2 = none)) = true

instance (d : Desc) : Decidable d.WF := by unfold Desc.WF; infer_instance

def Desc.wfb (d : Desc) : Bool := decide d.WF

/-- `as_dict()` needs Node entries at the root -/
def Desc.rootsAreNodes (d : Desc) : Bool := d.cs.all (fun kt => isNode kt.2)

end Hv.HyperV
