/-
  Hv.Prim.XPath — the element tree that `xml.etree.ElementTree` builds and the part of
  `xml.etree.ElementPath` (the "limited XPath" of `find` / `findall` / `iterfind`) that the VM
  configuration parsers use.  Paths are compiled to `Step` lists by harness/extract.py with the
  *live* `ElementPath.xpath_tokenizer` (namespace prefixes expanded as the real code does);
  the selector semantics of each step is transcribed here from CPython 3.12 `ElementPath.py`
  (`prepare_child`, `prepare_star`, `prepare_self`, `prepare_descendant`, `prepare_predicate`).
  XML text → tree is *not* modelled (C19's trusted part): the driver receives the tree the real
  parser built.
-/
namespace Hv.XPath

abbrev Str := List Char

/-- an `Element`: tag (Clark notation `{uri}local`), attributes, children, `.text`, `.tail` -/
inductive Xml where
  | node (tag : Str) (attrs : List (Str × Str)) (children : List Xml) (text : Option Str) (tail : Option Str)

namespace Xml
def tag : Xml → Str | .node t _ _ _ _ => t
def attrs : Xml → List (Str × Str) | .node _ a _ _ _ => a
def children : Xml → List Xml | .node _ _ c _ _ => c
def text : Xml → Option Str | .node _ _ _ x _ => x
def tail : Xml → Option Str | .node _ _ _ _ t => t

/-- `attrib.get(key)` (attribute names of one element are unique, the parser guarantees it) -/
def lookupAttr (k : Str) : List (Str × Str) → Option Str
  | [] => none
  | (k', v) :: t => if k' = k then some v else lookupAttr k t

def get (e : Xml) (k : Str) : Option Str := lookupAttr k e.attrs
end Xml

mutual
/-- `Element.iter()`: the element itself and all descendants in document order -/
def Xml.iter : Xml → List Xml
  | .node t a cs x tl => .node t a cs x tl :: iterL cs
/-- the descendants reached through a list of siblings, in document order -/
def iterL : List Xml → List Xml
  | [] => []
  | c :: cs => c.iter ++ iterL cs
end

mutual
/-- `"".join(e.itertext())` -/
def Xml.itertext : Xml → Str
  | .node _ _ cs x _ => x.getD [] ++ itertextL cs
def itertextL : List Xml → Str
  | [] => []
  | c :: cs => c.itertext ++ (c.tail.getD [] ++ itertextL cs)
end

/-- one compiled selector of `ElementPath.iterfind` -/
inductive Step where
  | self                              -- `.`
  | star                              -- `*`
  | child (tag : Str)                 -- `tag`
  | desc (tag : Str)                  -- `//tag`
  | hasAttr (key : Str)               -- `[@key]`
  | attrEq (key value : Str)          -- `[@key='value']`
  | hasChild (tag : Str)              -- `[tag]`
  | childText (tag value : Str)       -- `[tag='value']`
  | unsupported                       -- anything else the extraction met (model refuses)
  deriving DecidableEq, Repr

/-- `elem.find(tag)` / the C fast path of `findall(tag)`: children with exactly that tag -/
def childrenTagged (tag : Str) (e : Xml) : List Xml := e.children.filter (fun c => c.tag = tag)

def find (tag : Str) (e : Xml) : Option Xml := e.children.find? (fun c => c.tag = tag)

/-- proper descendants with the tag, document order (`for e in elem.iter(tag): if e is not elem`) -/
def descendantsTagged (tag : Str) (e : Xml) : List Xml := (iterL e.children).filter (fun c => c.tag = tag)

def select : Step → List Xml → Option (List Xml)
  | .self, r => some r
  | .star, r => some (r.flatMap Xml.children)
  | .child t, r => some (r.flatMap (childrenTagged t))
  | .desc t, r => some (r.flatMap (descendantsTagged t))
  | .hasAttr k, r => some (r.filter (fun e => (e.get k).isSome))
  | .attrEq k v, r => some (r.filter (fun e => e.get k = some v))
  | .hasChild t, r => some (r.filter (fun e => (find t e).isSome))
  | .childText t v, r => some (r.filter (fun e => (childrenTagged t e).any (fun c => c.itertext = v)))
  | .unsupported, _ => none

def run : List Step → List Xml → Option (List Xml)
  | [], r => some r
  | s :: ss, r => match select s r with
    | none => none
    | some r' => run ss r'

/-- `elem.findall(path, namespaces)` / `list(elem.iterfind(path))` for a compiled path -/
def findall (path : List Step) (e : Xml) : Option (List Xml) := run path [e]

end Hv.XPath
