"""C05 — VDI reads. Independent image writer (VirtualBox VDICore.h v1.1 header), request
generator, real-code runner and driver lines."""
from __future__ import annotations

import random
import struct

import core
from core import Built
from sparse import Image

PROPERTY = "C05"
RULE = ("seeded structured generator: block size, block count, per-block state (allocated at a chosen "
        "physical index / unallocated / zero), physical order (identity, reversed, shuffled, with holes), map "
        "and data placement, optional parent image, disk size not a multiple of the block size; requests are "
        "block-edge±1, tail, full and random reads issued as one history on one stream. A case counts as "
        "non-trivial when the model reports WF, the image has at least two different block states (or a "
        "non-identity placement) and at least one request crosses a block boundary; distinct = distinct recipe hash. Directed families, "
        "present in every run: header version dword 1.1 / 1.0 (header size 0x180) / 1.2 / 1.<random minor> (the reader takes every field from "
        "fixed offsets; VirtualBox accepts every minor of major 1); histories in which the file object is moved between two requests that are "
        "physically consecutive (inside one block larger than the buffer, or in two blocks that follow each other in the file): by somebody else "
        "seeking / reading the file object (core op \"x\"), by a second VDI object opened on the same file object (op \"y\"), also read alternately; "
        "random histories: every second one carries \"x\" operations between its requests.")
ASSUMPTIONS = ["array('i') is little-endian 32-bit (x86-64 host)", "dissect.util AlignedStream as transcribed in Hv/Stream.lean",
               "dissect.cstruct parsing (layouts re-probed on every run)"]
TIMEOUT_CASE = 20.0


def vdi_header(blocks_off, data_off, disk_size, block_size, nblocks, nalloc, sector=512, version=0x00010001, itype=1):
    """version dword = (major << 16) | minor. 1.1 = VDIHEADER1PLUS (0x190 bytes from 0x48 on), 1.0 = VDIHEADER1 (0x180 bytes: without
    the LCHS geometry at the end); every field the reader needs sits at the same offset in both"""
    h = bytearray(512)
    txt = b"<<< Oracle VM VirtualBox Disk Image >>>\n"
    h[0:len(txt)] = txt
    struct.pack_into("<IIIII", h, 0x40, 0xBEDA107F, version, 0x180 if version & 0xFFFF == 0 else 0x190, itype, 0)
    struct.pack_into("<II", h, 0x154, blocks_off, data_off)
    struct.pack_into("<IIII", h, 0x15C, 0, 0, 0, sector)
    struct.pack_into("<Q", h, 0x170, disk_size)
    struct.pack_into("<IIII", h, 0x178, block_size, 0, nblocks, nalloc)
    return bytes(h)


def gen_recipe(rng: random.Random, tier: str, allow_parent=True, size=None, big=False):
    bs = rng.choice([512, 512, 1024, 4096, 4096, 8192, 16384, 65536] + ([1 << 20] if tier == "thorough" or big else []))
    if size is None:
        nb = rng.choice([300, 1100, 2600]) if big else rng.choice([1, 2, 3, 4, 5, 8, 13, 24, 40])
        size = nb * bs - (rng.randrange(bs) if rng.random() < 0.4 else 0)
        size = max(size, 1)
    nb = (size + bs - 1) // bs + (rng.choice([0, 0, 1, 3]))
    style = rng.choice(["identity", "reversed", "shuffled", "holes", "shuffled"])
    pz = rng.choice([0.0, 0.2, 0.5])
    pu = rng.choice([0.0, 0.2, 0.5])
    states = []
    for _ in range(nb):
        x = rng.random()
        states.append("z" if x < pz else ("u" if x < pz + pu else "a"))
    nalloc = states.count("a")
    phys = list(range(nalloc))
    if style == "reversed":
        phys.reverse()
    elif style == "shuffled":
        rng.shuffle(phys)
    elif style == "holes":
        phys = sorted(rng.sample(range(nalloc * 2 + 2), nalloc))
        rng.shuffle(phys)
    it = iter(phys)
    bmap = [(-2 if s == "z" else (-1 if s == "u" else next(it))) for s in states]
    map_first = rng.random() < 0.8
    r = {"bs": bs, "size": size, "map": bmap, "map_first": map_first, "pad": rng.choice([0, 0, 512, 4096, 7]),
         "seed": rng.randrange(256), "parent": None}
    if allow_parent and rng.random() < 0.3:
        r["parent"] = gen_recipe(rng, tier, allow_parent=False, size=size + rng.choice([0, 0, 4096]))
    return r


def build_image(r):
    bs, bmap = r["bs"], r["map"]
    nb = len(bmap)
    nphys = max([b for b in bmap if b >= 0], default=-1) + 1
    if r["map_first"]:
        blocks_off = 512 + r["pad"]
        data_off = blocks_off + 4 * nb + r["pad"]
        data_off = (data_off + 511) // 512 * 512 if r["pad"] != 7 else data_off
    else:
        data_off = 512 + r["pad"]
        blocks_off = data_off + nphys * bs + r["pad"]
    im = Image()
    im.put_hex(0, vdi_header(blocks_off, data_off, r["size"], bs, nb, sum(1 for b in bmap if b >= 0), version=r.get("version", 0x00010001), itype=r.get("itype", 1)))
    im.put_hex(blocks_off, b"".join(struct.pack("<i", b) for b in bmap))
    for b in bmap:
        if b >= 0:
            im.put_pat(data_off + b * bs, bs, (r["seed"] + b * 37) & 0xFF)
    end = max(blocks_off + 4 * nb, data_off + nphys * bs)
    im.finish(end + r["pad"])
    return im, data_off


def header_fields(r):
    """(name, file offset, width) of every size-like header field (all little-endian) and of the first / last block map entry"""
    nb = len(r["map"])
    blocks_off = 512 + r["pad"] if r["map_first"] else struct.unpack_from("<I", build_image(r)[0].read_at(0x154, 4))[0]
    return [("HeaderSize", 0x48, 4), ("ImageType", 0x4C, 4), ("BlocksOffset", 0x154, 4), ("DataOffset", 0x158, 4), ("SectorSize", 0x168, 4),
            ("DiskSize", 0x170, 8), ("BlockSize", 0x178, 4), ("BlockExtraData", 0x17C, 4), ("BlocksInHDD", 0x180, 4), ("BlocksAllocated", 0x184, 4),
            ("map[0]", blocks_off, 4), (f"map[{nb - 1}]", blocks_off + 4 * (nb - 1), 4)], "little"


class Truth:
    def __init__(self, r):
        self.r = r
        self.im, self.data_off = build_image(r)
        self.parent = Truth(r["parent"]) if r.get("parent") else None
        self.size = r["size"]

    def read(self, off, n):
        """guest bytes [off, off+n) — defined by the format, block by block"""
        bs, bmap = self.r["bs"], self.r["map"]
        out = []
        end = off + n
        while off < end:
            blk, ino = divmod(off, bs)
            k = min(bs - ino, end - off)
            e = bmap[blk] if blk < len(bmap) else -2
            if e == -2:
                out.append(bytes(k))
            elif e == -1:
                out.append(self.parent.read(off, k) if self.parent else bytes(k))
            else:
                out.append(self.im.read_at(self.data_off + e * bs + ino, k))
            off += k
        return b"".join(out)


def gen_queries(rng, r, n):
    bs, size = r["bs"], r["size"]
    qs = []
    nblk = (size + bs - 1) // bs
    for _ in range(n):
        kind = rng.choice(["edge", "edge", "span", "tail", "rand", "full", "small"])
        if kind == "edge":
            b = rng.randrange(nblk + 1) * bs
            off = max(0, b + rng.choice([-1, 0, 1, -rng.randrange(1, bs + 1)]))
            ln = rng.choice([1, 2, bs, bs + 1, 2 * bs, rng.randrange(1, 3 * bs + 2)])
        elif kind == "span":
            off = rng.randrange(size)
            ln = rng.randrange(1, min(size, 6 * bs) + 2)
        elif kind == "tail":
            off = max(0, size - rng.randrange(1, min(size, 2 * bs) + 1))
            ln = rng.choice([size - off, size - off + 1, size - off + 10000])
        elif kind == "full":
            off, ln = 0, size
        elif kind == "small":
            off = rng.randrange(size)
            ln = rng.randrange(0, 16)
        else:
            off = rng.randrange(size + 3)
            ln = rng.randrange(0, min(size, 100000) + 1)
        if ln > (4 << 20):
            ln = 4 << 20
        qs.append(["o", off, ln])
    return qs


def generate(seed: int, tier: str):
    rng = random.Random(f"C05/{seed}/{tier}")
    n = 240 if tier == "quick" else 3000
    cases = []
    for i in range(n):
        big = (i % 25 == 3)
        r = gen_recipe(rng, tier, big=big)
        align = rng.choice([8192] * 6 + [512, 4096, 65536, 1 << 20, 1536])
        cases.append({"id": f"g{i}", "recipe": r, "align": align, "queries": gen_queries(rng, r, 10 if tier == "quick" else 16)})
    # between the requests of every second random history somebody else uses the file object (own random stream: the cases above do not move)
    drng = random.Random(f"C05/disturb/{seed}/{tier}")
    for i, c in enumerate(cases):
        if i % 2 == 1:
            c["queries"] = core.disturbances(drng, c["queries"], build_image(c["recipe"])[0].size)
    cases += directed(seed, tier)
    return cases


VERSIONS = [0x00010001, 0x00010000, 0x00010000, 0x00010002, "minor"]


def map_recipe(rng, bs, bmap, **kw):
    r = {"bs": bs, "size": len(bmap) * bs, "map": list(bmap), "map_first": rng.random() < 0.8, "pad": rng.choice([0, 0, 512, 4096, 7]),
         "seed": rng.randrange(256), "parent": None}
    r.update(kw)
    return r


def successor_map(rng, nb):
    """a block map with at least one pair of virtual blocks (v1, v2), v2 != v1 + 1 allowed, whose physical blocks follow each other
    in the file; returns (map, [(v1, v2) ...])"""
    while True:
        states = [rng.choice("aaazu") for _ in range(nb)]
        nalloc = states.count("a")
        if nalloc < 2:
            continue
        phys = list(range(nalloc))
        rng.shuffle(phys)
        it = iter(phys)
        bmap = [(-2 if s == "z" else (-1 if s == "u" else next(it))) for s in states]
        where = {p: v for v, p in enumerate(bmap) if p >= 0}
        pairs = [(where[p], where[p + 1]) for p in range(nalloc - 1)]
        return bmap, pairs


def moved_handle_history(rng, r, align, how, fsize):
    """(1) a request served from the file through this object, (2) the file object is moved by somebody else, (3) a request whose
    data starts in the file exactly where (1) stopped reading. how: "xseek" / "xread" / "xend" (the caller uses the file object),
    "twin" (a second VDI object on the same file object reads elsewhere), "twin-alt" (both objects walk on in turns)."""
    bs, size = r["bs"], r["size"]
    qs = [["s", 0, 2]]
    if bs >= 2 * align:
        # inside one allocated block, buffer by buffer
        per = bs // align
        A = rng.choice([v for v, p in enumerate(r["map"]) if p >= 0])
        i = rng.randrange(per - 1)
        j = rng.randrange(1, per - i)
        first = [A * bs + i * align, j * align]
        nxt = A * bs + (i + j) * align
        step = align
    else:
        # two virtual blocks whose physical blocks follow each other (requires block-aligned buffers: align divides bs)
        v1, v2 = rng.choice(r["pairs"])
        first = [v1 * bs + bs - align, align] if align <= bs else [v1 * bs, bs]
        nxt = v2 * bs
        step = min(align, bs)
    if how == "twin-alt":
        p = first[0]
        for k in range(12):
            if p >= size:
                break
            qs.append(["o" if k % 2 == 0 else "y", p, step])
            if k % 2 == 1 or rng.random() < 0.5:
                p += step
        return qs
    qs.append(["o"] + first)
    if how == "xseek":
        qs.append(["x", "seek", rng.randrange(fsize)])
    elif how == "xread":
        qs.append(["x", "read", rng.choice([1, 4, 512, 4096])])
    elif how == "xend":
        qs.append(["x", rng.choice(["end", "start"])])
    elif how == "twin":
        qs.append(["y", rng.randrange(size), rng.choice([1, 512, align, bs])])
    ln = rng.choice([1, step, step + 1, bs, rng.randrange(1, 2 * bs + 2)])
    qs += [["o", nxt, ln]] if rng.random() < 0.7 else [["s", nxt, 0], ["r", ln]]
    return qs


def directed(seed, tier):
    """families that every run contains (fixed shapes; only details are drawn, from a stream of their own)"""
    rng = random.Random(f"C05/directed/{seed}/{tier}")
    cases = []
    nq = 8 if tier == "quick" else 16

    def add(fam, r, align, queries):
        r["family"] = fam
        cases.append({"id": f"d{len(cases)}-{fam}", "recipe": r, "align": align, "queries": queries})
    # ---- header versions (the reader ignores the field; every 1.x is a valid image)
    for rep in range(4 if tier == "quick" else 12):
        for ver in VERSIONS:
            r = gen_recipe(rng, tier, allow_parent=(rep % 2 == 1))
            v = (0x00010000 | rng.choice([3, 7, 0x100, 0xFFFF, rng.randrange(0x10000)])) if ver == "minor" else ver
            r["version"] = v
            # image type: 1 normal (dynamic), 2 fixed (every block allocated), 4 differencing (has a parent); readers go by the map only
            r["itype"] = 4 if r.get("parent") else (2 if all(b >= 0 for b in r["map"]) else 1)
            if r.get("parent"):
                r["parent"]["version"] = rng.choice([0x00010001, 0x00010000, v])
            add("version-%d.%d" % (v >> 16, v & 0xFFFF) if ver != "minor" else "version-1.x", r, rng.choice([8192, 8192, 512, 65536]), gen_queries(rng, r, nq))
    # ---- the file object is moved between two physically consecutive reads
    for rep in range(1 if tier == "quick" else 4):
        for bs, align in ((8192, 512), (65536, 8192), (65536, 4096), (1 << 20, 65536), (4096, 4096), (512, 512), (4096, 512), (65536, 65536)):
            for how in ("xseek", "xread", "xend", "twin", "twin-alt"):
                nb = rng.choice([3, 4, 6, 9]) if bs < (1 << 20) else 3
                bmap, pairs = successor_map(rng, nb)
                r = map_recipe(rng, bs, bmap, pairs=pairs)
                qs = moved_handle_history(rng, r, align, how, build_image(r)[0].size)
                add(f"hist-{how}", r, align, qs + gen_queries(rng, r, 3))
    return cases


def group_by_env(cases):
    by = {}
    for c in cases:
        by.setdefault(c.get("align", 8192), []).append(c)
    return [({"DISSECT_STREAM_BUFFER_SIZE": a}, cs) for a, cs in sorted(by.items())]


def build(case):
    t = Truth(case["recipe"])
    files = {"a": t.im}
    if t.parent:
        files["p"] = t.parent.im
    truth = core.truth_ops(t.size, t.read, case["queries"])
    r = case["recipe"]
    states = {("z" if b == -2 else "u" if b == -1 else "a") for b in r["map"]}
    alloc = [b for b in r["map"] if b >= 0]
    branches = sorted(states) + (["parent"] if r.get("parent") else []) + (["permuted"] if alloc != sorted(alloc) or alloc != list(range(len(alloc))) else [])
    if r.get("family"):
        branches.append("directed:" + r["family"])
    if any(q[0] == "x" for q in case["queries"]):
        branches.append("handle-moved")
    if core.has_twin(case["queries"]):
        branches.append("two-objects")
    crosses = any(q[0] in ("o", "y") and q[2] > 0 and (q[1] // r["bs"]) != ((min(q[1] + q[2], r["size"]) - 1) // r["bs"]) and q[1] < r["size"] for q in case["queries"])
    return Built(files, truth, {"branches": branches, "crosses": crosses, "in_scope": True})


def impl_run(case, built):
    from dissect.hypervisor.disk.vdi import VDI
    parent = VDI(built.files["p"].open()) if "p" in built.files else None
    v = VDI(built.files["a"].open(), parent)
    if v.align != case["align"]:
        raise RuntimeError(f"stream align {v.align} != case align {case['align']}")
    def twin():
        # VDI.__init__ parses the header at the CURRENT position of the file object (it never seeks to 0): a caller who opens a
        # second object on a used handle has to rewind it first
        v.fh.seek(0)
        return VDI(v.fh, parent)
    return core.impl_ops(v, case["queries"], raw=v.fh, twin=twin)


def model_lines(case, built):
    pid = "p" if "p" in built.files else "-"
    lines = core.file_lines(built.files) + [f"vdi.open a {pid}",
                                            f"vdi.stream a {pid} {case['align']} " + " ".join(core.op_tokens(case["queries"]))]
    if core.has_twin(case["queries"]):      # the second VDI object on the same file: a model run of its own (the model has no shared handle state)
        lines.append(f"vdi.stream a {pid} {case['align']} " + " ".join(core.twin_tokens(case["queries"])))
    return lines


def model_parse(case, built, out):
    wf = None
    if out and out[0].startswith("ok"):
        wf = "wf=1" in out[0]
    ans = core.parse_stream_answer(out[1]) if len(out) > 1 else None
    if core.has_twin(case["queries"]):
        ans = core.merge_twin(case["queries"], ans, core.parse_stream_answer(out[2]) if len(out) > 2 else None)
    return {"answers": ans, "wf": wf, "open": out[0] if out else None}


def nontrivial(case, built, model):
    return bool(model.get("wf")) and built.info["crosses"] and len(built.info["branches"]) >= 2


def search(seed, broken, budget):
    rng = random.Random(f"C05/search/{seed}")
    cases = []
    for i in range(min(budget, 1500)):
        r = gen_recipe(rng, "quick")
        cases.append({"id": f"s{i}", "recipe": r, "align": rng.choice([8192, 512, 65536]), "queries": gen_queries(rng, r, 12)})
    return cases


def shrink(case):
    return case


# ---- adapters used by C08 / C13 (generic stream checks)
def open_impl(case, built):
    from dissect.hypervisor.disk.vdi import VDI
    parent = VDI(built.files["p"].open()) if "p" in built.files else None
    return VDI(built.files["a"].open(), parent)


def stream_prefix(case, built):
    pid = "p" if "p" in built.files else "-"
    return f"vdi.stream a {pid} {case['align']}"


def open_line(case, built):
    pid = "p" if "p" in built.files else "-"
    return f"vdi.open a {pid}"


def truth_reader(case):
    t = Truth(case["recipe"])
    return t.size, t.read, 512
