"""C13 — lazy access: I/O proportional to the request, correct at multi-terabyte scale.

Sparse virtual backing files that count the bytes read. Images are generated with the format generators and then moved
far out: tables, blocks, clusters and grains beyond 2^32 bytes, where the format allows beyond 2^32 sectors / 2^40..2^55
bytes, virtual sizes up to tens of TiB, and with few vs many allocated units. For every request the content is compared
(real code vs Lean model vs construction truth) and the bytes the real code read from the file(s) are compared with a
bound that depends on the mapping metadata and the request only."""
from __future__ import annotations

import importlib
import random

import core
import sparse
from core import Built

PROPERTY = "C13"
CLASSES = ["c05", "c04", "c06", "c03", "c02", "c01"]
RULE = ("per stream class: the class generator's image, post-processed so that allocation units sit at far file offsets (VDI map entries "
        "+K, VHD data area at 2^32 / 1 TiB / sector 0xFF000000, HDS physical clusters +K up to the 32-bit limits, VHDX blocks at "
        "2^32..2^43 bytes, VMDK huge capacities and far grains / tables, QCOW2 host offsets 2^32..2^55) and with many allocated units "
        "(scan detection); 6 requests per image (unit edges, far ends, random). Expected: content = construction truth; bytes read at "
        "open ≤ metadata + 64 KiB; bytes read per request ≤ metadata + 2·len + 4·buffer (+ 2 units for compressed data) + 16 KiB, where "
        "metadata = the bytes of headers and tables the generator wrote (no term for allocated data). Non-trivial = some unit or table "
        "of the image lies at a file offset ≥ 2^32; distinct recipe hash. Footprint (VDI, VHD, HDS, VHDX, VMDK uncompressed sparse extents, QCOW2): "
        "every read() the real code issues on a backing handle during a request lies inside the ranges of the Lean footprint (Hv.Footprint.*, "
        "proved complete in HvProofs/Footprint*.lean) of the request enlarged to the stream's 8 KiB buffer alignment; for HDS chains per layer "
        "file, for QCOW2 per file (image / external data file). VMDK and QCOW2: the theorem's footprint names single table entries, the real code "
        "transfers the whole grain table / L2 table holding them (LRU-cached), so the comparison uses the footprint with entries widened to "
        "their table (Footprint.vmdkIO / qcow2MetaIO ⊇ the theorem's footprint); the driver also evaluates the theorem's footprint and its "
        "proved size bound (io_bound_tables) and the harness checks total ≤ bound. VHDX: the reads of the constructor are compared with "
        "Footprint.vhdxOpen as well.")
ASSUMPTIONS = ["read-ahead inside Python's own file objects is outside the model; the handles here are unbuffered counting objects",
               "the numeric I/O bound is evaluated by the harness from the generator's geometry; the Lean side proves the wide-offset arithmetic, "
               "re-computes the content and proves the footprint theorems (VDI, VHD, HDS, VHDX, VMDK uncompressed sparse, QCOW2) whose footprint is compared with the recorded accesses",
               "VMDK stream-optimised (compressed) extents and flat extents have no footprint theorem: there the I/O clause is the measured bound only; "
               "VHDX constructor: the footprint theorem covers every file access of __init__ (vhdx_open_footprint_partial), not yet the assembled object"]
TIMEOUT_CASE = 60.0
F32 = 1 << 32


def mod(name):
    return importlib.import_module(name)


def far_recipe(cls, rng, tier):
    """-> (recipe, unit bytes, compressed?)"""
    m = mod(cls)
    if cls == "c05":
        r = m.gen_recipe(rng, "quick", allow_parent=False, big=rng.random() < 0.4)
        bs = r["bs"]
        mx = max([e for e in r["map"] if e >= 0], default=0)
        F = rng.choice([F32, F32 + 12345, 1 << 36, 1 << 40, 1 << 43])
        K = min(F // bs + 1, (1 << 31) - 2 - mx)
        r["map"] = [e + K if e >= 0 else e for e in r["map"]]
        return r, bs, False
    if cls == "c04":
        while True:
            r = m.gen_recipe(rng, "quick", big=rng.random() < 0.3)
            if r["kind"] == "dynamic":
                break
        nphys = max([p for p in r["blocks"] if p is not None], default=-1) + 1
        stride = r["bs"] + ((r["bs"] // 512 + 7) // 8 + 511) // 512 * 512
        top = (0xFFFFFFFE * 512 - nphys * stride - 4096) // 512 * 512
        r["far"] = min(rng.choice([F32, F32 + 512, 1 << 40, (1 << 40) + (1 << 39), 0xFF000000 * 512]), top)
        r["bat_after"] = rng.random() < 0.5
        return r, r["bs"], False
    if cls == "c06":
        r = m.gen_recipe(rng, "quick", big=rng.random() < 0.3)
        for l in r["layers"]:
            spc = l["spc"]
            mx = max([int(v) for v in l["phys"].values()], default=0)
            lim = ((1 << 32) - 1) // spc if l["ver"] == 1 else (1 << 32) - 1
            F = rng.choice([F32, 1 << 36, 1 << 40, 1 << 44])
            K = max(0, min(F // (spc * 512) + 1, lim - mx - 1))
            l["phys"] = {k: int(v) + K for k, v in l["phys"].items()}
        return r, r["layers"][-1]["spc"] * 512, False
    if cls == "c03":
        r = m.gen_vhdx.gen_recipe(rng, "quick", depth=1, big=rng.random() < 0.3)
        l = r["layers"][0]
        # (FileOffsetMB is 44 bits wide: file offsets up to 2^64; 16 TiB = 2^24 MiB is where a 24-bit decoding would wrap)
        F = rng.choice([F32, 1 << 36, 1 << 40, 1 << 43, 1 << 44, (1 << 44) + (5 << 20), 1 << 50, 1 << 62])
        K = F // l["bs"] + 1
        l["phys"] = {k: v + K for k, v in l["phys"].items()}
        return r, 1 << 20, False
    if cls == "c02":
        r = m.gen_vmdk.gen_extent(rng, "quick", huge=True)
        if r["kind"] == "flat":
            r["extra"] = 0
        if r["kind"] == "flat":
            return r, 512, False
        # the grain directory is mapping metadata even where the generator leaves it sparse: 8 bytes per grain table at most
        ngt = -(-(-(-r["cap"] // r["gs"])) // r["gte"])
        r.setdefault("info", {})["gd_bytes"] = 8 * ngt + 4096
        return r, r["gs"] * 512, r["kind"] == "kdmv_stream"
    kn = {}
    if rng.random() < 0.25:          # the largest cluster sizes: one L2 table is as large as a cluster (caches sized by bytes must still hold it)
        kn = {"cluster_bits": rng.choice([20, 21]), "ext": rng.random() < 0.5, "comp": False, "size": rng.choice([3, 5, 9]) << 21}
    r = mod("gen_qcow2").gen_recipe(rng, "quick", nsnaps=0, backing="none",
                                    jumps=sorted(rng.sample([F32, (1 << 36) + (1 << 33), 1 << 40, 1 << 47, 1 << 55], rng.choice([1, 2]))), **kn)
    return r, 1 << r["cluster_bits"], True


def generate(seed, tier):
    rng = random.Random(f"C13/{seed}/{tier}")
    per = 24 if tier == "quick" else 320
    cases = []
    for cls in CLASSES:
        m = mod(cls)
        crng = random.Random(f"C13/{seed}/{tier}/{cls}")
        for i in range(per):
            r, unit, comp = far_recipe(cls, crng, tier)
            case = {"id": f"{cls}-{i}", "cls": cls, "recipe": r, "align": 8192, "unit": unit, "comp": comp}
            try:
                size, _, ss = m.truth_reader(case)
            except Exception:  # noqa
                continue
            qs = []
            for _ in range(6):
                k = crng.choice(["edge", "edge", "end", "rand", "start"])
                if k == "edge":
                    u = crng.randrange(max(1, size // unit + 1)) * unit
                    off = max(0, min(size - 1, u + crng.choice([-1, 0, 1, -512, 512])))
                elif k == "end":
                    off = max(0, size - crng.randrange(1, min(size, 200000) + 1))
                elif k == "start":
                    off = 0
                else:
                    off = crng.randrange(size)
                ln = crng.choice([1, 512, 4096, 8192, 70000, 300000])
                qs.append(["o", off, ln])
            case["queries"] = qs
            cases.append(case)
    # directed: Parallels v2 images whose *virtual size* needs more than 32 bits of sectors (>= 2 TiB): 32 MiB clusters, a sparse BAT
    # with the first, a middle and the last cluster allocated; requests at the start, around 2 TiB and at the very end
    wrng = random.Random(f"C13/{seed}/{tier}/c06-wide")
    for i, size in enumerate([(1 << 32) + 5, (1 << 32) + 3 * 65536 + 7, 3 << 31, (1 << 33) + 12345][: 4 if tier == "quick" else 4]):
        spc = 65536
        ncl = (size + spc - 1) // spc
        first = (64 + 4 * ncl + spc * 512 - 1) // (spc * 512)
        phys = {"0": first, str(ncl // 2): first + 2, str((1 << 32) // spc): first + 1, str(ncl - 1): first + 3}
        l = {"ver": 2, "spc": spc, "ncl": ncl, "size": size, "phys": phys, "seed": wrng.randrange(256), "skew": 0, "unused": 0}
        case = {"id": f"c06-wide-{i}", "cls": "c06", "recipe": {"layers": [l]}, "align": 8192, "unit": spc * 512, "comp": False}
        tot = size * 512
        case["queries"] = [["o", 0, 4096], ["o", (1 << 41) - 4096, 8192], ["o", (1 << 41) + 512, 70000], ["o", tot - 300000, 300000],
                           ["o", tot - 1, 1], ["o", (ncl // 2) * spc * 512 + 511, 8192]]
        cases.append(case)
    return cases


def _meta_bytes(files) -> int:
    return sum(sn for im in files.values() for so, sn, kind, arg in im.segs if kind == "hex")


def _far(files) -> bool:
    return any(so + sn > F32 for im in files.values() for so, sn, kind, arg in im.segs)


def build(case):
    m = mod(case["cls"])
    b = m.build(dict(case, queries=[]))
    size, reader, ss = m.truth_reader(case)
    content = core.truth_ops(size, reader, case["queries"], sector_size=ss)
    meta = _meta_bytes(b.files) + (case["recipe"].get("info", {}).get("gd_bytes", 0) if isinstance(case["recipe"], dict) else 0)
    b.truth = content + ["IO-ok"] * (len(case["queries"]) + 1) + ["FP-ok"] * len(case["queries"])
    b.info.update({"meta": meta, "far": _far(b.files), "branches": [case["cls"], "far" if _far(b.files) else "near"],
                   "vsize": size, "maxoff": max((im.size for im in b.files.values()), default=0)})
    b.nq = len(case["queries"])
    return b


FP_CLASSES = ("c05", "c04", "c06", "c03", "c02", "c01")     # classes with a proved footprint (HvProofs/Footprint*.lean)
NO_OPENFP = ("c02", "c01")                                    # no separate open-footprint line (QCOW2: the L1 table comes with every footprint line)


def _enlarged(q, align):
    """the request as the AlignedStream issues it to `_read`: whole buffer blocks (not clamped to the size: `_fill_buf` is not)"""
    a = q[1] // align * align
    e = -(-(q[1] + q[2]) // align) * align
    return a, e - a


def fp_lines(case, built):
    """driver commands evaluating the footprint of every query (enlarged to the buffer alignment)"""
    cls = case["cls"]
    if cls not in FP_CLASSES:
        return []
    out = []
    for q in case["queries"]:
        a, n = _enlarged(q, case["align"])
        if cls == "c05":
            out.append(f"vdi.footprint a {'p' if 'p' in built.files else '-'} {a} {n}")
        elif cls == "c04":
            out.append(f"vhd.footprint a {a} {n}")
        elif cls == "c03":
            out.append(f"vhdx.footprint {a} {n} " + " ".join(sorted(built.files)))
        elif cls == "c02":
            out.append(f"vmdk.footprint {a} {n} a")
        elif cls == "c01":
            out.append(f"qcow2.footprint {case['align']} {a} {n} " + " ".join(built.info["tokens"]))
        else:
            out.append(f"hds.footprint {a} {n} " + " ".join(f"l{k}" for k in range(len(built.files))))
    # what the constructor (in the model) looks at: the real code may load the same tables lazily, inside the first request
    if cls == "c05":
        out.append("vdi.openfp a")
    elif cls == "c04":
        out.append("vhd.openfp a")
    elif cls == "c03":
        out += [f"vhdx.openfp {k}" for k in sorted(built.files)][:1]     # compared with the reads of the constructor (single-layer images)
    elif cls in NO_OPENFP:
        pass
    else:
        out += [f"hds.openfp l{k}" for k in range(len(built.files))]
    return out


def _ranges(tok_list):
    rs = []
    for t in tok_list:
        if t:
            o, n = t.split(":")
            rs.append((int(o), int(n)))
    return rs


def parse_fp(cls, line):
    """-> [ranges per backing handle, in the order the handles are opened] or None"""
    if not line or not line.startswith("ok"):
        return None
    body = line[2:].strip()
    if cls in ("c02", "c01"):
        kv = dict(part.split("=", 1) for part in body.split(";") if "=" in part)
        rng = lambda key: _ranges(kv.get(key, "").split(","))
        if cls == "c02":
            return [rng("io")]
        if "df=1" in body.split(";")[0]:
            return [rng("m") + rng("o"), rng("d")]
        return [rng("m") + rng("o") + rng("d")]
    if cls == "c06":
        per = []
        for part in body.split(";"):
            _, _, rs = part.partition("=")
            if rs == "?":
                return None
            per.append(_ranges(rs.split(",")))
        return per
    return [_ranges(body.split())]


def _merge(rs):
    out = []
    for o, n in sorted(r for r in rs if r[1] > 0):
        if out and o <= out[-1][1]:
            out[-1][1] = max(out[-1][1], o + n)
        else:
            out.append([o, o + n])
    return out


def fp_verdict(ranges_per_handle, trace_per_handle):
    """every recorded (pos, n) read lies inside the (merged) footprint of its handle"""
    checked = 0
    for h, calls in enumerate(trace_per_handle):
        m = _merge(ranges_per_handle[h]) if h < len(ranges_per_handle) else []
        for pos, n in calls:
            if n <= 0:
                continue
            checked += 1
            if not any(lo <= pos and pos + n <= hi for lo, hi in m):
                return f"FP:h{h}@{pos}+{n}", checked
    return "FP-ok", checked


def fp_bound_verdict(cls, line):
    """the theorem's footprint obeys its proved size bound (a sanity instance of io_bound_tables), and lies inside the widened one"""
    if cls not in ("c02", "c01") or not line or not line.startswith("ok"):
        return None
    kv = dict(part.split("=", 1) for part in line[2:].strip().split(";") if "=" in part)
    try:
        if cls == "c02":
            ok = int(kv["tot"]) <= int(kv["bound"])
            wide, narrow = _merge(_ranges(kv["io"].split(","))), _ranges(kv["fp"].split(","))
        else:
            ok = int(kv["tm"]) <= int(kv["bm"])
            wide, narrow = _merge(_ranges(kv["m"].split(","))), _ranges(kv["fm"].split(","))
    except (KeyError, ValueError):
        return "FP-bad-bound-line"
    if not ok:
        return "FP-bound"
    if not all(any(lo <= o and o + n <= hi for lo, hi in wide) for o, n in narrow if n > 0):
        return "FP-narrow-outside-wide"
    return None


def impl_run(case, built):
    m = mod(case["cls"])
    sparse.TRACK = []
    sparse.LOG_NEW = case["cls"] == "c03"
    try:
        try:
            s = m.open_impl(case, built)
        finally:
            sparse.LOG_NEW = False
        handles = list(sparse.TRACK)
        open_trace = [[list(c) for c in (h.calls or [])] for h in handles]
        for h in handles:
            h.calls = []                  # from here on every read() on a backing handle is logged as (pos, n)
        trace = []
        total = lambda: sum(h.bytes_read for h in handles)
        open_io = total()
        meta, align, unit = built.info["meta"], case["align"], case["unit"]
        io = ["IO-ok" if open_io <= meta + (64 << 10) else f"IO-open:{open_io}>{meta + (64 << 10)}"]
        answers, errors = [], {}
        for i, q in enumerate(case["queries"]):
            before = total()
            r = core.impl_ops(s, [q])
            answers += r["answers"]
            if r["errors"]:
                errors[str(i)] = list(r["errors"].values())[0]
                io += ["IO-ok"] * (len(case["queries"]) - i)
                break
            used = total() - before
            trace.append([[list(c) for c in h.calls] for h in handles])
            for h in handles:
                h.calls = []
            bound = meta + 2 * q[2] + 4 * align + (2 * unit if case["comp"] else 0) + (16 << 10)
            io.append("IO-ok" if used <= bound else f"IO:{used}>{bound}")
        return {"answers": answers + io + ["FP-ok"] * len(case["queries"]), "errors": errors, "open_io": open_io, "trace": trace,
                "open_trace": open_trace}
    finally:
        sparse.TRACK = None


def model_lines(case, built):
    m = mod(case["cls"])
    return (core.file_lines(built.files) + [m.open_line(case, built), m.stream_prefix(case, built) + " " + " ".join(core.op_tokens(case["queries"]))]
            + fp_lines(case, built))


def model_lines2(case, built, impl):
    """the footprint comparison needs what the implementation run observed: the per-request access log"""
    built.info["trace"] = impl.get("trace") if isinstance(impl, dict) else None
    built.info["open_trace"] = impl.get("open_trace") if isinstance(impl, dict) else None
    return model_lines(case, built)


def model_parse(case, built, out):
    wf = ("wf=1" in out[0]) if out and out[0].startswith("ok") else None
    ans = core.parse_stream_answer(out[1]) if len(out) > 1 else None
    fp, checked = [], 0
    trace = built.info.get("trace") or []
    nh = len(built.files) if case["cls"] == "c06" else 1
    has_open = case["cls"] in FP_CLASSES and case["cls"] not in NO_OPENFP
    opens = [parse_fp("c05", l) for l in out[2 + built.nq: 2 + built.nq + nh]] if has_open else []
    opens = [(o[0] if o else []) for o in opens]
    open_bad = None
    if case["cls"] == "c03":
        # VHDX: the constructor's own reads against Footprint.vhdxOpen; nothing of it is added to the per-request footprints
        ot = built.info.get("open_trace") or []
        if opens and ot and len(built.files) == 1:
            v0, k0 = fp_verdict([opens[0]], ot[:1])
            checked += k0
            if v0 != "FP-ok":
                open_bad = "open-" + v0
        opens = []
    for i in range(built.nq):
        v = "FP-ok"
        if case["cls"] in FP_CLASSES and i < len(trace) and len(out) > 2 + i:
            rs = parse_fp(case["cls"], out[2 + i])
            if rs is None:
                v = "FP-ok" if out[2 + i].startswith("err") else f"FP-bad:{out[2 + i][:40]}"
            else:
                rs = [r + (opens[h] if h < len(opens) else []) for h, r in enumerate(rs)]
                v, k = fp_verdict(rs, trace[i])
                checked += k
                if v == "FP-ok":
                    v = fp_bound_verdict(case["cls"], out[2 + i]) or v
        if i == 0 and open_bad and v == "FP-ok":
            v = open_bad
        fp.append(v)
    if checked and "fp-compared" not in built.info["branches"]:
        built.info["branches"] = built.info["branches"] + ["fp-compared"]
    built.info["fp_accesses"] = checked
    if ans is not None:
        ans = ans + ["IO-ok"] * (built.nq + 1) + fp
    return {"answers": ans, "wf": wf, "open": out[0] if out else None, "fp_accesses": checked}


def nontrivial(case, built, model):
    return built.info["far"]


def search(seed, broken, budget):
    return generate(seed + 900, "thorough")[: min(budget, 1500)]
