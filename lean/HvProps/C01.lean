/-
  C01 — QCOW2: every byte range reads as the guest-visible content.
-/
import Hv.Qcow2
namespace Hv.C01
open Hv Hv.Qcow2

theorem QCOW2_MAGIC_spec : Extracted.qcow2.QCOW2_MAGIC = 0x514649FB := by decide

end Hv.C01
