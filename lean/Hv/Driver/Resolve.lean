/-
  Hv.Driver.Resolve — driver commands for `Hv.Resolve` (C07: from stored names to the chain of layers).

  A directory layout is a list of entries with absolute, normalised paths (hex of the UTF-8 text):
    `D:<path>`            a directory
    `F:<path>:<file id>`  a regular file whose content is the driver file `<file id>`
-/
import Hv.Driver.Core
import Hv.Resolve
namespace Hv.Driver
open Hv Hv.Resolve

def hexToName (h : String) : Option Name :=
  if h = "-" then some [] else (parseHex h).bind (fun b => String.fromUTF8? b) |>.map (·.toList)

def nameToHex (n : Name) : String := if n = [] then "-" else hexOf (String.ofList n).toUTF8.toList

def pathHex (p : Path) : String := nameToHex p.render

def parseFsEntry (st : St) (t : String) : Option (List Name × Node File) :=
  match t.splitOn ":" with
  | ["D", p] => (hexToName p).map fun n => ((Path.ofStr n).parts, Node.dir)
  | ["F", p, id] => do
    let n ← hexToName p
    let f ← st.file? id
    some ((Path.ofStr n).parts, Node.file f)
  | _ => none

def mkLayoutFS {β : Type} (ents : List (List Name × Node β)) (cwd : List Name) : FS β :=
  { node := fun loc => (ents.find? (·.1 = loc)).map (·.2), cwd }

def fmtPathList (ps : List Path) : String := ",".intercalate (ps.map pathHex)

/-- `g>p` -/
def parseShotTok (t : String) : Option Meta.Shot :=
  match t.splitOn ">" with
  | [g, p] => do some ⟨← g.toNat?, ← p.toNat?⟩
  | _ => none

/-- `start:end:guid,typehex,filehex;guid,typehex,filehex…` -/
def parseStorageDesc (t : String) : Option Meta.Storage :=
  match t.splitOn ":" with
  | [a, b, imgs] => do
    let s ← a.toNat?
    let e ← b.toNat?
    let images ← (imgs.splitOn ";").filter (· ≠ "") |>.mapM fun it =>
      match it.splitOn "," with
      | [g, ty, f] => do
        let ty' ← hexToName ty
        let f' ← hexToName f
        some (⟨← g.toNat?, some (String.ofList ty'), some (String.ofList f')⟩ : Meta.Image)
      | _ => none
    some ⟨(s : Int), (e : Int), images⟩
  | _ => none

def resolveCmd (st : St) : List String → String
  | "resolve.vhdx" :: mode :: fuel :: align :: cwd :: start :: n :: rest =>
    -- `VHDX(Path(start))` in the layout; mode `s`: paths + the answers of a stream history on the opened object;
    -- mode `c`: paths + chainWfb + the history compared with the overlay of the resolved chain's layers
    match fuel.toNat?, align.toNat?, hexToName cwd, hexToName start, n.toNat? with
    | some fu, some a, some cw, some sp, some k =>
      match (rest.take k).mapM (parseFsEntry st) with
      | none => "bad-args"
      | some ents =>
        let fs := mkLayoutFS ents (Path.ofStr cw).parts
        match vhdxOpen fs fu (Path.ofStr sp) with
        | .error e => s!"err {e}"
        | .ok [] => "err other"
        | .ok ((p, v) :: more) =>
          let chain := (p, v) :: more
          let paths := fmtPathList (chain.map (·.1))
          if mode = "c" then
            let vs := chain.map (·.2)
            let wf := Vhdx.chainWfb vs
            s!"ok wf={if wf then 1 else 0} depth={vs.length} {paths} " ++
              checkStreamSpec v.read none 0 (Layers.overlay (Vhdx.chainLayers vs)) v.size a (rest.drop k)
          else
            s!"ok {paths} " ++ ((runStreamSec v.read (some (fun s c => v.readSectors c s c)) v.size a (rest.drop k)).drop 3).toString
    | _, _, _, _, _ => "bad-args"
  | "resolve.hdd" :: path :: null :: deftop :: guid :: top :: align :: nshots :: rest =>
    -- `HDD(Path(path)).open(guid)`: the snapshot chain and the image paths opened, storage by storage
    match hexToName path, null.toNat?, deftop.toNat?, align.toNat?, nshots.toNat? with
    | some pth, some nl, some dt, some a, some ns =>
      let shots := (rest.take ns).filterMap parseShotTok
      match (rest.drop ns) with
      | nst :: rest2 =>
        match nst.toNat? with
        | none => "bad-args"
        | some k =>
          match (rest2.take k).mapM parseStorageDesc, (rest2.drop k).mapM (parseFsEntry st) with
          | some storages, some ents =>
            if shots.length ≠ ns then "bad-args" else
            let fs := mkLayoutFS ents []
            let p := Path.ofStr pth
            let desc : Meta.Descriptor := ⟨storages, if top = "-" then none else top.toNat?, shots⟩
            let dir := hddDir fs p (fun _ => .ok desc) (fun v off len => do
              let (_, s0) ← (AS.init v.size a).seek off .set
              let (d, _) ← s0.read v.read len
              pure d)
            let g := if guid = "-" then none else guid.toNat?
            match HddOpen.open dir nl dt g with
            | .error e => s!"err {e}"
            | .ok _ =>
              let g' := match g with | some x => x | none => match desc.topGuid with | some t => t | none => dt
              match Hdd.snapshotChain (shots.map fun s => (s.guid, s.parent)) nl g' with
              | .error e => s!"err {e}"
              | .ok chain =>
                match hddOpenedPaths fs (hddRoot fs p) chain storages with
                | .error e => s!"err {e}"
                | .ok paths => s!"ok {",".intercalate (chain.map toString)} {fmtPathList paths}"
          | _, _ => "bad-args"
      | [] => "bad-args"
    | _, _, _, _, _ => "bad-args"
  | "resolve.vmdk" :: dir :: hint :: ents =>
    match hexToName dir, hexToName hint, ents.mapM (parseFsEntry st) with
    | some d, some h, some es =>
      let fs := mkLayoutFS es []
      let p := vmdkParentPath fs (Path.ofStr d) h
      s!"ok {pathHex p} {if fs.isFile p then 1 else 0}"
    | _, _, _ => "bad-args"
  | "resolve.path" :: ops =>
    -- pathlib sanity: `resolve.path <hex> [j:<hex> | p | n]…` → str of the result
    match ops with
    | [] => "bad-args"
    | s :: more =>
      match hexToName s with
      | none => "bad-args"
      | some s0 =>
        let r := more.foldl (fun (acc : Option Path) op =>
          match acc with
          | none => none
          | some p =>
            if op = "p" then some p.parent
            else if op = "n" then some (Path.ofStr p.name)
            else match op.splitOn ":" with
              | ["j", h] => (hexToName h).map p.joinStr
              | _ => none) (some (Path.ofStr s0))
        match r with
        | some p => s!"ok {pathHex p} {if p.abs then 1 else 0}"
        | none => "bad-args"
  | _ => "bad-cmd"

end Hv.Driver
