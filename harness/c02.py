"""C02 — VMDK extents (hosted sparse, footer, stream-optimised, COWD, SE-sparse, flat). Writer: gen_vmdk.py."""
from __future__ import annotations

import random

import core
import gen_vmdk
from core import Built

PROPERTY = "C02"
RULE = ("seeded generator (gen_vmdk.gen_extent): kind in kdmv / kdmv_footer / kdmv_stream (compressed, 12- and 4-byte grain "
        "headers) / cowd / sesparse / flat, capacity (1 sector .. ≥ 2^32 sectors, not a multiple of the grain size or of 16 "
        "sectors), grain size, grain-table size (1, 7, 96, 512, 4096), grain states, physical order, table placement incl. beyond "
        "sector 2^32, > 128 grain tables; requests at grain / table / extent edges ±1 / ±sector, spans, tail, full, as one history. "
        "Merged runs: every 11th case has a grain size of at least two stream buffers and a tight physical order in which logically "
        "consecutive grains lie exactly one grain size apart (stream-optimised: records on a grain-size raster, or packed records "
        "that fill a whole grain size; other kinds: sequential / identity placement), with requests that begin inside the first "
        "grain of such a run and end inside a later one (gen_vmdk.run_queries). "
        "Non-trivial = model WF, ≥ 2 grain states present, a request crossing a grain boundary; distinct recipe hash.")
ASSUMPTIONS = ["zlib inflate is a parameter of the theorems; the driver instantiates it with Hv/Prim/Inflate.lean (checked against zlib by this correspondence)",
               "dissect.util AlignedStream as transcribed", "lru_cache transparency (file immutable)", "cstruct parsing (layouts re-probed)"]
TIMEOUT_CASE = 40.0


def generate(seed, tier):
    rng = random.Random(f"C02/{seed}/{tier}")
    n = 220 if tier == "quick" else 3000
    cases = []
    kinds = ["kdmv", "kdmv_footer", "kdmv_stream", "cowd", "sesparse", "flat"]
    for i in range(n):
        if i % 11 == 5:
            cases.append(merged_run_case(rng, tier, f"r{i}", 9 if tier == "quick" else 14))
            continue
        r = gen_vmdk.gen_extent(rng, tier, kind=kinds[(i // 3 + i) % len(kinds)] if i % 3 else None)
        if r["kind"] == "flat":
            r["extra"] = 0          # a bare flat handle takes its size from the file
        size = r["cap"] * 512
        pts = gen_vmdk.extent_points(r)
        qs = [["o", o, l] for o, l in gen_vmdk.gen_queries(rng, size, pts, 9 if tier == "quick" else 14) + gen_vmdk.hot_queries(r)]
        align = rng.choice([8192] * 6 + [512, 1536, 4096, 65536, 1 << 20])
        cases.append({"id": f"g{i}", "recipe": r, "align": align, "queries": qs})
    return cases


def merged_run_case(rng, tier, cid, nq):
    """an extent whose grains are at least two stream buffers long and physically consecutive in logical order, so that requests
    reach get_runs / read_sectors in the middle of a grain and leave it in the middle of a later grain of the same run"""
    align = rng.choice([512, 512, 1536, 4096, 8192, 8192, 8192, 8192])
    gs = rng.choice([g for g in (8, 16, 32, 64, 128, 128, 128) if g * 512 >= 2 * align])
    kind = rng.choice(["kdmv_stream"] * 5 + ["kdmv", "kdmv_footer", "cowd", "sesparse"])
    order = rng.choice(["stride", "packed", "packed"]) if kind == "kdmv_stream" else rng.choice(["seq", "seq", "ident"])
    for _ in range(8):                              # few grains / a thin allocation map may leave no two neighbours allocated
        r = gen_vmdk.gen_extent(rng, tier, kind=kind, huge=False, gs=gs, order=order)
        if gen_vmdk.merged_chains(r):
            break
    qs = gen_vmdk.gen_queries(rng, r["cap"] * 512, gen_vmdk.extent_points(r), nq) + gen_vmdk.hot_queries(r)
    # the same sector ranges through read_sectors directly (no stream buffer in between: any grain size is entered mid-grain)
    direct = [["S", o // 512, -(-(o % 512 + l) // 512)] for o, l in gen_vmdk.run_queries(r)[:3] if l > 0]
    return {"id": cid, "recipe": r, "align": align, "queries": [["o", o, l] for o, l in qs] + direct}


def group_by_env(cases):
    by = {}
    for c in cases:
        by.setdefault(c.get("align", 8192), []).append(c)
    return [({"DISSECT_STREAM_BUFFER_SIZE": a}, cs) for a, cs in sorted(by.items())]


def _mid_to_mid(q, align, gsz, size, chain):
    """does the block of whole stream buffers in the middle of request q reach the extent inside a grain of the merged run
    `chain` and end inside a later grain of it (neither on a grain boundary)?"""
    off, ln = q[1], min(q[2], max(0, size - q[1]))
    ms = -(-off // align) * align
    me = ms + (off + ln - ms) // align * align
    return me > ms and ms % gsz and me % gsz and chain[0] <= ms // gsz < me // gsz <= chain[1]


def build(case):
    r = case["recipe"]
    t = gen_vmdk.ExtentTruth(r)
    truth = core.truth_ops(t.size, t.read, case["queries"])
    gsz = r.get("gs", 16) * 512
    states = set()
    if r["kind"] != "flat":
        ng = (r["cap"] + r["gs"] - 1) // r["gs"]
        alloc = {int(g) for g in r["grains"]}
        states = {("a" if not isinstance(v, str) else v) for v in r["grains"].values()}
        if len(alloc) < ng:
            states.add("u")
    crosses = any(q[0] == "o" and q[2] > 0 and q[1] < t.size and q[1] // gsz != (min(q[1] + q[2], t.size) - 1) // gsz for q in case["queries"])
    branches = [r["kind"]] + sorted(str(s) for s in states) + sorted(k for k, v in r.get("info", {}).items() if v is True)[:8]
    if r["kind"] != "flat" and any(_mid_to_mid(q, case.get("align", 8192), gsz, t.size, ch) for ch in gen_vmdk.merged_chains(r) for q in case["queries"] if q[0] == "o"):
        branches.append("merged-run-mid-to-mid" + ("-compressed" if r["kind"] == "kdmv_stream" else ""))
    return Built({"a": t.image}, truth, {"branches": branches, "crosses": crosses, "in_scope": True, "states": len(states)})


def impl_run(case, built):
    from dissect.hypervisor.disk.vmdk import VMDK
    v = VMDK([built.files["a"].open("extent.vmdk")])
    if v.align != case["align"]:
        raise RuntimeError(f"stream align {v.align} != case align {case['align']}")
    return core.impl_ops_sec(v, case["queries"])


def model_lines(case, built):
    return core.file_lines(built.files) + ["vmdk.open a", f"vmdk.stream {case['align']} 1 a " + " ".join(core.op_tokens(case["queries"]))]


def model_parse(case, built, out):
    # wf = inside the hypotheses of the read theorems: every sparse extent satisfies WF (sparse_read_correct: wfU=1) or
    # WFc (compressed_read_correct: wfC=1, every allocated grain's record lies in the file and inflates to one grain)
    ok = bool(out) and out[0].startswith("ok")
    wf = (" thm=1" in out[0]) if ok else None
    if ok and "wfC=1" in out[0] and "in-WFc" not in built.info.get("branches", []):
        built.info["branches"] = built.info.get("branches", []) + ["in-WFc"]
    return {"answers": core.parse_stream_answer(out[1]) if len(out) > 1 else None, "wf": wf, "wfb": (" wf=1" in out[0]) if ok else None,
            "open": out[0] if out else None}


def nontrivial(case, built, model):
    return bool(model.get("wf")) and built.info["crosses"] and (built.info["states"] >= 2 or case["recipe"]["kind"] == "flat")


def search(seed, broken, budget):
    rng = random.Random(f"C02/search/{seed}")
    cases = []
    for i in range(min(budget, 1200)):
        if i % 5 == 4:
            cases.append(merged_run_case(rng, "quick", f"s{i}", 10))
            continue
        r = gen_vmdk.gen_extent(rng, "quick")
        if r["kind"] == "flat":
            r["extra"] = 0
        size = r["cap"] * 512
        qs = [["o", o, l] for o, l in gen_vmdk.gen_queries(rng, size, gen_vmdk.extent_points(r), 10) + gen_vmdk.hot_queries(r)]
        cases.append({"id": f"s{i}", "recipe": r, "align": rng.choice([8192, 512, 65536]), "queries": qs})
    return cases


# ---- adapters used by C08 / C13
def open_impl(case, built):
    from dissect.hypervisor.disk.vmdk import VMDK
    return VMDK([built.files["a"].open("extent.vmdk")])


def stream_prefix(case, built):
    return f"vmdk.stream {case['align']} 1 a"


def open_line(case, built):
    return "vmdk.open a"


def truth_reader(case):
    t = gen_vmdk.ExtentTruth(case["recipe"])
    return t.size, t.read, 512
