/-
  HvProofs.Resolve — lemmas about `Hv.Resolve` (C07: from stored names to the chain of layers).
-/
import Hv.Resolve
import HvProofs.Hdd
import HvProofs.Overlay
namespace Hv.Resolve
open Hv

/-! ### `VHDX.__init__`: the parent object only decides the BAT layout -/

theorem open_withParent (fh : File) (r : Vhdx.SectorReader) (v0 : Vhdx.Vhdx)
    (h : Vhdx.open fh none = .ok v0) : Vhdx.open fh (some r) = .ok (withParent v0 r) ∧ v0.fh = fh ∧ v0.parent = none := by
  unfold Vhdx.open at h ⊢
  simp only [bind, Except.bind, throw, throwThe, MonadExceptOf.throw, ite_not] at h ⊢
  repeat' (first | (cases h; done) | split at h)
  all_goals (simp only [*]; cases h; simp [withParent, Vhdx.Vhdx.sbCount, Vhdx.Vhdx.pbCount])


/-! ### files and paths -/

variable {α : Type}

theorem open_exists (fs : FS α) (p : Path) (c : α) (h : fs.open p = .ok c) : fs.exists p = true := by
  unfold FS.open at h
  unfold FS.exists
  split at h
  · rename_i hs; rw [hs]; rfl
  · cases h

theorem open_isFile (fs : FS α) (p : Path) (c : α) (h : fs.open p = .ok c) : fs.isFile p = true := by
  unfold FS.open at h
  unfold FS.isFile
  split at h
  · rfl
  · cases h

theorem not_exists_open (fs : FS α) (p : Path) (h : fs.exists p = false) : fs.open p = .error .other := by
  unfold FS.exists at h
  unfold FS.open
  cases hs : fs.stat p with
  | none => rfl
  | some n => rw [hs] at h; cases h

/-! ### `vhdx.open_parent` -/

/-- the path handed to `VHDX(…)`, when it exists, is the first existing candidate -/
theorem parentPath_find (fs : FS α) (dir : Path) (loc : List (Name × Name)) (pp : Path)
    (h : vhdxParentPath fs dir loc = .ok pp) (he : fs.exists pp = true) :
    (dictGet loc kRel).isSome ∧ (vhdxCandidates dir loc).find? fs.exists = some pp := by
  unfold vhdxParentPath at h
  unfold vhdxCandidates
  cases hr : dictGet loc kRel with
  | none => rw [hr] at h; cases h
  | some rel =>
    rw [hr] at h
    simp only at h
    by_cases hx : fs.exists (vhdxRelPath dir rel) = true
    · rw [if_pos hx] at h
      cases h
      simp [hx]
    · rw [if_neg hx] at h
      cases ha : dictGet loc kAbs with
      | none => rw [ha] at h; cases h
      | some a =>
        rw [ha] at h
        cases h
        simp [hx, he]

/-- … and conversely: the first existing candidate is what `open_parent` opens (given the mandatory key) -/
theorem find_parentPath (fs : FS α) (dir : Path) (loc : List (Name × Name)) (pp : Path)
    (hr : (dictGet loc kRel).isSome) (h : (vhdxCandidates dir loc).find? fs.exists = some pp) :
    vhdxParentPath fs dir loc = .ok pp := by
  unfold vhdxParentPath
  unfold vhdxCandidates at h
  cases hrel : dictGet loc kRel with
  | none => rw [hrel] at hr; cases hr
  | some rel =>
    rw [hrel] at h
    simp only [Option.map_some, Option.toList_some, List.singleton_append] at h ⊢
    by_cases hx : fs.exists (vhdxRelPath dir rel) = true
    · rw [if_pos hx]
      rw [List.find?_cons_of_pos (h := hx)] at h
      rw [Option.some.inj h]
    · rw [if_neg hx]
      rw [List.find?_cons_of_neg (h := hx)] at h
      cases ha : dictGet loc kAbs with
      | none => rw [ha] at h; simp at h
      | some a =>
        rw [ha] at h
        simp only [Option.map_some, Option.toList_some] at h
        by_cases hy : fs.exists (vhdxAbsPath dir a) = true
        · rw [List.find?_cons_of_pos (h := hy)] at h
          simp only
          rw [Option.some.inj h]
        · rw [List.find?_cons_of_neg (h := hy)] at h
          simp at h

/-- no candidate exists: whatever path is chosen cannot be opened -/
theorem parentPath_none (fs : FS α) (dir : Path) (loc : List (Name × Name)) (pp : Path)
    (hn : (vhdxCandidates dir loc).find? fs.exists = none) (h : vhdxParentPath fs dir loc = .ok pp) :
    fs.exists pp = false := by
  cases he : fs.exists pp with
  | false => rfl
  | true =>
    have := (parentPath_find fs dir loc pp h he).2
    rw [hn] at this
    cases this

/-! ### `VHDX(path)` with its chain of parents -/

theorem vhdxOpen_spec (fs : FS File) : ∀ (fuel : Nat) (p : Path) (chain : List (Path × Vhdx.Vhdx)),
    vhdxOpen fs fuel p = .ok chain →
      VhdxDesignates fs chain ∧ Vhdx.Linked (chain.map (·.2)) ∧ chain.head?.map (·.1) = some p := by
  intro fuel
  induction fuel with
  | zero => intro p chain h; cases h
  | succ fuel ih =>
    intro p chain h
    unfold vhdxOpen at h
    split at h
    · cases h
    · rename_i fh hfh
      split at h
      · cases h
      · rename_i v0 hv0
        obtain ⟨hw, hfh0, hpar0⟩ := open_withParent fh (fun _ _ => .error .other) v0 hv0
        split at h
        · rename_i hhp
          split at h
          · cases h
          · rename_i loc hloc
            split at h
            · cases h
            · rename_i pp hpp
              split at h
              · cases h
              · cases h
              · rename_i par rest hrec
                cases h
                obtain ⟨hd, hl, hh⟩ := ih pp (par :: rest) hrec
                simp only [List.head?_cons, Option.map_some, Option.some.injEq] at hh
                have hopen_par : ∃ c, fs.open par.1 = .ok c := by
                  cases rest with
                  | nil => exact ⟨_, hd.1⟩
                  | cons q r => exact ⟨_, hd.1⟩
                obtain ⟨c, hc⟩ := hopen_par
                have hex : fs.exists pp = true := by rw [← hh]; exact open_exists fs _ c hc
                obtain ⟨hk, hf⟩ := parentPath_find fs p.parent loc pp hpp hex
                have hw' := (open_withParent fh par.2.reader v0 hv0).1
                refine ⟨⟨?_, ?_, hhp, ⟨loc, hloc, hk, by rw [hh]; exact hf⟩, hd⟩, ⟨rfl, hl⟩, rfl⟩
                · show fs.open p = .ok (withParent v0 par.2.reader).fh
                  rw [hfh]; exact congrArg Except.ok hfh0.symm
                · show Vhdx.open (withParent v0 par.2.reader).fh (some par.2.reader) = .ok (withParent v0 par.2.reader)
                  have : (withParent v0 par.2.reader).fh = fh := hfh0
                  rw [this]; exact hw'
        · rename_i hhp
          cases h
          refine ⟨⟨?_, ?_, by simpa using hhp⟩, trivial, rfl⟩
          · show fs.open p = .ok v0.fh
            rw [hfh, hfh0]
          · show Vhdx.open v0.fh none = .ok v0
            rw [hfh0]; exact hv0

/-- a differencing image never comes back without its parent object -/
theorem vhdxOpen_parent (fs : FS File) (fuel : Nat) (p : Path) (q : Path × Vhdx.Vhdx) (rest : List (Path × Vhdx.Vhdx))
    (h : vhdxOpen fs fuel p = .ok (q :: rest)) (hp : q.2.hasParent = true) :
    ∃ par rest', rest = par :: rest' ∧ q.2.parent = some par.2.reader := by
  obtain ⟨hd, hl, _⟩ := vhdxOpen_spec fs fuel p _ h
  cases rest with
  | nil =>
    have := hd.2.2
    rw [hp] at this; cases this
  | cons par rest' => exact ⟨par, rest', rfl, hl.1⟩


/-! ### `get_snapshot_chain` -/

open Hdd in
/-- the GUIDs after `shot` on its way to the root -/
def PathFrom (shots : List (Nat × Nat)) (null : Nat) : Nat × Nat → List Nat → Prop
  | shot, [] => shot.2 = null
  | shot, b :: rest => shot.2 ≠ null ∧ ∃ p, Hdd.findShot shots shot.2 = some p ∧ p.1 = b ∧ PathFrom shots null p rest

theorem isPath_iff (shots : List (Nat × Nat)) (null : Nat) : ∀ (tail : List Nat) (a : Nat),
    IsPath shots null (a :: tail) ↔ ∃ s, Hdd.findShot shots a = some s ∧ PathFrom shots null s tail := by
  intro tail
  induction tail with
  | nil => intro a; simp [IsPath, PathFrom]
  | cons b rest ih =>
    intro a
    simp only [IsPath, PathFrom]
    constructor
    · rintro ⟨⟨s, hs, hn, hb⟩, hrest⟩
      obtain ⟨s', hs', hp⟩ := (ih b).mp hrest
      exact ⟨s, hs, hn, s', by rw [hb]; exact hs', (Hdd.findShot_mem hs').1, hp⟩
    · rintro ⟨s, hs, hn, p, hp, hpb, hrest⟩
      have hb : s.2 = b := by rw [← hpb]; exact (Hdd.findShot_mem hp).1.symm
      exact ⟨⟨s, hs, hn, hb⟩, (ih b).mpr ⟨p, by rw [← hb]; exact hp, hrest⟩⟩

theorem pathFrom_mem (shots : List (Nat × Nat)) (null : Nat) : ∀ (tail : List Nat) (s : Nat × Nat),
    PathFrom shots null s tail → ∀ x ∈ tail, x ∈ shots.map (·.1) := by
  intro tail
  induction tail with
  | nil => intro s _ x hx; cases hx
  | cons b rest ih =>
    intro s h x hx
    obtain ⟨_, p, hp, hpb, hrest⟩ := h
    rcases List.mem_cons.mp hx with rfl | hx
    · rw [← hpb]; exact (Hdd.findShot_mem hp).2
    · exact ih p hrest x hx

theorem nodup_reverse' (l : List Nat) (h : l.Nodup) : l.reverse.Nodup := by
  unfold List.Nodup at *
  rw [List.pairwise_reverse]
  exact h.imp (fun hab => fun e => hab e.symm)

theorem chainLoop_sound (shots : List (Nat × Nat)) (null : Nat) : ∀ (fuel : Nat) (shot : Nat × Nat) (acc chain : List Nat),
    Hdd.chainLoop shots null fuel shot acc = .ok chain →
      ∃ tail, chain = acc.reverse ++ tail ∧ PathFrom shots null shot tail ∧ (acc.Nodup → chain.Nodup) := by
  intro fuel
  induction fuel with
  | zero => intro shot acc chain h; cases h
  | succ fuel ih =>
    intro shot acc chain h
    unfold Hdd.chainLoop at h
    split at h
    · rename_i hn
      cases h
      exact ⟨[], by simp, hn, fun hnd => nodup_reverse' _ hnd⟩
    · rename_i hn
      split at h
      · cases h
      · rename_i p hp
        split at h
        · cases h
        · rename_i hc
          obtain ⟨tail, hch, hpf, hnd⟩ := ih p (p.1 :: acc) chain h
          refine ⟨p.1 :: tail, by rw [hch]; simp, ⟨hn, p, hp, rfl, hpf⟩, fun hacc => hnd ?_⟩
          exact List.nodup_cons.mpr ⟨by simpa using hc, hacc⟩

theorem chainLoop_complete (shots : List (Nat × Nat)) (null : Nat) : ∀ (fuel : Nat) (shot : Nat × Nat) (acc tail : List Nat),
    PathFrom shots null shot tail → (acc.reverse ++ tail).Nodup → tail.length < fuel →
      Hdd.chainLoop shots null fuel shot acc = .ok (acc.reverse ++ tail) := by
  intro fuel
  induction fuel with
  | zero => intro shot acc tail _ _ hl; omega
  | succ fuel ih =>
    intro shot acc tail hp hnd hl
    unfold Hdd.chainLoop
    cases tail with
    | nil =>
      have : shot.2 = null := hp
      rw [if_pos this]; simp
    | cons b rest =>
      obtain ⟨hn, p, hfp, hpb, hrest⟩ := hp
      rw [if_neg hn, hfp]
      simp only
      have hnb : ¬ acc.contains p.1 = true := by
        rw [hpb]
        intro hc
        have hmem : b ∈ acc.reverse := by simpa using hc
        have := (List.nodup_append.mp hnd).2.2 b hmem b (by simp)
        exact this rfl
      rw [if_neg hnb]
      have e : acc.reverse ++ b :: rest = (p.1 :: acc).reverse ++ rest := by rw [hpb]; simp
      rw [e]
      apply ih p (p.1 :: acc) rest hrest
      · rw [← e]; exact hnd
      · simp only [List.length_cons] at hl; omega

/-- **`get_snapshot_chain(guid)` returns `chain` exactly when `chain` is the duplicate-free ParentGUID path from `guid` to a
    root shot** -/
theorem snapshotChain_ok_iff (shots : List (Nat × Nat)) (null g : Nat) (chain : List Nat) :
    Hdd.snapshotChain shots null g = .ok chain ↔ chain.head? = some g ∧ IsPath shots null chain ∧ chain.Nodup := by
  constructor
  · intro h
    unfold Hdd.snapshotChain at h
    split at h
    · cases h
    · rename_i s hs
      obtain ⟨tail, hch, hpf, hnd⟩ := chainLoop_sound shots null _ s [s.1] chain h
      have hg := (Hdd.findShot_mem hs).1
      have hch' : chain = g :: tail := by rw [hch, hg]; rfl
      refine ⟨by rw [hch']; rfl, ?_, hnd (by simp)⟩
      rw [hch']
      exact (isPath_iff shots null tail g).mpr ⟨s, hs, hpf⟩
  · rintro ⟨hh, hp, hnd⟩
    cases chain with
    | nil => cases hh
    | cons a tail =>
      simp only [List.head?_cons, Option.some.injEq] at hh
      subst hh
      obtain ⟨s, hs, hpf⟩ := (isPath_iff shots null tail a).mp hp
      have hmem := Hdd.findShot_mem hs
      unfold Hdd.snapshotChain
      rw [hs]
      simp only
      have hsub : ∀ x ∈ a :: tail, x ∈ shots.map (·.1) := by
        intro x hx
        rcases List.mem_cons.mp hx with rfl | hx
        · rw [← hmem.1]; exact hmem.2
        · exact pathFrom_mem shots null tail s hpf x hx
      have hlen := Hdd.nodup_subset_length (a :: tail) (shots.map (·.1)) hnd hsub
      simp only [List.length_cons, List.length_map] at hlen
      have := chainLoop_complete shots null (shots.length + 1) s [s.1] tail hpf
        (by rw [hmem.1]; exact hnd) (by omega)
      rw [this, hmem.1]; rfl

theorem chainLoop_err (shots : List (Nat × Nat)) (null : Nat) : ∀ (fuel : Nat) (shot : Nat × Nat) (acc : List Nat) (e : Err),
    Hdd.chainLoop shots null fuel shot acc = .error e → e = .nonTermination ∨ e = .index ∨ e = .value := by
  intro fuel
  induction fuel with
  | zero => intro shot acc e h; cases h; exact Or.inl rfl
  | succ fuel ih =>
    intro shot acc e h
    unfold Hdd.chainLoop at h
    split at h
    · cases h
    · split at h
      · cases h; exact Or.inr (Or.inl rfl)
      · split at h
        · cases h; exact Or.inr (Or.inr rfl)
        · exact ih _ _ _ h

/-- the only failures of `get_snapshot_chain`: KeyError (a GUID on the walk is not a shot) and ValueError (a cycle) -/
theorem snapshotChain_err (shots : List (Nat × Nat)) (null g : Nat) (e : Err)
    (h : Hdd.snapshotChain shots null g = .error e) : e = .index ∨ e = .value := by
  have ht := Hdd.snapshotChain_terminates shots null g
  unfold Hdd.snapshotChain at h ht
  split at h
  · cases h; exact Or.inl rfl
  · rename_i s hs
    rw [hs] at ht
    rcases chainLoop_err shots null _ _ _ e h with rfl | h2
    · exact absurd h ht
    · exact h2

/-! ### `HDD._open_image` -/

theorem hddImagePath_spec (fs : FS α) (root : Path) (file : Name) :
    hddImagePath fs root file =
      if (Path.ofStr file).abs then
        if fs.exists (Path.ofStr file) then Path.ofStr file
        else ((hddCandidates root (Path.ofStr file)).find? fs.exists).getD
          (((root.parent.parent.joinStr (Path.ofStr file).parent.parent.name).joinStr (Path.ofStr file).parent.name).joinStr
            (Path.ofStr file).name)
      else root.join (Path.ofStr file) := by
  unfold hddImagePath hddCandidates
  simp only
  by_cases ha : (Path.ofStr file).abs = true
  · simp only [ha, if_true]
    by_cases he : fs.exists (Path.ofStr file) = true
    · simp only [he, if_true]
    · simp only [he]
      by_cases h1 : fs.exists (root.joinStr (Path.ofStr file).name) = true
      · simp [h1]
      · by_cases h2 : fs.exists ((root.parent.joinStr (Path.ofStr file).parent.name).joinStr (Path.ofStr file).name) = true
        · simp [h1, h2]
        · by_cases h3 : fs.exists (((root.parent.parent.joinStr (Path.ofStr file).parent.parent.name).joinStr
              (Path.ofStr file).parent.name).joinStr (Path.ofStr file).name) = true
          · simp [h1, h2, h3]
          · simp [h1, h2, h3]
  · simp [ha]

open HddOpen in
/-- every image of the chain was found, names a file, and `_open_image` could open it -/
theorem openLayers_files (d : Dir) (s : Meta.Storage) (gs : List Nat) (stream r : Option Reader)
    (h : openLayers d s gs stream = .ok r) :
    ∀ g ∈ gs, ∃ image name fh, findImage s g = .ok image ∧ image.file = some name ∧ d.openImage name = .ok fh := by
  induction gs generalizing stream with
  | nil => intro g hg; cases hg
  | cons g0 gs ih =>
    unfold openLayers at h
    split at h
    · cases h
    · rename_i image hi
      split at h
      · cases h
      · rename_i name hname
        split at h
        · cases h
        · rename_i fh hfh
          intro g hg
          split at h
          · split at h
            · cases h
            · rcases List.mem_cons.mp hg with rfl | hm
              · exact ⟨image, name, fh, hi, hname, hfh⟩
              · exact ih _ h g hm
          · split at h
            · cases h
            · rcases List.mem_cons.mp hg with rfl | hm
              · exact ⟨image, name, fh, hi, hname, hfh⟩
              · exact ih _ h g hm

open HddOpen in
theorem openStorages_files (d : Dir) (chain : List Nat) (ss : List Meta.Storage)
    (r : List (Meta.Storage × Option Reader)) (h : openStorages d chain ss = .ok r) :
    ∀ s ∈ ss, ∀ g ∈ chain, ∃ image name fh, findImage s g = .ok image ∧ image.file = some name ∧ d.openImage name = .ok fh := by
  induction ss generalizing r with
  | nil => intro s hs; cases hs
  | cons s0 ss ih =>
    unfold openStorages at h
    split at h
    · cases h
    · rename_i stream hl
      split at h
      · cases h
      · rename_i rest hr
        intro s hs g hg
        rcases List.mem_cons.mp hs with rfl | hm
        · exact openLayers_files d s chain.reverse none stream hl g (by simpa using hg)
        · exact ih rest hr s hm g hg

/-! ### QCOW2: the backing handle is the caller's -/

theorem qcow2_open_backing (fh : File) (df : Option File) (bk : Option Qcow2.Reader) (allow : Bool)
    (infl : Bytes → Nat → Except Err Bytes) (q : Qcow2.QCow2) (h : Qcow2.open fh df bk allow infl = .ok q) :
    (q.backingName = none → q.backing = none) ∧
    (q.backingName.isSome → allow = true → q.backing = none) ∧
    (q.backingName.isSome → allow = false → bk.isSome ∧ q.backing = bk) := by
  unfold Qcow2.open at h
  cases hh : Qcow2.readHdr fh with
  | error e => rw [hh] at h; simp [bind, Except.bind] at h
  | ok hd =>
    rw [hh] at h
    simp only [bind, Except.bind] at h
    cases hg : hd.gate with
    | some e => rw [hg] at h; simp at h
    | none =>
      rw [hg] at h
      simp only at h
      split at h; · cases h
      split at h; · cases h
      split at h; · cases h
      rename_i v1 ex hex v2 dfile hdf v3 bb hbb
      obtain ⟨bname, bkk⟩ := bb
      simp only at h
      injection h with h
      subst h
      simp only
      by_cases hb : hd.bfOff ≠ 0
      · rw [if_pos hb] at hbb
        by_cases hc : bk.isNone = true ∧ ¬ allow = true
        · rw [if_pos hc] at hbb; cases hbb
        · rw [if_neg hc] at hbb
          injection hbb with hbb
          injection hbb with h1 h2
          subst h1; subst h2
          refine ⟨?_, ?_, ?_⟩
          · intro hn; cases hn
          · intro _ ha; simp [ha]
          · intro _ ha
            subst ha
            cases bk with
            | none => simp at hc
            | some b => simp
      · rw [if_neg hb] at hbb
        injection hbb with hbb
        injection hbb with h1 h2
        subst h1; subst h2
        refine ⟨fun _ => rfl, ?_, ?_⟩
        · intro hn; cases hn
        · intro hn; cases hn

end Hv.Resolve
