"""C10 — descriptor-driven multi-extent assembly: VMDK descriptors / handle lists (gen_vmdk.gen_disk),
Parallels storages (gen_hdd), and the extent-line grammar (regex model vs the live regex)."""
from __future__ import annotations

import os
import random
import shutil
import tempfile

import core
import gen_hdd
import gen_vmdk
from core import Built

PROPERTY = "C10"
RULE = ("four families. vdelta: gen_vmdk.gen_delta — a descriptor with a parent (parentCID / parentFileNameHint, parent in the same "
        "directory) naming 2..5 sparse extents of independent kinds / grain sizes / allocation maps over a parent disk whose content "
        "depends on the position (flat extents or any mix); a grain that an extent does not hold must show the parent at the absolute "
        "disk sector, i.e. every extent occupies exactly its own sector range of the parent too; requests at the not-held grains of "
        "the 2nd..n-th extent, across every extent boundary, tail. vmdk: gen_vmdk.gen_disk — 1..8 extents of mixed kinds (flat, VMFS, hosted sparse, VMFS sparse, "
        "SE-sparse, stream-optimised) and sizes, descriptor text variants (access modes, quoted names with spaces / unicode / "
        "quote-like characters, optional fields, CRLF, ddb entries) or explicit handle lists; requests straddling every extent "
        "boundary and the tail. hdd: Parallels directories with 1..4 storages (plain / expanding images, XML order shuffled, mostly not ascending by Start). "
        "line: extent lines rendered from abstract extents plus adversarial lines, parsed by the live regex and by the Lean "
        "regex model translated from it, and by the direct parser proved equal to it (compared inside the driver on every line, "
        "with its soundness check Raw.line = line ∧ validb); abstract extents (≈ 2/3 inside wfExtent) printed by printExtentLine "
        "and by an f-string, parsed back by both sides (instances of extent_line_roundtrip). Non-trivial = ≥ 2 extents/storages and a request crossing a boundary (disk families), "
        "or a line with ≥ 5 fields / special characters (line family); distinct recipe hash.")
ASSUMPTIONS = ["Python `re` backtracking semantics as implemented in Hv/Prim/Regex.lean (checked on every run against the live regex)",
               "str.strip / str.isspace / \\d tables extracted from the running interpreter", "pathlib name resolution (real temp directories on the implementation side)"]
TIMEOUT_CASE = 60.0


# --------------------------------------------------------------------------------------------- line family

def hexs(s: str) -> str:
    return s.encode("utf-8", "surrogatepass").hex()


ACCESS = ["RW", "RDONLY", "NOACCESS"]
TYPES = ["SPARSE", "ZERO", "FLAT", "VMFS", "VMFSSPARSE", "VMFSRDM", "VMFSRAW", "SESPARSE"]
WEIRD = ['a b', 'disk-s001.vmdk', 'ディスク.vmdk', 'a"b', '"', 'x" 5 "y', ' lead', 'trail ', 'tab\there', 'RW 5 FLAT', "q'#=x", 'é b', '1', '٣٤']


def gen_lines(rng, n):
    out = []
    for _ in range(n):
        k = rng.random()
        acc = rng.choice(ACCESS)
        sec = rng.choice([0, 1, 63, 4192256, 2 ** 32, 10 ** 12])
        ty = rng.choice(TYPES)
        name = rng.choice(WEIRD) if rng.random() < 0.5 else "".join(rng.choice("abcXYZ019 ._-") for _ in range(rng.randrange(1, 20)))
        if k < 0.45:
            line = f'{acc} {sec} {ty} "{name}"'
            extra = rng.choice([[], [], ["0"], ["2048"], ["0", "uuid-1"], ["7", "part-uuid", "dev-id"], ["x"], ["x", "y"]])
            line += "".join(" " + e for e in extra)
        elif k < 0.55:
            line = f"{acc} {sec} {ty}"
        else:
            # adversarial: mutate a good line
            line = f'{acc} {sec} {ty} "{name}" 5 u d'
            m = rng.choice(["dbl", "tab", "lower", "noquote", "trail", "lead", "extra", "digit", "badtype", "nbsp", "nl", "quote2", "empty"])
            if m == "dbl":
                line = line.replace(" ", "  ", 1)
            elif m == "tab":
                line = line.replace(" ", "\t", rng.randrange(1, 3))
            elif m == "lower":
                line = line.lower()
            elif m == "noquote":
                line = line.replace('"', "")
            elif m == "trail":
                line += rng.choice([" ", " z", ' "', "\t"])
            elif m == "lead":
                line = rng.choice([" ", "x", "#"]) + line
            elif m == "extra":
                line += " e1 e2"
            elif m == "digit":
                line = line.replace(str(sec), rng.choice(["٣٤", "1_0", "-1", "1.5", "0x10", "１２"]), 1)
            elif m == "badtype":
                line = line.replace(ty, rng.choice(["SPARSEX", "FLATS", "VMFSX", "SE", "VMFSSPARSES", ""]), 1)
            elif m == "nbsp":
                line = line.replace(" ", " ", 1)
            elif m == "nl":
                line = line + "\r"
            elif m == "quote2":
                line = line.replace('"', '""')
            elif m == "empty":
                line = f'{acc} {sec} {ty} ""'
        out.append(line)
    return out


SPEC_TOK = [None, None, "uuid-1", "part-uuid", "x", "123", "٣٤", 'a"b', "12a", "a b", "", "0", "é=#"]


def gen_specs(rng, n):
    """abstract extents for the round-trip theorem (extent_line_roundtrip): about two thirds inside `wfExtent`"""
    out = []
    for _ in range(n):
        name = rng.choice(WEIRD + ["", 'a"b c', "x=y #z", "nl\nx"]) if rng.random() < 0.5 else "".join(rng.choice("abcXYZ019 ._-=#") for _ in range(rng.randrange(1, 20)))
        uu = rng.choice(SPEC_TOK) if rng.random() < 0.5 else rng.choice([None, "uuid-1"])
        dv = rng.choice(SPEC_TOK) if rng.random() < 0.3 else (rng.choice([None, "dev-id"]) if uu is not None else None)
        out.append({"acc": rng.choice(ACCESS + ["rw"] * (rng.random() < 0.05)), "sec": rng.choice([0, 1, 63, 4192256, 2 ** 32, 10 ** 12, rng.getrandbits(40)]),
                    "ty": rng.choice(TYPES + ["FLATX"] * (rng.random() < 0.05)), "fn": None if rng.random() < 0.15 else name,
                    "st": rng.choice([None, 0, 2048, rng.getrandbits(33)]), "uu": uu, "dv": dv})
    return out


def render_spec(sp):
    line = f'{sp["acc"]} {sp["sec"]} {sp["ty"]}'
    if sp["fn"] is not None:
        line += f' "{sp["fn"]}"'
    for k in ("st", "uu", "dv"):
        if sp[k] is not None:
            line += f" {sp[k]}"
    return line


def spec_cmd(sp):
    o = lambda v: "N" if v is None else "S" + hexs(v)  # noqa: E731
    return f'desc.roundtrip {hexs(sp["acc"])} {sp["sec"]} {hexs(sp["ty"])} {o(sp["fn"])} {"N" if sp["st"] is None else sp["st"]} {o(sp["uu"])} {o(sp["dv"])}'


def gen_desc_text(rng):
    """a descriptor text with awkward but legal content"""
    lines = ["# Disk DescriptorFile", "version=1", f"CID={rng.getrandbits(32):08x}", "parentCID=ffffffff",
             f'createType="{rng.choice(["twoGbMaxExtentSparse", "monolithicFlat", "vmfs"])}"']
    for _ in range(rng.randrange(0, 4)):
        k = rng.choice(["ddb.adapterType", "ddb.geometry.sectors", "ddb.comment", "ddb.uuid", "foo", "Foo", "parentFileNameHint", "a.b", "ddb.x y"])
        v = rng.choice(["ide", "63", "a=b=c", " spaced ", 'q"uote', "x\u2028y", "ff\x0cff", "", "ü", "#nothash"])
        q = rng.choice(['{}="{}"', "{}={}", '{} = "{}"', "{}  =  {}", '{}="{}" '])
        lines.append(q.format(k, v))
    for l in gen_lines(rng, rng.randrange(0, 5)):
        lines.append(l)
    for _ in range(rng.randrange(0, 3)):
        lines.insert(rng.randrange(len(lines) + 1), rng.choice(["", "   ", "# comment", "#", "\t", "noequals", "=", "=x", "RW", "RW ", "RDONLY 5"]))
    sep = rng.choice(["\n", "\n", "\r\n", "\n\n"])
    return sep.join(lines) + rng.choice(["", "\n"])


def impl_desc(text):
    from dissect.hypervisor.disk.vmdk import DiskDescriptor
    d = DiskDescriptor.parse(text)

    def o(v):
        return "N" if v is None else ("S" + hexs(v) if isinstance(v, str) else str(v))
    ex = "|".join(f"{hexs(e.access_mode)},{e.sectors},{hexs(e.type)},{o(e.filename)},{o(e.start_sector)},{o(e.partition_uuid)},{o(e.device_identifier)}" for e in d.extents)
    kv = lambda m: ";".join(f"{hexs(k)}={hexs(v)}" for k, v in m.items())  # noqa: E731
    return f"ok sectors={d.sectors} extents=[{ex}] attr=[{kv(d.attr)}] ddb=[{kv(d.ddb)}]"


def impl_line(line):
    from dissect.hypervisor.disk.vmdk import RE_EXTENT_DESCRIPTOR, ExtentDescriptor
    m = RE_EXTENT_DESCRIPTOR.search(line)
    if not m:
        return "none"
    e = ExtentDescriptor(raw=line, **m.groupdict())

    def o(v):
        return "N" if v is None else ("S" + hexs(v) if isinstance(v, str) else str(v))
    return f"ok {hexs(e.access_mode)},{e.sectors},{hexs(e.type)},{o(e.filename)},{o(e.start_sector)},{o(e.partition_uuid)},{o(e.device_identifier)}"


# --------------------------------------------------------------------------------------------- generation

def generate(seed, tier):
    rng = random.Random(f"C10/{seed}/{tier}")
    cases = []
    nv = 90 if tier == "quick" else 1200
    for i in range(nv):
        r = gen_vmdk.gen_disk(rng, tier)
        t = gen_vmdk.DiskTruth(r)
        qs = [["s", 0, 2]] + ([["o", o, l] for o, l in gen_vmdk.gen_queries(rng, t.size, t.points(), 8 if tier == "quick" else 14)] if t.size else [])
        cases.append({"id": f"v{i}", "fam": "vmdk", "recipe": r, "align": rng.choice([8192] * 5 + [512, 4096, 65536]), "queries": qs})
    nd = 30 if tier == "quick" else 400
    for i in range(nd):
        r = gen_vmdk.gen_delta(rng, tier, n=rng.choice([2, 2, 3, 3, 4, 5]), where="same", base_kinds=["flat"] if rng.random() < 0.4 else None)
        t = gen_vmdk.DeltaTruth(r)
        qs = gen_vmdk.gen_queries(rng, t.size, t.points(), 8 if tier == "quick" else 14) + t.hot_queries()
        cases.append({"id": f"d{i}", "fam": "vdelta", "recipe": r, "align": rng.choice([8192] * 5 + [512, 4096, 65536]),
                      "queries": [["s", 0, 2]] + [["o", o, l] for o, l in qs]})
    nh = 50 if tier == "quick" else 700
    for i in range(nh):
        r = gen_hdd.gen_recipe(rng, tier, max_depth=1, disorder=0.6)
        t = gen_hdd.Truth(r)
        cases.append({"id": f"h{i}", "fam": "hdd", "recipe": r, "align": rng.choice([8192] * 5 + [512, 4096, 65536]),
                      "queries": [["s", 0, 2]] + gen_hdd.gen_queries(rng, t, 8 if tier == "quick" else 14)})
    cases += samename_cases(seed, tier)
    nl = 100 if tier == "quick" else 2500
    for i in range(nl):
        cases.append({"id": f"l{i}", "fam": "line", "recipe": {"lines": gen_lines(rng, 200), "texts": [gen_desc_text(rng) for _ in range(40)], "specs": gen_specs(rng, 60)}, "align": 8192, "queries": []})
    return cases


def samename_cases(seed, tier, tag="hs"):
    """directed family (own random stream, the same number of cases in every run): Parallels descriptors with 2..4 storages whose
    images have the SAME file name in every storage and differ only by their directory — every layout of gen_hdd.LAYOUTS (relative
    sub directories, absolute existing paths, absolute paths of a moved disk that _open_image relocates) x 2 / 3 / 4 storages,
    snapshot chains of depth 1..3 (several image GUIDs per storage, each of them again with the same name in every storage),
    storages of pairwise different sizes and contents. Requests: across every storage boundary, fully inside every storage (the
    later ones in particular), each storage exactly, everything, plus the usual mix. Truth = concatenation of each storage's own
    image chain (gen_hdd.Truth: the writer knows which file it put where)."""
    rng = random.Random(f"C10samename/{seed}/{tier}")
    cases = []
    k = 0
    for rep in range(1 if tier == "quick" else 4):
        for layout in gen_hdd.LAYOUTS:
            for nst in (2, 3, 4):
                depth = 1 + (k + rep) % 3
                for _ in range(30):
                    r = gen_hdd.gen_recipe(rng, tier, max_depth=depth, min_depth=depth, nst=nst, disorder=0.6)
                    if len({s["end"] - s["start"] for s in r["storages"]}) == nst:
                        break
                gen_hdd.relocate(r, layout, base=rng.choice(["image", "disk.hdd.0", "harddisk"]))
                t = gen_hdd.Truth(r)
                qs = [["s", 0, 2], ["o", 0, t.size]]
                for j, s in enumerate(r["storages"]):
                    a, e = s["start"] * 512, s["end"] * 512
                    qs.append(["o", a, e - a])                                              # the storage exactly
                    qs.append(["o", a + min(1, e - a - 1), max(1, (e - a) // 2)])           # fully inside
                    if j:
                        qs.append(["o", max(0, a - rng.choice([1, 512, 700])), rng.choice([2, 513, 1400, 9000])])   # across the boundary
                        qs.append(["o", e - min(e - a, rng.choice([1, 512, 513])), 100000])      # the end of a later storage and beyond
                cases.append({"id": f"{tag}{k}", "fam": "hdd", "recipe": r, "align": rng.choice([8192] * 3 + [512, 4096, 65536]),
                              "queries": qs + gen_hdd.gen_queries(rng, t, 4 if tier == "quick" else 8)})
                k += 1
    return cases


def group_by_env(cases):
    by = {}
    for c in cases:
        by.setdefault(c.get("align", 8192), []).append(c)
    return [({"DISSECT_STREAM_BUFFER_SIZE": a}, cs) for a, cs in sorted(by.items())]


def build(case):
    fam = case["fam"]
    r = case["recipe"]
    if fam == "line":
        lines = r["lines"]
        special = sum(1 for l in lines if len(l.split(" ")) >= 5 or any(ord(c) > 127 for c in l))
        b = Built({}, None, {"branches": ["line"], "in_scope": True, "special": special})
        b.truth = None          # no independent truth for arbitrary lines: implementation vs model only
        return b
    if fam == "vmdk":
        t = gen_vmdk.DiskTruth(r)
        truth = core.truth_ops(t.size, t.read, case["queries"])
        bounds = sorted({b for b, _, _ in t.ext} | {b + s for b, s, _ in t.ext})
        crosses = any(q[0] == "o" and any(q[1] < b < q[1] + q[2] for b in bounds[1:-1]) for q in case["queries"])
        info = dict(r.get("info", {}))
        info.update({"branches": [f"vmdk_{r['mode']}"] + sorted({e["type"] for e in r["extents"]}), "crosses": crosses, "in_scope": True,
                     "n": len(r["extents"])})
        # file ids: f<k>
        ids = {name: f"f{k}" for k, name in enumerate(t.files)}
        info["ids"] = ids
        files = {ids[name]: im for name, im in t.files.items()}
        b = Built(files, truth, info)
        b.t = t
        return b
    if fam == "vdelta":
        t = gen_vmdk.DeltaTruth(r)
        truth = core.truth_ops(t.size, t.read, case["queries"])
        bounds = sorted({b for b, _, _ in t.child.ext} | {t.size})
        crosses = any(q[0] == "o" and any(q[1] < b < q[1] + q[2] for b in bounds[1:-1]) for q in case["queries"])
        # does a request reach a grain that an extent other than the first does not hold (the parent answers)?
        later_parent = any(q[0] == "o" and q[2] > 0 and any(_touches_free(e, q[1], min(q[1] + q[2], t.size)) for e in t.child.ext[1:]) for q in case["queries"])
        ids = {("b", name): f"b{k}" for k, name in enumerate(t.base.files)}
        ids.update({("c", name): f"c{k}" for k, name in enumerate(t.child.files)})
        files = {ids["b", n]: im for n, im in t.base.files.items()}
        files.update({ids["c", n]: im for n, im in t.child.files.items()})
        b = Built(files, truth, {"branches": ["vmdk_delta", f"extents{min(len(t.child.ext), 4)}"] + sorted({e["type"] for e in r["child"]["extents"]}) +
                                 (["parent-under-later-extent"] if later_parent else []), "crosses": crosses, "in_scope": True, "n": len(t.child.ext), "ids": ids})
        b.t = t
        return b
    t = gen_hdd.Truth(r)
    truth = core.truth_ops(t.size, t.read, case["queries"])
    bounds = sorted({s["start"] * 512 for s in r["storages"]})
    crosses = any(q[0] == "o" and any(q[1] < b < q[1] + q[2] for b in bounds[1:]) for q in case["queries"])
    ids = {name: f"f{k}" for k, name in enumerate(t.files)}
    toks = []
    for tok in t.storage_tokens():
        a, e, kind, names = tok.split(":", 3)
        names = "+".join(("raw=" + ids[n[4:]]) if n.startswith("raw=") else ids[n] for n in names.split("+"))
        toks.append(f"{a}:{e}:{kind}:{names}")
    b = Built({ids[n]: im for n, im in t.files.items()}, truth,
              {"branches": ["hdd"] + sorted({l[0] for _, ls in t.st for l in ls}) + ([f"hdd_samename:{r['layout']}", f"hdd_depth{len(r['chain'])}"] if r.get("layout") else []), "crosses": crosses, "in_scope": True, "n": len(r["storages"]), "tokens": toks})
    b.t = t
    return b


def _touches_free(ext, a, b):
    """does [a, b) contain a byte of a grain that the extent (base, size, ExtentTruth) does not hold?"""
    base, size, t = ext
    a, b = max(a, base), min(b, base + size)
    if a >= b:
        return False
    gsz, grains = t.r["gs"] * 512, t.r["grains"]
    g0, g1 = (a - base) // gsz, (b - 1 - base) // gsz
    return any(grains.get(str(g)) in (None, "f") for g in (range(g0, g1 + 1) if g1 - g0 < 5000 else (g0, g1))) or g1 - g0 + 1 > len(grains)


def impl_run(case, built):
    fam = case["fam"]
    if fam == "line":
        r = case["recipe"]
        return {"answers": [impl_line(l) for l in r["lines"]] + [impl_desc(t) for t in r.get("texts", [])]
                + [f"rt {hexs(render_spec(sp))} {impl_line(render_spec(sp))}" for sp in r.get("specs", [])]}
    tmp = tempfile.mkdtemp(prefix="hvc10.")
    try:
        if fam == "vmdk":
            v = gen_vmdk.open_impl(built.t, tmp)
            return core.impl_ops_sec(v, case["queries"])
        if fam == "vdelta":
            from pathlib import Path

            from dissect.hypervisor.disk.vmdk import VMDK
            return core.impl_ops_sec(VMDK(Path(built.t.write(tmp))), case["queries"])
        from pathlib import Path

        from dissect.hypervisor.disk.hdd import HDD
        d = os.path.join(tmp, "x.pvm", "x.hdd")
        built.t.write_dir(d)
        s = HDD(Path(d)).open()
        return core.impl_ops(s, case["queries"])
    finally:
        shutil.rmtree(tmp, ignore_errors=True)


def model_lines(case, built):
    fam = case["fam"]
    a = case["align"]
    if fam == "line":
        r = case["recipe"]
        # per line: the regex model, then the direct parser (compared with the regex model inside the driver: `same=`,
        # and its own soundness `Raw.line = line ∧ validb`: `sound=`); per text: DiskDescriptor.parse; per abstract extent:
        # wfExtent, the printed line, and whether the regex model parses it back (`rt=`)
        return ([f"desc.line {hexs(l)}" for l in r["lines"]] + [f"desc.parse {hexs(t)}" for t in r.get("texts", [])]
                + [spec_cmd(sp) for sp in r.get("specs", [])] + [f"desc.linedirect {hexs(l)}" for l in r["lines"]])
    toks = " ".join(core.op_tokens(case["queries"]))
    if fam == "vmdk":
        t = built.t
        ids = built.info["ids"]
        if t.r["mode"] == "descriptor":
            names = [f"{hexs(n)}={ids[n]}" for n in t.files if n != t.descriptor_name]
            tail = f"{a} {ids[t.descriptor_name]} {len(names)} " + " ".join(names) + " " + toks
            return core.file_lines(built.files) + ["vmdk.desc.stream " + tail, "vmdk.desc.concatcheck " + tail]
        fids = [ids[n] for n in t.order]
        tail = f"{a} {len(fids)} " + " ".join(fids) + " " + toks
        return core.file_lines(built.files) + ["vmdk.stream " + tail, "vmdk.concatcheck " + tail]
    if fam == "vdelta":
        t = built.t
        ids = built.info["ids"]
        layers = [f"D:{ids[k, d.descriptor_name]}:" + "+".join(f"{hexs(n)}={ids[k, n]}" for n in d.files if n != d.descriptor_name) for k, d in (("b", t.base), ("c", t.child))]
        return core.file_lines(built.files) + [f"vmdk.desc.delta {a} 2 " + " ".join(layers) + " " + toks]
    st = built.info["tokens"]
    # second line (all disk families): the executable hypotheses of vmdk_concat_read_correct / storage_concat_read_correct
    # (layout contiguous / tiling, every extent inside its own read theorem, size = Σ) and the model's answers compared
    # with the pointwise specification `concat parts` — an instance of the theorem on this case
    tail = f"{a} {len(st)} " + " ".join(st) + " " + toks
    return core.file_lines(built.files) + ["hdd.stream " + tail, "hdd.concatcheck " + tail]


def model_parse(case, built, out):
    if case["fam"] == "line":
        r = case["recipe"]
        nl, nt, ns = len(r["lines"]), len(r.get("texts", [])), len(r.get("specs", []))
        out = list(out)
        ans = out[:nl + nt]
        inside = 0
        for o in out[nl + nt:nl + nt + ns]:
            f = o.split(" ", 3)
            if len(f) == 4 and f[0] in ("wf=0", "wf=1") and f[2].startswith("line="):
                if f[0] == "wf=1":
                    inside += 1
                    if f[1] != "rt=1":        # an instance of extent_line_roundtrip fails in the model
                        ans.append("SPEC-MISMATCH " + o)
                        continue
                ans.append(f"rt {f[2][5:]} {f[3]}")
            else:
                ans.append("BAD " + o)
        direct = out[nl + nt + ns:]
        for i, o in enumerate(direct):
            # instances of extent_line_direct_eq / parseRaw_sound
            if not (o.startswith("same=1 sound=1 ") and o[len("same=1 sound=1 "):] == out[i]):
                ans[i] = f"DIRECT-MISMATCH {o} | {out[i]}"
        if len(direct) != nl:
            ans.append("DIRECT-MISSING")
        return {"answers": ans, "wf": inside > 0, "spec_checked": inside, "direct_checked": len(direct)}
    ans = core.parse_stream_answer(out[0]) if out else None
    if case["fam"] == "vdelta":
        return {"answers": ans, "wf": ans is not None and ans != ["E"]}
    chk = out[1].split() if len(out) > 1 and out[1] else []
    if chk and chk[0] == "ok":
        wf = "wf=1" in chk
        marks = [m for m in chk[1:] if m in ("=", "!", "?")]
        if wf and ("!" in marks or len(marks) != len(ans or [])):
            # inside the theorem's hypotheses the model must equal the specification: report as a model difference
            return {"answers": ["SPEC-MISMATCH"] + marks, "wf": wf, "spec_checked": len(marks)}
        return {"answers": ans, "wf": wf, "spec_checked": len(marks) if wf else 0, "given_in_order": "given_in_order=1" in chk}
    return {"answers": ans, "wf": False}


def nontrivial(case, built, model):
    if case["fam"] == "line":
        return built.info["special"] > 20
    return built.info["n"] >= 2 and built.info["crosses"]


def search(seed, broken, budget):
    return generate(seed + 7777, "quick")
