/-
  Hv.VmdkComp — specification of stream-optimised (compressed) VMDK sparse extents.

  VMware Virtual Disk Format 1.1, "Stream-optimized compressed sparse extents": the sector a grain-table entry names
  starts a grain *record*: a header — `SparseGrainLBAHeaderOnDisk { uint64 lba; uint32 cmpSize }` (12 bytes) when the
  extent has embedded LBAs, else a bare `uint32 cmpSize` (4 bytes) — followed by `cmpSize` bytes of RFC 1951 data that
  inflate to the grain.  zlib is a parameter of the model (`Sparse.inflate`); what is assumed about it is stated as a
  predicate on the image: every allocated grain's record inflates to that grain's content (`WFc.inflates`).
-/
import Hv.Vmdk
namespace Hv.Vmdk
open Hv Hv.Extracted.vmdk

/-- length of the grain record header -/
def Sparse.cHdrLen (v : Sparse) : Nat :=
  if v.flags &&& SPARSEFLAG_EMBEDDED_LBA ≠ 0 then LBA_HDR_LEN else PLAIN_HDR_LEN

/-- `cmpSize` of the grain record that starts at sector `s` -/
def Sparse.cSize (v : Sparse) (s : Nat) : Nat :=
  if v.flags &&& SPARSEFLAG_EMBEDDED_LBA ≠ 0 then
    SparseGrainLBAHeaderOnDisk.cmp_size.decode
      (slice v.fh.byte (s * 512 + SparseGrainLBAHeaderOnDisk.cmp_size.off) SparseGrainLBAHeaderOnDisk.cmp_size.width)
  else leNat (slice v.fh.byte (s * 512) 4)

/-- the compressed data of the grain record that starts at sector `s` -/
def Sparse.cPayload (v : Sparse) (s : Nat) : Bytes :=
  slice v.fh.byte (s * 512 + v.cHdrLen) (v.cSize s)

/-- guest byte at disk-relative offset `o` of a compressed sparse extent; `content g` = the (inflated) data of guest
    grain `g`; `pc` = parent content by absolute byte offset -/
def Sparse.guestC (v : Sparse) (content : Nat → Bytes) (pc : Nat → UInt8) (o : Nat) : UInt8 :=
  let g := o / 512 / v.grainSize
  let gs := v.specGrain g
  if gs = 0 then (if v.parent.isSome then pc (v.sectorOffset * 512 + o) else 0)
  else if gs = 1 then 0
  else (content g).getD (o % (v.grainSize * 512)) 0

/-- well-formed compressed extent: as `WF`, with "allocated grains lie inside the file" replaced by "the record of
    every allocated grain lies inside the file and inflates to the grain's content" — at least the part of the grain
    that lies inside the capacity (the last grain of an extent whose capacity is not a multiple of the grain size may be
    stored short). -/
structure WFc (v : Sparse) (content : Nat → Bytes) : Prop where
  compressed : v.flags &&& SPARSEFLAG_COMPRESSED ≠ 0
  gs_pos : 0 < v.grainSize
  gt_pos : 0 < v.gtSize
  covers : v.nGrains ≤ v.gd.size * v.gtSize
  lookup : ∀ g, g < v.nGrains → v.lookupGrain g = .ok (v.specGrain g)
  record_in : ∀ g, g < v.nGrains → 1 < v.specGrain g →
    v.specGrain g * 512 + v.cHdrLen + v.cSize (v.specGrain g) ≤ v.fh.size
  inflates : ∀ g, g < v.nGrains → 1 < v.specGrain g →
    v.inflate (v.cPayload (v.specGrain g)) (v.grainSize * 512) = .ok (content g) ∧
      (min ((g + 1) * v.grainSize) v.capacity - g * v.grainSize) * 512 ≤ (content g).length

/-- the grain contents that the image itself determines (through `inflate`) -/
def Sparse.contentOf (v : Sparse) (g : Nat) : Bytes :=
  match v.inflate (v.cPayload (v.specGrain g)) (v.grainSize * 512) with
  | .ok b => b
  | .error _ => []

/-- executable form of `WFc v v.contentOf` -/
def Sparse.wfbC (v : Sparse) : Bool :=
  decide (v.flags &&& SPARSEFLAG_COMPRESSED ≠ 0) && decide (0 < v.grainSize) && decide (0 < v.gtSize) &&
  decide (v.nGrains ≤ v.gd.size * v.gtSize) &&
  (List.range v.nGrains).all (fun g =>
    decide (v.lookupGrain g = .ok (v.specGrain g)) &&
    (decide (v.specGrain g ≤ 1) ||
      (decide (v.specGrain g * 512 + v.cHdrLen + v.cSize (v.specGrain g) ≤ v.fh.size) &&
        (match v.inflate (v.cPayload (v.specGrain g)) (v.grainSize * 512) with
         | .ok b => decide ((min ((g + 1) * v.grainSize) v.capacity - g * v.grainSize) * 512 ≤ b.length)
         | .error _ => false))))

end Hv.Vmdk
