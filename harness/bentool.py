#!/usr/bin/env python3
"""bentool.py: behaviour-preserving changes (benign/<id>/{patch.diff,meta.json}) must NOT raise an alarm.

  bentool.py import /tmp/ben/Bk     copy <dir>/_ben/*/ into benign/<Bk>-<j>/
  bentool.py run <id> [Cxx ...]     apply the patch in a scratch worktree of /repo, run the quick checks of the properties that
                                    concern the changed files (or the ones named), record exit codes in benign/<id>/meta.json
A non-zero exit on a benign change is a false alarm of the machinery (or the change is not benign after all: then the replay
file says on which input) and has to be looked at by hand."""
import json
import os
import shutil
import sys
import tempfile
from pathlib import Path

sys.path.insert(0, os.path.dirname(os.path.abspath(__file__)))
from seedtool import sh  # noqa: E402

ROOT = Path(__file__).resolve().parent.parent
BEN = ROOT / "benign"
BY_FILE = {
    "qcow2": "C01 C07 C08 C11 C12 C13 C14 C09", "vmdk": "C02 C07 C08 C10 C11 C12 C13 C14 C09",
    "vhdx": "C03 C07 C08 C11 C12 C13 C14 C09", "vhd": "C04 C08 C11 C13 C09", "vdi": "C05 C07 C08 C11 C12 C13 C09",
    "hdd": "C06 C07 C08 C10 C11 C12 C13 C14 C19 C09", "hyperv": "C17 C11 C12 C09", "vmx": "C15 C18 C12 C09",
    "envelope": "C16 C12 C11 C09", "ovf": "C18 C19 C09", "vbox": "C18 C19 C09", "pvs": "C18 C19 C09", "vmtar": "C20 C11 C12 C09",
}


def props_for(files):
    out = []
    for f in files:
        stem = Path(f).stem
        stem = stem[2:] if stem.startswith("c_") else stem
        for p in BY_FILE.get(stem, "").split():
            if p not in out:
                out.append(p)
    return out


def do_import(src):
    src = Path(src)
    for d in sorted((src / "_ben").iterdir()):
        if (d / "patch.diff").exists():
            dst = BEN / f"{src.name}-{d.name}"
            dst.mkdir(parents=True, exist_ok=True)
            for n in ("patch.diff", "meta.json"):
                if (d / n).exists():
                    shutil.copy(d / n, dst / n)
            print("imported", dst.name)


def run(bid, props):
    d = BEN / bid
    meta = json.loads((d / "meta.json").read_text()) if (d / "meta.json").exists() else {}
    files = [ln[6:].strip() for ln in (d / "patch.diff").read_text().splitlines() if ln.startswith("+++ b/")]
    props = props or props_for(files)
    wt = tempfile.mkdtemp(prefix="hvben.", dir="/tmp")
    os.rmdir(wt)
    rc, o = sh(f"git -C /repo worktree add --detach {wt} HEAD -q")
    assert rc == 0, o
    res = meta.setdefault("checks", {})
    try:
        rc, o = sh(f"git -C {wt} apply {d/'patch.diff'}")
        assert rc == 0, o
        rc, o = sh("/venv/bin/python -m pytest -q -p no:cacheprovider tests", cwd=wt, env=dict(os.environ, PYTHONPATH=wt))
        meta["suite"] = o.strip().splitlines()[-1] if o.strip() else ""
        env = dict(os.environ, VERIF_REPO=wt)
        for p in props:
            rc, o = sh(f"./check {p} --tier quick", cwd=ROOT, timeout=3000, env=env)
            viol = [ln for ln in o.splitlines() if ln.startswith("VIOLATION")]
            res[p] = {"exit": rc, "violation_lines": viol[:3]}
            print(bid, p, "exit", rc, viol[:1], flush=True)
    finally:
        sh(f"git -C /repo worktree remove --force {wt}")
        shutil.rmtree(wt, ignore_errors=True)
        sh("/venv/bin/python harness/extract.py", cwd=ROOT)
    (d / "meta.json").write_text(json.dumps(meta, indent=1))


if __name__ == "__main__":
    if sys.argv[1] == "import":
        for s in sys.argv[2:]:
            do_import(s)
    else:
        run(sys.argv[2], sys.argv[3:])
