import Hv.Driver.Core
import Hv.Qcow2
import Hv.Qcow2Spec
import Hv.Qcow2Stream
import Hv.Prim.Inflate
import Hv.Footprint
namespace Hv.Driver
open Hv

/-- a stream (seek + read) over a QCow2 as a backing `Reader` (`QCow2.asReader`, Hv/Qcow2Stream.lean) -/
def qcowAsReader (q : Qcow2.QCow2) (align : Nat) : Qcow2.Reader := q.asReader align

/-- layer tokens, base first: `R:<id>` (raw backing file) or `L:<img>:<data|->:<flags>` (flags: `n` = ALLOW_NO_BACKING_FILE, `x` = no backing argument given) -/
def qcowChain (st : St) (align : Nat) (layers : List String) : Except Err (Option Qcow2.QCow2) := do
  let mut backing : Option Qcow2.Reader := none
  let mut top : Option Qcow2.QCow2 := none
  for l in layers do
    match l.splitOn ":" with
    | ["R", id] =>
      let some f := st.file? id | throw .other
      backing := some (fun off n => .ok (f.read off n))
    | ["L", img, data, flags] =>
      let some f := st.file? img | throw .other
      let df := st.file? data
      let allow := flags.contains 'n'
      let bk := if flags.contains 'x' then none else backing
      let q ← Qcow2.open f df bk allow Inflate.rawInflate
      top := some q
      backing := some (qcowAsReader q align)
    | _ => throw .other
  pure top

/-- `conformantToB q (roundUp size align)` — the hypothesis of `qcow2_stream_correct` for the stream buffer size
    `align` (it implies `Conformant q`, the hypothesis of `qcow2_read_correct`: `ConformantTo.conformant`) —
    evaluated only when that is cheap: the cached L1 table was readable and there are at most 2^20 guest clusters
    to look at (multi-terabyte images of C13 and arbitrary headers of C12 are reported as `wf=0` = "not shown to
    be inside the hypotheses" instead of being scanned) -/
def qcowWf (q : Qcow2.QCow2) (align : Nat) : Bool :=
  match q.l1 with
  | .error _ => false
  | .ok _ =>
    if align = 0 then false else
    let lim := Qcow2.roundUp q.size align
    if (q.withSize lim).nClusters ≤ 2 ^ 20 then q.conformantToB lim else false

/-- like `qcowChain`; also returns, for the top layer, the backing content the specification is evaluated over
    (as a `File`: a raw backing file, or the guest-visible disk `asFile` of the qcow2 layer below; empty when the
    layer has no backing) and whether every layer that contributes is conformant up to the end of the
    last stream buffer, `ConformantTo q (roundUp size align)` (`qcowWf`) -/
def qcowChainSpec (st : St) (align : Nat) (layers : List String) : Except Err (Option (Qcow2.QCow2 × File × Bool)) := do
  let empty : File := ⟨0, fun _ => 0⟩
  let mut backing : Option Qcow2.Reader := none
  let mut bfile : File := empty
  let mut wfBelow : Bool := true
  let mut top : Option (Qcow2.QCow2 × File × Bool) := none
  for l in layers do
    match l.splitOn ":" with
    | ["R", id] =>
      let some f := st.file? id | throw .other
      backing := some (fun off n => .ok (f.read off n))
      bfile := f
      wfBelow := true
    | ["L", img, data, flags] =>
      let some f := st.file? img | throw .other
      let df := st.file? data
      let allow := flags.contains 'n'
      let bk := if flags.contains 'x' then none else backing
      let q ← Qcow2.open f df bk allow Inflate.rawInflate
      let b := if q.backing.isSome then bfile else empty
      let wf := (if q.backing.isSome then wfBelow else true) && qcowWf q align
      top := some (q, b, wf)
      backing := some (qcowAsReader q align)
      bfile := q.asFile b
      wfBelow := wf
    | _ => throw .other
  pure top

/-- `slice (q.guest b) off len`, evaluated cluster by cluster through `cview` / `guestVia`
    (`guestVia b (cview (o / cs)) o = guest b o`: `guestVia_eq`), so that the table walk and the inflation of a
    compressed cluster happen once per cluster and not once per byte -/
def qcowSpecRead (q : Qcow2.QCow2) (b : File) (off len : Nat) : Bytes :=
  let cs := q.clusterSize
  let stop := off + len
  let rec go : Nat → Nat → Array UInt8 → Array UInt8
    | 0, _, acc => acc
    | fuel+1, o, acc =>
      if o ≥ stop then acc else
      let c := o / cs
      let v := q.cview c
      let e := min stop ((c + 1) * cs)
      go fuel e ((List.range (e - o)).foldl (fun a i => a.push (q.guestVia b v (o + i))) acc)
  (go (len + 1) off (Array.mkEmpty len)).toList

def qcowInfo (q : Qcow2.QCow2) : String :=
  s!"ok size={q.size} cb={q.clusterBits} v={q.version} sub={if q.sub then 1 else 0} l1={q.l1Size} df={if q.hasDataFile then 1 else 0} " ++
  s!"bk={if q.backing.isSome then 1 else 0} nsnap={q.nbSnapshots} next={q.exts.length}"

def qcow2Cmd (st : St) : List String → String
  | "qcow2.open" :: align :: layers =>
    match qcowChainSpec st (align.toNat?.getD 8192) layers with
    | .ok (some (q, _, wf)) => qcowInfo q ++ s!" wf={if wf then 1 else 0}"
    | .ok none => "bad-args"
    | .error e => s!"err {e}"
  -- the same history answered from the pointwise specification `guest` (clamped slices of the guest-visible disk)
  | "qcow2.spec" :: align :: nl :: rest =>
    match align.toNat?, nl.toNat? with
    | some a, some k =>
      match qcowChainSpec st a (rest.take k) with
      | .ok (some (q, b, _)) =>
        runStream (fun off len => .ok (qcowSpecRead q b off (min len (q.size - off)))) q.size a (rest.drop k)
      | .ok none => "bad-args"
      | .error e => s!"err {e}"
    | _, _ => "bad-args"
  | "qcow2.footprint" :: align :: off :: len :: layers =>
    -- C13: the file ranges `_read(off, len)` of a single-layer image may look at (HvProofs/FootprintQcow2.lean:
    -- qcow2_read_footprint); `m=` image file with every L2 entry widened to its L2 table (what the real code transfers),
    -- `d=` data file, `o=` the L1 table (the model loads it at open, the real code on first use), `fm=`/`tm=` the
    -- image-file footprint of the theorem and its total, `bm=` its bound (io_bound_tables), `td=` total of `d`
    match align.toNat?, off.toNat?, len.toNat?, qcowChain st (align.toNat?.getD 8192) layers with
    | some _, some o, some l, .ok (some q) =>
      if q.backing.isSome then "err unsupported"
      else
        let pr := fun (rs : Footprint.Ranges) => ",".intercalate (rs.map fun r => s!"{r.1}:{r.2}")
        let fm := Footprint.qcow2Meta q o l
        let fd := Footprint.qcow2Data q o l
        s!"ok hdr={if q.hdrOkb then 1 else 0} df={if q.hasDataFile then 1 else 0};m={pr (Footprint.qcow2MetaIO q o l)};d={pr fd};o={q.l1Offset}:{8 * q.l1Size};fm={pr fm};tm={Footprint.total fm};bm={(16 + 2 ^ (q.clusterBits - 8) * 512) * (l / q.cs + 2)};td={Footprint.total fd}"
    | _, _, _, .ok none => "bad-args"
    | _, _, _, .error e => s!"err {e}"
    | _, _, _, _ => "bad-args"
  | "qcow2.stream" :: align :: nl :: rest =>
    match align.toNat?, nl.toNat? with
    | some a, some k =>
      match qcowChain st a (rest.take k) with
      | .ok (some q) => runStream q.read q.size a (rest.drop k)
      | .ok none => "bad-args"
      | .error e => s!"err {e}"
    | _, _ => "bad-args"
  -- is the snapshot view inside the hypotheses of `snapshot_view_independent`? (`snapImage`: the snapshot's L1
  -- table in the header fields the specification reads)
  | "qcow2.snapwf" :: align :: idx :: layers =>
    match align.toNat?, idx.toNat? with
    | some a, some i =>
      match qcowChainSpec st a layers with
      | .ok (some (q, _, _)) =>
        -- the layers below the top one (they serve both views through the shared backing handle)
        let below := match qcowChainSpec st a layers.dropLast with | .ok (some (_, _, w)) => w | _ => true
        let wfBelow := if q.backing.isSome then below else true
        match Qcow2.readSnapshots q.fh q.nbSnapshots q.snapshotsOffset with
        | .ok snaps =>
          match snaps[i]? with
          | some s => s!"ok wf={if wfBelow && qcowWf (q.snapImage s) a then 1 else 0}"
          | none => "err index"
        | .error e => s!"err {e}"
      | .ok none => "bad-args"
      | .error e => s!"err {e}"
    | _, _ => "bad-args"
  | "qcow2.snap" :: align :: idx :: nl :: rest =>
    match align.toNat?, idx.toNat?, nl.toNat? with
    | some a, some i, some k =>
      match qcowChain st a (rest.take k) with
      | .ok (some q) =>
        match Qcow2.readSnapshots q.fh q.nbSnapshots q.snapshotsOffset with
        | .ok snaps =>
          match snaps[i]? with
          | some s =>
            -- `QCow2Snapshot.open()`: the same object with the snapshot's L1 table, and a fresh stream state
            let q' := q.snapOpen s
            runStream q'.read q'.size a (rest.drop k)
          | none => "err index"
        | .error e => s!"err {e}"
      | .ok none => "bad-args"
      | .error e => s!"err {e}"
    | _, _, _ => "bad-args"
  | _ => "bad-cmd"

end Hv.Driver
