/-
  Hv.Resolve — how the library gets from the names stored in an image / descriptor to the chain of
  layers the read theorems of C07 start from.  Mathlib-free (the driver imports it).

  * a model of `pathlib.PurePosixPath` (the library runs on `Path`; only the operations the code uses:
    parsing a string, `/` = `joinpath`, `.parent`, `.name`, `.is_absolute()`),
  * a model of a directory tree `FS` (what is at a normalised absolute location) with the kernel's path walk
    (`..` is resolved by the kernel, not by pathlib; no symbolic links) and `exists` / `is_file` / `open("rb")`,
  * `vhdx.open_parent` + the recursion through `VHDX.__init__`,
  * `HDD.__init__`, `HDD._open_image` (the three fall-back candidates),
  * `vmdk.open_parent`,
  * QCOW2: the library never turns `auto_backing_file` / `image_data_file` into a path — the caller passes handles
    (`Qcow2.open`), so there is nothing to transcribe; the statement about it is `qcow2_backing_resolution`.

  What the code really does (read from /repo/dissect/hypervisor/disk/{vhdx,hdd,vmdk,qcow2}.py):
  * VHDX: `locator["relative_path"]` is *required* (KeyError → IOError even when `absolute_win32_path` is present and
    exists); `\` → `/`; joined to the directory of the child; when that path does not exist, `"/" + absolute_win32_path`
    with `\` → `/` (so `C:\d\p.vhdx` becomes `/C:/d/p.vhdx`; being absolute it replaces the directory);
    `volume_path` is never looked at; `parent_linkage` is never compared with the parent's GUIDs; no case folding;
    whatever path was chosen is opened, every exception becomes IOError.
  * HDD: image file names are `Path(image.file)`; relative → `root / path`; absolute and existing → itself; absolute and
    missing → first existing of `root/name`, `root.parent/<hdd dir name>/name`,
    `root.parent.parent/<pvm dir name>/<hdd dir name>/name`, else the last one (whose `open` then fails).
  * VMDK: `\` → `/`, file name = text after the last `/`; `dir/name`, else `dir.parent/<last directory of the hint>/name`.
-/
import Hv.Layers
import Hv.HddOpen
namespace Hv.Resolve
open Hv

abbrev Name := List Char

/-! ### `PurePosixPath` -/

/-- a parsed path: absolute or not, and its components (no empty ones, no `.`; `..` is kept — pathlib does not
    collapse it) -/
structure Path where
  abs : Bool
  parts : List Name
  deriving DecidableEq, Repr

/-- `s.split("/")` -/
def splitSlash : List Char → List Name
  | [] => [[]]
  | c :: cs =>
    match splitSlash cs with
    | [] => [[c]]                     -- not reachable: the result is never empty
    | h :: t => if c = '/' then [] :: h :: t else (c :: h) :: t

def dot : Name := ['.']
def dotdot : Name := ['.', '.']

/-- `PurePosixPath(s)` (`//x` is treated as `/x`: the kernel does the same) -/
def Path.ofStr (s : Name) : Path :=
  ⟨s.head? = some '/', (splitSlash s).filter fun c => c ≠ [] ∧ c ≠ dot⟩

/-- `p.parent` (lexical: drops the last component; `/` and `.` are their own parents) -/
def Path.parent (p : Path) : Path := ⟨p.abs, p.parts.dropLast⟩

/-- `p.name` (`""` when there is no component) -/
def Path.name (p : Path) : Name := p.parts.getLast?.getD []

/-- `p / q`, `p.joinpath(q)`: an absolute right-hand side replaces the left one -/
def Path.join (p q : Path) : Path := if q.abs then q else ⟨p.abs, p.parts ++ q.parts⟩

/-- `p / "text"`, `p.joinpath("text")` -/
def Path.joinStr (p : Path) (s : Name) : Path := p.join (Path.ofStr s)

/-- `str(p)` (for the driver) -/
def Path.render (p : Path) : Name :=
  match p.abs, p.parts with
  | true, ps => '/' :: (List.intercalate ['/'] ps)
  | false, [] => dot
  | false, ps => List.intercalate ['/'] ps

/-- `s.replace("\\", "/")` -/
def winToPosix (s : Name) : Name := s.map fun c => if c = '\\' then '/' else c

/-! ### directory tree -/

inductive Node (α : Type) where
  | file (content : α)
  | dir

/-- a file system: what is at an absolute, dot-free location (names from the root; the root itself is a directory),
    and the current directory relative paths are walked from -/
structure FS (α : Type) where
  node : List Name → Option (Node α)
  cwd : List Name

variable {α : Type}

def FS.at (fs : FS α) (loc : List Name) : Option (Node α) := if loc = [] then some .dir else fs.node loc

/-- the kernel's path walk (no symbolic links): every intermediate location must be a directory; `..` steps up
    (the root is its own parent) -/
def FS.walk (fs : FS α) : List Name → List Name → Option (List Name)
  | cur, [] => some cur
  | cur, c :: rest =>
    match fs.at cur with
    | some .dir => if c = dotdot then fs.walk cur.dropLast rest else fs.walk (cur ++ [c]) rest
    | _ => none

def FS.stat (fs : FS α) (p : Path) : Option (Node α) :=
  match fs.walk (if p.abs then [] else fs.cwd) p.parts with
  | some loc => fs.at loc
  | none => none

/-- `p.exists()` -/
def FS.exists (fs : FS α) (p : Path) : Bool := (fs.stat p).isSome

/-- `p.is_file()` -/
def FS.isFile (fs : FS α) (p : Path) : Bool := match fs.stat p with | some (.file _) => true | _ => false

/-- `p.open("rb")`: FileNotFoundError / NotADirectoryError / IsADirectoryError are errors -/
def FS.open (fs : FS α) (p : Path) : Except Err α :=
  match fs.stat p with
  | some (.file c) => .ok c
  | _ => .error .other

/-! ### VHDX -/

/-- UTF-16-LE code units -/
def units16 : Bytes → Option (List Nat)
  | [] => some []
  | [_] => none                                    -- truncated data
  | lo :: hi :: rest => (units16 rest).map fun r => (lo.toNat + 256 * hi.toNat) :: r

/-- code units to characters (surrogate pairs; a lone surrogate is a UnicodeDecodeError) -/
def chars16 : List Nat → Option (List Char)
  | [] => some []
  | [u] => if 0xD800 ≤ u ∧ u < 0xE000 then none else some [Char.ofNat u]
  | u :: u2 :: rest =>
    if 0xD800 ≤ u ∧ u < 0xDC00 then
      if 0xDC00 ≤ u2 ∧ u2 < 0xE000 then
        (chars16 rest).map fun r => Char.ofNat (0x10000 + (u - 0xD800) * 1024 + (u2 - 0xDC00)) :: r
      else none
    else if 0xDC00 ≤ u ∧ u < 0xE000 then none
    else (chars16 (u2 :: rest)).map fun r => Char.ofNat u :: r

/-- `bytes.decode("utf-16-le")` -/
def decode16 (b : Bytes) : Option Name := (units16 b).bind chars16

/-- `ParentLocator.entries` as Python strings, in table order -/
def decodeLocator (l : List (Bytes × Bytes)) : Option (List (Name × Name)) :=
  l.mapM fun e => do some (← decode16 e.1, ← decode16 e.2)

/-- a dict built in order: the last entry with the key wins -/
def dictGet (d : List (Name × Name)) (k : Name) : Option Name := (d.reverse.find? fun e => e.1 = k).map (·.2)

def kRel : Name := ['r','e','l','a','t','i','v','e','_','p','a','t','h']
def kAbs : Name := ['a','b','s','o','l','u','t','e','_','w','i','n','3','2','_','p','a','t','h']
def kVol : Name := ['v','o','l','u','m','e','_','p','a','t','h']

/-- `path.joinpath(locator["relative_path"].replace("\\", "/"))` -/
def vhdxRelPath (dir : Path) (rel : Name) : Path := dir.joinStr (winToPosix rel)

/-- `path.joinpath("/" + locator["absolute_win32_path"].replace("\\", "/"))` -/
def vhdxAbsPath (dir : Path) (a : Name) : Path := dir.joinStr ('/' :: winToPosix a)

/-- the candidate paths in the order `open_parent` tries them (`volume_path` is not among them) -/
def vhdxCandidates (dir : Path) (loc : List (Name × Name)) : List Path :=
  ((dictGet loc kRel).map (vhdxRelPath dir)).toList ++ ((dictGet loc kAbs).map (vhdxAbsPath dir)).toList

/-- the path `open_parent(path, locator)` hands to `VHDX(…)`; a missing key is a KeyError -/
def vhdxParentPath (fs : FS α) (dir : Path) (loc : List (Name × Name)) : Except Err Path :=
  match dictGet loc kRel with
  | none => .error .index
  | some rel =>
    if fs.exists (vhdxRelPath dir rel) then .ok (vhdxRelPath dir rel)
    else match dictGet loc kAbs with
      | none => .error .index
      | some a => .ok (vhdxAbsPath dir a)

/-- the object `VHDX.__init__` ends up with once `open_parent` has returned the parent object: the differencing BAT
    layout (`Vhdx.open fh (some r)` computes exactly this, `HvProofs.Resolve.open_withParent`) -/
def withParent (v : Vhdx.Vhdx) (r : Vhdx.SectorReader) : Vhdx.Vhdx :=
  { v with parent := some r, entryCount := v.sbCount * (v.chunkRatio + 1) }

/-- `VHDX(path)` for a `Path`, with the recursion through `open_parent`: the opened objects with their paths, the
    requested image first, the base image last.  `fuel` is Python's recursion limit (a locator cycle ends in
    RecursionError → IOError).  Only ok / error is meaningful: everything below `open_parent` is re-raised as IOError. -/
def vhdxOpen (fs : FS File) : Nat → Path → Except Err (List (Path × Vhdx.Vhdx))
  | 0, _ => .error .other
  | fuel + 1, p =>
    match fs.open p with
    | .error e => .error e
    | .ok fh =>
      match Vhdx.open fh none with
      | .error e => .error e
      | .ok v0 =>
        if v0.hasParent then
          match decodeLocator v0.locator with
          | none => .error .value
          | some loc =>
            match vhdxParentPath fs p.parent loc with
            | .error _ => .error .other
            | .ok pp =>
              match vhdxOpen fs fuel pp with
              | .error _ => .error .other
              | .ok [] => .error .other                   -- not reachable
              | .ok (par :: rest) => .ok ((p, withParent v0 par.2.reader) :: par :: rest)
        else .ok [(p, v0)]

/-- the same walk over names only (no image parsing): `info p` is what the header of the file at `p` says —
    `none`: not a VHDX; `some none`: no parent; `some (some loc)`: differencing with this locator.  For the driver's
    layouts whose files are described rather than materialised. -/
def vhdxWalk (fs : FS (Option (Option (List (Name × Name))))) : Nat → Path → Except Err (List Path)
  | 0, _ => .error .other
  | fuel + 1, p =>
    match fs.open p with
    | .error e => .error e
    | .ok none => .error .format
    | .ok (some none) => .ok [p]
    | .ok (some (some loc)) =>
      match vhdxParentPath fs p.parent loc with
      | .error _ => .error .other
      | .ok pp =>
        match vhdxWalk fs fuel pp with
        | .error _ => .error .other
        | .ok rest => .ok (p :: rest)


/-! ### specification side: what the stored names designate -/

/-- `chain` (requested image first, base image last) is the chain the names designate in `fs`: every object is what
    `VHDX.__init__` makes of the file at its path (with the next object as parent), a differencing image is followed by the
    image at the first existing candidate of its own locator — relative to its *own* directory, candidates in the code's
    order `[relative_path, absolute_win32_path]`, `relative_path` present —, and the last image is not differencing. -/
def VhdxDesignates (fs : FS File) : List (Path × Vhdx.Vhdx) → Prop
  | [] => False
  | [b] => fs.open b.1 = .ok b.2.fh ∧ Vhdx.open b.2.fh none = .ok b.2 ∧ b.2.hasParent = false
  | v :: par :: rest =>
      fs.open v.1 = .ok v.2.fh ∧ Vhdx.open v.2.fh (some par.2.reader) = .ok v.2 ∧ v.2.hasParent = true ∧
      (∃ loc, decodeLocator v.2.locator = some loc ∧ (dictGet loc kRel).isSome ∧
        (vhdxCandidates v.1.parent loc).find? fs.exists = some par.1) ∧
      VhdxDesignates fs (par :: rest)

/-! ### Parallels HDD -/

/-- `HDD.__init__`: a file inside the `.hdd` directory stands for the directory -/
def hddRoot (fs : FS α) (p : Path) : Path := if fs.isFile p then p.parent else p

def descriptorName : Name := ['D','i','s','k','D','e','s','c','r','i','p','t','o','r','.','x','m','l']

/-- the three places `_open_image` looks for an absolute image path that does not exist -/
def hddCandidates (root path : Path) : List Path :=
  [ root.joinStr path.name,
    (root.parent.joinStr path.parent.name).joinStr path.name,
    ((root.parent.parent.joinStr path.parent.parent.name).joinStr path.parent.name).joinStr path.name ]

/-- the path `_open_image(Path(file))` opens -/
def hddImagePath (fs : FS α) (root : Path) (file : Name) : Path :=
  let path := Path.ofStr file
  if path.abs then
    if fs.exists path then path
    else
      let c1 := root.joinStr path.name
      let c2 := (root.parent.joinStr path.parent.name).joinStr path.name
      let c3 := ((root.parent.parent.joinStr path.parent.parent.name).joinStr path.parent.name).joinStr path.name
      let cand := if fs.exists c1 then c1 else c2
      if fs.exists cand then cand else c3
  else root.join path

/-- the directory `HDD(path)` works on, as the abstract `HddOpen.Dir`: `parse` is `Descriptor(path)` (external XML
    parser + `Meta.descriptor`), `hdsStream` the stream object of an opened HDS -/
def hddDir (fs : FS File) (p : Path) (parse : File → Except Err Meta.Descriptor)
    (hdsStream : Hds.Hds → HddOpen.Reader) : HddOpen.Dir :=
  let root := hddRoot fs p
  { descriptor := match fs.stat (root.joinStr descriptorName) with
      | none => none
      | some (.file f) => some (parse f)
      | some .dir => some (.error .other)               -- read_text() of a directory
    openImage := fun name => fs.open (hddImagePath fs root name.toList)
    hdsStream }

/-- the image paths `HDD.open` opens for one storage, in the order it opens them (root of the chain first) -/
def hddLayerPaths (fs : FS α) (root : Path) (s : Meta.Storage) : List Nat → Except Err (List Path)
  | [] => .ok []
  | g :: gs =>
    match HddOpen.findImage s g with
    | .error e => .error e
    | .ok image =>
      match image.file with
      | none => .error .other
      | some name =>
        let p := hddImagePath fs root name.toList
        if fs.isFile p then
          match hddLayerPaths fs root s gs with
          | .error e => .error e
          | .ok rest => .ok (p :: rest)
        else .error .other

/-- … for all storages, in descriptor order -/
def hddOpenedPaths (fs : FS α) (root : Path) (chain : List Nat) : List Meta.Storage → Except Err (List Path)
  | [] => .ok []
  | s :: ss =>
    match hddLayerPaths fs root s chain.reverse with
    | .error e => .error e
    | .ok a =>
      match hddOpenedPaths fs root chain ss with
      | .error e => .error e
      | .ok b => .ok (a ++ b)

/-! ### specification side of `get_snapshot_chain` -/

/-- `chain` is a ParentGUID path of the shot forest: every element's first shot names the next element as its parent,
    the last one has the null GUID as parent -/
def IsPath (shots : List (Nat × Nat)) (null : Nat) : List Nat → Prop
  | [] => False
  | [a] => ∃ s, Hdd.findShot shots a = some s ∧ s.2 = null
  | a :: b :: rest => (∃ s, Hdd.findShot shots a = some s ∧ s.2 ≠ null ∧ s.2 = b) ∧ IsPath shots null (b :: rest)

/-! ### VMDK -/

/-- `s.rpartition("/")` without the separator: (text before the last `/`, text after it) -/
def rpartSlash (s : Name) : Name × Name :=
  match (splitSlash s).reverse with
  | [] => ([], s)
  | last :: before => (List.intercalate ['/'] before.reverse, last)

/-- the path `vmdk.open_parent(path, filename_hint)` hands to `VMDK(…)` -/
def vmdkParentPath (fs : FS α) (dir : Path) (hint : Name) : Path :=
  let h := winToPosix hint
  let (hintPath, filename) := rpartSlash h
  let c1 := dir.joinStr filename
  if fs.exists c1 then c1 else (dir.parent.joinStr (rpartSlash hintPath).2).joinStr filename

def vmdkCandidates (dir : Path) (hint : Name) : List Path :=
  let h := winToPosix hint
  let (hintPath, filename) := rpartSlash h
  [dir.joinStr filename, (dir.parent.joinStr (rpartSlash hintPath).2).joinStr filename]

end Hv.Resolve
