"""C14 — exposed image metadata and parent references equal what the file stores.

Families (independent writers in gen_meta / gen_qcow2): qcow2 (header, extension walk, backing name, snapshot table), vhdx (header choice by
sequence number, metadata items, parent locator), vmdk-text / vmdk-embedded (DiskDescriptor.parse, SparseDisk descriptor area), vhd / vdi / hds
header fields, hdd (Parallels DiskDescriptor.xml).  Every exposed field becomes one canonical `key=value` answer; compared: the real objects'
public attributes vs the abstract record the writer serialised (truth) vs the Lean metadata layer (Hv/Meta.lean)."""
from __future__ import annotations

import os
import random
import shutil
import tempfile

import core
import gen_meta
from core import Built
from gen_meta import xs

PROPERTY = "C14"
RULE = ("seeded metadata records serialised by independent writers, 8 families: qcow2 (v2/v3, 0..40 header extensions of any type with payload lengths 0..300 incl. "
        "multiples of 8 followed by further extensions, known types at random positions, with/without end marker, backing names 1..300 chars incl. multi-byte "
        "UTF-8, data-file names, 0..40 snapshots with id/name lengths 0..300 and extra-data sizes 0..300, size field over the full 63-bit range), vhdx (both header "
        "sequence orders, adjacent / far / equal numbers over the full 64-bit range, all header fields, metadata items in any table/physical order, 0..40 unknown "
        "optional items, parent locator with 0..40 UTF-16-LE key/values incl. surrogate pairs in sequential / shuffled / gapped / shared-string layouts, opened "
        "through a real parent on disk), vmdk descriptors as text and embedded in a hosted sparse extent (NUL-terminated, exactly filling, junk after NUL, footer "
        "header): 0..40 header keys / ddb entries / extent lines, quoted and unquoted values of 0..300 chars containing '=', '#', quotes, non-ASCII; vhd / vdi / hds "
        "headers with every field drawn from its full range; Parallels DiskDescriptor.xml with 0..20 storages, 0..40 images and shots, explicit / absent TopGUID. "
        "Non-trivial = a record with at least two list entries / a parent reference / two distinct sequence numbers; distinct recipe hash.")
ASSUMPTIONS = ["str.upper() of the documented normalisation (backing_format, image_backing_file) is applied by the harness to the model's exact bytes",
               "UTF-8 / UTF-16 validity is checked, the decoded text itself is compared as bytes", "Python int() / uuid.UUID() are modelled for the spellings the "
               "generator writes (decimal digits; braced / plain, upper / lower case GUIDs)", "the XML element tree handed to the model is the one the real parser "
               "(defusedxml) produced; pathlib / parent opening happens on the implementation side only (real temp directories)",
               "duplicate keys / duplicate known extension types are outside the truth (model-vs-implementation only)"]
TIMEOUT_CASE = 60.0

MIX = {"quick": [("qcow2", 90), ("vhdx", 70), ("vmdk-text", 60), ("vmdk-embedded", 30), ("vhd", 16), ("vdi", 14), ("hds", 14), ("hdd", 26)],
       "thorough": [("qcow2", 900), ("vhdx", 700), ("vmdk-text", 600), ("vmdk-embedded", 300), ("vhd", 120), ("vdi", 100), ("hds", 100), ("hdd", 260)]}


def generate(seed, tier):
    rng = random.Random(f"C14/{seed}/{tier}")
    cases = []
    for fam, n in MIX["quick" if tier == "quick" else "thorough"]:
        for i in range(n):
            r = gen_meta.GEN[fam](rng, tier)
            r["fam"] = fam
            cases.append({"id": f"{fam}{i}", "recipe": r, "queries": ["meta"]})
    return cases


def build(case):
    r = case["recipe"]
    files, truth, info = gen_meta.BUILD[r["fam"]](r)
    info = dict(info, fam=r["fam"], in_scope=True)
    images = {k: v for k, v in files.items() if not isinstance(v, (bytes, bytearray))}
    b = Built(images, truth, info)
    b.raw = {k: v for k, v in files.items() if isinstance(v, (bytes, bytearray))}
    return b


# ----------------------------------------------------------------------------------------------- the real code

def _impl_qcow2(built):
    from dissect.hypervisor.disk.qcow2 import QCow2
    f = built.files
    q = QCow2(f["img"].open(), data_file=f["data"].open() if "data" in f else None, backing_file=f["backing"].open() if "backing" in f else None)
    bh, ch = q.bitmap_header, q.crypto_header
    d = {"size": q.size, "cluster_size": q.cluster_size, "version": q.header.version, "l1_size": q.header.l1_size, "l1_table_offset": q.header.l1_table_offset,
         "nb_snapshots": q.header.nb_snapshots, "snapshots_offset": q.header.snapshots_offset, "header_length": q.header.header_length,
         "incompat": q.header.incompatible_features, "compression_type": q.compression_type, "backing_file": q.auto_backing_file,
         "image_backing_file": q.image_backing_file, "backing_format": q.backing_format, "data_file": q.image_data_file, "feature_table": q.feature_table,
         "bitmaps": [bh.nb_bitmaps, bh.reserved32, bh.bitmap_directory_size, bh.bitmap_directory_offset] if bh is not None else None,
         "crypto": [ch.offset, ch.length] if ch is not None else None,
         "unknown": [(e.magic, e.len, data) for e, data in q.unknown_extensions]}
    try:
        d["snapshots"] = [{"id": s.id_str, "name": s.name, "l1_table_offset": s.header.l1_table_offset, "l1_size": s.header.l1_size, "date_sec": s.header.date_sec,
                           "date_nsec": s.header.date_nsec, "vm_clock_nsec": s.header.vm_clock_nsec, "vm_state_size": s.header.vm_state_size,
                           "extra_data_size": s.header.extra_data_size, "vm_state_size_large": s.extra.vm_state_size_large, "disk_size": s.extra.disk_size,
                           "icount": s.extra.icount, "unknown_extra": s.unknown_extra, "entry_size": s.entry_size} for s in q.snapshots]
    except Exception:  # noqa
        d["snapshots"] = "E"
    return gen_meta.qcow2_answers(d)


def _impl_vhdx(built):
    from pathlib import Path

    from dissect.hypervisor.disk.c_vhdx import PHYSICAL_SECTOR_SIZE_GUID
    from dissect.hypervisor.disk.vhdx import VHDX
    tmp = None
    try:
        if "parent" in built.files:
            tmp = tempfile.mkdtemp(prefix="hvc14-")
            built.files["img"].write_to(os.path.join(tmp, "child disk.vhdx"))
            built.files["parent"].write_to(os.path.join(tmp, built.info["parent_name"]))
            v = VHDX(Path(tmp) / "child disk.vhdx")
        else:
            v = VHDX(built.files["img"].open())
        h = v.header
        pss = v.metadata.lookup.get(PHYSICAL_SECTOR_SIZE_GUID)
        out = [f"seq1={v.headers[0].sequence_number}", f"seq2={v.headers[1].sequence_number}", f"header.sequence_number={h.sequence_number}",
               f"header.signature={xs(h.signature)}", f"header.checksum={h.checksum}", f"header.file_write_guid={xs(h.file_write_guid)}",
               f"header.data_write_guid={xs(h.data_write_guid)}", f"header.log_guid={xs(h.log_guid)}", f"header.log_version={h.log_version}",
               f"header.version={h.version}", f"header.log_length={h.log_length}", f"header.log_offset={h.log_offset}",
               f"size={v.size}", f"block_size={v.block_size}", f"has_parent={1 if v.has_parent else 0}", f"sector_size={v.sector_size}",
               f"physical_sector_size={'N' if pss is None else int(pss)}", f"id={xs(v.id.bytes_le)}"]
        pl = v.parent_locator
        ents = list(pl.entries.items()) if pl is not None else []
        out += ["locator_type=" + (xs(pl.type.bytes_le) if pl is not None else "N"), f"n_locator={len(ents)}"]
        out += [f"loc{i}={xs(k.encode('utf-16-le', 'surrogatepass'))}:{xs(val.encode('utf-16-le', 'surrogatepass'))}" for i, (k, val) in enumerate(ents)]
        if pl is not None and v.parent is None:
            out.append("parent=missing")
        return out
    finally:
        if tmp:
            shutil.rmtree(tmp, ignore_errors=True)


def _desc_answers(d):
    ex = [{"access": e.access_mode, "sectors": e.sectors, "type": e.type, "filename": e.filename, "start": e.start_sector, "uuid": e.partition_uuid,
           "dev": e.device_identifier, "raw": e.raw} for e in d.extents]
    return gen_meta.desc_answers(list(d.attr.items()), list(d.ddb.items()), ex, d.sectors)


def _impl_vmdk_text(built):
    from dissect.hypervisor.disk.vmdk import DiskDescriptor
    return _desc_answers(DiskDescriptor.parse(built.raw["text"].decode()))


def _impl_vmdk_embedded(built):
    from dissect.hypervisor.disk.vmdk import SparseDisk
    sd = SparseDisk(built.files["img"].open())
    return ["descriptor=N"] if sd.descriptor is None else _desc_answers(sd.descriptor)


def _impl_vhd(built):
    from dissect.hypervisor.disk.vhd import VHD
    v = VHD(built.files["img"].open())
    f = v.disk.footer
    dyn = hasattr(v.disk, "header")
    out = [f"size={v.size}", f"features={f.features}", f"version={f.version}", f"data_offset={f.data_offset}", f"timestamp={f.timestamp}",
           f"creator_application={f.creator_application}", f"creator_version={f.creator_version}", f"creator_host_os={f.creator_host_os}",
           f"original_size={f.original_size}", f"current_size={f.current_size}", f"disk_geometry={f.disk_geometry}", f"disk_type={f.disk_type}",
           f"checksum={f.checksum}", f"dynamic={1 if dyn else 0}"]
    blobs = [f"cookie={xs(f.cookie)}", f"unique_id={xs(f.unique_id)}"]
    if dyn:
        h = v.disk.header
        out += [f"table_offset={v.disk.bat.offset}", f"max_table_entries={v.disk.bat.max_entries}", f"block_size={h.block_size}", f"dyn_data_offset={h.data_offset}",
                f"header_version={h.header_version}", f"dyn_checksum={h.checksum}", f"parent_timestamp={h.parent_timestamp}"]
        blobs += [f"dyn_cookie={xs(h.cookie)}", f"parent_unique_id={xs(h.parent_unique_id)}", f"parent_unicode_name={xs(h.parent_unicode_name)}"]
    return out + blobs


def _impl_vdi(built):
    from dissect.hypervisor.disk.vdi import VDI
    v = VDI(built.files["img"].open())
    h = v.header
    iv = lambda x: int(getattr(x, "value", x))       # noqa: E731
    out = [f"size={v.size}", f"block_size={v.block_size}", f"sector_size={v.sector_size}", f"data_offset={v.data_offset}", f"blocks_offset={h.BlocksOffset}",
           f"blocks_in_hdd={h.BlocksInHDD}", f"version={h.Version}", f"header_size={h.HeaderSize}", f"image_type={iv(h.ImageType)}", f"image_flags={iv(h.ImageFlags)}",
           f"cylinders={h.NumCylinders}", f"heads={h.NumHeads}", f"sectors={h.NumSectors}", f"block_extra={h.BlockExtraData}", f"blocks_allocated={h.BlocksAllocated}",
           f"map_len={len(v.map)}"]
    return out + [f"uuid={xs(h.UUIDVDI)}", f"uuid_snap={xs(h.UUIDSNAP)}", f"uuid_link={xs(h.UUIDLink)}", f"uuid_parent={xs(h.UUIDParent)}"]


def _impl_hds(built):
    from dissect.hypervisor.disk.hdd import HDS
    v = HDS(built.files["img"].open())
    h = v.header
    return [f"size={v.size}", f"cluster_size={v.cluster_size}", f"bat_multiplier={v._bat_multiplier}", f"bat_len={len(v.bat)}", f"data_offset={v.data_offset}",
            f"in_use={1 if v.in_use else 0}", f"type={h.m_Type}", f"heads={h.m_Heads}", f"cylinders={h.m_Cylinders}", f"flags={h.m_Flags}",
            f"ext_offset={h.m_FormatExtensionOffset}", f"sig={xs(h.m_Sig)}"]


def _impl_hdd(built):
    from pathlib import Path

    from dissect.hypervisor.disk.hdd import Descriptor
    tmp = tempfile.mkdtemp(prefix="hvc14-")
    try:
        p = Path(tmp) / "x.hdd"
        p.mkdir()
        (p / "DiskDescriptor.xml").write_bytes(built.raw["xml"])
        d = Descriptor(p / "DiskDescriptor.xml")
        out = [f"n_storages={len(d.storage_data.storages)}"]
        for i, s in enumerate(d.storage_data.storages):
            out.append(f"storage{i}={s.start}:{s.end}:{len(s.images)}")
            out += [f"image{i}.{j}={im.guid.int}:{xs(im.type)}:{xs(im.file)}" for j, im in enumerate(s.images)]
        tg = d.snapshots.top_guid
        out += [f"top_guid={'N' if tg is None else tg.int}", f"n_shots={len(d.snapshots.shots)}"]
        return out + [f"shot{i}={s.guid.int}:{s.parent.int}" for i, s in enumerate(d.snapshots.shots)]
    finally:
        shutil.rmtree(tmp, ignore_errors=True)


IMPL = {"qcow2": _impl_qcow2, "vhdx": _impl_vhdx, "vmdk-text": _impl_vmdk_text, "vmdk-embedded": _impl_vmdk_embedded, "vhd": _impl_vhd, "vdi": _impl_vdi,
        "hds": _impl_hds, "hdd": _impl_hdd}


def impl_run(case, built):
    try:
        return {"answers": IMPL[built.info["fam"]](built), "errors": {}}
    except Exception as e:  # noqa
        return {"answers": ["E"], "errors": {"0": f"{type(e).__name__}: {e}"[:300]}}


# ----------------------------------------------------------------------------------------------- the Lean model

def _tree_tokens(xml: bytes):
    """the element tree the real XML parser produces, as pre-order driver tokens"""
    from defusedxml import ElementTree
    root = ElementTree.fromstring(xml.decode("utf-8"))
    toks = []

    def walk(e):
        toks.extend([e.tag.encode().hex() or "00", "-" if e.text is None else "x" + e.text.encode("utf-8", "surrogatepass").hex(), str(len(e))])
        for c in e:
            walk(c)
    walk(root)
    return toks


def _snap_spec(sn: dict) -> str:
    """one snapshot of the generated table as a `SnapSpec` of the Lean writer (Hv/MetaEnc.lean)"""
    x = bytes.fromhex(sn["xraw"])
    n = len(x)
    q = lambda k: str(int.from_bytes(x[8 * k:8 * k + 8], "big"))     # noqa: E731
    extra = "n" if n == 0 else f"a:{q(0)}:{q(1)}" if n == 16 else f"b:{q(0)}:{q(1)}:{q(2)}" if n == 24 else \
        f"m:{q(0)}:{q(1)}:{q(2)}:{x[24:].hex() or '-'}"
    return ",".join([str(sn["l1_table_offset"]), str(sn["l1_size"]), str(sn["date_sec"]), str(sn["date_nsec"]), str(sn["vm_clock_nsec"]),
                     str(sn["vm_state_size"]), extra, sn["id"].encode().hex() or "-", sn["name"].encode().hex() or "-"])


def model_lines(case, built):
    fam = built.info["fam"]
    fl = core.file_lines(built.files)
    if fam == "qcow2":
        pre = []
        st = built.info.get("snap_table")
        if st:
            pre = [f"meta.snapenc img {st['off']} " + " ".join(_snap_spec(sn) for sn in st["snaps"])]
        return fl + pre + [f"meta.qcow2 img {'data' if 'data' in built.files else '-'} {'b' if 'backing' in built.files else '-'}"]
    if fam == "vmdk-text":
        return [f"meta.desc {built.raw['text'].hex() or '0a'}"]
    if fam == "hdd":
        try:
            return ["meta.hdd " + " ".join(_tree_tokens(built.raw["xml"]))]
        except Exception:  # noqa
            return ["meta.hdd"]
    return fl + [{"vhdx": "meta.vhdx img", "vmdk-embedded": "meta.vmdk img", "vhd": "meta.vhd img", "vdi": "meta.vdi img", "hds": "meta.hds img"}[fam]]


def model_parse(case, built, out):
    if not out:
        return {"answers": None, "wf": None}
    line = out[-1]
    if line.startswith("err"):
        return {"answers": ["E"], "wf": True, "raw": line[:200]}
    if not line.startswith("ok"):
        return {"answers": None, "wf": None, "raw": line[:200]}
    toks = line.split(" ")[1:]
    if built.info["fam"] == "qcow2":
        res = []
        for t in toks:
            k, _, v = t.partition("=")
            if k.startswith("ext") or k == "n_ext":
                continue                                    # the full walked list is not a public attribute (kept in the raw line for debugging)
            if k == "backing_file":
                res.append(t)
                res.append("image_backing_file=" + (v if v == "N" else xs(bytes.fromhex(v[1:]).decode().upper())))
            elif k == "backing_format" and v != "N":
                res.append("backing_format=" + xs(bytes.fromhex(v[1:]).decode().upper()))
            else:
                res.append(t)
        toks = res
    res = {"answers": toks, "wf": True, "raw": line[:300]}
    if built.info.get("snap_table") and len(out) >= 2 and out[0].startswith("ok "):
        # the generated table IS `encodeSnaps specs` (hypotheses of snapshot_table_roundtrip hold on this file): the evaluated
        # instance of the theorem's conclusion must hold; a generated table outside the writer's image is a harness defect
        hyp, rt = out[0].split(" ")[1:3]
        res["spec_eq_model"] = (hyp == "1" and rt == "1")
        res["spec"] = out[0]
    return res


def nontrivial(case, built, model):
    return bool(built.info.get("nontrivial"))


def search(seed, broken, budget):
    rng = random.Random(f"C14/search/{seed}")
    cases = []
    for i in range(min(budget, 1200)):
        fam = rng.choice(["qcow2", "qcow2", "vhdx", "vmdk-text", "vmdk-text", "vmdk-embedded", "hdd"])
        r = gen_meta.GEN[fam](rng, "thorough")
        r["fam"] = fam
        cases.append({"id": f"s{fam}{i}", "recipe": r, "queries": ["meta"]})
    return cases
