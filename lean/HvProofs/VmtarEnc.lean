/-
  HvProofs.VmtarEnc — the vmtar writer `encode` round-trips through the reader model (`list`, `extract`).
-/
import Hv.VmtarEnc
import HvProofs.Vmtar
import HvProofs.Basic
namespace Hv.Vmtar
open Hv

/-! ### octal digits -/

theorem digit_props : ∀ k : Fin 8,
    isOct (UInt8.ofNat (48 + k.val)) = true ∧ UInt8.ofNat (48 + k.val) ≠ 0 ∧ isSpace (UInt8.ofNat (48 + k.val)) = false ∧
    decide (UInt8.ofNat (48 + k.val) ≥ 128) = false ∧ (UInt8.ofNat (48 + k.val)).toNat - 48 = k.val ∧
    UInt8.ofNat (48 + k.val) ≠ 0o200 ∧ UInt8.ofNat (48 + k.val) ≠ 0o377 := by decide

/-- what the reader needs to know about a digit string -/
structure Digits (l : Bytes) : Prop where
  oct : ∀ c ∈ l, isOct c = true
  nz : ∀ c ∈ l, c ≠ 0
  nsp : ∀ c ∈ l, isSpace c = false
  low : ∀ c ∈ l, decide (c ≥ 128) = false
  hd : ∀ c ∈ l, c ≠ 0o200 ∧ c ≠ 0o377

theorem octDigits_length : ∀ w n, (octDigits w n).length = w := by
  intro w; induction w with
  | zero => intro n; rfl
  | succ w ih => intro n; simp [octDigits, ih]

theorem octDigits_digits : ∀ w n, Digits (octDigits w n) := by
  intro w; induction w with
  | zero => intro n; constructor <;> (intro c hc; cases hc)
  | succ w ih =>
    intro n
    have hk := digit_props ⟨n % 8, Nat.mod_lt _ (by decide)⟩
    simp only at hk
    have r := ih (n / 8)
    constructor <;> (intro c hc; simp only [octDigits, List.mem_append, List.mem_singleton] at hc)
    · rcases hc with hc | rfl; exact r.oct c hc; exact hk.1
    · rcases hc with hc | rfl; exact r.nz c hc; exact hk.2.1
    · rcases hc with hc | rfl; exact r.nsp c hc; exact hk.2.2.1
    · rcases hc with hc | rfl; exact r.low c hc; exact hk.2.2.2.1
    · rcases hc with hc | rfl; exact r.hd c hc; exact ⟨hk.2.2.2.2.2.1, hk.2.2.2.2.2.2⟩

theorem octVal_append (l : Bytes) (c : UInt8) : octVal (l ++ [c]) = octVal l * 8 + (c.toNat - 48) := by
  simp [octVal, List.foldl_append]

theorem octVal_octDigits : ∀ w n, octVal (octDigits w n) = n % 8 ^ w := by
  intro w; induction w with
  | zero => intro n; simp [octDigits, octVal, Nat.mod_one]
  | succ w ih =>
    intro n
    have hk := (digit_props ⟨n % 8, Nat.mod_lt _ (by decide)⟩).2.2.2.2.1
    simp only at hk
    rw [octDigits, octVal_append, ih, hk, Nat.pow_succ, Nat.mul_comm (8 ^ w) 8, Nat.mod_mul]
    omega

theorem takeWhile_nz (l r : Bytes) (h : ∀ c ∈ l, c ≠ 0) : (l ++ 0 :: r).takeWhile (· ≠ 0) = l := by
  rw [List.takeWhile_append_of_pos (by intro a ha; simpa using h a ha)]
  simp

theorem takeWhile_nz_zeros (l : Bytes) (k : Nat) (h : ∀ c ∈ l, c ≠ 0) : (l ++ zeros k).takeWhile (· ≠ 0) = l := by
  rw [List.takeWhile_append_of_pos (by intro a ha; simpa using h a ha)]
  cases k <;> simp [zeros, List.replicate]

theorem dropWhile_none (p : UInt8 → Bool) (l : Bytes) (h : ∀ c ∈ l, p c = false) : l.dropWhile p = l := by
  cases l with
  | nil => rfl
  | cons a t => simp [h a (by simp)]

theorem strip_digits (l : Bytes) (h : ∀ c ∈ l, isSpace c = false) : strip l = l := by
  unfold strip
  rw [dropWhile_none _ l h, dropWhile_none _ l.reverse (by intro c hc; exact h c (List.mem_reverse.mp hc)), List.reverse_reverse]

/-- the text branch of `nti` on `w ≥ 1` octal digits followed by a NUL -/
theorem ntiOct_digits (w n : Nat) (r : Bytes) (hw : 0 < w) :
    ntiOct (octDigits w n ++ 0 :: r) = .ok ((n % 8 ^ w : Nat) : Int) := by
  have d := octDigits_digits w n
  have hne : octDigits w n ≠ [] := by
    intro h; have := octDigits_length w n; rw [h] at this; simp at this; omega
  unfold ntiOct nts
  simp only [takeWhile_nz _ r d.nz]
  have h1 : (octDigits w n).any (fun x => decide (x ≥ 128)) = false := by
    rw [List.any_eq_false]; intro c hc; simpa using d.low c hc
  rw [h1, strip_digits _ d.nsp]
  simp only [Bool.false_eq_true, if_false, hne]
  rw [if_pos (by rw [List.all_eq_true]; exact d.oct), octVal_octDigits]

theorem nti_digits (w n : Nat) (r : Bytes) (hw : 0 < w) :
    nti (octDigits w n ++ 0 :: r) = .ok ((n % 8 ^ w : Nat) : Int) := by
  have d := octDigits_digits w n
  obtain ⟨w', rfl⟩ : ∃ w', w = w' + 1 := ⟨w - 1, by omega⟩
  have hh := ntiOct_digits (w' + 1) n r hw
  cases hl : octDigits (w' + 1) n with
  | nil => have := octDigits_length (w' + 1) n; rw [hl] at this; simp at this
  | cons a t =>
    rw [hl] at hh d
    have := d.hd a (by simp)
    simp only [List.cons_append, nti, this.1, this.2, if_false] at hh ⊢
    exact hh

theorem nti_octField (w n : Nat) (hw : 2 ≤ w) (hn : n < 8 ^ (w - 1)) : nti (octField w n) = .ok (n : Int) := by
  unfold octField
  rw [nti_digits (w - 1) n [] (by omega), Nat.mod_eq_of_lt hn]

theorem nti_zeros (k : Nat) (hk : 0 < k) : nti (zeros k) = .ok 0 := by
  obtain ⟨k', rfl⟩ : ∃ k', k = k' + 1 := ⟨k - 1, by omega⟩
  simp [zeros, List.replicate, nti, ntiOct, nts, strip]

theorem nts_zeros (k : Nat) : nts (zeros k) = [] := by
  cases k <;> simp [zeros, List.replicate, nts]

/-! ### slicing a right-nested concatenation -/

theorem sub_skip (a r : Bytes) (lo hi : Nat) (h : a.length ≤ lo) :
    sub (a ++ r) lo hi = sub r (lo - a.length) (hi - a.length) := by
  unfold sub
  rw [List.drop_append, List.drop_eq_nil_of_le h, List.nil_append]
  congr 1; omega

theorem sub_cons (c : UInt8) (r : Bytes) (lo hi : Nat) (h : 1 ≤ lo) : sub (c :: r) lo hi = sub r (lo - 1) (hi - 1) := by
  have := sub_skip [c] r lo hi (by simpa using h)
  simpa using this

theorem sub_here (x r : Bytes) (hi : Nat) (h : hi = x.length) : sub (x ++ r) 0 hi = x := by
  unfold sub; subst h; simp

theorem sub_all (x : Bytes) (hi : Nat) (h : hi = x.length) : sub x 0 hi = x := by
  unfold sub; subst h; simp

theorem sub_left (a r : Bytes) (lo hi : Nat) (h : hi ≤ a.length) : sub (a ++ r) lo hi = sub a lo hi := by
  unfold sub
  by_cases hl : lo ≤ a.length
  · rw [List.drop_append_of_le_length hl, List.take_append_of_le_length (by simp; omega)]
  · have : hi - lo = 0 := by omega
    simp [this]

theorem getD_skip (a r : Bytes) (i : Nat) (d : UInt8) (h : a.length ≤ i) : (a ++ r).getD i d = r.getD (i - a.length) d := by
  simp [List.getD_eq_getElem?_getD, List.getElem?_append_right h]

@[simp] theorem name100_length (n : Bytes) : (name100 n).length = 100 := by
  simp [name100]

theorem name100_eq (n : Bytes) (h : n.length ≤ 100) : name100 n = n ++ zeros (100 - n.length) := by
  unfold name100
  rw [List.take_append, List.take_of_length_le h]
  simp only [zeros, List.take_replicate]
  congr 2; omega

@[simp] theorem octField8_length (n : Nat) : (octField 8 n).length = 8 := by simp [octField, octDigits_length]
@[simp] theorem octField12_length (n : Nat) : (octField 12 n).length = 12 := by simp [octField, octDigits_length]
@[simp] theorem leBytes_length (w v : Nat) : (leBytes w v).length = w := by
  induction w generalizing v with
  | zero => rfl
  | succ w ih => simp [leBytes, ih]
@[simp] theorem magicField_length (v : Option Nat) : (magicField v).length = 8 := by
  cases v <;> rfl
@[simp] theorem chkField_length (a b : Bytes) : (chkField a b).length = 8 := by simp [chkField, octDigits_length]
@[simp] theorem hdrPre_length (m : MemberSpec) : (hdrPre m).length = 148 := by simp [hdrPre]
@[simp] theorem hdrPost_length (m : MemberSpec) : (hdrPost m).length = 356 := by simp [hdrPost]
@[simp] theorem hdrBlock_length (m : MemberSpec) : (hdrBlock m).length = 512 := by
  simp [hdrBlock]

theorem leNat_leBytes4 (v : Nat) (h : v < 2 ^ 32) : leNat (leBytes 4 v) = v := by
  simp only [leBytes, leNat, UInt8.toNat_ofNat']
  omega

theorem sumU_le (l : Bytes) : sumU l ≤ 255 * l.length := by
  have gen : ∀ (l : Bytes) (a : Nat), l.foldl (fun a c => a + c.toNat) a ≤ a + 255 * l.length := by
    intro l; induction l with
    | nil => intro a; simp
    | cons c t ih =>
      intro a
      have := ih (a + c.toNat)
      have hc := c.toNat_lt
      simp only [List.foldl_cons, List.length_cons]
      omega
  have := gen l 0
  simpa [sumU] using this

section header
variable (m : MemberSpec)

theorem blk_0_148 : sub (hdrBlock m) 0 148 = hdrPre m := by
  unfold hdrBlock; simp [sub_here]
theorem blk_156_512 : sub (hdrBlock m) 156 512 = hdrPost m := by
  unfold hdrBlock; simp [sub_skip, sub_all]
theorem blk_chk : sub (hdrBlock m) 148 156 = chkField (hdrPre m) (hdrPost m) := by
  unfold hdrBlock; simp [sub_skip, sub_here]

theorem blk_pre (lo hi : Nat) (h : hi ≤ 148) : sub (hdrBlock m) lo hi = sub (hdrPre m) lo hi := by
  unfold hdrBlock; exact sub_left _ _ _ _ (by simp; omega)
theorem blk_post (lo hi : Nat) (h : 156 ≤ lo) :
    sub (hdrBlock m) lo hi = sub (hdrPost m) (lo - 156) (hi - 156) := by
  unfold hdrBlock
  rw [sub_skip _ _ _ _ (by simp; omega), sub_skip _ _ _ _ (by simp; omega)]
  simp only [hdrPre_length, chkField_length]
  have e1 : lo - 148 - 8 = lo - 156 := by omega
  have e2 : hi - 148 - 8 = hi - 156 := by omega
  rw [e1, e2]

theorem blk_name : sub (hdrBlock m) 0 100 = name100 m.name := by
  rw [blk_pre _ _ _ (by omega)]; unfold hdrPre; simp [sub_here]
theorem blk_mode : sub (hdrBlock m) 100 108 = octField 8 m.mode := by
  rw [blk_pre _ _ _ (by omega)]; unfold hdrPre; simp [sub_skip, sub_here]
theorem blk_uid : sub (hdrBlock m) 108 116 = octField 8 m.uid := by
  rw [blk_pre _ _ _ (by omega)]; unfold hdrPre; simp [sub_skip, sub_here]
theorem blk_gid : sub (hdrBlock m) 116 124 = octField 8 m.gid := by
  rw [blk_pre _ _ _ (by omega)]; unfold hdrPre; simp [sub_skip, sub_here]
theorem blk_size : sub (hdrBlock m) 124 136 = octField 12 m.data.length := by
  rw [blk_pre _ _ _ (by omega)]; unfold hdrPre; simp [sub_skip, sub_here]
theorem blk_mtime : sub (hdrBlock m) 136 148 = octField 12 m.mtime := by
  rw [blk_pre _ _ _ (by omega)]; unfold hdrPre; simp [sub_skip, sub_all]

@[simp] theorem zeros_len (n : Nat) : (zeros n).length = n := by simp [zeros]

theorem blk_typ : (hdrBlock m).getD 156 0 = m.typ := by
  unfold hdrBlock
  rw [getD_skip _ _ _ _ (by simp), getD_skip _ _ _ _ (by simp)]
  simp [hdrPost]
theorem blk_link : sub (hdrBlock m) 157 257 = zeros 100 := by
  rw [blk_post _ _ _ (by omega)]; unfold hdrPost; simp [sub_cons, sub_here]
theorem blk_magic : sub (hdrBlock m) 257 264 = sub (magicField m.visor) 0 7 := by
  rw [blk_post _ _ _ (by omega)]; unfold hdrPost
  simp only [List.singleton_append, sub_cons, sub_skip, zeros_len, Nat.reduceSub, Nat.reduceLeDiff]
  exact sub_left _ _ _ _ (by simp)
theorem blk_uname : sub (hdrBlock m) 265 297 = zeros 32 := by
  rw [blk_post _ _ _ (by omega)]; unfold hdrPost; simp [sub_skip, sub_cons, sub_here]
theorem blk_gname : sub (hdrBlock m) 297 329 = zeros 32 := by
  rw [blk_post _ _ _ (by omega)]; unfold hdrPost; simp [sub_skip, sub_cons, sub_here]
theorem blk_devmajor : sub (hdrBlock m) 329 337 = zeros 8 := by
  rw [blk_post _ _ _ (by omega)]; unfold hdrPost; simp [sub_skip, sub_cons, sub_here]
theorem blk_devminor : sub (hdrBlock m) 337 345 = zeros 8 := by
  rw [blk_post _ _ _ (by omega)]; unfold hdrPost; simp [sub_skip, sub_cons, sub_here]
theorem blk_off : sub (hdrBlock m) 496 500 = leBytes 4 (m.visor.getD 0) := by
  rw [blk_post _ _ _ (by omega)]; unfold hdrPost; simp [sub_skip, sub_cons, sub_here]
theorem blk_text : sub (hdrBlock m) 504 508 = zeros 4 := by
  rw [blk_post _ _ _ (by omega)]; unfold hdrPost; simp [sub_skip, sub_cons, sub_here]
theorem blk_fix : sub (hdrBlock m) 508 512 = zeros 4 := by
  rw [blk_post _ _ _ (by omega)]; unfold hdrPost; simp [sub_skip, sub_cons, sub_all]
/-- the prefix field starts with a NUL -/
theorem blk_pfx : nts (sub (hdrBlock m) 345 500) = [] := by
  rw [blk_post _ _ _ (by omega)]; unfold hdrPost
  simp only [List.singleton_append, sub_cons, sub_skip, zeros_len, magicField_length, Nat.reduceSub, Nat.reduceLeDiff]
  simp [sub, zeros, nts, List.replicate]

end header

/-! ### the reader on a written header block -/

theorem nts_name100 (name : Bytes) (hn : name.length ≤ 100) (hz : ∀ c ∈ name, c ≠ 0) : nts (name100 name) = name := by
  rw [name100_eq name hn]; exact takeWhile_nz_zeros _ _ hz

theorem chk_value (pre post : Bytes) (h1 : pre.length = 148) (h2 : post.length = 356) :
    nti (chkField pre post) = .ok ((256 + sumU pre + sumU post : Nat) : Int) := by
  unfold chkField
  rw [nti_digits 6 _ [32] (by decide), Nat.mod_eq_of_lt]
  have a := sumU_le pre
  have b := sumU_le post
  rw [h1] at a; rw [h2] at b
  omega

theorem memberOK_iff (m : MemberSpec) : memberOK m = true ↔
    m.name.length ≤ 100 ∧ (∀ c ∈ m.name, c ≠ 0) ∧ m.data.length < 8 ^ 11 ∧ (m.isDir = true → m.data = []) ∧
      m.visor.getD 0 < 2 ^ 32 ∧ m.mode < 8 ^ 7 ∧ m.uid < 8 ^ 7 ∧ m.gid < 8 ^ 7 ∧ m.mtime < 8 ^ 11 := by
  simp only [memberOK, Bool.and_eq_true, decide_eq_true_eq, List.all_eq_true, Bool.or_eq_true, Bool.not_eq_true',
    ne_eq, decide_not, Bool.not_eq_true', decide_eq_false_iff_not]
  constructor
  · rintro ⟨⟨⟨⟨⟨⟨⟨⟨a, b⟩, c⟩, d⟩, e⟩, f1⟩, f2⟩, f3⟩, f4⟩
    refine ⟨a, b, c, ?_, e, f1, f2, f3, f4⟩
    intro hd; rcases d with d | d
    · rw [hd] at d; cases d
    · exact d
  · rintro ⟨a, b, c, d, e, f1, f2, f3, f4⟩
    refine ⟨⟨⟨⟨⟨⟨⟨⟨a, b⟩, c⟩, ?_⟩, e⟩, f1⟩, f2⟩, f3⟩, f4⟩
    cases hd : m.isDir
    · exact Or.inl rfl
    · exact Or.inr (d hd)

theorem typ_cases (m : MemberSpec) : m.typ = tREG ∨ m.typ = tDIR := by
  unfold MemberSpec.typ; cases m.isDir <;> simp

theorem typ_dir (m : MemberSpec) : (m.typ = tDIR) ↔ m.isDir = true := by
  unfold MemberSpec.typ; cases m.isDir <;> simp [tREG, tDIR]

theorem tarFields_hdrBlock (m : MemberSpec) (h : memberOK m = true) :
    tarFields (hdrBlock m) =
      .ok { name := m.listedName, mode := m.mode, uid := m.uid, gid := m.gid, size := (m.data.length : Int),
            mtime := m.mtime, typ := m.typ, linkname := [], uname := [], gname := [] } := by
  obtain ⟨hn, hz, hs, _, _, h1, h2, h3, h4⟩ := (memberOK_iff m).mp h
  unfold tarFields
  have hc : (chksums (hdrBlock m)).1 = ((256 + sumU (hdrPre m) + sumU (hdrPost m) : Nat) : Int) := by
    unfold chksums; rw [blk_0_148, blk_156_512]
  rw [hc, blk_chk, blk_mode, blk_uid, blk_gid, blk_size, blk_mtime, blk_devmajor, blk_devminor, blk_name, blk_typ, blk_pfx,
    blk_link, blk_uname, blk_gname, chk_value _ _ (by simp) (by simp), nti_octField 8 m.mode (by decide) h1,
    nti_octField 8 m.uid (by decide) h2, nti_octField 8 m.gid (by decide) h3, nti_octField 12 _ (by decide) hs,
    nti_octField 12 m.mtime (by decide) h4, nti_zeros 8 (by decide), nts_name100 m.name hn hz, nts_zeros, nts_zeros]
  simp only [Bind.bind, Except.bind]
  unfold MemberSpec.listedName
  by_cases hd : m.isDir = true
  · have ht : m.typ = tDIR := (typ_dir m).mpr hd
    rw [ht]; simp [tAREG, tDIR, tSPARSE, hd]
  · have ht : m.typ = tREG := by
      rcases typ_cases m with h | h
      · exact h
      · exact absurd ((typ_dir m).mp h) hd
    rw [ht]; simp [tREG, tAREG, tDIR, tSPARSE, hd]

theorem octField_not_zero (n : Nat) : (octField 8 n).all (· = 0) = false := by
  have d := octDigits_digits 7 n
  cases hl : octDigits 7 n with
  | nil => have := octDigits_length 7 n; rw [hl] at this; simp at this
  | cons a t =>
    rw [hl] at d
    have := d.nz a (by simp)
    simp [octField, hl, this]

theorem hdrBlock_not_zero (m : MemberSpec) : (hdrBlock m).all (· = 0) = false := by
  simp [hdrBlock, hdrPre, List.all_append, octField_not_zero]

theorem frombuf_hdrBlock (m : MemberSpec) (h : memberOK m = true) :
    frombuf true (hdrBlock m) = .ok (expHdr m) := by
  obtain ⟨_, _, _, _, ho, _⟩ := (memberOK_iff m).mp h
  unfold frombuf
  obtain ⟨h1, h2, h3, h4, h5, h6, h7, h8⟩ := positions_spec
  rw [h1, h2, h3, h4, h5, h6, h7, h8, hdrBlock_not_zero, tarFields_hdrBlock m h,
    blk_magic, blk_off, blk_text, blk_fix, leNat_leBytes4 _ ho]
  simp only [hdrBlock_length, BLOCK]
  cases hv : m.visor with
  | none =>
    have : sub (magicField none) 0 7 ≠ visorMagic := by decide
    simp [expHdr, hv, this]
  | some off =>
    have : sub (magicField (some off)) 0 7 = visorMagic := by
      show sub (visorMagic ++ [0]) 0 7 = visorMagic; decide
    have hz4 : leNat (zeros 4) = 0 := by decide
    simp [expHdr, hv, this, hz4]

/-! ### bytes placed in a file -/

/-- the byte string `bs` sits at `pos` inside `f` -/
def At (f : File) (pos : Nat) (bs : Bytes) : Prop := pos + bs.length ≤ f.size ∧ slice f.byte pos bs.length = bs

theorem At.append {f : File} {pos : Nat} {a b : Bytes} (h : At f pos (a ++ b)) : At f pos a ∧ At f (pos + a.length) b := by
  obtain ⟨h1, h2⟩ := h
  rw [List.length_append] at h1 h2
  rw [slice_append] at h2
  obtain ⟨e1, e2⟩ := List.append_inj h2 (by simp)
  exact ⟨⟨by omega, e1⟩, ⟨by omega, e2⟩⟩

theorem At.read {f : File} {pos : Nat} {bs : Bytes} (h : At f pos bs) : f.read pos bs.length = bs := by
  rw [File.read_eq_slice f pos _ h.1]; exact h.2

theorem At.read_take {f : File} {pos : Nat} {a b : Bytes} (h : At f pos (a ++ b)) : f.read pos a.length = a :=
  h.append.1.read

theorem listFrom_ok (f : File) (fuel pos tell : Nat) (acc : List Member) (h0 : pos = 0 → tell = 0) (hsz : pos ≤ f.size)
    (m : Member) (next : Int) (t : Nat) (hstep : fromTarfile f true (f.size / BLOCK + 2) pos = .ok (m, next, t)) :
    listFrom f true (fuel + 1) (pos : Int) tell acc = listFrom f true fuel next t (m :: acc) := by
  simp only [listFrom, Int.toNat_natCast]
  rw [if_neg (by omega)]
  by_cases hpt : pos = tell
  · subst hpt; simp [hstep]
  · have hp0 : pos ≠ 0 := fun h => hpt (by rw [h0 h, h])
    simp [hpt, hp0, hstep, show pos - 1 < f.size by omega]

theorem listFrom_eof (f : File) (fuel pos tell : Nat) (acc : List Member) (h0 : pos = 0 → tell = 0) (hsz : pos ≤ f.size)
    (hstep : fromTarfile f true (f.size / BLOCK + 2) pos = .error .eofHeader) :
    listFrom f true (fuel + 1) (pos : Int) tell acc = .ok acc.reverse := by
  simp only [listFrom, Int.toNat_natCast]
  rw [if_neg (by omega)]
  by_cases hpt : pos = tell
  · subst hpt; simp [hstep]
  · have hp0 : pos ≠ 0 := fun h => hpt (by rw [h0 h, h])
    simp [hpt, hp0, hstep, show pos - 1 < f.size by omega]

theorem dropWhile_idem (p : UInt8 → Bool) (l : Bytes) : (l.dropWhile p).dropWhile p = l.dropWhile p := by
  induction l with
  | nil => rfl
  | cons a t ih =>
    by_cases h : p a = true
    · simp [h, ih]
    · simp [h]

theorem rstripSlash_idem (b : Bytes) : rstripSlash (rstripSlash b) = rstripSlash b := by
  simp [rstripSlash, dropWhile_idem]

theorem pad512_blockI (pos n : Nat) :
    ((pos + 512 : Nat) : Int) + blockI (n : Int) = ((pos + (512 + (n + pad512 n)) : Nat) : Int) := by
  unfold pad512 blockI; omega

theorem padded_length (d : Bytes) : (padded d).length = d.length + pad512 d.length := by simp [padded]

theorem encMember_length (m : MemberSpec) :
    (encMember m).length = 512 + (if m.inline then m.data.length + pad512 m.data.length else 0) := by
  unfold encMember; cases m.inline <;> simp [padded_length]

theorem inline_iff (m : MemberSpec) : m.inline = true ↔ ¬ (m.visor.isSome = true ∧ m.visor.getD 0 ≠ 0) := by
  unfold MemberSpec.inline; cases m.visor <;> simp

/-- one `next()` on a written member: the listed member, the next header offset, the file position -/
theorem fromTarfile_enc (f : File) (m : MemberSpec) (hm : memberOK m = true) (pos fuel : Nat) (hA : At f pos (encMember m)) :
    fromTarfile f true (fuel + 1) pos =
      .ok (expMember pos m, ((pos + (encMember m).length : Nat) : Int), pos + 512) := by
  have hrd : f.read pos BLOCK = hdrBlock m := by
    have := At.read_take (a := hdrBlock m) hA
    simpa [BLOCK] using this
  have hfb := frombuf_hdrBlock m hm
  rw [← hrd] at hfb
  obtain ⟨_, _, _, hdir, _⟩ := (memberOK_iff m).mp hm
  by_cases hin : m.inline = true
  · -- standard member: data (if any) follows
    have hnv := (inline_iff m).mp hin
    simp only [fromTarfile, hfb]
    have e1 : ¬ (True ∧ (expHdr m).isVisor = true ∧ (expHdr m).vOffset ≠ 0) := fun hc => hnv hc.2
    rw [if_neg e1]
    have ht := typ_cases m
    have e2 : ¬ ((expHdr m).typ = tLONGNAME ∨ (expHdr m).typ = tLONGLINK) := by
      show ¬ (m.typ = tLONGNAME ∨ m.typ = tLONGLINK)
      rcases ht with h | h <;> rw [h] <;> decide
    have e3 : ¬ ((expHdr m).typ = tXHD ∨ (expHdr m).typ = tXGL ∨ (expHdr m).typ = tSOLX) := by
      show ¬ (m.typ = tXHD ∨ m.typ = tXGL ∨ m.typ = tSOLX)
      rcases ht with h | h <;> rw [h] <;> decide
    rw [if_neg e2, if_neg e3]
    have hname : (if (expHdr m).typ = tDIR then rstripSlash (expHdr m).name else (expHdr m).name) = m.listedName := by
      show (if m.typ = tDIR then rstripSlash m.listedName else m.listedName) = m.listedName
      by_cases hd : m.isDir = true
      · rw [if_pos ((typ_dir m).mpr hd)]; unfold MemberSpec.listedName; rw [if_pos hd, rstripSlash_idem]
      · rw [if_neg (fun hh => hd ((typ_dir m).mp hh))]
    have hskip : ((pos + BLOCK : Nat) : Int) +
        (if isReg (expHdr m).typ = true ∨ ¬ supported (expHdr m).typ = true then blockI (expHdr m).size else 0)
          = ((pos + (encMember m).length : Nat) : Int) := by
      rw [encMember_length, if_pos hin]
      show ((pos + BLOCK : Nat) : Int) + (if isReg m.typ = true ∨ ¬ supported m.typ = true then blockI (m.data.length : Int) else 0) = _
      by_cases hd : m.isDir = true
      · have : m.typ = tDIR := (typ_dir m).mpr hd
        rw [this, hdir hd]
        simp [BLOCK, isReg, supported, tDIR, tREG, tAREG, tCONT, tSPARSE, tLNK, tSYM, pad512]
      · have : m.typ = tREG := by
          rcases ht with h | h
          · exact h
          · exact absurd ((typ_dir m).mp h) hd
        rw [this, if_pos (Or.inl (by decide))]
        simp only [BLOCK]; exact pad512_blockI pos m.data.length
    rw [hname, hskip]
    simp only [expMember, hin, if_true, BLOCK, expHdr]
  · -- visor member with a data area
    have hv : (expHdr m).isVisor = true ∧ (expHdr m).vOffset ≠ 0 := by
      have : ¬ ¬ (m.visor.isSome = true ∧ m.visor.getD 0 ≠ 0) := fun h => hin ((inline_iff m).mpr h)
      exact Decidable.not_not.mp this
    rw [fromTarfile_visor f fuel pos (expHdr m) hfb hv.1 hv.2, encMember_length, if_neg hin]
    simp only [expMember, hin, BLOCK, expHdr]
    rfl

theorem fromTarfile_eof (f : File) (pos fuel : Nat) (hA : At f pos (zeros 1024)) :
    fromTarfile f true (fuel + 1) pos = .error .eofHeader := by
  have hrd : f.read pos BLOCK = zeros 512 := by
    have h : At f pos (zeros 512 ++ zeros 512) := by
      have e : zeros 512 ++ zeros 512 = zeros 1024 := by simp only [zeros, List.replicate_append_replicate]
      rw [e]; exact hA
    have := At.read_take h
    simpa [BLOCK] using this
  have hfb : frombuf true (zeros 512) = .error .eofHeader := by
    unfold frombuf
    have h1 : (zeros 512).length = 512 := by simp
    have h2 : (zeros 512).all (· = 0) = true := by
      rw [List.all_eq_true]; intro x hx
      simp only [zeros] at hx
      simp [List.eq_of_mem_replicate hx]
    simp [h1, h2, BLOCK]
  simp only [fromTarfile, hrd, hfb]

/-- **the listing of a written header section**, from any header boundary on -/
theorem listFrom_enc (f : File) : ∀ (ms : List MemberSpec) (pos tell fuel : Nat) (acc : List Member),
    (∀ m ∈ ms, memberOK m = true) → At f pos (hdrSection ms ++ zeros 1024) → (pos = 0 → tell = 0) →
    ms.length + 1 ≤ fuel →
    listFrom f true fuel (pos : Int) tell acc = .ok (acc.reverse ++ expected pos ms) := by
  intro ms
  induction ms with
  | nil =>
    intro pos tell fuel acc _ hA h0 hf
    obtain ⟨fuel, rfl⟩ : ∃ k, fuel = k + 1 := ⟨fuel - 1, by simp at hf; omega⟩
    have hA' : At f pos (zeros 1024) := by simpa [hdrSection] using hA
    have hsz : pos ≤ f.size := by have := hA'.1; omega
    rw [listFrom_eof f fuel pos tell acc h0 hsz (fromTarfile_eof f pos _ hA')]
    simp [expected]
  | cons m ms ih =>
    intro pos tell fuel acc hok hA h0 hf
    obtain ⟨fuel, rfl⟩ : ∃ k, fuel = k + 1 := ⟨fuel - 1, by simp at hf; omega⟩
    have hA2 : At f pos (encMember m ++ (hdrSection ms ++ zeros 1024)) := by
      simpa [hdrSection, List.append_assoc] using hA
    obtain ⟨hAm, hArest⟩ := hA2.append
    have hsz : pos ≤ f.size := by have := hAm.1; omega
    have hstep := fromTarfile_enc f m (hok m (by simp)) pos (f.size / BLOCK + 1) hAm
    rw [listFrom_ok f fuel pos tell acc h0 hsz _ _ _ hstep]
    have hlen := encMember_length m
    rw [ih (pos + (encMember m).length) (pos + 512) fuel (expMember pos m :: acc) (fun m' hm' => hok m' (by simp [hm'])) hArest
      (by omega) (by simp at hf; omega)]
    simp [expected]

/-! ### the relation "the file stores this archive" -/

/-- `f` stores the archive `ms`: header section and end-of-archive blocks at 0, every data area at its recorded offset -/
structure Encodes (f : File) (ms : List MemberSpec) : Prop where
  hdr : At f 0 (hdrSection ms ++ zeros 1024)
  data : ∀ m ∈ ms, m.inline = false → At f (m.visor.getD 0) m.data

theorem listFuel_ok (f : File) (ms : List MemberSpec) (hA : At f 0 (hdrSection ms ++ zeros 1024)) :
    ms.length + 1 ≤ listFuel f := by
  have h := hA.1
  have hl : ∀ ms : List MemberSpec, 512 * ms.length ≤ (hdrSection ms).length := by
    intro ms; induction ms with
    | nil => simp
    | cons m t ih => simp only [hdrSection, List.length_append, List.length_cons, encMember_length]; omega
  have := hl ms
  simp only [List.length_append, zeros_len] at h
  unfold listFuel BLOCK
  omega

theorem list_of_encodes (f : File) (ms : List MemberSpec) (hok : ∀ m ∈ ms, memberOK m = true) (he : Encodes f ms) :
    list f true = .ok (expected 0 ms) := by
  unfold list
  have := listFrom_enc f ms 0 0 (listFuel f) [] hok he.hdr (fun _ => rfl) (listFuel_ok f ms he.hdr)
  simpa using this

/-! ### extraction -/

theorem extract_expMember (f : File) (m : MemberSpec) (pos : Nat)
    (hd : At f (if m.inline then pos + 512 else m.visor.getD 0) m.data) :
    extract f (expMember pos m) = m.stored := by
  unfold extract MemberSpec.stored
  show (if isReg m.typ = true ∨ ¬ supported m.typ = true then _ else _) = _
  by_cases hdir : m.isDir = true
  · have : m.typ = tDIR := (typ_dir m).mpr hdir
    rw [this, if_pos hdir]; rfl
  · have : m.typ = tREG := by
      rcases typ_cases m with h | h
      · exact h
      · exact absurd ((typ_dir m).mp h) hdir
    rw [this, if_pos (Or.inl (by decide)), if_neg hdir]
    have hrd := hd.read
    by_cases hin : m.inline = true
    · simp only [expMember, expHdr, hin, if_true] at hrd ⊢
      rw [if_neg (by omega)]
      simp only [Int.toNat_natCast, hrd]
    · simp only [expMember, expHdr, hin] at hrd ⊢
      rw [if_neg (by omega)]
      simp only [Int.toNat_natCast]
      simpa using congrArg some hrd

theorem extract_enc (f : File) : ∀ (ms : List MemberSpec) (pos : Nat), At f pos (hdrSection ms ++ zeros 1024) →
    (∀ m ∈ ms, m.inline = false → At f (m.visor.getD 0) m.data) →
    (expected pos ms).map (extract f) = ms.map MemberSpec.stored := by
  intro ms
  induction ms with
  | nil => intro pos _ _; rfl
  | cons m ms ih =>
    intro pos hA hD
    have hA2 : At f pos (encMember m ++ (hdrSection ms ++ zeros 1024)) := by
      simpa [hdrSection, List.append_assoc] using hA
    obtain ⟨hAm, hArest⟩ := hA2.append
    simp only [expected, List.map_cons]
    rw [ih _ hArest (fun m' hm' => hD m' (by simp [hm']))]
    congr 1
    apply extract_expMember
    by_cases hin : m.inline = true
    · rw [if_pos hin]
      unfold encMember padded at hAm
      rw [if_pos hin] at hAm
      have := hAm.append.2.append.1
      simpa using this
    · rw [if_neg hin]
      exact hD m (by simp) (by simpa using hin)

/-! ### the writer `encode` produces such a file -/

theorem slice_eq_of (g : Nat → UInt8) (pos : Nat) (bs : Bytes) (h : ∀ i, i < bs.length → g (pos + i) = bs.getD i 0) :
    slice g pos bs.length = bs := by
  apply List.ext_getElem
  · simp
  · intro i h1 h2
    simp only [slice, List.getElem_map, List.getElem_range]
    rw [h i h2]
    simp [List.getD_eq_getElem?_getD, h2]

theorem disjoint_iff (a b : MemberSpec) : disjoint a b = true ↔
    (a.inline = true ∨ b.inline = true ∨ a.data.length = 0 ∨ b.data.length = 0 ∨
      a.visor.getD 0 + a.data.length ≤ b.visor.getD 0 ∨ b.visor.getD 0 + b.data.length ≤ a.visor.getD 0) := by
  simp only [disjoint, Bool.or_eq_true, decide_eq_true_eq, or_assoc]

theorem dataByte_skip (L : Layout) (m : MemberSpec) (ms : List MemberSpec) (i : Nat)
    (h : m.inline = true ∨ ¬ (m.visor.getD 0 ≤ i ∧ i < m.visor.getD 0 + m.data.length)) :
    dataByte L (m :: ms) i = dataByte L ms i := by
  cases hv : m.visor with
  | none => simp only [dataByte, hv]
  | some off =>
    simp only [dataByte, hv]
    rw [if_neg]
    rintro ⟨h0, h1, h2⟩
    rcases h with h | h
    · simp [MemberSpec.inline, hv] at h; exact h0 h
    · simp only [hv, Option.getD_some] at h; exact h ⟨h1, h2⟩

theorem dataByte_here (L : Layout) (m : MemberSpec) (ms : List MemberSpec) (i : Nat)
    (hin : m.inline = false) (hi : i < m.data.length) :
    dataByte L (m :: ms) (m.visor.getD 0 + i) = m.data.getD i 0 := by
  cases hv : m.visor with
  | none => simp [MemberSpec.inline, hv] at hin
  | some off =>
    simp only [MemberSpec.inline, hv, decide_eq_false_iff_not] at hin
    simp only [dataByte, hv, Option.getD_some]
    rw [if_pos ⟨hin, by omega, by omega⟩]
    congr 1; omega

theorem dataByte_at (L : Layout) : ∀ (ms : List MemberSpec), pairwiseDisjoint ms = true → ∀ m ∈ ms, m.inline = false →
    ∀ i, i < m.data.length → dataByte L ms (m.visor.getD 0 + i) = m.data.getD i 0 := by
  intro ms
  induction ms with
  | nil => intro _ m hm; cases hm
  | cons m0 ms ih =>
    intro hp m hm hin i hi
    simp only [pairwiseDisjoint, Bool.and_eq_true, List.all_eq_true] at hp
    rcases List.mem_cons.mp hm with rfl | hm'
    · exact dataByte_here L m ms i hin hi
    · have hd := (disjoint_iff m0 m).mp (hp.1 m hm')
      by_cases h0 : m0.inline = true
      · rw [dataByte_skip L m0 ms _ (Or.inl h0)]; exact ih hp.2 m hm' hin i hi
      · by_cases hcov : m0.visor.getD 0 ≤ m.visor.getD 0 + i ∧ m.visor.getD 0 + i < m0.visor.getD 0 + m0.data.length
        · -- covered by an earlier area: the two areas coincide there only if they are the same bytes — excluded
          exfalso
          rw [hin] at hd
          rcases hd with h | h | h | h | h | h
          · exact h0 h
          · cases h
          · omega
          · omega
          · omega
          · omega
        · rw [dataByte_skip L m0 ms _ (Or.inr hcov)]; exact ih hp.2 m hm' hin i hi

theorem wf_iff (ms : List MemberSpec) (L : Layout) : WF ms L ↔
    ((hdrSection ms).length + 1024 ≤ L.size ∧ (∀ m ∈ ms, memberOK m = true) ∧
      (∀ m ∈ ms, areaOK ((hdrSection ms).length + 1024) L.size m = true) ∧ pairwiseDisjoint ms = true) := by
  simp only [WF, wfb, Bool.and_eq_true, decide_eq_true_eq, List.all_eq_true, and_assoc]

theorem encode_encodes (ms : List MemberSpec) (L : Layout) (h : WF ms L) : Encodes (encode ms L) ms := by
  obtain ⟨hsz, _, harea, hpd⟩ := (wf_iff ms L).mp h
  constructor
  · refine ⟨by simpa [encode] using hsz, ?_⟩
    apply slice_eq_of
    intro i hi
    simp only [encode, Nat.zero_add]
    rw [if_pos hi]
  · intro m hm hin
    have ha := harea m hm
    simp only [areaOK, hin, Bool.false_or, Bool.and_eq_true, decide_eq_true_eq] at ha
    refine ⟨by simpa [encode] using ha.2, ?_⟩
    apply slice_eq_of
    intro i hi
    simp only [encode]
    rw [if_neg (by simp only [List.length_append, zeros_len]; omega)]
    exact dataByte_at L ms hpd m hm hin i hi

/-! ### where the listed members' headers sit -/

theorem expected_length : ∀ (ms : List MemberSpec) (pos : Nat), (expected pos ms).length = ms.length := by
  intro ms; induction ms with
  | nil => intro _; rfl
  | cons m t ih => intro pos; simp [expected, ih]

theorem expected_getElem : ∀ (ms : List MemberSpec) (pos i : Nat) (hi : i < ms.length),
    (expected pos ms)[i]'(by rw [expected_length]; exact hi) = expMember (pos + (hdrSection (ms.take i)).length) ms[i] := by
  intro ms; induction ms with
  | nil => intro _ i hi; cases hi
  | cons m t ih =>
    intro pos i hi
    cases i with
    | zero => simp [expected, hdrSection]
    | succ i =>
      simp only [expected, List.getElem_cons_succ, List.take_succ_cons, hdrSection, List.length_append]
      rw [ih (pos + (encMember m).length) i (by simpa using hi), Nat.add_assoc]

end Hv.Vmtar
