"""C10 — descriptor-driven multi-extent assembly: VMDK descriptors / handle lists (gen_vmdk.gen_disk),
Parallels storages (gen_hdd), and the extent-line grammar (regex model vs the live regex)."""
from __future__ import annotations

import os
import random
import shutil
import tempfile

import core
import gen_hdd
import gen_vmdk
from core import Built

PROPERTY = "C10"
RULE = ("three families. vmdk: gen_vmdk.gen_disk — 1..8 extents of mixed kinds (flat, VMFS, hosted sparse, VMFS sparse, "
        "SE-sparse, stream-optimised) and sizes, descriptor text variants (access modes, quoted names with spaces / unicode / "
        "quote-like characters, optional fields, CRLF, ddb entries) or explicit handle lists; requests straddling every extent "
        "boundary and the tail. hdd: Parallels directories with 1..4 storages (plain / expanding images, XML order shuffled, mostly not ascending by Start). "
        "line: extent lines rendered from abstract extents plus adversarial lines, parsed by the live regex and by the Lean "
        "regex model translated from it. Non-trivial = ≥ 2 extents/storages and a request crossing a boundary (disk families), "
        "or a line with ≥ 5 fields / special characters (line family); distinct recipe hash.")
ASSUMPTIONS = ["Python `re` backtracking semantics as implemented in Hv/Prim/Regex.lean (checked on every run against the live regex)",
               "str.strip / str.isspace / \\d tables extracted from the running interpreter", "pathlib name resolution (real temp directories on the implementation side)"]
TIMEOUT_CASE = 60.0


# --------------------------------------------------------------------------------------------- line family

def hexs(s: str) -> str:
    return s.encode("utf-8", "surrogatepass").hex()


ACCESS = ["RW", "RDONLY", "NOACCESS"]
TYPES = ["SPARSE", "ZERO", "FLAT", "VMFS", "VMFSSPARSE", "VMFSRDM", "VMFSRAW", "SESPARSE"]
WEIRD = ['a b', 'disk-s001.vmdk', 'ディスク.vmdk', 'a"b', '"', 'x" 5 "y', ' lead', 'trail ', 'tab\there', 'RW 5 FLAT', "q'#=x", 'é b', '1', '٣٤']


def gen_lines(rng, n):
    out = []
    for _ in range(n):
        k = rng.random()
        acc = rng.choice(ACCESS)
        sec = rng.choice([0, 1, 63, 4192256, 2 ** 32, 10 ** 12])
        ty = rng.choice(TYPES)
        name = rng.choice(WEIRD) if rng.random() < 0.5 else "".join(rng.choice("abcXYZ019 ._-") for _ in range(rng.randrange(1, 20)))
        if k < 0.45:
            line = f'{acc} {sec} {ty} "{name}"'
            extra = rng.choice([[], [], ["0"], ["2048"], ["0", "uuid-1"], ["7", "part-uuid", "dev-id"], ["x"], ["x", "y"]])
            line += "".join(" " + e for e in extra)
        elif k < 0.55:
            line = f"{acc} {sec} {ty}"
        else:
            # adversarial: mutate a good line
            line = f'{acc} {sec} {ty} "{name}" 5 u d'
            m = rng.choice(["dbl", "tab", "lower", "noquote", "trail", "lead", "extra", "digit", "badtype", "nbsp", "nl", "quote2", "empty"])
            if m == "dbl":
                line = line.replace(" ", "  ", 1)
            elif m == "tab":
                line = line.replace(" ", "\t", rng.randrange(1, 3))
            elif m == "lower":
                line = line.lower()
            elif m == "noquote":
                line = line.replace('"', "")
            elif m == "trail":
                line += rng.choice([" ", " z", ' "', "\t"])
            elif m == "lead":
                line = rng.choice([" ", "x", "#"]) + line
            elif m == "extra":
                line += " e1 e2"
            elif m == "digit":
                line = line.replace(str(sec), rng.choice(["٣٤", "1_0", "-1", "1.5", "0x10", "１２"]), 1)
            elif m == "badtype":
                line = line.replace(ty, rng.choice(["SPARSEX", "FLATS", "VMFSX", "SE", "VMFSSPARSES", ""]), 1)
            elif m == "nbsp":
                line = line.replace(" ", " ", 1)
            elif m == "nl":
                line = line + "\r"
            elif m == "quote2":
                line = line.replace('"', '""')
            elif m == "empty":
                line = f'{acc} {sec} {ty} ""'
        out.append(line)
    return out


def gen_desc_text(rng):
    """a descriptor text with awkward but legal content"""
    lines = ["# Disk DescriptorFile", "version=1", f"CID={rng.getrandbits(32):08x}", "parentCID=ffffffff",
             f'createType="{rng.choice(["twoGbMaxExtentSparse", "monolithicFlat", "vmfs"])}"']
    for _ in range(rng.randrange(0, 4)):
        k = rng.choice(["ddb.adapterType", "ddb.geometry.sectors", "ddb.comment", "ddb.uuid", "foo", "Foo", "parentFileNameHint", "a.b", "ddb.x y"])
        v = rng.choice(["ide", "63", "a=b=c", " spaced ", 'q"uote', "x\u2028y", "ff\x0cff", "", "ü", "#nothash"])
        q = rng.choice(['{}="{}"', "{}={}", '{} = "{}"', "{}  =  {}", '{}="{}" '])
        lines.append(q.format(k, v))
    for l in gen_lines(rng, rng.randrange(0, 5)):
        lines.append(l)
    for _ in range(rng.randrange(0, 3)):
        lines.insert(rng.randrange(len(lines) + 1), rng.choice(["", "   ", "# comment", "#", "\t", "noequals", "=", "=x", "RW", "RW ", "RDONLY 5"]))
    sep = rng.choice(["\n", "\n", "\r\n", "\n\n"])
    return sep.join(lines) + rng.choice(["", "\n"])


def impl_desc(text):
    from dissect.hypervisor.disk.vmdk import DiskDescriptor
    d = DiskDescriptor.parse(text)

    def o(v):
        return "N" if v is None else ("S" + hexs(v) if isinstance(v, str) else str(v))
    ex = "|".join(f"{hexs(e.access_mode)},{e.sectors},{hexs(e.type)},{o(e.filename)},{o(e.start_sector)},{o(e.partition_uuid)},{o(e.device_identifier)}" for e in d.extents)
    kv = lambda m: ";".join(f"{hexs(k)}={hexs(v)}" for k, v in m.items())  # noqa: E731
    return f"ok sectors={d.sectors} extents=[{ex}] attr=[{kv(d.attr)}] ddb=[{kv(d.ddb)}]"


def impl_line(line):
    from dissect.hypervisor.disk.vmdk import RE_EXTENT_DESCRIPTOR, ExtentDescriptor
    m = RE_EXTENT_DESCRIPTOR.search(line)
    if not m:
        return "none"
    e = ExtentDescriptor(raw=line, **m.groupdict())

    def o(v):
        return "N" if v is None else ("S" + hexs(v) if isinstance(v, str) else str(v))
    return f"ok {hexs(e.access_mode)},{e.sectors},{hexs(e.type)},{o(e.filename)},{o(e.start_sector)},{o(e.partition_uuid)},{o(e.device_identifier)}"


# --------------------------------------------------------------------------------------------- generation

def generate(seed, tier):
    rng = random.Random(f"C10/{seed}/{tier}")
    cases = []
    nv = 90 if tier == "quick" else 1200
    for i in range(nv):
        r = gen_vmdk.gen_disk(rng, tier)
        t = gen_vmdk.DiskTruth(r)
        qs = [["s", 0, 2]] + ([["o", o, l] for o, l in gen_vmdk.gen_queries(rng, t.size, t.points(), 8 if tier == "quick" else 14)] if t.size else [])
        cases.append({"id": f"v{i}", "fam": "vmdk", "recipe": r, "align": rng.choice([8192] * 5 + [512, 4096, 65536]), "queries": qs})
    nh = 50 if tier == "quick" else 700
    for i in range(nh):
        r = gen_hdd.gen_recipe(rng, tier, max_depth=1, disorder=0.6)
        t = gen_hdd.Truth(r)
        cases.append({"id": f"h{i}", "fam": "hdd", "recipe": r, "align": rng.choice([8192] * 5 + [512, 4096, 65536]),
                      "queries": [["s", 0, 2]] + gen_hdd.gen_queries(rng, t, 8 if tier == "quick" else 14)})
    nl = 100 if tier == "quick" else 2500
    for i in range(nl):
        cases.append({"id": f"l{i}", "fam": "line", "recipe": {"lines": gen_lines(rng, 200), "texts": [gen_desc_text(rng) for _ in range(40)]}, "align": 8192, "queries": []})
    return cases


def group_by_env(cases):
    by = {}
    for c in cases:
        by.setdefault(c.get("align", 8192), []).append(c)
    return [({"DISSECT_STREAM_BUFFER_SIZE": a}, cs) for a, cs in sorted(by.items())]


def build(case):
    fam = case["fam"]
    r = case["recipe"]
    if fam == "line":
        lines = r["lines"]
        special = sum(1 for l in lines if len(l.split(" ")) >= 5 or any(ord(c) > 127 for c in l))
        b = Built({}, None, {"branches": ["line"], "in_scope": True, "special": special})
        b.truth = None          # no independent truth for arbitrary lines: implementation vs model only
        return b
    if fam == "vmdk":
        t = gen_vmdk.DiskTruth(r)
        truth = core.truth_ops(t.size, t.read, case["queries"])
        bounds = sorted({b for b, _, _ in t.ext} | {b + s for b, s, _ in t.ext})
        crosses = any(q[0] == "o" and any(q[1] < b < q[1] + q[2] for b in bounds[1:-1]) for q in case["queries"])
        info = dict(r.get("info", {}))
        info.update({"branches": [f"vmdk_{r['mode']}"] + sorted({e["type"] for e in r["extents"]}), "crosses": crosses, "in_scope": True,
                     "n": len(r["extents"])})
        # file ids: f<k>
        ids = {name: f"f{k}" for k, name in enumerate(t.files)}
        info["ids"] = ids
        files = {ids[name]: im for name, im in t.files.items()}
        b = Built(files, truth, info)
        b.t = t
        return b
    t = gen_hdd.Truth(r)
    truth = core.truth_ops(t.size, t.read, case["queries"])
    bounds = sorted({s["start"] * 512 for s in r["storages"]})
    crosses = any(q[0] == "o" and any(q[1] < b < q[1] + q[2] for b in bounds[1:]) for q in case["queries"])
    ids = {name: f"f{k}" for k, name in enumerate(t.files)}
    toks = []
    for tok in t.storage_tokens():
        a, e, kind, names = tok.split(":", 3)
        names = "+".join(("raw=" + ids[n[4:]]) if n.startswith("raw=") else ids[n] for n in names.split("+"))
        toks.append(f"{a}:{e}:{kind}:{names}")
    b = Built({ids[n]: im for n, im in t.files.items()}, truth,
              {"branches": ["hdd"] + sorted({l[0] for _, ls in t.st for l in ls}), "crosses": crosses, "in_scope": True, "n": len(r["storages"]), "tokens": toks})
    b.t = t
    return b


def impl_run(case, built):
    fam = case["fam"]
    if fam == "line":
        return {"answers": [impl_line(l) for l in case["recipe"]["lines"]] + [impl_desc(t) for t in case["recipe"].get("texts", [])]}
    tmp = tempfile.mkdtemp(prefix="hvc10.")
    try:
        if fam == "vmdk":
            v = gen_vmdk.open_impl(built.t, tmp)
            return core.impl_ops_sec(v, case["queries"])
        from pathlib import Path

        from dissect.hypervisor.disk.hdd import HDD
        d = os.path.join(tmp, "x.pvm", "x.hdd")
        built.t.write_dir(d)
        s = HDD(Path(d)).open()
        return core.impl_ops(s, case["queries"])
    finally:
        shutil.rmtree(tmp, ignore_errors=True)


def model_lines(case, built):
    fam = case["fam"]
    a = case["align"]
    if fam == "line":
        return [f"desc.line {hexs(l)}" for l in case["recipe"]["lines"]] + [f"desc.parse {hexs(t)}" for t in case["recipe"].get("texts", [])]
    toks = " ".join(core.op_tokens(case["queries"]))
    if fam == "vmdk":
        t = built.t
        ids = built.info["ids"]
        if t.r["mode"] == "descriptor":
            names = [f"{hexs(n)}={ids[n]}" for n in t.files if n != t.descriptor_name]
            tail = f"{a} {ids[t.descriptor_name]} {len(names)} " + " ".join(names) + " " + toks
            return core.file_lines(built.files) + ["vmdk.desc.stream " + tail, "vmdk.desc.concatcheck " + tail]
        fids = [ids[n] for n in t.order]
        tail = f"{a} {len(fids)} " + " ".join(fids) + " " + toks
        return core.file_lines(built.files) + ["vmdk.stream " + tail, "vmdk.concatcheck " + tail]
    st = built.info["tokens"]
    # second line (all disk families): the executable hypotheses of vmdk_concat_read_correct / storage_concat_read_correct
    # (layout contiguous / tiling, every extent inside its own read theorem, size = Σ) and the model's answers compared
    # with the pointwise specification `concat parts` — an instance of the theorem on this case
    tail = f"{a} {len(st)} " + " ".join(st) + " " + toks
    return core.file_lines(built.files) + ["hdd.stream " + tail, "hdd.concatcheck " + tail]


def model_parse(case, built, out):
    if case["fam"] == "line":
        return {"answers": list(out), "wf": True}
    ans = core.parse_stream_answer(out[0]) if out else None
    chk = out[1].split() if len(out) > 1 and out[1] else []
    if chk and chk[0] == "ok":
        wf = "wf=1" in chk
        marks = [m for m in chk[1:] if m in ("=", "!", "?")]
        if wf and ("!" in marks or len(marks) != len(ans or [])):
            # inside the theorem's hypotheses the model must equal the specification: report as a model difference
            return {"answers": ["SPEC-MISMATCH"] + marks, "wf": wf, "spec_checked": len(marks)}
        return {"answers": ans, "wf": wf, "spec_checked": len(marks) if wf else 0, "given_in_order": "given_in_order=1" in chk}
    return {"answers": ans, "wf": False}


def nontrivial(case, built, model):
    if case["fam"] == "line":
        return built.info["special"] > 20
    return built.info["n"] >= 2 and built.info["crosses"]


def search(seed, broken, budget):
    return generate(seed + 7777, "quick")
