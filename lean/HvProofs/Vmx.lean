/-
  HvProofs.Vmx — lemmas about the encrypted-VMX model (Hv/Vmx.lean): PKCS#7, `_decrypt_hmac` round trip and
  inversion, `unseal_with_phrase` inversion, the `_split_list` loop on rendered lists, percent-encoding.
-/
import Hv.Vmx
namespace Hv.Vmx
open Hv

/-! ## PKCS#7 -/

theorem padMax_eq : padMax = 16 := by decide
theorem padMin_eq : padMin = 1 := by decide

theorem pad_len_pos (p : Bytes) : 0 < 16 - p.length % 16 ∧ 16 - p.length % 16 ≤ 16 := by omega

theorem padLen_append_replicate (p : Bytes) (k : Nat) (hk : 0 < k) (hk' : k < 256) :
    padLen (p ++ List.replicate k (UInt8.ofNat k)) = k := by
  obtain ⟨k', rfl⟩ : ∃ k', k = k' + 1 := ⟨k - 1, by omega⟩
  unfold padLen
  rw [List.replicate_succ', ← List.append_assoc, List.getLast?_append]
  simp [UInt8.toNat_ofNat]; omega

theorem strip_append_replicate (p : Bytes) (k : Nat) (h1 : 1 ≤ k) (h2 : k ≤ 16) :
    strip (p ++ List.replicate k (UInt8.ofNat k)) = .ok p := by
  have hl := padLen_append_replicate p k (by omega) (by omega)
  unfold strip
  rw [hl, padMin_eq, padMax_eq]
  have hd : (p ++ List.replicate k (UInt8.ofNat k)).drop ((p ++ List.replicate k (UInt8.ofNat k)).length - k)
      = List.replicate k (UInt8.ofNat k) := by
    simp [List.length_append, List.length_replicate]
  have ht : (p ++ List.replicate k (UInt8.ofNat k)).take ((p ++ List.replicate k (UInt8.ofNat k)).length - k) = p := by
    simp [List.length_append, List.length_replicate]
  rw [if_pos ⟨h1, h2, hd⟩, ht]

theorem strip_pad (p : Bytes) : strip (p ++ pad p) = .ok p := by
  have hk := pad_len_pos p
  exact strip_append_replicate p _ (by omega) hk.2

/-- what a successful padding removal implies: the text was `p` followed by `n` bytes of value `n`, 1 ≤ n ≤ 16 -/
theorem strip_ok {d p : Bytes} (h : strip d = .ok p) :
    ∃ n, 1 ≤ n ∧ n ≤ 16 ∧ d = p ++ List.replicate n (UInt8.ofNat n) := by
  unfold strip at h
  split at h
  · rename_i hc
    cases h
    rw [padMin_eq, padMax_eq] at hc
    refine ⟨padLen d, hc.1, hc.2.1, ?_⟩
    rw [← hc.2.2, List.take_append_drop]
  · cases h

theorem strip_bad_padding {d : Bytes} (h : ∀ p n, 1 ≤ n → n ≤ 16 → d ≠ p ++ List.replicate n (UInt8.ofNat n)) :
    strip d = .error .value := by
  cases hs : strip d with
  | ok p => obtain ⟨n, h1, h2, he⟩ := strip_ok hs; exact absurd he (h p n h1 h2)
  | error e =>
    unfold strip at hs
    split at hs
    · cases hs
    · cases hs; rfl
theorem ivLen_eq : ivLen = 16 := by decide
theorem ctStart_eq : ctStart = 16 := by decide

/-! ## `_decrypt_hmac` on a sealed blob -/


theorem pad_aligned (p : Bytes) : (p ++ pad p).length % 16 = 0 := by
  simp [pad, List.length_append, List.length_replicate]; omega

/-- the stored sizes of the MAC table are positive -/
theorem hmacInfo_pos {m alg : Bytes} {n : Nat} (h : hmacInfo m = some (alg, n)) : 0 < n := by
  unfold hmacInfo Extracted.vmx.HMAC_MAP at h
  simp only [List.find?] at h
  split at h
  · simp at h; omega
  · split at h
    · simp at h; omega
    · split at h
      · simp at h; omega
      · simp at h

theorem negSplit_append (a b : Bytes) (h : 0 < b.length) : negSplit (a ++ b) b.length = (a, b) := by
  unfold negSplit
  rw [if_neg (by omega)]
  simp [List.length_append]

theorem decryptHmac_seal (c : Crypto) (enc : Bytes → Bytes → Bytes → Bytes)
    (hinv : ∀ k iv pt, pt.length % 16 = 0 → c.cbcDecrypt k iv (enc k iv pt) = .ok pt)
    (macName alg : Bytes) (n : Nat) (hm : hmacInfo macName = some (alg, n))
    (key iv p tag : Bytes) (hiv : iv.length = 16) (htag : c.hmac alg key p = .ok tag) (hn : n ≤ tag.length) :
    decryptHmac c key (sealBlob enc tag n key iv p) macName = .ok p := by
  have hpos := hmacInfo_pos hm
  have hlen : (tag.take n).length = n := by simp [List.length_take]; omega
  have hsplit : negSplit (sealBlob enc tag n key iv p) n = (iv ++ enc key iv (p ++ pad p), tag.take n) := by
    have := negSplit_append (iv ++ enc key iv (p ++ pad p)) (tag.take n) (by omega)
    rw [hlen] at this
    exact this
  unfold decryptHmac
  simp only [hm, hsplit, ivLen_eq, ctStart_eq]
  have h1 : (sealBlob enc tag n key iv p).take 16 = iv := by
    unfold sealBlob
    rw [List.append_assoc, List.take_append_of_le_length (by omega)]
    simp [← hiv]
  have h2 : (iv ++ enc key iv (p ++ pad p)).drop 16 = enc key iv (p ++ pad p) := by
    rw [← hiv]; simp
  rw [h1, h2, hinv _ _ _ (pad_aligned p)]
  simp only [bind, Except.bind, strip_pad, htag]
  simp

/-! ## inversion lemmas (what a success implies) -/


/-- inversion of a successful `_decrypt_hmac` -/
theorem decryptHmac_ok {c : Crypto} {key data macName pt : Bytes} (h : decryptHmac c key data macName = .ok pt) :
    ∃ alg n dec tag, hmacInfo macName = some (alg, n) ∧
      c.cbcDecrypt key (data.take 16) ((negSplit data n).1.drop 16) = .ok dec ∧ strip dec = .ok pt ∧
      c.hmac alg key pt = .ok tag ∧ tag.take n = (negSplit data n).2 := by
  unfold decryptHmac at h
  split at h
  · cases h
  · rename_i alg n hm
    rw [ivLen_eq, ctStart_eq] at h
    cases hd : c.cbcDecrypt key (data.take 16) ((negSplit data n).1.drop 16) with
    | error e => rw [hd] at h; cases h
    | ok dec =>
      rw [hd] at h
      simp only [bind, Except.bind] at h
      cases hs : strip dec with
      | error e => rw [hs] at h; cases h
      | ok pt' =>
        rw [hs] at h
        simp only at h
        cases ht : c.hmac alg key pt' with
        | error e => rw [ht] at h; cases h
        | ok tag =>
          rw [ht] at h
          simp only at h
          split at h
          · cases h
          · rename_i hne
            cases h
            exact ⟨alg, n, dec, tag, hm, hd, hs, ht, by simpa using hne⟩

theorem decryptHmac_bad_mac {c : Crypto} {key data macName alg dec pt tag : Bytes} {n : Nat}
    (hm : hmacInfo macName = some (alg, n))
    (hd : c.cbcDecrypt key (data.take 16) ((negSplit data n).1.drop 16) = .ok dec) (hs : strip dec = .ok pt)
    (ht : c.hmac alg key pt = .ok tag) (hne : tag.take n ≠ (negSplit data n).2) :
    decryptHmac c key data macName = .error .value := by
  unfold decryptHmac
  simp only [hm, ivLen_eq, ctStart_eq, hd, bind, Except.bind, hs, ht]
  rw [if_pos hne]

theorem unseal_ok {c : Crypto} {pw : Bytes} {locs : List Loc} {k mac : Bytes}
    (h : unsealWithPhrase c pw locs = .ok (k, mac)) :
    ∃ p data, Loc.pair (.phrase p) mac data ∈ locs ∧ unlockPair c p mac data pw = .ok k := by
  induction locs with
  | nil => simp [unsealWithPhrase] at h
  | cons l rest ih =>
    unfold unsealWithPhrase at h
    split at h
    · cases h
    · rename_i p mac' data rest' heq
      cases heq
      split at h
      · rename_i k' hk
        cases h
        exact ⟨p, data, by simp, hk⟩
      · obtain ⟨p', d', hm, hu⟩ := ih h
        exact ⟨p', d', by simp [hm], hu⟩
      · cases h
    · rename_i heq
      cases heq
      obtain ⟨p', d', hm, hu⟩ := ih h
      exact ⟨p', d', by simp [hm], hu⟩
    · cases h

/-! ## `_split_list` on a rendered list -/

theorem chOpen_eq : chOpen = 40 := by decide
theorem chClose_eq : chClose = 41 := by decide
theorem chComma_eq : chComma = 44 := by decide

/-- nesting level after scanning `s` from level `l` -/
def levelAfter : Bytes → Int → Int
  | [], l => l
  | c :: cs, l => levelAfter cs (if c = 40 then l + 1 else if c = 41 then l - 1 else l)

/-- no comma at nesting level 0 while scanning `s` from level `l` -/
def noTopComma : Bytes → Int → Bool
  | [], _ => true
  | c :: cs, l => !(c = 44 ∧ l = 0) && noTopComma cs (if c = 40 then l + 1 else if c = 41 then l - 1 else l)

theorem splitLoop_item (it rest buf : Bytes) (l : Int) (h : noTopComma it l = true) :
    splitLoop (it ++ rest) buf l = splitLoop rest (it.reverse ++ buf) (levelAfter it l) := by
  induction it generalizing buf l with
  | nil => simp [levelAfter]
  | cons c cs ih =>
    simp only [noTopComma, Bool.and_eq_true, Bool.not_eq_true', decide_eq_false_iff_not] at h
    obtain ⟨h1, h2⟩ := h
    simp only [List.cons_append, splitLoop, chOpen_eq, chClose_eq, chComma_eq, levelAfter]
    by_cases h40 : c = 40
    · simp only [h40, if_true] at h2 ⊢
      rw [ih _ _ h2]; simp
    · by_cases h41 : c = 41
      · subst h41
        simp only [if_neg h40, if_true] at h2 ⊢
        rw [ih _ _ h2]; simp
      · simp only [if_neg h40, if_neg h41] at h2 ⊢
        rw [if_neg h1, ih _ _ h2]; simp

/-- a list member as the key-safe writer produces it: non-empty, balanced, no comma outside parentheses -/
def Item (it : Bytes) : Prop := it ≠ [] ∧ noTopComma it 0 = true ∧ levelAfter it 0 = 0

def joinComma : List Bytes → Bytes
  | [] => []
  | [a] => a
  | a :: b :: rest => a ++ 44 :: joinComma (b :: rest)

theorem splitLoop_join (items : List Bytes) (h : ∀ it ∈ items, Item it) :
    splitLoop (joinComma items) [] 0 = items := by
  induction items with
  | nil => simp [joinComma, splitLoop]
  | cons a rest ih =>
    have ha := h a (by simp)
    cases rest with
    | nil =>
      simp only [joinComma]
      have := splitLoop_item a [] [] 0 ha.2.1
      simp only [List.append_nil] at this
      rw [this]
      simp [splitLoop, ha.1]
    | cons b rest' =>
      simp only [joinComma]
      rw [splitLoop_item a _ [] 0 ha.2.1, ha.2.2]
      simp only [List.append_nil, splitLoop, chOpen_eq, chClose_eq, chComma_eq]
      rw [if_neg (by decide), if_neg (by decide), if_pos (by simp)]
      rw [ih (fun it hit => h it (by simp [hit]))]
      simp

/-! ## the regular expression and percent-encoding -/


theorem lastIdx_snoc (c : UInt8) (l : Bytes) : lastIdx c (l ++ [c]) = some l.length := by
  induction l with
  | nil => simp [lastIdx]
  | cons x xs ih => simp [lastIdx, ih]

theorem takeWhile_all (l : Bytes) (p : UInt8 → Bool) (h : ∀ x ∈ l, p x = true) : l.takeWhile p = l := by
  induction l with
  | nil => rfl
  | cons x xs ih =>
    rw [List.takeWhile_cons, h x (by simp), if_pos rfl, ih (fun y hy => h y (by simp [hy]))]

/-- `(` contents `)` with a non-empty, newline-free contents: the regular expression returns the contents -/
theorem listContents_render (s : Bytes) (hne : s ≠ []) (hnl : ∀ x ∈ s, x ≠ 10) :
    listContents (40 :: (s ++ [41])) = some s := by
  unfold listContents
  simp only [chOpen_eq, chClose_eq, ne_eq, not_true_eq_false, if_false]
  have htw : (s ++ [41]).takeWhile (fun x => decide (x ≠ 10)) = s ++ [41] := by
    apply takeWhile_all
    intro x hx
    rcases List.mem_append.mp hx with h | h
    · simpa using hnl x h
    · simp at h; subst h; decide
  simp only [ne_eq] at htw
  rw [htw, lastIdx_snoc]
  have : s.length ≠ 0 := by simpa using hne
  simp [this]

def hexChar (upper : Bool) (n : Nat) : UInt8 :=
  if n < 10 then UInt8.ofNat (48 + n) else UInt8.ofNat ((if upper then 55 else 87) + n)

theorem hexVal_hexChar : ∀ u : Bool, ∀ n, n < 16 → hexVal? (hexChar u n) = some n := by decide

/-- percent-encoding: bytes for which `keep` holds (never `%`) stay, all others become `%XY` -/
def pctEncode (keep : UInt8 → Bool) (upper : Bool) : Bytes → Bytes
  | [] => []
  | b :: rest =>
    if keep b ∧ b ≠ 37 then b :: pctEncode keep upper rest
    else 37 :: hexChar upper (b.toNat / 16) :: hexChar upper (b.toNat % 16) :: pctEncode keep upper rest

theorem pctDecode_cons_ne (b : UInt8) (r : Bytes) (h : b ≠ 37) : pctDecode (b :: r) = b :: pctDecode r := by
  match r with
  | [] => simp [pctDecode]
  | [a] => simp [pctDecode]
  | a :: b' :: r' => simp [pctDecode, h]

theorem pctDecode_escape (u : Bool) (b : UInt8) (r : Bytes) :
    pctDecode (37 :: hexChar u (b.toNat / 16) :: hexChar u (b.toNat % 16) :: r) = b :: pctDecode r := by
  have h1 := hexVal_hexChar u (b.toNat / 16) (by have := b.toNat_lt; omega)
  have h2 := hexVal_hexChar u (b.toNat % 16) (by omega)
  simp only [pctDecode, if_true, h1, h2]
  congr 1
  rw [Nat.div_add_mod]
  simp

theorem pctDecode_pctEncode (keep : UInt8 → Bool) (u : Bool) (s : Bytes) : pctDecode (pctEncode keep u s) = s := by
  induction s with
  | nil => simp [pctEncode, pctDecode]
  | cons b rest ih =>
    unfold pctEncode
    split
    · rename_i h
      rw [pctDecode_cons_ne _ _ h.2, ih]
    · rw [pctDecode_escape, ih]

/-! ## rendering a key safe (the writer's side) and reading it back -/

def alnum (b : UInt8) : Bool := (48 ≤ b && b ≤ 57) || (65 ≤ b && b ≤ 90) || (97 ≤ b && b ≤ 122)

/-- what VMware writes: everything but `[0-9A-Za-z]` percent-encoded -/
def esc (s : Bytes) : Bytes := pctEncode alnum false s

/-- `s` contains none of the characters in `bad` -/
def avoids (bad : List UInt8) (s : Bytes) : Bool := s.all fun x => !bad.contains x

theorem avoids_append (bad : List UInt8) (a b : Bytes) : avoids bad (a ++ b) = (avoids bad a && avoids bad b) := by
  simp [avoids, List.all_append]

theorem avoids_cons (bad : List UInt8) (x : UInt8) (b : Bytes) : avoids bad (x :: b) = (!bad.contains x && avoids bad b) := by
  simp [avoids]

theorem avoids_mem {bad : List UInt8} {s : Bytes} (h : avoids bad s = true) {sep : UInt8} (hs : sep ∈ bad) :
    ∀ x ∈ s, x ≠ sep := by
  intro x hx heq
  subst heq
  simp only [avoids, List.all_eq_true] at h
  have := h x hx
  simp [hs] at this

theorem hexChar_alnum : ∀ n, n < 16 → alnum (hexChar false n) = true := by decide

theorem avoids_esc (bad : List UInt8) (hb : bad.all (fun b => !alnum b && b != 37) = true) (s : Bytes) :
    avoids bad (esc s) = true := by
  have key : ∀ x : UInt8, (alnum x = true ∨ x = 37) → bad.contains x = false := by
    intro x hx
    cases hc : bad.contains x with
    | false => rfl
    | true =>
      rw [List.contains_iff_mem] at hc
      have := List.all_eq_true.mp hb x hc
      simp only [Bool.and_eq_true, Bool.not_eq_true', bne_iff_ne, ne_eq] at this
      rcases hx with h | h
      · rw [h] at this; exact absurd this.1 (by simp)
      · exact absurd h this.2
  induction s with
  | nil => simp [esc, pctEncode, avoids]
  | cons b rest ih =>
    unfold esc pctEncode
    split
    · rename_i h
      rw [avoids_cons, key b (Or.inl h.1)]
      simpa [esc] using ih
    · have h1 := hexChar_alnum (b.toNat / 16) (by have := b.toNat_lt; omega)
      have h2 := hexChar_alnum (b.toNat % 16) (by omega)
      rw [avoids_cons, avoids_cons, avoids_cons, key 37 (Or.inr rfl), key _ (Or.inl h1), key _ (Or.inl h2)]
      simpa [esc] using ih

theorem esc_ne_nil {s : Bytes} (h : s ≠ []) : esc s ≠ [] := by
  cases s with
  | nil => exact absurd rfl h
  | cons b r => unfold esc pctEncode; split <;> simp

theorem pctDecode_esc (s : Bytes) : pctDecode (esc s) = s := pctDecode_pctEncode _ _ _

theorem partition_append (sep : UInt8) (a r : Bytes) (h : ∀ x ∈ a, x ≠ sep) :
    partition sep (a ++ sep :: r) = (a, r) := by
  induction a with
  | nil => simp [partition]
  | cons x xs ih =>
    have hx : x ≠ sep := h x (by simp)
    simp only [List.cons_append, partition, if_neg hx, ih (fun y hy => h y (by simp [hy]))]

theorem splitOn_none (sep : UInt8) (a : Bytes) (h : ∀ x ∈ a, x ≠ sep) : splitOn sep a = [a] := by
  induction a with
  | nil => simp [splitOn]
  | cons x xs ih =>
    have hx : x ≠ sep := h x (by simp)
    simp only [splitOn, if_neg hx, ih (fun y hy => h y (by simp [hy]))]

theorem splitOn_append (sep : UInt8) (a r : Bytes) (h : ∀ x ∈ a, x ≠ sep) :
    splitOn sep (a ++ sep :: r) = a :: splitOn sep r := by
  induction a with
  | nil => simp [splitOn]
  | cons x xs ih =>
    have hx : x ≠ sep := h x (by simp)
    simp only [List.cons_append, splitOn, if_neg hx, ih (fun y hy => h y (by simp [hy]))]

theorem level_flat (s : Bytes) (l : Int) (h : avoids [40, 41, 44] s = true) :
    noTopComma s l = true ∧ levelAfter s l = l := by
  induction s generalizing l with
  | nil => simp [noTopComma, levelAfter]
  | cons c cs ih =>
    rw [avoids_cons] at h
    simp only [Bool.and_eq_true, Bool.not_eq_true'] at h
    have hc : c ≠ 40 ∧ c ≠ 41 ∧ c ≠ 44 := by
      have := h.1
      simp only [List.contains_eq_mem, List.mem_cons, List.not_mem_nil, or_false, decide_eq_false_iff_not, not_or] at this
      exact this
    simp only [noTopComma, levelAfter, if_neg hc.1, if_neg hc.2.1]
    have := ih l h.2
    simp [hc.2.2, this]

theorem level_inner (s : Bytes) (l : Int) (hl : l ≠ 0) (h : avoids [40, 41] s = true) :
    noTopComma s l = true ∧ levelAfter s l = l := by
  induction s with
  | nil => simp [noTopComma, levelAfter]
  | cons c cs ih =>
    rw [avoids_cons] at h
    simp only [Bool.and_eq_true, Bool.not_eq_true'] at h
    have hc : c ≠ 40 ∧ c ≠ 41 := by
      have := h.1
      simp only [List.contains_eq_mem, List.mem_cons, List.not_mem_nil, or_false, decide_eq_false_iff_not, not_or] at this
      exact this
    simp only [noTopComma, levelAfter, if_neg hc.1, if_neg hc.2]
    have := ih h.2
    simp [hl, this]

theorem noTopComma_append (a b : Bytes) (l : Int) :
    noTopComma (a ++ b) l = (noTopComma a l && noTopComma b (levelAfter a l)) := by
  induction a generalizing l with
  | nil => simp [noTopComma, levelAfter]
  | cons c cs ih => simp [noTopComma, levelAfter, ih, Bool.and_assoc]

theorem levelAfter_append (a b : Bytes) (l : Int) : levelAfter (a ++ b) l = levelAfter b (levelAfter a l) := by
  induction a generalizing l with
  | nil => simp [levelAfter]
  | cons c cs ih => simp [levelAfter, ih]

/-- `prefix(inner)` with a parenthesis-free inner part and a flat prefix is one list member -/
theorem item_wrapped (pre inner : Bytes) (hp : avoids [40, 41, 44] pre = true) (hi : avoids [40, 41] inner = true) :
    Item (pre ++ 40 :: (inner ++ [41])) := by
  refine ⟨by simp, ?_, ?_⟩
  · rw [noTopComma_append, (level_flat pre 0 hp).1, (level_flat pre 0 hp).2]
    simp only [noTopComma, Bool.true_and, if_true]
    rw [noTopComma_append, (level_inner inner (0 + 1) (by decide) hi).1, (level_inner inner (0 + 1) (by decide) hi).2]
    simp [noTopComma]
  · rw [levelAfter_append, (level_flat pre 0 hp).2]
    simp only [levelAfter, if_true]
    rw [levelAfter_append, (level_inner inner (0 + 1) (by decide) hi).2]
    simp [levelAfter]

theorem item_flat (s : Bytes) (hne : s ≠ []) (h : avoids [40, 41, 44] s = true) : Item s :=
  ⟨hne, (level_flat s 0 h).1, (level_flat s 0 h).2⟩

/-- one `key=escaped value` member of a crypto dict -/
def renderMember (k v : Bytes) : Bytes := k ++ 61 :: esc v

/-- `pass2key=…:cipher=…:rounds=…:salt=…` (values escaped; `dec` prints the integer, `b64` encodes bytes) -/
def renderDict (b64 : Bytes → Bytes) (dec : Int → Bytes) (p : Phrase) : Bytes :=
  renderMember kPass2key p.pass2key ++ 58 :: (renderMember kCipher p.cipher ++ 58 ::
    (renderMember kRounds (dec p.rounds) ++ 58 :: renderMember kSalt (b64 p.salt)))

/-- `phrase/esc(id)/esc(dict)` -/
def renderPhrase (b64 : Bytes → Bytes) (dec : Int → Bytes) (p : Phrase) : Bytes :=
  identPhrase ++ 47 :: (esc p.id ++ 47 :: esc (renderDict b64 dec p))

structure PairSpec where
  phrase : Phrase
  mac : Bytes
  data : Bytes

def PairSpec.toLoc (ps : PairSpec) : Loc := .pair (.phrase ps.phrase) ps.mac ps.data

def pairInner (b64 : Bytes → Bytes) (dec : Int → Bytes) (ps : PairSpec) : Bytes :=
  joinComma [renderPhrase b64 dec ps.phrase, esc ps.mac, esc (b64 ps.data)]

/-- `pair/(phrase…,esc(mac),esc(base64 data))` -/
def renderPair (b64 : Bytes → Bytes) (dec : Int → Bytes) (ps : PairSpec) : Bytes :=
  (identPair ++ [47]) ++ 40 :: (pairInner b64 dec ps ++ [41])

/-- `vmware:key/list/(pair…,pair…)` -/
def renderKeySafe (b64 : Bytes → Bytes) (dec : Int → Bytes) (ks : List PairSpec) : Bytes :=
  identKeySafe ++ 47 :: ((identList ++ [47]) ++ 40 :: (joinComma (ks.map (renderPair b64 dec)) ++ [41]))

theorem sep_eqs : sepSafe = 47 ∧ sepLoc = 47 ∧ sepPhrase = 47 ∧ sepDict = 58 ∧ sepKV = 61 := by decide

theorem esc_avoids_struct (s : Bytes) : avoids [47, 40, 41, 44, 58, 61, 10] (esc s) = true :=
  avoids_esc _ (by decide) s

theorem esc_no (s : Bytes) {sep : UInt8} (hs : sep ∈ [47, 40, 41, 44, 58, 61, 10]) : ∀ x ∈ esc s, x ≠ sep :=
  avoids_mem (esc_avoids_struct s) hs

theorem renderMember_no58 (k v : Bytes) (hk : avoids [58] k = true) : ∀ x ∈ renderMember k v, x ≠ 58 := by
  intro x hx
  simp only [renderMember, List.mem_append, List.mem_cons] at hx
  rcases hx with h | h | h
  · exact avoids_mem hk (by simp) x h
  · subst h; decide
  · exact esc_no v (by simp) x h

theorem parseCryptoDict_render (b64 : Bytes → Bytes) (dec : Int → Bytes) (p : Phrase) :
    parseCryptoDict (renderDict b64 dec p) =
      [(kPass2key, p.pass2key), (kCipher, p.cipher), (kRounds, dec p.rounds), (kSalt, b64 p.salt)] := by
  have hm : ∀ k v, avoids [61] k = true →
      ((partition 61 (renderMember k v)).1, pctDecode (partition 61 (renderMember k v)).2) = (k, v) := by
    intro k v hk
    rw [renderMember, partition_append 61 k (esc v) (avoids_mem hk (by simp)), pctDecode_esc]
  unfold parseCryptoDict renderDict
  rw [sep_eqs.2.2.2.1, sep_eqs.2.2.2.2]
  rw [splitOn_append 58 _ _ (renderMember_no58 _ _ (by decide)), splitOn_append 58 _ _ (renderMember_no58 _ _ (by decide)),
    splitOn_append 58 _ _ (renderMember_no58 _ _ (by decide)), splitOn_none 58 _ (renderMember_no58 _ _ (by decide))]
  simp only [List.map_cons, List.map_nil]
  rw [hm _ _ (by decide), hm _ _ (by decide), hm _ _ (by decide), hm _ _ (by decide)]

theorem parsePhrase_render (c : Crypto) (b64 : Bytes → Bytes) (dec : Int → Bytes)
    (hb : ∀ x, c.b64decode (b64 x) = .ok x) (hd : ∀ n, c.parseInt (dec n) = .ok n) (p : Phrase) :
    parsePhrase c (esc p.id ++ 47 :: esc (renderDict b64 dec p)) = .ok p := by
  unfold parsePhrase
  rw [sep_eqs.2.2.1, partition_append 47 _ _ (esc_no p.id (by simp))]
  simp only [pctDecode_esc, parseCryptoDict_render]
  have g1 : ∀ a b c d : Bytes, dictGet [(kPass2key, a), (kCipher, b), (kRounds, c), (kSalt, d)] kPass2key = some a := by
    intro a b c d; simp [dictGet, List.find?, show kSalt ≠ kPass2key by decide, show kRounds ≠ kPass2key by decide, show kCipher ≠ kPass2key by decide]
  have g2 : ∀ a b c d : Bytes, dictGet [(kPass2key, a), (kCipher, b), (kRounds, c), (kSalt, d)] kCipher = some b := by
    intro a b c d; simp [dictGet, List.find?, show kSalt ≠ kCipher by decide, show kRounds ≠ kCipher by decide]
  have g3 : ∀ a b c d : Bytes, dictGet [(kPass2key, a), (kCipher, b), (kRounds, c), (kSalt, d)] kRounds = some c := by
    intro a b c d; simp [dictGet, List.find?, show kSalt ≠ kRounds by decide]
  have g4 : ∀ a b c d : Bytes, dictGet [(kPass2key, a), (kCipher, b), (kRounds, c), (kSalt, d)] kSalt = some d := by
    intro a b c d; simp [dictGet]
  simp only [g1, g2, g3, g4, hd, hb, bind, Except.bind]

theorem renderPhrase_flat (b64 : Bytes → Bytes) (dec : Int → Bytes) (p : Phrase) :
    avoids [40, 41, 44, 10] (renderPhrase b64 dec p) = true := by
  have h1 := avoids_esc [40, 41, 44, 10] (by decide) p.id
  have h2 := avoids_esc [40, 41, 44, 10] (by decide) (renderDict b64 dec p)
  unfold renderPhrase
  rw [avoids_append, avoids_cons, avoids_append, avoids_cons, h1, h2]
  decide

theorem avoids_sub {bad bad' : List UInt8} {s : Bytes} (h : avoids bad s = true) (hs : ∀ b ∈ bad', b ∈ bad) :
    avoids bad' s = true := by
  simp only [avoids, List.all_eq_true, Bool.not_eq_true'] at h ⊢
  intro x hx
  have := h x hx
  cases hc : bad'.contains x with
  | false => rfl
  | true =>
    rw [List.contains_iff_mem] at hc
    have hm := hs x hc
    rw [← List.contains_iff_mem] at hm
    rw [hm] at this; cases this

theorem parseLocator_phrase (c : Crypto) (b64 : Bytes → Bytes) (dec : Int → Bytes)
    (hb : ∀ x, c.b64decode (b64 x) = .ok x) (hd : ∀ n, c.parseInt (dec n) = .ok n) (p : Phrase) (fuel : Nat) :
    parseLocator c (fuel + 1) (renderPhrase b64 dec p) = .ok (.phrase p) := by
  unfold parseLocator renderPhrase
  rw [sep_eqs.2.1, partition_append 47 _ _ (avoids_mem (show avoids [47] identPhrase = true by decide) (by simp))]
  simp only
  rw [if_neg (show identPhrase ≠ identList by decide), if_neg (show identPhrase ≠ identPair by decide), if_pos trivial,
    parsePhrase_render c b64 dec hb hd]
  rfl

theorem pairInner_members (b64 : Bytes → Bytes) (dec : Int → Bytes) (ps : PairSpec)
    (hmac : ps.mac ≠ []) (hdata : b64 ps.data ≠ []) :
    splitList (40 :: (pairInner b64 dec ps ++ [41])) =
      .ok [renderPhrase b64 dec ps.phrase, esc ps.mac, esc (b64 ps.data)] := by
  have hf := renderPhrase_flat b64 dec ps.phrase
  have e1 := avoids_esc [40, 41, 44, 10] (by decide) ps.mac
  have e2 := avoids_esc [40, 41, 44, 10] (by decide) (b64 ps.data)
  have hne : renderPhrase b64 dec ps.phrase ≠ [] := by
    unfold renderPhrase; intro h
    have := congrArg List.length h
    simp [List.length_append] at this
  unfold splitList
  rw [listContents_render]
  · simp only
    rw [pairInner, splitLoop_join]
    intro it hit
    simp only [List.mem_cons, List.not_mem_nil, or_false] at hit
    rcases hit with rfl | rfl | rfl
    · exact item_flat _ hne (avoids_sub hf (by simp))
    · exact item_flat _ (esc_ne_nil hmac) (avoids_sub e1 (by simp))
    · exact item_flat _ (esc_ne_nil hdata) (avoids_sub e2 (by simp))
  · unfold pairInner joinComma; intro h
    have := congrArg List.length h
    simp [List.length_append] at this
  · intro x hx
    simp only [pairInner, joinComma, List.mem_append, List.mem_cons] at hx
    rcases hx with h | rfl | h | rfl | h
    · exact avoids_mem hf (by simp) x h
    · decide
    · exact avoids_mem e1 (by simp) x h
    · decide
    · exact avoids_mem e2 (by simp) x h

theorem parseLocator_pair (c : Crypto) (b64 : Bytes → Bytes) (dec : Int → Bytes)
    (hb : ∀ x, c.b64decode (b64 x) = .ok x) (hd : ∀ n, c.parseInt (dec n) = .ok n) (ps : PairSpec)
    (hmac : ps.mac ≠ []) (hdata : b64 ps.data ≠ []) (fuel : Nat) :
    parseLocator c (fuel + 2) (renderPair b64 dec ps) = .ok ps.toLoc := by
  unfold parseLocator renderPair
  rw [sep_eqs.2.1, List.append_assoc, List.singleton_append,
    partition_append 47 _ _ (avoids_mem (show avoids [47] identPair = true by decide) (by simp))]
  simp only
  rw [if_neg (show identPair ≠ identList by decide), if_pos trivial, pairInner_members b64 dec ps hmac hdata]
  simp only [bind, Except.bind, parseLocator_phrase c b64 dec hb hd, pctDecode_esc, hb]
  rfl

theorem renderPair_item (b64 : Bytes → Bytes) (dec : Int → Bytes) (ps : PairSpec) : Item (renderPair b64 dec ps) := by
  unfold renderPair
  apply item_wrapped
  · decide
  · have hf := renderPhrase_flat b64 dec ps.phrase
    have e1 := avoids_esc [40, 41] (by decide) ps.mac
    have e2 := avoids_esc [40, 41] (by decide) (b64 ps.data)
    simp only [pairInner, joinComma]
    rw [avoids_append, avoids_cons, avoids_append, avoids_cons, avoids_sub hf (by simp), e1, e2]
    decide

theorem renderPair_noNL (b64 : Bytes → Bytes) (dec : Int → Bytes) (ps : PairSpec) : avoids [10] (renderPair b64 dec ps) = true := by
  have hf := renderPhrase_flat b64 dec ps.phrase
  have e1 := avoids_esc [10] (by decide) ps.mac
  have e2 := avoids_esc [10] (by decide) (b64 ps.data)
  simp only [renderPair, pairInner, joinComma]
  simp only [avoids_append, avoids_cons, avoids_sub hf (show ∀ b ∈ [10], b ∈ [40, 41, 44, 10] by simp), e1, e2]
  decide

theorem joinComma_noNL (items : List Bytes) (h : ∀ it ∈ items, avoids [10] it = true) : avoids [10] (joinComma items) = true := by
  induction items with
  | nil => rfl
  | cons a rest ih =>
    cases rest with
    | nil => simpa [joinComma] using h a (by simp)
    | cons b r =>
      simp only [joinComma]
      rw [avoids_append, avoids_cons, h a (by simp), ih (fun it hit => h it (by simp [hit]))]
      decide

theorem joinComma_ne_nil (items : List Bytes) (hne : items ≠ []) (h : ∀ it ∈ items, it ≠ []) : joinComma items ≠ [] := by
  match items, hne with
  | [a], _ => simpa [joinComma] using h a (by simp)
  | a :: b :: r, _ => simp [joinComma]

theorem mapM_parse (c : Crypto) (b64 : Bytes → Bytes) (dec : Int → Bytes)
    (hb : ∀ x, c.b64decode (b64 x) = .ok x) (hd : ∀ n, c.parseInt (dec n) = .ok n) (fuel : Nat)
    (ks : List PairSpec) (hk : ∀ ps ∈ ks, ps.mac ≠ [] ∧ b64 ps.data ≠ []) :
    (ks.map (renderPair b64 dec)).mapM (parseLocator c (fuel + 2)) = .ok (ks.map PairSpec.toLoc) := by
  induction ks with
  | nil => rfl
  | cons ps rest ih =>
    have := hk ps (by simp)
    rw [List.map_cons, List.mapM_cons, parseLocator_pair c b64 dec hb hd ps this.1 this.2,
      ih (fun q hq => hk q (by simp [hq]))]
    rfl

/-- reading back a rendered key safe -/
theorem fromText_render (c : Crypto) (b64 : Bytes → Bytes) (dec : Int → Bytes)
    (hb : ∀ x, c.b64decode (b64 x) = .ok x) (hd : ∀ n, c.parseInt (dec n) = .ok n)
    (ks : List PairSpec) (hne : ks ≠ []) (hk : ∀ ps ∈ ks, ps.mac ≠ [] ∧ b64 ps.data ≠ []) :
    fromText c (renderKeySafe b64 dec ks) = .ok (ks.map PairSpec.toLoc) := by
  unfold fromText renderKeySafe
  rw [sep_eqs.1, partition_append 47 _ _ (avoids_mem (show avoids [47] identKeySafe = true by decide) (by simp))]
  simp only [ne_eq, not_true_eq_false, if_false]
  generalize hj : joinComma (ks.map (renderPair b64 dec)) = j
  have hlen : ((identList ++ [47]) ++ 40 :: (j ++ [41])).length + 1 = (j.length + 5) + 3 := by
    simp only [List.length_append, List.length_cons, List.length_nil, show identList.length = 4 by decide]; omega
  rw [hlen]
  unfold parseLocator
  rw [sep_eqs.2.1, List.append_assoc, List.singleton_append,
    partition_append 47 _ _ (avoids_mem (show avoids [47] identList = true by decide) (by simp))]
  simp only
  rw [if_pos trivial]
  have hitems : ∀ it ∈ ks.map (renderPair b64 dec), Item it := by
    intro it hit
    obtain ⟨ps, _, rfl⟩ := List.mem_map.mp hit
    exact renderPair_item b64 dec ps
  have hsl : splitList (40 :: (j ++ [41])) = .ok (ks.map (renderPair b64 dec)) := by
    unfold splitList
    rw [listContents_render]
    · simp only; rw [← hj, splitLoop_join _ hitems]
    · rw [← hj]
      exact joinComma_ne_nil _ (by simpa using hne) (fun it hit => (hitems it hit).1)
    · rw [← hj]
      apply avoids_mem (joinComma_noNL _ _) (by simp)
      intro it hit
      obtain ⟨ps, _, rfl⟩ := List.mem_map.mp hit
      exact renderPair_noNL b64 dec ps
  rw [hsl]
  simp only [bind, Except.bind]
  rw [mapM_parse c b64 dec hb hd (j.length + 5) ks hk]

/-- the text sealed inside a pair: `type=key:cipher=…:key=esc(base64 key)` -/
def renderKeyDict (b64 : Bytes → Bytes) (cipherName dataKey : Bytes) : Bytes :=
  renderMember (asc "type") (asc "key") ++ 58 :: (renderMember kCipher cipherName ++ 58 :: renderMember kKey (b64 dataKey))

theorem keyDict_get (b64 : Bytes → Bytes) (cn dk : Bytes) :
    dictGet (parseCryptoDict (renderKeyDict b64 cn dk)) kKey = some (b64 dk) := by
  have hm : ∀ k v, avoids [61] k = true →
      ((partition 61 (renderMember k v)).1, pctDecode (partition 61 (renderMember k v)).2) = (k, v) := by
    intro k v hk
    rw [renderMember, partition_append 61 k (esc v) (avoids_mem hk (by simp)), pctDecode_esc]
  unfold parseCryptoDict renderKeyDict
  rw [sep_eqs.2.2.2.1, sep_eqs.2.2.2.2]
  rw [splitOn_append 58 _ _ (renderMember_no58 _ _ (by decide)), splitOn_append 58 _ _ (renderMember_no58 _ _ (by decide)),
    splitOn_none 58 _ (renderMember_no58 _ _ (by decide))]
  simp only [List.map_cons, List.map_nil]
  rw [hm _ _ (by decide), hm _ _ (by decide), hm _ _ (by decide)]
  simp [dictGet]

theorem unlockPair_sealed (c : Crypto) (enc : Bytes → Bytes → Bytes → Bytes) (b64 : Bytes → Bytes)
    (hinv : ∀ k iv pt, pt.length % 16 = 0 → c.cbcDecrypt k iv (enc k iv pt) = .ok pt)
    (hb : ∀ x, c.b64decode (b64 x) = .ok x)
    (p : Phrase) (pw kek iv tag cn dk macName alg : Bytes) (n : Nat)
    (hm : hmacInfo macName = some (alg, n)) (hk : unwrap c p pw = .ok kek) (hiv : iv.length = 16)
    (htag : c.hmac alg kek (renderKeyDict b64 cn dk) = .ok tag) (hn : n ≤ tag.length)
    (hu : c.utf8ok (renderKeyDict b64 cn dk) = .ok true) :
    unlockPair c p macName (sealBlob enc tag n kek iv (renderKeyDict b64 cn dk)) pw = .ok dk := by
  unfold unlockPair
  rw [hk]
  simp only [bind, Except.bind, decryptHmac_seal c enc hinv macName alg n hm kek iv _ tag hiv htag hn, hu,
    keyDict_get, hb]
  simp

theorem kEncrypted_eq : kEncrypted = kKeySafe := by decide

/-- unlocking what the writer sealed (first pair belongs to the passphrase) -/
theorem unlock_sealed (c : Crypto) (enc : Bytes → Bytes → Bytes → Bytes) (b64 : Bytes → Bytes) (dec : Int → Bytes)
    (hinv : ∀ k iv pt, pt.length % 16 = 0 → c.cbcDecrypt k iv (enc k iv pt) = .ok pt)
    (hb : ∀ x, c.b64decode (b64 x) = .ok x) (hd : ∀ n, c.parseInt (dec n) = .ok n)
    (attr new : Attr) (ps : PairSpec) (rest : List PairSpec) (pw kek iv iv2 tag tag2 cn dk alg cfg ed : Bytes) (n : Nat)
    (hks : attrGet attr kKeySafe = some (renderKeySafe b64 dec (ps :: rest)))
    (hdata : attrGet attr kData = some ed) (hed : c.b64decode ed = .ok (sealBlob enc tag2 n dk iv2 cfg))
    (hps : ps.data = sealBlob enc tag n kek iv (renderKeyDict b64 cn dk))
    (hall : ∀ q ∈ ps :: rest, q.mac ≠ [] ∧ b64 q.data ≠ [])
    (hm : hmacInfo ps.mac = some (alg, n)) (hk : unwrap c ps.phrase pw = .ok kek)
    (hiv : iv.length = 16) (hiv2 : iv2.length = 16)
    (htag : c.hmac alg kek (renderKeyDict b64 cn dk) = .ok tag) (hn : n ≤ tag.length)
    (hu : c.utf8ok (renderKeyDict b64 cn dk) = .ok true)
    (htag2 : c.hmac alg dk cfg = .ok tag2) (hn2 : n ≤ tag2.length)
    (hu2 : c.utf8ok cfg = .ok true) (hpd : c.parseDict cfg = .ok new) :
    unlock c attr pw = (.ok (), attrUpdate attr new) := by
  have hcore : unlockCore c attr pw = .ok new := by
    unfold unlockCore
    rw [kEncrypted_eq, hks]
    simp only [fromText_render c b64 dec hb hd (ps :: rest) (by simp) hall, bind, Except.bind, List.map_cons]
    have hun : unsealWithPhrase c pw (ps.toLoc :: rest.map PairSpec.toLoc) = .ok (dk, ps.mac) := by
      unfold PairSpec.toLoc unsealWithPhrase
      rw [hps, unlockPair_sealed c enc b64 hinv hb ps.phrase pw kek iv tag cn dk ps.mac alg n hm hk hiv htag hn hu]
    rw [hun]
    simp only [hdata, hed, decryptHmac_seal c enc hinv ps.mac alg n hm dk iv2 cfg tag2 hiv2 htag2 hn2, hu2, hpd]
    simp
  unfold unlock
  rw [hcore]

/-! ## a toy instance of the primitives (non-vacuity of the hypotheses; evaluated by the kernel) -/

def toyEnc (_k _iv pt : Bytes) : Bytes := pt.reverse

def toySum (b : Bytes) : UInt8 := b.foldl (fun a x => a * 31 + x + 1) 7

def toyDec (n : Int) : Bytes := if n < 0 then 45 :: List.replicate (-n).toNat 49 else List.replicate n.toNat 49

def toy : Crypto where
  pbkdf2 := fun alg pw salt rounds n =>
    .ok ((toySum (alg ++ pw) :: toySum (salt ++ toyDec rounds) :: List.replicate n (toySum (pw ++ salt))).take n)
  hmac := fun alg key msg => .ok (List.replicate 32 (toySum (alg ++ key ++ 0 :: msg)))
  cbcDecrypt := fun _ _ ct => if ct.length % 16 = 0 then .ok ct.reverse else .error .value
  b64decode := fun s => .ok s
  parseInt := fun s => match s with
    | 45 :: r => .ok (-(r.length : Int))
    | _ => .ok (s.length : Int)
  utf8ok := fun _ => .ok true
  parseDict := fun s => .ok [((partition 61 s).1, (partition 61 s).2)]

theorem toy_laws :
    (∀ k iv pt, pt.length % 16 = 0 → toy.cbcDecrypt k iv (toyEnc k iv pt) = .ok pt) ∧
    (∀ x, toy.b64decode (id x) = .ok x) ∧ (∀ n, toy.parseInt (toyDec n) = .ok n) := by
  refine ⟨?_, fun _ => rfl, ?_⟩
  · intro k iv pt h
    simp [toy, toyEnc, h]
  · intro n
    unfold toyDec toy
    split
    · simp only [List.length_replicate]
      congr 1; omega
    · rename_i h
      cases hr : List.replicate n.toNat (49 : UInt8) with
      | nil =>
        have : n.toNat = 0 := by simpa using congrArg List.length hr
        simp only [List.length_nil]; congr 1; omega
      | cons x xs =>
        have hx : x = 49 := by
          have : x ∈ List.replicate n.toNat (49 : UInt8) := by rw [hr]; simp
          exact (List.mem_replicate.mp this).2
        subst hx
        have hl : (49 :: xs).length = n.toNat := by rw [← hr]; simp
        show Except.ok (((49 :: xs).length : Nat) : Int) = Except.ok n
        rw [hl, Int.toNat_of_nonneg (by omega)]

def exPhrase : Phrase := ⟨asc "id 1", asc "PBKDF2-HMAC-SHA-256", asc "AES-128", 7, [1, 2, 3]⟩
def exPw : Bytes := asc "secret"
def exKek : Bytes := match unwrap toy exPhrase exPw with | .ok k => k | .error _ => []
def exDk : Bytes := List.replicate 16 9
def exIv : Bytes := List.replicate 16 5
def exInner : Bytes := renderKeyDict id (asc "AES-128") exDk
def exTag (key msg : Bytes) : Bytes := match toy.hmac (asc "sha1") key msg with | .ok t => t | .error _ => []
def exPair : PairSpec := ⟨exPhrase, asc "HMAC-SHA-1-128", sealBlob toyEnc (exTag exKek exInner) 16 exKek exIv exInner⟩
/-- 6 bytes ending in `\n` = 0x0a = the PKCS#7 pad length of a 6-byte text -/
def exCfg : Bytes := asc "ab=cd\n"
def exAttr : Attr := [(asc ".encoding", asc "UTF-8"), (kKeySafe, renderKeySafe id toyDec [exPair]),
  (kData, sealBlob toyEnc (exTag exDk exCfg) 16 exDk exIv exCfg)]
/-- the same file with one ciphertext byte of `encryption.data` altered -/
def exTampered : Attr := [(asc ".encoding", asc "UTF-8"), (kKeySafe, renderKeySafe id toyDec [exPair]),
  (kData, (sealBlob toyEnc (exTag exDk exCfg) 16 exDk exIv exCfg).set 31 0)]
/-- the same file with one ciphertext byte altered that decrypts to PKCS#7 padding only (not the last pad byte):
    the unrepaired reader accepted it (finding D26), the full padding validation refuses it -/
def exPadTampered : Attr := [(asc ".encoding", asc "UTF-8"), (kKeySafe, renderKeySafe id toyDec [exPair]),
  (kData, (sealBlob toyEnc (exTag exDk exCfg) 16 exDk exIv exCfg).set 20 0)]

/-! ## termination of the key-safe parser (C11) -/

/-- the external functions never report the model's own out-of-fuel outcome -/
def Crypto.NoNT (c : Crypto) : Prop :=
  (∀ x, c.b64decode x ≠ .error .nonTermination) ∧ (∀ x, c.parseInt x ≠ .error .nonTermination)

theorem partition_snd_length (sep : UInt8) (s : Bytes) : (partition sep s).2.length ≤ s.length := by
  induction s with
  | nil => simp [partition]
  | cons c cs ih =>
    simp only [partition]
    split
    · simp
    · simp only [List.length_cons]; omega

/-- every piece the `_split_list` character loop produces is made of characters of the input and the pending buffer -/
theorem splitLoop_member_length : ∀ (cs buf : Bytes) (level : Int), ∀ m ∈ splitLoop cs buf level, m.length ≤ cs.length + buf.length := by
  intro cs
  induction cs with
  | nil =>
    intro buf level m hm
    simp only [splitLoop] at hm
    split at hm
    · cases hm
    · simp only [List.mem_singleton] at hm; subst hm; simp
  | cons c cs ih =>
    intro buf level m hm
    simp only [splitLoop] at hm
    split at hm
    · have := ih _ _ m hm; simp only [List.length_cons] at this ⊢; omega
    split at hm
    · have := ih _ _ m hm; simp only [List.length_cons] at this ⊢; omega
    split at hm
    · simp only [List.mem_cons] at hm
      rcases hm with rfl | hm
      · simp
      · have := ih _ _ m hm; simp only [List.length_cons, List.length_nil] at this ⊢; omega
    · have := ih _ _ m hm; simp only [List.length_cons] at this ⊢; omega

theorem takeWhile_length_le (p : UInt8 → Bool) (l : Bytes) : (l.takeWhile p).length ≤ l.length := by
  induction l with
  | nil => simp
  | cons a t ih => simp only [List.takeWhile_cons]; split <;> simp <;> omega

theorem listContents_length {v contents : Bytes} (h : listContents v = some contents) : contents.length < v.length := by
  unfold listContents at h
  split at h
  · cases h
  · rename_i c rest
    split at h
    · cases h
    · simp only at h
      split at h
      · split at h
        · cases h
        · simp only [Option.some.injEq] at h
          subst h
          have : (rest.takeWhile (· ≠ 10)).length ≤ rest.length := takeWhile_length_le _ _
          simp only [List.length_take, List.length_cons]
          omega
      · cases h

/-- every member of a split list is strictly shorter than the list text -/
theorem splitList_member_length {v : Bytes} {ms : List Bytes} (h : splitList v = .ok ms) : ∀ m ∈ ms, m.length < v.length := by
  unfold splitList at h
  split at h
  · cases h
  · rename_i contents hc
    simp only [Except.ok.injEq] at h
    subst h
    intro m hm
    have h1 := splitLoop_member_length contents [] 0 m hm
    have h2 := listContents_length hc
    simp only [List.length_nil] at h1
    omega

theorem mapM_error {α β : Type} (f : α → Except VErr β) : ∀ (l : List α) (e : VErr), l.mapM f = .error e → ∃ a ∈ l, f a = .error e := by
  intro l
  induction l with
  | nil => intro e h; simp [List.mapM_nil, pure, Except.pure] at h
  | cons a t ih =>
    intro e h
    rw [List.mapM_cons] at h
    cases ha : f a with
    | error e' =>
      rw [ha] at h
      simp only [bind, Except.bind, Except.error.injEq] at h
      subst h
      exact ⟨a, by simp, ha⟩
    | ok b =>
      rw [ha] at h
      simp only [bind, Except.bind] at h
      cases ht : t.mapM f with
      | error e' =>
        rw [ht] at h
        simp only [Except.error.injEq] at h
        subst h
        obtain ⟨a', ha', hfa'⟩ := ih _ ht
        exact ⟨a', by simp [ha'], hfa'⟩
      | ok bs => rw [ht] at h; simp [pure, Except.pure] at h

theorem splitList_noNT (v : Bytes) : splitList v ≠ .error .nonTermination := by
  unfold splitList; split <;> (intro h; cases h)

theorem parsePhrase_noNT (c : Crypto) (hc : c.NoNT) (r : Bytes) : parsePhrase c r ≠ .error .nonTermination := by
  unfold parsePhrase
  simp only []
  split; · intro h; cases h
  split; · intro h; cases h
  split; · intro h; cases h
  rename_i rr _
  cases hp : c.parseInt rr with
  | error e =>
    intro h
    simp only [bind, Except.bind, Except.error.injEq] at h
    exact hc.2 rr (by rw [hp, h])
  | ok rounds =>
    simp only [bind, Except.bind]
    split; · intro h; cases h
    rename_i sl _
    cases hb : c.b64decode sl with
    | error e =>
      intro h
      simp only [Except.error.injEq] at h
      exact hc.1 sl (by rw [hb, h])
    | ok salt => intro h; cases h

/-- **the recursive locator parser never runs out of fuel**: every nesting level consumes at least its identifier and the
    opening parenthesis, so `length + 1` units of fuel cover any nesting the text can encode -/
theorem parseLocator_terminates (c : Crypto) (hc : c.NoNT) : ∀ (fuel : Nat) (s : Bytes), s.length < fuel →
    parseLocator c fuel s ≠ .error .nonTermination := by
  intro fuel
  induction fuel with
  | zero => intro s h; omega
  | succ fuel ih =>
    intro s hs
    have hrem := partition_snd_length sepLoc s
    simp only [parseLocator]
    split
    · -- list
      cases hsl : splitList (partition sepLoc s).2 with
      | error e =>
        intro h
        simp only [bind, Except.bind, Except.error.injEq] at h
        exact splitList_noNT _ (by rw [hsl, h])
      | ok ms =>
        have hlen := splitList_member_length hsl
        simp only [bind, Except.bind]
        cases hm : ms.mapM (parseLocator c fuel) with
        | error e =>
          intro h
          simp only [Except.error.injEq] at h
          subst h
          obtain ⟨m, hmem, hfm⟩ := mapM_error _ _ _ hm
          exact ih m (by have := hlen m hmem; omega) hfm
        | ok ls => intro h; cases h
    split
    · -- pair
      cases hsl : splitList (partition sepLoc s).2 with
      | error e =>
        intro h
        simp only [bind, Except.bind, Except.error.injEq] at h
        exact splitList_noNT _ (by rw [hsl, h])
      | ok ms =>
        have hlen := splitList_member_length hsl
        simp only [bind, Except.bind]
        cases ms with
        | nil => intro h; cases h
        | cons m0 rest =>
          simp only []
          cases hk : parseLocator c fuel m0 with
          | error e =>
            intro h
            simp only [Except.error.injEq] at h
            subst h
            exact ih m0 (by have := hlen m0 (by simp); omega) hk
          | ok k =>
            simp only []
            split
            · rename_i m1 m2 _
              cases hb : c.b64decode (pctDecode m2) with
              | error e =>
                intro h
                simp only [Except.error.injEq] at h
                exact hc.1 _ (by rw [hb, h])
              | ok d => intro h; cases h
            · intro h; cases h
    split
    · cases hp : parsePhrase c (partition sepLoc s).2 with
      | error e =>
        intro h
        simp only [bind, Except.bind, Except.error.injEq] at h
        exact parsePhrase_noNT c hc _ (by rw [hp, h])
      | ok p => intro h; cases h
    · intro h; cases h

/-- `KeySafe.from_text` passes `length + 1`: enough for every text -/
theorem fromText_terminates (c : Crypto) (hc : c.NoNT) (text : Bytes) : fromText c text ≠ .error .nonTermination := by
  unfold fromText
  split
  · intro h; cases h
  · have := parseLocator_terminates c hc ((partition sepSafe text).2.length + 1) (partition sepSafe text).2 (by omega)
    cases hl : parseLocator c ((partition sepSafe text).2.length + 1) (partition sepSafe text).2 with
    | error e =>
      intro h
      simp only [bind, Except.bind, Except.error.injEq] at h
      exact this (by rw [hl, h])
    | ok l =>
      simp only [bind, Except.bind]
      split <;> (intro h; cases h)

end Hv.Vmx
