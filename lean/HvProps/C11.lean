/-
  C11 — termination and bounded resources on arbitrary input.

  Every loop of the models is fuel-recursive and reports `Err.nonTermination` (or `Outcome.nonTermination`) when the fuel
  runs out. The theorems below show, for *arbitrary* header / table / file contents, that this never happens with the
  fuel the read path passes: each step either errors out or makes progress ≥ 1 towards a bound that is a function of the
  request and the file size only. They are the per-loop proof obligations of C11.
-/
import HvProps.C01
import HvProps.C02
import HvProps.C03
import HvProps.C04
import HvProps.C05
import HvProps.C06
import HvProps.C20
import HvProofs.Hdd
namespace Hv.C11
open Hv

/-- VDI `_read`: any header, any block map -/
theorem vdi_read_terminates (v : Vdi.Vdi)
    (hpar : ∀ p, v.parent = some p → ∀ o l, p o l ≠ .error .nonTermination) (off len : Nat) :
    Vdi.read v off len ≠ .error .nonTermination := Vdi.read_terminates v hpar off len

/-- QCOW2 `_yield_runs`: any L1 / L2 tables and sub-cluster bitmaps of any image `open` accepts — every run is ≥ 1 byte
    long, so the fuel `len` is never exhausted (C01.yieldRuns_progress) -/
theorem qcow2_yieldRuns_terminates (fh : File) (df : Option File) (bk : Option Qcow2.Reader) (allow : Bool)
    (infl : Bytes → Nat → Except Err Bytes) (q : Qcow2.QCow2) (h : Qcow2.open fh df bk allow infl = .ok q) (off len : Nat) :
    q.yieldRuns len off len ≠ .error .nonTermination :=
  C01.yieldRuns_progress_opened fh df bk allow infl q h off len

/-- VHD `_read` (fixed and dynamic): any footer, header and BAT -/
theorem vhd_read_terminates (v : Vhd.Vhd) (off len : Nat) : v.read off len ≠ .error .nonTermination :=
  C04.vhd_read_terminates v off len

/-- VHDX `read_sectors`: any metadata / BAT (a block's dispatch is loop-free or the partial-run walk, which is bounded
    by the sector count) -/
theorem vhdx_read_terminates (v : Vhdx.Vhdx)
    (hchunk : ∀ b s i n, v.chunk b s i n ≠ .error .nonTermination) (sector count : Nat) :
    v.readSectors count sector count ≠ .error .nonTermination := C03.vhdx_read_terminates v hchunk sector count

/-- HDS `_iter_runs` / `_read`: any header and BAT (cluster size 0 is an error, not a loop) -/
theorem hds_read_terminates (v : Hds.Hds) (off len : Nat) : v.iterRuns len off len none ≠ .error .nonTermination :=
  C06.hds_read_terminates v off len

/-- VMDK `get_runs`: any header, grain directory and grain tables (grain size 0 is an error, not a loop) -/
theorem vmdk_getRuns_terminates (v : Vmdk.Sparse) (rs rc : Nat) (cur : Option Vmdk.Cur) :
    v.getRunsLoop rc rs rc cur ≠ .error .nonTermination := C02.getRuns_progress v rs rc cur

/-- VMDK compressed-run loop -/
theorem vmdk_compressed_run_terminates (v : Vmdk.Sparse) (fuel t off rc : Nat) (h : rc ≤ fuel) (ho : off < v.grainSize)
    (hg : ∀ s, v.readCompressedGrain s ≠ .error .nonTermination) :
    v.readCompressedRun fuel t off rc ≠ .error .nonTermination := C02.compressed_run_progress v fuel t off rc h ho hg

/-- **chain_walk_terminates**: Parallels `get_snapshot_chain` on *any* shot list — cycles of any shape (self loops,
    loops through the top, rho-shaped loops further down), dangling parents, duplicates — returns or raises: a chain
    longer than the number of shots would repeat a GUID, and a repeated GUID is refused (pigeonhole). -/
theorem chain_walk_terminates (shots : List (Nat × Nat)) (null guid : Nat) :
    Hdd.snapshotChain shots null guid ≠ .error .nonTermination := Hdd.snapshotChain_terminates shots null guid

/-- vmtar member iteration: any byte string (negative sizes are refused since fix bc40280) -/
theorem vmtar_listing_terminates (f : File) : Vmtar.list f true ≠ .nonTermination := C20.vmtar_listing_terminates f

/-! non-vacuity: shapes of cycles that are refused rather than followed -/
example : Hdd.snapshotChain [(1, 2), (2, 2)] 0 1 = .error .value := by decide                          -- A→B→B
example : Hdd.snapshotChain [(1, 2), (2, 3), (3, 4), (4, 3)] 0 1 = .error .value := by decide          -- A→B→C→D→C
example : Hdd.snapshotChain [(1, 1)] 0 1 = .error .value := by decide                                  -- A→A

end Hv.C11
