/-
  C18 — VM configuration files: the reported disk list is exactly the VM's hard disks.
  Models: Hv/Configs.lean (VMX dictionary, VMX.disks, OVF, VBox, PVS) over Hv/Prim/XPath.lean (element trees and
  the ElementPath selectors).  Lemmas: HvProofs/Configs.lean.
-/
import HvProofs.Configs
import HvProofs.ConfigsOvf
namespace Hv.C18
open Hv Hv.XPath Hv.Configs Hv.ConfigsSpec

/-! ### extracted literals = the specification's values -/

theorem parse_lits_spec : Extracted.configs.PARSE_LITS = ["\n", "#", "=", " \""] := by decide
theorem dev_classes_spec : Extracted.configs.DEV_CLASSES = ["scsi", "sata", "ide", "nvme"] := by decide
theorem disks_lits_spec : Extracted.configs.DISKS_LITS = [".", "filename", "devicetype", "disk"] := by decide
/-- `str.lower()` of the interpreter below U+0080: `A`–`Z` ↦ `a`–`z`, nothing else — which is what the model's
    `lowerChar` spells out for these code points -/
theorem lower_table_ascii_spec : ∀ c < 128, lookupNat c cfg.lowerMap = (if 65 ≤ c ∧ c ≤ 90 then some [c + 32] else none) := by
  intro c hc
  show lookupNat c (Extracted.configs.LOWER_MAP_ASCII ++ Extracted.configs.LOWER_MAP_HIGH) = _
  rw [lookupNat_append_high c 128 _ _ hc (by decide +kernel)]
  revert c
  decide +kernel
/-- `str.strip()` white space below U+0080 -/
theorem spaces_ascii_spec : (List.range 128).filter (fun c => isSpace cfg (Char.ofNat c)) = [9, 10, 11, 12, 13, 28, 29, 30, 31, 32] := by
  decide +kernel
theorem ovf_ns_spec : Extracted.configs.OVF_NS =
    [("ovf", "http://schemas.dmtf.org/ovf/envelope/1"),
     ("rasd", "http://schemas.dmtf.org/wbem/wscim/1/cim-schema/2/CIM_ResourceAllocationSettingData")] := by decide
theorem ovf_paths_spec : Extracted.configs.OVF_PATH_ARGS =
    ["findall:ovf:References/ovf:File", "findall:ovf:DiskSection/ovf:Disk",
     "findall:ovf:VirtualSystem/ovf:VirtualHardwareSection/ovf:Item/[rasd:ResourceType=\"17\"]",
     "find:{http://schemas.dmtf.org/wbem/wscim/1/cim-schema/2/CIM_ResourceAllocationSettingData}HostResource"] := by decide
theorem ovf_steps_spec :
    ovfCfg.fileSteps = [.child "{http://schemas.dmtf.org/ovf/envelope/1}References".toList,
                        .child "{http://schemas.dmtf.org/ovf/envelope/1}File".toList]
    ∧ ovfCfg.diskSteps = [.child "{http://schemas.dmtf.org/ovf/envelope/1}DiskSection".toList,
                          .child "{http://schemas.dmtf.org/ovf/envelope/1}Disk".toList]
    ∧ ovfCfg.driveSteps = [.child "{http://schemas.dmtf.org/ovf/envelope/1}VirtualSystem".toList,
                           .child "{http://schemas.dmtf.org/ovf/envelope/1}VirtualHardwareSection".toList,
                           .child "{http://schemas.dmtf.org/ovf/envelope/1}Item".toList,
                           .childText "{http://schemas.dmtf.org/wbem/wscim/1/cim-schema/2/CIM_ResourceAllocationSettingData}ResourceType".toList "17".toList]
    ∧ ovfCfg.hostResSteps = [.child "{http://schemas.dmtf.org/wbem/wscim/1/cim-schema/2/CIM_ResourceAllocationSettingData}HostResource".toList] := by
  decide
theorem ovf_lits_spec :
    Extracted.configs.OVF_INIT_ATTRS = ["{http://schemas.dmtf.org/ovf/envelope/1}id", "{http://schemas.dmtf.org/ovf/envelope/1}href",
      "{http://schemas.dmtf.org/ovf/envelope/1}diskId", "{http://schemas.dmtf.org/ovf/envelope/1}fileRef"]
    ∧ Extracted.configs.OVF_DISKS_LITS = ["ovf:", "/disk/", "/", "/file/", "/"] := by decide
theorem vbox_path_spec : Extracted.configs.VBOX_PATH_ARGS =
    ["findall:.//{http://www.virtualbox.org/}HardDisk[@location][@type='Normal']"] := by decide
theorem vbox_steps_spec : vboxCfg.steps =
    [.self, .desc "{http://www.virtualbox.org/}HardDisk".toList, .hasAttr "location".toList, .attrEq "type".toList "Normal".toList] := by
  decide
theorem vbox_lits_spec : Extracted.configs.VBOX_LITS = ["format", "vdi", "location"] := by decide
theorem pvs_path_spec : Extracted.configs.PVS_PATH_ARGS = ["iterfind:.//Hdd", "find:SystemName"] := by decide
theorem pvs_steps_spec : pvsCfg.steps = [.self, .desc "Hdd".toList] ∧ pvsCfg.nameSteps = [.child "SystemName".toList] := by decide

/-! ### the VMX dictionary -/

/-- **dict_lookup_is_last_assignment**: for every list of lines and every key, the parsed dictionary maps the key to
    the value of the *last* line that assigns it (`lastAssign` walks the file from the end; a line assigns
    `lower(strip(text before the first "="))`), and to nothing if no line does. -/
theorem dict_lookup_is_last_assignment (C : Cfg) (ls : List Str) (key : Str) :
    aget key (parseLines C ls) = lastAssign C ls key := by
  have := aget_foldl_stepLine C ls [] key
  unfold parseLines
  rw [this]
  cases lastAssign C ls key <;> rfl

/-- **dict_last_assignment_wins**: whatever precedes it — any number of earlier assignments of the same key in any
    casing — an assignment line at the end of the file determines the value. -/
theorem dict_last_assignment_wins (C : Cfg) (ls : List Str) (l k v : Str) (h : classifyLine C l = some (k, v)) :
    aget k (parseLines C (ls ++ [l])) = some v := by
  rw [dict_lookup_is_last_assignment, lastAssign_append_single C ls l k v h]

/-- **dict_rendered_last_assignment_wins**: the same for a concretely rendered line
    `<pad>KeY<pad>=<pad>"value"<pad>`: the value is found under the lower-cased key. -/
theorem dict_rendered_last_assignment_wins (C : Cfg) (ls : List Str) (q : Char) (p1 p2 p3 p4 k v : Str)
    (hq1 : isSpace C q = false) (hq2 : C.valueStrip.contains q = true) (hsep : isSpace C C.sep = false)
    (h1 : ∀ x ∈ p1, isSpace C x = true) (h2 : ∀ x ∈ p2, isSpace C x = true)
    (h3 : ∀ x ∈ p3, C.valueStrip.contains x = true) (h4 : ∀ x ∈ p4, isSpace C x = true)
    (hk : KeyOK C k) (hv : ValueOK C v) :
    aget (lower C k) (parseLines C (ls ++ [renderLine C q p1 p2 p3 p4 k v])) = some v :=
  dict_last_assignment_wins C ls _ _ _ (classifyLine_render C q p1 p2 p3 p4 k v hq1 hq2 hsep h1 h2 h3 h4 hk hv)

/-- **dict_keys_case_insensitive**: two spellings of a key that agree after lower-casing are interchangeable at any
    position of any file, with any padding: the parsed dictionaries are equal. -/
theorem dict_keys_case_insensitive (C : Cfg) (a b : List Str) (q : Char) (p1 p2 p3 p4 p1' p2' p3' p4' k k' v : Str)
    (hq1 : isSpace C q = false) (hq2 : C.valueStrip.contains q = true) (hsep : isSpace C C.sep = false)
    (h1 : ∀ x ∈ p1, isSpace C x = true) (h2 : ∀ x ∈ p2, isSpace C x = true)
    (h3 : ∀ x ∈ p3, C.valueStrip.contains x = true) (h4 : ∀ x ∈ p4, isSpace C x = true)
    (h1' : ∀ x ∈ p1', isSpace C x = true) (h2' : ∀ x ∈ p2', isSpace C x = true)
    (h3' : ∀ x ∈ p3', C.valueStrip.contains x = true) (h4' : ∀ x ∈ p4', isSpace C x = true)
    (hk : KeyOK C k) (hk' : KeyOK C k') (hv : ValueOK C v) (hcase : lower C k = lower C k') :
    parseLines C (a ++ renderLine C q p1 p2 p3 p4 k v :: b) = parseLines C (a ++ renderLine C q p1' p2' p3' p4' k' v :: b) := by
  apply foldl_congr_line
  rw [classifyLine_render C q p1 p2 p3 p4 k v hq1 hq2 hsep h1 h2 h3 h4 hk hv,
    classifyLine_render C q p1' p2' p3' p4' k' v hq1 hq2 hsep h1' h2' h3' h4' hk' hv, hcase]

/-- **dict_ignores_comments_and_blanks**: a line that is empty after `strip()` or starts with `#` after `strip()`
    can be inserted or removed anywhere without changing the parsed dictionary. -/
theorem dict_ignores_comments_and_blanks (C : Cfg) (a b : List Str) (l : Str)
    (h : strip C l = [] ∨ C.comment.isPrefixOf (strip C l) = true) :
    parseLines C (a ++ l :: b) = parseLines C (a ++ b) := by
  apply foldl_skip
  unfold classifyLine
  simp only [h, if_true]

/-- the hypotheses of the rendered-line theorems hold for the extracted configuration and ordinary keys -/
example : isSpace cfg '"' = false ∧ cfg.valueStrip.contains '"' = true ∧ isSpace cfg cfg.sep = false
    ∧ cfg.valueStrip.contains ' ' = true ∧ isSpace cfg '\t' = true := by decide +kernel

/-- non-vacuity + the seeded shape: a key assigned three times with spellings A / b / A -/
example : aget "scsi0:0.filename".toList (parseDictionary cfg
    "#!/usr/bin/vmware\nscsi0:0.fileName = \"first.vmdk\"\n  # c\n\nscsi0:0.filename = \"second.vmdk\"\r\nscsi0:0.fileName=\"final.vmdk\" ".toList)
    = some "final.vmdk".toList := by decide +kernel

/-! ### `VMX.disks` -/

/-- **device_key_parse**: for every device class of the code, every digit string as bus (non-empty) and unit and
    every property name, the loop body of `VMX.disks` recovers `(class, "bus:unit", property)` from the key
    `<class><bus>:<unit>.<property>` — the character-set `lstrip(dev_class)` stops at the first digit. -/
theorem device_key_parse (d : Device) (hd : d.WF cfg) (p : Str) :
    parseKey cfg (d.key cfg p) = some (some (d.cls, d.id, p)) := parseKey_device d hd p

/-- which property dictionaries count as a hard disk: a non-empty `filename`, and `devicetype` absent, empty or
    containing `disk` after lower-casing — so no `cdrom-image` / `atapi-cdrom` / `cdrom-raw` device is reported -/
theorem disk_filter_spec (C : Cfg) (p : Props) (f : Str) :
    diskFile C p = some f ↔ aget C.kFile p = some f ∧ f ≠ [] ∧
      (aget C.kType p = none ∨ ∃ t, aget C.kType p = some t ∧ (t = [] ∨ isInfix C.disk (lower C t) = true)) := by
  unfold diskFile
  cases h1 : aget C.kFile p with
  | none => simp
  | some f' =>
    by_cases h2 : f' = []
    · simp only [h2, if_true, Option.some.injEq]
      constructor
      · intro h; cases h
      · rintro ⟨e, hne, _⟩; exact absurd e.symm hne
    · simp only [h2, if_false, Option.some.injEq]
      cases h3 : aget C.kType p with
      | none => constructor
                · intro e; cases e; exact ⟨rfl, h2, .inl rfl⟩
                · rintro ⟨e, _⟩; exact congrArg some e
      | some t =>
        by_cases h4 : t = [] ∨ isInfix C.disk (lower C t) = true
        · simp only [h4, if_true, Option.some.injEq]
          constructor
          · intro e; cases e; exact ⟨rfl, h2, .inr ⟨t, rfl, h4⟩⟩
          · rintro ⟨e, _⟩; exact e
        · simp only [h4, if_false]
          constructor
          · intro e; cases e
          · rintro ⟨_, _, h | ⟨t', e, h⟩⟩
            · cases h
            · cases e; exact absurd h h4

/-- **vmx_disks_exact**: for every abstract VM — any number of devices of the code's classes with any digit strings
    as bus and unit, each with any properties (file name, device type, present, …), pairwise different
    `class/bus:unit`, plus any unrelated settings (not class-prefixed, or class-prefixed settings of other groups
    that are not file names, e.g. controller settings) — and for **every dictionary holding exactly these settings
    in any order**, `VMX.disks()` does not raise and returns the sorted list of the file names of exactly those
    devices that pass the disk filter (`disk_filter_spec`), with multiplicity. -/
theorem vmx_disks_exact (vm : VM) (hwf : vm.WF cfg) (attr : Dict) (hm : ∀ e, e ∈ attr ↔ e ∈ vm.entries cfg) :
    disks cfg attr = some ((vm.devices.filterMap (fun d => diskFile cfg d.props)).mergeSort strLe) :=
  vmx_disks_exact_aux vm hwf attr hm

/-- **vmx_text_disks_exact**: the same from the text: for every list of lines whose *last assignments*
    (case-insensitive keys, comments and blank lines ignored, see the dictionary theorems) are exactly the VM's
    settings, `VMX.parse(text).disks()` is the sorted list of the hard disks' files. -/
theorem vmx_text_disks_exact (vm : VM) (hwf : vm.WF cfg) (ls : List Str)
    (hm : ∀ k v, lastAssign cfg ls k = some v ↔ (k, v) ∈ vm.entries cfg) :
    disks cfg (parseLines cfg ls) = some ((vm.devices.filterMap (fun d => diskFile cfg d.props)).mergeSort strLe) :=
  vmx_disks_exact_aux vm hwf _ (fun ⟨k, v⟩ => (mem_parseLines_iff cfg ls k v).trans (hm k v))

/-- **vmx_reported_iff_hard_disk** (soundness and completeness as a set): a name is reported iff it is the file of a
    device passing the disk filter. -/
theorem vmx_reported_iff_hard_disk (vm : VM) (hwf : vm.WF cfg) (attr : Dict) (hm : ∀ e, e ∈ attr ↔ e ∈ vm.entries cfg)
    (f : Str) : (∃ r, disks cfg attr = some r ∧ f ∈ r) ↔ ∃ d ∈ vm.devices, diskFile cfg d.props = some f := by
  rw [vmx_disks_exact vm hwf attr hm]
  constructor
  · rintro ⟨r, hr, hf⟩
    cases hr
    rw [List.mem_mergeSort] at hf
    exact List.mem_filterMap.1 hf
  · intro h
    exact ⟨_, rfl, List.mem_mergeSort.2 (List.mem_filterMap.2 h)⟩

def exampleVM : VM where
  devices := [⟨"scsi".toList, "0".toList, "10".toList, [("present".toList, "TRUE".toList), ("filename".toList, "root.vmdk".toList), ("devicetype".toList, "scsi-hardDisk".toList)]⟩,
              ⟨"ide".toList, "1".toList, "0".toList, [("filename".toList, "install.iso".toList), ("devicetype".toList, "cdrom-image".toList)]⟩,
              ⟨"sata".toList, "0".toList, "10".toList, [("filename".toList, "data.vmdk".toList)]⟩,
              ⟨"nvme".toList, "0".toList, "0".toList, [("filename".toList, "".toList)]⟩]
  others := [("scsi0.present".toList, "TRUE".toList), ("scsi0.virtualdev".toList, "lsilogic".toList),
             ("sched.scsi0:0.shares".toList, "normal".toList), ("floppy0.filename".toList, "boot.flp".toList),
             ("displayname".toList, "vm".toList), ("ethernet1.filename".toList, "vmnet2".toList)]

/-- the hypotheses of `vmx_disks_exact` are satisfiable (disks, a CD-ROM, an empty file name, controllers, floppy, unrelated keys) -/
example : exampleVM.WF cfg := VM.WF_of_check cfg exampleVM (by decide +kernel) (by decide +kernel) (by decide +kernel)

/-- … and on it the model reports the two hard disks, sorted (settings taken in reverse order) -/
example : disks cfg (exampleVM.entries cfg).reverse = some ["data.vmdk".toList, "root.vmdk".toList] :=
  disks_of_unsorted cfg _ ["root.vmdk".toList, "data.vmdk".toList] _ (by decide +kernel) (by decide +kernel) (List.Perm.swap ..)

/-! ### documented deviations of the code from a broader reading of the property (model = code; see agent report) -/

/-- a legacy raw-device-mapping disk (`deviceType = "scsi-passthru-rdm"`, a hard disk for VMware) does not pass the
    filter: the filter asks for the substring `disk` -/
example : diskFile cfg [("filename".toList, "rdm.vmdk".toList), ("devicetype".toList, "scsi-passthru-rdm".toList)] = none := by
  decide +kernel

/-- a TAB between `=` and the opening quote stays in the value (`value.strip(' "')` strips blanks and quotes only) -/
example : aget "scsi0:0.filename".toList (parseDictionary cfg "scsi0:0.fileName =\t\"a.vmdk\"".toList) = some "\t\"a.vmdk".toList := by
  decide +kernel

/-- a key that starts with a device class but has no `.` makes `VMX.disks()` raise -/
example : disks cfg [("idevice".toList, "x".toList)] = none := by decide +kernel

/-! ### VirtualBox -/

/-- **vbox_disks_exact**: for every element tree, `VBox.disks()` is the document-order list of the `location`s of
    *all proper descendants of the root, at any depth* (`vboxSpecL` recurses through every child list — hard disks
    nested in hard disks included), that are `{http://www.virtualbox.org/}HardDisk` elements with `type="Normal"`
    and a non-empty `format` that lower-cases to `vdi` (`vboxSel`); it never raises. -/
theorem vbox_disks_exact (root : Xml) :
    vboxDisks cfg vboxCfg root = some (vboxSpecL cfg vboxCfg "{http://www.virtualbox.org/}HardDisk".toList "type".toList
      "Normal".toList root.children) :=
  vboxDisks_eq cfg vboxCfg _ "location".toList _ _ vbox_steps_spec (by decide) root

/-- **vbox_disks_mem_iff**: a location is reported iff some proper descendant (`Desc`: child, or descendant of a
    child) is a Normal VDI hard disk with that location. -/
theorem vbox_disks_mem_iff (root : Xml) (l : Str) :
    (∃ r, vboxDisks cfg vboxCfg root = some r ∧ l ∈ r) ↔
      ∃ e, Desc e root ∧ vboxSel cfg vboxCfg "{http://www.virtualbox.org/}HardDisk".toList "type".toList "Normal".toList e = some l :=
  mem_vboxDisks cfg vboxCfg _ "location".toList _ _ vbox_steps_spec (by decide) root l

/-- what `vboxSel` selects, spelled out -/
theorem vbox_sel_spec (e : Xml) (l : Str) :
    vboxSel cfg vboxCfg "{http://www.virtualbox.org/}HardDisk".toList "type".toList "Normal".toList e = some l ↔
      e.tag = "{http://www.virtualbox.org/}HardDisk".toList ∧ e.get "type".toList = some "Normal".toList ∧
      (∃ f, e.get "format".toList = some f ∧ f ≠ [] ∧ lower cfg f = "vdi".toList) ∧ e.get "location".toList = some l := by
  have h1 : vboxCfg.aFormat = "format".toList := by decide
  have h2 : vboxCfg.vdi = "vdi".toList := by decide
  have h3 : vboxCfg.aLocation = "location".toList := by decide
  unfold vboxSel
  rw [h1, h2, h3]
  constructor
  · intro h
    split at h
    · rename_i hc; exact ⟨hc.1, hc.2.1, hc.2.2, h⟩
    · cases h
  · rintro ⟨a, b, c, d⟩
    rw [if_pos ⟨a, b, c⟩, d]

private def hd (attrs : List (String × String)) (kids : List Xml) : Xml :=
  .node "{http://www.virtualbox.org/}HardDisk".toList (attrs.map (fun kv => (kv.1.toList, kv.2.toList))) kids none (some "\n".toList)

/-- nested registry: Normal VDI disks inside disks of other formats / types are reported, in document order -/
example : vboxDisks cfg vboxCfg (.node "{http://www.virtualbox.org/}VirtualBox".toList [] [
    .node "{http://www.virtualbox.org/}HardDisks".toList [] [
      hd [("location", "base.vdi"), ("format", "VDI"), ("type", "Normal")] [
        hd [("location", "snap.vdi"), ("format", "VDI")] [],
        hd [("location", "child.vdi"), ("format", "vdi"), ("type", "Normal")] [
          hd [("location", "grandchild.vdi"), ("format", "Vdi"), ("type", "Normal")] []]],
      hd [("location", "outer.vmdk"), ("format", "VMDK"), ("type", "Normal")] [
        hd [("location", "inner.vdi"), ("format", "VDI"), ("type", "Normal")] [],
        hd [("location", "ro.vdi"), ("format", "VDI"), ("type", "Immutable")] []]] none none,
    .node "{http://www.virtualbox.org/}DVDImages".toList [] [
      .node "{http://www.virtualbox.org/}Image".toList [("location".toList, "x.iso".toList)] [] none none] none none] none none)
    = some ["base.vdi".toList, "child.vdi".toList, "grandchild.vdi".toList, "inner.vdi".toList] := by decide +kernel

/-! ### OVF -/

/-- **ovf_disks_exact**: for every element tree that is a well-formed OVF envelope (`ovfWfb`, a decidable predicate:
    every `References/File` has `ovf:id` and `ovf:href` and the file ids are pairwise distinct; every
    `DiskSection/Disk` has `ovf:diskId` and an `ovf:fileRef` naming a `File`, and the disk ids are pairwise distinct —
    *a disk id may coincide with a file id*; every `VirtualSystem/VirtualHardwareSection/Item` having a
    `rasd:ResourceType` child with text `17` has a first `rasd:HostResource` child with text `[ovf:]/disk/<id>` naming a
    `Disk` or `[ovf:]/file/<id>` naming a `File`, `<id>` without `/`), `list(OVF(fh).disks())` does not raise and is, in
    document order of the hard-disk items, the href of the file backing each of them (`ovfSpec`: item → *the* `Disk`
    with that `diskId` → *the* `File` with that disk's `fileRef` → href, resp. item → *the* `File` with that id → href;
    the two id spaces are searched separately, so a `Disk` whose id equals another `File`'s id shadows nothing).
    Items of any other resource type (CD-ROM 15/16, floppy 14, controllers 5/6/20, …) contribute nothing. -/
theorem ovf_disks_exact (root : Xml) (hwf : ovfWfb root = true) :
    ovfDisks ovfCfg root = some ((ovfSpec root).map some) := ovfDisks_eq_spec root hwf

/-- **ovf_one_entry_per_disk_item**: on a well-formed envelope the result has exactly one entry per hard-disk item. -/
theorem ovf_one_entry_per_disk_item (root : Xml) (hwf : ovfWfb root = true) :
    ∃ r, ovfDisks ovfCfg root = some r ∧ r.length = (driveItems root).length := by
  refine ⟨_, ovf_disks_exact root hwf, ?_⟩
  have w := ovfWF_of_wfb root hwf
  rw [List.length_map]
  unfold ovfSpec
  rw [filterMap_eq_map_of_some _ (fun it => (itemHref (fileEls root) (diskEls root) it).getD []) _ (fun it hit => by
    obtain ⟨href, _, h2⟩ := resolve_item root w it hit
    simp only [h2, Option.getD_some]), List.length_map]

/-- **ovf_reported_iff_disk_item**: a name is reported iff it is the backing file of some hard-disk item; an `Item`
    none of whose `rasd:ResourceType` children has the text `17` is never looked at. -/
theorem ovf_reported_iff_disk_item (root : Xml) (hwf : ovfWfb root = true) (href : Str) :
    (∃ r, ovfDisks ovfCfg root = some r ∧ some href ∈ r) ↔
      ∃ it ∈ itemEls root, isDiskItem it = true ∧ itemHref (fileEls root) (diskEls root) it = some href := by
  rw [ovf_disks_exact root hwf]
  constructor
  · rintro ⟨r, hr, hm⟩
    cases hr
    obtain ⟨h', hm', e⟩ := List.mem_map.1 hm
    cases e
    obtain ⟨it, hit, hh⟩ := List.mem_filterMap.1 hm'
    have := List.mem_filter.1 hit
    exact ⟨it, this.1, this.2, hh⟩
  · rintro ⟨it, hit, hd, hh⟩
    exact ⟨_, rfl, List.mem_map.2 ⟨href, List.mem_filterMap.2 ⟨it, List.mem_filter.2 ⟨hit, hd⟩, hh⟩, rfl⟩⟩

private def oel (tag : Str) (attrs : List (Str × String)) (kids : List Xml) : Xml :=
  .node tag (attrs.map (fun kv => (kv.1, kv.2.toList))) kids none none
private def otext (tag : Str) (text : String) : Xml := .node tag [] [] (some text.toList) none
private def oitem (rt host : String) : Xml := oel tItem [] [otext tResourceType rt, otext tHostResource host]

/-- two files, two disks with **crossed ids** (disk `f1` is backed by file `f2`, disk `f2` by file `f1`), hard-disk items in
    both `HostResource` forms, a CD-ROM on a third file, a controller without host resource, a decoy `17` in another field -/
private def crossed : Xml :=
  oel "Envelope".toList [] [
    oel tReferences [] [oel tFile [(idAttr, "f1"), (hrefAttr, "a.vmdk")] [], oel tFile [(idAttr, "f2"), (hrefAttr, "b.vmdk")] [],
                        oel tFile [(hrefAttr, "cd.iso"), (idAttr, "f3")] []],
    oel tDiskSection [] [oel tDisk [(diskIdAttr, "f2"), (fileRefAttr, "f1")] [], oel tDisk [(diskIdAttr, "f1"), (fileRefAttr, "f2")] []],
    oel tVirtualSystem [] [oel tVirtualHardwareSection [] [
      oel tItem [] [otext tResourceType "6", otext "ElementName".toList "17"],
      oitem "17" "ovf:/disk/f1", oitem "15" "ovf:/file/f3", oitem "17" "/file/f1", oitem "17" "/disk/f2", oitem "17" "ovf:/file/f2"]]]

/-- non-vacuity of `ovf_disks_exact`, with a `diskId` equal to the id of a `File` that backs a *different* disk:
    the envelope is well-formed and its specification value is the four backing files in document order -/
theorem ovf_crossed_ids_wellformed :
    ovfWfb crossed = true ∧ ovfSpec crossed = ["b.vmdk".toList, "a.vmdk".toList, "a.vmdk".toList, "b.vmdk".toList] := by
  decide +kernel

/-- … hence (by the theorem, not by evaluation) the model of `OVF.disks` returns them -/
example : ovfDisks ovfCfg crossed = some [some "b.vmdk".toList, some "a.vmdk".toList, some "a.vmdk".toList, some "b.vmdk".toList] := by
  rw [ovf_disks_exact crossed ovf_crossed_ids_wellformed.1, ovf_crossed_ids_wellformed.2]; rfl

/-! ### Parallels PVS -/

/-- **pvs_disks_exact**: for every element tree, `PVS.disks()` is the document-order list, over all proper
    descendants at any depth with tag `Hdd` that have a `SystemName` child, of the text of the *first* such child
    (`None` for an empty element); `CdRom` / `Fdd` elements and `SystemName`s elsewhere are not reported. -/
theorem pvs_disks_exact (root : Xml) :
    pvsDisks pvsCfg root = some (pvsSpecL "Hdd".toList "SystemName".toList root.children) :=
  pvsDisks_eq pvsCfg _ _ pvs_steps_spec.1 pvs_steps_spec.2 root

/-- **pvs_disks_mem_iff** -/
theorem pvs_disks_mem_iff (root : Xml) (l : Option Str) :
    (∃ r, pvsDisks pvsCfg root = some r ∧ l ∈ r) ↔
      ∃ e, Desc e root ∧ e.tag = "Hdd".toList ∧ ∃ s, find "SystemName".toList e = some s ∧ s.text = l := by
  rw [mem_pvsDisks pvsCfg _ _ pvs_steps_spec.1 pvs_steps_spec.2 root l]
  constructor
  · rintro ⟨e, hd, hs⟩
    unfold pvsSel at hs
    split at hs
    · rename_i ht
      cases hf : find "SystemName".toList e with
      | none => rw [hf] at hs; cases hs
      | some s => rw [hf] at hs; exact ⟨e, hd, ht, s, hf, by simpa using hs⟩
    · cases hs
  · rintro ⟨e, hd, ht, s, hf, hs⟩
    exact ⟨e, hd, by unfold pvsSel; rw [if_pos ht, hf, ← hs]; rfl⟩

private def leaf (tag text : String) : Xml := .node tag.toList [] [] (some text.toList) none

example : pvsDisks pvsCfg (.node "ParallelsVirtualMachine".toList [] [
    .node "Hardware".toList [] [
      .node "Hdd".toList [] [leaf "Index" "0", leaf "SystemName" "harddisk.hdd",
        .node "Partition".toList [] [leaf "SystemName" "/dev/sda1"] none none] none none,
      .node "CdRom".toList [] [leaf "SystemName" "install.iso"] none none,
      .node "Hdd".toList [] [leaf "Index" "1"] none none,
      .node "Hdd".toList [] [leaf "SystemName" "second.hdd"] none none] none none] none none)
    = some [some "harddisk.hdd".toList, some "second.hdd".toList] := by decide +kernel

end Hv.C18
