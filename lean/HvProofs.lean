import HvProofs.Basic
