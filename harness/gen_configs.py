"""gen_configs — independent writers for VM configuration files (C18) and hostile XML (C19).

An abstract VM (gen_vm) is rendered as VMware VMX, OVF 1.x, VirtualBox .vbox and Parallels config.pvs by
writers that know the formats only from their public descriptions; truth is what the writer decided to store.
Recipe = {"vm": vm, "fmt": "vmx"|"ovf"|"vbox"|"pvs", "rseed": int}; build(recipe) is deterministic.
A disk's "file" is an extension-less stem (the renderer appends .vmdk/.vdi/.hdd...), other kinds carry full names.
vm["exotic"] switches on constructs that are legitimate for the producing product but that the real parsers are
known/suspected to mishandle (kept out of the default stream, run separately by selftest):
  VMX  legacy RDM deviceTypes "scsi-passthru-rdm"/"scsi-nonpassthru-rdm" (hard disks per VMware), TAB after '='
  OVF  an empty disk (Disk without ovf:fileRef, OVF 1.1 §9.1), VirtualSystem inside a VirtualSystemCollection
"""
from __future__ import annotations

import io
import json
import random
import re
import sys

OVF_NS = "http://schemas.dmtf.org/ovf/envelope/1"
RASD_NS = "http://schemas.dmtf.org/wbem/wscim/1/cim-schema/2/CIM_ResourceAllocationSettingData"
VSSD_NS = "http://schemas.dmtf.org/wbem/wscim/1/cim-schema/2/CIM_VirtualSystemSettingData"
VBOX_NS = "http://www.virtualbox.org/"
DISK_KINDS = ("disk", "rdm-legacy")
STEMS = ["disk", "Windows 10 x64", "srv-000001", "data_1", "vm-flat", "My Disk (2)", "d\u00efsk-\u00fc", "a=b", "x#1",
         "R&D", "it's", "\u65e5\u672c\u8a9e", "scsi0", "ide", "Normal", "17", "cdrom-image"]
DIRS = ["", "", "", "", "sub/dir/", "/vmfs/volumes/5f1e-aa/vm/", "C:\\VMs\\x\\", "..\\other\\", "{snap}/"]
UNRELATED = [("config.version", "8"), ("virtualHW.version", "19"), ("displayName", "test vm"), ("guestOS", "windows9-64"),
             ("memsize", "4096"), ("numvcpus", "2"), ("nvram", "vm.nvram"), ("uuid.bios", "56 4d 2a 11 22 33 44 55-66 77 88 99 aa bb cc dd"),
             ("ethernet0.present", "TRUE"), ("ethernet0.virtualDev", "vmxnet3"), ("ethernet0.generatedAddress", "00:0c:29:aa:bb:cc"),
             ("ethernet1.fileName", "vmnet2"), ("pciBridge0.present", "TRUE"), ("pciBridge4.virtualDev", "pcieRootPort"),
             ("vmci0.present", "TRUE"), ("hpet0.present", "TRUE"), ("sched.cpu.min", "0"), ("sched.cpu.shares", "normal"),
             ("sched.mem.pshare.enable", "FALSE"), ("sched.scsi0:0.shares", "normal"), ("sched.scsi0:0.throughputCap", "off"),
             ("sched.swap.derivedName", "/vmfs/volumes/x/vm/vm-1.vswp"), ("tools.syncTime", "FALSE"), ("disk.EnableUUID", "TRUE"),
             ("isolation.tools.copy.disable", "FALSE"), ("svga.vramSize", "8388608"), ("usb.present", "TRUE"), ("usb_xhci.present", "TRUE"),
             ("sound.fileName", "-1"), ("sound.present", "TRUE"), ("serial0.fileName", "serial.log"), ("serial0.fileType", "file"),
             ("extendedConfigFile", "vm.vmxf"), ("checkpoint.vmState", ""), ("cleanShutdown", "TRUE"), ("annotation", "line1|0Aline2 # not a comment"),
             ("vmotion.checkpointFBSize", "4194304"), ("guestinfo.disk", "scsi0:0.fileName = x.vmdk"), ("cpuid.coresPerSocket", "1"),
             ("migrate.hostlog", "./vm-1a2b3c4d.hlog"), ("numa.autosize.cookie", "20001"), ("floppy0.present", "FALSE")]


def _uuid(rng):
    h = "%032x" % rng.getrandbits(128)
    return f"{h[:8]}-{h[8:12]}-{h[12:16]}-{h[16:20]}-{h[20:]}"


# --------------------------------------------------------------------------- abstract VM

def gen_vm(rng, tier="quick", exotic=False):
    """devices: {cls scsi|sata|ide|nvme|floppy, bus, unit, kind disk|rdm-legacy|cdrom-image|cdrom-raw|floppy, file}"""
    big = tier == "thorough" and rng.random() < 0.2
    nd = rng.randrange(20, 61) if big else rng.choice([0, 1, 1, 2, 2, 3, 4, 6, 8])
    used, devices, n = set(), [], 0
    for _ in range(nd):
        cls = rng.choice(["scsi", "scsi", "sata", "ide", "nvme"])
        real = rng.random() < 0.6
        bus = rng.randrange(2 if cls == "ide" and real else 4)
        unit = rng.randrange(2 if cls == "ide" and real else 31)
        if devices and rng.random() < 0.3:                   # same bus:unit on another class / same unit on another bus
            o = rng.choice(devices)
            bus, unit = (o["bus"], o["unit"]) if rng.random() < 0.6 else (bus, o["unit"])
        if (cls, bus, unit) in used:
            continue
        used.add((cls, bus, unit))
        kind = "disk" if cls == "nvme" else rng.choice(["disk"] * 5 + ["cdrom-image", "cdrom-image", "cdrom-raw"])
        if exotic and kind == "disk" and cls == "scsi" and rng.random() < 0.4:
            kind = "rdm-legacy"
        n += 1
        if kind in DISK_KINDS:
            f = rng.choice(DIRS) + rng.choice(STEMS) + (str(n) if rng.random() < 0.9 else "")
            r = rng.random()
            prev = [d["file"] for d in devices if d["kind"] in DISK_KINDS]
            f = "" if r < 0.03 else rng.choice(prev) if r < 0.06 and prev else f
        elif kind == "cdrom-image":
            f = rng.choice(DIRS) + rng.choice(["install", "VMware tools", "disk", "x.vmdk"]) + f"{n}.iso"
        else:
            f = rng.choice(["auto detect", "/dev/sr0", "E:", "", "CD/DVD drive 0"])
        devices.append({"cls": cls, "bus": bus, "unit": unit, "kind": kind, "file": f})
    for i in range(rng.choice([0, 0, 1, 2])):
        devices.append({"cls": "floppy", "bus": i, "unit": 0, "kind": "floppy", "file": rng.choice(["boot%d.flp" % i, "A:", "", "drivers.img", "floppy.vmdk"])})
    rng.shuffle(devices)
    ctrls = []
    for cls, bus in sorted({(d["cls"], d["bus"]) for d in devices if d["cls"] not in ("ide", "floppy")}):
        props = [["present", "TRUE"]]
        if cls == "scsi":
            props.append(["virtualDev", rng.choice(["lsilogic", "pvscsi", "lsisas1068", "buslogic"])])
            if rng.random() < 0.3:
                props.append(["sharedBus", "none"])
        if rng.random() < 0.5:
            props.append(["pciSlotNumber", str(rng.choice([16, 32, 160, 192, 224]))])
        ctrls.append({"cls": cls, "bus": bus, "props": props})
    unrelated = [list(kv) for kv in rng.sample(UNRELATED, rng.randrange(2, 16))]
    return {"name": "vm%d" % rng.randrange(1000), "devices": devices, "controllers": ctrls, "unrelated": unrelated, "exotic": bool(exotic)}


# spellings of an EMPTY value in a VMX file (what follows the '='): quotes and blanks around nothing
EMPTY_RAW = ['""', "", '" "', "  ", '"  "']


def hard_disks(vm):
    return [d for d in vm["devices"] if d["kind"] in DISK_KINDS and d["file"]]


# --------------------------------------------------------------------------- VMX

def _case(rng, k):
    m = rng.randrange(5)
    return k if m < 2 else k.lower() if m == 2 else k.upper() if m == 3 else "".join(rng.choice((c.lower(), c.upper())) for c in k)


def render_vmx(vm, rng):
    """-> (text, sorted disk list, {lower-cased key: value})"""
    final, decoy, raw = {}, {}, {}

    def put(k, v, old=None):
        if k.lower() not in final:
            final[k.lower()] = (k, v)
            if old is not None and rng.random() < 0.35:
                decoy[k.lower()] = old
    if rng.random() < 0.8:
        put(".encoding", rng.choice(["UTF-8", "windows-1252"]))
    for c in vm["controllers"]:
        for p, v in c["props"]:
            put(f"{c['cls']}{c['bus']}.{p}", v, "FALSE" if p == "present" else None)
    for d in vm["devices"]:
        if d["cls"] == "floppy":
            base = f"floppy{d['bus']}"
            put(base + ".fileName", d["file"], "old.flp")
            put(base + ".fileType", rng.choice(["file", "device"]))
            continue
        base = f"{d['cls']}{d['bus']}:{d['unit']}"
        disk = d["kind"] in DISK_KINDS
        fn = d["file"] + (".vmdk" if disk and d["file"] else "")
        if rng.random() < 0.8:
            put(base + ".present", "TRUE")
        put(base + ".fileName", fn, rng.choice(["OLD-" + fn, "", "other.iso"]))
        if not fn and d.get("file_raw") is not None and final[(base + ".fileName").lower()][0] == base + ".fileName":
            raw[(base + ".fileName").lower()] = d["file_raw"]           # an empty value has several spellings (see EMPTY_RAW)
        if d["kind"] == "disk":
            dt = rng.choice([None, None, "scsi-hardDisk", "scsi-hardDisk", "disk", "ata-hardDisk", "SCSI-HARDDISK", "scsi-harddisk", "rawDisk", "Disk"])
        elif d["kind"] == "rdm-legacy":
            dt = rng.choice(["scsi-passthru-rdm", "scsi-nonpassthru-rdm"])
        else:
            dt = rng.choice({"cdrom-image": ["cdrom-image", "cdrom-image", "CDROM-Image"], "cdrom-raw": ["cdrom-raw", "atapi-cdrom"]}[d["kind"]])
        if d["kind"] == "disk" and "dt_raw" in d:
            # directed: the key is present but its value is empty (spelled d["dt_raw"]), optionally cleared by this last assignment
            # after an earlier one (d["dt_old"]); a device without a type is an ordinary hard disk
            lk = (base + ".deviceType").lower()
            if lk not in final:
                final[lk] = (base + ".deviceType", "")
                raw[lk] = d["dt_raw"]
                if d.get("dt_old") is not None:
                    decoy[lk] = d["dt_old"]
            dt = None
        if dt is not None:
            put(base + ".deviceType", dt, "cdrom-image" if disk else "scsi-hardDisk")
        for p, v in rng.sample([("redo", ""), ("mode", "independent-persistent"), ("writeThrough", "TRUE"), ("startConnected", "FALSE"),
                                ("clientDevice", "FALSE"), ("autodetect", "TRUE"), ("ctkEnabled", "TRUE"), ("sharing", "multi-writer"),
                                ("hbr_filter.rdid", "RDID-1a2b"), ("hbr_filter.persistent", "hbr-persistent-state-RDID-1a2b.psf")], rng.randrange(3)):
            put(f"{base}.{p}", v)
    for k, v in vm["unrelated"]:
        put(k, v, "0" if rng.random() < 0.3 else None)
    rows = []
    for lk, (k, v) in final.items():
        pos = rng.random()
        rows.append((pos, k, v, raw.get(lk)))
        if lk in decoy:
            rows.append((rng.random() * pos, k, decoy[lk], None))
    rows.sort(key=lambda r: r[0])
    eol = rng.choice(["\n", "\n", "\n", "\r\n"])
    lines = ["#!/usr/bin/vmware"] if rng.random() < 0.6 else []
    for _, k, v, rw in rows:
        r = rng.random()
        if r < 0.08:
            lines.append(rng.choice(["", " ", "\t", "   "]))
        elif r < 0.16:
            lines.append(rng.choice(["", " ", "\t"]) + "#" + rng.choice([" generated", "", f' {k} = "commented-out.vmdk"', 'scsi0:0.fileName = "no.vmdk"', "#"]))
        bare = rng.random() < 0.15 and '"' not in v and v == v.strip()
        sp2 = rng.choice([" ", " ", "", "  "]) + ("\t" if vm.get("exotic") and rng.random() < 0.1 else "")
        lines.append(rng.choice(["", "", "", " ", "\t"]) + _case(rng, k) + rng.choice([" ", " ", "", "  ", "\t"]) + "=" + sp2
                     + (rw if rw is not None else v if bare else f'"{v}"') + rng.choice(["", "", "", " ", "\t", "  "]))
    text = eol.join(lines) + (eol if rng.random() < 0.8 else "")
    truth = sorted(d["file"] + ".vmdk" for d in hard_disks(vm))
    return text, truth, {lk: v for lk, (k, v) in final.items()}



# --------------------------------------------------------------------------- XML spellings of a logical string (C19 benign stream)
#
# XML has many spellings of one string: the writer knows the logical string (that is the truth) and picks a spelling per
# character: literal, predefined entity, decimal / hexadecimal character reference (leading zeros, either hex case), CDATA
# sections (text only; a "]]>" in the string is split over two sections), and -- invisible to the tree -- comments and
# processing instructions in the middle of character data. None of this needs (or is) an entity declaration.

ENC_STYLES = ("dec", "hex", "amp_numeric", "predef", "cdata", "mixed")
PREDEF = {"&": "&amp;", "<": "&lt;", ">": "&gt;", '"': "&quot;", "'": "&apos;"}
ENC_COMMENTS = ["<!-- R&D <b> -->", "<!--<!DOCTYPE x [<!ENTITY a 'b'>]>-->", "<!-- &lol; &#x26; &amp -->", "<!-- <![CDATA[ & ]]> -->",
                "<!-- <Hdd><SystemName>c&c</SystemName></Hdd> -->", "<!---->"]
ENC_PIS = ["<?app R&D <!DOCTYPE x>?>", "<?xml-stylesheet href='a&b.xsl'?>", "<?php echo '<a>' & 1; ?>", "<?e <!ENTITY x SYSTEM 'file:///etc/passwd'> &x; ?>", "<?p?>"]
SPICY = ["R&D", "R&D <2024>", "a]]>b", "x]]", "]]>", "caf\u00e9", "\u00dcn\u00ef", "\u65e5\u672c\u8a9e\u30c7\u30a3\u30b9\u30af", "\U0001F4BEvm", "Windows 11",
         "a&amp;b", "&#233;t&#xE9;", "&lt;tag&gt;", "it's \"q\"", "tab\there", "line\nbreak", "cr\rhere", "100% &", "&", "<", "<!-- c -->",
         "<![CDATA[x]]>", "<?pi?>", "&lol;", "<!DOCTYPE x>", "a\u00a0b", "e\u0301", "A&B&C", "&&", "&#38;", "a;b&c;d", "x&y;z"]


class Enc:
    def __init__(self, style, seed, ascii_only=False):
        self.style, self.g, self.ascii_only = style, random.Random(seed), ascii_only
        self.used = set()

    def _ref(self, c, how):
        g = self.g
        z = "0" * g.choice([0, 0, 0, 1, 3])
        if how == "dec":
            return f"&#{z}{ord(c)};"
        h = "%x" % ord(c)
        h = h.upper() if g.random() < 0.5 else h
        return f"&#x{z}{h};"

    def _lit_ok(self, s, i, ctx):
        c = s[i]
        if c in "&<":
            return False
        if self.ascii_only and ord(c) > 126:
            return False
        if ctx == "text":
            return not (c == "\r" or (c == ">" and s[max(0, i - 2):i] == "]]"))
        return c != ctx and c not in "\t\n\r"

    def _char(self, s, i, ctx):
        c, g, st = s[i], self.g, self.style
        special = c in PREDEF or ord(c) > 126 or c in "\t\n\r"
        opts = []
        if self._lit_ok(s, i, ctx):
            opts.append("lit")
        if st == "dec":
            pick = "dec" if special or g.random() < 0.15 else "lit"
        elif st == "hex":
            pick = "hex" if special or g.random() < 0.15 else "lit"
        elif st == "amp_numeric":
            pick = g.choice(["dec", "hex"]) if c in "&<" else g.choice(["lit", "lit", "predef"]) if c in PREDEF else "lit"
        elif st == "predef":
            pick = "predef" if c in PREDEF else "lit"
        elif st == "cdata":
            pick = "predef" if c in PREDEF else "lit"
        else:
            pick = g.choice(["lit", "lit", "lit", "dec", "hex", "predef"]) if not special else g.choice(["lit", "dec", "hex", "predef", "predef"])
        if pick == "predef" and c not in PREDEF:
            pick = "lit"
        if pick == "lit" and "lit" not in opts:
            pick = "predef" if c in PREDEF and st not in ("dec", "hex") else ("hex" if st == "hex" else "dec")
        self.used.add(pick)
        return c if pick == "lit" else PREDEF[c] if pick == "predef" else self._ref(c, pick)

    def _cdata(self, run):
        """run (no \\r, nothing non-ASCII when ascii_only) as one or more CDATA sections"""
        self.used.add("cdata")
        parts = run.split("]]>")
        out = parts[0]
        for p in parts[1:]:
            out += "]]" + "]]><![CDATA[" + ">" + p
        return "<![CDATA[" + out + "]]>"

    def value(self, s, ctx):
        """a spelling of the logical string s; ctx = "text" or the attribute's quote character"""
        g = self.g
        if s == "":
            return "<![CDATA[]]>" if ctx == "text" and self.style in ("cdata", "mixed") and g.random() < 0.3 else ""
        if ctx == "text" and self.style in ("cdata", "mixed"):
            # cut the string into 1..4 pieces; a piece becomes a CDATA section when it can
            n = len(s)
            cuts = sorted({0, n} | {g.randrange(n + 1) for _ in range(g.choice([0, 1, 2, 3]))})
            out = []
            for a, b in zip(cuts, cuts[1:]):
                piece = s[a:b]
                can = "\r" not in piece and not (self.ascii_only and any(ord(c) > 126 for c in piece))
                if can and (self.style == "cdata" or g.random() < 0.5):
                    out.append(self._cdata(piece))
                else:
                    out.append("".join(self._char(s, i, ctx) for i in range(a, b)))
                if b < n and g.random() < 0.35:
                    self.used.add("midtext")
                    out.append(g.choice(ENC_COMMENTS + ENC_PIS))
            return "".join(out)
        return "".join(self._char(s, i, ctx) for i in range(len(s)))

    def between(self):
        """markup the tree builder drops, for the space between two child elements"""
        return self.g.choice(ENC_COMMENTS + ENC_PIS) if self.g.random() < 0.12 else ""


def spice_vm(vm, g):
    """-> a copy of the VM whose media names carry the characters XML has to spell: & < > quotes ]]> non-ASCII white space and
    text that looks like markup / references (the *logical* name contains it literally)"""
    vm = dict(vm, devices=[dict(d) for d in vm["devices"]])
    n = 0
    for d in vm["devices"]:
        n += 1
        if d["file"] and d["kind"] in DISK_KINDS + ("cdrom-image",) and g.random() < 0.8:
            d["file"] = g.choice(SPICY) + (f"-{n}" if g.random() < 0.8 else "") + (".iso" if d["kind"] == "cdrom-image" else "")
    if not hard_disks(vm):
        vm["devices"].append({"cls": "scsi", "bus": 3, "unit": 30, "kind": "disk", "file": g.choice(SPICY) + "-0"})
        if not any(c["cls"] == "scsi" and c["bus"] == 3 for c in vm["controllers"]):
            vm["controllers"] = vm["controllers"] + [{"cls": "scsi", "bus": 3, "props": [["present", "TRUE"]]}]
    return vm


# --------------------------------------------------------------------------- XML serializer

def el(tag, attrs=(), kids=(), ns=None, decl=()):
    """attrs: [(ns|None, name, value)]; kids: el | str (escaped text) | ("raw", markup); decl: [(prefix, uri)]"""
    return {"t": tag, "ns": ns, "a": list(attrs), "k": list(kids), "d": list(decl)}


def _esc(s, q=None):
    s = s.replace("&", "&amp;").replace("<", "&lt;")
    return s.replace(q, "&quot;" if q == '"' else "&apos;") if q else s.replace(">", "&gt;")


def _ser(e, rng, scope, depth, ind, out, enc=None):
    """enc (an Enc, own random stream): every text node and attribute value is written in one of its XML spellings"""
    scope = dict(scope)
    attrs = []
    for p, u in e["d"]:
        scope[u] = scope.get(u, ()) + (p,)
        attrs.append(("xmlns:" + p if p else "xmlns", u))

    def qn(ns, name, attr=False):
        if ns is None:
            return name
        p = rng.choice([p for p in scope[ns] if p or not attr])
        return f"{p}:{name}" if p else name
    tag = qn(e["ns"], e["t"])
    nd = len(attrs)
    attrs += [(qn(ns, n, True), v) for ns, n, v in e["a"]]
    plain = {id(x) for x in attrs[:nd]}                      # namespace declarations keep their plain spelling
    rng.shuffle(attrs)
    a = ""
    for x in attrs:
        n, v = x
        q = rng.choice('""\'')
        a += rng.choice([" ", " ", "  ", "\n" + ind * (depth + 2) if ind else " "]) + f"{n}={q}{_esc(v, q) if enc is None or id(x) in plain else enc.value(v, q)}{q}"
    if not e["k"]:
        out.append(f"<{tag}{a}/>" if rng.random() < 0.7 else f"<{tag}{a}></{tag}>")
        return tag
    only_el = all(isinstance(k, dict) for k in e["k"])
    nl = "\n" + ind * (depth + 1) if only_el and ind else ""
    out.append(f"<{tag}{a}>")
    for k in e["k"]:
        out.append(nl)
        if only_el and rng.random() < 0.04:
            out.append("<!-- " + rng.choice(["generated", "<HardDisk location='c.vdi' type='Normal' format='VDI'/>", "<Hdd><SystemName>c</SystemName></Hdd>"]) + " -->" + nl)
        if enc is not None and only_el:
            out.append(enc.between())
        if isinstance(k, dict):
            _ser(k, rng, scope, depth + 1, ind, out, enc)
        else:
            out.append((_esc(k) if enc is None else enc.value(k, "text")) if isinstance(k, str) else k[1])
    out.append(("\n" + ind * depth if nl else "") + f"</{tag}>")
    return tag


def _doc(tree, rng, doctype=None, enc=None):
    out = []
    root = _ser(tree, rng, {}, 0, rng.choice(["", "  ", "    ", "\t"]), out, enc)
    head = rng.choice(['<?xml version="1.0" encoding="UTF-8"?>\n', "<?xml version='1.0' encoding='utf-8'?>\n", '<?xml version="1.0"?>\n',
                       '<?xml version="1.0" encoding="UTF-8" standalone="no"?>\n', ""])
    return head + (doctype.replace("%ROOT%", root) + "\n" if doctype else "") + "".join(out) + rng.choice(["\n", ""])


def _t(tag, text, ns=None):
    return el(tag, kids=[text] if text != "" else [], ns=ns)


def _slot(tag, slot, ns=None):
    return [el(tag, kids=[("raw", slot)], ns=ns)] if slot is not None else []


# --------------------------------------------------------------------------- OVF

def render_ovf(vm, rng, slot=None, doctype=None, enc=None):
    """-> (xml, disk hrefs in document order of the disk-drive Items)"""
    O, R = OVF_NS, RASD_NS
    po, pr = rng.choice(["ovf", "ovf", "ovf", "o", "env", "ns0"]), rng.choice(["rasd", "rasd", "r", "ns1", "RASD"])
    decl = [(po, O)] + ([("", O)] if rng.random() < 0.7 else []) + ([(po + "2", O)] if rng.random() < 0.15 else []) + [("vssd", VSSD_NS)]
    rasd_at = rng.choice(["root", "root", "vhs", "item"])
    if rasd_at == "root":
        decl.append((pr, R))
    rng.shuffle(decl)
    exo = rng.choice(["emptydisk", "collection"]) if vm.get("exotic") else None
    scheme = rng.choice(["plain", "plain", "uuid", "same", "crossed"])
    media = [dict(d) for d in vm["devices"] if d["file"] and d["kind"] != "cdrom-raw" and (d["kind"] != "floppy" or "." in d["file"])]
    media += [{"kind": "disk", "file": f"unattached{i}", "spare": True} for i in range(rng.choice([0, 0, 1, 2]))]
    rng.shuffle(media)
    for i, m in enumerate(media):
        m["href"] = m["file"] + (".vmdk" if m["kind"] in DISK_KINDS else "")
        m["fid"] = _uuid(rng) if scheme == "uuid" else f"x{i + 1}" if scheme == "crossed" else f"file{i + 1}"
        m["via"] = rng.choice(["disk", "disk", "disk", "file"]) if m["kind"] in DISK_KINDS else "file"
        m["did"] = None
    withdisk = [m for m in media if m["kind"] in DISK_KINDS and (m["via"] == "disk" or rng.random() < 0.5)]
    dids = [m["fid"] for m in withdisk]
    if scheme == "crossed":
        dids = dids[1:] + dids[:1]
    for i, (m, fid) in enumerate(zip(withdisk, dids)):
        m["did"] = fid if scheme in ("same", "crossed") else _uuid(rng) if scheme == "uuid" else f"vmdisk{i + 1}"
    files = [el("File", [(O, "href", m["href"]), (O, "id", m["fid"]), (O, "size", str(rng.randrange(1 << 30)))], ns=O) for m in media]
    if rng.random() < 0.2:
        files.insert(rng.randrange(len(files) + 1), el("File", [(O, "href", "extra.mf"), (O, "id", "manifest")], ns=O))
    disks = [el("Disk", [(O, "capacity", str(rng.choice([1, 40, 2048]))), (O, "diskId", m["did"]), (O, "fileRef", m["fid"]),
                         (O, "format", "http://www.vmware.com/interfaces/specifications/vmdk.html#streamOptimized")]
                + ([(O, "capacityAllocationUnits", "byte * 2^30")] if rng.random() < 0.5 else []), ns=O) for m in withdisk]
    if exo == "emptydisk":
        disks.append(el("Disk", [(O, "capacity", "8"), (O, "diskId", "emptydisk1"), (O, "capacityAllocationUnits", "byte * 2^30")], ns=O))
    rng.shuffle(disks)
    items, truth, iid, ctl = [], [], 2, {}

    def item(rt, name, **kw):
        nonlocal iid
        iid += 1
        ch = [("ResourceType", str(rt)), ("ElementName", name), ("InstanceID", str(iid))] + [(k, v) for k, v in kw.items() if v is not None]
        ch = sorted(ch) if rng.random() < 0.7 else rng.sample(ch, len(ch))
        return {"id": iid, "el": el("Item", [(O, "required", "false")] if rng.random() < 0.1 else [], [_t(k, v, R) for k, v in ch], ns=O,
                                    decl=[(pr, R)] if rasd_at == "item" else [])}
    items.append(item(3, "2 virtual CPU(s)", VirtualQuantity="2", AllocationUnits="hertz * 10^6"))
    items.append(item(4, "4096MB of memory", VirtualQuantity="4096", AllocationUnits="byte * 2^20"))
    for cls, bus in sorted({(d["cls"], d["bus"]) for d in vm["devices"]}):
        it = item({"scsi": 6, "ide": 5, "floppy": 1}.get(cls, 20), f"{cls.upper()} Controller {bus}", Address=str(bus),
                  ResourceSubType={"scsi": "lsilogic", "sata": "vmware.sata.ahci", "nvme": "vmware.nvme.controller"}.get(cls))
        ctl[(cls, bus)] = it["id"]
        items.append(it)
    devs = []
    for m in media:
        if m.get("spare"):
            continue
        k = m["kind"]
        hr = rng.choice(["ovf:", "ovf:", ""]) + (f"/disk/{m['did']}" if m["via"] == "disk" else f"/file/{m['fid']}")
        rt = 17 if k in DISK_KINDS else 14 if k == "floppy" else rng.choice([15, 15, 16])
        name = rng.choice(["Hard Disk 1", "17", "disk"]) if rt == 17 else rng.choice(["CD/DVD drive 1", "17", "Floppy"])
        devs.append((item(rt, name, HostResource=hr, Parent=str(ctl[(m["cls"], m["bus"])]), AddressOnParent=str(m["unit"]),
                          Description="17" if rng.random() < 0.1 else None), m["href"] if rt == 17 else None))
    for d in vm["devices"]:
        if d["kind"] == "cdrom-raw":
            devs.append((item(15, "CD/DVD drive", Parent=str(ctl[(d["cls"], d["bus"])]), AddressOnParent=str(d["unit"]),
                              AutomaticAllocation="false", ResourceSubType="vmware.cdrom.remotepassthrough"), None))
    if exo == "emptydisk":
        devs.append((item(17, "Empty disk", HostResource="ovf:/disk/emptydisk1", AddressOnParent="17"), None))
    devs.append((item(10, "Ethernet adapter on 17", Connection="VM Network", ResourceSubType="VmxNet3", AddressOnParent="17"), None))
    if rng.random() < 0.5:
        devs.append((item(24, "Video card", AutomaticAllocation="false"), None))
    pairs = [(i, None) for i in items] + devs
    if rng.random() < 0.5:
        rng.shuffle(pairs)
    truth = [h for _, h in pairs if h is not None]
    info = lambda s: el("Info", kids=[s], ns=O)
    system = el("System", kids=[_t("ElementName", "Virtual Hardware Family", VSSD_NS), _t("InstanceID", "0", VSSD_NS),
                                _t("VirtualSystemType", rng.choice(["vmx-19", "virtualbox-2.2", "17"]), VSSD_NS)], ns=O)
    vhs = el("VirtualHardwareSection", kids=[info("Virtual hardware requirements"), system] + [p[0]["el"] for p in pairs], ns=O,
             decl=[(pr, R)] if rasd_at == "vhs" else [])
    vs_kids = [info("A virtual machine"), _t("Name", vm["name"], O), el("OperatingSystemSection", [(O, "id", "17")], [info("The kind of OS")], ns=O), vhs]
    if rng.random() < 0.3:
        vs_kids.append(el("AnnotationSection", kids=[info("note"), _t("Annotation", "ovf:/disk/vmdisk1 <17> & more", O)], ns=O))
    vs = el("VirtualSystem", [(O, "id", vm["name"])], vs_kids, ns=O)
    if exo == "collection":
        vs = el("VirtualSystemCollection", [(O, "id", "coll")], [info("A collection"), vs], ns=O)
    top = [el("References", kids=files, ns=O), el("DiskSection", kids=[info("Virtual disk information")] + _slot("Description", slot, O) + disks, ns=O)]
    if rng.random() < 0.6:
        top.append(el("NetworkSection", kids=[info("The list of logical networks"), el("Network", [(O, "name", "VM Network")], [_t("Description", "17", O)], ns=O)], ns=O))
    top.append(vs)
    return _doc(el("Envelope", kids=top, ns=O, decl=decl), rng, doctype, enc), truth


# --------------------------------------------------------------------------- VirtualBox

def render_vbox(vm, rng, slot=None, doctype=None, reading="vdi", enc=None):
    """-> (xml, locations in document order). reading "vdi" = registered HardDisk elements of type Normal and format
    VDI (any case) — what the parser documents; "attached" = base image of every attached hard disk of any format/type."""
    N = VBOX_NS
    regs, dvds, flops, att, truth = [], [], [], [], {"vdi": [], "attached": []}
    hds = [dict(d) for d in hard_disks(vm)] + [{"file": f"registered-only{i}", "spare": True, "cls": "sata", "bus": 0, "unit": 0} for i in range(rng.choice([0, 0, 1, 2]))]
    rng.shuffle(hds)
    for d in hds:
        fmt = rng.choice(["VDI"] * 6 + ["vdi", "Vdi", "VMDK", "VHD", "vmdk", "Parallels", "QCOW", "RAW"])
        typ = rng.choice(["Normal"] * 7 + ["Immutable", "Writethrough", "Shareable", "Readonly", "MultiAttach"])
        ext = {"vdi": ".vdi", "vmdk": ".vmdk", "vhd": ".vhd", "parallels": ".hdd", "qcow": ".qcow2", "raw": ".img"}[fmt.lower()]
        loc, uid = d["file"] + ext, "{" + _uuid(rng) + "}"
        e = el("HardDisk", [(None, "uuid", uid), (None, "location", loc), (None, "format", fmt), (None, "type", typ)], ns=N)
        if typ == "Immutable" and rng.random() < 0.5:
            e["a"].append((None, "autoReset", "true"))
        if rng.random() < 0.1:
            e["k"].append(el("Property", [(None, "name", "CRYPT/KeyId"), (None, "value", "Normal")], ns=N))
        leaf, cur = uid, e
        for _ in range(rng.choice([0, 0, 0, 1, 2, 3])):      # differencing children carry no type attribute
            for _ in range(rng.choice([1, 1, 2])):
                leaf = "{" + _uuid(rng) + "}"
                ch = el("HardDisk", [(None, "uuid", leaf), (None, "location", f"Snapshots/{leaf}{ext}"), (None, "format", fmt)], ns=N)
                cur["k"].append(ch)
            cur = ch
        regs.append(e)
        if typ == "Normal" and fmt.lower() == "vdi":
            truth["vdi"].append(loc)
        if not d.get("spare"):
            truth["attached"].append(loc)
            att.append((d, "HardDisk", leaf))
    for d in vm["devices"]:
        if d["kind"] in ("cdrom-image", "floppy") and d["file"]:
            uid = "{" + _uuid(rng) + "}"
            (dvds if d["kind"] == "cdrom-image" else flops).append(el("Image", [(None, "uuid", uid), (None, "location", d["file"])], ns=N))
            att.append((d, "DVD" if d["kind"] == "cdrom-image" else "Floppy", uid))
        elif d["kind"] == "cdrom-raw":
            att.append((d, "DVD", None))
    reg = el("MediaRegistry", kids=[el("HardDisks", kids=regs, ns=N)] + ([el("DVDImages", kids=dvds, ns=N)] if dvds or rng.random() < 0.5 else [])
             + ([el("FloppyImages", kids=flops, ns=N)] if flops or rng.random() < 0.5 else []), ns=N)
    ctrls = {}
    for d, typ, uid in att:
        name = {"scsi": "SCSI", "sata": "SATA", "ide": "IDE", "nvme": "NVMe", "floppy": "Floppy"}[d["cls"]] + (str(d["bus"]) if d["bus"] else "")
        c = ctrls.setdefault(name, el("StorageController", [(None, "name", name), (None, "type", {"scsi": "LsiLogic", "sata": "AHCI", "ide": "PIIX4", "nvme": "NVMe", "floppy": "I82078"}[d["cls"]]),
                                                            (None, "PortCount", "30"), (None, "useHostIOCache", "false"), (None, "Bootable", "true")], ns=N))
        c["k"].append(el("AttachedDevice", [(None, "type", typ), (None, "port", str(d["unit"])), (None, "device", "0")]
                         + ([(None, "passthrough", "false")] if typ == "DVD" else [(None, "hotpluggable", "false")] if rng.random() < 0.5 else []),
                         [el("Image", [(None, "uuid", uid)], ns=N)] if uid else [], ns=N))
    sc = el("StorageControllers", kids=list(ctrls.values()), ns=N)
    hw = el("Hardware", kids=[el("CPU", [(None, "count", "2")], ns=N), el("Memory", [(None, "RAMSize", "4096")], ns=N),
                              el("BIOS", kids=[el("IOAPIC", [(None, "enabled", "true")], ns=N)], ns=N)], ns=N)
    desc = _slot("Description", slot, N)
    style = rng.choice(["machine", "machine", "machine-hw", "global"])
    if style == "global":                                     # pre-4.0 VirtualBox.xml: registry under Global
        body = [el("Global", kids=desc + [el("ExtraData", kids=[el("ExtraDataItem", [(None, "name", "GUI/LastVMSelected"), (None, "value", "Normal")], ns=N)], ns=N), reg], ns=N)]
    else:
        if style == "machine-hw":
            hw["k"].append(sc)
        mk = desc + [reg, el("ExtraData", ns=N), hw] + ([sc] if style == "machine" else [])
        body = [el("Machine", [(None, "uuid", "{" + _uuid(rng) + "}"), (None, "name", vm["name"]), (None, "OSType", "Windows10_64"),
                               (None, "snapshotFolder", "Snapshots"), (None, "lastStateChange", "2024-01-01T00:00:00Z")], mk, ns=N)]
    p = rng.choice(["", "", "", "vb", "ns0"])
    root = el("VirtualBox", [(None, "version", rng.choice(["1.16-windows", "1.19-linux", "1.12-macosx"]))], body, ns=N,
              decl=[(p, N)] + ([("v2", N)] if p == "" and rng.random() < 0.2 else []))
    return _doc(root, rng, doctype, enc), truth[reading]


# --------------------------------------------------------------------------- Parallels config.pvs / DiskDescriptor.xml

def render_pvs(vm, rng, slot=None, doctype=None, enc=None):
    """-> (xml, SystemName of every Hdd in document order)"""
    hw, truth = [], []
    for d in vm["devices"]:
        tag = "Hdd" if d["kind"] in DISK_KINDS else "Fdd" if d["kind"] == "floppy" else "CdRom"
        if tag == "Hdd" and not d["file"]:
            continue
        name = d["file"] + (".hdd" if tag == "Hdd" else "")
        kids = [_t("Index", str(d["unit"])), _t("Enabled", rng.choice("1110")), _t("Connected", rng.choice("10")), _t("EmulatedType", rng.choice("013")),
                _t("SystemName", name), _t("UserFriendlyName", rng.choice([name, "harddisk.hdd", "Hdd"])), _t("Remote", "0"),
                _t("InterfaceType", str({"ide": 0, "scsi": 1, "sata": 2, "nvme": 5, "floppy": 0}[d["cls"]])), _t("StackIndex", str(d["bus"]))]
        if tag == "Hdd":
            kids += [_t("Uuid", "{" + _uuid(rng) + "}"), _t("DiskType", "1"), _t("Size", "65536"), _t("SizeOnDisk", "17"), _t("Splitted", "0"),
                     el("Partition", kids=[_t("SystemName", "/dev/sda1"), _t("PartitionName", "p1")])] [:rng.choice([3, 4, 5, 5, 6])]
        if rng.random() < 0.3:
            rng.shuffle(kids)
        hw.append(el(tag, [(None, "dyn_lists", "Partition 0" if tag == "Hdd" else ""), (None, "id", str(len(hw)))], kids))
        if tag == "Hdd":
            hw[-1]["_name"] = name
    hw += [el("Cpu", kids=[_t("Number", "2"), _t("Mode", "1")]), el("Memory", kids=[_t("RAM", "4096")]), el("Video", kids=[_t("Enabled", "1"), _t("VideoMemorySize", "32")]),
           el("NetworkAdapter", [(None, "id", "0")], [_t("Index", "0"), _t("SystemName", "eth0"), _t("MAC", "001C42AABBCC")]),
           el("Sound", kids=[_t("Enabled", "1"), _t("SystemName", "Hdd")])][:rng.randrange(2, 6)]
    if rng.random() < 0.7:
        rng.shuffle(hw)
    truth = [h["_name"] for h in hw if "_name" in h]
    ident = el("Identification", kids=[_t("VmUuid", "{" + _uuid(rng) + "}"), _t("VmName", vm["name"]), _t("VmHome", "/vms/x.pvm/config.pvs")] + _slot("VmDescription", slot))
    settings = el("Settings", kids=[el("Startup", kids=[_t("AutoStart", "0"), el("BootingOrder", kids=[el("BootDevice", kids=[_t("Index", "0"), _t("Type", "6"), _t("BootingNumber", "1")])])])])
    kids = [_t("AppVersion", "17.1.1-51537"), ident, settings, el("Hardware", kids=hw)]
    return _doc(el("ParallelsVirtualMachine", [(None, "dyn_lists", "VirtualAppliance 0"), (None, "schemaVersion", "1.0")], kids), rng, doctype, enc), truth


def render_hdd_descriptor(rng, slot=None, doctype=None, enc=None, stems=None):
    """DiskDescriptor.xml (docs/interop/prl-xml.txt) -> (xml, {"storages": [[start, end, [[guid, type, file]..]]..], "top": guid|None, "shots": [[guid, parent]..]})"""
    null = "00000000-0000-0000-0000-000000000000"
    shots, parent = [], null
    for i in range(rng.choice([1, 1, 2, 3])):
        g = "5fbaabe3-6958-40ff-92a7-860e329aab41" if i == 0 and rng.random() < 0.7 else _uuid(rng)
        shots.append([g, parent])
        parent = g
    storages, start = [], 0
    for s in range(rng.choice([1, 1, 2, 3])):
        end = start + rng.choice([2048, 204800, 1 << 22])
        storages.append([start, end, [[g, rng.choice(["Compressed", "Compressed", "Plain"]), f"{stems[s % len(stems)] if stems else 'disk'}.hdd.{s}.{{{g}}}.hds"] for g, _ in shots]])
        start = end
    br = lambda g: "{" + g + "}"
    top = rng.choice([None, shots[-1][0]])
    sd = el("StorageData", kids=[el("Storage", kids=[_t("Start", str(a)), _t("End", str(b)), _t("Blocksize", "2048")]
                                                     + [el("Image", kids=[_t("GUID", br(g)), _t("Type", t), _t("File", f)]) for g, t, f in ims]) for a, b, ims in storages])
    sn = el("Snapshots", kids=([_t("TopGUID", br(top))] if top else []) + [el("Shot", kids=[_t("GUID", br(g)), _t("ParentGUID", br(p))]) for g, p in shots])
    dp = el("Disk_Parameters", kids=[_t("Disk_size", str(start)), _t("Cylinders", "400"), _t("Heads", "16"), _t("Sectors", "32"), _t("Padding", "0"),
                                     el("Encryption", kids=[_t("Engine", br(null)), _t("Data", "")]), _t("UID", br(_uuid(rng)))] + _slot("Name", slot)
            + [el("Miscellaneous", kids=[_t("CompatLevel", "level2"), _t("Bootable", "1")])])
    tree = el("Parallels_disk_image", [(None, "Version", "1.0")], [dp, sd, sn])
    return _doc(tree, rng, doctype, enc), {"storages": storages, "top": top, "shots": shots}


RENDER = {"vmx": render_vmx, "ovf": render_ovf, "vbox": render_vbox, "pvs": render_pvs}


def build(recipe):
    """recipe {"vm", "fmt", "rseed"} -> (text, truth) (VMX truth = sorted list; the dict is render_vmx(...)[2])"""
    r = RENDER[recipe["fmt"]](recipe["vm"], random.Random(recipe["rseed"]))
    return r[0], r[1]


# --------------------------------------------------------------------------- hostile XML (C19)

ENTRIES = ("ovf", "vbox", "pvs", "hdd_descriptor")


def _body(entry, seed, slot, doctype, enc_style=None):
    """enc_style (one of ENC_STYLES): media names with characters XML has to spell, every text node / attribute value written
    in that spelling style (see Enc); the truth stays the logical strings"""
    rng = random.Random(seed)
    enc = Enc(enc_style, f"enc/{seed}", ascii_only=(entry == "hdd_descriptor")) if enc_style else None
    if entry == "hdd_descriptor":
        stems = [enc.g.choice(SPICY) for _ in range(3)] if enc else None
        return render_hdd_descriptor(rng, slot, doctype, enc=enc, stems=stems)
    vm = gen_vm(rng)
    if enc:
        vm = spice_vm(vm, enc.g)
    return {"ovf": render_ovf, "vbox": render_vbox, "pvs": render_pvs}[entry](vm, rng, slot, doctype, enc=enc)


def spelled_cases(rng, per=3):
    """benign documents (no DOCTYPE at all) for every entry point x every spelling style: all must parse to the logical strings"""
    out = []
    for entry in ENTRIES:
        for style in ENC_STYLES:
            for _ in range(per):
                seed = rng.getrandbits(32)
                slot = rng.choice(["plain text", "&#x4C;&#79;L &lt;&gt;&amp;&quot;&apos;", "<![CDATA[ <!DOCTYPE x [<!ENTITY a 'b'>]> &a; ]]>", "a<!-- & -->b<?p &?>c"])
                xml, truth = _body(entry, seed, slot, None, enc_style=style)
                out.append({"name": f"{entry}/spelled_{style}/parse", "entry": entry, "kind": "spelled_" + style, "expect": "parse", "xml": xml,
                            "truth": truth, "seed": seed, "slot": slot})
    return out


def dtd_kinds(rng):
    """-> [(kind, internal-or-external DOCTYPE template, slot markup, expect)]"""
    D = lambda inner: "<!DOCTYPE %ROOT% [\n" + inner + "\n]>"
    ks = []
    for d in range(1, 9):
        ents = ['<!ENTITY lol0 "lol">'] + [f'<!ENTITY lol{i} "{("&lol%d;" % (i - 1)) * 10}">' for i in range(1, d + 1)]
        ks.append((f"billion_laughs_{d}", D("\n".join(ents)), f"&lol{d};", "refuse"))
    ks.append(("quadratic", D('<!ENTITY a "%s">' % ("a" * rng.choice([20000, 50000]))), "&a;" * rng.choice([500, 2000]), "refuse"))
    for nm, uri in (("file", "file:///etc/passwd"), ("http", "http://127.0.0.1:9/x")):
        ks.append((f"ext_general_{nm}", D(f'<!ENTITY xxe SYSTEM "{uri}">'), "&xxe;", "refuse"))
        ks.append((f"ext_param_{nm}", D(f'<!ENTITY % ext SYSTEM "{uri}">\n%ext;'), "x", "refuse"))
        ks.append((f"ext_subset_{nm}", f'<!DOCTYPE %ROOT% SYSTEM "{uri}">', "x", "parse"))
        ks.append((f"ext_subset_and_entity_{nm}", f'<!DOCTYPE %ROOT% SYSTEM "{uri}" [\n<!ENTITY e "v">\n]>', "&e;", "refuse"))
    ks += [("ext_general_public", D('<!ENTITY xxe PUBLIC "-//X//Y//EN" "http://127.0.0.1:9/x">'), "&xxe;", "refuse"),
           ("param_internal", D('<!ENTITY % p "<!ELEMENT zz ANY>">\n%p;'), "x", "refuse"),
           ("unparsed_ndata", D('<!NOTATION gif SYSTEM "viewer">\n<!ENTITY pic SYSTEM "http://127.0.0.1:9/p.gif" NDATA gif>'), "x", "refuse"),
           ("declared_unused", D('<!ENTITY unused "never referenced">'), "x", "refuse"),
           ("declared_unused_external", D('<!ENTITY unused SYSTEM "file:///etc/passwd">'), "x", "refuse"),
           ("ext_subset_public", '<!DOCTYPE %ROOT% PUBLIC "-//X//DTD Y//EN" "http://127.0.0.1:9/y.dtd">', "x", "parse"),
           ("internal_element_attlist", D("<!ELEMENT %ROOT% ANY>\n<!ATTLIST %ROOT% zzExtra CDATA #IMPLIED>\n<!ELEMENT zz (#PCDATA)>"), "x", "parse"),
           ("internal_attlist_default", D('<!ATTLIST zz a CDATA "dflt">\n<!NOTATION n SYSTEM "viewer">'), "x", "parse"),
           ("internal_comment_pi", D("<!-- only a comment --> <?pi data?>"), "x", "parse"),
           ("empty_doctype", "<!DOCTYPE %ROOT%>", "x", "parse"),
           ("benign", None, "plain text", "parse"),
           ("benign_charrefs", None, "&#x4C;&#79;L &lt;&gt;&amp;&quot;&apos;", "parse")]
    return ks


def hostile_cases(rng, benign=False):
    """every entry point x every kind: {name, entry, kind, expect "refuse"|"parse", xml, truth (summary when parsed)}.
    benign=True gives the same documents without DOCTYPE (entity references replaced by text): all must parse."""
    out = []
    for entry in ENTRIES:
        for kind, doctype, slot, expect in dtd_kinds(rng):
            seed = rng.getrandbits(32)
            if benign:
                if doctype is None:
                    continue
                doctype, slot, expect, kind = None, re.sub(r"&\w+;", "x", slot)[:64], "parse", "stripped_" + kind
            xml, truth = _body(entry, seed, slot, doctype)
            out.append({"name": f"{entry}/{kind}/{expect}", "entry": entry, "kind": kind, "expect": expect, "xml": xml, "truth": truth, "seed": seed})
    return out


def hostile_docs(rng):
    return [(c["name"], c["xml"]) for c in hostile_cases(rng)]


def benign_docs(rng):
    return [(c["name"], c["xml"]) for c in hostile_cases(rng, benign=True)]


# --------------------------------------------------------------------------- the real code

def _err(e):
    return ("err", type(e).__name__, str(e)[:200])


def impl_vmx_disks(text):
    try:
        from dissect.hypervisor.descriptor.vmx import VMX
        return ("ok", VMX.parse(text).disks())
    except Exception as e:  # noqa
        return _err(e)


def impl_vmx_dict(text):
    try:
        from dissect.hypervisor.descriptor.vmx import VMX
        return ("ok", dict(VMX.parse(text).attr))
    except Exception as e:  # noqa
        return _err(e)


def _impl_xml(entry, text):
    if entry == "ovf":
        from dissect.hypervisor.descriptor.ovf import OVF
        return list(OVF(io.StringIO(text)).disks())
    if entry == "vbox":
        from dissect.hypervisor.descriptor.vbox import VBox
        return list(VBox(io.StringIO(text)).disks())
    if entry == "pvs":
        from dissect.hypervisor.descriptor.pvs import PVS
        return list(PVS(io.StringIO(text)).disks())
    if entry == "hdd_descriptor":
        import tempfile
        from pathlib import Path

        from dissect.hypervisor.disk.hdd import Descriptor
        with tempfile.TemporaryDirectory(prefix="hvcfg.") as d:
            p = Path(d) / "DiskDescriptor.xml"
            p.write_text(text)
            desc = Descriptor(p)
        top = desc.snapshots.top_guid
        return {"storages": [[s.start, s.end, [[str(i.guid), i.type, i.file] for i in s.images]] for s in desc.storage_data.storages],
                "top": str(top) if top is not None else None, "shots": [[str(s.guid), str(s.parent)] for s in desc.snapshots.shots]}
    raise ValueError(entry)


def impl_ovf_disks(text):
    try:
        return ("ok", _impl_xml("ovf", text))
    except Exception as e:  # noqa
        return _err(e)


def impl_vbox_disks(text):
    try:
        return ("ok", _impl_xml("vbox", text))
    except Exception as e:  # noqa
        return _err(e)


def impl_pvs_disks(text):
    try:
        return ("ok", _impl_xml("pvs", text))
    except Exception as e:  # noqa
        return _err(e)


def impl_parse(entry, xml_text):
    try:
        return ("ok", _impl_xml(entry, xml_text))
    except Exception as e:  # noqa
        return ("err", type(e).__name__)


IMPL = {"vmx": impl_vmx_disks, "ovf": impl_ovf_disks, "vbox": impl_vbox_disks, "pvs": impl_pvs_disks}


# --------------------------------------------------------------------------- selftest

def selftest(n=300, seed=1, tier="quick", verbose=True):
    import time
    t0 = time.time()
    stats = {"cases": 0, "mismatch": 0, "nonempty": 0, "exotic_cases": 0, "exotic_mismatch": 0, "hostile": 0, "hostile_mismatch": 0}
    bad = []

    def report(what, recipe, exp, got):
        bad.append(what)
        if verbose:
            print(f"MISMATCH {what}\n  recipe={json.dumps(recipe, ensure_ascii=True)[:3000]}\n  expected={exp!r}\n  got={got!r}")
    for i in range(n + max(1, n // 10)):
        exotic = i >= n
        rng = random.Random(f"{seed}:{i}")
        vm = gen_vm(rng, tier if i % 7 else "thorough", exotic=exotic)
        assert json.loads(json.dumps(vm)) == vm
        for fmt in RENDER:
            recipe = {"vm": vm, "fmt": fmt, "rseed": rng.getrandbits(32)}
            text, truth = build(recipe)
            assert build(recipe) == (text, truth), "non-deterministic build"
            got = IMPL[fmt](text)
            ok = got == ("ok", truth)
            if fmt == "vmx":
                tdict = render_vmx(vm, random.Random(recipe["rseed"]))[2]
                gd = impl_vmx_dict(text)
                if gd != ("ok", tdict):
                    ok = False
                    got = (got, "dict differs", sorted(set(map(tuple, gd[1].items())) ^ set(tdict.items())) if gd[0] == "ok" else gd)
            stats["exotic_cases" if exotic else "cases"] += 1
            stats["nonempty"] += bool(truth)
            if not ok:
                stats["exotic_mismatch" if exotic else "mismatch"] += 1
                report(("exotic " if exotic else "") + fmt, recipe, truth, got)
    for r in range(max(1, n // 100)):
        for benign in (False, True):
            for c in hostile_cases(random.Random(f"{seed}:h{r}"), benign=benign):
                got = impl_parse(c["entry"], c["xml"])
                exp = ("ok", c["truth"]) if c["expect"] == "parse" else ("err", "EntitiesForbidden")
                stats["hostile"] += 1
                if got != exp:
                    stats["hostile_mismatch"] += 1
                    report("xml " + c["name"], {"seed": c["seed"], "xml": c["xml"][:1500]}, exp, got)
    stats["wall_s"] = round(time.time() - t0, 2)
    print("selftest", json.dumps(stats), "mismatching:", sorted(set(bad)) if bad else "none")
    return stats


if __name__ == "__main__":
    a = sys.argv[1:]
    if a and a[0] == "selftest":
        st = selftest(int(a[1]) if len(a) > 1 else 300, int(a[2]) if len(a) > 2 else 1)
        sys.exit(1 if st["mismatch"] or st["hostile_mismatch"] else 0)
    elif a and a[0] == "show":
        rng = random.Random(a[2] if len(a) > 2 else "0")
        vm = gen_vm(rng, exotic=len(a) > 3)
        print(json.dumps(vm, indent=1))
        r = RENDER[a[1]](vm, rng)
        print(r[0])
        print("TRUTH", r[1])
    else:
        print("usage: gen_configs.py selftest [n [seed]] | show vmx|ovf|vbox|pvs [seed [exotic]]")
