import Hv.Driver.Core
import Hv.Vhd
import Hv.Footprint
namespace Hv.Driver
open Hv

def vhdOpen (st : St) (id : String) : Except Err Vhd.Vhd := do
  let some fh := st.file? id | throw .other
  Vhd.open fh

def vhdCmd (st : St) : List String → String
  | ["vhd.open", id] =>
    match vhdOpen st id with
    | .ok v => s!"ok size={v.size} kind={if v.kind == .fixed then "fixed" else "dynamic"} bs={v.blockSize} n={v.maxEntries} wf={if v.wfb then 1 else 0}"
    | .error e => s!"err {e}"
  | ["vhd.read", id, off, len] =>
    match vhdOpen st id, off.toNat?, len.toNat? with
    | .ok v, some o, some l => fmtRes (v.read o l)
    | .error e, _, _ => s!"err {e}"
    | _, _, _ => "bad-args"
  | ["vhd.spec", id, off, len] =>
    match vhdOpen st id, off.toNat?, len.toNat? with
    | .ok v, some o, some l => fmtBytes (slice v.guest o (min l (v.size - o)))
    | .error e, _, _ => s!"err {e}"
    | _, _, _ => "bad-args"
  | ["vhd.footprint", id, off, len] =>
    match vhdOpen st id, off.toNat?, len.toNat? with
    | .ok v, some o, some l => Footprint.render (Footprint.vhd v o l)
    | .error e, _, _ => s!"err {e}"
    | _, _, _ => "bad-args"
  | ["vhd.openfp", id] =>
    match st.file? id with
    | some fh => Footprint.render (Footprint.vhdOpen fh)
    | none => "bad-args"
  | "vhd.stream" :: id :: align :: ops =>
    match vhdOpen st id, align.toNat? with
    | .ok v, some a => runStream v.read v.size a ops
    | .error e, _ => s!"err {e}"
    | _, _ => "bad-args"
  | _ => "bad-cmd"

end Hv.Driver
