/- Lemmas for C17 (Hyper-V VMCX/VMRS). Core Lean only. -/
import Hv.HyperV
import Hv.HyperVEnc
import HvProofs.Basic
namespace Hv.HyperV
open Hv Hv.Extracted.hyperv

/-! ### little-endian codec -/

@[simp] theorem leBytes_length (n v : Nat) : (leBytes n v).length = n := by
  induction n generalizing v with
  | zero => rfl
  | succ n ih => simp [leBytes, ih]

theorem leNat_leBytes (n v : Nat) : leNat (leBytes n v) = v % 256 ^ n := by
  induction n generalizing v with
  | zero => simp [leBytes, leNat, Nat.mod_one]
  | succ n ih =>
    simp only [leBytes, leNat, ih]
    have h : (UInt8.ofNat (v % 256)).toNat = v % 256 := by
      simp [UInt8.toNat_ofNat']
    rw [h, Nat.pow_succ, Nat.mul_comm (256 ^ n) 256, Nat.mod_mul]

theorem leNat_leBytes_lt (n v : Nat) (h : v < 256 ^ n) : leNat (leBytes n v) = v := by
  rw [leNat_leBytes, Nat.mod_eq_of_lt h]


/-! ### evaluated constants -/

theorem tFree_eq : tFree = 1 := by decide
theorem tInt_eq : tInt = 3 := by decide
theorem tUInt_eq : tUInt = 4 := by decide
theorem tDouble_eq : tDouble = 5 := by decide
theorem tString_eq : tString = 6 := by decide
theorem tArray_eq : tArray = 7 := by decide
theorem tBool_eq : tBool = 8 := by decide
theorem tNode_eq : tNode = 9 := by decide
theorem fmtInt_eq : fmtInt = some (true, 8) := by decide
theorem fmtUInt_eq : fmtUInt = some (false, 8) := by decide
theorem fmtDouble_eq : fmtDouble = some (false, 8) := by decide
theorem fmtLen_eq : fmtLen = some (false, 4) := by decide
theorem fmtBool_eq : fmtBool = some (false, 4) := by decide
theorem nInt_eq : nInt = 8 := by decide
theorem nUInt_eq : nUInt = 8 := by decide
theorem nDouble_eq : nDouble = 8 := by decide
theorem nLen_eq : nLen = 4 := by decide
theorem nSkip_eq : nSkip = 4 := by decide
theorem nSkip'_eq : nSkip' = 4 := by decide
theorem nBool_eq : nBool = 4 := by decide
theorem EH_eq : EH = 21 := by decide
theorem KTH_eq : KTH = 10 := by decide

/-! ### value round trips -/

theorem take_leBytes_append (n v : Nat) (r : Bytes) : (leBytes n v ++ r).take n = leBytes n v := by
  rw [List.take_left' (leBytes_length n v)]

theorem drop_leBytes_append (n v : Nat) (r : Bytes) : (leBytes n v ++ r).drop n = r := by
  rw [List.drop_left' (leBytes_length n v)]

theorem unpack_unsigned (w v : Nat) (r : Bytes) (h : v < 256 ^ w) :
    unpack (some (false, w)) w (leBytes w v ++ r) = .ok (v : Int) := by
  simp [unpack, take_leBytes_append, leNat_leBytes_lt w v h]

theorem unpack_signed64 (v : Int) (r : Bytes) (h1 : -(2 ^ 63 : Int) ≤ v) (h2 : v < (2 ^ 63 : Int)) :
    unpack (some (true, 8)) 8 (leBytes 8 (v % (2 ^ 64 : Nat)).toNat ++ r) = .ok v := by
  simp only [unpack, take_leBytes_append, leBytes_length, ne_eq, not_true_eq_false, if_false, if_true]
  rw [leNat_leBytes]
  simp only [toSigned, Nat.reducePow, Int.reducePow, Nat.reduceMul, Nat.reduceSub, Int.reduceNeg] at *
  congr 1
  split <;> omega


theorem unitsBytes_cons (u : Nat) (us : List Nat) : unitsBytes (u :: us) = leBytes 2 u ++ unitsBytes us := by
  simp [unitsBytes]

@[simp] theorem unitsBytes_length (us : List Nat) : (unitsBytes us).length = 2 * us.length := by
  induction us with
  | nil => rfl
  | cons u us ih => rw [unitsBytes_cons, List.length_append, leBytes_length, ih, List.length_cons]; omega

theorem unitsOf_unitsBytes (us : List Nat) (h : ∀ u ∈ us, u < 2 ^ 16) : unitsOf (unitsBytes us) = some us := by
  induction us with
  | nil => rfl
  | cons u us ih =>
    have hu : u < 2 ^ 16 := h u (by simp)
    have ih' := ih (fun x hx => h x (by simp [hx]))
    rw [unitsBytes_cons]
    simp only [leBytes, List.cons_append, List.nil_append, unitsOf, ih', Option.map_some]
    have e : (UInt8.ofNat (u % 256)).toNat + 256 * (UInt8.ofNat (u / 256 % 256)).toNat = u := by
      simp [UInt8.toNat_ofNat']; omega
    rw [e]

theorem decodeUtf16_unitsBytes (us : List Nat) (h : ∀ u ∈ us, u < 2 ^ 16) (hv : validUnits us = true) :
    decodeUtf16 (unitsBytes us) = .ok us := by
  simp [decodeUtf16, unitsOf_unitsBytes us h, hv]

/-- inline values: what `.value` returns on the stored bytes, whatever follows them in the entry -/
theorem decodeValue_encodeValue (v : Value) (hv : v.inRange) (slack : Bytes) :
    decodeValue v.typ false (encodeValue v ++ slack) = .ok v := by
  cases v with
  | int v =>
    simp only [Value.inRange] at hv
    have h := unpack_signed64 v slack hv.1 hv.2
    simp only [decodeValue, Value.typ, encodeValue, tInt_eq, fmtInt_eq, nInt_eq, if_true, h, Except.map]
  | uint v =>
    simp only [Value.inRange] at hv
    have h := unpack_unsigned 8 v slack (by simpa using hv)
    simp [decodeValue, Value.typ, encodeValue, tInt_eq, tUInt_eq, fmtUInt_eq, nUInt_eq, h, Except.map]
  | double b =>
    simp only [Value.inRange] at hv
    have h := unpack_unsigned 8 b slack (by simpa using hv)
    simp [decodeValue, Value.typ, encodeValue, tInt_eq, tUInt_eq, tDouble_eq, fmtDouble_eq, nDouble_eq, h, Except.map]
  | str us =>
    simp only [Value.inRange] at hv
    have hl : 2 * us.length < 256 ^ 4 := by simpa using hv.2.2
    have h := unpack_unsigned 4 (2 * us.length) (unitsBytes us ++ slack) hl
    have e : ((unitsBytes us ++ slack).take (4 + ((2 * us.length : Nat) : Int).toNat - 4)) = unitsBytes us := by
      rw [Int.toNat_natCast, Nat.add_sub_cancel_left]; exact List.take_left' (unitsBytes_length us)
    simp only [decodeValue, Value.typ, encodeValue, tInt_eq, tUInt_eq, tDouble_eq, tString_eq, fmtLen_eq, nLen_eq, nSkip_eq, nSkip'_eq,
      List.append_assoc, h, Except.map, bind, Except.bind, drop_leBytes_append, e]
    simp [decodeUtf16_unitsBytes us hv.1 hv.2.1]
  | bytes b =>
    simp only [Value.inRange] at hv
    have hl : b.length < 256 ^ 4 := by simpa using hv
    have h := unpack_unsigned 4 b.length (b ++ slack) hl
    have e : ((b ++ slack).take (4 + ((b.length : Nat) : Int).toNat - 4)) = b := by
      rw [Int.toNat_natCast, Nat.add_sub_cancel_left]; exact List.take_left' rfl
    simp only [decodeValue, Value.typ, encodeValue, tInt_eq, tUInt_eq, tDouble_eq, tString_eq, tArray_eq, fmtLen_eq, nLen_eq, nSkip_eq, nSkip'_eq,
      List.append_assoc, h, Except.map, bind, Except.bind, drop_leBytes_append, e]
    simp
  | bool b =>
    cases b <;>
    simp [decodeValue, Value.typ, encodeValue, tInt_eq, tUInt_eq, tDouble_eq, tString_eq, tArray_eq, tBool_eq, fmtBool_eq, nBool_eq,
      unpack_unsigned 4 _ slack (by decide : (0:Nat) < 256 ^ 4), unpack_unsigned 4 _ slack (by decide : (1:Nat) < 256 ^ 4), Except.map]


/-- a boolean is any non-zero 32-bit word -/
theorem decodeValue_bool_raw (raw : Nat) (h : raw < 2 ^ 32) (slack : Bytes) :
    decodeValue tBool false (leBytes 4 raw ++ slack) = .ok (.bool (decide (raw ≠ 0))) := by
  have h' := unpack_unsigned 4 raw slack (by simpa using h)
  simp [decodeValue, tInt_eq, tUInt_eq, tDouble_eq, tString_eq, tArray_eq, tBool_eq, fmtBool_eq, nBool_eq, h', Except.map]

/-- values held in a file object: the object's bytes are the value, no length prefix -/
theorem decodeValue_fo_str (us : List Nat) (h : ∀ u ∈ us, u < 2 ^ 16) (hv : validUnits us = true) :
    decodeValue tString true (unitsBytes us) = .ok (.str us) := by
  simp [decodeValue, tInt_eq, tUInt_eq, tDouble_eq, tString_eq, bind, Except.bind, decodeUtf16_unitsBytes us h hv, Except.map]

theorem decodeValue_fo_bytes (b : Bytes) : decodeValue tArray true b = .ok (.bytes b) := by
  simp [decodeValue, tInt_eq, tUInt_eq, tDouble_eq, tString_eq, tArray_eq, bind, Except.bind]

/-! ### entry framing -/

theorem bfield_mid (pre post : Bytes) (w v off bits : Nat) (hp : pre.length = off) (hv : v < 256 ^ w) (hb : 2 ^ bits = 256 ^ w) :
    bfield (pre ++ (leBytes w v ++ post)) ⟨off, w, false, 0, bits⟩ = v := by
  subst hp
  simp only [bfield, Field.decode, List.drop_left, take_leBytes_append, leNat_leBytes_lt w v hv, Bool.false_eq_true, if_false,
    Nat.pow_zero, Nat.div_one, hb, Nat.mod_eq_of_lt hv]

/-- the 21 header bytes of a stored entry -/
def SEntry.header (s : SEntry) : Bytes :=
  leBytes 2 s.typ ++ (leBytes 4 s.size ++ (leBytes 2 s.pidx ++ (leBytes 4 s.poff ++ (leBytes 4 s.ck ++ (leBytes 4 s.ins ++ leBytes 1 s.doff)))))

theorem SEntry.encode_eq (s : SEntry) : s.encode = s.header ++ s.body := by
  simp [SEntry.encode, SEntry.header, List.append_assoc]

theorem SEntry.header_length (s : SEntry) : s.header.length = EH := by
  simp [SEntry.header, EH_eq]

theorem SEntry.encode_length (s : SEntry) : s.encode.length = s.size := by
  rw [SEntry.encode_eq, List.length_append, SEntry.header_length]; rfl

theorem parseEntry_encode (s : SEntry) (hs : s.ok) (tail : Bytes) (off : Nat) :
    parseEntry (s.encode ++ tail) off = .ok (s.parsed off) := by
  obtain ⟨h1, h2, h3, h4, h5⟩ := hs
  have ht : (s.encode ++ tail).take EH = s.header := by
    rw [SEntry.encode_eq, List.append_assoc, List.take_left' s.header_length]
  have hd : (s.encode ++ tail).drop EH = s.body ++ tail := by
    rw [SEntry.encode_eq, List.append_assoc, List.drop_left' s.header_length]
  have f_typ : bfield s.header HyperVStorageKeyTableEntryHeader.type = s.typ :=
    bfield_mid [] _ 2 s.typ 0 16 rfl (by simpa using h1) (by decide)
  have f_size : bfield s.header HyperVStorageKeyTableEntryHeader.size_field = s.size :=
    bfield_mid (leBytes 2 s.typ) _ 4 s.size 2 32 (by simp) (by simpa using h5) (by decide)
  have f_pidx : bfield s.header HyperVStorageKeyTableEntryHeader.parent_table_idx = s.pidx := by
    have := bfield_mid (leBytes 2 s.typ ++ leBytes 4 s.size) (leBytes 4 s.poff ++ (leBytes 4 s.ck ++ (leBytes 4 s.ins ++ leBytes 1 s.doff)))
      2 s.pidx 6 16 (by simp) (by simpa using h2) (by decide)
    simpa [SEntry.header, List.append_assoc, HyperVStorageKeyTableEntryHeader.parent_table_idx,
      HyperVStorageKeyTableEntryHeader.parent_offset, HyperVStorageKeyTableEntryHeader.data_offset] using this
  have f_poff : bfield s.header HyperVStorageKeyTableEntryHeader.parent_offset = s.poff := by
    have := bfield_mid (leBytes 2 s.typ ++ leBytes 4 s.size ++ leBytes 2 s.pidx) (leBytes 4 s.ck ++ (leBytes 4 s.ins ++ leBytes 1 s.doff))
      4 s.poff 8 32 (by simp) (by simpa using h3) (by decide)
    simpa [SEntry.header, List.append_assoc, HyperVStorageKeyTableEntryHeader.parent_table_idx,
      HyperVStorageKeyTableEntryHeader.parent_offset, HyperVStorageKeyTableEntryHeader.data_offset] using this
  have f_doff : bfield s.header HyperVStorageKeyTableEntryHeader.data_offset = s.doff := by
    have := bfield_mid (leBytes 2 s.typ ++ leBytes 4 s.size ++ leBytes 2 s.pidx ++ leBytes 4 s.poff ++ leBytes 4 s.ck ++ leBytes 4 s.ins) []
      1 s.doff 20 8 (by simp) (by simpa using h4) (by decide)
    simpa [SEntry.header, List.append_assoc, HyperVStorageKeyTableEntryHeader.parent_table_idx,
      HyperVStorageKeyTableEntryHeader.parent_offset, HyperVStorageKeyTableEntryHeader.data_offset] using this
  have hb : (s.body ++ tail).take (s.size - EH) = s.body := by
    have : s.size - EH = s.body.length := by simp [SEntry.size]
    rw [this, List.take_left' rfl]
  simp only [parseEntry, ht, hd, s.header_length, Nat.lt_irrefl, if_false, f_typ, f_size, f_pidx, f_poff, f_doff, hb, SEntry.parsed]


theorem SEntry.size_pos (s : SEntry) : 0 < s.size := by simp only [SEntry.size, EH_eq]; omega

theorem encodeEntries_cons (s : SEntry) (r : List SEntry) : encodeEntries (s :: r) = s.encode ++ encodeEntries r := by
  simp [encodeEntries]

theorem totalSize_cons (s : SEntry) (r : List SEntry) : totalSize (s :: r) = s.size + totalSize r := by
  simp [totalSize]

/-- one iteration of the entry loop on a stored entry -/
theorem walkEntries_step (s : SEntry) (hs : s.ok) (rest : Bytes) (fuel off size : Nat) (h : off < size) :
    walkEntries (fuel + 1) (s.encode ++ rest) off size =
      match walkEntries fuel rest (off + s.size) size with
      | .error x => .error x
      | .ok es => .ok (s.parsed off :: es) := by
  have hd : (s.encode ++ rest).drop s.size = rest := List.drop_left' s.encode_length
  have hz : s.size ≠ 0 := Nat.pos_iff_ne_zero.mp s.size_pos
  simp only [walkEntries, h, not_true_eq_false, if_false, parseEntry_encode s hs rest off, SEntry.parsed, hz, hd]
  cases walkEntries fuel rest (off + s.size) size <;> rfl

/-- **entry walk**: a table body made of stored entries (free ones included), ending exactly at the declared size -/
theorem walkEntries_encode (ss : List SEntry) (hs : ∀ s ∈ ss, s.ok) (tail : Bytes) :
    ∀ fuel off, ss.length ≤ fuel →
      walkEntries fuel (encodeEntries ss ++ tail) off (off + totalSize ss) = .ok (parsedFrom ss off) := by
  induction ss with
  | nil =>
    intro fuel off _
    cases fuel <;> simp [walkEntries, totalSize, parsedFrom]
  | cons s r ih =>
    intro fuel off hf
    cases fuel with
    | zero => simp at hf
    | succ fuel =>
      have hlt : off < off + totalSize (s :: r) := by rw [totalSize_cons]; have := s.size_pos; omega
      rw [encodeEntries_cons, List.append_assoc, walkEntries_step s (hs s (by simp)) _ fuel off _ hlt]
      have e : off + totalSize (s :: r) = (off + s.size) + totalSize r := by rw [totalSize_cons]; omega
      rw [e, ih (fun x hx => hs x (by simp [hx])) fuel (off + s.size) (by simpa using hf)]
      rfl

theorem bfield_zeros_size : bfield (zeros EH) HyperVStorageKeyTableEntryHeader.size_field = 0 := by decide

/-- the same body followed by a zero header (size 0 = terminator) inside a larger declared size -/
theorem walkEntries_encode_zero (ss : List SEntry) (hs : ∀ s ∈ ss, s.ok) (tail : Bytes) (size : Nat) :
    ∀ fuel off, ss.length < fuel → off + totalSize ss < size →
      walkEntries fuel (encodeEntries ss ++ (zeros EH ++ tail)) off size = .ok (parsedFrom ss off) := by
  induction ss with
  | nil =>
    intro fuel off hf hsz
    cases fuel with
    | zero => simp at hf
    | succ fuel =>
      have hlt : off < size := by simpa [totalSize] using hsz
      have ht : (zeros EH ++ tail).take EH = zeros EH := List.take_left' (by simp)
      simp [walkEntries, hlt, parseEntry, encodeEntries, ht, bfield_zeros_size, parsedFrom]
  | cons s r ih =>
    intro fuel off hf hsz
    cases fuel with
    | zero => simp at hf
    | succ fuel =>
      rw [totalSize_cons] at hsz
      have hlt : off < size := by omega
      rw [encodeEntries_cons, List.append_assoc, walkEntries_step s (hs s (by simp)) _ fuel off _ hlt]
      rw [ih (fun x hx => hs x (by simp [hx])) fuel (off + s.size) (by simpa using hf) (by omega)]
      rfl


/-! ### whole key tables -/

theorem parseKeyTable_header (index seq ck : Nat) (body : Bytes) (hi : index < 2 ^ 16) (hq : seq < 2 ^ 16) :
    let raw := leBytes 2 SIGNATURE_KEY_TABLE_HEADER ++ leBytes 2 index ++ leBytes 2 seq ++ leBytes 4 ck ++ body
    ¬ raw.length < KTH ∧ bfield raw HyperVStorageKeyTable.signature = SIGNATURE_KEY_TABLE_HEADER ∧
    bfield raw HyperVStorageKeyTable.index = index ∧ bfield raw HyperVStorageKeyTable.sequence_number = seq ∧
    raw.drop KTH = body := by
  intro raw
  refine ⟨by simp only [raw, KTH_eq, List.length_append, leBytes_length]; omega, ?_, ?_, ?_, ?_⟩
  · have := bfield_mid [] (leBytes 2 index ++ (leBytes 2 seq ++ (leBytes 4 ck ++ body))) 2 SIGNATURE_KEY_TABLE_HEADER 0 16 rfl
      (by decide) (by decide)
    simpa [raw, List.append_assoc, HyperVStorageKeyTable.signature] using this
  · have := bfield_mid (leBytes 2 SIGNATURE_KEY_TABLE_HEADER) (leBytes 2 seq ++ (leBytes 4 ck ++ body)) 2 index 2 16 (by simp)
      (by simpa using hi) (by decide)
    simpa [raw, List.append_assoc, HyperVStorageKeyTable.index] using this
  · have := bfield_mid (leBytes 2 SIGNATURE_KEY_TABLE_HEADER ++ leBytes 2 index) (leBytes 4 ck ++ body) 2 seq 4 16 (by simp)
      (by simpa using hq) (by decide)
    simpa [raw, List.append_assoc, HyperVStorageKeyTable.sequence_number] using this
  · exact List.drop_left' (by simp [KTH_eq])

/-- a stored table (exactly its declared size) parses to its header fields and all of its entries at their offsets -/
theorem parseKeyTable_encode (index seq ck : Nat) (ss : List SEntry) (hi : index < 2 ^ 16) (hq : seq < 2 ^ 16)
    (hs : ∀ s ∈ ss, s.ok) :
    parseKeyTable (encodeTable index seq ck ss) (KTH + totalSize ss) = .ok { index, seq, entries := parsedFrom ss KTH } := by
  obtain ⟨h0, h1, h2, h3, h4⟩ := parseKeyTable_header index seq ck (encodeEntries ss) hi hq
  have hw := walkEntries_encode ss hs [] (KTH + totalSize ss) KTH (by
    have : ∀ l : List SEntry, l.length ≤ totalSize l := by
      intro l; induction l with
      | nil => simp [totalSize]
      | cons a l ih => rw [totalSize_cons, List.length_cons]; have := a.size_pos; omega
    have := this ss; omega)
  rw [List.append_nil] at hw
  simp only [parseKeyTable, encodeTable, h0, if_false, h1, ne_eq, not_true_eq_false, h2, h3, h4, hw]

/-- the same table closed by a zero header inside a larger region -/
theorem parseKeyTable_encode_zero (index seq ck size : Nat) (ss : List SEntry) (tail : Bytes) (hi : index < 2 ^ 16) (hq : seq < 2 ^ 16)
    (hs : ∀ s ∈ ss, s.ok) (hsz : KTH + totalSize ss < size) :
    parseKeyTable (encodeTable index seq ck ss ++ (zeros EH ++ tail)) size = .ok { index, seq, entries := parsedFrom ss KTH } := by
  obtain ⟨h0, h1, h2, h3, h4⟩ := parseKeyTable_header index seq ck (encodeEntries ss ++ (zeros EH ++ tail)) hi hq
  have hw := walkEntries_encode_zero ss hs tail size size KTH (by
    have : ∀ l : List SEntry, l.length ≤ totalSize l := by
      intro l; induction l with
      | nil => simp [totalSize]
      | cons a l ih => rw [totalSize_cons, List.length_cons]; have := a.size_pos; omega
    have := this ss; omega) hsz
  have e : encodeTable index seq ck ss ++ (zeros EH ++ tail) =
      leBytes 2 SIGNATURE_KEY_TABLE_HEADER ++ leBytes 2 index ++ leBytes 2 seq ++ leBytes 4 ck ++ (encodeEntries ss ++ (zeros EH ++ tail)) := by
    simp [encodeTable, List.append_assoc]
  rw [e]
  simp only [parseKeyTable, h0, if_false, h1, ne_eq, not_true_eq_false, h2, h3, h4, hw]

/-- free entries never become links -/
theorem linkEntries_skip_free (kts : List (Nat × List KeyTable)) (idx : Nat) (es : List Entry) :
    linkEntries kts idx es = linkEntries kts idx (es.filter (fun e => e.kind ≠ tFree)) := by
  induction es with
  | nil => rfl
  | cons e es ih =>
    by_cases h : e.kind = tFree
    · simp [linkEntries, h, ih]
    · simp only [linkEntries, h, if_false, ne_eq, not_false_eq_true, decide_true, List.filter_cons_of_pos, ih]

/-! ### keys and values of stored entries -/

theorem keyOf_keyed (typ pidx poff ck ins : Nat) (key payload : Bytes) (off : Nat) (hk : validUtf8 key = true) :
    keyOf ((SEntry.keyed typ pidx poff ck ins key payload).parsed off) = .ok key := by
  have : sliceTo (key ++ [0] ++ payload) (key.length + 1) = key := by
    have k1 : KEY_TRIM = 1 := by decide
    simp only [sliceTo, k1, Nat.add_sub_cancel]
    rw [if_neg (by omega), List.append_assoc, List.take_left' rfl]
  simp only [keyOf, SEntry.parsed, SEntry.keyed, this, hk, if_true]

theorem kind_of_typ (v : Value) (e : Entry) (h : e.typ = v.typ) : e.kind = v.typ ∧ e.isFo = false := by
  cases v <;> simp only [Value.typ] at h ⊢ <;> simp only [Entry.kind, Entry.isFo, Entry.flags, h] <;> decide

/-- an inline value: the entry's `.value` is the stored value (any slack after it) -/
theorem valueOf_keyed (f : File) (fos : List (Nat × Nat)) (v : Value) (hv : v.inRange) (pidx poff ck ins : Nat) (key slack : Bytes) (off : Nat) :
    valueOf f fos ((SEntry.keyed v.typ pidx poff ck ins key (encodeValue v ++ slack)).parsed off) = .ok v := by
  have hk := kind_of_typ v ((SEntry.keyed v.typ pidx poff ck ins key (encodeValue v ++ slack)).parsed off) rfl
  have hd : (key ++ [0] ++ (encodeValue v ++ slack)).drop (key.length + 1) = encodeValue v ++ slack := by
    rw [List.drop_left' (by simp)]
  simp only [valueOf, entryData, hk.2, Bool.false_eq_true, if_false, hk.1]
  simp only [SEntry.parsed, SEntry.keyed, hd]
  exact decodeValue_encodeValue v hv slack

theorem kind_of_typ_fo (v : Value) (e : Entry) (h : e.typ = v.typ + 256) : e.kind = v.typ ∧ e.isFo = true := by
  cases v <;> simp only [Value.typ] at h ⊢ <;> simp only [Entry.kind, Entry.isFo, Entry.flags, h] <;> decide

/-- a value held in a file object: pointer (size, offset) in the entry, bytes in the object -/
theorem valueOf_keyed_fo (f : File) (fos : List (Nat × Nat)) (v : Value) (pidx poff ck ins : Nat) (key slack : Bytes) (off n o osz : Nat)
    (hn : n < 2 ^ 32) (ho : o < 2 ^ 63) (hl : fos.lookup o = some osz)
    (hr : decodeValue v.typ true (f.read o (min n osz)) = .ok v) :
    valueOf f fos ((SEntry.keyed (v.typ + 256) pidx poff ck ins key (leBytes 4 n ++ leBytes 8 o ++ slack)).parsed off) = .ok v := by
  have hk := kind_of_typ_fo v ((SEntry.keyed (v.typ + 256) pidx poff ck ins key (leBytes 4 n ++ leBytes 8 o ++ slack)).parsed off) rfl
  have hd : (key ++ [0] ++ (leBytes 4 n ++ leBytes 8 o ++ slack)).drop (key.length + 1) = leBytes 4 n ++ (leBytes 8 o ++ slack) := by
    rw [List.drop_left' (by simp), List.append_assoc]
  have p12 : PTR_LEN = 12 := by decide
  have t12 : ((leBytes 4 n ++ (leBytes 8 o ++ slack)).take 12).length = 12 := by simp; omega
  have hsz : leNat ((leBytes 4 n ++ (leBytes 8 o ++ slack)).take 4) = n := by
    rw [take_leBytes_append, leNat_leBytes_lt 4 n (by simpa using hn)]
  have hof : leNat (((leBytes 4 n ++ (leBytes 8 o ++ slack)).drop 4).take 8) = o := by
    rw [drop_leBytes_append, take_leBytes_append, leNat_leBytes_lt 8 o (by simp; omega)]
  have ho' : ¬ o ≥ 2 ^ 63 := by omega
  simp only [valueOf, entryData, hk.2, if_true, hk.1]
  simp only [SEntry.parsed, SEntry.keyed, hd, p12, t12, ne_eq, not_true_eq_false, if_false, hsz, hof, hl, ho', hr]


/-! ### header and key-table selection -/

theorem chooseHeader_spec (h1 h2 : Header) :
    (chooseHeader h1 h2 = h1 ∨ chooseHeader h1 h2 = h2) ∧ h1.seq ≤ (chooseHeader h1 h2).seq ∧ h2.seq ≤ (chooseHeader h1 h2).seq := by
  unfold chooseHeader
  split
  · exact ⟨.inl rfl, Nat.le_refl _, by omega⟩
  · exact ⟨.inr rfl, by omega, Nat.le_refl _⟩

/- `registerAll` (the registry after the key tables `ts` were met in this order) lives in `Hv.HyperVEnc` -/

def SortedDesc (l : List KeyTable) : Prop := l.Pairwise (fun a b => b.seq ≤ a.seq)

theorem mem_insertBySeq (t u : KeyTable) (l : List KeyTable) : u ∈ insertBySeq t l ↔ u = t ∨ u ∈ l := by
  induction l with
  | nil => simp [insertBySeq]
  | cons h r ih =>
    simp only [insertBySeq]
    split
    · simp
    · simp only [List.mem_cons, ih]
      constructor
      · rintro (h | h | h) <;> simp [h]
      · rintro (h | h | h) <;> simp [h]

theorem sorted_insertBySeq (t : KeyTable) (l : List KeyTable) (hl : SortedDesc l) : SortedDesc (insertBySeq t l) := by
  induction l with
  | nil => simp [insertBySeq, SortedDesc]
  | cons h r ih =>
    simp only [SortedDesc, List.pairwise_cons] at hl
    simp only [insertBySeq]
    split
    · rename_i hlt
      simp only [SortedDesc, List.pairwise_cons, List.mem_cons]
      refine ⟨?_, hl.1, hl.2⟩
      rintro x (rfl | hx)
      · omega
      · have := hl.1 x hx; omega
    · rename_i hge
      simp only [SortedDesc, List.pairwise_cons]
      refine ⟨?_, ih hl.2⟩
      intro x hx
      rcases (mem_insertBySeq t x r).1 hx with rfl | hx
      · omega
      · exact hl.1 x hx

theorem insertBySeq_ne_nil (t : KeyTable) (l : List KeyTable) : insertBySeq t l ≠ [] := by
  cases l with
  | nil => simp [insertBySeq]
  | cons h r => simp only [insertBySeq]; split <;> simp

theorem lookup_register_same (t : KeyTable) (acc : List (Nat × List KeyTable)) :
    (register t acc).lookup t.index = some (insertBySeq t ((acc.lookup t.index).getD [])) := by
  induction acc with
  | nil => simp [register, List.lookup, insertBySeq]
  | cons p r ih =>
    obtain ⟨i, ts⟩ := p
    by_cases h : i = t.index
    · subst h; simp [register, List.lookup]
    · have h' : (t.index == i) = false := by simp; omega
      simp [register, h, List.lookup, h', ih]

theorem lookup_register_other (t : KeyTable) (acc : List (Nat × List KeyTable)) (i : Nat) (hi : i ≠ t.index) :
    (register t acc).lookup i = acc.lookup i := by
  induction acc with
  | nil =>
    have : (i == t.index) = false := by simp [hi]
    simp [register, List.lookup, this]
  | cons p r ih =>
    obtain ⟨j, ts⟩ := p
    by_cases h : j = t.index
    · have : (i == t.index) = false := by simp [hi]
      simp [register, h, List.lookup, this]
    · by_cases hij : i = j
      · subst hij; simp [register, h, List.lookup]
      · have : (i == j) = false := by simp [hij]
        simp [register, h, List.lookup, this, ih]

/-- what the registry holds after the tables `S` -/
def RegInv (acc : List (Nat × List KeyTable)) (S : List KeyTable) : Prop :=
  ∀ idx, (∀ l, acc.lookup idx = some l → l ≠ [] ∧ SortedDesc l ∧ ∀ u, u ∈ l ↔ (u ∈ S ∧ u.index = idx)) ∧
         (acc.lookup idx = none → ∀ u ∈ S, u.index ≠ idx)

theorem RegInv_register (acc : List (Nat × List KeyTable)) (S : List KeyTable) (t : KeyTable) (h : RegInv acc S) :
    RegInv (register t acc) (S ++ [t]) := by
  intro idx
  by_cases hi : idx = t.index
  · subst hi
    rw [lookup_register_same]
    refine ⟨?_, by simp⟩
    intro l hl
    have hl' : l = insertBySeq t ((acc.lookup t.index).getD []) := by simpa using hl.symm
    subst hl'
    refine ⟨insertBySeq_ne_nil _ _, ?_, ?_⟩
    · cases hacc : acc.lookup t.index with
      | none => simp [insertBySeq, SortedDesc]
      | some l0 => exact sorted_insertBySeq t l0 ((h t.index).1 l0 hacc).2.1
    · intro u
      rw [mem_insertBySeq]
      cases hacc : acc.lookup t.index with
      | none =>
        have hn := (h t.index).2 hacc
        simp only [Option.getD_none, List.not_mem_nil, or_false, List.mem_append, List.mem_singleton]
        constructor
        · rintro rfl; exact ⟨.inr rfl, rfl⟩
        · rintro ⟨hu | hu, hidx⟩
          · exact absurd hidx (hn u hu)
          · exact hu
      | some l0 =>
        have hm := ((h t.index).1 l0 hacc).2.2 u
        simp only [Option.getD_some, hm, List.mem_append, List.mem_singleton]
        constructor
        · rintro (rfl | ⟨hu, hidx⟩)
          · exact ⟨.inr rfl, rfl⟩
          · exact ⟨.inl hu, hidx⟩
        · rintro ⟨hu | hu, hidx⟩
          · exact .inr ⟨hu, hidx⟩
          · exact .inl hu
  · rw [lookup_register_other t acc idx hi]
    constructor
    · intro l hl
      obtain ⟨a, b, c⟩ := (h idx).1 l hl
      refine ⟨a, b, ?_⟩
      intro u
      rw [c u]
      simp only [List.mem_append, List.mem_singleton]
      constructor
      · rintro ⟨hu, hidx⟩; exact ⟨.inl hu, hidx⟩
      · rintro ⟨hu | hu, hidx⟩
        · exact ⟨hu, hidx⟩
        · subst hu; exact absurd hidx.symm hi
    · intro hn u hu
      simp only [List.mem_append, List.mem_singleton] at hu
      rcases hu with hu | hu
      · exact (h idx).2 hn u hu
      · subst hu; exact fun e => hi e.symm

theorem RegInv_foldl (ts : List KeyTable) : ∀ acc S, RegInv acc S → RegInv (ts.foldl (fun acc t => register t acc) acc) (S ++ ts) := by
  induction ts with
  | nil => intro acc S h; simpa using h
  | cons t r ih =>
    intro acc S h
    have := ih (register t acc) (S ++ [t]) (RegInv_register acc S t h)
    simpa [List.append_assoc] using this

theorem RegInv_registerAll (ts : List KeyTable) : RegInv (registerAll ts) ts := by
  have := RegInv_foldl ts [] [] (by intro idx; simp [List.lookup])
  simpa [registerAll] using this


/-! ### termination: the entry loop and the object-table walk never run out of fuel -/

theorem parseEntry_err (rest : Bytes) (off : Nat) (x : Err) (h : parseEntry rest off = .error x) : x = .eof := by
  unfold parseEntry at h
  split at h
  · cases h; rfl
  · cases h

theorem walkEntries_terminates : ∀ fuel rest off size, size - off ≤ fuel → walkEntries fuel rest off size ≠ .error .nonTermination := by
  intro fuel
  induction fuel with
  | zero =>
    intro rest off size h
    have : ¬ off < size := by omega
    simp [walkEntries, this]
  | succ fuel ih =>
    intro rest off size h
    unfold walkEntries
    split
    · simp
    · rename_i hlt
      split
      · rename_i e he
        have := parseEntry_err rest off e he
        subst this; simp
      · rename_i e he
        split
        · simp
        · rename_i hz
          have := ih (rest.drop e.size) (off + e.size) size (by omega)
          split
          · rename_i x hx; intro hc; cases hc; exact this hx
          · simp

theorem field_err (f : File) (base ssize : Nat) (fld : Field) (x : Err) (h : f.field base ssize fld = .error x) : x = .eof := by
  unfold File.field at h; split at h <;> cases h; rfl

theorem parseKeyTable_terminates (raw : Bytes) (size : Nat) : parseKeyTable raw size ≠ .error .nonTermination := by
  unfold parseKeyTable
  split
  · simp
  · split
    · simp
    · split
      · rename_i x hx
        intro hc; cases hc
        exact walkEntries_terminates size _ KTH size (by omega) hx
      · simp

theorem loadObjectTable_spec (f : File) (off : Nat) :
    (∀ x, loadObjectTable f off = .error x → x ≠ .nonTermination) ∧ (∀ es, loadObjectTable f off = .ok es → off < f.size) := by
  unfold loadObjectTable
  cases h1 : f.field off OTH HyperVStorageObjectTable.signature with
  | error x => have := field_err _ _ _ _ _ h1; subst this; simp [bind, Except.bind]
  | ok sig =>
    have hb : off + OTH ≤ f.size := by
      unfold File.field at h1; split at h1
      · assumption
      · cases h1
    have h8 : OTH = 8 := by decide
    simp only [bind, Except.bind]
    split
    · simp
    · cases h2 : f.field off OTH HyperVStorageObjectTable.num_entries with
      | error x => have := field_err _ _ _ _ _ h2; subst this; simp
      | ok n =>
        simp only []
        split
        · refine ⟨by simp, fun _ _ => by omega⟩
        · simp

theorem checkReplayLog_err (f : File) (off : Nat) (x : Err) (h : checkReplayLog f off = .error x) : x ≠ .nonTermination := by
  unfold checkReplayLog at h
  simp only [bind, Except.bind] at h
  cases h1 : f.field off LOG HyperVStorageReplayLog.signature with
  | error y => rw [h1] at h; cases h; have := field_err _ _ _ _ _ h1; subst this; simp
  | ok sig =>
    rw [h1] at h; simp only [] at h
    split at h
    · cases h; simp
    · cases h2 : f.field off LOG HyperVStorageReplayLog.num_entries with
      | error y => rw [h2] at h; cases h; have := field_err _ _ _ _ _ h2; subst this; simp
      | ok n =>
        rw [h2] at h; simp only [] at h
        split at h <;> cases h
        simp

theorem stepReg_err (f : File) (e : ObjEntry) (r : Reg) (x : Err) (h : stepReg f e r = .error x) : x ≠ .nonTermination := by
  unfold stepReg at h
  simp only [bind, Except.bind] at h
  split at h
  · rename_i y hy
    cases h
    split at hy
    · split at hy
      · rename_i z hz; cases hy; intro hc; subst hc; exact parseKeyTable_terminates _ _ hz
      · cases hy
    · cases hy
  · rename_i r1 _
    split at h
    · rename_i y hy; split at hy <;> cases hy
    · rename_i r2 _
      split at h
      · split at h
        · rename_i z hz; cases h; exact checkReplayLog_err f e.offset _ hz
        · cases h
      · cases h

/-- offsets of the loaded tables are distinct and lie inside the file -/
def WInv (f : File) (w : Walk) : Prop := w.visited.Nodup ∧ ∀ o ∈ w.visited, o < f.size

theorem stepObj_spec (f : File) (e : ObjEntry) (w : Walk) (hw : WInv f w) :
    (∀ x, stepObj f e w = .error x → x ≠ .nonTermination) ∧
    (∀ w', stepObj f e w = .ok w' → WInv f w' ∧ w'.reg = w.reg ∧
      ∃ k, w'.visited.length = w.visited.length + k ∧ w'.pending.length = w.pending.length + k) := by
  unfold stepObj
  split
  · rename_i hc
    cases hl : loadObjectTable f e.offset with
    | error x => exact ⟨fun y hy => (by cases hy; exact (loadObjectTable_spec f e.offset).1 x hl), fun _ h => (by cases h)⟩
    | ok es =>
      refine ⟨fun _ h => (by cases h), ?_⟩
      intro w' h
      cases h
      have hlt := (loadObjectTable_spec f e.offset).2 es hl
      have hnm : e.offset ∉ w.visited := by
        have := hc.2; simpa using this
      refine ⟨⟨?_, ?_⟩, rfl, 1, by simp, by simp⟩
      · exact List.nodup_append.2 ⟨hw.1, by simp, by
          intro a ha b hb; simp at hb; subst hb; intro hab; subst hab; exact hnm ha⟩
      · intro o ho
        simp only [List.mem_append, List.mem_singleton] at ho
        rcases ho with ho | ho
        · exact hw.2 o ho
        · subst ho; exact hlt
  · exact ⟨fun _ h => (by cases h), fun w' h => by cases h; exact ⟨hw, rfl, 0, rfl, rfl⟩⟩

theorem stepEntry_spec (f : File) (e : ObjEntry) (w : Walk) (hw : WInv f w) :
    (∀ x, stepEntry f e w = .error x → x ≠ .nonTermination) ∧
    (∀ w', stepEntry f e w = .ok w' → WInv f w' ∧
      ∃ k, w'.visited.length = w.visited.length + k ∧ w'.pending.length = w.pending.length + k) := by
  unfold stepEntry
  split
  · exact ⟨fun _ h => (by cases h), fun w' h => by cases h; exact ⟨hw, 0, rfl, rfl⟩⟩
  · have so := stepObj_spec f e w hw
    cases h1 : stepObj f e w with
    | error x => exact ⟨fun y hy => (by cases hy; exact so.1 x h1), fun _ h => (by cases h)⟩
    | ok w1 =>
      simp only []
      obtain ⟨hi, _, k, hk1, hk2⟩ := so.2 w1 h1
      cases h2 : stepReg f e w1.reg with
      | error x => exact ⟨fun y hy => (by cases hy; exact stepReg_err f e _ x h2), fun _ h => (by cases h)⟩
      | ok r =>
        refine ⟨fun _ h => (by cases h), fun w' h => ?_⟩
        cases h
        exact ⟨hi, k, hk1, hk2⟩

theorem stepEntries_spec (f : File) : ∀ (es : List ObjEntry) (w : Walk), WInv f w →
    (∀ x, stepEntries f es w = .error x → x ≠ .nonTermination) ∧
    (∀ w', stepEntries f es w = .ok w' → WInv f w' ∧
      ∃ k, w'.visited.length = w.visited.length + k ∧ w'.pending.length = w.pending.length + k) := by
  intro es
  induction es with
  | nil => intro w hw; exact ⟨fun _ h => (by simp [stepEntries] at h), fun w' h => by simp only [stepEntries] at h; cases h; exact ⟨hw, 0, rfl, rfl⟩⟩
  | cons e es ih =>
    intro w hw
    have se := stepEntry_spec f e w hw
    unfold stepEntries
    cases h1 : stepEntry f e w with
    | error x => exact ⟨fun y hy => (by cases hy; exact se.1 x h1), fun _ h => (by cases h)⟩
    | ok w1 =>
      simp only []
      obtain ⟨hi, k, hk1, hk2⟩ := se.2 w1 h1
      obtain ⟨a, b⟩ := ih w1 hi
      refine ⟨a, fun w' h => ?_⟩
      obtain ⟨hi', k', hk1', hk2'⟩ := b w' h
      exact ⟨hi', k + k', by omega, by omega⟩

/-- pigeonhole: distinct naturals below `n` -/
theorem nodup_length_le : ∀ (n : Nat) (l : List Nat), l.Nodup → (∀ x ∈ l, x < n) → l.length ≤ n := by
  intro n
  induction n with
  | zero =>
    intro l _ hb
    cases l with
    | nil => simp
    | cons a l => exact absurd (hb a (by simp)) (by omega)
  | succ n ih =>
    intro l hn hb
    have h1 : (l.erase n).Nodup := hn.erase n
    have h2 : ∀ x ∈ l.erase n, x < n := by
      intro x hx
      have := (hn.mem_erase_iff).1 hx
      have := hb x this.2
      omega
    have h3 := ih (l.erase n) h1 h2
    have h4 : (l.erase n).length = if n ∈ l then l.length - 1 else l.length := List.length_erase
    split at h4 <;> omega

theorem walkTables_terminates (f : File) : ∀ fuel (w : Walk), WInv f w →
    (f.size - w.visited.length) + w.pending.length ≤ fuel → walkTables f fuel w ≠ .error .nonTermination := by
  intro fuel
  induction fuel with
  | zero =>
    intro w _ h
    have : w.pending = [] := by
      cases hp : w.pending with
      | nil => rfl
      | cons a r => rw [hp] at h; simp at h
    simp [walkTables, this]
  | succ fuel ih =>
    intro w hw h
    unfold walkTables
    cases hp : w.pending with
    | nil => simp
    | cons es rest =>
      simp only []
      have hw0 : WInv f { w with pending := rest } := hw
      have sp := stepEntries_spec f es { w with pending := rest } hw0
      cases h1 : stepEntries f es { w with pending := rest } with
      | error x => simp only []; intro hc; cases hc; exact sp.1 _ h1 rfl
      | ok w' =>
        simp only []
        obtain ⟨hi, k, hk1, hk2⟩ := sp.2 w' h1
        have hle := nodup_length_le f.size w'.visited hi.1 hi.2
        rw [hp] at h
        simp only [List.length_cons] at h hk1 hk2
        exact ih w' hi (by omega)

theorem parseHeader_err (f : File) (off : Nat) (x : Err) (h : parseHeader f off = .error x) : x = .eof := by
  unfold parseHeader at h
  simp only [bind, Except.bind] at h
  repeat' (split at h)
  all_goals first | (cases h; done) | skip
  all_goals (cases h; rename_i hh; first | exact field_err _ _ _ _ _ hh | skip)

/-- **object-table walk terminates**: `HyperVFile.__init__` up to the linking phase never exhausts the model's fuel -/
theorem load_terminates (f : File) : load f ≠ .error .nonTermination := by
  unfold load
  simp only [bind, Except.bind]
  cases h1 : parseHeader f FIRST_HEADER_OFFSET with
  | error x => have := parseHeader_err _ _ _ h1; subst this; simp
  | ok a =>
    cases h2 : parseHeader f SECOND_HEADER_OFFSET with
    | error x => have := parseHeader_err _ _ _ h2; subst this; simp
    | ok b =>
      simp only []
      split
      · simp
      · split
        · simp
        · cases h3 : checkReplayLog f (chooseHeader a b).replayLogOffset with
          | error x => simp only []; intro hc; cases hc; exact checkReplayLog_err _ _ _ h3 rfl
          | ok u =>
            cases h4 : loadObjectTable f OBJECT_TABLE_OFFSET with
            | error x => simp only []; intro hc; cases hc; exact (loadObjectTable_spec f _).1 _ h4 rfl
            | ok es =>
              simp only []
              have hlt := (loadObjectTable_spec f _).2 es h4
              apply walkTables_terminates
              · exact ⟨by simp, by intro o ho; simp at ho; subst ho; exact hlt⟩
              · simp [walkFuel] <;> omega


/-- reading the bytes of an unsigned value ≥ 2^63 with the signed format gives a different (negative) number -/
theorem unpack_unsigned_as_signed (v : Nat) (h1 : 2 ^ 63 ≤ v) (h2 : v < 2 ^ 64) (r : Bytes) :
    unpack (some (true, 8)) 8 (leBytes 8 v ++ r) = .ok ((v : Int) - (2 ^ 64 : Nat)) := by
  simp only [unpack, take_leBytes_append, leBytes_length, ne_eq, not_true_eq_false, if_false, if_true]
  rw [leNat_leBytes_lt 8 v (by simpa using h2)]
  simp only [toSigned, Nat.reducePow, Nat.reduceMul, Nat.reduceSub] at *
  rw [if_neg (by omega)]

/-! ### a concrete file for the non-vacuity example (built with the specification-side encoders) -/

/-- a file given by a few byte segments (zero elsewhere): cheap random access for kernel evaluation -/
def segFile (segs : List (Nat × Bytes)) (size : Nat) : File :=
  ⟨size, fun p => match segs.find? (fun s => decide (s.1 ≤ p ∧ p < s.1 + s.2.length)) with
    | some s => s.2.getD (p - s.1) 0
    | none => 0⟩

def exHeader (seq logOff : Nat) : Bytes :=
  leBytes 4 SIGNATURE_STORAGE_HEADER ++ leBytes 4 0 ++ leBytes 2 seq ++ leBytes 4 VERSION ++ leBytes 8 0 ++ leBytes 4 0x1000
    ++ leBytes 8 logOff ++ leBytes 8 0x1000 ++ leBytes 4 0x1000

def exObj (typ off size alloc : Nat) : Bytes := leBytes 1 typ ++ leBytes 4 0 ++ leBytes 8 off ++ leBytes 4 size ++ leBytes 1 alloc

def exNode (pidx poff : Nat) (key : Bytes) : SEntry := SEntry.keyed tNode pidx poff 0 0 key (zeros 12)
def exVal (pidx poff : Nat) (key : Bytes) (v : Value) (slack : Bytes) : SEntry :=
  SEntry.keyed v.typ pidx poff 0xAABBCCDD 7 key (encodeValue v ++ slack)
def exFree (n : Nat) : SEntry := { typ := tFree, pidx := 9, poff := 9, ck := 0, ins := 0, doff := 3, body := List.replicate n 0xEE }

/-- active table of index 1 (sequence 5): node `cfg` at offset 10, a free entry, an Int and a UInt below `cfg` -/
def exT1 : List SEntry :=
  [exNode 0 0 [99, 102, 103], exFree 5, exVal 1 10 [110] (.int (-5)) [1, 2, 3], exVal 1 10 [117] (.uint (2 ^ 64 - 1)) []]
/-- stale copy of index 1 (sequence 1), listed later in the object table: same offsets, other content -/
def exT1old : List SEntry := [exNode 0 0 [111, 108, 100], exFree 5, exVal 1 10 [110] (.int 7) [1, 2, 3]]
/-- table of index 2: a string held in a file object, a bool and a double, all children of (1, 10) -/
def exT2 : List SEntry :=
  [SEntry.keyed (tString + 256) 1 10 0 0 [115] (leBytes 4 4 ++ leBytes 8 0x7000 ++ []),
   exVal 1 10 [98] (.bool true) [], exVal 1 10 [100] (.double 0x7FF8000000000001) []]

def exFile : File :=
  segFile
    [(0, exHeader 1 0x3000), (0x1000, exHeader 2 0x3000),
     (0x2000, leBytes 4 SIGNATURE_OBJECT_TABLE_HEADER ++ leBytes 4 6 ++
        exObj otKeyTable 0x4000 (KTH + totalSize exT1) 1 ++ exObj otKeyTable 0x6000 (KTH + totalSize exT2) 1 ++
        exObj otFile 0x7000 0x1000 1 ++ exObj otKeyTable 0x5000 (KTH + totalSize exT1old) 1 ++
        exObj otKeyTable 0x5000 (KTH + totalSize exT1old) 0 ++ exObj otObjectTable 0x2000 8 1),
     (0x3000, leBytes 4 SIGNATURE_REPLAY_LOG_HEADER ++ zeros 30),
     (0x4000, encodeTable 1 5 0 exT1), (0x5000, encodeTable 1 1 0 exT1old), (0x6000, encodeTable 2 9 0 exT2),
     (0x7000, unitsBytes [104, 105])]
    0x8000

def exExpected : List (Bytes × Option Value) :=
  [([99, 102, 103], none), ([110], some (.int (-5))), ([117], some (.uint (2 ^ 64 - 1))), ([115], some (.str [104, 105])),
   ([98], some (.bool true)), ([100], some (.double 0x7FF8000000000001))]

/-- two-level flattening, enough for the example -/
def flat2 : Tree → List (Bytes × Option Value)
  | .leaf _ => []
  | .node cs => cs.flatMap fun (k, t) => match t with
    | .leaf v => [(k, some v)]
    | .node cs' => (k, none) :: cs'.map fun (k', t') => match t' with | .leaf v => (k', some v) | .node _ => (k', none)

def exCheck : Bool :=
  match asDict exFile with
  | .ok t => flat2 t == exExpected
  | .error _ => false

end Hv.HyperV
