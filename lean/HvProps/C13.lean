/-
  C13 — lazy access: correct at multi-terabyte scale. The wide-offset obligations: every mask, shift and bit-field
  through which a reader decodes a file offset keeps every offset the format can express (beyond 2^32 bytes and 2^32
  sectors), with the masks / layouts taken from the extraction.
-/
import HvProofs.Wide
import HvProofs.Basic
namespace Hv.C13
open Hv Hv.Wide

/-! extracted masks = the formats' bit ranges -/
theorem qcow2_masks_spec :
    Extracted.qcow2.L2E_OFFSET_MASK = (2 ^ (56 - 9) - 1) <<< 9 ∧ Extracted.qcow2.L1E_OFFSET_MASK = (2 ^ (56 - 9) - 1) <<< 9 ∧
    Extracted.qcow2.QCOW_OFLAG_COPIED = 2 ^ 63 ∧ Extracted.qcow2.QCOW_OFLAG_COMPRESSED = 2 ^ 62 ∧
    Extracted.qcow2.QCOW_OFLAG_ZERO = 2 ^ 0 := by decide

/-- **qcow2_offset_mask_wide**: every host cluster offset below 2^56 (512-aligned, as every cluster is) survives the
    L2 offset mask, whichever of the COPIED (bit 63) and ZERO (bit 0) flags are set — in particular offsets ≥ 2^32. -/
theorem qcow2_offset_mask_wide (o : Nat) (ho : o < 2 ^ 56) (hal : o % 512 = 0) (copied zero : Bool) :
    (o ||| ((if copied then Extracted.qcow2.QCOW_OFLAG_COPIED else 0) ||| (if zero then Extracted.qcow2.QCOW_OFLAG_ZERO else 0)))
      &&& Extracted.qcow2.L2E_OFFSET_MASK = o := by
  obtain ⟨h1, _, h3, _, h5⟩ := qcow2_masks_spec
  rw [h1, h3, h5]
  apply mask_preserves 9 56 o _ (by omega) ho hal
  intro i hi1 hi2
  rw [Nat.testBit_or, if_two_pow_testBit copied 63 i (by omega), if_two_pow_testBit zero 0 i (by omega)]
  rfl

/-- **qcow2_l1_mask_wide**: L2 table offsets below 2^56 survive the L1 mask (COPIED flag or not) -/
theorem qcow2_l1_mask_wide (o : Nat) (ho : o < 2 ^ 56) (hal : o % 512 = 0) (copied : Bool) :
    (o ||| (if copied then Extracted.qcow2.QCOW_OFLAG_COPIED else 0)) &&& Extracted.qcow2.L1E_OFFSET_MASK = o := by
  obtain ⟨_, h2, h3, _, _⟩ := qcow2_masks_spec
  rw [h2, h3]
  apply mask_preserves 9 56 o _ (by omega) ho hal
  intro i hi1 hi2
  exact if_two_pow_testBit copied 63 i (by omega)

/-- **qcow2_compressed_descriptor_wide**: for every cluster size (cluster_bits 9..21) a compressed-cluster
    descriptor `COMPRESSED | (nb_csectors-1) << x | host_offset` (x = 62 − (cluster_bits − 8)) decodes to exactly
    that host offset (any offset below 2^x, i.e. up to 2^61) and that sector count. -/
theorem qcow2_compressed_descriptor_wide (q : Qcow2.QCow2) (hcb : 9 ≤ q.clusterBits ∧ q.clusterBits ≤ 21)
    (coff n : Nat) (hc : coff < 2 ^ q.csizeShift) (hn : n < 2 ^ (q.clusterBits - 8)) :
    let desc := 2 ^ 62 + n * 2 ^ q.csizeShift + coff
    desc &&& q.clusterOffsetMask = coff ∧ (desc >>> q.csizeShift) &&& q.csizeMask = n := by
  intro desc
  simp only [Qcow2.QCow2.clusterOffsetMask, Qcow2.QCow2.csizeMask, Nat.and_two_pow_sub_one_eq_mod, Nat.shiftRight_eq_div_pow]
  have hs : q.csizeShift + (q.clusterBits - 8) = 62 := by simp only [Qcow2.QCow2.csizeShift]; omega
  have h62 : (2 : Nat) ^ 62 = 2 ^ (q.clusterBits - 8) * 2 ^ q.csizeShift := by rw [← Nat.pow_add, Nat.add_comm, hs]
  have hpos : 0 < 2 ^ q.csizeShift := Nat.two_pow_pos _
  constructor
  · show (2 ^ 62 + n * 2 ^ q.csizeShift + coff) % 2 ^ q.csizeShift = coff
    rw [h62, ← Nat.add_mul, Nat.add_comm, Nat.add_mul_mod_self_right, Nat.mod_eq_of_lt hc]
  · show (2 ^ 62 + n * 2 ^ q.csizeShift + coff) / 2 ^ q.csizeShift % 2 ^ (q.clusterBits - 8) = n
    rw [h62, ← Nat.add_mul, Nat.add_comm, Nat.add_mul_div_right _ _ hpos, Nat.div_eq_of_lt hc, Nat.zero_add,
      Nat.add_mod_left, Nat.mod_eq_of_lt hn]

/-! VMDK SE-sparse grain entries: type nibble, low 12 bits of the sector in bits 48..59, the rest in bits 0..47 -/
theorem sesparse_masks_spec :
    Vmdk.G_HI_MASK = 0xFFF <<< 48 ∧ Vmdk.G_HI_SHIFT = 48 ∧ Vmdk.G_LO_MASK = 2 ^ 48 - 1 ∧ Vmdk.G_LO_SHIFT = 12 ∧
    Extracted.vmdk.SESPARSE_GRAIN_TYPE_MASK = 0xF <<< 60 ∧ Extracted.vmdk.SESPARSE_GRAIN_TYPE_ALLOCATED = 3 <<< 60 := by decide

/-- **sesparse_entry_wide**: an allocated SE-sparse grain entry for grain number `s` — any `s < 2^60`, far beyond
    2^32 — decodes to the sector `grains_offset + s · grain_size`; it never collides with the 0 / 1 sentinels of
    unallocated / zero grains when `grains_offset ≥ 2`. -/
theorem sesparse_entry_wide (v : Vmdk.Sparse) (s : Nat) (hs : s < 2 ^ 60) :
    v.decodeSe (3 * 2 ^ 60 + (s % 4096) * 2 ^ 48 + s / 4096) = .ok (v.grainsOffset + s * v.grainSize) := by
  obtain ⟨h1, h2, h3, h4, h5, h6⟩ := sesparse_masks_spec
  have hlo : s / 4096 < 2 ^ 48 := by omega
  have hhi : s % 4096 < 4096 := Nat.mod_lt _ (by omega)
  obtain ⟨e, he⟩ : ∃ e, e = 3 * 2 ^ 60 + (s % 4096) * 2 ^ 48 + s / 4096 := ⟨_, rfl⟩
  rw [← he]
  have he' : e = 3 * 1152921504606846976 + (s % 4096) * 281474976710656 + s / 4096 := by
    rw [he]
  obtain ⟨r, hr⟩ : ∃ r, r = s % 4096 := ⟨_, rfl⟩
  obtain ⟨b, hb⟩ : ∃ b, b = s / 4096 := ⟨_, rfl⟩
  rw [← hr, ← hb] at he'
  have hr' : r < 4096 := by omega
  have hb' : b < 281474976710656 := by omega
  have ht : r * 281474976710656 + b < 1152921504606846976 := by omega
  have hdiv60 : e / 1152921504606846976 = 3 := by omega
  have hdiv48 : e / 281474976710656 = 3 * 4096 + r := by omega
  have hmod48 : e % 281474976710656 = b := by omega
  have hty : e &&& Extracted.vmdk.SESPARSE_GRAIN_TYPE_MASK = Extracted.vmdk.SESPARSE_GRAIN_TYPE_ALLOCATED := by
    rw [h5, h6]
    have : e &&& 0xF <<< 60 = ((e >>> 60) &&& 0xF) <<< 60 := by
      apply Nat.eq_of_testBit_eq; intro i
      simp only [Nat.testBit_and, Nat.testBit_shiftLeft, Nat.testBit_shiftRight]
      by_cases h : 60 ≤ i
      · simp [h, Nat.add_sub_cancel' h]
      · simp [h]
    rw [this, Nat.shiftRight_eq_div_pow, show (0xF : Nat) = 2 ^ 4 - 1 by decide, Nat.and_two_pow_sub_one_eq_mod]
    have : e / 2 ^ 60 % 2 ^ 4 = 3 := by
      show e / 1152921504606846976 % 16 = 3
      rw [hdiv60]
    rw [this]
  have hHi : (e &&& Vmdk.G_HI_MASK) >>> Vmdk.G_HI_SHIFT = s % 4096 := by
    rw [h1, h2, Nat.shiftRight_and_distrib, show (0xFFF <<< 48) >>> 48 = 2 ^ 12 - 1 by decide,
      Nat.and_two_pow_sub_one_eq_mod, Nat.shiftRight_eq_div_pow]
    show e / 281474976710656 % 4096 = s % 4096
    rw [hdiv48, ← hr]; omega
  have hLo : (e &&& Vmdk.G_LO_MASK) <<< Vmdk.G_LO_SHIFT = (s / 4096) * 4096 := by
    rw [h3, h4, Nat.and_two_pow_sub_one_eq_mod, Nat.shiftLeft_eq]
    have : e % 2 ^ 48 = s / 4096 := by
      show e % 281474976710656 = s / 4096
      rw [hmod48, hb]
    rw [this]
  unfold Vmdk.Sparse.decodeSe
  simp only [hty, hHi, hLo]
  have d1 : Extracted.vmdk.SESPARSE_GRAIN_TYPE_ALLOCATED ≠ Extracted.vmdk.SESPARSE_GRAIN_TYPE_UNALLOCATED := by decide
  have d2 : Extracted.vmdk.SESPARSE_GRAIN_TYPE_ALLOCATED ≠ Extracted.vmdk.SESPARSE_GRAIN_TYPE_FALLTHROUGH := by decide
  have d3 : Extracted.vmdk.SESPARSE_GRAIN_TYPE_ALLOCATED ≠ Extracted.vmdk.SESPARSE_GRAIN_TYPE_ZERO := by decide
  simp only [d1, d2, d3, or_self, if_false, if_true]
  have hor : s % 4096 ||| s / 4096 * 4096 = s := by
    have := Nat.shiftLeft_add_eq_or_of_lt (a := s / 4096) (b := s % 4096) (i := 12) (by omega)
    rw [Nat.shiftLeft_eq] at this
    rw [Nat.or_comm, ← this]
    omega
  rw [hor]

/-- **vhdx_file_offset_wide**: a VHDX BAT entry `state | file_offset_mb << 20` decodes, through the extracted
    bit-field layout, to exactly that state and that MiB offset for every `file_offset_mb < 2^44` (16 EiB). -/
theorem vhdx_file_offset_wide (state mb : Nat) (hs : state < 8) (hm : mb < 2 ^ 44) :
    Extracted.vhdx.bat_entry.file_offset_mb.decode (leBytes 8 (state + mb * 2 ^ 20)) = mb ∧
    Extracted.vhdx.bat_entry.state.decode (leBytes 1 ((state + mb * 2 ^ 20) % 256)) = state := by
  have hl : ∀ n v, v < 256 ^ n → leNat (leBytes n v) = v := by
    intro n
    induction n with
    | zero => intro v h; simp at h; subst h; rfl
    | succ n ih =>
      intro v h
      simp only [leBytes, leNat]
      rw [ih (v / 256) (by rw [Nat.pow_succ] at h; omega)]
      have : (UInt8.ofNat (v % 256)).toNat = v % 256 := by
        simp
      rw [this]; omega
  have e1 : Extracted.vhdx.bat_entry.file_offset_mb = ⟨0, 8, false, 20, 44⟩ := by decide
  have e2 : Extracted.vhdx.bat_entry.state = ⟨0, 1, false, 0, 3⟩ := by decide
  rw [e1, e2]
  simp only [Field.decode, Bool.false_eq_true, if_false]
  rw [hl 8 _ (by omega), hl 1 _ (by omega)]
  constructor <;> omega

/-- **vhd_bat_entry_unsigned**: a VHD BAT entry is an unsigned big-endian 32-bit sector number: every value below
    2^32 − 1 (2 TiB of file) decodes to itself, never to a negative number, and the byte offset is `entry · 512`. -/
theorem vhd_bat_entry_unsigned (e : Nat) (he : e < 2 ^ 32) :
    Extracted.vhd.BAT_ENTRY_FORMAT = ">I" ∧ beNat (beBytes 4 e) = e := by
  refine ⟨by decide, ?_⟩
  have : ∀ n v, v < 256 ^ n → beNat (beBytes n v) = v := by
    intro n v h
    have hl : ∀ n v, v < 256 ^ n → leNat (leBytes n v) = v := by
      intro n
      induction n with
      | zero => intro v h; simp at h; subst h; rfl
      | succ n ih =>
        intro v h
        simp only [leBytes, leNat]
        rw [ih (v / 256) (by rw [Nat.pow_succ] at h; omega)]
        have : (UInt8.ofNat (v % 256)).toNat = v % 256 := by simp
        rw [this]; omega
    have hb : ∀ (l : Bytes), beNat l.reverse = leNat l := by
      intro l
      induction l with
      | nil => rfl
      | cons a t ih =>
        simp only [List.reverse_cons, beNat, List.foldl_append, List.foldl_cons, List.foldl_nil, leNat]
        have := ih; simp only [beNat] at this; rw [this]; omega
    rw [beBytes, hb, hl n v h]
  exact this 4 e (by omega)

/-! non-vacuity: concrete far offsets -/
example : (0xFF000000 * 512 : Nat) ≥ 2 ^ 40 ∧ beNat (beBytes 4 0xFF000000) = 0xFF000000 := by decide
example : ((2 ^ 55 + 2 ^ 33 : Nat) ||| 2 ^ 63) &&& Extracted.qcow2.L2E_OFFSET_MASK = 2 ^ 55 + 2 ^ 33 := by decide

end Hv.C13
