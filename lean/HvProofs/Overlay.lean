/-
  HvProofs.Overlay — chains of layers read as the overlay (C07): the generic induction, the
  VHDX chain, QCOW2 backing (incl. a backing file shorter than the overlay), and the layer
  form of the VDI / HDS / VMDK specifications.
-/
import HvProofs.VhdxDiff
import HvProofs.Vdi
import HvProofs.Hds
import HvProofs.Vmdk
namespace Hv.Layers
open Hv

theorem SectorReadsAs.mono {rd : Nat → Nat → Except Err Bytes} {ss n m : Nat} {c : Nat → UInt8}
    (h : SectorReadsAs rd ss n c) (hm : m ≤ n) : SectorReadsAs rd ss m c :=
  fun s k hk => h s k (Nat.le_trans hk hm)

/-- generic chain induction: if every element of a chain turns a reader of the content below
    it into a reader of its layer over that content, the chain reads as the overlay -/
theorem chain_overlay {R : Type} (Reads : R → (Nat → UInt8) → Prop) (base : R) (bc : Nat → UInt8)
    (hb : Reads base bc) :
    ∀ (ls : List (Layer × (R → R))),
      (∀ x ∈ ls, ∀ below pc, Reads below pc → Reads (x.2 below) (x.1.over pc)) →
      Reads (chainReader base (ls.map (·.2))) (overlayOn (ls.map (·.1)) bc) := by
  intro ls
  induction ls with
  | nil => intro _; exact hb
  | cons x rest ih =>
    intro h
    simp only [List.map_cons, chainReader, overlayOn]
    apply h x (by simp)
    exact ih (fun y hy => h y (by simp [hy]))

theorem overlayOn_base (ls : List Layer) (c : Nat → UInt8) :
    overlayOn (ls ++ [Layer.base c]) (fun _ => 0) = overlayOn ls c := by
  induction ls with
  | nil => funext o; simp [overlayOn, Layer.over, Layer.base]
  | cons l rest ih => simp only [List.cons_append, overlayOn, ih]

end Hv.Layers

namespace Hv.Vhdx
open Hv Hv.Layers

/-- a VHDX chain of any depth reads as the overlay of its layers -/
theorem chain_reads (vs : List Vhdx) : IsChain vs → ∀ v, vs.head? = some v →
    SectorReadsAs v.reader v.sectorSize v.nSectors (overlay (chainLayers vs)) := by
  induction vs with
  | nil => intro h; exact absurd h (by simp [IsChain])
  | cons v rest ih =>
    intro h w hw
    simp only [List.head?_cons, Option.some.injEq] at hw
    subst hw
    cases rest with
    | nil =>
      have hwf : WF v := h
      have e : overlay (chainLayers [v]) = v.guest := by
        funext o; simp [overlay, chainLayers, overlayOn, Layer.over, Layer.base]
      rw [e]
      exact base_sectorReadsAs v hwf
    | cons p rest' =>
      obtain ⟨hwfd, hpar, hss, hns, hrest⟩ := h
      have hp := ih hrest p rfl
      have e : overlay (chainLayers (v :: p :: rest')) = v.guestDiff (overlay (chainLayers (p :: rest'))) := by
        funext o; simp [overlay, chainLayers, overlayOn, Vhdx.guestDiff]
      rw [e]
      apply diff_sectorReadsAs v _ hwfd
      refine ⟨p.reader, hpar, ?_⟩
      rw [hss]
      exact hp.mono hns

theorem chainWfb_sound : ∀ (vs : List Vhdx), chainWfb vs = true → Linked vs → IsChain vs
  | [], h, _ => by simp [chainWfb] at h
  | [b], h, _ => wfb_sound b h
  | v :: p :: rest, h, hl => by
    simp only [chainWfb, Bool.and_eq_true, decide_eq_true_eq] at h
    obtain ⟨⟨⟨h1, h2⟩, h3⟩, h4⟩ := h
    exact ⟨wfdb_sound v h1, hl.1, h2, h3, chainWfb_sound (p :: rest) h4 hl.2⟩

end Hv.Vhdx

namespace Hv.Qcow2
open Hv Hv.Layers Hv.Extracted.qcow2

theorem slice_padTo (c : Nat → UInt8) (size off len : Nat) :
    slice c off (min len (size - off)) ++ zeros (len - min len (size - off)) = slice (padTo c size) off len := by
  generalize hk : min len (size - off) = k
  have hlen : len = k + (len - k) := by omega
  conv => rhs; rw [hlen, slice_append]
  congr 1
  · apply slice_congr
    intro i hi
    have : off + i < size := by omega
    simp [padTo, this]
  · apply zeros_eq_slice
    intro i hi
    have : ¬ off + k + i < size := by omega
    simp [padTo, this]

/-- an unallocated run over a backing handle: the backing bytes, then zeros beyond its end -/
theorem runData_unallocated (q : QCow2) (r : Run) (bc : Nat → UInt8) (bsz : Nat)
    (hb : BackingOK q bc bsz) (ht : r.type = 0 ∨ r.type = 1) :
    q.runData r = .ok (slice (padTo bc bsz) r.readOffset r.count) := by
  obtain ⟨b, hbk, hrd⟩ := hb
  unfold QCow2.runData
  have hz : ZERO_SUBCLUSTER_TYPES.contains r.type = false := by
    rcases ht with h | h <;> rw [h] <;> decide
  have hu : UNALLOCATED_SUBCLUSTER_TYPES.contains r.type = true := by
    rcases ht with h | h <;> rw [h] <;> decide
  simp only [hz, hu, hbk, Option.isNone_some, Bool.false_eq_true, and_false, or_self, if_false, if_true,
    bind, Except.bind, hrd, slice_length]
  rw [slice_padTo]

/-- no backing handle: zeros -/
theorem runData_unallocated_nobacking (q : QCow2) (r : Run) (hb : q.backing = none) (ht : r.type = 0 ∨ r.type = 1) :
    q.runData r = .ok (zeros r.count) := by
  unfold QCow2.runData
  have hu : UNALLOCATED_SUBCLUSTER_TYPES.contains r.type = true := by
    rcases ht with h | h <;> rw [h] <;> decide
  simp only [hu, hb, Option.isNone_none, and_self, or_true, if_true]

end Hv.Qcow2

namespace Hv.Vdi
open Hv Hv.Layers

theorem guest_eq_over (v : Vdi) (pc : Nat → UInt8) (hp : v.parent.isSome) : guest v pc = (layer v).over pc := by
  funext o
  unfold guest layer Layer.over
  simp only
  cases v.map[o / v.blockSize]? with
  | none => simp
  | some b =>
    by_cases h1 : b = -1
    · simp [h1, hp]
    · by_cases h2 : b = -2
      · simp [h2]
      · simp [h1, h2]

end Hv.Vdi

namespace Hv.Hds
open Hv Hv.Layers

theorem guest_eq_over (v : Hds) (pc : Nat → UInt8) (hp : v.parent.isSome) : v.guest pc = v.layer.over pc := by
  funext o
  unfold Hds.guest Hds.layer Layer.over
  simp only
  cases v.bat[o / v.clusterSize]? with
  | none => simp
  | some e =>
    by_cases h1 : e = 0
    · simp [h1, hp]
    · simp [h1]

end Hv.Hds

namespace Hv.Vmdk
open Hv Hv.Layers

/-- a delta extent reads as its layer over the parent content at the extent's absolute position -/
theorem guest_eq_over (v : Sparse) (pc : Nat → UInt8) (hp : v.parent.isSome) :
    v.guest pc = v.layer.over (fun o => pc (v.sectorOffset * 512 + o)) := by
  funext o
  unfold Sparse.guest Sparse.layer Layer.over
  simp only
  by_cases h0 : v.specGrain (o / 512 / v.grainSize) = 0
  · simp [h0, hp]
  · simp [h0]

/-- a request whose grains are all unallocated in the delta reads the parent at the absolute sector -/
theorem delta_parent_sector (v : Sparse) (pc : Nat → UInt8) (hwf : WF v) (hp : ParentOK v pc)
    (hpar : v.parent.isSome) (sector count : Nat) (hs : v.sectorOffset ≤ sector)
    (hin : sector - v.sectorOffset + count ≤ v.capacity)
    (hun : ∀ s, sector - v.sectorOffset ≤ s → s < sector - v.sectorOffset + count → v.specGrain (s / v.grainSize) = 0) :
    v.readSectors sector count = .ok (slice pc (sector * 512) (count * 512)) := by
  rw [sparse_readSectors_correct v pc hwf hp sector count hs hin]
  apply congrArg Except.ok
  apply slice_shift
  intro i hi
  have h1 : ((sector - v.sectorOffset) * 512 + i) / 512 = sector - v.sectorOffset + i / 512 := by omega
  have h0 := hun (sector - v.sectorOffset + i / 512) (by omega) (by omega)
  unfold Sparse.guest
  simp only [h1, h0, hpar, if_true]
  apply congrArg pc
  have : sector = v.sectorOffset + (sector - v.sectorOffset) := by omega
  rw [Nat.mul_comm (sector - v.sectorOffset)]
  omega

end Hv.Vmdk
