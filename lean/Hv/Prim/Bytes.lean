/-
  Hv.Prim.Bytes — byte strings, immutable files, slices, integer codecs.
  Mathlib-free (imported by the compiled driver).
-/
namespace Hv

abbrev Bytes := List UInt8

/-- Small error enum. Only *ok vs error* is verdict-bearing; the kind is diagnostic. -/
inductive Err where
  | eof            -- short read where the code needs an exact amount (cstruct EOFError)
  | index          -- IndexError / KeyError
  | value          -- ValueError / explicit refusal
  | format         -- bad magic / unsupported feature (a gate)
  | nonTermination -- model ran out of fuel (proved unreachable)
  | other
  deriving Repr, DecidableEq, Inhabited

def Err.toString : Err → String
  | .eof => "eof" | .index => "index" | .value => "value" | .format => "format"
  | .nonTermination => "nonterm" | .other => "other"

instance : ToString Err := ⟨Err.toString⟩

instance {ε α : Type} [DecidableEq ε] [DecidableEq α] : DecidableEq (Except ε α)
  | .ok a, .ok b => if h : a = b then isTrue (by rw [h]) else isFalse (by intro e; cases e; exact h rfl)
  | .error a, .error b => if h : a = b then isTrue (by rw [h]) else isFalse (by intro e; cases e; exact h rfl)
  | .ok _, .error _ => isFalse (by intro e; cases e)
  | .error _, .ok _ => isFalse (by intro e; cases e)

/-- `len` bytes of the function `g` starting at `off`. -/
def slice (g : Nat → UInt8) (off len : Nat) : Bytes :=
  (List.range len).map fun i => g (off + i)

def zeros (n : Nat) : Bytes := List.replicate n 0

/-- Immutable file / handle contents. -/
structure File where
  size : Nat
  byte : Nat → UInt8

/-- Python `fh.seek(off); fh.read(len)`: short at EOF, empty beyond. -/
def File.read (f : File) (off len : Nat) : Bytes :=
  slice f.byte off (min len (f.size - off))

/-- cstruct-style exact read: raises EOFError when fewer bytes are available. -/
def File.readExact (f : File) (off len : Nat) : Except Err Bytes :=
  if off + len ≤ f.size then .ok (slice f.byte off len) else .error .eof

/-- little-endian decode -/
def leNat : Bytes → Nat
  | [] => 0
  | b :: bs => b.toNat + 256 * leNat bs

/-- big-endian decode -/
def beNat (bs : Bytes) : Nat := bs.foldl (fun acc b => acc * 256 + b.toNat) 0

/-- little-endian encode to exactly `n` bytes (truncating) -/
def leBytes : Nat → Nat → Bytes
  | 0, _ => []
  | n+1, v => UInt8.ofNat (v % 256) :: leBytes n (v / 256)

def beBytes (n v : Nat) : Bytes := (leBytes n v).reverse

/-- field read from a file: `w` bytes at `off`, little endian -/
def File.le (f : File) (off w : Nat) : Except Err Nat :=
  (f.readExact off w).map leNat

def File.be (f : File) (off w : Nat) : Except Err Nat :=
  (f.readExact off w).map beNat

/-- two's complement reinterpretation of a `w`-bit value -/
def toSigned (w : Nat) (v : Nat) : Int :=
  if v < 2 ^ (w - 1) then (v : Int) else (v : Int) - (2 ^ w : Nat)

/-- A guest-visible disk: the specification object. -/
structure Disk where
  size : Nat
  content : Nat → UInt8

/-- `rd` reads as disk `d` for every in-range request. -/
def ReadsAs (rd : Nat → Nat → Except Err Bytes) (d : Disk) : Prop :=
  ∀ off len, off + len ≤ d.size → rd off len = .ok (slice d.content off len)

end Hv
