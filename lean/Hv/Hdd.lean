/-
  Hv.Hdd — model of `StorageStream` (dissect/hypervisor/disk/hdd.py) and the snapshot
  chain resolution of `Descriptor.get_snapshot_chain`.
-/
import Hv.Hds
namespace Hv.Hdd
open Hv

abbrev Reader := Nat → Nat → Except Err Bytes

structure Storage where
  start : Nat           -- sectors
  end_ : Nat
  stream : Reader       -- `stream.seek(off); stream.read(n)`

structure StorageStream where
  streams : Array Storage      -- sorted by `start`
  size : Nat

/-- `sorted(streams, key=start)`: stable insertion sort -/
def sortByStart (l : List Storage) : List Storage :=
  l.foldl (fun acc s =>
    let (a, b) := acc.span (fun y => y.start ≤ s.start)
    a ++ [s] ++ b) []

/-- `StorageStream.__init__` -/
def mk (l : List Storage) : StorageStream :=
  let sorted := sortByStart l
  ⟨sorted.toArray, (match sorted.getLast? with | some s => s.end_ * 512 | none => 0)⟩

def bisectRight (l : List Nat) (x : Nat) : Nat := (l.takeWhile (· ≤ x)).length

def StorageStream.loop (v : StorageStream) : Nat → Nat → Nat → Nat → Except Err Bytes
  | 0, _, count, idx => if count = 0 ∨ idx ≥ v.streams.size then .ok [] else .error .nonTermination
  | fuel+1, sector, count, idx =>
    if count = 0 then .ok [] else
    match v.streams[idx]? with
    | none => .ok []
    | some st =>
      -- sectors_remaining = storage.end - sector (Python int); a non-positive amount makes no progress
      if st.end_ ≤ sector then
        -- read_sectors ≤ 0: `stream.read(negative)` reads to the end of that stream — outside the
        -- domain of well-formed descriptors; refused by the model
        .error .other
      else if sector < st.start then .error .value      -- seek to a negative position
      else do
        let n := min (st.end_ - sector) count
        let d ← st.stream ((sector - st.start) * 512) (n * 512)
        let rest ← v.loop fuel (sector + n) (count - n) (idx + 1)
        .ok (d ++ rest)

/-- `StorageStream._read` -/
def StorageStream.read (v : StorageStream) (offset length : Nat) : Except Err Bytes :=
  let sector := offset / 512
  let count := (length + 512 - 1) / 512
  let k := bisectRight (v.streams.toList.map (·.start)) sector
  if k = 0 then .error .other       -- index -1: Python wraps to the last stream (malformed descriptors only)
  else v.loop (count + 1) sector count (k - 1)

/-! snapshot chain: `get_snapshot_chain(guid)` over the list of shots `(guid, parent)` -/

def findShot (shots : List (Nat × Nat)) (g : Nat) : Option (Nat × Nat) := shots.find? (·.1 = g)

/-- chain from `guid` to the root; `nullGuid` terminates; a repeated GUID is an error -/
def chainLoop (shots : List (Nat × Nat)) (nullGuid : Nat) : Nat → Nat × Nat → List Nat → Except Err (List Nat)
  | 0, _, _ => .error .nonTermination
  | fuel+1, shot, chain =>
    if shot.2 = nullGuid then .ok chain.reverse
    else match findShot shots shot.2 with
      | none => .error .index                    -- KeyError: Shot GUID not found
      | some p => if chain.contains p.1 then .error .value else chainLoop shots nullGuid fuel p (p.1 :: chain)

def snapshotChain (shots : List (Nat × Nat)) (nullGuid guid : Nat) : Except Err (List Nat) :=
  match findShot shots guid with
  | none => .error .index
  | some s => chainLoop shots nullGuid (shots.length + 1) s [s.1]

end Hv.Hdd
