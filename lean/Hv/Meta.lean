/-
  Hv.Meta — the metadata layer (property C14): for every format the record of *exposed*
  metadata, computed from the file by the open / parse models of the read-path properties
  (`Qcow2.open` + `Qcow2.readExtensions`, `Vhdx.open` + `Vhdx.metadataTable` + `Vhdx.parseLocator`,
  `Vmdk.readHeader` + `VmdkDesc.parse`, `Vhd.open`, `Vdi.open`, `Hds.open`) plus what those models
  did not need: the full QCOW2 snapshot table entry (`QCow2Snapshot.__init__`), the VHDX header
  choice with all header fields, the embedded VMDK descriptor, VHD / VDI / HDS header fields and
  the Parallels `DiskDescriptor.xml` classes over an abstract element tree.
-/
import Hv.Qcow2
import Hv.Vhdx
import Hv.Vmdk
import Hv.VmdkDesc
import Hv.Vhd
import Hv.Vdi
import Hv.Hds
namespace Hv.Meta
open Hv

/-! ## QCOW2 -/
section qcow2
open Hv.Extracted.qcow2 Hv.Extracted.c14

/-- literals of `_read_extensions` (`offset += (ext.len + 7) & 0xFFFFFFF8`) and `snapshots`
    (`offset += (entry_size + 7) & ~7`) -/
def EXT_PAD : Nat := read_extensions_literals.getD 1 0
def EXT_MASK : Nat := read_extensions_literals.getD 2 0
def SNAP_PAD : Nat := snapshots_literals.getD 1 0
def SNAP_INV : Nat := snapshots_literals.getD 2 0

/-- round up to the next multiple of 8 (what both expressions compute on their domains) -/
def align8 (n : Nat) : Nat := (n + 7) / 8 * 8

/-- file offsets of the extension *payloads*, recomputed from the walked list
    (`start` = header_length; every step is header + padded payload) -/
def extDataOffsets : Nat → List Qcow2.Ext → List Nat
  | _, [] => []
  | off, e :: es => (off + QCowExtension.size) :: extDataOffsets (off + QCowExtension.size + align8 e.len) es

/-- the last extension of a type (the attributes are overwritten in walk order) -/
def lastExt (exts : List Qcow2.Ext) (offs : List Nat) (magic : Nat) : Option (Qcow2.Ext × Nat) :=
  ((exts.zip offs).reverse.find? (fun p => p.1.magic = magic))

def KNOWN_EXT : List Nat :=
  [QCOW2_EXT_MAGIC_BACKING_FORMAT, QCOW2_EXT_MAGIC_FEATURE_TABLE, QCOW2_EXT_MAGIC_CRYPTO_HEADER,
   QCOW2_EXT_MAGIC_BITMAPS, QCOW2_EXT_MAGIC_DATA_FILE]

/-- one snapshot table entry as `QCow2Snapshot.__init__` exposes it -/
structure SnapFull where
  l1Offset : Nat
  l1Size : Nat
  dateSec : Nat
  dateNsec : Nat
  vmClock : Nat
  vmStateSize : Nat
  extraSize : Nat
  vmStateLarge : Nat
  diskSize : Nat
  icount : Nat
  unknownExtra : Option Bytes
  idStr : Bytes
  name : Bytes
  entrySize : Nat
  deriving Repr, DecidableEq

/-- the variable part after the fixed header, given the header's three size fields:
    known extra data (≤ 24 bytes, zero padded to the struct), unknown extra data, id, name.
    Reads are plain `read`s (short at the end of the file); the position advances by what was read. -/
def snapTail (fh : File) (p1 extraSize idSize nameSize : Nat) :
    Bytes × Option Bytes × Bytes × Bytes × Nat :=
  let xs := QCowSnapshotExtraData.size
  let extra := fh.read p1 (min extraSize xs)
  let padded := extra ++ zeros (xs - extra.length)
  let p2 := p1 + extra.length
  let unk : Option Bytes := if extraSize > xs then some (fh.read p2 (extraSize - xs)) else none
  let p3 := p2 + (match unk with | some u => u.length | none => 0)
  let idStr := fh.read p3 idSize
  let p4 := p3 + idStr.length
  let name := fh.read p4 nameSize
  (padded, unk, idStr, name, p4 + name.length)

/-- `QCow2Snapshot.__init__` -/
def readSnapFull (fh : File) (offset : Nat) : Except Err SnapFull :=
  let z := QCowSnapshotHeader.size
  if offset + z ≤ fh.size then
    let f := fun (fld : Field) => fld.decode (slice fh.byte (offset + fld.off) fld.width)
    let extraSize := f QCowSnapshotHeader.extra_data_size
    let t := snapTail fh (offset + z) extraSize (f QCowSnapshotHeader.id_str_size) (f QCowSnapshotHeader.name_size)
    .ok { l1Offset := f QCowSnapshotHeader.l1_table_offset, l1Size := f QCowSnapshotHeader.l1_size,
          dateSec := f QCowSnapshotHeader.date_sec, dateNsec := f QCowSnapshotHeader.date_nsec,
          vmClock := f QCowSnapshotHeader.vm_clock_nsec, vmStateSize := f QCowSnapshotHeader.vm_state_size,
          extraSize,
          vmStateLarge := QCowSnapshotExtraData.vm_state_size_large.decode ((t.1.drop QCowSnapshotExtraData.vm_state_size_large.off).take 8),
          diskSize := QCowSnapshotExtraData.disk_size.decode ((t.1.drop QCowSnapshotExtraData.disk_size.off).take 8),
          icount := QCowSnapshotExtraData.icount.decode ((t.1.drop QCowSnapshotExtraData.icount.off).take 8),
          unknownExtra := t.2.1, idStr := t.2.2.1, name := t.2.2.2.1, entrySize := t.2.2.2.2 - offset }
  else .error .eof

/-- `QCow2.snapshots`: `nb_snapshots` entries, each at the next 8-byte aligned offset -/
def readSnapsFull (fh : File) : Nat → Nat → Except Err (List SnapFull)
  | 0, _ => .ok []
  | n+1, offset =>
    match readSnapFull fh offset with
    | .error e => .error e
    | .ok s =>
      match readSnapsFull fh n (offset + align8 s.entrySize) with
      | .error e => .error e
      | .ok rest => .ok (s :: rest)

structure QMeta where
  size : Nat
  clusterSize : Nat
  version : Nat
  l1Size : Nat
  l1Offset : Nat
  nbSnapshots : Nat
  snapshotsOffset : Nat
  headerLength : Nat
  incompat : Nat
  compressionType : Nat
  backingFile : Option Bytes            -- auto_backing_file (exact bytes; `.decode()` by the caller)
  backingFormat : Option Bytes          -- stored bytes (the code exposes `.decode().upper()`)
  dataFile : Option Bytes
  featureTable : Option Bytes
  bitmaps : Option (List Nat)           -- nb_bitmaps, reserved32, bitmap_directory_size, bitmap_directory_offset
  crypto : Option (List Nat)            -- offset, length
  unknown : List Qcow2.Ext
  exts : List Qcow2.Ext
  snapshots : Except Err (List SnapFull)     -- the `snapshots` property is evaluated on demand

/-- everything `QCow2(fh, data_file=…, backing_file=…)` exposes, plus `.snapshots` -/
def qcow2 (fh : File) (dataFile : Option File) (haveBacking : Bool) : Except Err QMeta := do
  let q ← Qcow2.open fh dataFile (if haveBacking then some (fun _ _ => .ok []) else none) false (fun _ _ => .error .other)
  let h ← Qcow2.readHdr fh
  let offs := extDataOffsets h.headerLength q.exts
  let dataOf := fun (m : Nat) => (lastExt q.exts offs m).map (·.1.data)
  let structOf := fun (m : Nat) (sz : Nat) (flds : List Field) =>
    (lastExt q.exts offs m).map (fun p => let raw := fh.read p.2 sz; flds.map (fun f => f.decode ((raw.drop f.off).take f.width)))
  let snaps := readSnapsFull fh h.nbSnapshots h.snapshotsOffset
  pure { size := q.size, clusterSize := q.cs, version := q.version, l1Size := q.l1Size, l1Offset := q.l1Offset,
         nbSnapshots := h.nbSnapshots, snapshotsOffset := h.snapshotsOffset, headerLength := h.headerLength,
         incompat := h.incompat, compressionType := q.compressionType,
         backingFile := q.backingName,
         backingFormat := dataOf QCOW2_EXT_MAGIC_BACKING_FORMAT,
         dataFile := dataOf QCOW2_EXT_MAGIC_DATA_FILE,
         featureTable := dataOf QCOW2_EXT_MAGIC_FEATURE_TABLE,
         bitmaps := structOf QCOW2_EXT_MAGIC_BITMAPS Qcow2BitmapHeaderExt.size
           [Qcow2BitmapHeaderExt.nb_bitmaps, Qcow2BitmapHeaderExt.reserved32, Qcow2BitmapHeaderExt.bitmap_directory_size,
            Qcow2BitmapHeaderExt.bitmap_directory_offset],
         crypto := structOf QCOW2_EXT_MAGIC_CRYPTO_HEADER Qcow2CryptoHeaderExtension.size
           [Qcow2CryptoHeaderExtension.offset, Qcow2CryptoHeaderExtension.length],
         unknown := q.exts.filter (fun e => !KNOWN_EXT.contains e.magic),
         exts := q.exts, snapshots := snaps }

end qcow2

/-! ## VHDX -/
section vhdx
open Hv.Extracted.vhdx

/-- one of the two 4 KiB headers, all exposed fields -/
structure VHeader where
  signature : Bytes
  checksum : Nat
  seq : Nat
  fileWriteGuid : Bytes
  dataWriteGuid : Bytes
  logGuid : Bytes
  logVersion : Nat
  version : Nat
  logLength : Nat
  logOffset : Nat
  deriving Repr, DecidableEq

def readVHeader (fh : File) (off : Nat) : Except Err VHeader :=
  let hs := header.size
  if off + hs ≤ fh.size then
    let f := fun (fld : Field) => fld.decode (slice fh.byte (off + fld.off) fld.width)
    let c := fun (p : Nat × Nat) => slice fh.byte (off + p.1) p.2
    .ok { signature := c header.signature, checksum := f header.checksum, seq := f header.sequence_number,
          fileWriteGuid := c header.file_write_guid, dataWriteGuid := c header.data_write_guid, logGuid := c header.log_guid,
          logVersion := f header.log_version, version := f header.version, logLength := f header.log_length,
          logOffset := f header.log_offset }
  else .error .eof

/-- `self.header = header1 if header1.sequence_number > header2.sequence_number else header2` -/
def chooseHeader (h1 h2 : VHeader) : VHeader := if h1.seq > h2.seq then h1 else h2

/-- `bytes.decode("utf-16-le")` succeeds: even length, surrogates properly paired -/
def utf16Units : Bytes → Option (List Nat)
  | [] => some []
  | [_] => none
  | a :: b :: rest => (utf16Units rest).map (fun l => (a.toNat + 256 * b.toNat) :: l)

def unitsValid : List Nat → Bool
  | [] => true
  | u :: rest =>
    if 0xD800 ≤ u ∧ u < 0xDC00 then
      match rest with
      | v :: rest' => (0xDC00 ≤ v ∧ v < 0xE000) && unitsValid rest'
      | [] => false
    else if 0xDC00 ≤ u ∧ u < 0xE000 then false
    else unitsValid rest

def utf16Valid (b : Bytes) : Bool := match utf16Units b with | some u => unitsValid u | none => false

/-- `self.entries[key] = value` in table order -/
def bdictSet (d : List (Bytes × Bytes)) (k v : Bytes) : List (Bytes × Bytes) :=
  if d.any (·.1 = k) then d.map (fun e => if e.1 = k then (k, v) else e) else d ++ [(k, v)]

def locatorDict (es : List (Bytes × Bytes)) : List (Bytes × Bytes) :=
  es.foldl (fun d e => bdictSet d e.1 e.2) []

structure VMeta where
  hdr : VHeader
  seqs : Nat × Nat
  size : Nat
  blockSize : Nat
  hasParent : Bool
  sectorSize : Nat
  physSectorSize : Option Nat
  diskId : Bytes
  locatorType : Option Bytes
  locator : List (Bytes × Bytes)           -- dict: UTF-16-LE key / value bytes

/-- what `VHDX(fh)` exposes (parent opening is the caller's business) -/
def vhdx (fh : File) : Except Err VMeta := do
  let v ← Vhdx.open fh none
  let h1 ← readVHeader fh (1 * ALIGNMENT)
  let h2 ← readVHeader fh (2 * ALIGNMENT)
  let rt ← Vhdx.regionTable fh (3 * ALIGNMENT)
  let me ← Vhdx.regionGet rt METADATA_REGION_GUID
  let md ← Vhdx.metadataTable fh me.fileOffset
  -- every key / value of every locator in the table is decoded when the table is built
  let locs := md.filterMap (fun e => match e.2 with | .parentLocator ty es => some (ty, es) | _ => none)
  if locs.any (fun l => l.2.any (fun e => !utf16Valid e.1 || !utf16Valid e.2)) then throw .value
  let pss := match Vhdx.metaGet md PHYSICAL_SECTOR_SIZE_GUID with | some (.physicalSector n) => some n | _ => none
  let loc := match Vhdx.metaGet md PARENT_LOCATOR_GUID with | some (.parentLocator ty es) => some (ty, es) | _ => none
  pure { hdr := chooseHeader h1 h2, seqs := (h1.seq, h2.seq), size := v.size, blockSize := v.blockSize,
         hasParent := v.hasParent, sectorSize := v.sectorSize, physSectorSize := pss, diskId := v.diskId,
         locatorType := if v.hasParent then loc.map (·.1) else none,
         locator := if v.hasParent then locatorDict v.locator else [] }

end vhdx

/-! ## VMDK descriptor -/
section vmdk
open Hv.VmdkDesc

/-- the key/value branch of `DiskDescriptor.parse` for one (already stripped) line:
    `setting, _, value = line.partition("="); setting.strip(); value.strip(' "')` -/
def kvLine (line : Str) : Str × Str :=
  let p := partition '=' line
  (strip p.1, stripChars [' ', '"'] p.2.2)

/-- `descriptor_buf.split(b"\x00", 1)[0]` -/
def untilNul (b : Bytes) : Bytes := b.takeWhile (· ≠ 0)

/-- `SparseDisk.__init__`: the bytes of the embedded descriptor text (`none` = no descriptor attribute) -/
def embeddedDescriptor (fh : File) : Except Err (Option Bytes) := do
  let _ ← Vmdk.openSparse fh none 0 (fun _ _ => .error .other)
  let h0 ← Vmdk.readHeader fh 0
  match h0.kind with
  | .sesparse => pure none
  | _ =>
    let h ← (if h0.gdOffset = 2 ^ 64 - 1 then Vmdk.readHeader fh (fh.size - Vmdk.FOOTER_BACK) else .ok h0)
    if h.kind = .hosted ∧ h.descSize > 0 then
      pure (some (untilNul (fh.read (h.descOffset * Vmdk.S) (h.descSize * Vmdk.S))))
    else pure none

end vmdk

/-! ## VHD / VDI / HDS headers -/
section headers

structure KV where
  ints : List (String × Nat)
  blobs : List (String × Bytes)

open Hv.Extracted.vhd in
def vhd (fh : File) : Except Err KV := do
  let v ← Vhd.open fh
  let fp ← Vhd.footerPos fh
  let fsz := footer.size
  let fi := fun (f : Field) => fh.field fp fsz f
  let fc := fun (p : Nat × Nat) => fh.chars fp fsz p.1 p.2
  let base : List (String × Nat) :=
    [("size", v.size), ("features", ← fi footer.features), ("version", ← fi footer.version), ("data_offset", ← fi footer.data_offset),
     ("timestamp", ← fi footer.timestamp), ("creator_application", ← fi footer.creator_application),
     ("creator_version", ← fi footer.creator_version), ("creator_host_os", ← fi footer.creator_host_os),
     ("original_size", ← fi footer.original_size), ("current_size", ← fi footer.current_size),
     ("disk_geometry", ← fi footer.disk_geometry), ("disk_type", ← fi footer.disk_type), ("checksum", ← fi footer.checksum)]
  let blobs : List (String × Bytes) := [("cookie", ← fc footer.cookie), ("unique_id", ← fc footer.unique_id)]
  match v.kind with
  | .fixed => pure ⟨base ++ [("dynamic", 0)], blobs⟩
  | .dynamic =>
    let d ← fi footer.data_offset
    let hsz := dynamic_header.size
    let di := fun (f : Field) => fh.field d hsz f
    let dc := fun (p : Nat × Nat) => fh.chars d hsz p.1 p.2
    pure ⟨base ++ [("dynamic", 1), ("table_offset", v.tableOffset), ("max_table_entries", v.maxEntries), ("block_size", v.blockSize),
                   ("dyn_data_offset", ← di dynamic_header.data_offset), ("header_version", ← di dynamic_header.header_version),
                   ("dyn_checksum", ← di dynamic_header.checksum), ("parent_timestamp", ← di dynamic_header.parent_timestamp)],
          blobs ++ [("dyn_cookie", ← dc dynamic_header.cookie), ("parent_unique_id", ← dc dynamic_header.parent_unique_id),
                    ("parent_unicode_name", ← dc dynamic_header.parent_unicode_name)]⟩

open Hv.Extracted.vdi in
def vdi (fh : File) : Except Err KV := do
  let v ← Vdi.open fh none
  let z := HeaderDescriptor.size
  let fi := fun (f : Field) => fh.field 0 z f
  let fc := fun (p : Nat × Nat) => fh.chars 0 z p.1 p.2
  pure ⟨[("size", v.size), ("block_size", v.blockSize), ("sector_size", v.sectorSize), ("data_offset", v.dataOffset),
         ("blocks_offset", ← fi HeaderDescriptor.BlocksOffset), ("blocks_in_hdd", ← fi HeaderDescriptor.BlocksInHDD),
         ("version", ← fi HeaderDescriptor.Version), ("header_size", ← fi HeaderDescriptor.HeaderSize),
         ("image_type", ← fi HeaderDescriptor.ImageType), ("image_flags", ← fi HeaderDescriptor.ImageFlags),
         ("cylinders", ← fi HeaderDescriptor.NumCylinders), ("heads", ← fi HeaderDescriptor.NumHeads),
         ("sectors", ← fi HeaderDescriptor.NumSectors), ("block_extra", ← fi HeaderDescriptor.BlockExtraData),
         ("blocks_allocated", ← fi HeaderDescriptor.BlocksAllocated), ("map_len", v.map.size)],
        [("uuid", ← fc HeaderDescriptor.UUIDVDI), ("uuid_snap", ← fc HeaderDescriptor.UUIDSNAP),
         ("uuid_link", ← fc HeaderDescriptor.UUIDLink), ("uuid_parent", ← fc HeaderDescriptor.UUIDParent)]⟩

open Hv.Extracted.hdd in
def hds (fh : File) : Except Err KV := do
  let v ← Hds.open fh none
  let z := pvd_header.size
  let fi := fun (f : Field) => fh.field 0 z f
  let inUse ← fi pvd_header.m_DiskInUse
  pure ⟨[("size", v.size), ("cluster_size", v.clusterSize), ("bat_multiplier", v.mult), ("bat_len", v.bat.size),
         ("data_offset", ← fi pvd_header.m_FirstBlockOffset), ("in_use", if inUse = SIGNATURE_DISK_IN_USE then 1 else 0),
         ("type", ← fi pvd_header.m_Type), ("heads", ← fi pvd_header.m_Heads), ("cylinders", ← fi pvd_header.m_Cylinders),
         ("flags", ← fi pvd_header.m_Flags), ("ext_offset", ← fi pvd_header.m_FormatExtensionOffset)],
        [("sig", ← fh.chars 0 z pvd_header.m_Sig.1 pvd_header.m_Sig.2)]⟩

end headers

/-! ## Parallels `DiskDescriptor.xml` over an abstract element tree

The tree is what the real XML parser (defusedxml → `xml.etree.ElementTree`) produced: tag, text
(`none` for an element without text) and children; attributes and tails are not used by the code. -/
section hdd

inductive Elem where
  | node (tag : String) (text : Option String) (children : List Elem)

def Elem.tag : Elem → String | .node t _ _ => t
def Elem.text : Elem → Option String | .node _ t _ => t
def Elem.children : Elem → List Elem | .node _ _ c => c

/-- `element.find(tag)`: first direct child with the tag -/
def Elem.find (e : Elem) (tag : String) : Option Elem := e.children.find? (fun c => c.tag = tag)
/-- `element.iterfind(tag)` -/
def Elem.findAll (e : Elem) (tag : String) : List Elem := e.children.filter (fun c => c.tag = tag)

/-- `int(text)` for the decimal strings the descriptor uses: optional surrounding ASCII whitespace,
    optional sign, ASCII digits (other accepted spellings of Python `int` are refused: `.other`) -/
def pyInt (s : String) : Except Err Int :=
  let cs := s.toList
  let ws := fun (c : Char) => c = ' ' ∨ c = '\n' ∨ c = '\t' ∨ c = '\r'
  let cs := ((cs.dropWhile ws).reverse.dropWhile ws).reverse
  let (neg, ds) := match cs with
    | '-' :: r => (true, r)
    | '+' :: r => (false, r)
    | r => (false, r)
  if ds.isEmpty ∨ ¬ ds.all (fun c => '0' ≤ c ∧ c ≤ '9') then .error .value
  else
    let n : Nat := ds.foldl (fun (a : Nat) c => a * 10 + (c.toNat - 48)) 0
    .ok (if neg then - (n : Int) else (n : Int))

def hexDigitVal (c : Char) : Option Nat :=
  if '0' ≤ c ∧ c ≤ '9' then some (c.toNat - 48)
  else if 'a' ≤ c ∧ c ≤ 'f' then some (c.toNat - 87)
  else if 'A' ≤ c ∧ c ≤ 'F' then some (c.toNat - 55)
  else none

/-- `uuid.UUID(hex)`: `urn:` / `uuid:` prefixes removed, braces stripped, hyphens removed, 32 hex digits -/
def pyUUID (s : String) : Except Err Nat :=
  let s := (s.replace "urn:" "").replace "uuid:" ""
  let cs := s.toList
  let br := fun (c : Char) => c = '{' ∨ c = '}'
  let cs := ((cs.dropWhile br).reverse.dropWhile br).reverse
  let cs := cs.filter (· ≠ '-')
  if cs.length ≠ 32 then .error .value
  else match cs.mapM hexDigitVal with
    | none => .error .value
    | some ds => .ok (ds.foldl (fun a d => a * 16 + d) 0)

def req (o : Option α) : Except Err α := match o with | some a => .ok a | none => .error .other   -- AttributeError on None

/-- `.text` of a required child; `UUID(None)` / `int(None)` raise TypeError -/
def childText (e : Elem) (tag : String) : Except Err (Option String) := (req (e.find tag)).map (·.text)

structure Image where
  guid : Nat
  type : Option String
  file : Option String

structure Storage where
  start : Int
  end_ : Int
  images : List Image

structure Shot where
  guid : Nat
  parent : Nat

structure Descriptor where
  storages : List Storage
  topGuid : Option Nat
  shots : List Shot

def fromXml (name : String) (e : Elem) : Except Err Elem :=
  if e.tag ≠ name then .error .value else .ok e

def parseImage (e : Elem) : Except Err Image := do
  let e ← fromXml "Image" e
  let g ← childText e "GUID"
  let t ← childText e "Type"
  let f ← childText e "File"
  let g ← (match g with | some s => pyUUID s | none => .error .other)
  pure ⟨g, t, f⟩

def parseStorage (e : Elem) : Except Err Storage := do
  let e ← fromXml "Storage" e
  let s ← childText e "Start"
  let s ← (match s with | some t => pyInt t | none => .error .other)
  let en ← childText e "End"
  let en ← (match en with | some t => pyInt t | none => .error .other)
  let images ← (e.findAll "Image").mapM parseImage
  pure ⟨s, en, images⟩

def parseShot (e : Elem) : Except Err Shot := do
  let e ← fromXml "Shot" e
  let g ← childText e "GUID"
  let g ← (match g with | some s => pyUUID s | none => .error .other)
  let p ← childText e "ParentGUID"
  let p ← (match p with | some s => pyUUID s | none => .error .other)
  pure ⟨g, p⟩

/-- `Descriptor.__init__` -/
def descriptor (root : Elem) : Except Err Descriptor := do
  let sd ← req (root.find "StorageData")       -- from_xml(None): AttributeError
  let sd ← fromXml "StorageData" sd
  let storages ← (sd.findAll "Storage").mapM parseStorage
  let sn ← req (root.find "Snapshots")
  let sn ← fromXml "Snapshots" sn
  let top ← (match sn.find "TopGUID" with
    | none => pure none
    | some t => match t.text with
      | some s => (pyUUID s).map some
      | none => .error .other)
  let shots ← (sn.findAll "Shot").mapM parseShot
  pure ⟨storages, top, shots⟩

end hdd

end Hv.Meta
